/-
Line-protocol machine for C01 and C04: runs the ChunkStore model (`ChunkStore.hstep`, the very
functions the theorems are about) next to the abstract store (`StoreSpec.step`) and judges the
implementation's observations with `StoreSpec.judge` / `StoreSpec.judgeFile`.

Ops and output formats: see harness/store_h.cpp.  `trace` = the C04 build of the harness (write
tracing linked in): outputs carry ` wiped=<id>:<bytes written>:<all zero>` for files removed by
the operation.
-/
import EphVerif.Driver.Proto
import EphVerif.Model.ChunkStore

open EphVerif EphVerif.Proto EphVerif.ChunkStore
open EphVerif.StoreSpec (Op Obs W)

namespace EphVerif.StoreMonitor

/-! ### bytes -/

def patternBytes (seed len : Nat) : Bytes :=
  (List.range len).map fun i => (seed + i * 7 + (i / 256) * 13) % 256

def parseData (s : String) : Option Bytes :=
  if s == "-" then some []
  else if s.startsWith "r" then
    match ((s.drop 1).toString).splitOn "n" with
    | [a, b] => match a.toNat?, b.toNat? with
      | some seed, some len => some (patternBytes seed len)
      | _, _ => none
    | _ => none
  else natsOfHex s

def fnv1a64 (bs : Bytes) : UInt64 :=
  bs.foldl (fun h b => (h ^^^ UInt64.ofNat b) * 1099511628211) 14695981039346656037

def hex16 (v : UInt64) : String :=
  String.ofList ((List.range 16).map fun i => hexDigit ((v.toNat / 16 ^ (15 - i)) % 16))

def fmtBytes (bs : Bytes) : String :=
  if bs.isEmpty then "-"
  else if bs.length ≤ 32 then hexOfNats bs
  else s!"{bs.length}:{hex16 (fnv1a64 bs)}"

/-- recover bytes from their printed form: literal hex, or one of the candidates, or a value no
    byte string equals (so that every comparison with expected bytes fails) -/
def decodeBytes (cands : List Bytes) (s : String) : Bytes :=
  if s == "-" then []
  else if s.contains ':' then
    match cands.find? (fun c => fmtBytes c == s) with
    | some c => c
    | none => [256]
  else (natsOfHex s).getD [256]

def joinSorted (l : List String) : String :=
  if l.isEmpty then "-" else ",".intercalate (l.mergeSort (fun a b => decide (a ≤ b)))

/-! ### state -/

structure Pending where
  pre : FS
  ops : List FsOp
deriving Inhabited

structure St where
  inited : Bool := false
  nodeMode : Bool := false
  nc : NodeCfg := default
  h : HWorld := default
  spec : W := default
  dirExists : Bool := false
  pending : Option Pending := none
  /-- files the test planted behind the back of the *running* instance: no daemon wrote them and
      no start-up has seen them yet, so the property says nothing about them until the next start-up -/
  excused : List String := []
  /-- ids whose latest store ran under an injected I/O error: the record may be memory-only -/
  unpersisted : List String := []
deriving Inhabited

def vclockStart : Int := 1000000000000

def init0 : St := { h := { w := { now := vclockStart, sys := { recs := [], fs := [] }, lastCleanup := vclockStart },
                           up := false, cleaned := vclockStart },
                    spec := { now := vclockStart, s := [] } }

def params (st : St) : StoreSpec.Params :=
  { defaultTtl := st.nc.store.defaultTtl, minTtl := st.nc.minTtl, maxTtl := st.nc.maxTtl, graceTtl := st.nc.minTtl }

/-! ### formatting model observations -/

def labelOf : Name → String
  | .chunk id => id
  | .other n => "!" ++ n

def fmtFs (fs : FS) : String := joinSorted (fs.map fun e => labelOf e.1 ++ "=" ++ fmtBytes e.2)

def fmtListing (l : List (String × Int × Bool × Nat)) : String :=
  joinSorted (l.map fun e => s!"{e.1}:{e.2.1}:{e.2.2.2}")

/-- what the write tracer reports for an operation list: per removed file, the bytes written to it
    within this operation since it was last created (or since the operation began) and whether
    they were all zero -/
def wipedOf (ops : List FsOp) : List String :=
  let rec go (ops : List FsOp) (acc : List (Name × Nat × Bool)) (out : List String) : List String :=
    match ops with
    | [] => out
    | .create p :: r => go r (aset acc p (0, true)) out
    | .append p bs :: r =>
      let c := (aget acc p).getD (0, true)
      go r (aset acc p (c.1 + bs.length, c.2 && bs.all (· == 0))) out
    | .zero p _ len :: r =>
      let c := (aget acc p).getD (0, true)
      go r (aset acc p (c.1 + len, c.2)) out
    | .remove p :: r =>
      let c := (aget acc p).getD (0, true)
      go r (adel acc p) (out ++ [s!"{labelOf p}:{c.1}:{if c.2 then 1 else 0}"])
  go ops [] []

def wipedSuffix (trace : Bool) (ops : List FsOp) : String :=
  let w := wipedOf ops
  if trace && !w.isEmpty then " wiped=" ++ joinSorted w else ""

/-- mutating file-system events the tracer counts (empty writes are not events) -/
def countEvents (ops : List FsOp) : Nat :=
  (ops.filter fun o => match o with | .append _ bs => !bs.isEmpty | .zero _ _ len => len != 0 | _ => true).length

def fmtHit (o : Option Bytes) : String := match o with | some b => "hit " ++ fmtBytes b | none => "miss"

/-! ### parsing implementation observations -/

def candidates (st : St) (id : String) : List Bytes :=
  (st.spec.s.filter (·.id == id)).flatMap fun e => [e.bytes, e.wire]

def parseHit (st : St) (id : String) (s : String) : Option (Option Bytes) :=
  match s.splitOn " " with
  | ["miss"] => some none
  | "hit" :: x :: _ => some (some (decodeBytes (candidates st id) x))
  | _ => none

def parseExp (s : String) : Option Int :=
  if s.startsWith "exp=" then ((s.drop 4).toString).toInt? else none

def parseRec (st : St) (id : String) (s : String) : Option (Option (Bytes × Int)) :=
  match s.splitOn " " with
  | ["miss"] => some none
  | ["hit", x, e] => (parseExp e).map fun d => some (decodeBytes (candidates st id) x, d)
  | _ => none

def parseReq (st : St) (id : String) (s : String) : Option (Option Bytes) :=
  match s.splitOn " " with
  | ["nack"] => some none
  | ["none"] => some none
  | ["served", x] => some (some (decodeBytes (candidates st id) x))
  | _ => none

def parseListing (s : String) : Option (List (String × Int)) :=
  if s == "-" then some [] else
  (s.splitOn ",").mapM fun item =>
    match item.splitOn ":" with
    | [id, e, _] => e.toInt?.map fun d => (id, d)
    | _ => none

def parseLs (s : String) : Option (List (String × String)) :=
  if s == "-" || s == "nodir" then some [] else
  (s.splitOn ",").mapM fun item =>
    match item.splitOn "=" with
    | [l, c] => some (l, c)
    | _ => none

def verdictOf (o : Option String) : String := match o with | none => "ok" | some c => "viol:" ++ c

/-- strip ` wiped=...` from an implementation line -/
def splitWiped (s : String) : String × String :=
  match s.splitOn " wiped=" with
  | [a, b] => (a, b)
  | _ => (s, "")

/-! ### configuration -/

def clampI (v lo hi : Int) : Int := if v < lo then lo else if v > hi then hi else v

/-- `sanitize_config` for the three TTL fields (property C02 owns this; here only so that the
    `init node` line can be echoed) -/
def sanitizeNode (d mn mx : Int) : Int × Int × Int :=
  let mn' := clampI mn 1 86400
  let mx' := clampI (if mx < mn' then mn' else mx) 1 86400
  (clampI d mn' mx', mn', mx')

def boolTok (s : String) : Bool := s == "1"

/-! ### crash-state resolution -/

def touches (p : Name) : FsOp → Bool
  | .create q | .append q _ | .zero q _ _ | .remove q => q == p

/-- contents file `p` can have after a crash inside `ops`: every prefix of the operations on `p` -/
def prefixStates (pre : FS) (ops : List FsOp) (p : Name) : List (Option Bytes) :=
  let mine := ops.filter (touches p)
  (List.range (mine.length + 1)).map fun k => aget (applyOps pre (mine.take k)) p

def namesOf (pre : FS) (ops : List FsOp) : List Name :=
  let a := pre.map (·.1)
  let b := ops.map fun o => match o with | .create q | .append q _ | .zero q _ _ | .remove q => q
  (a ++ b).eraseDups

def nameOfLabel (l : String) : Name :=
  if l.startsWith "!" then .other (l.drop 1).toString else .chunk l

/-- match the implementation's directory listing after a crash against the model's possible
    crash states, file by file; returns the adopted file system or the first unexplained label -/
def resolveCrash (pd : Pending) (impl : List (String × String)) : Except String FS :=
  let names := (namesOf pd.pre pd.ops ++ impl.map (fun e => nameOfLabel e.1)).eraseDups
  names.foldlM (init := ([] : FS)) fun acc p =>
    let seen : Option String := (impl.find? (fun e => nameOfLabel e.1 == p)).map (·.2)
    let cands := prefixStates pd.pre pd.ops p
    let hit := cands.find? fun c =>
      match c, seen with
      | none, none => true
      | some b, some s => fmtBytes b == s
      | _, _ => false
    match hit with
    | some (some b) => .ok (acc ++ [(p, b)])
    | some none => .ok acc
    | none => .error (labelOf p)

/-! ### the machine -/

def parseOp (st : St) (tok : List String) (implHint : Option String) : Option Op :=
  match tok with
  | ["put", id, d, ttl] => do
    let bs ← parseData d
    let t ← ttl.toInt?
    pure (.store id bs t (List.replicate 12 0) false)
  | ["nstore", id, d, ttl] => do
    let plain ← parseData d
    let t ← ttl.toInt?
    -- the ciphertext and nonce are the implementation's random choice: take them as a hint
    let (cipher, nonce) := match implHint.map (·.splitOn " ") with
      | some ("ok" :: c :: n :: _) => ((natsOfHex c).getD plain, (natsOfHex n).getD [])
      | _ => (plain, List.replicate 12 0)
    if st.nodeMode then pure (.nstore id plain cipher nonce t) else none
  | ["get", id] => some (.lookup id)
  | ["rec", id] => some (.record id)
  | ["fetch", id] => if st.nodeMode then some (.fetch id) else none
  | ["req", id] => if st.nodeMode then some (.request id) else none
  | ["list"] => if st.nodeMode then some .list else none
  | ["sweep"] => some .sweep
  | ["tick"] => if st.nodeMode then some .tick else none
  | ["adv", n] => n.toNat?.map .advance
  | _ => none

/-- model output for an executed op -/
def fmtObs (st : St) (op : Op) (obs : Obs) (ops : List FsOp) (trace : Bool) : String :=
  let sfx := wipedSuffix trace ops
  match op, obs with
  | .store .., _ => "ok" ++ sfx
  | .nstore id _ cipher nonce _, _ =>
    let e := match aget ((hstep st.nc st.h (.op op)).w.sys.recs) id with | some r => r.expires | none => 0
    s!"ok {hexOrDash (hexOfNats cipher)} {hexOfNats nonce} exp={e}" ++ sfx
  | .lookup _, .bytes o => fmtHit o
  | .fetch _, .bytes o => fmtHit o
  | .record _, .record o => (match o with | some (b, e) => s!"hit {fmtBytes b} exp={e}" | none => "miss")
  | .request _, .bytes o => (match o with | some b => "served " ++ fmtBytes b | none => "nack")
  | .list, .listing _ => fmtListing (nodeList st.h.w.sys.recs st.h.w.now)
  | .sweep, .removed l => joinSorted l ++ sfx
  | .tick, .removed l => joinSorted l ++ sfx
  | .tick, .unit => "-"
  | .advance _, _ => "ok"
  | _, _ => "?"

def implObs (st : St) (op : Op) (line : String) : Option Obs :=
  match op with
  | .lookup id => (parseHit st id line).map .bytes
  | .fetch id => (parseHit st id line).map .bytes
  | .record id => (parseRec st id line).map .record
  | .request id => (parseReq st id line).map .bytes
  | .list => (parseListing line).map .listing
  | .sweep => some (.removed [])
  | .tick => some .unit
  | _ => some .unit

/-- judge the files of a directory listing (instance running, persistence + wipe-on-expiry on) -/
def judgeLs (st : St) (entries : List (String × String)) : Option String :=
  if !(st.h.up && st.nc.store.persistent && st.nc.store.wipeOnExpiry) then none else
  let present := entries.findSome? fun (l, c) =>
    -- a file whose wipe failed with an injected I/O error is on the store's retry list: the next
    -- sweep without error must remove it, until then the property cannot ask for more
    if l.startsWith "!" || st.excused.contains l || (st.h.w.sys.pending.map labelOf).contains l then none
    else if l.startsWith "?" then some "file-outlives-chunk"
    else StoreSpec.judgeFile st.spec.s st.h.cleaned l (decodeBytes (candidates st l) c)
  match present with
  | some v => some v
  | none =>
    -- "a chunk's file exists while the chunk is live": the file of a live, successfully persisted chunk is there
    (StoreSpec.missingFile st.spec.s st.spec.now (entries.map (·.1)) st.unpersisted).map fun _ => "file-missing"

def doInit (st : St) (tok : List String) (trace : Bool) : Option (St × String) :=
  let mk (node : Bool) (d mn mx ci : Int) (rest : List String) : Option (St × String) :=
    match rest with
    | p :: w :: passes :: more =>
      let keep := more == ["keep"]
      let np := match passes.toNat? with | some n => if n == 0 then 1 else n % 256 | none => 1
      let np := if np == 0 then 1 else np
      let cfg : Cfg := { defaultTtl := d, persistent := boolTok p, wipeOnExpiry := boolTok w, passes := np }
      let nc : NodeCfg := { store := cfg, minTtl := mn, maxTtl := mx, cleanupInterval := ci }
      let fs0 : FS := if keep then st.h.w.sys.fs else []
      let off : HWorld := { w := { now := st.h.w.now, sys := { recs := [], fs := fs0 }, lastCleanup := st.h.w.now },
                            up := false, cleaned := st.h.w.now }
      let ops := ctorOps cfg fs0
      let h' := hstep nc off .restart
      let st' : St := { inited := true, nodeMode := node, nc := nc, h := h', spec := { now := st.spec.now, s := [] },
                        dirExists := (keep && st.dirExists) || cfg.persistent, pending := none }
      let out := if node then s!"ok d={d} min={mn} max={mx} ci={ci}" else "ok"
      some (st', out ++ wipedSuffix trace ops)
    | _ => none
  match tok with
  | "init" :: "store" :: d :: rest => d.toInt?.bind fun dv => mk false dv 1 86400 300 rest
  | "init" :: "node" :: d :: mn :: mx :: ci :: rest =>
    match d.toInt?, mn.toInt?, mx.toInt?, ci.toInt? with
    | some dv, some mnv, some mxv, some civ =>
      let (d', mn', mx') := sanitizeNode dv mnv mxv
      mk true d' mn' mx' civ rest
    | _, _, _, _ => none
  | _ => none

/-- a file the implementation wiped (and the model wipes too) was not overwritten with exactly
    passes x size zero bytes before its removal; a wipe that did not happen at all is not judged
    here but by the next directory listing -/
def badWipe (modelW : List String) (implW : String) : Bool :=
  if implW == "" then false else
  (implW.splitOn ",").any fun e =>
    !modelW.contains e && modelW.any fun m => (m.splitOn ":").head? == (e.splitOn ":").head?

/-- run a parsed op on the model (under the injected I/O errors `φ`) and the abstract store -/
def execOp (st : St) (op : Op) (impl : Option String) (trace : Bool) (φ : Faults := []) : St × String × String :=
  let ops := fsOpsOfF st.nc φ st.h.w op
  let r := stepF st.nc φ st.h.w op
  let out := fmtObs st op r.2 ops trace
  let verdict := match impl with
    | none => "ok"
    | some line =>
      let (body, wiped) := splitWiped line
      let v1 := match implObs st op body with
        | some o => verdictOf (StoreSpec.judge (params st) st.spec op o)
        | none => "ok"     -- unparsable: shows up as a divergence
      if v1 != "ok" then v1
      -- under an injected write error the overwrite cannot be completed: only the removal is demanded
      else if trace && φ.isEmpty && st.nc.store.persistent && st.nc.store.wipeOnExpiry && badWipe (wipedOf ops) wiped
        then "viol:wipe-overwrite" else "ok"
  let stored : Option String := match op with
    | .store id .. => some id
    | .nstore id .. => some id
    | _ => none
  let unp := match stored with
    | some id => if φ.isEmpty then st.unpersisted.filter (· != id) else id :: st.unpersisted
    | none => st.unpersisted
  let st' := { st with h := hstep st.nc st.h (.fail op φ), spec := StoreSpec.step (params st) st.spec op, unpersisted := unp }
  (st', out, verdict)

def stepLine (trace : Bool) (st : St) (tok : List String) (_line : String) (impl : Option String) : St × String × String :=
  match tok with
  | "init" :: _ =>
    match doInit st tok trace with
    | some (st', out) => (st', out, "ok")
    | none => (st, "bad-op", "ok")
  | ["ls"] =>
    match st.pending, impl.bind parseLs with
    | some pd, some entries =>
      -- first listing after a crash: adopt the implementation's crash state if the model can explain it
      match resolveCrash pd entries with
      | .ok fs =>
        let st' := { st with h := { st.h with w := { st.h.w with sys := { recs := [], fs := fs, pending := [] } } }, pending := none }
        (st', if st.dirExists then fmtFs fs else "nodir", "ok")
      | .error l => ({ st with pending := none }, "unexplained-crash-state:" ++ l, "ok")
    | _, _ =>
      let out := if st.dirExists then fmtFs st.h.w.sys.fs else "nodir"
      let verdict := match impl.bind parseLs with
        | some entries => verdictOf (judgeLs st entries)
        | none => "ok"
      (st, out, verdict)
  | ["plant", l, d] =>
    match parseData d with
    | some bs =>
      let fs := aset st.h.w.sys.fs (nameOfLabel l) bs
      ({ st with h := { st.h with w := { st.h.w with sys := { st.h.w.sys with fs := fs } } }, dirExists := true,
                 excused := if st.h.up then l :: st.excused else st.excused }, "ok", "ok")
    | none => (st, "bad-op", "ok")
  | ["adv", n] =>
    -- the clock also runs while no instance exists
    match n.toNat? with
    | some d =>
      ({ st with h := hstep st.nc st.h (.op (.advance d)), spec := { st.spec with now := st.spec.now + d } }, "ok", "ok")
    | none => (st, "bad-op", "ok")
  | "failat" :: k :: short :: rest =>
    if !st.inited || !st.h.up then (st, "no-instance", "ok") else
    match k.toNat?, short.toNat? with
    | some kv, some sv =>
      let φ : Faults := [(kv, sv)]
      if rest == ["restart"] then
        let ops := (wipeAllF st.nc.store φ (purgeNames st.nc.store st.h.w.sys.fs) st.h.w.sys.fs 0).1
        let st' := { st with h := hstep st.nc st.h (.restartF φ), spec := { st.spec with s := [] }, excused := [] }
        (st', "ok" ++ wipedSuffix trace ops, "ok")
      else
        match parseOp st rest impl with
        | some op => execOp st op impl trace φ
        | none => (st, "bad-op", "ok")
    | _, _ => (st, "bad-op", "ok")
  | "crashat" :: _ :: rest =>
    -- the process dies inside the op (which prefix of its file-system operations happened is
    -- settled by the next `ls`); memory is lost
    if !st.inited || !st.h.up then (st, "no-instance", "ok") else
    let ops? : Option (List FsOp) :=
      if rest == ["restart"] then some (ctorOps st.nc.store st.h.w.sys.fs)
      else (parseOp st rest none).map (fsOpsOf st.nc st.h.w)
    match ops? with
    | none => (st, "bad-op", "ok")
    | some ops =>
      ({ st with h := { st.h with up := false, w := { st.h.w with sys := { st.h.w.sys with recs := [], pending := [] } } },
                 spec := { st.spec with s := [] }, pending := some ⟨st.h.w.sys.fs, ops⟩ }, "crashed", "ok")
  | "crash" :: rest =>
    if !st.inited || !st.h.up then (st, "no-instance", "ok") else
    let completed := match impl with | some l => l.startsWith "fsops=" | none => true
    if rest == ["restart"] then
      let ops := ctorOps st.nc.store st.h.w.sys.fs
      if completed then
        let st' := { st with h := hstep st.nc st.h .restart, spec := { st.spec with s := [] }, excused := [] }
        (st', s!"fsops={countEvents ops} calls={(wipeAllF st.nc.store [] (purgeNames st.nc.store st.h.w.sys.fs) st.h.w.sys.fs 0).2.1} ok" ++ wipedSuffix trace ops, "ok")
      else
        ({ st with h := { st.h with up := false, w := { st.h.w with sys := { st.h.w.sys with recs := [], pending := [] } } },
                   spec := { st.spec with s := [] }, pending := some ⟨st.h.w.sys.fs, ops⟩ }, "crashed", "ok")
    else
      let inner := impl.map fun l => " ".intercalate ((l.splitOn " ").drop 1)
      match parseOp st rest inner with
      | none => (st, "bad-op", "ok")
      | some op =>
        let ops := fsOpsOf st.nc st.h.w op
        if completed then
          let (st', out, v) := execOp st op (inner.map fun l => " ".intercalate ((l.splitOn " ").drop 1)) trace
          (st', s!"fsops={countEvents ops} calls={callsOf st.nc st.h.w op} " ++ out, v)
        else
          ({ st with h := { st.h with up := false, w := { st.h.w with sys := { st.h.w.sys with recs := [], pending := [] } } },
                     spec := { st.spec with s := [] }, pending := some ⟨st.h.w.sys.fs, ops⟩ }, "crashed", "ok")
  | _ =>
    if !st.inited || !st.h.up then (st, "no-instance", "ok") else
    match tok with
    | ["restart"] =>
      let ops := ctorOps st.nc.store st.h.w.sys.fs
      let st' := { st with h := hstep st.nc st.h .restart, spec := { st.spec with s := [] }, excused := [] }
      (st', "ok" ++ wipedSuffix trace ops, "ok")
    | ["snap"] => (st, fmtListing (snapshot st.h.w.sys.recs), "ok")
    | _ =>
      match parseOp st tok impl with
      | some op => execOp st op impl trace
      | none => (st, "bad-op", "ok")

def machine (trace : Bool) : Machine St := { init := init0, step := stepLine trace }

end EphVerif.StoreMonitor
