/-
Shared driver-side helpers for C02 / C03: parsing of the `harness/ttl_h.cpp` line protocol and the
executable monitors (the specifications of `Spec/Ttl.lean`, `Spec/ManifestTtl.lean` evaluated on the
implementation's output lines).
-/
import EphVerif.Model.Ttl

namespace EphVerif.TtlMon
open EphVerif.Gen.C02

def vclockStart : Int := 1000000000000
def defaultWallOffset : Int := 1700000000000000000
def ns : Int := 1000000000

/-- `cfg <default> <min> <max> <rot> <amin> <burst> <awin> <apow> <hpow> <spow> [k=v ...]` -/
def parseCfg (tok : List String) : Option Cfg :=
  match tok with
  | d :: mn :: mx :: rot :: amin :: burst :: awin :: apow :: hpow :: spow :: _ => do
    let d ← d.toInt?
    let mn ← mn.toInt?
    let mx ← mx.toInt?
    let rot ← rot.toInt?
    let amin ← amin.toInt?
    let burst ← burst.toNat?
    let awin ← awin.toInt?
    let apow ← apow.toNat?
    let hpow ← hpow.toNat?
    let spow ← spow.toNat?
    some { default_chunk_ttl := d, min_manifest_ttl := mn, max_manifest_ttl := mx, key_rotation_interval := rot, announce_min_interval := amin, announce_burst_limit := burst, announce_burst_window := awin, announce_pow_difficulty := apow, handshake_pow_difficulty := hpow, store_pow_difficulty := spow }
  | _ => none

def fmtCfg (c : Cfg) : String :=
  s!"{c.default_chunk_ttl} {c.min_manifest_ttl} {c.max_manifest_ttl} {c.key_rotation_interval} {c.announce_min_interval} {c.announce_burst_limit} {c.announce_burst_window} {c.announce_pow_difficulty} {c.handshake_pow_difficulty} {c.store_pow_difficulty}"

def fmtOpt (o : Option Int) : String := match o with | some v => toString v | none => "none"

/-- value of `key=` in a list of `k=v` tokens -/
def kv (tok : List String) (key : String) : Option String :=
  tok.findSome? fun t => if t.startsWith (key ++ "=") then some (t.drop (key.length + 1)).toString else none

def kvInt (tok : List String) (key : String) : Option Int := (kv tok key).bind String.toInt?

/-- `std::from_chars` on `std::uint64_t`, base 10, whole string: digits only, no sign, fits 64 bits -/
def parseU64 (s : String) : Option Nat :=
  if s.isEmpty then none
  else if s.toList.all Char.isDigit then
    match s.toNat? with
    | some v => if v < 18446744073709551616 then some v else none
    | none => none
  else none

def fmtStore (d : C02Spec.StoreDurations) : String :=
  s!"ck={d.chunk} mf={d.manifest} sh={d.shard} an={d.announce}"

def parseStore (tok : List String) : Option C02Spec.StoreDurations := do
  let ck ← kvInt tok "ck"
  let mf ← kvInt tok "mf"
  let sh ← kvInt tok "sh"
  let an ← kvInt tok "an"
  some { chunk := ck, manifest := mf, shard := sh, announce := an }

end EphVerif.TtlMon
