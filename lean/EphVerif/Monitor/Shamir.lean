/-
Monitor for C10 (core Lean only): the specification (`Spec/Shamir.lean`) judging what the
implementation printed.  Verdicts are `ok` or `viol:<clause>[:detail]`.
-/
import EphVerif.Spec.Shamir
import EphVerif.Driver.Proto

namespace EphVerif.ShamirMonitor
open EphVerif.ShamirSpec EphVerif.Proto

/-- a share as printed: index and value bytes -/
abbrev PShare := Nat × List Nat

def parseShare (s : String) : Option PShare :=
  match s.splitOn ":" with
  | [i, v] => do
    let idx ← i.toNat?
    let bytes ← natsOfHex v
    pure (idx, bytes)
  | _ => none

def parseShares (s : String) : Option (List PShare) :=
  if s == "-" then some [] else (s.splitOn ",").mapM parseShare

/-- `ok <payload>` -/
def okPayload (line : String) : Option String :=
  if line.startsWith "ok " then some (line.drop 3).toString else none

/-- the share list of a `split` answer `ok <shares> [draws=<k>]` -/
def splitShares (impl : String) : Option (List PShare) :=
  (okPayload impl).bind fun p => parseShares ((p.splitOn " ").headD "")

/-- the number of random draws a `split` answer reports -/
def splitDraws (impl : String) : Option Nat :=
  (okPayload impl).bind fun p =>
    match p.splitOn " " with
    | [_, d] => if d.startsWith "draws=" then (d.drop 6).toString.toNat? else none
    | _ => none

def F : Field := gf256

/-! ### field operations -/

def judgeMul (a b : Nat) (impl : String) : String :=
  if impl == hexOfNats [pmul a b] then "ok" else "viol:gf-mul"

def judgeDiv (a b : Nat) (impl : String) : String :=
  if b == 0 then (if impl == "throw:invalid_argument" then "ok" else "viol:gf-div-zero")
  else match (okPayload impl).bind natsOfHex with
    | some [c] => if c < 256 && F.mul c b == a then "ok" else "viol:gf-div"
    | _ => "viol:gf-div"

def judgeDivRow (a : Nat) (impl : String) : String :=
  match natsOfHex impl with
  | some row =>
    if row.length == 255 && (row.zipIdx.all fun (c, i) => c < 256 && F.mul c (i + 1) == a) then "ok"
    else "viol:gf-div"
  | none => "viol:gf-div"

def fnvStep (h : UInt64) (b : Nat) : UInt64 := (h ^^^ b.toUInt64) * 0x100000001b3

/-- digest of a multiplication and a division function over all byte pairs (divisor ≥ 1) -/
def tableDigest (mul : Nat → Nat → Nat) (div : Nat → Nat → Nat) : Nat :=
  let h := (List.range 256).foldl (fun h a => (List.range 256).foldl (fun h b => fnvStep h (mul a b)) h) 0xcbf29ce484222325
  let h := (List.range 256).foldl (fun h a => (List.range' 1 255).foldl (fun h b => fnvStep h (div a b)) h) h
  h.toNat

def specDigest : Nat := tableDigest F.mul (fun a b => F.mul a (F.inv b))

def judgeDigest (impl : String) : String :=
  if impl == toString specDigest then "ok" else "viol:gf-table"

/-- the implementation's whole multiplication table (256 rows as collected) against the field axioms -/
def judgeField (rows : Array (Array Nat)) : String :=
  if rows.size != 256 || rows.any (·.size != 256) then "ok"      -- table not (fully) exhibited: nothing to judge
  else
    let flat : Array Nat := rows.foldl (· ++ ·) #[]
    let mul := fun a b => flat.getD (a * 256 + b) 0
    match fieldDefect mul with
    | none => "ok"
    | some ax => "viol:field:" ++ ax

def specEval (x c : Nat) (coeffs : List Nat) : Nat :=
  -- Horner: c + x (c₁ + x (c₂ + …))
  c ^^^ F.mul x (coeffs.foldr (fun cf acc => cf ^^^ F.mul x acc) 0)

def judgeEval (x c : Nat) (coeffs : List Nat) (impl : String) : String :=
  if impl == hexOfNats [specEval x c coeffs] then "ok" else "viol:eval"

/-! ### split -/

def column (shares : List PShare) (b : Nat) : List Nat := shares.map fun s => s.2.getD b 0

/-- the property's clause for `split` on valid parameters; `none` = satisfied -/
def splitDefect (secret : List Nat) (t n : Nat) (impl : String) : Option String :=
  if impl == "timeout" then some "split-terminates:no result within the deadline"
  else if impl.startsWith "crash" then some "split-terminates:crashed"
  else match splitShares impl with
    | none => some s!"split-terminates:{impl.take 40}"
    | some shares =>
      let xs := shares.map (·.1)
      if shares.length != n then some s!"split-shares:{shares.length} shares for n={n}"
      else if !distinctNonZero xs || xs.any (· ≥ 256) then some "split-shares:indices not distinct and non-zero"
      else if shares.any fun s => s.2.length != secret.length || s.2.any (· ≥ 256) then some "split-shares:share value size"
      else
        let base := shares.take t
        let bx := base.map (·.1)
        let ws := weights F bx
        let rest := shares.drop t
        let bad := (List.range secret.length).find? fun b =>
          let ys := column base b
          !(lagrangeAt F bx ws ys 0 == secret.getD b 0 &&
            rest.all fun s => lagrangeAt F bx ws ys s.1 == s.2.getD b 0)
        match bad with
        | none => none
        | some b => some s!"split-polynomial:byte {b} is not a degree<{t} sharing of the secret byte"

/-- Secrecy needs `|secret|·(t-1)` independent random coefficients: a fresh set of `t-1` draws for every secret byte.
    Two observable consequences are checked.  (1) The implementation consumed exactly that many values from its random
    device.  (2) When the (interposed) random stream is not constant, the byte polynomials do not all have the same
    random part, i.e. it is not the case that every share satisfies `value[i] ^ value[0] = secret[i] ^ secret[0]` for all
    bytes `i` (which would let a single share reveal the secret up to one byte).  `none` = satisfied. -/
def drawsDefect (secret : List Nat) (t : Nat) (constStream : Bool) (impl : String) : Option String :=
  let need := secret.length * (t - 1)
  let countDefect : Option String :=
    match splitDraws impl with
    | some k =>
      if k != need then
        some s!"split-draws:{k} draws consumed, {need} independent draws needed ({secret.length} bytes x (t-1))"
      else none
    | none => none
  let leakDefect : Option String :=
    if constStream || t < 2 then none
    else match splitShares impl with
      | some shares =>
        let s0 := secret.getD 0 0
        if !shares.isEmpty && shares.all (fun sh =>
             (List.range secret.length).all fun i => (sh.2.getD i 0 ^^^ sh.2.getD 0 0) == (secret.getD i 0 ^^^ s0))
        then some "split-draws:every share satisfies value[i]^value[0] = secret[i]^secret[0]: all bytes share one random polynomial"
        else none
      | none => none
  countDefect <|> leakDefect

def judgeSplit (secret : List Nat) (t n : Nat) (constStream : Bool) (impl : String) : String × Bool :=
  if 1 ≤ t ∧ t ≤ n ∧ n ≤ 255 then
    match splitDefect secret t n impl with
    | none =>
      match drawsDefect secret t constStream impl with
      | none => ("ok", true)
      | some d => ("viol:" ++ d, true)
    | some d => ("viol:" ++ d, false)
  else
    -- outside the property's domain: only "no crash, no hang, no shares presented as a sharing"
    if impl == "timeout" || impl.startsWith "crash" then ("viol:split-terminates:invalid parameters", false)
    else if impl.startsWith "ok" then ("viol:split-params:shares returned for invalid t/n", false)
    else ("ok", false)

/-! ### combine -/

def firstDup : List Nat → Option Nat
  | [] => none
  | x :: xs => if xs.contains x then some x else firstDup xs

/-- expected behaviour of `combine` on an explicit share set; `expect = none`: the specification does not fix the value -/
def judgeCombine (t : Nat) (shares : List PShare) (expect : Option (List Nat)) (impl : String) : String :=
  if impl.startsWith "crash" || impl == "timeout" then "viol:combine-crash"
  else
    let used := (shares.take t).map (·.1)
    if shares.length < t then
      (if impl == "throw:invalid_argument" then "ok" else "viol:reject-too-few")
    else if (firstDup used).isSome then
      (if impl == "throw:invalid_argument" then "ok" else "viol:reject-duplicate")
    else if used.contains 0 then
      (if impl == "throw:invalid_argument" then "ok" else "viol:reject-zero-index")
    else if t == 0 then "ok"
    else
      match expect with
      | some v => if impl == "ok " ++ hexOfNats v then "ok" else "viol:reconstruct"
      | none => if impl.startsWith "ok " then "ok" else "viol:combine-throws-on-wellformed"

/-- Lagrange reconstruction (specification field) from the first `t` shares, for `bytes` bytes -/
def specReconstruct (bytes t : Nat) (shares : List PShare) : List Nat :=
  let base := shares.take t
  let bx := base.map (·.1)
  let ws := weights F bx
  (List.range bytes).map fun b => lagrangeAt F bx ws (column base b) 0

end EphVerif.ShamirMonitor
