/-
Line-protocol machine shared by the drivers of C13, C15 and C16 (ops of harness/codec_h.cpp).
Model output = the Lean model of Message.cpp run on the op; verdict = the *specification*
(Spec/Message.lean, with RFC 2104 HMAC-SHA256 from Spec/Hmac.lean) judging the implementation's
output line:

  roundtrip   rt/rts of a sendable message did not give back `arrives m`
  clamp       first byte of an encoding is not the nearest supported version
  prefix      reenc: encode(decode(b)) is not a prefix of b;  dec: the wire form of the message the
              implementation reports is not a prefix of b
  mac-accept  decs accepted although the last 32 bytes are not HMAC(key, preceding bytes)
  mac-body    decs accepted with a message other than the one the preceding bytes decode to
  mac-reject  decs rejected a correctly tagged buffer whose body decodes
  mac-enc     encs did not append HMAC(key, encoding)
  sign-verify svs: decode_signed(encode_signed(m,k),k) differs from decode(encode(m))
  total       the implementation crashed (sanitizer report, signal) or threw on this op
  output      malformed output line
-/
import EphVerif.Driver.Proto
import EphVerif.Model.Message
import EphVerif.Spec.Message
import EphVerif.Spec.Hmac

namespace EphVerif.MessageMachine
open EphVerif EphVerif.Proto EphVerif.Message EphVerif.MessageSpec

def hx (b : Bytes) : String := hexOrDash (hexOfBytes b)

def idOf (tok : String) : Bytes := (id32 tok).map UInt8.ofNat

def natTok (s : String) (modulus : Nat) : Option Nat := s.toNat?.map (· % modulus)

/-- `<version> <type> <kind> <fields…>` as harness/codec_h.cpp parses it (same truncating casts) -/
def parseMsg : List String → Option Msg
  | v :: t :: kind :: fields => do
    let version ← natTok v 256
    let type ← natTok t 256
    let payload ← match kind, fields with
      | "ann", [c, p, ep, ttl, man, sh, nonce] => do
        let ep ← bytesOfHex ep
        let ttl ← ttl.toInt?
        let man ← bytesOfHex man
        let sh ← bytesOfHex sh
        let nonce ← natTok nonce (2 ^ 64)
        pure (Payload.announce { chunkId := idOf c, peerId := idOf p, endpoint := ep, ttl, manifestUri := man, shards := sh, nonce })
      | "req", [c, r] => pure (Payload.request (idOf c) (idOf r))
      | "chk", [c, data, ttl] => do
        let data ← bytesOfHex data
        let ttl ← ttl.toInt?
        pure (Payload.chunk (idOf c) data ttl)
      | "ack", [c, p, a] => pure (Payload.ack (idOf c) (idOf p) (a != "0"))
      | "hs", [pub, nonce, rv] => do
        let pub ← natTok pub (2 ^ 32)
        let nonce ← natTok nonce (2 ^ 64)
        let rv ← natTok rv 256
        pure (Payload.handshake pub nonce rv)
      | "hsa", [a, nv, pub] => do
        let nv ← natTok nv 256
        let pub ← natTok pub (2 ^ 32)
        pure (Payload.handshakeAck (a != "0") nv pub)
      | _, _ => none
    pure { version, type, payload }
  | _ => none

def fmtPayload : Payload → String
  | .announce a => s!"ann {hx a.chunkId} {hx a.peerId} {hx a.endpoint} {a.ttl} {hx a.manifestUri} {hx a.shards} {a.nonce}"
  | .request c r => s!"req {hx c} {hx r}"
  | .chunk c data ttl => s!"chk {hx c} {hx data} {ttl}"
  | .ack c p a => s!"ack {hx c} {hx p} {if a then "1" else "0"}"
  | .handshake pub nonce rv => s!"hs {pub} {nonce} {rv}"
  | .handshakeAck a nv pub => s!"hsa {if a then "1" else "0"} {nv} {pub}"

def fmtMsg (m : Msg) : String := s!"ok {m.version} {m.type} {fmtPayload m.payload}"

def fmtOutcome : Outcome Msg → String
  | .ok m => fmtMsg m
  | .reject => "reject"
  | .oob => "oob"

/-- parse an implementation dump line `ok <msg>` -/
def parseDump (line : String) : Option Msg :=
  match tokens line with
  | "ok" :: rest => parseMsg rest
  | _ => none

def mac : Bytes → Bytes → Bytes := EphVerif.Spec.hmacSha256

def isPrefix (a b : Bytes) : Bool := a.isPrefixOf b

/-- verdict of an `enc`-like op: version byte clamp (C15) -/
def clampVerdict (m : Msg) (impl : Option String) : String :=
  match impl with
  | none => "ok"
  | some line =>
    match bytesOfHex line with
    | none => "viol:output:not hex"
    | some b =>
      if b.head? == some (UInt8.ofNat (nearestVersion m.version)) then "ok"
      else s!"viol:clamp:version byte of the encoding is not {nearestVersion m.version}"

/-- verdict of a round trip op (C15): only messages the property speaks about are judged -/
def roundTripVerdict (m : Msg) (impl : Option String) : String :=
  match impl with
  | none => "ok"
  | some line =>
    if decide (Sendable m) then
      let want := fmtMsg (arrives m)
      if line == want then "ok" else s!"viol:roundtrip:expected {want}"
    else "ok"

def stepCore (tok : List String) (impl : Option String) : Unit × String × String :=
  match tok with
  | "enc" :: rest =>
    match parseMsg rest with
    | none => ((), "bad-op", "ok")
    | some m => ((), hx (encode m), clampVerdict m impl)
  | "rt" :: rest =>
    match parseMsg rest with
    | none => ((), "bad-op", "ok")
    | some m => ((), fmtOutcome (decode (encode m)), roundTripVerdict m impl)
  | "encs" :: key :: rest =>
    match bytesOfHex key, parseMsg rest with
    | some key, some m =>
      let out := encodeSigned mac m key
      let verdict := match impl with
        | none => "ok"
        | some line =>
          match bytesOfHex line with
          | none => "viol:output:not hex"
          | some b =>
            if b.length < 32 then "viol:mac-enc:shorter than a tag"
            else
              let body := b.take (b.length - 32)
              if b.drop (b.length - 32) != mac key body then "viol:mac-enc:tag is not HMAC(key, encoding)"
              else clampVerdict m impl
      ((), hx out, verdict)
    | _, _ => ((), "bad-op", "ok")
  | "rts" :: key :: rest =>
    match bytesOfHex key, parseMsg rest with
    | some key, some m => ((), fmtOutcome (decodeSigned mac (encodeSigned mac m key) key), roundTripVerdict m impl)
    | _, _ => ((), "bad-op", "ok")
  | "svs" :: key :: rest =>
    match bytesOfHex key, parseMsg rest with
    | some key, some m =>
      let a := fmtOutcome (decodeSigned mac (encodeSigned mac m key) key)
      let b := fmtOutcome (decode (encode m))
      let out := if a == b then "same" else "differ"
      let verdict := match impl with
        | none => "ok"
        | some "same" => "ok"
        | some _ => "viol:sign-verify:signing and verifying does not give what plain encoding and decoding gives"
      ((), out, verdict)
    | _, _ => ((), "bad-op", "ok")
  | ["dec", h] =>
    match bytesOfHex h with
    | none => ((), "bad-op", "ok")
    | some b =>
      let verdict := match impl with
        | none => "ok"
        | some "reject" => "ok"
        | some line =>
          match parseDump line with
          | none => "viol:output:neither reject nor a message"
          | some m' =>
            if isPrefix (encode m') b then "ok"
            else "viol:prefix:the wire form of the reported message is not a prefix of the input"
      ((), fmtOutcome (decode b), verdict)
  | ["reenc", h] =>
    match bytesOfHex h with
    | none => ((), "bad-op", "ok")
    | some b =>
      let out := match decode b with
        | .ok m => hx (encode m)
        | .reject => "reject"
        | .oob => "oob"
      let verdict := match impl with
        | none => "ok"
        | some "reject" => "ok"
        | some line =>
          match bytesOfHex line with
          | none => "viol:output:neither reject nor hex"
          | some r => if isPrefix r b then "ok" else "viol:prefix:re-encoding is not a prefix of the input"
      ((), out, verdict)
  | ["decs", key, h] =>
    match bytesOfHex key, bytesOfHex h with
    | some key, some b =>
      let body := b.take (b.length - 32)
      let tagOk := decide (32 ≤ b.length) && b.drop (b.length - 32) == mac key body
      let verdict := match impl with
        | none => "ok"
        | some "reject" =>
          if tagOk then
            match decode body with
            | .ok _ => "viol:mac-reject:correctly tagged decodable buffer rejected"
            | _ => "ok"
          else "ok"
        | some line =>
          if !tagOk then "viol:mac-accept:accepted although the last 32 bytes are not the HMAC of the preceding bytes"
          else if line != fmtOutcome (decode body) then "viol:mac-body:accepted message is not the decoding of the preceding bytes"
          else "ok"
      ((), fmtOutcome (decodeSigned mac b key), verdict)
    | _, _ => ((), "bad-op", "ok")
  | _ => ((), "bad-op", "ok")

/-- C16 "without out-of-bounds access, undefined behaviour or exceptions": a crash marker (written by
    the framework for the op at which the harness died) or an exception name is a violation of its own -/
def step (_ : Unit) (tok : List String) (_line : String) (impl : Option String) : Unit × String × String :=
  let (s, out, verdict) := stepCore tok impl
  match impl with
  | some line =>
    if line.startsWith "crash:" || line.startsWith "throw:" || line == "oob" then (s, out, "viol:total:" ++ line)
    else (s, out, verdict)
  | none => (s, out, verdict)

def machine : Machine Unit := { init := (), step := step }

end EphVerif.MessageMachine
