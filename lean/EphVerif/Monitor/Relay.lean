/-
Line-protocol machine shared by the C25 and C26 drivers (see harness/relay_h.cpp for the ops and
the format of an observation line).

For every op it (1) runs the model (`EphVerif.Relay.step` on the events the op stands for, then
flushes every write buffer, as the harness drains after every op) and renders the model's
observation line, and (2) lets the *specification* (EphVerif.RelaySpec) judge the implementation's
line: the monitor keeps only what an observer has — the ops so far and the implementation's
previous line — and never consults the model.
-/
import EphVerif.Driver.Proto
import EphVerif.Model.Relay
import EphVerif.Spec.Relay

namespace EphVerif.RelayMon
open EphVerif EphVerif.Proto EphVerif.Relay EphVerif.RelaySpec

/-! ### rendering -/

def hexByte (b : UInt8) : List Char := [hexDigit (b.toNat / 16), hexDigit (b.toNat % 16)]

def fnv64 (bs : Bytes) : UInt64 :=
  bs.foldl (fun h b => (h ^^^ b.toUInt64) * 1099511628211) 14695981039346656037

def hex64 (x : UInt64) : String :=
  String.ofList ((List.range 16).map fun i => hexDigit ((x.toNat / 16 ^ (15 - i)) % 16))

/-- bytes as in the harness: hex up to 160 bytes; above, the first 160 bytes in hex, then `~len:fnv64` of the rest -/
def showBytes (bs : Bytes) : String :=
  if bs.length ≤ 160 then String.ofList (bs.flatMap hexByte)
  else String.ofList ((bs.take 160).flatMap hexByte) ++ s!"~{bs.length - 160}:{hex64 (fnv64 (bs.drop 160))}"

/-- the clear head of a rendered byte string and the length of its hashed rest -/
def shownHead (r : String) : Option (Bytes × Nat) :=
  match r.splitOn "~" with
  | [h] => (bytesOfHex h).map fun b => (b, 0)
  | [h, t] => match bytesOfHex h, (t.splitOn ":").head?.bind (·.toNat?) with
    | some b, some n => some (b, n)
    | _, _ => none
  | _ => none

def stateLetter : SState → String
  | .awaitingCommand => "C" | .registered => "R" | .awaitingIdentity => "I" | .bridged => "B"

def sortNat (l : List Nat) : List Nat := l.mergeSort (fun a b => a ≤ b)
def sortStr (l : List String) : List String := l.mergeSort (fun a b => !(b < a))
def joinOrDash (l : List String) : String := if l.isEmpty then "-" else ",".intercalate l

def liveClients (σ : State) : List Nat := sortNat (σ.sessions.map (·.1))

/-! ### the model side of one op -/

/-- payload syntax of `snd`: parts joined by `+`, each `HEX` or `HEX*N` -/
def expandPayload (text : String) : Option Bytes :=
  if text == "-" then some [] else
  (text.splitOn "+").foldlM (init := ([] : Bytes)) fun acc part =>
    match part.splitOn "*" with
    | [h] => (bytesOfHex h).map (acc ++ ·)
    | [h, n] => match bytesOfHex h, n.toNat? with
      | some bs, some k => some (acc ++ (List.replicate k bs).flatten)
      | _, _ => none
    | _ => none

def chunksOf (n : Nat) (bs : Bytes) : List Bytes :=
  if n = 0 then [bs] else
  let rec go (fuel : Nat) (bs : Bytes) (acc : List Bytes) : List Bytes :=
    match fuel with
    | 0 => acc.reverse
    | fuel + 1 => if bs.isEmpty then acc.reverse else go fuel (bs.drop n) (bs.take n :: acc)
  go (bs.length + 1) bs []

/-- the harness delivers a payload in slices of 16384 bytes; handle_read recv()s each slice in
    chunks of `recvChunk` bytes -/
def sliceSize : Nat := 16384

def recvEvents (c : Nat) (payload : Bytes) : List Event :=
  (chunksOf sliceSize payload).flatMap fun slice =>
    (chunksOf EphVerif.Gen.C25.recvChunk slice).map fun ch => Event.recv c ch

/-- Writable events until every write buffer is empty; for a stalled client one *partial* write (the kernel takes only
    part of the buffer — here half — and the rest stays queued) -/
def flushAll (σ : State) (stalled : List Nat := []) : State :=
  (liveClients σ).foldl (fun σ c =>
    match σ.get c with
    | some s =>
      if s.writeBuf.isEmpty then σ
      else if stalled.contains c then step σ (.flush c (s.writeBuf.length / 2))
      else step σ (.flush c s.writeBuf.length)
    | none => σ) σ

structure Line where
  rx : List (Nat × String)
  cl : List Nat
  ss : List (Nat × String × Option Nat × Nat)     -- client, state letter, partner, read-buffer length
  rg : List String
  fd : Nat

def renderLine (l : Line) : String :=
  let rx := joinOrDash (l.rx.map fun (c, b) => s!"{c}:{b}")
  let cl := joinOrDash (l.cl.map toString)
  let ss := joinOrDash (l.ss.map fun (c, st, p, n) => s!"{c}.{st}.{match p with | some q => toString q | none => "-"}.{n}")
  s!"rx={rx} cl={cl} ss={ss} rg={joinOrDash l.rg} fd={l.fd}"

def sentTo (outs : List Out) (c : Nat) : Bytes :=
  (outs.reverse.filterMap fun o => match o with | .sent d b => if d = c then some b else none | _ => none).flatten

/-- the model's observation line for the effects `outs` (newest first) of one op -/
def modelLine (σ : State) (outs : List Out) (selfClosed : List Nat) : Line :=
  let receivers := sortNat ((outs.filterMap fun o => match o with | .sent d b => if b.isEmpty then none else some d | _ => none).eraseDups)
  let closed := sortNat ((outs.filterMap fun o => match o with | .closed d => some d | _ => none).filter fun d => !selfClosed.contains d)
  let ss := (liveClients σ).filterMap fun c => (σ.get c).map fun s => (c, stateLetter s.state, σ.lock s.partner, s.readBuf.length)
  let rg := sortStr (σ.registered.map fun (k, c) =>
    String.ofList ((k.take 8).map fun b => Char.ofNat b.toNat) ++ ">" ++ (if (σ.get c).isSome then toString c else "dead"))
  { rx := receivers.map fun c => (c, showBytes (sentTo outs c)), cl := closed, ss := ss, rg := rg, fd := σ.sessions.length }

/-! ### the implementation's line, parsed -/

structure ImplLine where
  rx : List (Nat × String)
  cl : List Nat
  view : View
  rbs : List (Nat × Nat)        -- read-buffer size per session
  awaiting : List Nat           -- sessions in state I (CONNECT accepted, identity incomplete)
  sessions : List Nat
  unknownSessions : Bool
  regs : List (Option Nat)
  fd : Nat

def field (toks : List String) (name : String) : Option String :=
  toks.findSome? fun t => if t.startsWith (name ++ "=") then some ((t.drop (name.length + 1)).toString) else none

def listOf (s : String) : List String := if s == "-" then [] else s.splitOn ","

def parseImpl (line : String) : Option ImplLine := do
  let toks := line.splitOn " "
  let rx ← (listOf (← field toks "rx")).mapM fun e => match e.splitOn ":" with
    | c :: rest => c.toNat?.map fun n => (n, ":".intercalate rest)
    | _ => none
  let cl ← (listOf (← field toks "cl")).mapM (·.toNat?)
  let ssRaw := listOf (← field toks "ss")
  let unknown := ssRaw.any (·.startsWith "unknown")
  let ss ← (ssRaw.filter (!·.startsWith "unknown")).mapM fun e => match e.splitOn "." with
    | [c, st, p, _] => c.toNat?.map fun n => ({ client := n, bridged := st == "B", partner := p.toNat? } : Peer)
    | _ => none
  let regs := (listOf (← field toks "rg")).map fun e => match e.splitOn ">" with
    | [_, c] => c.toNat?
    | _ => none
  let rbs := (ssRaw.filter (!·.startsWith "unknown")).filterMap fun e => match e.splitOn "." with
    | [c, _, _, n] => match c.toNat?, n.toNat? with
      | some a, some b => some (a, b)
      | _, _ => none
    | _ => none
  let awaiting := (ssRaw.filter (!·.startsWith "unknown")).filterMap fun e => match e.splitOn "." with
    | [c, "I", _, _] => c.toNat?
    | _ => none
  let fd ← (← field toks "fd").toNat?
  pure { rx := rx, cl := cl, view := ss, rbs := rbs, awaiting := awaiting, sessions := ss.map (·.client), unknownSessions := unknown, regs := regs, fd := fd }

/-! ### the machine -/

inductive Which | c25 | c26
  deriving DecidableEq

structure St where
  σ : State := {}
  accepted : List Nat := []        -- client indices used by an `acc` op so far
  selfClosed : List Nat := []      -- clients that closed their own socket (they cannot observe a closure)
  implView : View := []            -- pairing table of the implementation's previous line
  implConnected : List Nat := []   -- clients connected as far as the ops and the implementation's lines say
  pending : List (Nat × Bytes) := []  -- per client: bytes it sent that the implementation still holds unconsumed
  stalled : List Nat := []            -- clients that are not reading (ops `stall` / `resume`)
  heldModel : List (Nat × Bytes) := []  -- model: bytes already written towards a stalled client (it has not read them yet)
  judged : List Nat := []             -- stalled clients that were bridged when they stalled (the monitor follows them)
  owed : List (Nat × Bytes) := []     -- per judged client: what its partner has sent since, in order
  implAwaiting : List (Nat × Nat) := []  -- previous line: sessions awaiting their identity, with their read-buffer size
  deriving Inhabited

inductive Op where
  | acc (k : Nat) | snd (k : Nat) (payload : Bytes) | eof (k : Nat) | shw (k : Nat) | rst (k : Nat) | hup (k : Nat) | nop
  | stall (k : Nat) | resume (k : Nat)

def parseOp (tok : List String) : Option Op :=
  match tok with
  | ["nop"] => some .nop
  | ["acc", k] => k.toNat?.map .acc
  | ["accs", k] => k.toNat?.map .acc
  | ["stall", k] => k.toNat?.map .stall
  | ["resume", k] => k.toNat?.map .resume
  | ["snd", k, p] => match k.toNat?, expandPayload p with
    | some n, some bs => some (.snd n bs)
    | _, _ => none
  | ["eof", k] => k.toNat?.map .eof
  | ["shw", k] => k.toNat?.map .shw
  | ["rst", k] => k.toNat?.map .rst
  | ["hup", k] => k.toNat?.map .hup
  | _ => none

def eventsOf : Op → List Event
  | .acc k => [.accept k]
  | .snd k p => recvEvents k p
  | .eof k => [.eof k]
  | .shw k => [.eof k]
  | .rst k => [.err k]
  | .hup k => [.err k]
  | .nop => []
  | .stall _ => []
  | .resume _ => []

def pendingOf (pending : List (Nat × Bytes)) (k : Nat) : Bytes := (pending.lookup k).getD []

/-- what client `k` has sent and the implementation has not consumed, after this op (its own `ss=` says how
    many bytes sit in the read buffer) -/
def updatePending (pending : List (Nat × Bytes)) (op : Op) (l : ImplLine) : List (Nat × Bytes) :=
  match op with
  | .snd k p =>
    let stream := pendingOf pending k ++ p
    let rest := pending.filter (·.1 != k)
    match l.rbs.lookup k with
    | some n => if l.view.isBridged k then rest else (k, stream.drop (stream.length - n)) :: rest
    | none => rest
  | _ => pending.filter fun e => l.sessions.contains e.1

/-- the bytes after the first newline (the relay's announcement line) -/
def afterFirstLine (bs : Bytes) : Bytes := (bs.dropWhile (· != 10)).drop 1

/-- C25 clauses, judged on the implementation's own lines -/
def judgeC25 (before : View) (pending : List (Nat × Bytes)) (judged : List Nat) (owed : List (Nat × Bytes))
    (awaitingBefore : List (Nat × Nat)) (op : Op) (l : ImplLine) : String :=
  let o : Obs String := { rx := l.rx, closed := l.cl }
  if !decide (ClaimUnique l.view) then "viol:claim-unique:a peer is claimed by two connectors at once"
  else if !decide (Symmetric l.view) then "viol:pairing-symmetric:the pairing table is not symmetric"
  else if !decide (BridgePaired l.view) then "viol:bridge-paired:a bridged session has no bridged partner"
  else match op with
    | .stall _ => if !decide (Quiet o) then "viol:isolation:bytes delivered by a step in which nobody sent anything" else "ok"
    | .resume k =>
      if !judged.contains k then "ok"
      else
        let due := pendingOf owed k
        if decide (CatchUp k (if due.isEmpty then none else some (showBytes due)) o) then "ok"
        else "viol:delivery:a slow reader did not receive exactly what its partner had sent meanwhile (bytes dropped, duplicated or reordered across partial writes)"
    | .snd k p =>
      if before.isBridged k && (match before.partnerOf k with | some t => judged.contains t | none => false) then
        if decide (Held o) then "ok"
        else "viol:delivery:bytes for a partner that is not reading were delivered elsewhere or somebody was disconnected"
      else if (awaitingBefore.lookup k).isSome && l.awaiting.contains k &&
          !decide (IdentityHeld ((awaitingBefore.lookup k).getD 0) p.length ((l.rbs.lookup k).getD 0) (l.rx.lookup k).isSome) then
        "viol:delivery:bytes of a connector that is still completing its identity were consumed or answered by the relay"
      else if !decide (Delivery before k (if p.isEmpty then none else some (showBytes p)) o) then
        "viol:delivery:bytes of a bridged client did not reach exactly its partner, whole and in order"
      else if !decide (Isolation before l.view k o) then
        "viol:isolation:a client other than the sender's bridged partner received bytes"
      else if !before.isBridged k && l.view.isBridged k then
        -- the op in which k's bridge came into being, judged from what the sockets received
        let stream := pendingOf pending k ++ p
        match l.view.partnerOf k with
        | none => "ok"
        | some t =>
          match l.rx.lookup t with
          | none => "viol:delivery:a bridge was established but the partner received nothing"
          | some r =>
            match shownHead r with
            | none => "viol:unparsable-line"
            | some (head, restLen) =>
              let ann := head.takeWhile (· != 10) ++ [10]
              if !head.contains 10 then "ok"                       -- announcement line longer than the clear head
              else
                let n := head.length + restLen - ann.length         -- bytes handed over after the announcement
                let handed := stream.drop (stream.length - n)
                if n > stream.length || !decide (BridgeHandover 32 stream handed) || showBytes (ann ++ handed) != r then
                  "viol:delivery:bytes sent with or after the identity did not all reach the new bridge partner, in order"
                else if !decide (BridgeDrained ((l.rbs.lookup k).getD 0)) then
                  "viol:delivery:bytes of a bridged client are stuck in the relay"
                else
                  let before := stream.take (stream.length - n)     -- what k sent before its identity: commands
                  let replies := match (l.rx.lookup k).bind shownHead with
                    | some (h, rest) => if rest > 0 then before.length + 1 else (h.filter (· == 10)).length
                    | none => 0
                  if !decide (RepliesBounded ((before.filter (· == 10)).length) replies) then
                    "viol:isolation:the relay sent its own lines to a client after that client's bridge was established"
                  else "ok"
      else "ok"
    | .eof k | .shw k | .rst k | .hup k =>
      if !decide (Teardown before k o) then "viol:teardown:the partner of a disconnected bridged client stays connected"
      else if !decide (Quiet o) then "viol:isolation:bytes delivered by a step in which nobody sent anything"
      else "ok"
    | .acc _ | .nop => if !decide (Quiet o) then "viol:isolation:bytes delivered by a step in which nobody sent anything" else "ok"

/-- C26 clauses -/
def judgeC26 (connected : List Nat) (l : ImplLine) : String :=
  let r : Resources := { sessions := l.sessions, registrations := l.regs, fds := l.fd }
  if l.unknownSessions then "viol:release-sessions:the server holds a session no connected client owns"
  else if decide (Released connected r) then "ok"
  else if !decide (∀ c ∈ r.sessions, c ∈ connected) then "viol:release-sessions:a session outlives its client"
  else if r.fds ≠ r.sessions.length then "viol:release-fds:open descriptors differ from live sessions"
  else "viol:release-registrations:a registration outlives its session"

def step (which : Which) (st : St) (tok : List String) (_line : String) (impl : Option String) : St × String × String :=
  match parseOp tok with
  | none => (st, "bad-op", "ok")
  | some op =>
    let known (k : Nat) : Bool := st.accepted.contains k
    -- model
    let stalled := match op with
      | .stall k => if known k && !st.stalled.contains k then k :: st.stalled else st.stalled
      | .resume k => st.stalled.filter (· != k)
      | _ => st.stalled
    let σ0 := { st.σ with out := [] }
    let σ1 := flushAll ((eventsOf op).foldl Relay.step σ0) stalled
    -- what was written towards a stalled client is not read yet: kept aside, shown when it resumes
    let held := (st.heldModel.filterMap fun (d, b) =>
      if stalled.contains d && (σ1.get d).isSome then some (d, b ++ sentTo σ1.out d) else none) ++
      (stalled.filter fun d => (σ1.get d).isSome && !(st.heldModel.any (·.1 == d))).map fun d => (d, sentTo σ1.out d)
    let visible := σ1.out.filter fun o => match o with | .sent d _ => !stalled.contains d | _ => true
    let visible := match op with
      | .resume k => if st.stalled.contains k then visible ++ [.sent k (pendingOf st.heldModel k)] else visible
      | _ => visible
    let accepted := match op with
      | .acc k => if known k then st.accepted else k :: st.accepted
      | _ => st.accepted
    let selfClosed := match op with
      | .eof k | .rst k => if known k && !st.selfClosed.contains k then k :: st.selfClosed else st.selfClosed
      | _ => st.selfClosed
    let model := renderLine (modelLine σ1 visible selfClosed)
    let model := if σ1.hung then "hang " ++ model else model
    let st1 : St := { st with σ := σ1, accepted := accepted, selfClosed := selfClosed, stalled := stalled, heldModel := held }
    -- monitor
    match impl with
    | none => (st1, model, "ok")
    | some i =>
      if i.startsWith "crash:" then
        (st1, model, if which == .c26 then "viol:crash:the relay process died" else "ok")
      else match parseImpl i with
      | none => (st1, model, "viol:unparsable-line")
      | some l =>
        let conn0 := match op with
          | .acc k => if known k then st.implConnected else k :: st.implConnected
          | .eof k | .rst k => st.implConnected.filter (· != k)
          | _ => st.implConnected
        let conn := conn0.filter fun c => !l.cl.contains c
        let verdict := match which with
          | .c25 => judgeC25 st.implView st.pending st.judged st.owed st.implAwaiting op l
          | .c26 => judgeC26 conn l
        -- slow readers the monitor follows: bridged when they stalled, both ends still connected
        let judged0 := match op with
          | .stall k => if st.implView.isBridged k && !st.judged.contains k then k :: st.judged else st.judged
          | .resume k => st.judged.filter (· != k)
          | _ => st.judged
        let judged := judged0.filter fun k => l.view.isBridged k
        let owed0 := match op with
          | .snd k p =>
            match st.implView.partnerOf k with
            | some t =>
              if st.implView.isBridged k && st.judged.contains t then
                (t, pendingOf st.owed t ++ p) :: st.owed.filter (·.1 != t)
              else st.owed
            | none => st.owed
          | _ => st.owed
        let owed := owed0.filter fun e => judged.contains e.1
        ({ st1 with implView := l.view, implConnected := conn, pending := updatePending st.pending op l,
                    judged := judged, owed := owed,
                    implAwaiting := l.awaiting.map fun c => (c, (l.rbs.lookup c).getD 0) }, model, verdict)

def machine (which : Which) : Machine St := { init := {}, step := step which }

end EphVerif.RelayMon
