/-
Line-protocol machine for the control-plane harness (harness/control_h.cpp), shared by the
drivers of C27, C28 and C29 (core Lean only).

Model column: the Lean model of the daemon (Model/Control.lean, Model/ControlWire.lean) run on the
same ops as the real ControlServer.  Verdict column: the specification (Spec/Control.lean) judging
the implementation's line; which clauses are judged depends on the driver (`Mode`).
-/
import EphVerif.Driver.Proto
import EphVerif.Model.Control
import EphVerif.Spec.Control
import EphVerif.Spec.Sha256

namespace EphVerif.ControlMonitor
open EphVerif EphVerif.Proto EphVerif.Control

inductive Mode where
  | c27 | c28 | c29
deriving DecidableEq

/-! ## the driver's concrete node -/

structure DChunk where
  payload : Bytes
  ttl : Int
  storedAt : Int
deriving Repr

structure DNode where
  chunks : List DChunk := []
  /-- chunk keys (payloads) whose manifest is registered -/
  manifests : List Bytes := []
  files : List (Bytes × Bytes) := []
deriving Repr

def DNode.store (n : DNode) (now : Int) (payload : Bytes) (ttl : Int) : DNode :=
  { n with chunks := (n.chunks.filter fun c => c.payload != payload) ++ [{ payload := payload, ttl := ttl, storedAt := now }],
           manifests := if n.manifests.contains payload then n.manifests else n.manifests ++ [payload] }

def DNode.writeFile (n : DNode) (path data : Bytes) : DNode :=
  { n with files := (n.files.filter fun f => f.1 != path) ++ [(path, data)] }

/-- manifest names of the case: name ↦ payload of the chunk the manifest describes -/
abbrev Names := List (String × Bytes)

def placeholder (name : String) : Bytes := ascii ("eph://" ++ name)

/-- `foreign`: names of manifests issued by another node (`mk`): same content, other key.  Since
    `Node::manifest_keeps_held_chunk_readable`, registering such a manifest for a chunk the daemon holds is
    refused (`ingest_manifest` returns false); the daemon's own manifests are accepted. -/
def nodeOps (names : Names) (foreign : List String) (now : Int) : NodeOps DNode :=
  { decodeManifest := fun uri => (names.find? fun p => placeholder p.1 == uri).map (·.2),
    ingest := fun n uri =>
      match (names.find? fun p => placeholder p.1 == uri) with
      | some p =>
        if foreign.contains p.1 && n.chunks.any (fun c => c.payload == p.2) then none
        else some { n with manifests := if n.manifests.contains p.2 then n.manifests else n.manifests ++ [p.2] }
      | none => none,
    fetch := fun n key => (n.chunks.find? fun c => c.payload == key).map (·.payload),
    store := fun n payload ttl _ => n.store now payload ttl,
    write := fun n path data => some (n.writeFile path data),
    stopTransport := fun n => n }

/-! ## state -/

structure Extras where
  warnings : List Bytes := []
  conflict : Bool := false
  endpoints : List (Bytes × Nat × Bytes) := []
  boots : List (String × Bytes × Nat × Option Nat) := []
  advHost : Option Bytes := none
  storageDir : Bytes := ascii "storage"

structure St where
  cfg : Config := { token := none, powDifficulty := 0, cap := 4096, minTtl := 30, maxTtl := 21600, defaultTtl := 21600 }
  extras : Extras := {}
  started : Bool := false
  now : Int := 1000000000000
  srv : ServerState DNode := ServerState.init {}
  names : Names := []
  foreign : List String := []
  accepted : Nat := 0
  /-- effects part of the previous `req` line (implementation's if available) -/
  lastEffects : Option String := none
  /-- monitor: accepted STOREs / streamed FETCHes per source address -/
  okStores : List (String × Int) := []
  okFetches : List (String × Int) := []

def sha256 (b : Bytes) : Bytes := EphVerif.Spec.sha256 b

def hexB (b : Bytes) : String := hexOrDash (hexOfBytes b)

def shortDigest (b : Bytes) : String := s!"{b.length}:{hexOfBytes ((sha256 b).take 8)}"

def sortStrings (l : List String) : List String := l.mergeSort (fun a b => decide (a ≤ b))

/-- `Node::stored_chunks()`: a chunk whose deadline has been reached (`now >= expires_at`) is no longer stored -/
def liveChunks (st : St) : List DChunk :=
  st.srv.node.chunks.filter fun c => decide (st.now < c.storedAt + c.ttl * nsPerSecond)

def effects (st : St) : String :=
  let files := st.srv.node.files.map fun f => s!"{hexOfBytes f.1}:{shortDigest f.2}"
  let filesS := if files.isEmpty then "-" else ",".intercalate (sortStrings files)
  s!"st={(liveChunks st).length} mf={st.srv.node.manifests.length} files={filesS} stop={st.srv.stopCalls} ts={if st.srv.transportStopped then 1 else 0} run=1"

/-! ## op parsing helpers -/

def kvOf (toks : List String) : List (String × String) :=
  toks.filterMap fun t =>
    match t.splitOn "=" with
    | k :: rest@(_ :: _) => some (k, "=".intercalate rest)
    | _ => none

def lookupKV (kv : List (String × String)) (k : String) : Option String := (kv.find? fun p => p.1 == k).map (·.2)

def natKV (kv : List (String × String)) (k : String) (d : Nat) : Nat := ((lookupKV kv k).bind String.toNat?).getD d

def bytesOr (s : String) : Bytes := (bytesOfHex s).getD []

def expandHead (spec : String) : Bytes :=
  (spec.splitOn "+").flatMap fun seg =>
    if seg.isEmpty || seg == "-" then []
    else if seg.startsWith "$" then placeholder (String.ofList (seg.toList.drop 1))
    else bytesOr seg

/-- the header lines of a request as sent: split at LF, up to the first blank line (CR ignored) -/
def headerLines (head : Bytes) : List Bytes :=
  ((splitBy 10 head []).takeWhile fun l => !(l.filter (· != 13)).isEmpty)

def lastHeader (lines : List Bytes) (key : String) : Option Bytes :=
  (lines.reverse.findSome? fun l =>
    match Spec.Control.header l with
    | some (k, v) => if k == ascii key then some v else none
    | none => none)

/-! ## configuration -/

def applyCfg (toks : List String) : St :=
  let kv := kvOf toks
  let tok := match lookupKV kv "tok" with
    | some "-" => none
    | some h => some (bytesOr h)
    | none => none
  let list (k : String) : List String := match lookupKV kv k with
    | some "-" => []
    | some s => s.splitOn ","
    | none => []
  let cfg : Config := { token := tok, powDifficulty := natKV kv "pow" 0, cap := natKV kv "cap" 4096,
                        minTtl := natKV kv "min" 30, maxTtl := natKV kv "max" 21600, defaultTtl := natKV kv "def" 21600 }
  let ex : Extras :=
    { warnings := (list "warn").map bytesOr,
      conflict := natKV kv "conflict" 0 != 0,
      endpoints := (list "ep").filterMap fun e =>
        match e.splitOn "/" with
        | [h, p, s] => some (bytesOr h, p.toNat?.getD 0, bytesOr s)
        | _ => none,
      boots := (list "boot").filterMap fun e =>
        match e.splitOn "/" with
        | [i, h, p, pub] => some (i, bytesOr h, p.toNat?.getD 0, pub.toNat?)
        | _ => none,
      advHost := (lookupKV kv "advhost").map bytesOr,
      storageDir := ((lookupKV kv "sdir").map bytesOr).getD (ascii "storage") }
  { cfg := cfg, extras := ex, started := true }

def cfgLine (c : Config) : String := s!"ok min={c.minTtl} max={c.maxTtl} def={c.defaultTtl} pow={c.powDifficulty} cap={c.cap}"

/-! ## raw requests (C27 / C28) -/

def replyLine (r : Option Reply) : String :=
  match r with
  | none => "closed -"
  | some r =>
    let base := (if r.success then "OK " else "ERROR ") ++ r.code
    match r.stored, r.streamed, r.written with
    | some (p, ttl, _), _, _ => base ++ s!" size={p.length} ttl={ttl}"
    | _, some d, _ => base ++ s!" size={d.length} payload={shortDigest d}"
    | _, _, some (_, d) => base ++ s!" size={d.length} payload=none"
    | _, _, _ => base

def isParseLevel (code : String) : Bool := code.startsWith "ERR_CONTROL_" || code == "ERR_MISSING_COMMAND" || code == "-"

structure ImplReq where
  status : String
  code : String
  early : Option Bool
  streamed : Bool
  effects : String

def parseImplReq (line : String) : ImplReq :=
  let (l, r) := match line.splitOn " | " with
    | [a, b] => (a, b)
    | _ => (line, "")
  let toks := l.splitOn " "
  let kv := kvOf toks
  { status := toks.getD 0 "", code := toks.getD 1 "-",
    early := (lookupKV kv "early").map (· == "1"),
    streamed := match lookupKV kv "payload" with | some "none" => false | some _ => true | none => false,
    effects := r }

def gateVerdict (st : St) (lines : List Bytes) (impl : ImplReq) (prevEffects : String) : String :=
  match st.cfg.token with
  | none => "ok"
  | some t =>
    if Spec.Control.presentsToken lines t then "ok" else
    let cmd := match lastHeader lines "COMMAND" with
      | some c => String.ofList ((c.map Spec.Control.upper).map fun b => Char.ofNat b.toNat)
      | none => "NONE"
    let tag := if cmd == "STORE" then "store" else if cmd == "FETCH" then "fetch" else if cmd == "STOP" then "stop" else "other"
    if impl.effects != prevEffects then s!"viol:gate-{tag}:effect without the token ({impl.effects} after {prevEffects})"
    else if tag == "other" then "ok"
    else if impl.status == "closed" || isParseLevel impl.code then "ok"
    else if impl.status != "ERROR" then s!"viol:gate-{tag}:accepted without the token ({impl.code})"
    else if !Spec.Control.isAuthError false impl.code then s!"viol:gate-{tag}-code:refused with {impl.code} instead of the authentication error"
    else "ok"

def pushTime (l : List (String × Int)) (a : String) (t : Int) : List (String × Int) := l ++ [(a, t)]
def timesOf (l : List (String × Int)) (a : String) : List Int := (l.filter fun p => p.1 == a).map (·.2)

/-- C28: admission clauses on an accepted STORE, rate clauses on accepted STOREs / streamed FETCHes -/
def admitVerdict (st : St) (addr : String) (lines : List Bytes) (body : Bytes) (mode : String) (impl : ImplReq) : St × String :=
  let declared : Option Nat := (lastHeader lines "PAYLOAD-LENGTH").bind parseU64
  let tooLarge := match declared with | some n => decide (n > st.cfg.cap) | none => false
  if impl.code == "OK_STORE" then
    let okStores := pushTime st.okStores addr st.now
    let st' := { st with okStores := okStores }
    let ttl : Option Int := match lastHeader lines "TTL" with
      | none => some st.cfg.defaultTtl
      | some v => (parseU64 v).map fun n => (n : Int)
    let payload := body.take (declared.getD 0)
    let hint := (lastHeader lines "PATH").bind Pow.sanitizeFilenameHint
    let powOk := st.cfg.powDifficulty == 0 ||
      (match (lastHeader lines "STORE-POW").bind parseU64 with
       | some nonce => Pow.storePowValid sha256 { chunkId := sha256 payload, payloadSize := payload.length, filenameHint := hint.getD [] } nonce st.cfg.powDifficulty
       | none => false)
    if declared.isNone || tooLarge then (st', "viol:size:STORE accepted with a declared length outside the cap")
    else if (match ttl with | some t => decide (t < st.cfg.minTtl) || decide (t > st.cfg.maxTtl) | none => true) then (st', "viol:ttl:STORE accepted with a TTL outside the window")
    else if !powOk then (st', "viol:pow:STORE accepted without a valid proof of work")
    else if st.cfg.token.isNone && !Spec.Control.rateOkAt Spec.Control.storeLimit (timesOf okStores addr) st.now then
      (st', s!"viol:rate-store:more than 6 STOREs from 127.0.0.{addr} accepted within 30 s")
    else (st', "ok")
  else if impl.code == "OK_FETCH" && impl.streamed then
    let okFetches := pushTime st.okFetches addr st.now
    let st' := { st with okFetches := okFetches }
    if st.cfg.token.isNone && !Spec.Control.rateOkAt Spec.Control.fetchLimit (timesOf okFetches addr) st.now then
      (st', s!"viol:rate-fetch:more than 12 streamed FETCHes from 127.0.0.{addr} accepted within 30 s")
    else (st', "ok")
  else if mode == "early" && tooLarge && impl.code == "ERR_CONTROL_PAYLOAD_TRUNCATED" then
    (st, "viol:size-body-read:the daemon tried to read the body of an oversized STORE before refusing it")
  else (st, "ok")

def stepReq (mode : Mode) (st : St) (addr mode' headSpec bodyHex : String) (impl : Option String) : St × String × String :=
  let head := expandHead headSpec
  let body := bytesOr bodyHex
  -- `early`: the harness withholds the body altogether (head only, then half-close)
  let input := if mode' == "early" then head else head ++ body
  let ops := nodeOps st.names st.foreign st.now
  let (srv', reply) := handleClient sha256 ops st.cfg st.now (ascii addr) st.srv input
  let (names', accepted') := match reply with
    | some r => (match r.stored with
      | some (p, _, _) => (st.names ++ [(s!"s{st.accepted + 1}", p)], st.accepted + 1)
      | none => (st.names, st.accepted))
    | none => (st.names, st.accepted)
  let st1 := { st with srv := srv', names := names', accepted := accepted' }
  let eff := effects st1
  let out := replyLine reply ++ " | " ++ eff
  let prev := st.lastEffects.getD (effects st)
  match impl with
  | none => ({ st1 with lastEffects := some eff }, out, "ok")
  | some line =>
    let ir := parseImplReq line
    let lines := headerLines head
    let st2 := { st1 with lastEffects := some (if ir.effects.isEmpty then eff else ir.effects) }
    match mode with
    | .c27 => (st2, out, gateVerdict st lines ir prev)
    | .c28 =>
      let (st3, v) := admitVerdict st2 addr lines body mode' ir
      (st3, out, v)
    | .c29 => (st2, out, "ok")

/-! ## client side (C29) -/

def fmtFields (fs : Fields) (sel : String) : String :=
  let wanted := sel.splitOn ","
  let items := fs.filterMap fun (k, v) =>
    let ks := String.ofList (k.map fun b => Char.ofNat b.toNat)
    if sel == "*" || wanted.contains ks then some (hexB k ++ "=" ++ hexB v) else none
  if items.isEmpty then "-" else ";".intercalate (sortStrings items)

def fmtClient (r : ClientResponse) (sel : String) : String :=
  s!"ok={if r.success then 1 else 0} n={r.fields.length} F={fmtFields r.fields sel} P={if r.hasPayload then shortDigest r.payload else "none"}"

/-- the specification's view of a produced response, in the same format -/
def fmtProduced (r : Response) (sel : String) : String :=
  s!"ok={if r.success then 1 else 0} n={r.wireFields.length} F={fmtFields r.wireFields sel} P={if r.hasPayload then shortDigest r.payload else "none"}"

def chunkEntries (st : St) : List ChunkEntry :=
  let es := (liveChunks st).map fun c =>
    let remaining := c.storedAt + c.ttl * nsPerSecond - st.now
    ({ idHex := (hexOfBytes (sha256 c.payload)).toList.map (fun ch => UInt8.ofNat ch.toNat), size := c.payload.length, encrypted := true,
       ttl := if remaining ≤ 0 then 0 else (remaining / nsPerSecond).toNat } : ChunkEntry)
  -- canonical order: by id (the harness sorts what came out of the chunk store's hash map)
  es.mergeSort (fun a b => decide (hexOfBytes a.idHex ≤ hexOfBytes b.idHex))

def joinWith (sep : Bytes) : List Bytes → Bytes
  | [] => []
  | [a] => a
  | a :: rest => a ++ sep ++ joinWith sep rest

def statusResponse (st : St) : Response :=
  let base : Fields := [(ascii "CODE", ascii "OK_STATUS"), (ascii "PEERS", toDec 0), (ascii "CHUNKS", toDec (liveChunks st).length),
                        (ascii "TRANSPORT_PORT", toDec 0)]
  let fs := if st.extras.warnings.isEmpty then base else
    base ++ [(ascii "AUTO_ADVERTISE_WARNINGS", st.extras.warnings.flatMap fun w => w ++ [10]),
             (ascii "AUTO_ADVERTISE_CONFLICT", ascii (if st.extras.conflict then "1" else "0"))]
  { success := true, fields := fs }

/-- Config.hpp defaults of the fields the harness does not set (not part of any theorem) -/
def defaultsResponse (st : St) : Response :=
  let c := st.cfg
  let d (n : Int) : Bytes := toDec n.toNat
  let base : Fields :=
    [(ascii "CODE", ascii "OK_DEFAULTS"), (ascii "DEFAULT_TTL", d c.defaultTtl), (ascii "MIN_TTL", d c.minTtl), (ascii "MAX_TTL", d c.maxTtl),
     (ascii "KEY_ROTATION", toDec 300), (ascii "ANNOUNCE_INTERVAL", toDec 15), (ascii "ANNOUNCE_BURST", toDec 4), (ascii "ANNOUNCE_WINDOW", toDec 120),
     (ascii "ANNOUNCE_POW", toDec 6), (ascii "HANDSHAKE_POW", toDec 4), (ascii "STORE_POW", toDec c.powDifficulty),
     (ascii "CONTROL_HOST", ascii "127.0.0.1"), (ascii "CONTROL_PORT", toDec 47777), (ascii "TRANSPORT_PORT", toDec 45000),
     (ascii "CONTROL_STREAM_MAX", toDec c.cap), (ascii "STORAGE_PERSISTENT", ascii "0"), (ascii "STORAGE_DIR", st.extras.storageDir),
     (ascii "FETCH_MAX_PARALLEL", toDec 3), (ascii "UPLOAD_MAX_PARALLEL", toDec 3), (ascii "ADVERTISE_AUTO_MODE", ascii "on")]
  let fs1 := match st.extras.advHost with | some h => base ++ [(ascii "ADVERTISE_HOST", h)] | none => base
  let fs2 := if st.extras.endpoints.isEmpty then fs1 else
    fs1 ++ [(ascii "ADVERTISE_ENDPOINTS", joinWith [10] ((st.extras.endpoints.filter fun e => !e.1.isEmpty).map fun (h, p, s) =>
      h ++ [58] ++ toDec (if p != 0 then p else 47777) ++ (if s.isEmpty then [] else ascii " (" ++ s ++ ascii ")")))]
  let fs3 := if st.extras.boots.isEmpty then fs2 else
    fs2 ++ [(ascii "BOOTSTRAP_NODES", joinWith [10] ((st.extras.boots.filter fun b => !b.2.1.isEmpty).map fun (i, h, p, pub) =>
      ascii (hexOfNats (id32 i)) ++ [64] ++ h ++ [58] ++ toDec p ++ (match pub with | some v => ascii " pub=" ++ toDec v | none => [])))]
  { success := true, fields := fs3 }

/-- the response the daemon hands to `send_response` for a client command; `none` when the driver does
    not model the field contents (error texts) -/
def produce (st : St) (reply : Reply) : Response :=
  if reply.code == "OK_LIST" then handleList (chunkEntries st)
  else if reply.code == "OK_STATUS" then statusResponse st
  else if reply.code == "OK_DEFAULTS" then defaultsResponse st
  else if reply.code == "OK_PING" then { success := true, fields := [(ascii "CODE", ascii "OK_PING"), (ascii "MESSAGE", ascii "pong")] }
  else match reply.streamed with
    | some d => { success := true, fields := [(ascii "CODE", ascii "OK_FETCH"), (ascii "SIZE", toDec d.length), (ascii "STREAM", ascii "CLIENT")],
                  hasPayload := true, payload := d }
    | none =>
      if reply.success then { success := true, fields := [(ascii "CODE", ascii reply.code)] }
      else { success := false, fields := [(ascii "CODE", ascii reply.code), (ascii "MESSAGE", ascii "?"), (ascii "HINT", ascii "?")] }

def throughWire (st : St) (r : Response) : ClientResponse :=
  parseResponse st.cfg.cap (serialise r.success r.wireFields r.payload)

def clientRequest (_st : St) (tok cmd : String) (args : List String) : Request :=
  let kv := kvOf args
  let given : Fields := kv.filterMap fun (k, v) =>
    if k == "payload" then none
    else some (toUpper (ascii k), if v.startsWith "$" then placeholder (String.ofList (v.toList.drop 1)) else bytesOr v)
  let payload := (lookupKV kv "payload").map bytesOr
  let base : Fields := [(ascii "COMMAND", toUpper (ascii cmd))] ++ (if tok == "-" then [] else [(ascii "TOKEN", bytesOr tok)])
  let fs := (base ++ given).foldl (fun acc p => setField acc p.1 p.2) []
  match payload with
  | some p => { fields := setField fs (ascii "PAYLOAD-LENGTH") (toDec p.length), payload := p, payloadHeaderPresent := true }
  | none => { fields := fs, payload := [], payloadHeaderPresent := false }

def stepCli (mode : Mode) (st : St) (tok cmd sel : String) (args : List String) (impl : Option String) : St × String × String :=
  let req := clientRequest st tok cmd args
  let (srv', reply) := handleRequest sha256 (nodeOps st.names st.foreign st.now) st.cfg st.now (ascii "1") st.srv req
  let st1 := { st with srv := srv', lastEffects := none }
  let produced := produce st1 reply
  let out := fmtClient (throughWire st1 produced) sel
  let spec := fmtProduced produced sel
  let clause := if cmd == "LIST" then "roundtrip-list" else if cmd == "STATUS" then "roundtrip-status"
                else if cmd == "DEFAULTS" then "roundtrip-defaults" else "roundtrip-other"
  let verdict := match impl, mode with
    | some i, .c29 => if i == spec then "ok" else s!"viol:{clause}:client view differs from what the daemon produced, expected {spec}"
    | _, _ => "ok"
  (st1, out, verdict)

def bytesToString (b : Bytes) : String := String.ofList (b.map fun x => Char.ofNat x.toNat)

def fmtListing (lines : List Bytes) (chunks : Nat) : String :=
  let ls := lines.map bytesToString
  let sorted := match ls with
    | [] => []
    | h :: rest => h :: sortStrings rest
  let joined := ("|".intercalate sorted).map fun c => if c == ' ' then '_' else c
  s!"out={joined} chunks={chunks}"

def stepList (mode : Mode) (st : St) (tok : String) (impl : Option String) : St × String × String :=
  let req := clientRequest st tok "LIST" []
  let (srv', reply) := handleRequest sha256 (nodeOps st.names st.foreign st.now) st.cfg st.now (ascii "1") st.srv req
  let st1 := { st with srv := srv', lastEffects := none }
  let entries := chunkEntries st1
  let out := fmtListing (printList (throughWire st1 (produce st1 reply))) entries.length
  let spec := fmtListing (expectedListing entries) entries.length
  let verdict := match impl, mode with
    | some i, .c29 => if i == spec then "ok" else s!"viol:list-cli:eph list does not show one line per chunk, expected {spec}"
    | _, _ => "ok"
  (st1, out, verdict)

def parseRtFields (spec : String) : Fields :=
  if spec == "-" then [] else
  (spec.splitOn ";").filterMap fun item =>
    match item.splitOn "=" with
    | [k, v] => some (bytesOr k, bytesOr v)
    | _ => none

/-- the hypotheses of the round-trip theorem, as far as the monitor needs them to decide whether a
    discrepancy is a violation: keys the daemon can emit, physical lines within the client's limit,
    payload within the client's limit -/
def emittable (limit : Nat) (r : Response) : Bool :=
  let keyOk (k : Bytes) : Bool := !k.isEmpty && k.all (fun b => (65 ≤ b.toNat && b.toNat ≤ 90) || b == 95 || b == 45) &&
    k != ascii "STATUS" && k != ascii "PAYLOAD-LENGTH"
  let lineOk (k v : Bytes) : Bool := ((splitBy 10 (k ++ 58 :: encodeValue v) []).all fun l => l.length ≤ clientMaxLine)
  r.fields.all (fun p => keyOk p.1 && lineOk p.1 p.2) && (r.fields.map (·.1)).eraseDups.length == r.fields.length &&
    r.payload.length ≤ limit && (r.hasPayload || r.payload.isEmpty)

def stepRt (mode : Mode) (st : St) (succ fieldsSpec payloadSpec : String) (impl : Option String) : St × String × String :=
  let fields := (parseRtFields fieldsSpec).foldl (fun acc p => setField acc p.1 p.2) []
  let r : Response := { success := succ == "1", fields := fields, hasPayload := payloadSpec != "none",
                        payload := if payloadSpec == "none" then [] else bytesOr payloadSpec }
  let out := fmtClient (throughWire st r) "*"
  let spec := fmtProduced r "*"
  let verdict := match impl, mode with
    | some i, .c29 => if !emittable st.cfg.cap r || i == spec then "ok"
                      else s!"viol:roundtrip-fields:client view differs from what the daemon produced, expected {spec}"
    | _, _ => "ok"
  (st, out, verdict)

/-! ## the machine -/

def step (mode : Mode) (st : St) (tok : List String) (_line : String) (impl : Option String) : St × String × String :=
  match tok with
  | "cfg" :: rest =>
    let st' := applyCfg rest
    (st', cfgLine st'.cfg, "ok")
  | ["adv", n] =>
    match n.toInt? with
    | some d => ({ st with now := st.now + d }, "ok", "ok")
    | none => (st, "bad-op", "ok")
  | ["mk", name, payload, _ttl] =>
    ({ st with names := st.names ++ [(name, bytesOr payload)], foreign := st.foreign ++ [name] }, "ok", "ok")
  | "put" :: name :: payload :: ttl :: _ =>
    let p := bytesOr payload
    let t : Int := (ttl.toInt?).getD 0
    let node' := st.srv.node.store st.now p t
    ({ st with srv := { st.srv with node := node' }, names := st.names ++ [(name, p)], lastEffects := none },
     s!"ok {hexOfBytes (sha256 p)} {p.length}", "ok")
  | ["req", addr, m, headSpec, bodyHex] => stepReq mode st addr m headSpec bodyHex impl
  | "cli" :: t :: cmd :: sel :: args => stepCli mode st t cmd sel args impl
  | ["list", t] => stepList mode st t impl
  | ["rt", s, f, p] => stepRt mode st s f p impl
  | _ => (st, "bad-op", "ok")

def machine (mode : Mode) : Machine St := { init := {}, step := step mode }

end EphVerif.ControlMonitor
