/-
Lemmas for C38: `parse_update_metadata`'s field extraction reports decodings of the document's
string literals; inputs opening more containers than the limit are rejected.
-/
import EphVerif.Lemmas.C38Strings
namespace EphVerif.C38L
open EphVerif.UpdateJson EphVerif.JsonSpec EphVerif.C38Spec

theorem findMember_mem {ms : List (Nat × List Nat × JV)} {key : List Nat} {v : JV}
    (h : findMember ms key = some v) : ∃ m ∈ ms, m.2.2 = v := by
  induction ms with
  | nil => simp [findMember] at h
  | cons m rest ih =>
    obtain ⟨off, k, w⟩ := m
    unfold findMember at h
    split at h
    · exact ⟨(off, k, w), by simp, by injection h⟩
    · obtain ⟨m', hm', hv⟩ := ih h
      exact ⟨m', by simp [hm'], hv⟩

theorem strAt_of_find {inp : Input} {ms : List (Nat × List Nat × JV)} {key : List Nat} {off : Nat} {s : List Nat}
    (hall : ∀ m ∈ ms, AllStr (StrAt inp) m.2.2) (h : findMember ms key = some (.str off s)) : StrAt inp off s := by
  obtain ⟨m, hm, hv⟩ := findMember_mem h
  have := hall m hm
  rw [hv] at this
  cases this with
  | str _ _ hp => exact hp

theorem expectStringField_ok {inp : Input} {ms : List (Nat × List Nat × JV)} {key : String} {s : List Nat}
    (hall : ∀ m ∈ ms, AllStr (StrAt inp) m.2.2) (h : expectStringField (.obj ms) key = .ok s) :
    FieldIs inp ms key s := by
  unfold expectStringField at h
  split at h
  · next off s' hf =>
    have := Res.ok.inj h; subst this
    simp only [JV.find] at hf
    exact ⟨off, hf, strAt_of_find hall hf⟩
  · cases h

theorem optStringField_ok {inp : Input} {ms : List (Nat × List Nat × JV)} {key : String}
    (hall : ∀ m ∈ ms, AllStr (StrAt inp) m.2.2) : OptFieldIs inp ms key (optStringField (.obj ms) key) := by
  unfold optStringField
  split
  · next off s hf =>
    simp only [JV.find] at hf
    exact ⟨off, hf, strAt_of_find hall hf⟩
  · next hn =>
    intro off s hc
    exact hn off s (by simp only [JV.find]; exact hc)

theorem defStringField_ok {inp : Input} {ms : List (Nat × List Nat × JV)} {key : String}
    (hall : ∀ m ∈ ms, AllStr (StrAt inp) m.2.2) :
    DefFieldIs inp ms key ((optStringField (.obj ms) key).getD []) := by
  have := optStringField_ok (key := key) hall
  cases h : optStringField (.obj ms) key with
  | some v => rw [h] at this; exact Or.inl this
  | none => rw [h] at this; exact Or.inr ⟨rfl, this⟩

theorem downloadsLoop_ok {inp : Input} {all : List (Nat × List Nat × JV)}
    (hkeys : ∀ m ∈ all, StrAt inp m.1 m.2.1) (hvals : ∀ m ∈ all, AllStr (StrAt inp) m.2.2)
    (dls : List (Nat × List Nat × JV)) (hsub : ∀ m ∈ dls, m ∈ all)
    {acc out : List Download} (hacc : ∀ d ∈ acc, DownloadIs inp all d)
    (h : downloadsLoop dls acc = .ok out) : ∀ d ∈ out, DownloadIs inp all d := by
  induction dls generalizing acc with
  | nil =>
    unfold downloadsLoop at h
    have := Res.ok.inj h; subst this; exact hacc
  | cons m rest ih =>
    obtain ⟨keyOff, platform, value⟩ := m
    have hm := hsub _ (List.mem_cons_self)
    have hrest : ∀ m ∈ rest, m ∈ all := fun m h => hsub m (List.mem_cons_of_mem _ h)
    unfold downloadsLoop at h
    split at h
    · next vms =>
      obtain ⟨url, hurl, h⟩ := bind_ok h
      have hv := hvals _ hm
      simp only at hv
      have hvms : ∀ m ∈ vms, AllStr (StrAt inp) m.2.2 := by
        cases hv with
        | obj _ _ h2 => exact h2
      refine ih hrest ?_ h
      intro d hd
      rcases List.mem_append.mp hd with hd | hd
      · exact hacc d hd
      · simp at hd; subst hd
        exact ⟨keyOff, vms, hm, hkeys _ hm, expectStringField_ok hvms hurl, defStringField_ok hvms,
          defStringField_ok hvms, optStringField_ok hvms⟩
    · exact ih hrest hacc h

/-- the statement of C38_strings for one successful run -/
def MetadataIs (inp : Input) (m : Metadata) : Prop :=
  ∃ ms dls, parseDocument inp = .ok (.obj ms) ∧
    FieldIs inp ms "version" m.version ∧ FieldIs inp ms "tag" m.tag ∧ FieldIs inp ms "commit" m.commit ∧
    FieldIs inp ms "channel" m.channel ∧ FieldIs inp ms "generated_at" m.generatedAt ∧
    OptFieldIs inp ms "notes_url" m.notesUrl ∧
    findMember ms (ascii "downloads") = some (.obj dls) ∧ m.downloads ≠ [] ∧
    ∀ d ∈ m.downloads, DownloadIs inp dls d

theorem parseUpdateMetadata_ok {inp : Input} {m : Metadata} (h : parseUpdateMetadata inp = .ok m) :
    MetadataIs inp m := by
  unfold parseUpdateMetadata at h
  obtain ⟨root, hroot, h⟩ := bind_ok h
  have hgood := (parseDocument_ok hroot).1
  unfold extractMetadata at h
  split at h
  · next ms =>
    have hvals : ∀ m ∈ ms, AllStr (StrAt inp) m.2.2 := by
      cases hgood with
      | obj _ _ h2 => exact h2
    obtain ⟨version, h1, h⟩ := bind_ok h
    obtain ⟨tag, h2, h⟩ := bind_ok h
    obtain ⟨commit, h3, h⟩ := bind_ok h
    obtain ⟨channel, h4, h⟩ := bind_ok h
    obtain ⟨generatedAt, h5, h⟩ := bind_ok h
    split at h
    · next dls hf =>
      simp only [JV.find] at hf
      obtain ⟨downloads, hd, h⟩ := bind_ok h
      split at h
      · cases h
      · next hne =>
        have := Res.ok.inj h; subst this
        obtain ⟨mm, hmm, hv⟩ := findMember_mem hf
        have hdl := hvals mm hmm
        rw [hv] at hdl
        have hk : ∀ m ∈ dls, StrAt inp m.1 m.2.1 := by
          cases hdl with
          | obj _ h1 _ => exact h1
        have hvv : ∀ m ∈ dls, AllStr (StrAt inp) m.2.2 := by
          cases hdl with
          | obj _ _ h2 => exact h2
        refine ⟨ms, dls, hroot, expectStringField_ok hvals h1, expectStringField_ok hvals h2,
          expectStringField_ok hvals h3, expectStringField_ok hvals h4, expectStringField_ok hvals h5,
          optStringField_ok hvals, hf, ?_, downloadsLoop_ok hk hvv dls (fun m h => h) (by simp) hd⟩
        intro hc; exact hne (by simpa using hc)
    · cases h
  · cases h


theorem rawAt_some {inp : Input} {pos b : Nat} (h : inp[pos]? = some b) : rawAt inp pos = .ok b := by
  unfold rawAt; rw [h]

theorem eof_of_some {inp : Input} {pos b : Nat} (h : inp[pos]? = some b) : eof inp pos = false := by
  have := (Array.getElem?_eq_some_iff.mp h).1
  simp [eof]; omega

theorem skipWs_stop {inp : Input} {pos b : Nat} (fuel : Nat) (h : inp[pos]? = some b) (hb : isWs b = false) :
    skipWs inp (fuel + 1) pos = .ok pos := by
  unfold skipWs
  simp [eof_of_some h, rawAt_some h, hb]
  rfl

theorem deep_reject (inp : Input) (d pos : Nat) (h : ∀ i, i ≤ d → inp[pos + i]? = some 0x5B) :
    parseValue inp d pos = .err "JSON nesting too deep" := by
  induction d generalizing pos with
  | zero =>
    have h0 : inp[pos]? = some 0x5B := by simpa using h 0 (by omega)
    unfold parseValue
    simp [eof_of_some h0, peek, rawAt_some h0]
  | succ d ih =>
    have h0 : inp[pos]? = some 0x5B := by simpa using h 0 (by omega)
    have h1 : inp[pos + 1]? = some 0x5B := h 1 (by omega)
    have hrec := ih (pos + 1) (fun i hi => by have := h (i + 1) (by omega); rwa [show pos + (i + 1) = pos + 1 + i by omega] at this)
    unfold parseValue
    simp only [eof_of_some h0, peek, rawAt_some h0, Bool.false_eq_true, if_false]
    simp only [show ¬ ((0x5B : Nat) = 0x22) by decide, show ¬ ((0x5B : Nat) = 0x7B) by decide, if_false]
    unfold parseArray
    simp only [expect, eof_of_some h0, rawAt_some h0, Bool.false_eq_true, if_false, ok_bind, if_true, pure_bind']
    unfold fuelFor
    rw [skipWs_stop _ h1 (by decide)]
    simp only [ok_bind, matchCh, eof_of_some h1, rawAt_some h1, Bool.false_eq_true, if_false,
      show ¬ ((0x5B : Nat) = 0x5D) by decide, pure_bind']
    unfold arrLoop
    unfold fuelFor
    rw [skipWs_stop _ h1 (by decide)]
    simp only [ok_bind, hrec]
    rfl

theorem deep_document_reject (n : Nat) (rest : List Nat) (hn : EphVerif.Gen.C38.kMaxJsonDepth < n) :
    parseDocument (List.replicate n 0x5B ++ rest).toArray = .err "JSON nesting too deep" := by
  have hget : ∀ i, i < n → (List.replicate n 0x5B ++ rest).toArray[i]? = some 0x5B := by
    intro i hi
    simp [List.getElem?_append_left (show i < (List.replicate n 0x5B).length by simpa using hi), hi]
  unfold parseDocument fuelFor
  rw [skipWs_stop _ (hget 0 (by omega)) (by decide)]
  simp only [ok_bind]
  rw [deep_reject _ _ 0 (fun i hi => by rw [Nat.zero_add]; exact hget i (by omega))]
  rfl

end EphVerif.C38L
