/-
Helper lemmas for C24: bookkeeping of `pending_chunk_fetches_` / `active_peer_requests_` and
the scheduler invariant (`Inv`) preserved by every operation of `Model/Fetches.lean`.
-/
import EphVerif.Model.Fetches

namespace EphVerif.Fetches

def keys (l : List Entry) : List String := l.map (·.chunk)

/-- does `e` occupy a slot of provider `p`? -/
def occ (p : String) (e : Entry) : Nat := if e.inFlight = true ∧ e.peer = p then 1 else 0

theorem cnt_nil (p : String) : cnt p [] = 0 := rfl

theorem cnt_cons (p : String) (e : Entry) (l : List Entry) : cnt p (e :: l) = occ p e + cnt p l := by
  simp only [cnt, occ, List.filter_cons]
  by_cases h : e.inFlight = true ∧ e.peer = p
  · have : (e.inFlight && e.peer == p) = true := by simp [h.1, h.2]
    simp [h]; omega
  · have : (e.inFlight && e.peer == p) = false := by
      cases hf : e.inFlight <;> simp_all
    simp [this, h]

theorem cnt_append (p : String) (l m : List Entry) : cnt p (l ++ m) = cnt p l + cnt p m := by
  simp [cnt, List.filter_append]

theorem occ_flying {e : Entry} (h : e.inFlight = true) (p : String) : occ p e = if e.peer = p then 1 else 0 := by
  simp [occ, h]
theorem occ_idle {e : Entry} (h : e.inFlight = false) (p : String) : occ p e = 0 := by simp [occ, h]
theorem drop_self (a : String → Nat) (q : String) : drop a q q = a q - 1 := by simp [drop]
theorem drop_ne (a : String → Nat) {q p : String} (h : p ≠ q) : drop a q p = a p := by simp [drop, h]
theorem bump_self (a : String → Nat) (q : String) : bump a q q = a q + 1 := by simp [bump]
theorem bump_ne (a : String → Nat) {q p : String} (h : p ≠ q) : bump a q p = a p := by simp [bump, h]

theorem find_some {l : List Entry} {c : String} {e : Entry} (h : find l c = some e) : e ∈ l ∧ e.chunk = c := by
  unfold find at h
  exact ⟨List.mem_of_find?_eq_some h, by simpa using List.find?_some h⟩

theorem find_none {l : List Entry} {c : String} (h : find l c = none) : c ∉ keys l := by
  unfold find at h
  simp only [List.find?_eq_none] at h
  intro hc
  simp only [keys, List.mem_map] at hc
  obtain ⟨e, he, rfl⟩ := hc
  exact h e he (by simp)

theorem find_cons (e : Entry) (l : List Entry) (c : String) :
    find (e :: l) c = if e.chunk = c then some e else find l c := by
  simp only [find, List.find?_cons]
  by_cases h : e.chunk = c
  · simp [h]
  · have hb : (e.chunk == c) = false := by simpa using h
    simp [h, hb]

theorem find_of_mem {l : List Entry} (hu : (keys l).Nodup) {e : Entry} (he : e ∈ l) : find l e.chunk = some e := by
  induction l with
  | nil => cases he
  | cons x xs ih =>
    rw [find_cons]
    simp only [keys, List.map_cons, List.nodup_cons] at hu
    rcases List.mem_cons.1 he with rfl | hm
    · simp
    · have hne : x.chunk ≠ e.chunk := by
        intro heq; apply hu.1; rw [heq]; exact List.mem_map.2 ⟨e, hm, rfl⟩
      simp only [hne, if_false]
      exact ih hu.2 hm

theorem keys_replace (l : List Entry) (e : Entry) : keys (replace l e) = keys l := by
  simp only [keys, replace, List.map_map]
  apply List.map_congr_left
  intro x _
  simp only [Function.comp]
  split
  · rename_i h; exact (beq_iff_eq.1 h).symm
  · rfl

theorem replace_of_not_mem {l : List Entry} {e : Entry} (h : e.chunk ∉ keys l) : replace l e = l := by
  induction l with
  | nil => rfl
  | cons x xs ih =>
    simp only [keys, List.map_cons, List.mem_cons, not_or] at h
    have hx : (x.chunk == e.chunk) = false := by
      simp only [beq_eq_false_iff_ne]; exact fun heq => h.1 heq.symm
    simp only [replace, List.map_cons, hx, Bool.false_eq_true, if_false]
    congr 1
    exact ih h.2

/-- overwriting the (unique) entry `old` of a chunk moves its slot -/
theorem cnt_replace {l : List Entry} (hu : (keys l).Nodup) {old e : Entry} (hf : find l e.chunk = some old) (p : String) :
    cnt p (replace l e) + occ p old = cnt p l + occ p e := by
  induction l with
  | nil => simp [find] at hf
  | cons x xs ih =>
    simp only [keys, List.map_cons, List.nodup_cons] at hu
    rw [find_cons] at hf
    by_cases hx : x.chunk = e.chunk
    · simp only [hx, if_true, Option.some.injEq] at hf
      subst hf
      have hnm : e.chunk ∉ keys xs := by rw [← hx]; exact hu.1
      have : replace (x :: xs) e = e :: xs := by
        simp only [replace, List.map_cons, hx, beq_self_eq_true, if_true]
        congr 1
        exact replace_of_not_mem hnm
      rw [this, cnt_cons, cnt_cons]; omega
    · simp only [hx, if_false] at hf
      have hb : (x.chunk == e.chunk) = false := by simpa using hx
      have : replace (x :: xs) e = x :: replace xs e := by
        simp only [replace, List.map_cons, hb, Bool.false_eq_true, if_false]
      rw [this, cnt_cons, cnt_cons]
      have := ih hu.2 hf
      omega

theorem find_replace_ne (l : List Entry) (e : Entry) {k : String} (h : k ≠ e.chunk) :
    find (replace l e) k = find l k := by
  induction l with
  | nil => rfl
  | cons x xs ih =>
    by_cases hx : x.chunk = e.chunk
    · have : replace (x :: xs) e = e :: replace xs e := by
        simp only [replace, List.map_cons, hx, beq_self_eq_true, if_true]
      rw [this, find_cons, find_cons, ih]
      have h1 : ¬ e.chunk = k := fun q => h q.symm
      have h2 : ¬ x.chunk = k := by rw [hx]; exact h1
      simp [h1, h2]
    · have hb : (x.chunk == e.chunk) = false := by simpa using hx
      have : replace (x :: xs) e = x :: replace xs e := by
        simp only [replace, List.map_cons, hb, Bool.false_eq_true, if_false]
      rw [this, find_cons, find_cons, ih]

theorem mem_replace {l : List Entry} {e x : Entry} (h : x ∈ replace l e) : x = e ∨ (x ∈ l ∧ x.chunk ≠ e.chunk) := by
  simp only [replace, List.mem_map] at h
  obtain ⟨y, hy, rfl⟩ := h
  by_cases hc : y.chunk = e.chunk
  · simp [hc]
  · have hb : (y.chunk == e.chunk) = false := by simpa using hc
    simp only [hb, Bool.false_eq_true, if_false]
    exact Or.inr ⟨hy, hc⟩

theorem erase_sublist (l : List Entry) (c : String) : (keys (erase l c)).Sublist (keys l) :=
  List.Sublist.map _ List.filter_sublist

theorem nodup_erase {l : List Entry} (hu : (keys l).Nodup) (c : String) : (keys (erase l c)).Nodup :=
  hu.sublist (erase_sublist l c)

theorem erase_of_not_mem {l : List Entry} {c : String} (h : c ∉ keys l) : erase l c = l := by
  simp only [erase, List.filter_eq_self]
  intro e he
  simp only [Bool.not_eq_true', beq_eq_false_iff_ne]
  intro heq; exact h (List.mem_map.2 ⟨e, he, heq⟩)

/-- erasing the (unique) entry `old` of a chunk frees its slot -/
theorem cnt_erase {l : List Entry} (hu : (keys l).Nodup) {old : Entry} {c : String} (hf : find l c = some old) (p : String) :
    cnt p (erase l c) + occ p old = cnt p l := by
  induction l with
  | nil => simp [find] at hf
  | cons x xs ih =>
    simp only [keys, List.map_cons, List.nodup_cons] at hu
    rw [find_cons] at hf
    by_cases hx : x.chunk = c
    · simp only [hx, if_true, Option.some.injEq] at hf
      subst hf
      have hnm : c ∉ keys xs := by rw [← hx]; exact hu.1
      have : erase (x :: xs) c = xs := by
        simp only [erase, List.filter_cons, hx, beq_self_eq_true, Bool.not_true, Bool.false_eq_true, if_false]
        exact erase_of_not_mem hnm
      rw [this, cnt_cons]; omega
    · simp only [hx, if_false] at hf
      have hb : (x.chunk == c) = false := by simpa using hx
      have : erase (x :: xs) c = x :: erase xs c := by
        simp only [erase, List.filter_cons, hb, Bool.not_false, if_true]
      rw [this, cnt_cons, cnt_cons]
      have := ih hu.2 hf
      omega

/-! ### The scheduler invariant -/

structure Inv (cfg : Cfg) (s : State) : Prop where
  uniq : (keys s.pending).Nodup
  count : ∀ p, s.active p = cnt p s.pending
  limit : 0 < cfg.maxParallel → ∀ p, s.active p ≤ cfg.maxParallel

theorem inv_init (cfg : Cfg) : Inv cfg State.init :=
  ⟨by simp [State.init, keys], fun _ => by simp [State.init, cnt], fun _ _ => by simp [State.init]⟩

theorem clear_pending (st : State) (c : String) : (clear st c).pending = erase st.pending c := by
  unfold clear
  cases hf : find st.pending c with
  | none => simp only; exact (erase_of_not_mem (find_none hf)).symm
  | some e => rfl

theorem inv_clear {cfg : Cfg} {s : State} (h : Inv cfg s) (c : String) : Inv cfg (clear s c) := by
  unfold clear
  cases hf : find s.pending c with
  | none => exact h
  | some e =>
    refine ⟨nodup_erase h.uniq c, ?_, ?_⟩
    · intro p
      have e1 := cnt_erase h.uniq hf p
      have e2 := h.count p
      show (if e.inFlight = true then drop s.active e.peer else s.active) p = cnt p (erase s.pending c)
      by_cases hfl : e.inFlight = true
      · rw [if_pos hfl]
        rw [occ_flying hfl] at e1
        by_cases hp : p = e.peer
        · subst hp
          rw [drop_self]; simp only [if_true] at e1; omega
        · have hp' : ¬ e.peer = p := fun q => hp q.symm
          rw [drop_ne _ hp]; simp only [hp', if_false] at e1; omega
      · rw [if_neg hfl]
        have hfl' : e.inFlight = false := by simpa using hfl
        rw [occ_idle hfl'] at e1
        omega
    · intro hL p
      have := h.limit hL p
      show (if e.inFlight = true then drop s.active e.peer else s.active) p ≤ _
      split
      · unfold drop; split <;> omega
      · exact this

theorem inv_clearAll {cfg : Cfg} (ks : List String) : ∀ {s : State}, Inv cfg s → Inv cfg (clearAll s ks) := by
  induction ks with
  | nil => intro s h; exact h
  | cons k rest ih => intro s h; exact ih (inv_clear h k)

/-! ### first loop -/

theorem refreshProv_fields (cfg : Cfg) (env : Env) (now : Int) (f : Bool) (e : Entry) :
    (refreshProv cfg env now f e).chunk = e.chunk ∧ (refreshProv cfg env now f e).peer = e.peer ∧
    (refreshProv cfg env now f e).inFlight = e.inFlight ∧ (refreshProv cfg env now f e).expires = e.expires ∧
    (refreshProv cfg env now f e).nextAttempt = e.nextAttempt := by
  unfold refreshProv; split <;> simp

theorem touch_fields (cfg : Cfg) (env : Env) (now wall : Int) (e : Entry) :
    (touch cfg env now wall e).chunk = e.chunk ∧ (touch cfg env now wall e).peer = e.peer ∧
    (touch cfg env now wall e).expires = e.expires ∧ (touch cfg env now wall e).nextAttempt = e.nextAttempt := by
  have r := refreshProv_fields cfg env now false e
  unfold touch
  split
  · simp
  · dsimp only; split <;> simp [r.1, r.2.1, r.2.2.2.1, r.2.2.2.2]

theorem completed_congr (env : Env) (wall : Int) {a b : Entry} (h1 : a.chunk = b.chunk) (h2 : a.expires = b.expires)
    (h3 : a.nextAttempt = b.nextAttempt) : completed env wall a = completed env wall b := by
  simp [completed, manifestExpired, h1, h2, h3]

theorem ends_flying {env : Env} {now wall : Int} {e : Entry} (h : ends env now wall e = true) : e.inFlight = true := by
  simp only [ends, Bool.and_eq_true] at h; exact h.1.2

theorem occ_touch (cfg : Cfg) (env : Env) (now wall : Int) (e : Entry) (p : String) :
    occ p (touch cfg env now wall e)
      + (if ends env now wall (refreshProv cfg env now false e) = true ∧ e.peer = p then 1 else 0) = occ p e := by
  have r := refreshProv_fields cfg env now false e
  unfold touch
  by_cases hh : env.held e.chunk = true
  · have : ends env now wall (refreshProv cfg env now false e) = false := by
      simp [ends, completed, r.1, hh]
    simp [hh, this]
  · simp only [hh, if_false]
    by_cases he : ends env now wall (refreshProv cfg env now false e) = true
    · have hf := ends_flying he
      rw [r.2.2.1] at hf
      simp only [he, if_true, true_and, occ, r.2.1, hf]
      simp
    · simp only [he, if_false, false_and, occ, Bool.false_eq_true]
      rw [r.2.1, r.2.2.1]; simp

theorem pass1_fst (cfg : Cfg) (env : Env) (now wall : Int) (l : List Entry) :
    ∀ a, (pass1 cfg env now wall l a).1 = l.map (touch cfg env now wall) := by
  induction l with
  | nil => intro a; rfl
  | cons e es ih => intro a; simp [pass1, ih]

theorem pass1_keys (cfg : Cfg) (env : Env) (now wall : Int) (l : List Entry) (a : String → Nat) :
    keys (pass1 cfg env now wall l a).1 = keys l := by
  rw [pass1_fst]
  simp only [keys, List.map_map]
  apply List.map_congr_left
  intro e _
  exact (touch_fields cfg env now wall e).1

theorem drop_le (a : String → Nat) (q p : String) : drop a q p ≤ a p := by
  unfold drop; split <;> omega

theorem pass1_le (cfg : Cfg) (env : Env) (now wall : Int) (l : List Entry) :
    ∀ a p, (pass1 cfg env now wall l a).2 p ≤ a p := by
  induction l with
  | nil => intro a p; exact Nat.le_refl _
  | cons e es ih =>
    intro a p
    simp only [pass1]
    refine Nat.le_trans (ih _ p) ?_
    split
    · exact drop_le a e.peer p
    · exact Nat.le_refl _

theorem pass1_count (cfg : Cfg) (env : Env) (now wall : Int) (l : List Entry) :
    ∀ a, (∀ p, cnt p l ≤ a p) →
      ∀ p, (pass1 cfg env now wall l a).2 p + cnt p l = a p + cnt p (pass1 cfg env now wall l a).1 := by
  induction l with
  | nil => intro a _ p; simp [pass1]
  | cons e es ih =>
    intro a ha p
    simp only [pass1]
    rw [cnt_cons, cnt_cons]
    have ht := occ_touch cfg env now wall e p
    by_cases he : ends env now wall (refreshProv cfg env now false e) = true
    · have hf : e.inFlight = true := by
        have := ends_flying he; rwa [(refreshProv_fields cfg env now false e).2.2.1] at this
      simp only [he, if_true, true_and] at ht ⊢
      have ha' : ∀ q, cnt q es ≤ drop a e.peer q := by
        intro q
        have := ha q; rw [cnt_cons, occ_flying hf] at this
        by_cases hq : q = e.peer
        · subst hq; rw [drop_self]; simp only [if_true] at this; omega
        · have hq' : ¬ e.peer = q := fun x => hq x.symm
          rw [drop_ne _ hq]; simp only [hq', if_false] at this; omega
      have := ih _ ha' p
      have hap := ha p; rw [cnt_cons, occ_flying hf] at hap
      rw [occ_flying hf] at ht ⊢
      by_cases hq : p = e.peer
      · subst hq
        rw [drop_self] at this
        simp only [if_true] at ht hap ⊢
        omega
      · have hq' : ¬ e.peer = p := fun x => hq x.symm
        rw [drop_ne _ hq] at this
        simp only [hq', if_false] at ht hap ⊢
        omega
    · simp only [he, if_false, false_and, Bool.false_eq_true] at ht ⊢
      have ha' : ∀ q, cnt q es ≤ a q := by
        intro q; have := ha q; rw [cnt_cons] at this; omega
      have := ih _ ha' p
      omega

/-! ### second loop -/

theorem scheduleNext_fields (cfg : Cfg) (now : Int) (e : Entry) (ok : Bool) :
    (scheduleNext cfg now e ok).chunk = e.chunk ∧ (scheduleNext cfg now e ok).peer = e.peer ∧
    (scheduleNext cfg now e ok).expires = e.expires ∧ (scheduleNext cfg now e ok).attempts = e.attempts := by
  unfold scheduleNext; split
  · simp
  · split <;> simp

theorem dispatchEntry_fields (cfg : Cfg) (env : Env) (now : Int) (e : Entry) :
    (dispatchEntry cfg env now e).1.chunk = e.chunk ∧ (dispatchEntry cfg env now e).1.peer = e.peer ∧
    (dispatchEntry cfg env now e).1.expires = e.expires ∧ (dispatchEntry cfg env now e).1.attempts = e.attempts + 1 ∧
    (dispatchEntry cfg env now e).1.inFlight = env.sendOk e.peer ∧ (dispatchEntry cfg env now e).2 = env.sendOk e.peer := by
  have h := scheduleNext_fields cfg now { e with attempts := e.attempts + 1 } (env.sendOk e.peer)
  unfold dispatchEntry
  dsimp only
  refine ⟨h.1, h.2.1, h.2.2.1, h.2.2.2, ?_, ?_⟩ <;> rfl

/-- the entries of the keys still to be attempted are idle -/
def NotFlying (l : List Entry) (ks : List String) : Prop := ∀ k ∈ ks, ∀ e, find l k = some e → e.inFlight = false

theorem inv_dispatchLoop {cfg : Cfg} (env : Env) (now : Int) (ks : List String) :
    ∀ acc : LoopAcc, Inv cfg acc.st → ks.Nodup → NotFlying acc.st.pending ks →
      Inv cfg (dispatchLoop cfg env now ks acc).st := by
  induction ks with
  | nil => intro acc h _ _; exact h
  | cons k ks ih =>
    intro acc h hnd hnf
    have hnd' := (List.nodup_cons.1 hnd)
    have hnf' : NotFlying acc.st.pending ks := fun k' hk' => hnf k' (List.mem_cons_of_mem _ hk')
    unfold dispatchLoop
    split
    · exact h
    · cases hf : find acc.st.pending k with
      | none => exact ih acc h hnd'.2 hnf'
      | some e =>
        dsimp only
        split
        · exact ih acc h hnd'.2 hnf'
        · rename_i hcd
          have hcd' : canDispatch cfg acc.st e.peer = true := by simpa using hcd
          have d := dispatchEntry_fields cfg env now e
          have hek : e.chunk = k := (find_some hf).2
          have hidle : e.inFlight = false := hnf k (List.mem_cons_self) e hf
          apply ih
          · refine ⟨?_, ?_, ?_⟩
            · show (keys (replace acc.st.pending (dispatchEntry cfg env now e).1)).Nodup
              rw [keys_replace]; exact h.uniq
            · intro p
              show (if (dispatchEntry cfg env now e).2 = true then bump acc.st.active e.peer else acc.st.active) p
                    = cnt p (replace acc.st.pending (dispatchEntry cfg env now e).1)
              have hf' : find acc.st.pending (dispatchEntry cfg env now e).1.chunk = some e := by rw [d.1, hek]; exact hf
              have e1 := cnt_replace h.uniq hf' p
              rw [occ_idle hidle] at e1
              have e2 := h.count p
              rw [d.2.2.2.2.2]
              by_cases hok : env.sendOk e.peer = true
              · have hfl : (dispatchEntry cfg env now e).1.inFlight = true := by rw [d.2.2.2.2.1]; exact hok
                rw [occ_flying hfl, d.2.1] at e1
                rw [if_pos hok]
                by_cases hp : p = e.peer
                · subst hp; rw [bump_self]; simp only [if_true] at e1; omega
                · have hp' : ¬ e.peer = p := fun q => hp q.symm
                  rw [bump_ne _ hp]; simp only [hp', if_false] at e1; omega
              · have hok' : env.sendOk e.peer = false := by simpa using hok
                have hfl : (dispatchEntry cfg env now e).1.inFlight = false := by rw [d.2.2.2.2.1]; exact hok'
                rw [occ_idle hfl] at e1
                rw [if_neg hok]; omega
            · intro hL p
              have := h.limit hL p
              show (if (dispatchEntry cfg env now e).2 = true then bump acc.st.active e.peer else acc.st.active) p ≤ _
              split
              · by_cases hp : p = e.peer
                · subst hp
                  rw [bump_self]
                  simp only [canDispatch, Bool.or_eq_true, beq_iff_eq, decide_eq_true_eq] at hcd'
                  rcases hcd' with h0 | h1 <;> omega
                · rw [bump_ne _ hp]; exact this
              · exact this
          · exact hnd'.2
          · intro k' hk' x hx
            have hne : k' ≠ (dispatchEntry cfg env now e).1.chunk := by
              rw [d.1, hek]; intro heq; exact hnd'.1 (heq ▸ hk')
            have : find (replace acc.st.pending (dispatchEntry cfg env now e).1) k' = find acc.st.pending k' :=
              find_replace_ne _ _ hne
            exact hnf' k' hk' x (this ▸ hx)

theorem isReady_idle {env : Env} {now wall : Int} {e : Entry} (h : isReady env now wall e = true) : e.inFlight = false := by
  simp only [isReady, Bool.and_eq_true, Bool.not_eq_true'] at h; exact h.1.2

theorem insertBy_perm (le : Entry → Entry → Bool) (x : Entry) (l : List Entry) : (insertBy le x l).Perm (x :: l) := by
  induction l with
  | nil => exact List.Perm.refl _
  | cons y ys ih =>
    unfold insertBy
    split
    · exact List.Perm.refl _
    · exact ((List.Perm.cons y ih).trans (List.Perm.swap x y ys))

theorem sortBy_perm (le : Entry → Entry → Bool) (l : List Entry) : (sortBy le l).Perm l := by
  induction l with
  | nil => exact List.Perm.refl _
  | cons x xs ih => exact (insertBy_perm le x _).trans (List.Perm.cons x ih)

theorem ready_facts {l : List Entry} (hu : (keys l).Nodup) (env : Env) (now wall : Int) :
    ((sortBy (readyLe wall) (l.filter (isReady env now wall))).map (·.chunk)).Nodup ∧
    NotFlying l ((sortBy (readyLe wall) (l.filter (isReady env now wall))).map (·.chunk)) := by
  have hperm := sortBy_perm (readyLe wall) (l.filter (isReady env now wall))
  constructor
  · have hsub : ((l.filter (isReady env now wall)).map (·.chunk)).Nodup :=
      hu.sublist (List.Sublist.map _ List.filter_sublist)
    exact (hperm.map _).nodup_iff.2 hsub
  · intro k hk x hx
    obtain ⟨e, he, rfl⟩ := List.mem_map.1 hk
    have he' : e ∈ l.filter (isReady env now wall) := hperm.mem_iff.1 he
    obtain ⟨hel, hr⟩ := List.mem_filter.1 he'
    have := find_of_mem hu hel
    rw [this] at hx
    cases hx
    exact isReady_idle hr

theorem inv_process {cfg : Cfg} {s : State} (h : Inv cfg s) (env : Env) (now wall : Int) :
    Inv cfg (process cfg env now wall s).1 := by
  unfold process
  dsimp only
  apply inv_clearAll
  have h1 : Inv cfg ⟨(pass1 cfg env now wall s.pending s.active).1, (pass1 cfg env now wall s.pending s.active).2⟩ := by
    refine ⟨?_, ?_, ?_⟩
    · show (keys (pass1 cfg env now wall s.pending s.active).1).Nodup
      rw [pass1_keys]; exact h.uniq
    · intro p
      have := pass1_count cfg env now wall s.pending s.active (fun q => by rw [h.count q]; exact Nat.le_refl _) p
      have := h.count p
      show (pass1 cfg env now wall s.pending s.active).2 p = cnt p (pass1 cfg env now wall s.pending s.active).1
      omega
    · intro hL p
      exact Nat.le_trans (pass1_le cfg env now wall s.pending s.active p) (h.limit hL p)
  have hr := ready_facts h1.uniq env now wall
  exact inv_dispatchLoop env now _ _ h1 hr.1 hr.2

theorem inv_upsert {cfg : Cfg} {s : State} (h : Inv cfg s) (env : Env) (now wall : Int) (c p : String) (x : Int) :
    Inv cfg (upsert cfg env now wall s c p x) := by
  unfold upsert
  split
  · rename_i hf
    refine ⟨?_, ?_, h.limit⟩
    · show (keys (s.pending ++ [freshEntry cfg env now wall c p x])).Nodup
      simp only [keys, List.map_append, List.map_cons, List.map_nil]
      refine List.nodup_append.2 ⟨h.uniq, by simp, ?_⟩
      intro a ha b hb
      simp only [List.mem_singleton] at hb
      subst hb
      intro heq; subst heq
      exact find_none hf ha
    · intro q
      show s.active q = cnt q (s.pending ++ [freshEntry cfg env now wall c p x])
      rw [cnt_append, cnt_cons, occ_idle (show (freshEntry cfg env now wall c p x).inFlight = false from rfl), cnt_nil, h.count q]
      omega
  · rename_i old hf
    have hold := find_some hf
    have hf' : find s.pending (retarget cfg env now wall old p x).chunk = some old := by
      show find s.pending old.chunk = some old
      rw [hold.2]; exact hf
    refine ⟨?_, ?_, ?_⟩
    · show (keys (replace s.pending _)).Nodup
      rw [keys_replace]; exact h.uniq
    · intro q
      have e1 := cnt_replace h.uniq hf' q
      rw [occ_idle (show (retarget cfg env now wall old p x).inFlight = false from rfl)] at e1
      have e2 := h.count q
      show (if (old.inFlight && !false) = true then drop s.active old.peer else s.active) q
            = cnt q (replace s.pending (retarget cfg env now wall old p x))
      by_cases hfl : old.inFlight = true
      · simp only [hfl, Bool.not_false, Bool.and_self, if_true]
        rw [occ_flying hfl] at e1
        by_cases hq : q = old.peer
        · subst hq; rw [drop_self]; simp only [if_true] at e1; omega
        · have hq' : ¬ old.peer = q := fun z => hq z.symm
          rw [drop_ne _ hq]; simp only [hq', if_false] at e1; omega
      · have hfl' : old.inFlight = false := by simpa using hfl
        simp only [hfl', Bool.false_and, Bool.false_eq_true, if_false]
        rw [occ_idle hfl'] at e1
        omega
    · intro hL q
      have := h.limit hL q
      show (if (old.inFlight && !false) = true then drop s.active old.peer else s.active) q ≤ _
      split
      · exact Nat.le_trans (drop_le _ _ _) this
      · exact this

theorem inv_step {cfg : Cfg} {s : State} (h : Inv cfg s) (e : Step) : Inv cfg (step cfg s e).1 := by
  unfold step
  cases e.op with
  | announce c p x =>
    simp only [announce]
    split
    · exact h
    · exact inv_process (inv_upsert h _ _ _ _ _ _) _ _ _
  | arrive c => exact inv_clear h c
  | tick => exact inv_process h _ _ _

theorem inv_run {cfg : Cfg} (hist : List Step) : ∀ {s : State}, Inv cfg s → Inv cfg (run cfg s hist) := by
  induction hist with
  | nil => intro s h; exact h
  | cons e rest ih => intro s h; exact ih (inv_step h e)

/-! ### What a scheduler pass removes -/

theorem not_contains {l : List String} {x : String} (h : (!l.contains x) = true) : x ∉ l := by
  simpa using h

theorem clearAll_pending (ks : List String) :
    ∀ st : State, (clearAll st ks).pending = st.pending.filter (fun e => !ks.contains e.chunk) := by
  induction ks with
  | nil =>
    intro st
    simp only [clearAll, List.contains_nil, Bool.not_false]
    exact (List.filter_eq_self.2 (fun _ _ => rfl)).symm
  | cons k rest ih =>
    intro st
    simp only [clearAll, ih, clear_pending, erase, List.filter_filter]
    apply List.filter_congr
    intro e _
    simp only [List.contains_cons, Bool.not_or, Bool.and_comm]

theorem dispatchEntry_next_none {cfg : Cfg} {env : Env} {now : Int} {e : Entry}
    (h : (dispatchEntry cfg env now e).1.nextAttempt = none) :
    (dispatchEntry cfg env now e).2 = false ∧ exhausted cfg (dispatchEntry cfg env now e).1.attempts = true := by
  have d := dispatchEntry_fields cfg env now e
  rw [d.2.2.2.1, d.2.2.2.2.2]
  unfold dispatchEntry scheduleNext at h
  dsimp only at h
  cases hok : env.sendOk e.peer with
  | true => simp [hok] at h
  | false =>
    simp only [hok, Bool.false_eq_true, if_false] at h
    refine ⟨rfl, ?_⟩
    by_cases hx : exhausted cfg (e.attempts + 1) = true
    · exact hx
    · simp [hx] at h

/-- every finished entry still in the map is scheduled for removal at the end of the pass -/
def Covered (env : Env) (wall : Int) (ck : List String) (acc : LoopAcc) : Prop :=
  ∀ e ∈ acc.st.pending, completed env wall e = true → e.chunk ∈ ck ∨ e.chunk ∈ acc.exhaustedKeys

theorem covered_loop {cfg : Cfg} (env : Env) (now wall : Int) (ck : List String) (ks : List String) :
    ∀ acc : LoopAcc, Covered env wall ck acc → Covered env wall ck (dispatchLoop cfg env now ks acc) := by
  induction ks with
  | nil => intro acc h; exact h
  | cons k ks ih =>
    intro acc h
    unfold dispatchLoop
    split
    · exact h
    · cases hf : find acc.st.pending k with
      | none => exact ih acc h
      | some e =>
        dsimp only
        split
        · exact ih acc h
        · apply ih
          have d := dispatchEntry_fields cfg env now e
          have hek := find_some hf
          intro x hx hcx
          show x.chunk ∈ ck ∨ x.chunk ∈ (if (!(dispatchEntry cfg env now e).2 && exhausted cfg (dispatchEntry cfg env now e).1.attempts) = true
                  then acc.exhaustedKeys ++ [k] else acc.exhaustedKeys)
          have hmono : ∀ c, c ∈ acc.exhaustedKeys → c ∈ (if (!(dispatchEntry cfg env now e).2 && exhausted cfg (dispatchEntry cfg env now e).1.attempts) = true
                  then acc.exhaustedKeys ++ [k] else acc.exhaustedKeys) := by
            intro c hc; split
            · exact List.mem_append_left _ hc
            · exact hc
          rcases mem_replace hx with rfl | ⟨hxl, _⟩
          · -- the entry just attempted
            simp only [completed, Bool.or_eq_true] at hcx
            rcases hcx with (hheld | hexp) | hnone
            · have : completed env wall e = true := by
                simp only [completed, Bool.or_eq_true]; rw [d.1] at hheld; exact Or.inl (Or.inl hheld)
              rcases h e hek.1 this with h1 | h2
              · exact Or.inl (d.1 ▸ h1)
              · exact Or.inr (hmono _ (d.1 ▸ h2))
            · have : completed env wall e = true := by
                simp only [completed, Bool.or_eq_true, manifestExpired] at hexp ⊢
                rw [d.2.2.1] at hexp; exact Or.inl (Or.inr hexp)
              rcases h e hek.1 this with h1 | h2
              · exact Or.inl (d.1 ▸ h1)
              · exact Or.inr (hmono _ (d.1 ▸ h2))
            · have hn : (dispatchEntry cfg env now e).1.nextAttempt = none := by
                cases hq : (dispatchEntry cfg env now e).1.nextAttempt with
                | none => rfl
                | some t => rw [hq] at hnone; simp at hnone
              have := dispatchEntry_next_none hn
              right
              rw [this.1, this.2]
              simp only [Bool.not_false, Bool.and_self, if_true]
              rw [d.1, hek.2]
              exact List.mem_append_right _ (List.mem_singleton.2 rfl)
          · rcases h x hxl hcx with h1 | h2
            · exact Or.inl h1
            · exact Or.inr (hmono _ h2)

/-- **what a pass leaves behind**: no entry whose chunk is held, whose manifest has expired, or whose
    attempts are exhausted survives `process_pending_fetches` -/
theorem process_drops (cfg : Cfg) (env : Env) (now wall : Int) (s : State) :
    ∀ e ∈ (process cfg env now wall s).1.pending, completed env wall e = false := by
  intro e he
  unfold process at he
  dsimp only at he
  rw [clearAll_pending] at he
  obtain ⟨hmem, hnot⟩ := List.mem_filter.1 he
  have hcov := covered_loop (cfg := cfg) env now wall
    (((pass1 cfg env now wall s.pending s.active).1.filter (completed env wall)).map (·.chunk))
    ((sortBy (readyLe wall) ((pass1 cfg env now wall s.pending s.active).1.filter (isReady env now wall))).map (·.chunk))
    ⟨⟨(pass1 cfg env now wall s.pending s.active).1, (pass1 cfg env now wall s.pending s.active).2⟩,
      ((pass1 cfg env now wall s.pending s.active).1.filter (isWaiting env wall)).length, [], []⟩
    (by
      intro x hx hcx
      exact Or.inl (List.mem_map.2 ⟨x, List.mem_filter.2 ⟨hx, hcx⟩, rfl⟩))
  cases hc : completed env wall e with
  | false => rfl
  | true =>
    have := hcov e hmem hc
    have hnot' := not_contains hnot
    rcases this with h1 | h2
    · exact absurd (List.mem_append_left _ h1) hnot'
    · exact absurd (List.mem_append_right _ h2) hnot'

/-! ### Expiries are only ever set by an announce -/

def AllExp (P : Int → Prop) (l : List Entry) : Prop := ∀ e ∈ l, P e.expires

theorem allExp_loop {cfg : Cfg} (env : Env) (now : Int) (P : Int → Prop) (ks : List String) :
    ∀ acc : LoopAcc, AllExp P acc.st.pending → AllExp P (dispatchLoop cfg env now ks acc).st.pending := by
  induction ks with
  | nil => intro acc h; exact h
  | cons k ks ih =>
    intro acc h
    unfold dispatchLoop
    split
    · exact h
    · cases hf : find acc.st.pending k with
      | none => exact ih acc h
      | some e =>
        dsimp only
        split
        · exact ih acc h
        · apply ih
          intro x hx
          rcases mem_replace hx with rfl | ⟨hxl, _⟩
          · rw [(dispatchEntry_fields cfg env now e).2.2.1]; exact h e (find_some hf).1
          · exact h x hxl

theorem allExp_process {cfg : Cfg} (env : Env) (now wall : Int) (P : Int → Prop) {s : State}
    (h : AllExp P s.pending) : AllExp P (process cfg env now wall s).1.pending := by
  unfold process
  dsimp only
  intro e he
  rw [clearAll_pending] at he
  have hmem := (List.mem_filter.1 he).1
  refine allExp_loop env now P _ _ ?_ e hmem
  intro x hx
  show P x.expires
  rw [pass1_fst] at hx
  obtain ⟨y, hy, rfl⟩ := List.mem_map.1 hx
  rw [(touch_fields cfg env now wall y).2.2.1]
  exact h y hy

theorem allExp_upsert {cfg : Cfg} (env : Env) (now wall : Int) (P : Int → Prop) {s : State} (c p : String) (x : Int)
    (h : AllExp P s.pending) (hx : P (cappedExpiry cfg wall x)) :
    AllExp P (upsert cfg env now wall s c p x).pending := by
  unfold upsert
  split
  · intro e he
    rcases List.mem_append.1 he with h1 | h2
    · exact h e h1
    · simp only [List.mem_singleton] at h2; subst h2; exact hx
  · intro e he
    rcases mem_replace he with rfl | ⟨h1, _⟩
    · exact hx
    · exact h e h1

theorem allExp_clear (P : Int → Prop) {s : State} (c : String) (h : AllExp P s.pending) :
    AllExp P (clear s c).pending := by
  rw [clear_pending]
  intro e he
  exact h e (List.mem_filter.1 he).1

/-! ### Horizon of a history -/

/-- what `handle_announce` guarantees about an announce it passes on: the manifest has not expired
    (so its expiry, and the wall clock, are positive) -/
def Guarded (s : Step) : Prop :=
  match s.op with
  | .announce _ _ x => 0 < x ∧ 0 < s.wall
  | _ => True

/-- latest "announce time + maximum TTL" of a history (0 if nothing was announced) -/
def horizonFrom (cfg : Cfg) (B : Int) : List Step → Int
  | [] => B
  | s :: rest =>
    horizonFrom cfg (match s.op with
      | .announce _ _ _ => max B (s.wall + cfg.maxTtl * second)
      | _ => B) rest

def horizon (cfg : Cfg) (hist : List Step) : Int := horizonFrom cfg 0 hist

def Bounded (B : Int) (l : List Entry) : Prop := AllExp (fun x => x ≠ 0 ∧ x ≤ B) l

theorem bounded_mono {B B' : Int} (h : B ≤ B') {l : List Entry} (hb : Bounded B l) : Bounded B' l :=
  fun e he => ⟨(hb e he).1, Int.le_trans (hb e he).2 h⟩

theorem bounded_step {cfg : Cfg} (hm : 0 ≤ cfg.maxTtl) {s : State} {B : Int} (hb : Bounded B s.pending) (t : Step)
    (hg : Guarded t) :
    Bounded (match t.op with
      | .announce _ _ _ => max B (t.wall + cfg.maxTtl * second)
      | _ => B) (step cfg s t).1.pending := by
  unfold step
  cases hop : t.op with
  | announce c p x =>
    simp only [Guarded, hop] at hg
    have hle : B ≤ max B (t.wall + cfg.maxTtl * second) := Int.le_max_left _ _
    simp only [announce]
    split
    · exact bounded_mono hle hb
    · apply allExp_process
      apply allExp_upsert
      · exact bounded_mono hle hb
      · have hs : 0 ≤ cfg.maxTtl * second := Int.mul_nonneg hm (by decide)
        have h2 : t.wall + cfg.maxTtl * second ≤ max B (t.wall + cfg.maxTtl * second) := Int.le_max_right _ _
        unfold cappedExpiry
        generalize cfg.maxTtl * second = M at *
        simp only [Int.min_def]
        split <;> constructor <;> omega
  | arrive c => exact allExp_clear _ c hb
  | tick => exact allExp_process _ _ _ _ hb

theorem bounded_run {cfg : Cfg} (hm : 0 ≤ cfg.maxTtl) (hist : List Step) :
    ∀ {s : State} {B : Int}, Bounded B s.pending → (∀ t ∈ hist, Guarded t) →
      Bounded (horizonFrom cfg B hist) (run cfg s hist).pending := by
  induction hist with
  | nil => intro s B hb _; exact hb
  | cons t rest ih =>
    intro s B hb hg
    simp only [run, horizonFrom]
    exact ih (bounded_step hm hb t (hg t List.mem_cons_self)) (fun u hu => hg u (List.mem_cons_of_mem _ hu))

end EphVerif.Fetches
