import EphVerif.Model.CliFetch
/-! Helper lemmas for C30 (the fetch decision). -/
namespace EphVerif.C30L
open EphVerif.CliFetch

variable (sha : Bytes → Bytes)

theorem deliver_wrote {h : Bytes} {t : Bool} {r : Resp} {b : Bytes}
    (hd : deliver sha h t r = .wrote b) : r = .payload b ∧ sha b = h := by
  cases r with
  | payload c =>
    simp only [deliver] at hd
    by_cases hc : sha c = h
    · rw [if_pos hc] at hd; injection hd with hd; subst hd; exact ⟨rfl, hc⟩
    · rw [if_neg hc] at hd; cases hd
  | okNoPayload => simp only [deliver] at hd; split at hd <;> cases hd
  | down => simp [deliver] at hd
  | fail => simp [deliver] at hd

theorem deliver_neutral (h : Bytes) (t : Bool) (r : Resp) :
    deliver sha h t (neutral sha h r) = deliver sha h t r := by
  cases r with
  | payload c =>
    simp only [neutral]
    by_cases hc : sha c = h
    · rw [if_pos hc]
    · rw [if_neg hc]; simp [deliver, hc]
  | okNoPayload => rfl
  | down => rfl
  | fail => rfl

theorem contacted_neutral (h : Bytes) (i : Nat) (r : Resp) :
    contacted i (neutral sha h r) = contacted i r := by
  cases r with
  | payload c =>
    simp only [neutral]
    by_cases hc : sha c = h
    · rw [if_pos hc]
    · rw [if_neg hc]; rfl
  | okNoPayload => rfl
  | down => rfl
  | fail => rfl

/-- a map on paths that keeps index, kind and priority -/
def Shape (f : Path → Path) : Prop := ∀ p, (f p).idx = p.idx ∧ (f p).kind = p.kind ∧ (f p).prio = p.prio

theorem insertPrio_map (f : Path → Path) (hf : Shape f) (p : Path) (l : List Path) :
    insertPrio (f p) (l.map f) = (insertPrio p l).map f := by
  induction l with
  | nil => rfl
  | cons q qs ih =>
    simp only [List.map_cons, insertPrio, (hf p).2.2, (hf q).2.2]
    by_cases hle : p.prio ≤ q.prio
    · rw [if_pos hle, if_pos hle]; rfl
    · rw [if_neg hle, if_neg hle, ih]; rfl

theorem sortPrio_map (f : Path → Path) (hf : Shape f) (l : List Path) :
    sortPrio (l.map f) = (sortPrio l).map f := by
  induction l with
  | nil => rfl
  | cons p ps ih => simp only [List.map_cons, sortPrio, ih, insertPrio_map f hf]

theorem filter_kind_map (f : Path → Path) (hf : Shape f) (c : Kind → Bool) (l : List Path) :
    (l.map f).filter (fun p => c p.kind) = (l.filter (fun p => c p.kind)).map f := by
  induction l with
  | nil => rfl
  | cons p ps ih =>
    simp only [List.map_cons, List.filter_cons, (hf p).2.1]
    by_cases hc : c p.kind = true
    · rw [if_pos hc, if_pos hc, ih]; rfl
    · rw [if_neg hc, if_neg hc, ih]

theorem directOrder_map (f : Path → Path) (hf : Shape f) (mode : Mode) (l : List Path) :
    directOrder mode (l.map f) = (directOrder mode l).map f := by
  unfold directOrder
  have h1 := filter_kind_map f hf isTransportKind l
  have h2 := filter_kind_map f hf (fun k => k == .control) l
  have h3 := filter_kind_map f hf (fun k => k == .fallback) l
  simp only [] at h1 h2 h3 ⊢
  rw [h1, h2, h3, sortPrio_map f hf, sortPrio_map f hf, sortPrio_map f hf]
  by_cases hm1 : (mode == Mode.controlFallback) = true <;> by_cases hm2 : (mode == Mode.transportOnly) = true <;>
    simp [hm1, hm2]

/-- replacing every mismatching payload by a failure -/
def neutralPath (h : Bytes) (p : Path) : Path := { p with resp := neutral sha h p.resp }

theorem neutralPath_shape (h : Bytes) : Shape (neutralPath sha h) := fun _ => ⟨rfl, rfl, rfl⟩

theorem run_neutral (h : Bytes) (l : List Path) :
    run sha h (l.map (neutralPath sha h)) = run sha h l := by
  induction l with
  | nil => rfl
  | cons p ps ih =>
    simp only [List.map_cons, run]
    have hk : (neutralPath sha h p).kind = p.kind := rfl
    have hi : (neutralPath sha h p).idx = p.idx := rfl
    have hr : (neutralPath sha h p).resp = neutral sha h p.resp := rfl
    rw [hk, hi, hr, deliver_neutral, contacted_neutral, ih]

theorem run_wrote {h : Bytes} {l : List Path} {b : Bytes} (hr : (run sha h l).1 = .wrote b) : sha b = h := by
  induction l with
  | nil => simp [run] at hr
  | cons p ps ih =>
    simp only [run] at hr
    cases hd : deliver sha h (isTransportKind p.kind) p.resp with
    | wrote c => rw [hd] at hr; simp only at hr; injection hr with hr; subst hr; exact (deliver_wrote sha hd).2
    | remote => rw [hd] at hr; simp at hr
    | next => rw [hd] at hr; exact ih hr

/-- `run` ends with `wrote b` exactly when the first path that does not simply fail delivers matching bytes `b` -/
theorem run_wrote_iff (h : Bytes) (l : List Path) (b : Bytes) :
    (run sha h l).1 = .wrote b ↔
      ∃ pre p post, l = pre ++ p :: post ∧
        (∀ q ∈ pre, deliver sha h (isTransportKind q.kind) q.resp = .next) ∧ p.resp = .payload b ∧ sha b = h := by
  induction l with
  | nil => simp [run]
  | cons p ps ih =>
    constructor
    · intro hr
      simp only [run] at hr
      cases hd : deliver sha h (isTransportKind p.kind) p.resp with
      | wrote c =>
        rw [hd] at hr; simp only at hr; injection hr with hr; subst hr
        exact ⟨[], p, ps, rfl, by simp, (deliver_wrote sha hd).1, (deliver_wrote sha hd).2⟩
      | remote => rw [hd] at hr; simp at hr
      | next =>
        rw [hd] at hr
        obtain ⟨pre, q, post, hl, hpre, hq, hs⟩ := ih.mp hr
        refine ⟨p :: pre, q, post, by rw [hl]; rfl, ?_, hq, hs⟩
        intro x hx
        rcases List.mem_cons.mp hx with hx | hx
        · subst hx; exact hd
        · exact hpre x hx
    · rintro ⟨pre, q, post, hl, hpre, hq, hs⟩
      cases pre with
      | nil =>
        simp only [List.nil_append, List.cons.injEq] at hl
        obtain ⟨hpq, _⟩ := hl
        subst hpq
        simp only [run, hq, deliver, hs, if_true]
      | cons x xs =>
        simp only [List.cons_append, List.cons.injEq] at hl
        obtain ⟨hpx, hps⟩ := hl
        subst hpx
        have hx := hpre p (by simp)
        simp only [run, hx]
        exact ih.mpr ⟨xs, q, post, hps, fun y hy => hpre y (by simp [hy]), hq, hs⟩

/-- if the walk finds nothing, every endpoint that is up was contacted -/
theorem run_next_tried {h : Bytes} {l : List Path} (hr : (run sha h l).1 = .next) :
    ∀ p ∈ l, p.resp ≠ .down → p.idx ∈ (run sha h l).2 := by
  induction l with
  | nil => intro p hp; cases hp
  | cons q qs ih =>
    intro p hp hup
    simp only [run] at hr ⊢
    cases hd : deliver sha h (isTransportKind q.kind) q.resp with
    | wrote c => rw [hd] at hr; simp at hr
    | remote => rw [hd] at hr; simp at hr
    | next =>
      rw [hd] at hr
      simp only [hd]
      rcases List.mem_cons.mp hp with hpq | hpq
      · subst hpq
        apply List.mem_append_left
        cases hresp : p.resp with
        | down => exact absurd hresp hup
        | fail => simp [contacted]
        | payload c => simp [contacted]
        | okNoPayload => simp [contacted]
      · exact List.mem_append_right _ (ih hr p hpq hup)

theorem mem_insertPrio (p q : Path) (l : List Path) : q ∈ insertPrio p l ↔ q = p ∨ q ∈ l := by
  induction l with
  | nil => simp [insertPrio]
  | cons x xs ih =>
    simp only [insertPrio]
    by_cases hle : p.prio ≤ x.prio
    · rw [if_pos hle]; simp
    · rw [if_neg hle]; simp only [List.mem_cons, ih]
      constructor
      · rintro (h | h | h)
        · exact Or.inr (Or.inl h)
        · exact Or.inl h
        · exact Or.inr (Or.inr h)
      · rintro (h | h | h)
        · exact Or.inr (Or.inl h)
        · exact Or.inl h
        · exact Or.inr (Or.inr h)

theorem mem_sortPrio (q : Path) (l : List Path) : q ∈ sortPrio l ↔ q ∈ l := by
  induction l with
  | nil => simp [sortPrio]
  | cons x xs ih => simp only [sortPrio, mem_insertPrio, ih, List.mem_cons]

/-- in automatic mode every hint of the manifest is in the walk -/
theorem mem_directOrder_auto (q : Path) (l : List Path) (hq : q ∈ l) : q ∈ directOrder .auto l := by
  unfold directOrder
  simp only [show (Mode.auto == Mode.controlFallback) = false from rfl, show (Mode.auto == Mode.transportOnly) = false from rfl,
    Bool.false_eq_true, if_false, List.mem_append, mem_sortPrio, List.mem_filter]
  cases hk : q.kind with
  | transport => exact Or.inl ⟨hq, by simp [hk, isTransportKind]⟩
  | relay => exact Or.inl ⟨hq, by simp [hk, isTransportKind]⟩
  | control => exact Or.inr (Or.inl ⟨hq, by simp [hk]⟩)
  | fallback => exact Or.inr (Or.inr ⟨hq, by simp [hk]⟩)

/-! ### manifest state -/

theorem effResp_neutral (m : MState) (h : Bytes) (k : Kind) (r : Resp) :
    effResp m k (neutral sha h r) = neutral sha h (effResp m k r) := by
  unfold effResp
  by_cases hk : isTransportKind k = true
  · simp only [hk, if_true]
    by_cases hp : (m.publisher && !m.expired) = true
    · simp only [hp, if_true]
      cases r with
      | payload c =>
        simp only [neutral]
        by_cases hc : sha c = h
        · simp only [hc, if_true]
          by_cases hko : m.keyOk = true
          · simp [hko, neutral, hc]
          · simp [hko, neutral]
        · simp only [hc, if_false]
          by_cases hko : m.keyOk = true
          · simp [hko, neutral, hc]
          · simp [hko, neutral]
      | okNoPayload => rfl
      | down => rfl
      | fail => rfl
    · simp only [hp, Bool.false_eq_true, if_false]; rfl
  · simp only [hk, Bool.false_eq_true, if_false]

theorem view_neutral (m : MState) (h : Bytes) (p : Path) :
    view m (neutralPath sha h p) = neutralPath sha h (view m p) := by
  unfold view neutralPath
  simp only [effResp_neutral]

end EphVerif.C30L
