/-
The sliding-window limiter (`allow_store_request` / `allow_stream_fetch`): whatever the sequence
of calls at non-decreasing instants, at most `L` calls are allowed in every closed window of `W` ns.
-/
import EphVerif.Model.Control

namespace EphVerif.Control

/-- number of elements in the closed window `[t, t + W]` -/
def countIn (W : Int) (acc : List Int) (t : Int) : Nat :=
  (acc.filter fun x => decide (t ≤ x) && decide (x ≤ t + W)).length

/-- at most `L` elements in every closed window of length `W` -/
def Bounded (W : Int) (L : Nat) (acc : List Int) : Prop := ∀ t : Int, countIn W acc t ≤ L

/-- the bucket `h` holds exactly the allowed instants `acc` that were within `W` of the last
    pruning instant `p` -/
def BucketInv (W now : Int) (h acc : List Int) : Prop :=
  ∃ p : Int, p ≤ now ∧ (∀ x ∈ acc, x ≤ p) ∧ h = acc.filter fun x => decide (p - x ≤ W)

theorem length_filter_le_of_imp {α : Type} (p q : α → Bool) (himp : ∀ a, p a = true → q a = true) :
    ∀ l : List α, (l.filter p).length ≤ (l.filter q).length
  | [] => by simp
  | a :: l => by
    have ih := length_filter_le_of_imp p q himp l
    by_cases hp : p a = true
    · have hq := himp a hp
      simp only [List.filter_cons, hp, hq, ↓reduceIte, List.length_cons]; omega
    · have hp' : p a = false := by simpa using hp
      by_cases hq : q a = true
      · simp only [List.filter_cons, hp', hq, ↓reduceIte, List.length_cons, Bool.false_eq_true]; omega
      · have hq' : q a = false := by simpa using hq
        simp only [List.filter_cons, hp', hq', Bool.false_eq_true, ↓reduceIte]; exact ih

theorem BucketInv.mono {W now now' : Int} {h acc : List Int} (hle : now ≤ now') (hi : BucketInv W now h acc) :
    BucketInv W now' h acc := by
  obtain ⟨p, hp, ha, hh⟩ := hi
  exact ⟨p, by omega, ha, hh⟩

theorem BucketInv.init (W now : Int) : BucketInv W now [] [] := ⟨now, by omega, by simp, by simp⟩

theorem Bounded.nil (W : Int) (L : Nat) : Bounded W L [] := by intro t; simp [countIn]

/-- pruning at `now` keeps exactly the allowed instants within `W` of `now` -/
theorem prune_eq {Ws : Nat} {now : Int} {h acc : List Int} (hi : BucketInv (Ws * nsPerSecond) now h acc) :
    prune 1 Ws now h = acc.filter fun x => decide (now - x ≤ Ws * nsPerSecond) := by
  obtain ⟨p, hp, ha, hh⟩ := hi
  subst hh
  unfold prune cmpGt
  simp only [↓reduceIte, List.filter_filter]
  apply List.filter_congr
  intro x hx
  have := ha x hx
  by_cases h1 : now - x ≤ (Ws : Int) * nsPerSecond
  · have h2 : p - x ≤ (Ws : Int) * nsPerSecond := by omega
    simp [h1, h2, Int.not_lt.mpr h1]
  · simp [h1, Int.not_le.mp h1]

theorem allow_false {Ws L : Nat} {now : Int} {h acc h' : List Int}
    (hi : BucketInv (Ws * nsPerSecond) now h acc) (ha : allow 1 1 Ws L now h = (false, h')) :
    BucketInv (Ws * nsPerSecond) now h' acc := by
  unfold allow at ha
  simp only [↓reduceIte] at ha
  split at ha
  · injection ha with _ h2
    subst h2
    obtain ⟨p, hp, hacc, hh⟩ := id hi
    exact ⟨now, by omega, fun x hx => by have := hacc x hx; omega, prune_eq hi⟩
  · simp at ha

theorem allow_true {Ws L : Nat} {now : Int} {h acc h' : List Int}
    (hi : BucketInv (Ws * nsPerSecond) now h acc) (hb : Bounded (Ws * nsPerSecond) L acc)
    (ha : allow 1 1 Ws L now h = (true, h')) :
    BucketInv (Ws * nsPerSecond) now h' (acc ++ [now]) ∧ Bounded (Ws * nsPerSecond) L (acc ++ [now]) := by
  have hW : (0 : Int) ≤ (Ws : Int) * nsPerSecond := by
    have : (0 : Int) ≤ (Ws : Int) := Int.natCast_nonneg Ws
    unfold nsPerSecond; omega
  unfold allow at ha
  simp only [↓reduceIte] at ha
  split at ha
  · simp at ha
  · rename_i hlen
    injection ha with _ h2
    subst h2
    have hlen' : (prune 1 Ws now h).length < L := by simpa using hlen
    rw [prune_eq hi] at hlen' ⊢
    obtain ⟨p, hp, hacc, _⟩ := id hi
    refine ⟨⟨now, by omega, ?_, ?_⟩, ?_⟩
    · intro x hx
      rcases List.mem_append.mp hx with hx | hx
      · have := hacc x hx; omega
      · have : x = now := by simpa using hx
        omega
    · rw [List.filter_append]
      congr 1
      simp [hW]
    · intro t
      unfold countIn
      rw [List.filter_append, List.length_append]
      by_cases hin : t ≤ now ∧ now ≤ t + (Ws : Int) * nsPerSecond
      · have h1 : ((acc.filter fun x => decide (t ≤ x) && decide (x ≤ t + (Ws : Int) * nsPerSecond)).length)
            ≤ (acc.filter fun x => decide (now - x ≤ (Ws : Int) * nsPerSecond)).length := by
          apply length_filter_le_of_imp
          intro x hx
          simp only [Bool.and_eq_true, decide_eq_true_eq] at hx ⊢
          omega
        have h2 : ([now].filter fun x => decide (t ≤ x) && decide (x ≤ t + (Ws : Int) * nsPerSecond)).length ≤ 1 := by
          exact Nat.le_trans (List.length_filter_le _ _) (by simp)
        omega
      · have h2 : ([now].filter fun x => decide (t ≤ x) && decide (x ≤ t + (Ws : Int) * nsPerSecond)) = [] := by
          simp only [List.filter_cons, List.filter_nil]
          have : (decide (t ≤ now) && decide (now ≤ t + (Ws : Int) * nsPerSecond)) = false := by
            by_cases h1 : t ≤ now
            · have h2 : ¬ now ≤ t + (Ws : Int) * nsPerSecond := fun h2 => hin ⟨h1, h2⟩
              simp [h2]
            · simp [h1]
          simp [this]
        rw [h2]
        have := hb t
        unfold countIn at this
        simpa using this

/-- a sublist of a bounded list is bounded -/
theorem Bounded.sublist {W : Int} {L : Nat} {a b : List Int} (hs : a.Sublist b) (hb : Bounded W L b) : Bounded W L a := by
  intro t
  exact Nat.le_trans (hs.filter _).length_le (hb t)

end EphVerif.Control
