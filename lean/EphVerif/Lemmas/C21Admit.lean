import EphVerif.Lemmas.C21Basic

/-! C21 — helper lemmas for the sanitisation bounds and the accepting exit. -/
set_option linter.unusedSimpArgs false

namespace EphVerif.C21
open EphVerif.Announce

theorem sanitizeInterval_bounds (v : Int) : 1 ≤ sanitizeInterval v ∧ sanitizeInterval v ≤ 3600 := by
  unfold sanitizeInterval
  simp only [Gen.C21.kMinAnnounceInterval, Gen.C21.announceIntervalCap]
  by_cases h1 : v ≤ 0 <;> by_cases h2 : v < 1 <;> by_cases h3 : (3600 : Int) < v <;> simp [h1, h2, h3] <;> omega

theorem sanitizeWindow_bounds (v : Int) : 1 ≤ sanitizeWindow v ∧ sanitizeWindow v ≤ 3600 := by
  unfold sanitizeWindow
  simp only [Gen.C21.kMinAnnounceInterval, Gen.C21.kMaxAnnounceWindow]
  by_cases h1 : v ≤ 0 <;> by_cases h3 : (3600 : Int) < v <;> simp [h1, h3] <;> omega

theorem peerAnnounce_accepted {cfg : Cfg} {now : Int} {ps : PeerSt} {a : Ann}
    (h : (peerAnnounce cfg now ps a).2 = .accepted) :
    (senderLocked now ps).2 = false ∧ preCheck cfg a = none ∧ (register cfg now ps.hist).2 = true ∧ postCheck a = none := by
  have hx := peerAnnounce_exit cfg now ps a
  generalize peerAnnounce cfg now ps a = r at hx h
  cases hx with
  | locked hl => simp at h
  | pre hl r' hr => simp [rejectP_out] at h
  | throttle hl hp ht => simp [rejectP_out] at h
  | post hl hp ht r' hr => simp [rejectP_out] at h
  | accepted hl hp ht hq => rw [senderLocked_hist] at ht; exact ⟨hl, hp, ht, hq⟩

theorem verifyPow_true {cfg : Cfg} {a : Ann} (h : verifyPow cfg a = true) :
    cfg.powDifficulty = 0 ∨ (3 ≤ a.version ∧ a.powOk = true) := by
  unfold verifyPow at h
  simp only [Gen.C21.kPowMinVersion] at h
  by_cases h0 : cfg.powDifficulty = 0
  · exact Or.inl h0
  · right
    by_cases hv : a.version < 3
    · simp [h0, hv] at h
    · simp only [h0, hv, ↓reduceIte] at h
      exact ⟨by omega, h⟩

end EphVerif.C21
