/-
C06 helper lemmas, part 4: two model tables that represent the same abstract directory can be
driven through the same operations — with suitably chosen tie-break hints — so that they keep
representing the same directory.  Used for the literal form of sweep safety.
-/
import EphVerif.Lemmas.C06Run

namespace EphVerif.C06L
open EphVerif.Providers EphVerif.C06Spec List

theorem PeerDistinct.eq_of_peer_eq {l : List Ann} (h : PeerDistinct l) {a b : Ann}
    (ha : a ∈ l) (hb : b ∈ l) (hp : a.peer = b.peer) : a = b := by
  induction l with
  | nil => cases ha
  | cons x xs ih =>
    obtain ⟨hx, hxs⟩ := pairwise_cons.mp h
    rcases mem_cons.mp ha with rfl | ha'
    · rcases mem_cons.mp hb with rfl | hb'
      · rfl
      · exact absurd hp (hx b hb')
    · rcases mem_cons.mp hb with rfl | hb'
      · exact absurd hp.symm (hx a ha')
      · exact ih hxs ha' hb'

theorem R_congr {now : Int} {t : Table} {s s' : S} (h : R now t s) (he : ∀ c, s c = s' c) : R now t s' :=
  ⟨h.ok, fun c => by rw [← he c]; exact h.sim c⟩

/-- the `keep` choice derived from the model's kept set is legal for the abstract directory and
    names only live announcements of its pre-truncation list -/
theorem keep_valid {now : Int} {t : Table} {s : S} (h : R now t s) (c p : String) (ttl : Int)
    (hint : Option (List String)) :
    let k := keepOf now (addKept (holdersOf t c) p (now + ttl) hint)
    let liveBase := (specBase s now c p (now + ttl)).filter (liveAt now)
    (liveBase.length > 20 → validKeep liveBase k = true) ∧ ∀ x ∈ k, ∃ a ∈ liveBase, a.peer = x := by
  intro k liveBase
  have hbl := base_live_perm h c p (now + ttl)
  constructor
  · intro hbig
    have hbig' : ((addBase (holdersOf t c) p (now + ttl)).filter (liveAt now)).length > 20 := by
      rw [hbl.length_eq]; exact hbig
    rcases addKept_cases (holdersOf t c) p (now + ttl) hint with ⟨hle, _⟩ | ⟨_, d, hc⟩
    · exfalso
      have := length_filter_le (liveAt now) (addBase (holdersOf t c) p (now + ttl))
      omega
    · have hall := hc.live_big hbig'
      have hself : (addKept (holdersOf t c) p (now + ttl) hint).filter (liveAt now)
          = addKept (holdersOf t c) p (now + ttl) hint := filter_eq_self.mpr hall
      have hkeep : k = (addKept (holdersOf t c) p (now + ttl) hint).map (·.peer) := by
        simp only [k, keepOf]; rw [hself]
      have hperm : liveBase ~ addKept (holdersOf t c) p (now + ttl) hint ++ d.filter (liveAt now) := by
        have := (hc.filter_perm (liveAt now))
        rw [hself] at this
        exact (hbl.symm.trans this.symm)
      have hdist : PeerDistinct (addKept (holdersOf t c) p (now + ttl) hint ++ d.filter (liveAt now)) := by
        have hd0 := hc.distinct (addBase_distinct (h.ok.distinct c) p (now + ttl))
        obtain ⟨a1, a2, a3⟩ := pairwise_append.mp hd0
        exact pairwise_append.mpr ⟨a1, a2.filter _, fun x hx y hy => a3 x hx y (mem_filter.mp hy).1⟩
      obtain ⟨s1, s2⟩ := select_kept hdist hperm
      rw [hkeep]
      exact validKeep_intro s1 s2 hc.len (fun x hx y hy => hc.le x hx y (mem_filter.mp hy).1)
  · intro x hx
    simp only [k, keepOf, mem_map] at hx
    obtain ⟨a, ha, rfl⟩ := hx
    have ha' := mem_filter.mp ha
    have hab : a ∈ addBase (holdersOf t c) p (now + ttl) := by
      rcases addKept_cases (holdersOf t c) p (now + ttl) hint with ⟨_, heq⟩ | ⟨_, d, hc⟩
      · rw [heq] at ha'; exact ha'.1
      · exact hc.perm.mem_iff.mp (mem_append_left _ ha'.1)
    exact ⟨a, hbl.mem_iff.mp (mem_filter.mpr ⟨hab, ha'.2⟩), rfl⟩

/-- a table representing `s` accepts, as hint, any `keep` that is legal for `s` and names only
    live announcements — and then represents the directory's result for that very `keep` -/
theorem R_add_with {now : Int} {t : Table} {s : S} (h : R now t s) (c p : String) (ttl : Int)
    (k : List String)
    (hv : ((specBase s now c p (now + ttl)).filter (liveAt now)).length > 20 →
          validKeep ((specBase s now c p (now + ttl)).filter (liveAt now)) k = true)
    (hsub : ∀ x ∈ k, ∃ a ∈ (specBase s now c p (now + ttl)).filter (liveAt now), a.peer = x) :
    R now (addContact t now c p ttl (some k)) (C06Spec.add s now c p (now + ttl) (some k)).1 := by
  have hbl := base_live_perm h c p (now + ttl)
  by_cases hsmall : ((specBase s now c p (now + ttl)).filter (liveAt now)).length ≤ 20
  · -- the directory ignores `keep`: fall back on the general lemma
    have hr := (R_add h c p ttl (some k)).1
    refine R_congr hr (fun c' => ?_)
    by_cases hc' : c' = c
    · subst hc'
      rw [(spec_add_small s now c' p (now + ttl) _ hsmall).1, (spec_add_small s now c' p (now + ttl) _ hsmall).1]
    · rw [spec_add_other _ _ _ _ _ _ _ hc', spec_add_other _ _ _ _ _ _ _ hc']
  · have hbig : ((specBase s now c p (now + ttl)).filter (liveAt now)).length > 20 := by omega
    have hvk := hv hbig
    have hvk' := hvk
    simp only [validKeep, Bool.and_eq_true, beq_iff_eq, all_eq_true, decide_eq_true_eq] at hvk'
    obtain ⟨hlen, hle⟩ := hvk'
    have hdistinct := addBase_distinct (h.ok.distinct c) p (now + ttl)
    -- every entry of the model's base whose peer is named by `k` is live
    have hlive : ∀ x ∈ addBase (holdersOf t c) p (now + ttl), k.contains x.peer = true → liveAt now x = true := by
      intro x hx hkx
      obtain ⟨a, ha, hap⟩ := hsub x.peer (contains_iff_mem.mp hkx)
      have ha' := mem_filter.mp (hbl.mem_iff.mpr ha)
      have : a = x := hdistinct.eq_of_peer_eq ha'.1 hx hap
      rw [← this]; exact ha'.2
    have hkeptEq : (addBase (holdersOf t c) p (now + ttl)).filter (fun a => k.contains a.peer)
        = ((addBase (holdersOf t c) p (now + ttl)).filter (liveAt now)).filter (fun a => k.contains a.peer) := by
      rw [filter_filter]
      apply filter_congr
      intro x hx
      cases hkx : k.contains x.peer with
      | false => rfl
      | true => simp [hlive x hx hkx]
    have hkeptPerm : (addBase (holdersOf t c) p (now + ttl)).filter (fun a => k.contains a.peer) ~
        ((specBase s now c p (now + ttl)).filter (liveAt now)).filter (fun a => k.contains a.peer) := by
      rw [hkeptEq]; exact hbl.filter _
    have hvalid : validCut 20 (addBase (holdersOf t c) p (now + ttl)) k = true := by
      simp only [validCut, Bool.and_eq_true, beq_iff_eq, all_eq_true, decide_eq_true_eq]
      refine ⟨by rw [hkeptPerm.length_eq]; exact hlen, ?_⟩
      intro x hx d hd
      have hx' := hkeptPerm.mem_iff.mp hx
      have hd' := mem_filter.mp hd
      by_cases hdl : liveAt now d = true
      · have : d ∈ ((specBase s now c p (now + ttl)).filter (liveAt now)).filter (fun a => !k.contains a.peer) :=
          mem_filter.mpr ⟨hbl.mem_iff.mp (mem_filter.mpr ⟨hd'.1, hdl⟩), hd'.2⟩
        exact hle x hx' d this
      · have hxl := hlive x (mem_filter.mp hx).1 (mem_filter.mp hx).2
        simp only [liveAt, decide_eq_true_eq] at hdl hxl
        omega
    have hlenBase : (addBase (holdersOf t c) p (now + ttl)).length > 20 := by
      have := length_filter_le (liveAt now) (addBase (holdersOf t c) p (now + ttl))
      have := hbl.length_eq
      omega
    have hkept : addKept (holdersOf t c) p (now + ttl) (some k)
        = (addBase (holdersOf t c) p (now + ttl)).filter (fun a => k.contains a.peer) := by
      unfold addKept
      rw [maxProviders_eq]
      simp only [hlenBase, if_true, cut, hvalid]
    refine ⟨add_ok h.ok now c p ttl (some k), fun c' => ?_⟩
    by_cases hc' : c' = c
    · subst hc'
      rw [add_holders, (spec_add_big s now c' p (now + ttl) k hbig hvk).1]
      simp only [if_true]
      rw [hkept]
      exact hkeptPerm.filter _
    · rw [add_holders, spec_add_other _ _ _ _ _ _ _ hc']
      simp only [hc', if_false]
      exact h.sim c'

/-! ### two runs -/

/-- forget the tie-break hint -/
def eraseHint : Op → Op
  | .add c p ttl _ => .add c p ttl none
  | op => op

/-- two observations of the same kind that, for a lookup, concern the same chunk and return the
    same set -/
def Obs.sameAnswer : Obs → Obs → Prop
  | .found c m _, .found c' m' _ => c = c' ∧ m ~ m' ∧ ∀ a, a ∈ m ↔ a ∈ m'
  | .added _ _, .added _ _ => True
  | _, _ => False

/-- observation lists of equal length whose entries pairwise give the same answer -/
inductive SameAnswers : List Obs → List Obs → Prop where
  | nil : SameAnswers [] []
  | cons {o o' : Obs} {os os' : List Obs} : o.sameAnswer o' → SameAnswers os os' → SameAnswers (o :: os) (o' :: os')

/-- Let the tables of `a` and `b` represent the same abstract directory at the same time.  Then
    for every history run from `a` there is a history with the same operations, differing at
    most in tie-break hints, that run from `b` answers every lookup with the same set. -/
theorem two_runs (post : List Op) : ∀ (a b : St), Good a → b.now = a.now → R a.now b.t a.s →
    ∃ post', post'.map eraseHint = post.map eraseHint ∧
      SameAnswers (run a post).2 (run b post').2 := by
  induction post with
  | nil => intro a b _ _ _; exact ⟨[], rfl, by simpa [run] using SameAnswers.nil⟩
  | cons op ops ih =>
    intro a b ha hnow hb
    cases op with
    | adv d =>
      obtain ⟨post', h1, h2⟩ := ih (step a (.adv d)).1 (step b (.adv d)).1 (step_good ha _).1
        (by simp [step, hnow]) (by simpa [step] using R_adv hb d)
      exact ⟨.adv d :: post', by simp [eraseHint, h1], by simpa [run, step] using h2⟩
    | add c p ttl hint =>
      -- `b` is given, as hint, the keep choice `a` hands to the directory
      let k := keepOf a.now (holdersOf (addContact a.t a.now c p ttl hint) c)
      have hk : k = keepOf a.now (addKept (holdersOf a.t c) p (a.now + ttl) hint) := by
        simp [k, add_holders]
      have hkv := keep_valid ha c p ttl hint
      have hb' : R a.now (addContact b.t a.now c p ttl (some k))
          (C06Spec.add a.s a.now c p (a.now + ttl) (some k)).1 := by
        rw [hk]
        exact R_add_with hb c p ttl _ hkv.1 hkv.2
      obtain ⟨post', h1, h2⟩ := ih (step a (.add c p ttl hint)).1 (step b (.add c p ttl (some k))).1
        (step_good ha _).1 (by simp [step, hnow]) (by simpa [step, hnow, k] using hb')
      refine ⟨.add c p ttl (some k) :: post', by simp [eraseHint, h1], ?_⟩
      simp only [run, step, singleton_append]
      exact SameAnswers.cons trivial (by simpa [step] using h2)
    | find c =>
      obtain ⟨post', h1, h2⟩ := ih (step a (.find c)).1 (step b (.find c)).1 (step_good ha _).1
        (by simp [step, hnow]) (by simpa [step, hnow] using R_find hb c)
      refine ⟨.find c :: post', by simp [eraseHint, h1], ?_⟩
      simp only [run, step, singleton_append]
      refine SameAnswers.cons ⟨rfl, ?_⟩ (by simpa [step] using h2)
      have hp : (findProviders a.t a.now c).2 ~ (findProviders b.t b.now c).2 := by
        rw [find_snd, find_snd, hnow]
        exact (ha.sim c).trans (hb.sim c).symm
      exact ⟨hp, fun x => hp.mem_iff⟩
    | sweep =>
      obtain ⟨post', h1, h2⟩ := ih (step a .sweep).1 (step b .sweep).1 (step_good ha _).1
        (by simp [step, hnow]) (by simpa [step, hnow] using R_sweep hb)
      exact ⟨.sweep :: post', by simp [eraseHint, h1], by simpa [run, step] using h2⟩
    | withdraw c p =>
      obtain ⟨post', h1, h2⟩ := ih (step a (.withdraw c p)).1 (step b (.withdraw c p)).1 (step_good ha _).1
        (by simp [step, hnow]) (by simpa [step, hnow] using R_withdraw hb c p)
      exact ⟨.withdraw c p :: post', by simp [eraseHint, h1], by simpa [run, step] using h2⟩

end EphVerif.C06L
