/-
Helper lemmas for C25: write buffers are FIFO queues tied to the step's effects (`WB`): whatever a
transition queues for a client goes to the end of its write buffer, whatever it sends comes off the
front, nothing else touches a write buffer.
-/
import EphVerif.Lemmas.C26Release
set_option linter.unusedSimpArgs false
namespace EphVerif.Relay
open EphVerif.Gen.C25

/-- bytes queued for `d` by the effects `new` (newest first), in chronological order -/
def qbytes : List Out → Client → Bytes
  | [], _ => []
  | .queued c it :: rest, d => qbytes rest d ++ (if c = d then it.bytes else [])
  | _ :: rest, d => qbytes rest d

/-- bytes put on the wire to `d` by the effects `new`, in chronological order -/
def sbytes : List Out → Client → Bytes
  | [], _ => []
  | .sent c b :: rest, d => sbytes rest d ++ (if c = d then b else [])
  | _ :: rest, d => sbytes rest d

theorem qbytes_append (n2 n1 : List Out) (d : Client) : qbytes (n2 ++ n1) d = qbytes n1 d ++ qbytes n2 d := by
  induction n2 with
  | nil => simp [qbytes]
  | cons o t ih => cases o <;> simp [qbytes, ih, List.append_assoc]

theorem sbytes_append (n2 n1 : List Out) (d : Client) : sbytes (n2 ++ n1) d = sbytes n1 d ++ sbytes n2 d := by
  induction n2 with
  | nil => simp [sbytes]
  | cons o t ih => cases o <;> simp [sbytes, ih, List.append_assoc]

def State.wb (σ : State) (d : Client) : Bytes := ((σ.get d).map (·.writeBuf)).getD []

/-- a transition (that accepts nobody) treats every write buffer as a FIFO queue -/
def WB (σ σ' : State) : Prop :=
  ∃ new, σ'.out = new ++ σ.out ∧ ∀ d,
    ((σ'.get d).isSome → (σ.get d).isSome) ∧
    (σ.get d = none → qbytes new d = [] ∧ sbytes new d = []) ∧
    ((σ'.get d).isSome → σ.wb d ++ qbytes new d = sbytes new d ++ σ'.wb d) ∧
    (σ'.get d = none → ∃ r, σ.wb d ++ qbytes new d = sbytes new d ++ r)

theorem WB.refl (σ : State) : WB σ σ := by
  refine ⟨[], rfl, fun d => ⟨id, fun _ => ⟨rfl, rfl⟩, fun _ => by simp [qbytes, sbytes], fun _ => ⟨σ.wb d, by simp [qbytes, sbytes]⟩⟩⟩

theorem WB.trans {σ1 σ2 σ3 : State} (h12 : WB σ1 σ2) (h23 : WB σ2 σ3) : WB σ1 σ3 := by
  obtain ⟨n1, e1, p1⟩ := h12
  obtain ⟨n2, e2, p2⟩ := h23
  refine ⟨n2 ++ n1, by rw [e2, e1, List.append_assoc], fun d => ?_⟩
  obtain ⟨a1, b1, c1, d1⟩ := p1 d
  obtain ⟨a2, b2, c2, d2⟩ := p2 d
  rw [qbytes_append, sbytes_append]
  refine ⟨fun h => a1 (a2 h), ?_, ?_, ?_⟩
  · intro h
    obtain ⟨q1, s1⟩ := b1 h
    have h2 : σ2.get d = none := by
      cases hg : σ2.get d with
      | none => rfl
      | some s => have := a1 (by simp [hg]); simp [h] at this
    obtain ⟨q2, s2⟩ := b2 h2
    simp [q1, s1, q2, s2]
  · intro h
    have e := c1 (a2 h)
    have e' := c2 h
    calc σ1.wb d ++ (qbytes n1 d ++ qbytes n2 d) = (σ1.wb d ++ qbytes n1 d) ++ qbytes n2 d := by simp
      _ = sbytes n1 d ++ (σ2.wb d ++ qbytes n2 d) := by rw [e]; simp
      _ = sbytes n1 d ++ sbytes n2 d ++ σ3.wb d := by rw [e']; simp
  · intro h
    obtain ⟨r, e'⟩ := d2 h
    cases hg : σ2.get d with
    | none =>
      obtain ⟨q2, s2⟩ := b2 hg
      obtain ⟨r1, e1'⟩ := d1 hg
      exact ⟨r1, by simp [q2, s2, e1']⟩
    | some s =>
      have e := c1 (by simp [hg])
      refine ⟨r, ?_⟩
      calc σ1.wb d ++ (qbytes n1 d ++ qbytes n2 d) = (σ1.wb d ++ qbytes n1 d) ++ qbytes n2 d := by simp
        _ = sbytes n1 d ++ (σ2.wb d ++ qbytes n2 d) := by rw [e]; simp
        _ = sbytes n1 d ++ sbytes n2 d ++ r := by rw [e']; simp

/-- sessions' write buffers and the effects are untouched -/
theorem wb_same {σ σ' : State} (hg : ∀ d, (σ'.get d).map (·.writeBuf) = (σ.get d).map (·.writeBuf)) (ho : σ'.out = σ.out) :
    WB σ σ' := by
  refine ⟨[], by simp [ho], fun d => ?_⟩
  have h := hg d
  have hw : σ'.wb d = σ.wb d := by simp [State.wb, h]
  refine ⟨?_, fun _ => ⟨rfl, rfl⟩, fun _ => by simp [qbytes, sbytes, hw], fun _ => ⟨σ.wb d, by simp [qbytes, sbytes]⟩⟩
  intro h'
  cases hs : σ.get d with
  | none => simp [hs] at h; simp [h] at h'
  | some s => simp

theorem wb_put {σ : State} {c : Client} {s s' : Session} (hc : σ.get c = some s) (hw : s'.writeBuf = s.writeBuf) :
    WB σ (σ.put c s') :=
  wb_same (fun d => by by_cases e : d = c <;> simp [e, hc, hw]) rfl

theorem wb_queue (σ : State) (c : Client) (it : Item) : WB σ (queue σ c it) := by
  unfold queue
  cases hc : σ.get c with
  | none => exact WB.refl σ
  | some s =>
    refine ⟨[.queued c it], by simp, fun d => ?_⟩
    by_cases e : d = c
    · subst e
      refine ⟨fun _ => by simp [hc], fun h => by simp [hc] at h, fun _ => ?_, fun h => by simp at h⟩
      simp [State.wb, hc, qbytes, sbytes]
    · have e' : ¬ c = d := fun h => e h.symm
      refine ⟨fun h => by simpa [e] using h, fun _ => by simp [qbytes, sbytes, e'], fun _ => ?_, fun _ => ⟨σ.wb d, ?_⟩⟩
      · simp [State.wb, e, qbytes, sbytes, e']
      · simp [qbytes, sbytes, e']

theorem wb_drop (σ : State) (c : Client) : WB σ (σ.drop c) := by
  refine ⟨[], by simp, fun d => ?_⟩
  by_cases e : d = c
  · subst e
    exact ⟨fun h => by simp at h, fun _ => ⟨rfl, rfl⟩, fun h => by simp at h, fun _ => ⟨σ.wb d, by simp [qbytes, sbytes]⟩⟩
  · refine ⟨fun h => by simpa [e] using h, fun _ => ⟨rfl, rfl⟩, fun _ => ?_, fun _ => ⟨σ.wb d, by simp [qbytes, sbytes]⟩⟩
    simp [State.wb, e, qbytes, sbytes]

theorem wb_emit_closed (σ : State) (c : Client) : WB σ (σ.emit (.closed c)) := by
  refine ⟨[.closed c], by simp, fun d => ⟨fun h => by simpa using h, fun _ => by simp [qbytes, sbytes],
    fun _ => by simp [State.wb, qbytes, sbytes], fun _ => ⟨σ.wb d, by simp [qbytes, sbytes]⟩⟩⟩

theorem wb_removeRegistration (σ : State) (c : Client) (s : Session) : WB σ (removeRegistration σ c s) :=
  wb_same (fun d => by rw [get_removeRegistration]) (out_removeRegistration σ c s)

theorem wb_setReg (σ : State) (k : Bytes) (c : Client) : WB σ (σ.setReg k c) := wb_same (fun _ => rfl) rfl
theorem wb_eraseReg (σ : State) (k : Bytes) : WB σ (σ.eraseReg k) := wb_same (fun _ => rfl) rfl

theorem wb_closeNoPartner (σ : State) (p : Client) : WB σ (closeNoPartner σ p) := by
  unfold closeNoPartner
  cases hp : σ.get p with
  | none => exact WB.refl σ
  | some s => exact ((wb_removeRegistration σ p s).trans (wb_drop _ p)).trans (wb_emit_closed _ p)

theorem wb_detachPartner (σ : State) (s : Session) : WB σ (detachPartner σ s) := by
  unfold detachPartner
  split
  · exact WB.refl σ
  split
  · exact WB.refl σ
  next p _ _ ps hps =>
    simp only
    have m1 : WB σ (σ.put p { ps with partner := none }) := wb_put hps rfl
    split
    · exact m1.trans (wb_closeNoPartner _ p)
    split
    · exact m1.trans (wb_setReg _ _ _)
    · exact m1

theorem wb_closeSession (σ : State) (c : Client) : WB σ (closeSession σ c) := by
  unfold closeSession
  cases hc : σ.get c with
  | none => exact WB.refl σ
  | some s =>
    exact (((wb_removeRegistration σ c s).trans (wb_drop _ c)).trans (wb_detachPartner _ s)).trans (wb_emit_closed _ c)

theorem wb_handleRegister (σ : State) (c : Client) (hex : Bytes) : WB σ (handleRegister σ c hex) := by
  unfold handleRegister
  cases hc : σ.get c with
  | none => exact WB.refl σ
  | some s =>
    simp only
    repeat' split
    · exact wb_queue _ _ _
    · exact wb_queue _ _ _
    · exact wb_queue _ _ _
    · have m1 := wb_removeRegistration σ c s
      have m2 : WB (removeRegistration σ c s)
          ((removeRegistration σ c s).put c { s with peerHex := hex.map lowerHex, state := .registered }) :=
        wb_put (s := s) (by rw [get_removeRegistration]; exact hc) rfl
      exact ((m1.trans m2).trans (wb_setReg _ _ _)).trans (wb_queue _ _ _)

theorem wb_findRegistered (σ : State) (hex : Bytes) : WB σ (findRegistered σ hex).1 := by
  unfold findRegistered
  repeat' split
  all_goals first | exact WB.refl σ | exact wb_eraseReg σ hex

theorem wb_handleConnect (σ : State) (c : Client) (self target : Bytes) : WB σ (handleConnect σ c self target) := by
  unfold handleConnect
  cases hc : σ.get c with
  | none => exact WB.refl σ
  | some s =>
    simp only
    split
    · exact wb_queue _ _ _
    split
    · exact wb_queue _ _ _
    split
    · exact wb_queue _ _ _
    have hf := wb_findRegistered σ target
    cases hfr : findRegistered σ target with
    | mk σ1 r =>
      rw [hfr] at hf
      simp only at hf
      have hc1 : σ1.get c = some s := by
        cases r with
        | none => rw [(findRegistered_none hfr).1]; exact hc
        | some t => rw [(findRegistered_some hfr).1]; exact hc
      cases r with
      | none => exact hf.trans (wb_queue _ _ _)
      | some t =>
        simp only
        refine WB.trans ?_ (wb_queue _ _ _)
        have m1 : WB σ1 (σ1.eraseReg target) := wb_eraseReg _ _
        have m2 : WB (σ1.eraseReg target) ((σ1.eraseReg target).put c
            { s with state := .awaitingIdentity, connectSelf := self, partner := some t }) :=
          wb_put (s := s) (by simpa using hc1) rfl
        refine (hf.trans (m1.trans m2)).trans ?_
        split
        next ts hts => exact wb_put hts rfl
        · exact WB.refl _

theorem wb_handleLine (σ : State) (c : Client) (line : Bytes) : WB σ (handleLine σ c line) := by
  unfold handleLine
  split
  · exact WB.refl σ
  simp only
  split
  · exact wb_handleRegister _ _ _
  split
  · split
    · exact wb_handleConnect _ _ _ _
    · exact wb_queue _ _ _
  split
  · exact WB.refl σ
  · exact wb_queue _ _ _

/-- peel one `put` of a record whose write buffer is unchanged, guarded by a lookup -/
theorem wb_guarded_put {σ0 σ : State} (h : WB σ0 σ) (c : Client) (f : Session → Session)
    (hf : ∀ s, (f s).writeBuf = s.writeBuf) :
    WB σ0 (match σ.get c with | some s1 => σ.put c (f s1) | none => σ) := by
  split
  next s1 h1 => exact h.trans (wb_put h1 (hf s1))
  · exact h

theorem wb_handleIdentityReady (σ : State) (c : Client) : WB σ (handleIdentityReady σ c) := by
  unfold handleIdentityReady
  cases hc : σ.get c with
  | none => exact WB.refl σ
  | some s =>
    simp only
    cases hl : σ.lock s.partner with
    | none => exact (wb_queue _ _ _).trans (wb_closeSession _ _)
    | some t =>
      simp only
      have m1 := wb_queue σ t (.ctrl (beginPrefix ++ s.connectSelf ++ [nl]))
      have m2 := wb_guarded_put m1 c (fun s1 => { s1 with readBuf := [], state := .bridged }) (fun _ => rfl)
      have m3 := wb_guarded_put m2 t (fun ts => { ts with state := .bridged }) (fun _ => rfl)
      split
      · exact m3.trans (wb_queue _ _ _)
      · exact (m3.trans (wb_queue _ _ _)).trans (wb_queue _ _ _)

theorem wb_processProtocol : ∀ (fuel : Nat) (σ : State) (c : Client), WB σ (processProtocol fuel σ c) := by
  intro fuel
  induction fuel with
  | zero => intro σ c; exact wb_same (fun _ => rfl) rfl
  | succ fuel ih =>
    intro σ c
    unfold processProtocol
    cases hc : σ.get c with
    | none => exact WB.refl σ
    | some s =>
      simp only
      split
      · split
        · exact WB.refl σ
        · have m := wb_handleIdentityReady σ c
          split
          · exact m.trans (wb_same (fun _ => rfl) rfl)
          · exact m.trans (ih _ c)
      · split
        · exact WB.refl σ
        · next line rest _ =>
          have m1 : WB σ (σ.put c { s with readBuf := rest }) := wb_put hc rfl
          exact (m1.trans (wb_handleLine _ _ _)).trans (ih _ c)

theorem wb_step (σ : State) (ev : Event) (hna : ∀ c, ev ≠ .accept c) : WB σ (step σ ev) := by
  cases ev with
  | accept c => exact absurd rfl (hna c)
  | recv c data =>
    cases hc : σ.get c with
    | none => simp only [step, hc]; exact WB.refl σ
    | some s =>
      simp only [step, hc]
      split
      · unfold forwardToPartner
        split
        · exact wb_closeSession _ _
        · exact wb_queue _ _ _
      · exact (wb_put hc rfl : WB σ (σ.put c { s with readBuf := s.readBuf ++ data })).trans (wb_processProtocol _ _ _)
  | eof c => exact wb_closeSession _ _
  | err c => exact wb_closeSession _ _
  | flush c n =>
    cases hc : σ.get c with
    | none => simp only [step, hc]; exact WB.refl σ
    | some s =>
      simp only [step, hc]
      refine ⟨[.sent c (s.writeBuf.take n)], by simp, fun d => ?_⟩
      by_cases e : d = c
      · subst e
        refine ⟨fun _ => by simp [hc], fun h => by simp [hc] at h, fun _ => ?_, fun h => by simp at h⟩
        simp [State.wb, hc, qbytes, sbytes]
      · have e' : ¬ c = d := fun h => e h.symm
        refine ⟨fun h => by simpa [e] using h, fun _ => by simp [qbytes, sbytes, e'], fun _ => ?_, fun _ => ⟨σ.wb d, ?_⟩⟩
        · simp [State.wb, e, qbytes, sbytes, e']
        · simp [qbytes, sbytes, e']

/-- every write buffer is exactly what has been queued for the client and not yet sent, in order -/
structure Fifo (σ : State) : Prop where
  alive : ∀ d s, σ.get d = some s → sbytes σ.out d ++ s.writeBuf = qbytes σ.out d
  dead : ∀ d, σ.get d = none → ∃ r, sbytes σ.out d ++ r = qbytes σ.out d
  fresh : ∀ d, d ∉ σ.used → qbytes σ.out d = [] ∧ sbytes σ.out d = []

theorem fifo_init : Fifo init := by
  constructor
  · intro d s h; simp at h
  · intro d _; exact ⟨[], rfl⟩
  · intro d _; exact ⟨rfl, rfl⟩

theorem fifo_of_wb {σ σ' : State} (hF : Fifo σ) (hA : Acc σ) (hu : σ'.used = σ.used) (h : WB σ σ') : Fifo σ' := by
  obtain ⟨new, e, p⟩ := h
  constructor
  · intro d s' hs'
    obtain ⟨a, _, c, _⟩ := p d
    have hd : (σ'.get d).isSome := by simp [hs']
    have ha := a hd
    cases hs : σ.get d with
    | none => simp [hs] at ha
    | some s =>
      have e1 := hF.alive d s hs
      have e2 := c hd
      simp only [State.wb, hs, hs', Option.map_some, Option.getD_some] at e2
      rw [e, sbytes_append, qbytes_append, ← e1]
      simp only [List.append_assoc]
      rw [e2]
  · intro d hd
    obtain ⟨_, b, _, dd⟩ := p d
    obtain ⟨r, e2⟩ := dd hd
    rw [e, sbytes_append, qbytes_append]
    cases hs : σ.get d with
    | none =>
      obtain ⟨q0, s0⟩ := b hs
      obtain ⟨r0, e0⟩ := hF.dead d hs
      exact ⟨r0, by simp [q0, s0, e0]⟩
    | some s =>
      have e1 := hF.alive d s hs
      simp only [State.wb, hs, Option.map_some, Option.getD_some] at e2
      exact ⟨r, by rw [← e1]; simp only [List.append_assoc]; rw [e2]⟩
  · intro d hd
    rw [hu] at hd
    obtain ⟨q0, s0⟩ := hF.fresh d hd
    have hn : σ.get d = none := by
      cases hs : σ.get d with
      | none => rfl
      | some s => exact absurd (hA.live d (by simp [hs])) hd
    obtain ⟨_, b, _, _⟩ := p d
    obtain ⟨q1, s1⟩ := b hn
    rw [e, sbytes_append, qbytes_append]
    simp [q0, s0, q1, s1]

theorem fifo_step (σ : State) (ev : Event) (hI : Inv σ) (hA : Acc σ) (hF : Fifo σ) : Fifo (step σ ev) := by
  by_cases hacc : ∃ c, ev = .accept c
  · obtain ⟨c, rfl⟩ := hacc
    unfold step
    by_cases hu : c ∈ σ.used
    · simpa [hu] using hF
    · simp only [hu, if_false]
      have hg : ∀ a, ({ σ.put c {} with used := c :: σ.used } : State).get a = if a = c then some {} else σ.get a :=
        fun a => get_put σ c a {}
      have ho : ({ σ.put c {} with used := c :: σ.used } : State).out = σ.out := rfl
      constructor
      · intro d s hs
        rw [hg] at hs
        rw [ho]
        by_cases e : d = c
        · subst e
          simp at hs; subst hs
          obtain ⟨q0, s0⟩ := hF.fresh d hu
          simp [q0, s0]
        · simp [e] at hs; exact hF.alive d s hs
      · intro d hd
        rw [hg] at hd
        rw [ho]
        by_cases e : d = c
        · simp [e] at hd
        · simp [e] at hd; exact hF.dead d hd
      · intro d hd
        rw [ho]
        exact hF.fresh d (fun h => hd (List.mem_cons_of_mem _ h))
  · have hna : ∀ c, ev ≠ .accept c := fun c h => hacc ⟨c, h⟩
    have hu : (step σ ev).used = σ.used := by
      rcases step_used σ ev hI hA with h | ⟨c, h, _⟩
      · exact h
      · exact absurd h (hna c)
    exact fifo_of_wb hF hA hu (wb_step σ ev hna)

theorem fifo_run (evs : List Event) : Fifo (run init evs) := by
  have : ∀ (evs : List Event) (σ : State), Inv σ → Acc σ → Fifo σ → Fifo (run σ evs) := by
    intro evs
    induction evs with
    | nil => intro σ _ _ h; exact h
    | cons ev evs ih =>
      intro σ hI hA hF
      obtain ⟨hI', hA', _⟩ := step_ok σ ev hI hA
      exact ih _ hI' hA' (fifo_step σ ev hI hA hF)
  exact this evs init inv_init acc_init fifo_init

end EphVerif.Relay
