/-
SystemReplication — bridging lemmas between the component models (C01, C03, C11, C21, C23, C24, SystemMessaging) and the
glue model `Model/ReplicationGlue.lean`.  Nothing of the components is re-proved here; this file relates their state shapes.
-/
import EphVerif.Model.ReplicationGlue
import EphVerif.Proofs.C01
import EphVerif.Proofs.C03
import EphVerif.Proofs.C11
import EphVerif.Proofs.C21
import EphVerif.Proofs.C23
import EphVerif.Proofs.C24
import EphVerif.Proofs.SystemMessaging

namespace EphVerif.SysRepL
open EphVerif EphVerif.StorePipeline EphVerif.ReplicationGlue EphVerif.C11L

/-! ### C11 ↔ C02/C03: the same TTL admission function -/

/-- C11's hand-written `manifest_ttl` is the function C02/C03 translate from the clang AST -/
theorem manifestTtl_eq_generated (c : Gen.C02.Cfg) (E wall : Int) :
    manifestTtl E wall c.min_manifest_ttl c.max_manifest_ttl = Gen.C02.manifest_ttl E c wall := rfl

/-- an admitted manifest is granted at least one second -/
theorem manifestTtl_pos {E now mn mx ttl : Int} (h : manifestTtl E now mn mx = some ttl) : 1 ≤ ttl := by
  unfold manifestTtl enforceManifestTtl at h
  by_cases h1 : E ≤ now
  · rw [if_pos h1] at h; cases h
  · rw [if_neg h1] at h
    simp only at h
    by_cases h2 : Int.tdiv (E - now) 1000000000 ≤ 0
    · rw [if_pos h2] at h; cases h
    · rw [if_neg h2] at h
      by_cases h3 : Int.tdiv (E - now) 1000000000 < mn
      · rw [if_pos h3] at h; cases h
      · rw [if_neg h3] at h
        by_cases h4 : (if Int.tdiv (E - now) 1000000000 > mx then mx else Int.tdiv (E - now) 1000000000) ≤ 0
        · rw [if_pos h4] at h; cases h
        · rw [if_neg h4] at h
          simp only [Option.some.injEq] at h
          omega

/-- the node configuration C11 speaks of, read off the (sanitised) configuration C02/C03 speak of -/
def cfgOf (c : Gen.C02.Cfg) (shardThreshold shardTotal : Nat) : Config :=
  { shardThreshold := shardThreshold, shardTotal := shardTotal, minTtl := c.min_manifest_ttl, maxTtl := c.max_manifest_ttl,
    defaultTtl := c.default_chunk_ttl }

/-- the codec's expiry floor is idempotent: a manifest that was decoded once survives re-encoding unchanged -/
theorem wire_wire (m : Manifest) : wire (wire m) = wire m := by
  unfold wire
  simp only [Int.mul_tdiv_cancel _ (show (1000000000 : Int) ≠ 0 by decide)]

@[simp] theorem wire_chunkId (m : Manifest) : (wire m).chunkId = m.chunkId := rfl
@[simp] theorem wire_chunkHash (m : Manifest) : (wire m).chunkHash = m.chunkHash := rfl
@[simp] theorem wire_threshold (m : Manifest) : (wire m).threshold = m.threshold := rfl
@[simp] theorem wire_shards (m : Manifest) : (wire m).shards = m.shards := rfl

/-! ### C21 ↔ C11: the facts of an ANNOUNCE are those of a concrete manifest -/

/-- C21 abstracts an ANNOUNCE to the facts the admission chain checks; `Describes` says which manifest, node and instant
    those facts are about -/
structure Describes (a : Announce.Ann) (m : Manifest) (cfg : Config) (wallNowNs : Int) : Prop where
  chunk : a.chunk = chunkName m.chunkId
  threshold : a.thresholdMet = decide (m.threshold > 0 ∧ m.shards.length ≥ m.threshold)
  unexpired : a.unexpired = (manifestTtl m.expiresNs wallNowNs cfg.minTtl cfg.maxTtl).isSome

/-- an admitted announce of a manifest for a chunk the node does not hold puts exactly that manifest into the cache -/
theorem announce_caches (cfg : Config) (st : NodeState) (wallNowNs : Int) (m : Manifest)
    (hv : m.threshold > 0 ∧ m.shards.length ≥ m.threshold)
    (ht : (manifestTtl m.expiresNs wallNowNs cfg.minTtl cfg.maxTtl).isSome = true)
    (hfree : find st.chunks m.chunkId = none) :
    find (announceAdmitted cfg st wallNowNs m).manifests m.chunkId = some m ∧
    (announceAdmitted cfg st wallNowNs m).chunks = st.chunks := by
  unfold announceAdmitted
  rw [if_neg (by simpa using hv)]
  cases hm : manifestTtl m.expiresNs wallNowNs cfg.minTtl cfg.maxTtl with
  | none => rw [hm] at ht; simp at ht
  | some ttl =>
    have hg : guardPasses Gen.C11.announceGuard st m = true := by
      rw [guard_announce]
      unfold keepsHeldChunkReadable
      rw [hfree]
    simp only [hg, if_true]
    exact ⟨find_upsert _ _ _, rfl⟩

/-! ### C23 ↔ glue: what a served request carries -/

theorem servable_iff_message (cfg : Config) (st : NodeState) (wallNowNs : Int) (id : Bytes) :
    servable cfg st wallNowNs id = (chunkMessage cfg st wallNowNs id).isSome := by
  unfold servable chunkMessage
  cases find st.manifests id <;> cases find st.chunks id <;> simp
  rename_i m r
  cases manifestTtl m.expiresNs wallNowNs cfg.minTtl cfg.maxTtl <;> rfl

/-- the CHUNK message of a served request carries the bytes the node holds, whatever they are -/
theorem message_carries_held (cfg : Config) (st : NodeState) (wallNowNs : Int) (id : Bytes) (msg : ChunkMsg)
    (h : chunkMessage cfg st wallNowNs id = some msg) :
    msg.chunkId = id ∧ ∃ record, exportRecord st id = some record ∧ msg.data = record.data := by
  unfold chunkMessage at h
  split at h
  · rename_i m record hm hr
    split at h
    · cases h
      exact ⟨rfl, record, hr, rfl⟩
    · cases h
  · cases h

/-! ### glue: handle_chunk either accepts through receive_chunk or changes nothing -/

theorem handleChunk_cases (cfg : Config) (st : NodeState) (wallNowNs : Int) (hasKey : Bool) (msg : ChunkMsg) (rk : Bytes) :
    (∃ m ttl pt, hasKey = true ∧ find st.manifests msg.chunkId = some m ∧
        receiveChunk cfg st wallNowNs (some (wire m)) msg.data rk = (acceptEffects st (wire m) ttl msg.data, .accepted pt) ∧
        Spec.sha256 pt = m.chunkHash ∧
        handleChunk cfg st wallNowNs hasKey msg rk = (acceptEffects st (wire m) ttl msg.data, some true) ∧
        handleChunkResult cfg st wallNowNs hasKey msg rk = .accepted pt) ∨
    ((handleChunk cfg st wallNowNs hasKey msg rk).1 = st ∧ (handleChunk cfg st wallNowNs hasKey msg rk).2 ≠ some true ∧
      (handleChunkResult cfg st wallNowNs hasKey msg rk).isAccepted = false) := by
  unfold handleChunk handleChunkResult
  cases hasKey with
  | false => right; exact ⟨rfl, by simp, rfl⟩
  | true =>
    cases hm : find st.manifests msg.chunkId with
    | none => right; exact ⟨rfl, by simp, rfl⟩
    | some m =>
      rcases C11.tamper cfg st wallNowNs (some (wire m)) msg.data rk with ⟨m', ttl, pt, keyN, hd, _, _, _, _, _, a6, hr⟩ | ⟨h1, h2⟩
      · cases hd
        left
        refine ⟨m, ttl, pt, rfl, rfl, hr, a6, ?_, ?_⟩
        · simp only [Bool.not_true, Bool.false_eq_true, if_false, hr]; rfl
        · simp only [Bool.not_true, Bool.false_eq_true, if_false, hr]
      · right
        simp only [Bool.not_true, Bool.false_eq_true, if_false]
        exact ⟨h1, by rw [h2]; simp, h2⟩

/-! ### C03 ↔ C01: the replica's deadline -/

open EphVerif.StoreSpec (Op) in
/-- in C01's abstract store, after `pre`, a put of the replica with TTL `ttl ≥ 1` at that moment, and any `post` that does
    not store the id again, the latest entry for the id is that put and its deadline is `t + ttl·10⁹` -/
theorem last_after_put (p : StoreSpec.Params) (t0 : Int) (pre post : List Op) (c : String) (ct nonce : StoreSpec.Bytes) (ttl : Int)
    (httl : 1 ≤ ttl) (hpost : ∀ o ∈ post, ChunkStore.storesId c o = false) :
    ∃ e, StoreSpec.last (ChunkStore.runSpec p (ChunkStore.freshSpec t0) (pre ++ Op.store c ct ttl nonce true :: post)).s c = some e ∧
      e.deadline = (ChunkStore.runSpec p (ChunkStore.freshSpec t0) pre).now + ttl * 1000000000 := by
  have hsplit : ChunkStore.runSpec p (ChunkStore.freshSpec t0) (pre ++ Op.store c ct ttl nonce true :: post)
      = ChunkStore.runSpec p (StoreSpec.step p (ChunkStore.runSpec p (ChunkStore.freshSpec t0) pre) (Op.store c ct ttl nonce true)) post := by
    simp only [ChunkStore.runSpec, List.foldl_append, List.foldl_cons]
  rw [hsplit, ChunkStore.last_run_other p _ c post hpost]
  refine ⟨_, by simp only [StoreSpec.step, StoreSpec.last, if_true]; rfl, ?_⟩
  simp only [StoreSpec.effStore, StoreSpec.nsPerSec]
  have : max (if ttl > 0 then ttl else p.defaultTtl) 1 = ttl := by
    rw [if_pos (by omega)]; omega
  rw [this]

end EphVerif.SysRepL
