/-
File-system effect of the ChunkStore model's operation lists (C04): overwrite passes,
secure wipe, persist, put, sweep, start-up purge.
-/
import EphVerif.Lemmas.C01Assoc

namespace EphVerif.ChunkStore

theorem applyOps_append (fs : FS) (a b : List FsOp) : applyOps fs (a ++ b) = applyOps (applyOps fs a) b := by
  simp [applyOps, List.foldl_append]

theorem applyOps_nil (fs : FS) : applyOps fs [] = fs := rfl
theorem applyOps_cons (fs : FS) (o : FsOp) (r : List FsOp) : applyOps fs (o :: r) = applyOps (applyOp fs o) r := rfl

theorem zero_step (off c : Nat) (tail : Bytes) :
    (zeros off ++ tail).take off ++ zeros c ++ (zeros off ++ tail).drop (off + c) = zeros (off + c) ++ tail.drop c := by
  have h1 : (zeros off ++ tail).take off = zeros off := by
    simp [zeros, List.take_append]
  have h2 : (zeros off ++ tail).drop (off + c) = tail.drop c := by
    simp [zeros, List.drop_append]
  rw [h1, h2]
  simp [zeros, List.replicate_append_replicate]

/-- operations that only touch `p` leave every other name alone -/
def touchesOnly (p : Name) : FsOp → Prop
  | .create q | .append q _ | .zero q _ _ | .remove q => q = p

theorem applyOp_other {p q : Name} (hpq : p ≠ q) (fs : FS) {o : FsOp} (h : touchesOnly p o) :
    aget (applyOp fs o) q = aget fs q := by
  cases o with
  | create x => cases h; simp [applyOp, aget_aset_ne _ _ hpq]
  | append x bs =>
    cases h; simp only [applyOp]
    split
    · exact aget_aset_ne _ _ hpq
    · rfl
  | zero x off len =>
    cases h; simp only [applyOp]
    split
    · exact aget_aset_ne _ _ hpq
    · rfl
  | remove x => cases h; simp [applyOp, aget_adel_ne _ hpq]

theorem applyOps_other {p q : Name} (hpq : p ≠ q) (ops : List FsOp) (fs : FS) (h : ∀ o ∈ ops, touchesOnly p o) :
    aget (applyOps fs ops) q = aget fs q := by
  induction ops generalizing fs with
  | nil => rfl
  | cons o r ih =>
    rw [applyOps_cons, ih _ (fun o' ho' => h o' (List.mem_cons_of_mem _ ho')),
      applyOp_other hpq fs (h o List.mem_cons_self)]

theorem passOps_touches (p : Name) (fuel off rem : Nat) : ∀ o ∈ passOps p fuel off rem, touchesOnly p o := by
  induction fuel generalizing off rem with
  | zero => intro o h; simp [passOps] at h
  | succ n ih =>
    intro o h
    simp only [passOps] at h
    split at h
    · simp at h
    · rcases List.mem_cons.mp h with h | h
      · subst h; rfl
      · exact ih _ _ o h

/-- one overwrite pass turns `zeros off ++ tail` into all zeros of the same length -/
theorem passOps_content (p : Name) (fuel : Nat) : ∀ (off rem : Nat) (fs : FS) (tail : Bytes),
    rem ≤ fuel → tail.length = rem → aget fs p = some (zeros off ++ tail) →
    aget (applyOps fs (passOps p fuel off rem)) p = some (zeros (off + rem)) := by
  induction fuel with
  | zero =>
    intro off rem fs tail hf hl hg
    have : rem = 0 := by omega
    subst this
    have : tail = [] := List.eq_nil_of_length_eq_zero hl
    subst this
    simpa [passOps, applyOps] using hg
  | succ n ih =>
    intro off rem fs tail hf hl hg
    simp only [passOps]
    by_cases hr : rem = 0
    · subst hr
      have : tail = [] := List.eq_nil_of_length_eq_zero hl
      subst this
      simpa [applyOps] using hg
    · simp only [hr, if_false]
      rw [applyOps_cons]
      generalize hc : (if wipeBuf = 0 then rem else min wipeBuf rem) = c
      have hc1 : 1 ≤ c := by subst hc; split <;> omega
      have hc2 : c ≤ rem := by subst hc; split <;> omega
      have hg' : aget (applyOp fs (.zero p off c)) p = some (zeros (off + c) ++ tail.drop c) := by
        simp only [applyOp, hg, aget_aset_self, zero_step]
      have := ih (off + c) (rem - c) _ (tail.drop c) (by omega) (by simp [hl]) hg'
      rw [this]
      congr 2
      omega

/-- total number of bytes written by one pass = the file size -/
def writtenBytes : List FsOp → Nat
  | [] => 0
  | .zero _ _ len :: r => len + writtenBytes r
  | .append _ bs :: r => bs.length + writtenBytes r
  | _ :: r => writtenBytes r

theorem passOps_written (p : Name) (fuel : Nat) : ∀ (off rem : Nat), rem ≤ fuel →
    writtenBytes (passOps p fuel off rem) = rem := by
  induction fuel with
  | zero => intro off rem h; have : rem = 0 := by omega
            subst this; rfl
  | succ n ih =>
    intro off rem h
    simp only [passOps]
    by_cases hr : rem = 0
    · simp [hr, writtenBytes]
    · simp only [hr, if_false, writtenBytes]
      generalize hc : (if wipeBuf = 0 then rem else min wipeBuf rem) = c
      have hc1 : 1 ≤ c := by subst hc; split <;> omega
      have hc2 : c ≤ rem := by subst hc; split <;> omega
      rw [ih _ _ (by omega)]; omega

theorem writtenBytes_append (a b : List FsOp) : writtenBytes (a ++ b) = writtenBytes a + writtenBytes b := by
  induction a with
  | nil => simp [writtenBytes]
  | cons o r ih => cases o <;> simp [writtenBytes, ih] <;> omega

theorem overwriteOps_written (p : Name) (size passes : Nat) :
    writtenBytes (overwriteOps p size passes) = passes * size := by
  induction passes with
  | zero => simp [overwriteOps, writtenBytes]
  | succ n ih =>
    simp only [overwriteOps, List.replicate_succ, List.flatten_cons] at ih ⊢
    rw [writtenBytes_append, ih, passOps_written p size 0 size (Nat.le_refl _)]
    rw [Nat.add_mul]; omega

theorem overwriteOps_touches (p : Name) (size passes : Nat) : ∀ o ∈ overwriteOps p size passes, touchesOnly p o := by
  intro o h
  simp only [overwriteOps, List.mem_flatten, List.mem_replicate] at h
  obtain ⟨l, ⟨_, rfl⟩, ho⟩ := h
  exact passOps_touches p _ _ _ o ho

/-- after ≥ 1 overwrite passes the file holds `size` zero bytes; with 0 passes it is unchanged -/
theorem overwriteOps_content (p : Name) (passes : Nat) (fs : FS) (bs : Bytes) (hg : aget fs p = some bs) :
    aget (applyOps fs (overwriteOps p bs.length passes)) p = some (if passes = 0 then bs else zeros bs.length) := by
  induction passes generalizing fs bs with
  | zero => simpa [overwriteOps, applyOps] using hg
  | succ n ih =>
    simp only [overwriteOps, List.replicate_succ, List.flatten_cons]
    rw [applyOps_append]
    have h1 := passOps_content p bs.length 0 bs.length fs bs (Nat.le_refl _) rfl (by simpa [zeros] using hg)
    simp only [Nat.zero_add] at h1
    have h2 := ih _ (zeros bs.length) h1
    simp only [zeros, List.length_replicate] at h2
    simp only [overwriteOps, zeros] at h2 ⊢
    rw [h2]
    by_cases hn : n = 0 <;> simp [hn]

theorem wipeOps_touches (cfg : Cfg) (fs : FS) (p : Name) : ∀ o ∈ wipeOps cfg fs p, touchesOnly p o := by
  intro o h
  simp only [wipeOps] at h
  split at h
  · simp at h
  · rcases List.mem_append.mp h with h | h
    · exact overwriteOps_touches p _ _ o h
    · simp at h; subst h; rfl

theorem wipeOps_self (cfg : Cfg) (fs : FS) (p : Name) : aget (applyOps fs (wipeOps cfg fs p)) p = none := by
  simp only [wipeOps]
  cases hg : aget fs p with
  | none => simpa [applyOps] using hg
  | some bs =>
    simp only []
    rw [applyOps_append, applyOps_cons, applyOps_nil]
    simp [applyOp, aget_adel_self]

theorem wipeOps_other (cfg : Cfg) (fs : FS) {p q : Name} (h : p ≠ q) :
    aget (applyOps fs (wipeOps cfg fs p)) q = aget fs q :=
  applyOps_other h _ _ (wipeOps_touches cfg fs p)

/-- wiping from a possibly different (earlier) view of the directory still only touches `p` -/
theorem persistOps_self (cfg : Cfg) (fs : FS) (p : Name) (data : Bytes) :
    aget (applyOps fs (persistOps cfg fs p data)) p = some data := by
  simp only [persistOps]
  rw [applyOps_append, applyOps_cons, applyOps_cons, applyOps_nil]
  simp [applyOp, aget_aset_self]

theorem persistOps_touches (cfg : Cfg) (fs : FS) (p : Name) (data : Bytes) :
    ∀ o ∈ persistOps cfg fs p data, touchesOnly p o := by
  intro o h
  simp only [persistOps] at h
  rcases List.mem_append.mp h with h | h
  · exact wipeOps_touches cfg fs p o h
  · simp at h; rcases h with h | h <;> subst h <;> rfl

theorem putOps_touches (cfg : Cfg) (s : Recs) (fs : FS) (id : String) (data : Bytes) :
    ∀ o ∈ putOps cfg s fs id data, touchesOnly (.chunk id) o := by
  intro o h
  simp only [putOps] at h
  rcases List.mem_append.mp h with h | h
  · split at h
    · split at h
      · exact wipeOps_touches _ _ _ o h
      · simp at h
    · simp at h
  · split at h
    · exact persistOps_touches _ _ _ _ o h
    · simp at h

theorem putOps_other (cfg : Cfg) (s : Recs) (fs : FS) (id : String) (data : Bytes) {q : Name} (h : Name.chunk id ≠ q) :
    aget (applyOps fs (putOps cfg s fs id data)) q = aget fs q :=
  applyOps_other h _ _ (putOps_touches cfg s fs id data)

theorem putOps_self (cfg : Cfg) (hp : cfg.persistent = true) (s : Recs) (fs : FS) (id : String) (data : Bytes) :
    aget (applyOps fs (putOps cfg s fs id data)) (.chunk id) = some data := by
  simp only [putOps, hp, if_true]
  rw [applyOps_append]
  exact persistOps_self _ _ _ _

/-- every prefix of a put's operations also leaves other names alone (crash states) -/
theorem take_touches {p : Name} {ops : List FsOp} (h : ∀ o ∈ ops, touchesOnly p o) (k : Nat) :
    ∀ o ∈ ops.take k, touchesOnly p o := fun o ho => h o (List.mem_of_mem_take ho)

end EphVerif.ChunkStore
