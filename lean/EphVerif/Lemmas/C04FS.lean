/-
File-system effect of the ChunkStore model's operation lists (C04): overwrite passes,
secure wipe, persist, put, sweep, start-up purge.
-/
import EphVerif.Lemmas.C01Assoc

namespace EphVerif.ChunkStore

theorem applyOps_append (fs : FS) (a b : List FsOp) : applyOps fs (a ++ b) = applyOps (applyOps fs a) b := by
  simp [applyOps, List.foldl_append]

theorem applyOps_nil (fs : FS) : applyOps fs [] = fs := rfl
theorem applyOps_cons (fs : FS) (o : FsOp) (r : List FsOp) : applyOps fs (o :: r) = applyOps (applyOp fs o) r := rfl

theorem zero_step (off c : Nat) (tail : Bytes) :
    (zeros off ++ tail).take off ++ zeros c ++ (zeros off ++ tail).drop (off + c) = zeros (off + c) ++ tail.drop c := by
  have h1 : (zeros off ++ tail).take off = zeros off := by
    simp [zeros]
  have h2 : (zeros off ++ tail).drop (off + c) = tail.drop c := by
    simp [zeros, List.drop_append]
  rw [h1, h2]
  simp [zeros, List.replicate_append_replicate]

/-- operations that only touch `p` leave every other name alone -/
def touchesOnly (p : Name) : FsOp → Prop
  | .create q | .append q _ | .zero q _ _ | .remove q => q = p

theorem applyOp_other {p q : Name} (hpq : p ≠ q) (fs : FS) {o : FsOp} (h : touchesOnly p o) :
    aget (applyOp fs o) q = aget fs q := by
  cases o with
  | create x => cases h; simp [applyOp, aget_aset_ne _ _ hpq]
  | append x bs =>
    cases h; simp only [applyOp]
    split
    · exact aget_aset_ne _ _ hpq
    · rfl
  | zero x off len =>
    cases h; simp only [applyOp]
    split
    · exact aget_aset_ne _ _ hpq
    · rfl
  | remove x => cases h; simp [applyOp, aget_adel_ne _ hpq]

theorem applyOps_other {p q : Name} (hpq : p ≠ q) (ops : List FsOp) (fs : FS) (h : ∀ o ∈ ops, touchesOnly p o) :
    aget (applyOps fs ops) q = aget fs q := by
  induction ops generalizing fs with
  | nil => rfl
  | cons o r ih =>
    rw [applyOps_cons, ih _ (fun o' ho' => h o' (List.mem_cons_of_mem _ ho')),
      applyOp_other hpq fs (h o List.mem_cons_self)]

theorem passOps_touches (p : Name) (fuel off rem : Nat) : ∀ o ∈ passOps p fuel off rem, touchesOnly p o := by
  induction fuel generalizing off rem with
  | zero => intro o h; simp [passOps] at h
  | succ n ih =>
    intro o h
    simp only [passOps] at h
    split at h
    · simp at h
    · rcases List.mem_cons.mp h with h | h
      · subst h; rfl
      · exact ih _ _ o h

/-- one overwrite pass turns `zeros off ++ tail` into all zeros of the same length -/
theorem passOps_content (p : Name) (fuel : Nat) : ∀ (off rem : Nat) (fs : FS) (tail : Bytes),
    rem ≤ fuel → tail.length = rem → aget fs p = some (zeros off ++ tail) →
    aget (applyOps fs (passOps p fuel off rem)) p = some (zeros (off + rem)) := by
  induction fuel with
  | zero =>
    intro off rem fs tail hf hl hg
    have : rem = 0 := by omega
    subst this
    have : tail = [] := List.eq_nil_of_length_eq_zero hl
    subst this
    simpa [passOps, applyOps] using hg
  | succ n ih =>
    intro off rem fs tail hf hl hg
    simp only [passOps]
    by_cases hr : rem = 0
    · subst hr
      have : tail = [] := List.eq_nil_of_length_eq_zero hl
      subst this
      simpa [applyOps] using hg
    · simp only [hr, if_false]
      rw [applyOps_cons]
      generalize hc : (if wipeBuf = 0 then rem else min wipeBuf rem) = c
      have hc1 : 1 ≤ c := by subst hc; split <;> omega
      have hc2 : c ≤ rem := by subst hc; split <;> omega
      have hg' : aget (applyOp fs (.zero p off c)) p = some (zeros (off + c) ++ tail.drop c) := by
        simp only [applyOp, hg, aget_aset_self, zero_step]
      have := ih (off + c) (rem - c) _ (tail.drop c) (by omega) (by simp [hl]) hg'
      rw [this]
      congr 2
      omega

/-- total number of bytes written by one pass = the file size -/
def writtenBytes : List FsOp → Nat
  | [] => 0
  | .zero _ _ len :: r => len + writtenBytes r
  | .append _ bs :: r => bs.length + writtenBytes r
  | _ :: r => writtenBytes r

theorem passOps_written (p : Name) (fuel : Nat) : ∀ (off rem : Nat), rem ≤ fuel →
    writtenBytes (passOps p fuel off rem) = rem := by
  induction fuel with
  | zero => intro off rem h; have : rem = 0 := by omega
            subst this; rfl
  | succ n ih =>
    intro off rem h
    simp only [passOps]
    by_cases hr : rem = 0
    · simp [hr, writtenBytes]
    · simp only [hr, if_false, writtenBytes]
      generalize hc : (if wipeBuf = 0 then rem else min wipeBuf rem) = c
      have hc1 : 1 ≤ c := by subst hc; split <;> omega
      have hc2 : c ≤ rem := by subst hc; split <;> omega
      rw [ih _ _ (by omega)]; omega

theorem writtenBytes_append (a b : List FsOp) : writtenBytes (a ++ b) = writtenBytes a + writtenBytes b := by
  induction a with
  | nil => simp [writtenBytes]
  | cons o r ih => cases o <;> simp [writtenBytes, ih] <;> omega

theorem overwriteOps_written (p : Name) (size passes : Nat) :
    writtenBytes (overwriteOps p size passes) = passes * size := by
  induction passes with
  | zero => simp [overwriteOps, writtenBytes]
  | succ n ih =>
    simp only [overwriteOps, List.replicate_succ, List.flatten_cons] at ih ⊢
    rw [writtenBytes_append, ih, passOps_written p size 0 size (Nat.le_refl _)]
    rw [Nat.add_mul]; omega

theorem overwriteOps_touches (p : Name) (size passes : Nat) : ∀ o ∈ overwriteOps p size passes, touchesOnly p o := by
  intro o h
  simp only [overwriteOps, List.mem_flatten, List.mem_replicate] at h
  obtain ⟨l, ⟨_, rfl⟩, ho⟩ := h
  exact passOps_touches p _ _ _ o ho

/-- after ≥ 1 overwrite passes the file holds `size` zero bytes; with 0 passes it is unchanged -/
theorem overwriteOps_content (p : Name) (passes : Nat) (fs : FS) (bs : Bytes) (hg : aget fs p = some bs) :
    aget (applyOps fs (overwriteOps p bs.length passes)) p = some (if passes = 0 then bs else zeros bs.length) := by
  induction passes generalizing fs bs with
  | zero => simpa [overwriteOps, applyOps] using hg
  | succ n ih =>
    simp only [overwriteOps, List.replicate_succ, List.flatten_cons]
    rw [applyOps_append]
    have h1 := passOps_content p bs.length 0 bs.length fs bs (Nat.le_refl _) rfl (by simpa [zeros] using hg)
    simp only [Nat.zero_add] at h1
    have h2 := ih _ (zeros bs.length) h1
    simp only [zeros, List.length_replicate] at h2
    simp only [overwriteOps, zeros] at h2 ⊢
    rw [h2]
    by_cases hn : n = 0 <;> simp [hn]

theorem wipeOps_touches (cfg : Cfg) (fs : FS) (p : Name) : ∀ o ∈ wipeOps cfg fs p, touchesOnly p o := by
  intro o h
  simp only [wipeOps] at h
  split at h
  · simp at h
  · rcases List.mem_append.mp h with h | h
    · exact overwriteOps_touches p _ _ o h
    · simp at h; subst h; rfl

theorem wipeOps_self (cfg : Cfg) (fs : FS) (p : Name) : aget (applyOps fs (wipeOps cfg fs p)) p = none := by
  simp only [wipeOps]
  cases hg : aget fs p with
  | none => simpa [applyOps] using hg
  | some bs =>
    simp only []
    rw [applyOps_append, applyOps_cons, applyOps_nil]
    simp [applyOp, aget_adel_self]

theorem wipeOps_other (cfg : Cfg) (fs : FS) {p q : Name} (h : p ≠ q) :
    aget (applyOps fs (wipeOps cfg fs p)) q = aget fs q :=
  applyOps_other h _ _ (wipeOps_touches cfg fs p)

/-! ### routines with I/O errors -/

/-- operations that can never bring a file into existence -/
def wipeish : FsOp → Prop
  | .zero _ _ _ | .remove _ => True
  | _ => False

theorem applyOp_absent_of_wipeish {fs : FS} {q : Name} {o : FsOp} (hw : wipeish o) (h : aget fs q = none) :
    aget (applyOp fs o) q = none := by
  cases o with
  | create x => cases hw
  | append x bs => cases hw
  | zero x off len =>
    simp only [applyOp]
    by_cases hx : x = q
    · subst hx; rw [h]; exact h
    · split
      · rw [aget_aset_ne _ _ hx]; exact h
      · exact h
  | remove x =>
    simp only [applyOp]
    by_cases hx : x = q
    · subst hx; exact aget_adel_self _ _
    · rw [aget_adel_ne _ hx]; exact h

theorem applyOps_absent_of_wipeish {q : Name} (ops : List FsOp) (fs : FS) (hw : ∀ o ∈ ops, wipeish o)
    (h : aget fs q = none) : aget (applyOps fs ops) q = none := by
  induction ops generalizing fs with
  | nil => exact h
  | cons o r ih =>
    rw [applyOps_cons]
    exact ih _ (fun o' ho' => hw o' (List.mem_cons_of_mem _ ho')) (applyOp_absent_of_wipeish (hw o List.mem_cons_self) h)

/-- operations each of which touches some name other than `q` leave `q` alone -/
theorem applyOps_untouched {q : Name} (ops : List FsOp) (fs : FS)
    (h : ∀ o ∈ ops, ∃ p, p ≠ q ∧ touchesOnly p o) : aget (applyOps fs ops) q = aget fs q := by
  induction ops generalizing fs with
  | nil => rfl
  | cons o r ih =>
    rw [applyOps_cons, ih _ (fun o' ho' => h o' (List.mem_cons_of_mem _ ho'))]
    obtain ⟨p, hp, ht⟩ := h o List.mem_cons_self
    exact applyOp_other hp fs ht

theorem faultAt_nil (i : Nat) : faultAt [] i = none := rfl

theorem truncOp_touches {p : Name} {o : FsOp} (h : touchesOnly p o) (s : Nat) : ∀ o' ∈ truncOp o s, touchesOnly p o' := by
  intro o' ho'
  cases o with
  | create x => simp [truncOp] at ho'
  | remove x => simp [truncOp] at ho'
  | append x bs =>
    simp only [truncOp] at ho'
    split at ho'
    · simp at ho'
    · simp at ho'; subst ho'; exact h
  | zero x off len =>
    simp only [truncOp] at ho'
    split at ho'
    · simp at ho'
    · simp at ho'; subst ho'; exact h

theorem truncOp_wipeish {o : FsOp} (h : wipeish o) (s : Nat) : ∀ o' ∈ truncOp o s, wipeish o' := by
  intro o' ho'
  cases o with
  | create x => cases h
  | append x bs => cases h
  | remove x => simp [truncOp] at ho'
  | zero x off len =>
    simp only [truncOp] at ho'
    split at ho'
    · simp at ho'
    · simp at ho'; subst ho'; trivial

theorem writesF_mem {P : FsOp → Prop} (φ : Faults) (ops : List FsOp) (n : Nat)
    (h : ∀ o ∈ ops, P o) (ht : ∀ o, P o → ∀ s, ∀ o' ∈ truncOp o s, P o') :
    ∀ o ∈ (writesF φ ops n).1, P o := by
  induction ops generalizing n with
  | nil => intro o ho; simp [writesF] at ho
  | cons x r ih =>
    intro o ho
    simp only [writesF] at ho
    split at ho
    · exact ht x (h x List.mem_cons_self) _ o ho
    · rcases List.mem_cons.mp ho with ho | ho
      · subst ho; exact h _ List.mem_cons_self
      · exact ih _ (fun o' ho' => h o' (List.mem_cons_of_mem _ ho')) o ho

theorem passOps_wipeish (p : Name) (fuel off rem : Nat) : ∀ o ∈ passOps p fuel off rem, wipeish o := by
  induction fuel generalizing off rem with
  | zero => intro o h; simp [passOps] at h
  | succ n ih =>
    intro o h
    simp only [passOps] at h
    split at h
    · simp at h
    · rcases List.mem_cons.mp h with h | h
      · subst h; trivial
      · exact ih _ _ o h

theorem overwriteOps_wipeish (p : Name) (size passes : Nat) : ∀ o ∈ overwriteOps p size passes, wipeish o := by
  intro o h
  simp only [overwriteOps, List.mem_flatten, List.mem_replicate] at h
  obtain ⟨l, ⟨_, rfl⟩, ho⟩ := h
  exact passOps_wipeish p _ _ _ o ho

/-- every operation of a (possibly failing) wipe touches only `p` and cannot create a file -/
theorem wipeF_ops (cfg : Cfg) (φ : Faults) (fs : FS) (p : Name) (n : Nat) :
    ∀ o ∈ (wipeF cfg φ fs p n).1, touchesOnly p o ∧ wipeish o := by
  intro o ho
  unfold wipeF at ho
  cases hg : aget fs p with
  | none => simp [hg] at ho
  | some bs =>
    simp only [hg] at ho
    cases hf : faultAt φ n with
    | some s => simp [hf] at ho
    | none =>
      simp only [hf] at ho
      have hw : ∀ o ∈ (writesF φ (overwriteOps p bs.length cfg.passes) (n + 1)).1, touchesOnly p o ∧ wipeish o :=
        writesF_mem (P := fun o => touchesOnly p o ∧ wipeish o) φ _ _
          (fun o ho => ⟨overwriteOps_touches p _ _ o ho, overwriteOps_wipeish p _ _ o ho⟩)
          (fun o hP s o' ho' => ⟨truncOp_touches hP.1 s o' ho', truncOp_wipeish hP.2 s o' ho'⟩)
      cases hf2 : faultAt φ (writesF φ (overwriteOps p bs.length cfg.passes) (n + 1)).2.1 with
      | some s => simp only [hf2] at ho; exact hw o ho
      | none =>
        simp only [hf2] at ho
        rcases List.mem_append.mp ho with ho | ho
        · exact hw o ho
        · simp at ho; subst ho; exact ⟨rfl, trivial⟩

theorem wipeF_touches (cfg : Cfg) (φ : Faults) (fs : FS) (p : Name) (n : Nat) :
    ∀ o ∈ (wipeF cfg φ fs p n).1, touchesOnly p o := fun o ho => (wipeF_ops cfg φ fs p n o ho).1

/-- a wipe that reports success has removed the file -/
theorem wipeF_ok (cfg : Cfg) (φ : Faults) (fs : FS) (p : Name) (n : Nat)
    (h : (wipeF cfg φ fs p n).2.2 = true) : aget (applyOps fs (wipeF cfg φ fs p n).1) p = none := by
  simp only [wipeF] at h ⊢
  split
  · rename_i hg; simpa [applyOps] using hg
  · rename_i bs hg
    simp only [hg] at h
    split
    · rename_i hf; simp [hf] at h
    · rename_i hf
      simp only [hf] at h
      split
      · rename_i hf2; simp [hf2] at h
      · rw [applyOps_append, applyOps_cons, applyOps_nil]
        simp [applyOp, aget_adel_self]

/-- without I/O errors the wipe is the plain operation list and succeeds -/
theorem wipeF_nofault (cfg : Cfg) (fs : FS) (p : Name) (n : Nat) :
    (wipeF cfg [] fs p n).1 = wipeOps cfg fs p ∧ (wipeF cfg [] fs p n).2.2 = true := by
  have hw : ∀ (ops : List FsOp) (m : Nat), (writesF [] ops m).1 = ops := by
    intro ops
    induction ops with
    | nil => intro m; rfl
    | cons o r ih => intro m; simp [writesF, faultAt_nil, ih]
  simp only [wipeF, wipeOps]
  cases aget fs p with
  | none => exact ⟨rfl, rfl⟩
  | some bs => simp [faultAt_nil, hw]

/-! #### persist -/

theorem persistF_touches (cfg : Cfg) (φ : Faults) (fs : FS) (p : Name) (data : Bytes) (n : Nat) :
    ∀ o ∈ (persistF cfg φ fs p data n).ops, touchesOnly p o := by
  intro o ho
  have hc : touchesOnly p (.create p) := rfl
  have ha : ∀ s, ∀ o' ∈ truncOp (.append p data) s, touchesOnly p o' := fun s => truncOp_touches (o := .append p data) rfl s
  simp only [persistF] at ho
  split at ho
  · rcases List.mem_append.mp ho with ho | ho
    · exact wipeF_touches _ _ _ _ _ o ho
    · exact wipeF_touches _ _ _ _ _ o ho
  · split at ho
    · rcases List.mem_append.mp ho with ho | ho
      · exact wipeF_touches _ _ _ _ _ o ho
      · simp at ho; subst ho; rfl
    · split at ho
      · rcases List.mem_append.mp ho with ho | ho
        · rcases List.mem_append.mp ho with ho | ho
          · exact wipeF_touches _ _ _ _ _ o ho
          · rcases List.mem_cons.mp ho with ho | ho
            · subst ho; rfl
            · exact ha _ o ho
        · exact wipeF_touches _ _ _ _ _ o ho
      · rcases List.mem_append.mp ho with ho | ho
        · exact wipeF_touches _ _ _ _ _ o ho
        · simp at ho; rcases ho with ho | ho <;> subst ho <;> rfl

/-- a store that reports success left exactly the payload in the file and owes no wipe -/
theorem persistF_ok (cfg : Cfg) (φ : Faults) (fs : FS) (p : Name) (data : Bytes) (n : Nat)
    (h : (persistF cfg φ fs p data n).ok = true) :
    aget (applyOps fs (persistF cfg φ fs p data n).ops) p = some data ∧ (persistF cfg φ fs p data n).defer = false := by
  simp only [persistF] at h ⊢
  split
  · rename_i hf; simp [hf] at h
  · rename_i hf
    simp only [hf] at h
    split
    · rename_i he
      refine ⟨?_, rfl⟩
      rw [applyOps_append, applyOps_cons, applyOps_nil]
      have : data = [] := by simpa using he
      simp [applyOp, aget_aset_self, this]
    · rename_i he
      simp only [he] at h
      split
      · rename_i hf2; simp [hf2] at h
      · refine ⟨?_, rfl⟩
        rw [applyOps_append, applyOps_cons, applyOps_cons, applyOps_nil]
        simp [applyOp, aget_aset_self]

/-- a store that reports failure and owes no wipe left no file -/
theorem persistF_failed (cfg : Cfg) (φ : Faults) (fs : FS) (p : Name) (data : Bytes) (n : Nat)
    (h : (persistF cfg φ fs p data n).ok = false) (hd : (persistF cfg φ fs p data n).defer = false) :
    aget (applyOps fs (persistF cfg φ fs p data n).ops) p = none := by
  simp only [persistF] at h hd ⊢
  split
  · rename_i hf
    simp only [hf, Bool.not_eq_false'] at hd
    rw [applyOps_append]
    exact wipeF_ok _ _ _ _ _ hd
  · rename_i hf
    simp only [hf] at h hd
    split
    · rename_i he; simp [he] at h
    · rename_i he
      simp only [he, Bool.false_eq_true, if_false] at h hd
      split
      · rename_i s hf2
        simp only [hf2, Bool.not_eq_false'] at hd
        rw [applyOps_append, applyOps_append]
        exact wipeF_ok _ _ _ _ _ hd
      · rename_i hf2; simp [hf2] at h

/-! #### put -/

theorem putF_touches (cfg : Cfg) (φ : Faults) (s : Recs) (fs : FS) (pend : List Name) (id : String) (data : Bytes) :
    ∀ o ∈ (putF cfg φ s fs pend id data).ops, touchesOnly (.chunk id) o := by
  intro o ho
  have h1 : ∀ o ∈ (oldWipeF cfg φ s fs id).1, touchesOnly (.chunk id) o := by
    intro o ho
    unfold oldWipeF at ho
    split at ho
    · split at ho
      · exact wipeF_touches _ _ _ _ _ o ho
      · simp at ho
    · simp at ho
  simp only [putF] at ho
  split at ho
  · rcases List.mem_append.mp ho with ho | ho
    · exact h1 o ho
    · exact persistF_touches _ _ _ _ _ _ o ho
  · exact h1 o ho

theorem putF_other (cfg : Cfg) (φ : Faults) (s : Recs) (fs : FS) (pend : List Name) (id : String) (data : Bytes)
    {q : Name} (h : Name.chunk id ≠ q) :
    aget (applyOps fs (putF cfg φ s fs pend id data).ops) q = aget fs q :=
  applyOps_other h _ _ (putF_touches cfg φ s fs pend id data)

/-- the retry list changes only at the path being stored -/
theorem putF_pending_other (cfg : Cfg) (φ : Faults) (s : Recs) (fs : FS) (pend : List Name) (id : String) (data : Bytes)
    {q : Name} (h : Name.chunk id ≠ q) : q ∈ (putF cfg φ s fs pend id data).pending ↔ q ∈ pend := by
  have hq : q ≠ Name.chunk id := fun hh => h hh.symm
  simp only [putF]
  generalize oldWipeF cfg φ s fs id = o1
  by_cases hp : cfg.persistent = true
  · simp only [hp, if_true]
    by_cases hd : (persistF cfg φ (applyOps fs o1.1) (Name.chunk id) data o1.2.1).defer = true <;>
      by_cases ho : o1.2.2 = true <;> simp [hd, ho, List.mem_filter, hq]
  · rw [if_neg hp]
    by_cases ho : o1.2.2 = true <;> simp [ho, hq]

/-- with persistence on: a record stored as persisted has its file and owes no wipe; a record
    stored as not persisted has no file unless a wipe is owed for the path -/
theorem putF_self (cfg : Cfg) (hp : cfg.persistent = true) (φ : Faults) (s : Recs) (fs : FS) (pend : List Name)
    (id : String) (data : Bytes) :
    ((putF cfg φ s fs pend id data).persisted = true →
      aget (applyOps fs (putF cfg φ s fs pend id data).ops) (.chunk id) = some data ∧
      Name.chunk id ∉ (putF cfg φ s fs pend id data).pending) ∧
    ((putF cfg φ s fs pend id data).persisted = false → Name.chunk id ∉ (putF cfg φ s fs pend id data).pending →
      aget (applyOps fs (putF cfg φ s fs pend id data).ops) (.chunk id) = none) := by
  simp only [putF, hp, if_true]
  generalize oldWipeF cfg φ s fs id = o1
  constructor
  · intro hok
    obtain ⟨h1, h2⟩ := persistF_ok _ _ _ _ _ _ hok
    refine ⟨by rw [applyOps_append]; exact h1, ?_⟩
    simp [h2, List.mem_filter]
  · intro hnok hnp
    rw [applyOps_append]
    apply persistF_failed _ _ _ _ _ _ hnok
    cases hd : (persistF cfg φ (applyOps fs o1.1) (Name.chunk id) data o1.2.1).defer with
    | false => rfl
    | true => simp [hd] at hnp

/-! #### wiping a list of paths (sweep, start-up purge) -/

theorem wipeAllF_cons (cfg : Cfg) (φ : Faults) (p : Name) (rest : List Name) (fs : FS) (n : Nat) :
    wipeAllF cfg φ (p :: rest) fs n =
      ((wipeF cfg φ fs p n).1 ++ (wipeAllF cfg φ rest (applyOps fs (wipeF cfg φ fs p n).1) (wipeF cfg φ fs p n).2.1).1,
       (wipeAllF cfg φ rest (applyOps fs (wipeF cfg φ fs p n).1) (wipeF cfg φ fs p n).2.1).2.1,
       if (wipeF cfg φ fs p n).2.2 then (wipeAllF cfg φ rest (applyOps fs (wipeF cfg φ fs p n).1) (wipeF cfg φ fs p n).2.1).2.2
       else p :: (wipeAllF cfg φ rest (applyOps fs (wipeF cfg φ fs p n).1) (wipeF cfg φ fs p n).2.1).2.2) := rfl

theorem wipeAllF_ops (cfg : Cfg) (φ : Faults) (names : List Name) (fs : FS) (n : Nat) :
    ∀ o ∈ (wipeAllF cfg φ names fs n).1, (∃ p ∈ names, touchesOnly p o) ∧ wipeish o := by
  induction names generalizing fs n with
  | nil => intro o ho; simp [wipeAllF] at ho
  | cons p rest ih =>
    intro o ho
    rw [wipeAllF_cons] at ho
    rcases List.mem_append.mp ho with ho | ho
    · have := wipeF_ops cfg φ fs p n o ho
      exact ⟨⟨p, List.mem_cons_self, this.1⟩, this.2⟩
    · obtain ⟨⟨q, hq, ht⟩, hw⟩ := ih _ _ o ho
      exact ⟨⟨q, List.mem_cons_of_mem _ hq, ht⟩, hw⟩

theorem wipeAllF_failed_sub (cfg : Cfg) (φ : Faults) (names : List Name) (fs : FS) (n : Nat) :
    ∀ q ∈ (wipeAllF cfg φ names fs n).2.2, q ∈ names := by
  induction names generalizing fs n with
  | nil => intro q hq; simp [wipeAllF] at hq
  | cons p rest ih =>
    intro q hq
    rw [wipeAllF_cons] at hq
    simp only at hq
    split at hq
    · exact List.mem_cons_of_mem _ (ih _ _ q hq)
    · rcases List.mem_cons.mp hq with hq | hq
      · subst hq; exact List.mem_cons_self
      · exact List.mem_cons_of_mem _ (ih _ _ q hq)

/-- a path that was to be wiped and is not reported as failed is gone -/
theorem wipeAllF_gone (cfg : Cfg) (φ : Faults) (names : List Name) (fs : FS) (n : Nat) (q : Name)
    (hq : q ∈ names) (hnf : q ∉ (wipeAllF cfg φ names fs n).2.2) :
    aget (applyOps fs (wipeAllF cfg φ names fs n).1) q = none := by
  induction names generalizing fs n with
  | nil => simp at hq
  | cons p rest ih =>
    rw [wipeAllF_cons] at hnf ⊢
    simp only at hnf ⊢
    rw [applyOps_append]
    by_cases hpq : p = q
    · subst hpq
      by_cases hok : (wipeF cfg φ fs p n).2.2 = true
      · by_cases hin : p ∈ rest
        · simp only [hok, if_true] at hnf
          exact ih _ _ hin hnf
        · exact applyOps_absent_of_wipeish _ _ (fun o ho => (wipeAllF_ops cfg φ rest _ _ o ho).2) (wipeF_ok _ _ _ _ _ hok)
      · simp [hok] at hnf
    · have hin : q ∈ rest := by
        rcases List.mem_cons.mp hq with h | h
        · exact absurd h.symm hpq
        · exact h
      apply ih _ _ hin
      split at hnf
      · exact hnf
      · exact fun hh => hnf (List.mem_cons_of_mem _ hh)

/-- a path that was not to be wiped is untouched -/
theorem wipeAllF_keep (cfg : Cfg) (φ : Faults) (names : List Name) (fs : FS) (n : Nat) (q : Name) (hq : q ∉ names) :
    aget (applyOps fs (wipeAllF cfg φ names fs n).1) q = aget fs q := by
  apply applyOps_untouched
  intro o ho
  obtain ⟨⟨p, hp, ht⟩, _⟩ := wipeAllF_ops cfg φ names fs n o ho
  exact ⟨p, fun hh => hq (hh ▸ hp), ht⟩

/-- without I/O errors nothing is left to retry -/
theorem wipeAllF_nofault (cfg : Cfg) (names : List Name) (fs : FS) (n : Nat) : (wipeAllF cfg [] names fs n).2.2 = [] := by
  induction names generalizing fs n with
  | nil => rfl
  | cons p rest ih =>
    rw [wipeAllF_cons]
    simp [(wipeF_nofault cfg fs p n).2, ih]

/-- every prefix of an operation list keeps the "touches only" property (crash states) -/
theorem take_touches {p : Name} {ops : List FsOp} (h : ∀ o ∈ ops, touchesOnly p o) (k : Nat) :
    ∀ o ∈ ops.take k, touchesOnly p o := fun o ho => h o (List.mem_of_mem_take ho)

end EphVerif.ChunkStore
