/-
Every observation the ChunkStore model makes is accepted by the specification's `judge` (C01).
-/
import EphVerif.Lemmas.C01Refine

namespace EphVerif.ChunkStore
open EphVerif.StoreSpec (Op Obs Params Entry W last readWire readRecord live judge)

theorem get_eq_readWire {w : World} {a : W} (h : Rel w a) (id : String) :
    get w.sys.recs w.now id = readWire a.s id a.now := by
  unfold get readWire
  cases hg : getRecord w.sys.recs w.now id with
  | some r =>
    obtain ⟨e, he, hl, h1, _, _⟩ := getRecord_some h hg
    simp [he, hl, h1]
  | none =>
    cases he : last a.s id with
    | none => simp
    | some e =>
      have := getRecord_none h hg e he
      have : ¬ a.now < e.deadline := by omega
      simp [this]

theorem fetch_eq_read {w : World} {a : W} (h : Rel w a) (id : String) :
    nodeFetch w.sys.recs w.now id = StoreSpec.read a.s id a.now := by
  unfold nodeFetch StoreSpec.read
  cases hg : getRecord w.sys.recs w.now id with
  | some r =>
    obtain ⟨e, he, hl, _, h2, _⟩ := getRecord_some h hg
    simp [he, hl, h2]
  | none =>
    cases he : last a.s id with
    | none => simp
    | some e =>
      have := getRecord_none h hg e he
      have : ¬ a.now < e.deadline := by omega
      simp [this]

theorem record_eq_readRecord {w : World} {a : W} (h : Rel w a) (id : String) :
    (getRecord w.sys.recs w.now id).map (fun r => (r.data, r.expires)) = readRecord a.s id a.now := by
  unfold readRecord
  cases hg : getRecord w.sys.recs w.now id with
  | some r =>
    obtain ⟨e, he, hl, h1, _, h3⟩ := getRecord_some h hg
    simp [he, hl, h1, ← h3]
  | none =>
    cases he : last a.s id with
    | none => simp
    | some e =>
      have := getRecord_none h hg e he
      have : ¬ a.now < e.deadline := by omega
      simp [this]

/-- a served peer request carries exactly the live wire bytes -/
theorem request_some {nc : NodeCfg} {w : World} {a : W} (h : Rel w a) {id : String} {b : Bytes}
    (hq : nodeRequest nc w.sys.recs w.now id = some b) : readWire a.s id a.now = some b := by
  unfold nodeRequest at hq
  cases hg : getRecord w.sys.recs w.now id with
  | none => simp [hg] at hq
  | some r =>
    obtain ⟨e, he, hl, h1, _, _⟩ := getRecord_some h hg
    simp only [hg] at hq
    split at hq; · cases hq
    split at hq; · cases hq
    split at hq; · cases hq
    cases hq
    simp [readWire, he, hl, h1]

/-- a peer request is refused only when the chunk is dead or inside the grace window -/
theorem request_none {nc : NodeCfg} (hs : SaneCfg nc) {w : World} {a : W} (h : Rel w a) {id : String}
    (hq : nodeRequest nc w.sys.recs w.now id = none) {e : Entry} (he : last a.s id = some e) :
    ¬ (a.now < e.deadline ∧ nc.minTtl * EphVerif.StoreSpec.nsPerSec ≤ e.deadline - a.now) := by
  rintro ⟨hl, hgr⟩
  obtain ⟨r, hg, _, _, h3⟩ := getRecord_of_live h he hl
  obtain ⟨h1, _⟩ := hs
  unfold nodeRequest at hq
  simp only [hg] at hq
  rw [← h3, h.now_eq] at hq
  simp only [EphVerif.StoreSpec.nsPerSec] at hgr
  simp only [nsPerSec] at hq
  have e1 : ¬ e.deadline ≤ a.now := by omega
  have e2 : ¬ (e.deadline - a.now) / 1000000000 ≤ 0 := by omega
  have e3 : ¬ (e.deadline - a.now) / 1000000000 < nc.minTtl := by omega
  simp [e1, e2, e3] at hq

theorem mem_snapshot {s : Recs} {x : String × Int × Bool × Nat} (hx : x ∈ snapshot s) :
    ∃ r, (x.1, r) ∈ s ∧ x.2.1 = r.expires := by
  simp only [snapshot, List.mem_map] at hx
  obtain ⟨e, he, rfl⟩ := hx
  exact ⟨e.2, he, rfl⟩

/-- everything listed is live, with its deadline -/
theorem list_sound {w : World} {a : W} (h : Rel w a) {id : String} {d : Int}
    (hm : (id, d) ∈ (nodeList w.sys.recs w.now).map (fun e => (e.1, e.2.1))) :
    ∃ e, last a.s id = some e ∧ a.now < e.deadline ∧ e.deadline = d := by
  simp only [nodeList, List.mem_map, List.mem_filter] at hm
  obtain ⟨x, ⟨hx, hlive⟩, hxe⟩ := hm
  obtain ⟨r, hr, hd⟩ := mem_snapshot hx
  cases hxe
  have hg := aget_of_mem h.uniq hr
  obtain ⟨e, he, _, _, h3⟩ := h.sound _ _ hg
  refine ⟨e, he, ?_, by rw [h3, hd]⟩
  have : ¬ x.2.1 ≤ w.now := fun hh => by
    have := (expiredList_iff w.now x.2.1).mpr hh
    simp [this] at hlive
  rw [← h.now_eq, h3, ← hd]; omega

/-- everything live is listed -/
theorem list_complete {w : World} {a : W} (h : Rel w a) {id : String} {e : Entry}
    (he : last a.s id = some e) (hl : a.now < e.deadline) :
    id ∈ ((nodeList w.sys.recs w.now).map (fun e => (e.1, e.2.1))).map (·.1) := by
  obtain ⟨r, hg, _, _, h3⟩ := getRecord_of_live h he hl
  have hr : aget w.sys.recs id = some r := by
    unfold getRecord at hg
    cases hh : aget w.sys.recs id with
    | none => simp [hh] at hg
    | some r' =>
      simp only [hh] at hg
      split at hg
      · cases hg
      · exact hg
  have hm := mem_of_aget hr
  simp only [nodeList, List.map_map, List.mem_map, List.mem_filter, snapshot]
  refine ⟨(id, r.expires, r.encrypted, r.data.length), ⟨⟨(id, r), hm, rfl⟩, ?_⟩, rfl⟩
  have : ¬ r.expires ≤ w.now := by rw [← h3, h.now_eq]; omega
  have hx : expiredList w.now r.expires = false := by
    cases hh : expiredList w.now r.expires with
    | false => rfl
    | true => exact absurd ((expiredList_iff _ _).mp hh) this
  simp [hx]

theorem last_id {s : EphVerif.StoreSpec.S} {id : String} {e : Entry} (h : last s id = some e) : e.id = id := by
  induction s with
  | nil => simp [last] at h
  | cons x s ih =>
    simp only [last] at h
    split at h
    · cases h; assumption
    · exact ih h

theorem last_of_mem {s : EphVerif.StoreSpec.S} {e : Entry} (h : e ∈ s) : ∃ e', last s e.id = some e' := by
  induction s with
  | nil => simp at h
  | cons x s ih =>
    simp only [last]
    split
    · exact ⟨x, rfl⟩
    · rcases List.mem_cons.mp h with h | h
      · subst h; contradiction
      · exact ih h

/-- the model's answer to every operation is accepted by the specification -/
theorem judge_stepF {nc : NodeCfg} (hs : SaneCfg nc) (φ : Faults) {w : World} {a : W} (h : Rel w a) (op : Op) :
    judge (paramsOf nc) a op (stepF nc φ w op).2 = none := by
  cases op with
  | store id data ttl nonce enc => rfl
  | nstore id plain cipher nonce ttl => rfl
  | lookup id => simp [stepF, judge, get_eq_readWire h]
  | record id => simp [stepF, judge, recObs, record_eq_readRecord h]
  | fetch id => simp [stepF, judge, fetch_eq_read h]
  | request id =>
    simp only [stepF, judge]
    cases hq : nodeRequest nc w.sys.recs w.now id with
    | some b => simp [request_some h hq]
    | none =>
      simp only []
      cases he : last a.s id with
      | none => rfl
      | some e =>
        have := request_none hs h hq he
        simp only [paramsOf] at this ⊢
        simp [this]
  | list =>
    simp only [stepF, judge]
    have h1 : ((nodeList w.sys.recs w.now).map (fun e => (e.1, e.2.1))).any (fun e => !live a.s e.1 a.now) = false := by
      rw [List.any_eq_false]
      intro x hx
      obtain ⟨e, he, hl, _⟩ := list_sound (id := x.1) (d := x.2) h hx
      simp [live, StoreSpec.read, he, hl]
    have h2 : a.s.any (fun e => live a.s e.id a.now &&
        !(((nodeList w.sys.recs w.now).map (fun e => (e.1, e.2.1))).map (·.1)).contains e.id) = false := by
      rw [List.any_eq_false]
      intro x hx
      obtain ⟨e', he'⟩ := last_of_mem hx
      by_cases hl : a.now < e'.deadline
      · have hc := List.contains_iff_mem.mpr (list_complete h he' hl)
        rw [hc]; simp
      · simp [live, StoreSpec.read, he', hl]
    have h3 : ((nodeList w.sys.recs w.now).map (fun e => (e.1, e.2.1))).any
        (fun e => (last a.s e.1).map (·.deadline) != some e.2) = false := by
      rw [List.any_eq_false]
      intro x hx
      obtain ⟨e, he, _, hd⟩ := list_sound (id := x.1) (d := x.2) h hx
      simp [he, hd]
    rw [h1, h2, h3]; rfl
  | sweep => rfl
  | tick =>
    by_cases hc : w.now - w.lastCleanup ≥ nc.cleanupInterval * nsPerSec
    · have : (stepF nc φ w .tick).2 = .removed (sysSweepF nc.store φ w.sys w.now).2 := by
        simp [stepF, nodeTickF, hc]
      rw [this]; rfl
    · have : (stepF nc φ w .tick).2 = .unit := by simp [stepF, nodeTickF, hc]
      rw [this]; rfl
  | advance d => rfl

theorem judge_step {nc : NodeCfg} (hs : SaneCfg nc) {w : World} {a : W} (h : Rel w a) (op : Op) :
    judge (paramsOf nc) a op (step nc w op).2 = none := judge_stepF hs [] h op

end EphVerif.ChunkStore
