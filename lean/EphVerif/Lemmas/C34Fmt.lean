import EphVerif.Lemmas.C34Text

/-! Helper lemmas for C34: the shape of `inet_ntop(AF_INET6)` text (`fmt6`) for the address classes of the property. -/
namespace EphVerif.C34L
open EphVerif.Adv EphVerif.Gen.C34

/-! ### the zero-run choice only depends on which groups are zero: finite checks -/

def headFree (r : Option (Nat × Nat)) : Bool :=
  match r with
  | none => true
  | some (b, _) => b != 0

def twoFree (r : Option (Nat × Nat)) : Bool :=
  match r with
  | none => true
  | some (b, _) => decide (2 ≤ b)

theorem bestRun_headFree : ∀ z1 z2 z3 z4 z5 z6 z7 : Bool,
    headFree (bestRun [false, z1, z2, z3, z4, z5, z6, z7]) = true := by decide

theorem bestRun_twoFree : ∀ z2 z3 z4 z5 z6 z7 : Bool,
    twoFree (bestRun [false, false, z2, z3, z4, z5, z6, z7]) = true := by decide

theorem bestRun_mapped : ∀ z6 z7 : Bool,
    bestRun [true, true, true, true, true, false, z6, z7] = some (0, 5) := by decide

/-! ### joinColon -/

theorem joinColon_cons (x : Str) (xs : List Str) : ∃ t, joinColon (x :: xs) = x ++ t := by
  cases xs with
  | nil => exact ⟨[], by simp [joinColon]⟩
  | cons y r => exact ⟨':' :: joinColon (y :: r), by simp [joinColon]⟩

theorem joinColon_cons2 (x y : Str) (xs : List Str) : ∃ t, joinColon (x :: y :: xs) = x ++ ':' :: (y ++ t) := by
  obtain ⟨t, ht⟩ := joinColon_cons y xs
  exact ⟨t, by simp [joinColon, ht]⟩

/-! ### shape of fmt6 -/

/-- first group non-zero: the text starts with that group in hex -/
theorem fmt6_head (g0 g1 g2 g3 g4 g5 g6 g7 : Nat) (h0 : g0 ≠ 0) :
    ∃ t, fmt6 [g0, g1, g2, g3, g4, g5, g6, g7] = hex16 g0 ++ t := by
  unfold fmt6
  have hz : (g0 == 0) = false := by simpa using h0
  simp only [List.map_cons, List.map_nil, hz]
  have hf := bestRun_headFree (g1 == 0) (g2 == 0) (g3 == 0) (g4 == 0) (g5 == 0) (g6 == 0) (g7 == 0)
  generalize bestRun [false, g1 == 0, g2 == 0, g3 == 0, g4 == 0, g5 == 0, g6 == 0, g7 == 0] = r at hf
  match r, hf with
  | none, _ => exact joinColon_cons _ _
  | some (b, l), hf =>
    have hb : b ≠ 0 := by simpa [headFree] using hf
    obtain ⟨b', rfl⟩ : ∃ b', b = b' + 1 := ⟨b - 1, by omega⟩
    have : ((b' + 1 == 0) && (l == 6 || (l == 5 && [g0, g1, g2, g3, g4, g5, g6, g7].getD 5 0 == 0xffff))) = false := by simp
    simp only [this, Bool.false_eq_true, if_false, List.take_succ_cons, List.map_cons]
    obtain ⟨t, ht⟩ := joinColon_cons (hex16 g0) (List.map hex16 (List.take b' [g1, g2, g3, g4, g5, g6, g7]))
    exact ⟨t ++ _, by rw [ht, List.append_assoc]⟩

/-- first two groups non-zero: the text starts with `g0:g1` in hex -/
theorem fmt6_head2 (g0 g1 g2 g3 g4 g5 g6 g7 : Nat) (h0 : g0 ≠ 0) (h1 : g1 ≠ 0) :
    ∃ t, fmt6 [g0, g1, g2, g3, g4, g5, g6, g7] = hex16 g0 ++ ':' :: (hex16 g1 ++ t) := by
  unfold fmt6
  have hz0 : (g0 == 0) = false := by simpa using h0
  have hz1 : (g1 == 0) = false := by simpa using h1
  simp only [List.map_cons, List.map_nil, hz0, hz1]
  have hf := bestRun_twoFree (g2 == 0) (g3 == 0) (g4 == 0) (g5 == 0) (g6 == 0) (g7 == 0)
  generalize bestRun [false, false, g2 == 0, g3 == 0, g4 == 0, g5 == 0, g6 == 0, g7 == 0] = r at hf
  match r, hf with
  | none, _ => exact joinColon_cons2 _ _ _
  | some (b, l), hf =>
    have hb : 2 ≤ b := by simpa [twoFree] using hf
    obtain ⟨b', rfl⟩ : ∃ b', b = b' + 1 + 1 := ⟨b - 2, by omega⟩
    have : ((b' + 1 + 1 == 0) && (l == 6 || (l == 5 && [g0, g1, g2, g3, g4, g5, g6, g7].getD 5 0 == 0xffff))) = false := by simp
    simp only [this, Bool.false_eq_true, if_false, List.take_succ_cons, List.map_cons]
    obtain ⟨t, ht⟩ := joinColon_cons2 (hex16 g0) (hex16 g1) (List.map hex16 (List.take b' [g2, g3, g4, g5, g6, g7]))
    refine ⟨t ++ ([':', ':'] ++ joinColon ((List.drop (b' + 1 + 1 + l) [g0, g1, g2, g3, g4, g5, g6, g7]).map hex16)), ?_⟩
    rw [ht]; simp

/-- IPv4-mapped addresses are written `::ffff:a.b.c.d` -/
theorem fmt6_mapped (g6 g7 : Nat) :
    fmt6 [0, 0, 0, 0, 0, 0xffff, g6, g7] =
      [':', ':', 'f', 'f', 'f', 'f', ':'] ++ fmt4 (g6 / 256) (g6 % 256) (g7 / 256) (g7 % 256) := by
  unfold fmt6
  have h5 : ((0xffff : Nat) == 0) = false := by decide
  have h0 : ((0 : Nat) == 0) = true := by decide
  simp only [List.map_cons, List.map_nil, h5, h0, bestRun_mapped (g6 == 0) (g7 == 0)]
  simp

theorem fmt6_zero : fmt6 [0, 0, 0, 0, 0, 0, 0, 0] = [':', ':'] := by decide
theorem fmt6_one : fmt6 [0, 0, 0, 0, 0, 0, 0, 1] = [':', ':', '1'] := by decide

/-- every IPv6 text contains a colon -/
theorem fmt6_colon (g0 g1 g2 g3 g4 g5 g6 g7 : Nat) : ':' ∈ fmt6 [g0, g1, g2, g3, g4, g5, g6, g7] := by
  unfold fmt6
  generalize bestRun (List.map (· == 0) [g0, g1, g2, g3, g4, g5, g6, g7]) = r
  match r with
  | none => simp [joinColon]
  | some (b, l) =>
    simp only
    split <;> simp

/-! ### hex of the leading group -/

theorem hex16_hi (g : Nat) (h : 4096 ≤ g) :
    hex16 g = [hexChar (g / 4096 % 16), hexChar (g / 256 % 16), hexChar (g / 16 % 16), hexChar (g % 16)] := by
  unfold hex16
  rw [if_neg (by omega), if_neg (by omega), if_neg (by omega)]

theorem hexChar_vals : hexChar 15 = 'f' ∧ hexChar 14 = 'e' ∧ hexChar 13 = 'd' ∧ hexChar 12 = 'c' ∧ hexChar 11 = 'b' ∧
    hexChar 10 = 'a' ∧ hexChar 9 = '9' ∧ hexChar 8 = '8' := by decide

end EphVerif.C34L
