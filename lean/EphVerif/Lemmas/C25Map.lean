/-
Helper lemmas for C25/C26: association lists and the primitive state updates of the relay model,
all phrased through the lookups `State.get` (sessions_) and `State.reg` (registered_).
-/
import EphVerif.Model.Relay

namespace EphVerif.Relay

section maps
variable {κ α : Type} [BEq κ] [LawfulBEq κ] [DecidableEq κ]
set_option linter.unusedSectionVars false

theorem mget_nil (k : κ) : mget ([] : List (κ × α)) k = none := rfl

theorem mget_cons (m : List (κ × α)) (k k' : κ) (v : α) :
    mget ((k, v) :: m) k' = if k' = k then some v else mget m k' := by
  unfold mget
  rw [List.lookup_cons]
  by_cases h : k' = k
  · subst h; simp
  · have : (k' == k) = false := by simpa using h
    simp [this, h]

theorem mget_merase (m : List (κ × α)) (k k' : κ) :
    mget (merase m k) k' = if k' = k then none else mget m k' := by
  induction m with
  | nil => simp [merase, mget]
  | cons p m ih =>
    obtain ⟨pk, pv⟩ := p
    unfold merase at ih ⊢
    rw [List.filter_cons]
    by_cases hp : pk = k
    · subst hp
      simp only [beq_self_eq_true, Bool.not_true, Bool.false_eq_true, if_false]
      rw [ih, mget_cons]
      by_cases h : k' = pk <;> simp [h]
    · have : (pk == k) = false := by simpa using hp
      simp only [this, Bool.not_false, if_true]
      rw [mget_cons, mget_cons, ih]
      by_cases h : k' = k
      · subst h
        have : ¬ k' = pk := fun e => hp e.symm
        simp [this]
      · simp [h]

theorem mget_mset (m : List (κ × α)) (k k' : κ) (v : α) :
    mget (mset m k v) k' = if k' = k then some v else mget m k' := by
  unfold mset
  rw [mget_cons, mget_merase]
  by_cases h : k' = k <;> simp [h]

theorem eq_nil_of_mget_none (m : List (κ × α)) (h : ∀ k, mget m k = none) : m = [] := by
  cases m with
  | nil => rfl
  | cons p m =>
    obtain ⟨pk, pv⟩ := p
    have := h pk
    rw [mget_cons] at this
    simp at this

theorem mem_keys_of_mget (m : List (κ × α)) (k : κ) (v : α) (h : mget m k = some v) : (k, v) ∈ m := by
  induction m with
  | nil => simp [mget] at h
  | cons p m ih =>
    obtain ⟨pk, pv⟩ := p
    rw [mget_cons] at h
    by_cases e : k = pk
    · subst e; simp at h; subst h; simp
    · simp [e] at h; exact List.mem_cons_of_mem _ (ih h)

theorem mget_isSome_of_mem (m : List (κ × α)) (k : κ) (v : α) (h : (k, v) ∈ m) : (mget m k).isSome := by
  induction m with
  | nil => simp at h
  | cons p m ih =>
    obtain ⟨pk, pv⟩ := p
    rw [mget_cons]
    by_cases e : k = pk
    · simp [e]
    · simp only [e, if_false]
      apply ih
      simpa [e] using h

end maps

/-! ### primitive updates seen through `get` / `reg` -/

@[simp] theorem get_put (σ : State) (c c' : Client) (s : Session) :
    (σ.put c s).get c' = if c' = c then some s else σ.get c' := mget_mset _ _ _ _
@[simp] theorem get_drop (σ : State) (c c' : Client) :
    (σ.drop c).get c' = if c' = c then none else σ.get c' := mget_merase _ _ _
@[simp] theorem get_emit (σ : State) (o : Out) (c : Client) : (σ.emit o).get c = σ.get c := rfl
@[simp] theorem get_setReg (σ : State) (k : Bytes) (c c' : Client) : (σ.setReg k c).get c' = σ.get c' := rfl
@[simp] theorem get_eraseReg (σ : State) (k : Bytes) (c' : Client) : (σ.eraseReg k).get c' = σ.get c' := rfl

@[simp] theorem reg_put (σ : State) (c : Client) (s : Session) (k : Bytes) : (σ.put c s).reg k = σ.reg k := rfl
@[simp] theorem reg_drop (σ : State) (c : Client) (k : Bytes) : (σ.drop c).reg k = σ.reg k := rfl
@[simp] theorem reg_emit (σ : State) (o : Out) (k : Bytes) : (σ.emit o).reg k = σ.reg k := rfl
@[simp] theorem reg_setReg (σ : State) (k k' : Bytes) (c : Client) :
    (σ.setReg k c).reg k' = if k' = k then some c else σ.reg k' := mget_mset _ _ _ _
@[simp] theorem reg_eraseReg (σ : State) (k k' : Bytes) :
    (σ.eraseReg k).reg k' = if k' = k then none else σ.reg k' := mget_merase _ _ _

@[simp] theorem used_put (σ : State) (c : Client) (s : Session) : (σ.put c s).used = σ.used := rfl
@[simp] theorem used_drop (σ : State) (c : Client) : (σ.drop c).used = σ.used := rfl
@[simp] theorem used_emit (σ : State) (o : Out) : (σ.emit o).used = σ.used := rfl
@[simp] theorem used_setReg (σ : State) (k : Bytes) (c : Client) : (σ.setReg k c).used = σ.used := rfl
@[simp] theorem used_eraseReg (σ : State) (k : Bytes) : (σ.eraseReg k).used = σ.used := rfl

@[simp] theorem hung_put (σ : State) (c : Client) (s : Session) : (σ.put c s).hung = σ.hung := rfl
@[simp] theorem hung_drop (σ : State) (c : Client) : (σ.drop c).hung = σ.hung := rfl
@[simp] theorem hung_emit (σ : State) (o : Out) : (σ.emit o).hung = σ.hung := rfl
@[simp] theorem hung_setReg (σ : State) (k : Bytes) (c : Client) : (σ.setReg k c).hung = σ.hung := rfl
@[simp] theorem hung_eraseReg (σ : State) (k : Bytes) : (σ.eraseReg k).hung = σ.hung := rfl

@[simp] theorem out_put (σ : State) (c : Client) (s : Session) : (σ.put c s).out = σ.out := rfl
@[simp] theorem out_drop (σ : State) (c : Client) : (σ.drop c).out = σ.out := rfl
@[simp] theorem out_emit (σ : State) (o : Out) : (σ.emit o).out = o :: σ.out := rfl
@[simp] theorem out_setReg (σ : State) (k : Bytes) (c : Client) : (σ.setReg k c).out = σ.out := rfl
@[simp] theorem out_eraseReg (σ : State) (k : Bytes) : (σ.eraseReg k).out = σ.out := rfl

theorem sessions_eq_nil (σ : State) (h : ∀ c, σ.get c = none) : σ.sessions = [] := eq_nil_of_mget_none _ h
theorem registered_eq_nil (σ : State) (h : ∀ k, σ.reg k = none) : σ.registered = [] := eq_nil_of_mget_none _ h

@[simp] theorem get_init (c : Client) : init.get c = none := rfl
@[simp] theorem reg_init (k : Bytes) : init.reg k = none := rfl

end EphVerif.Relay
