/-
The client's header loop run over what `send_response` emits for one field, for the
PAYLOAD-LENGTH entry, for the STATUS line and for a whole field list (C29).
-/
import EphVerif.Lemmas.C29Esc

namespace EphVerif.Control

/-- what the proofs need of a key the daemon emits; every key over `[A-Z_-]+` other than STATUS and
    PAYLOAD-LENGTH qualifies (`keyOk_of_class`) -/
structure KeyOk (k : Bytes) : Prop where
  clean : ∀ c ∈ k, c ≠ 58 ∧ c ≠ 10 ∧ c ≠ 13
  noTab : k.head? ≠ some 9
  upper : toUpper k = k
  notStatus : k ≠ ascii "STATUS"
  notPL : k ≠ ascii "PAYLOAD-LENGTH"

/-- every physical line of the field is within the client's line limit -/
def LinesOk (M : Nat) (k v : Bytes) : Prop := ∀ l ∈ splitBy 10 (k ++ 58 :: encodeValue v) [], l.length ≤ M

theorem seg_decomp : ∀ (v : Bytes), NoLF v ∨ ∃ s v', v = s ++ 10 :: v' ∧ NoLF s
  | [] => Or.inl (by intro c hc; simp at hc)
  | c :: v => by
    by_cases hc : c = 10
    · subst hc; exact Or.inr ⟨[], v, by simp, by intro c hc; simp at hc⟩
    · rcases seg_decomp v with h | ⟨s, v', hv, hs⟩
      · left; intro d hd
        rcases List.mem_cons.mp hd with rfl | hd
        · exact hc
        · exact h d hd
      · right; refine ⟨c :: s, v', by simp [hv], ?_⟩
        intro d hd
        rcases List.mem_cons.mp hd with rfl | hd
        · exact hc
        · exact hs d hd

theorem appendToField_twice (fs : Fields) (k a b : Bytes) :
    appendToField (appendToField fs k a) k b = appendToField fs k (a ++ b) := by
  unfold appendToField
  rw [List.map_map]
  apply List.map_congr_left
  intro p _
  by_cases h : p.1 = k
  · simp [h]
  · simp [h]

theorem appendToField_setField (fs : Fields) (k s e : Bytes) :
    appendToField (setField fs k s) k e = setField fs k (s ++ e) := by
  unfold setField
  by_cases h : hasKey fs k = true
  · simp only [h, ↓reduceIte]
    unfold appendToField
    rw [List.map_map]
    apply List.map_congr_left
    intro p _
    by_cases hp : p.1 = k
    · simp [hp]
    · simp [hp]
  · have h' : hasKey fs k = false := by simpa using h
    simp only [h', Bool.false_eq_true, ↓reduceIte]
    exact appendToField_setField_fresh (hasKey_false_iff.mp h')

/-- a continuation line: TAB, then one escaped piece of the value -/
theorem cont_line (M : Nat) (s rest k : Bytes) (st : ClientState) (hs : NoLF s) (hc : st.cont = some k)
    (hlen : (9 :: escSeg s).length ≤ M) :
    lineLoop M clientLine ((9 :: escSeg s) ++ 10 :: rest) [] 0 st =
      lineLoop M clientLine rest [] 0 { st with fields := appendToField st.fields k (10 :: s) } := by
  have hclean : ∀ c ∈ (9 :: escSeg s), c ≠ 10 ∧ c ≠ 13 := by
    intro c hc'
    rcases List.mem_cons.mp hc' with rfl | h
    · decide
    · exact escSeg_clean hs c h
  have hstrip : stripCR (9 :: escSeg s) = 9 :: escSeg s := stripCR_id (fun c h => (hclean c h).2)
  rw [lineLoop_line M clientLine (9 :: escSeg s) rest st (fun c h => (hclean c h).1) (by rw [hstrip]; exact hlen), hstrip]
  simp only [List.isEmpty_cons, Bool.false_eq_true, ↓reduceIte]
  unfold clientLine
  simp [hc, decodeValue_escSeg]

theorem cont_lines_aux (M : Nat) (rest k : Bytes) : ∀ (n : Nat) (v : Bytes) (st : ClientState), v.length ≤ n →
    st.cont = some k → (∀ l ∈ splitBy 10 (9 :: encodeValue v) [], l.length ≤ M) →
    lineLoop M clientLine (9 :: encodeValue v ++ 10 :: rest) [] 0 st =
      lineLoop M clientLine rest [] 0 { st with fields := appendToField st.fields k (10 :: v) } := by
  intro n
  induction n with
  | zero =>
    intro v st hn hc hlen
    have hv : v = [] := List.eq_nil_of_length_eq_zero (by omega)
    subst hv
    have := cont_line M [] rest k st (by intro c h; simp at h) hc (by simpa [escSeg, encodeValue, splitBy] using hlen)
    simpa [escSeg, encodeValue] using this
  | succ n ih =>
    intro v st hn hc hlen
    rcases seg_decomp v with hv | ⟨s, v', hv, hs⟩
    · rw [encodeValue_noLF hv] at hlen ⊢
      have hclean : ∀ c ∈ (9 :: escSeg v), c ≠ 10 := by
        intro c hc'
        rcases List.mem_cons.mp hc' with rfl | h
        · decide
        · exact (escSeg_clean hv c h).1
      rw [splitBy_noSep 10 _ [] hclean] at hlen
      have := cont_line M v rest k st hv hc (hlen _ (by simp))
      simpa using this
    · subst hv
      rw [encodeValue_append_lf s v' hs] at hlen ⊢
      have hclean : ∀ c ∈ (9 :: escSeg s), c ≠ 10 := by
        intro c hc'
        rcases List.mem_cons.mp hc' with rfl | h
        · decide
        · exact (escSeg_clean hs c h).1
      have hsplit : splitBy 10 (9 :: (escSeg s ++ 10 :: 9 :: encodeValue v')) [] =
          (9 :: escSeg s) :: splitBy 10 (9 :: encodeValue v') [] := by
        have := splitBy_append 10 (9 :: escSeg s) (9 :: encodeValue v') [] hclean
        simpa using this
      rw [hsplit] at hlen
      have h1 := cont_line M s (9 :: encodeValue v' ++ 10 :: rest) k st hs hc (hlen _ (by simp))
      have hshape : 9 :: (escSeg s ++ 10 :: 9 :: encodeValue v') ++ 10 :: rest =
          (9 :: escSeg s) ++ 10 :: (9 :: encodeValue v' ++ 10 :: rest) := by simp
      rw [hshape, h1]
      have hlen' : v'.length ≤ n := by
        simp only [List.length_append, List.length_cons] at hn; omega
      have h2 := ih v' { st with fields := appendToField st.fields k (10 :: s) } hlen' hc
        (fun l hl => hlen l (by simp [hl]))
      rw [h2]
      simp only [appendToField_twice]
      rfl

/-- all continuation lines of a value -/
theorem cont_lines (M : Nat) (v rest k : Bytes) (st : ClientState) (hc : st.cont = some k)
    (hlen : ∀ l ∈ splitBy 10 (9 :: encodeValue v) [], l.length ≤ M) :
    lineLoop M clientLine (9 :: encodeValue v ++ 10 :: rest) [] 0 st =
      lineLoop M clientLine rest [] 0 { st with fields := appendToField st.fields k (10 :: v) } :=
  cont_lines_aux M rest k v.length v st (Nat.le_refl _) hc hlen

/-- what `clientLine` does with the first line `key:escaped piece` of a field -/
theorem clientLine_first (k s : Bytes) (st : ClientState) (hk : KeyOk k) :
    clientLine st (k ++ 58 :: escSeg s) = .next { st with fields := setField st.fields k s, cont := some k } := by
  have hhead : (k ++ 58 :: escSeg s).head? ≠ some 9 := by
    cases hk' : k with
    | nil => simp
    | cons a t => have := hk.noTab; rw [hk'] at this; simpa using this
  unfold clientLine
  simp only [hhead, ↓reduceIte]
  rw [splitColon_append k _ (fun c hc => (hk.clean c hc).1)]
  simp only [hk.upper, decodeValue_escSeg, hk.notStatus, hk.notPL, ↓reduceIte]

/-- **one field**: the client reads `key:value` with all its continuation lines back into `fields[key] = value` -/
theorem field_lines (M : Nat) (k v rest : Bytes) (st : ClientState) (hk : KeyOk k) (hl : LinesOk M k v) :
    lineLoop M clientLine (fieldLine (k, v) ++ rest) [] 0 st =
      lineLoop M clientLine rest [] 0 { st with fields := setField st.fields k v, cont := some k } := by
  unfold LinesOk at hl
  have hshape : fieldLine (k, v) ++ rest = (k ++ 58 :: encodeValue v) ++ 10 :: rest := by simp [fieldLine]
  rw [hshape]
  rcases seg_decomp v with hv | ⟨s, v', hv, hs⟩
  · rw [encodeValue_noLF hv] at hl ⊢
    have hclean : ∀ c ∈ (k ++ 58 :: escSeg v), c ≠ 10 ∧ c ≠ 13 := by
      intro c hc
      rcases List.mem_append.mp hc with h | h
      · exact ⟨(hk.clean c h).2.1, (hk.clean c h).2.2⟩
      · rcases List.mem_cons.mp h with rfl | h
        · decide
        · exact escSeg_clean hv c h
    rw [splitBy_noSep 10 _ [] (fun c h => (hclean c h).1)] at hl
    have hstrip : stripCR (k ++ 58 :: escSeg v) = k ++ 58 :: escSeg v := stripCR_id (fun c h => (hclean c h).2)
    rw [lineLoop_line M clientLine _ rest st (fun c h => (hclean c h).1) (by rw [hstrip]; exact hl _ (by simp)), hstrip]
    have hne : (k ++ 58 :: escSeg v).isEmpty = false := by cases k <;> simp
    simp only [hne, Bool.false_eq_true, ↓reduceIte, clientLine_first k v st hk]
  · subst hv
    rw [encodeValue_append_lf s v' hs] at hl ⊢
    have hclean : ∀ c ∈ (k ++ 58 :: escSeg s), c ≠ 10 ∧ c ≠ 13 := by
      intro c hc
      rcases List.mem_append.mp hc with h | h
      · exact ⟨(hk.clean c h).2.1, (hk.clean c h).2.2⟩
      · rcases List.mem_cons.mp h with rfl | h
        · decide
        · exact escSeg_clean hs c h
    have hsplit : splitBy 10 (k ++ 58 :: (escSeg s ++ 10 :: 9 :: encodeValue v')) [] =
        (k ++ 58 :: escSeg s) :: splitBy 10 (9 :: encodeValue v') [] := by
      have := splitBy_append 10 (k ++ 58 :: escSeg s) (9 :: encodeValue v') [] (fun c h => (hclean c h).1)
      simpa using this
    rw [hsplit] at hl
    have hshape2 : (k ++ 58 :: (escSeg s ++ 10 :: 9 :: encodeValue v')) ++ 10 :: rest =
        (k ++ 58 :: escSeg s) ++ 10 :: (9 :: encodeValue v' ++ 10 :: rest) := by simp
    have hstrip : stripCR (k ++ 58 :: escSeg s) = k ++ 58 :: escSeg s := stripCR_id (fun c h => (hclean c h).2)
    rw [hshape2, lineLoop_line M clientLine _ _ st (fun c h => (hclean c h).1) (by rw [hstrip]; exact hl _ (by simp)), hstrip]
    have hne : (k ++ 58 :: escSeg s).isEmpty = false := by cases k <;> simp
    simp only [hne, Bool.false_eq_true, ↓reduceIte, clientLine_first k s st hk]
    rw [cont_lines M v' rest k _ rfl (fun l h => hl l (by simp [h]))]
    simp only [appendToField_setField]

/-! ## the PAYLOAD-LENGTH entry -/

theorem escSeg_id {s : Bytes} (h : ∀ c ∈ s, c ≠ 92 ∧ c ≠ 13) : escSeg s = s := by
  induction s with
  | nil => rfl
  | cons c s ih =>
    have hc := h c (by simp)
    have : escSeg (c :: s) = escByte c ++ escSeg s := by simp [escSeg]
    rw [this, ih (fun x hx => h x (by simp [hx]))]
    simp [escByte, hc.1, hc.2]

theorem toDec_length_le : ∀ (k n : Nat), n < 10 ^ k → (toDec n).length ≤ max k 1
  | 0, n, h => by
    have : n = 0 := by simpa using h
    subst this; rw [toDec]; simp
  | k + 1, n, h => by
    rw [toDec]
    split
    · simp
    · rename_i hn
      have : n / 10 < 10 ^ k := by
        rw [Nat.pow_succ] at h
        exact Nat.div_lt_of_lt_mul (by omega)
      have ih := toDec_length_le k (n / 10) this
      simp only [List.length_append, List.length_cons, List.length_nil]
      have hk : k ≥ 1 := by
        cases k with
        | zero => simp at this; omega
        | succ k => omega
      omega

theorem pl_line (M n : Nat) (rest : Bytes) (st : ClientState) (hn : n < 18446744073709551616) (hM : 35 ≤ M) :
    lineLoop M clientLine (fieldLine (ascii "PAYLOAD-LENGTH", toDec n) ++ rest) [] 0 st =
      lineLoop M clientLine rest [] 0
        { st with fields := setField st.fields (ascii "PAYLOAD-LENGTH") (toDec n), payloadLength := some n, cont := none } := by
  have hd : ∀ c ∈ toDec n, c ≠ 10 ∧ c ≠ 13 ∧ c ≠ 92 ∧ c ≠ 58 ∧ c ≠ 9 ∧ c ≠ 44 := fun c hc => isDigit_ne (toDec_digits n c hc)
  have henc : encodeValue (toDec n) = toDec n := by
    rw [encodeValue_noLF (fun c hc => (hd c hc).1), escSeg_id (fun c hc => ⟨(hd c hc).2.2.1, (hd c hc).2.1⟩)]
  have hshape : fieldLine (ascii "PAYLOAD-LENGTH", toDec n) ++ rest = (ascii "PAYLOAD-LENGTH" ++ 58 :: toDec n) ++ 10 :: rest := by
    simp [fieldLine, henc]
  have hclean : ∀ c ∈ (ascii "PAYLOAD-LENGTH" ++ 58 :: toDec n), c ≠ 10 ∧ c ≠ 13 := by
    intro c hc
    have hkey : ∀ c ∈ ascii "PAYLOAD-LENGTH", c ≠ 10 ∧ c ≠ 13 := by decide
    rcases List.mem_append.mp hc with h | h
    · exact hkey c h
    · rcases List.mem_cons.mp h with rfl | h
      · decide
      · exact ⟨(hd c h).1, (hd c h).2.1⟩
  have hlen20 : (toDec n).length ≤ 20 := by
    have := toDec_length_le 20 n (by omega)
    simpa using this
  have hstrip := stripCR_id (fun c h => (hclean c h).2)
  rw [hshape, lineLoop_line M clientLine _ rest st (fun c h => (hclean c h).1)
    (by rw [hstrip]; simp only [List.length_append, List.length_cons]; have : (ascii "PAYLOAD-LENGTH").length = 14 := by decide
        omega), hstrip]
  have hpl : ascii "PAYLOAD-LENGTH" = [80, 65, 89, 76, 79, 65, 68, 45, 76, 69, 78, 71, 84, 72] := by decide
  have hne : (ascii "PAYLOAD-LENGTH" ++ 58 :: toDec n).isEmpty = false := by rw [hpl]; rfl
  have hhead : (ascii "PAYLOAD-LENGTH" ++ 58 :: toDec n).head? ≠ some 9 := by rw [hpl]; simp
  simp only [hne, Bool.false_eq_true, ↓reduceIte]
  unfold clientLine
  simp only [hhead, ↓reduceIte]
  rw [splitColon_append _ _ (by decide)]
  have hup : toUpper (ascii "PAYLOAD-LENGTH") = ascii "PAYLOAD-LENGTH" := by decide
  have hns : ascii "PAYLOAD-LENGTH" ≠ ascii "STATUS" := by decide
  simp only [hup, hns, ↓reduceIte, decodeValue_id (toDec n) (fun c hc => (hd c hc).2.2.1), parseU64_toDec n hn]

/-! ## a whole field list -/

/-- an entry of the emitted list: an ordinary field, or the PAYLOAD-LENGTH entry `send_response` adds -/
def EntryOk (M : Nat) (e : Bytes × Bytes) : Prop :=
  (KeyOk e.1 ∧ LinesOk M e.1 e.2) ∨ (∃ n, n < 18446744073709551616 ∧ e = (ascii "PAYLOAD-LENGTH", toDec n))

/-- the PAYLOAD-LENGTH the client ends up with -/
def nextPL (P : Option Nat) (e : Bytes × Bytes) : Option Nat :=
  if e.1 = ascii "PAYLOAD-LENGTH" then parseU64 e.2 else P

theorem fields_loop (M : Nat) (hM : 35 ≤ M) : ∀ (emitted : Fields) (payload : Bytes) (st : ClientState),
    (∀ e ∈ emitted, EntryOk M e) →
    ∃ c, lineLoop M clientLine (emitted.flatMap fieldLine ++ 10 :: payload) [] 0 st =
      ({ st with fields := emitted.foldl (fun fs e => setField fs e.1 e.2) st.fields,
                 payloadLength := emitted.foldl nextPL st.payloadLength, cont := c }, .blank, payload)
  | [], payload, st, _ => ⟨st.cont, by simp [lineLoop]⟩
  | e :: emitted, payload, st, h => by
    have he := h e (by simp)
    have hrest : ∀ e' ∈ emitted, EntryOk M e' := fun e' he' => h e' (by simp [he'])
    have hshape : (e :: emitted).flatMap fieldLine ++ 10 :: payload =
        fieldLine e ++ (emitted.flatMap fieldLine ++ 10 :: payload) := by simp
    rw [hshape]
    rcases he with ⟨hk, hl⟩ | ⟨n, hn, hpl⟩
    · obtain ⟨k, v⟩ := e
      rw [field_lines M k v _ st hk hl]
      obtain ⟨c, hc⟩ := fields_loop M hM emitted payload { st with fields := setField st.fields k v, cont := some k } hrest
      refine ⟨c, ?_⟩
      rw [hc]
      simp only [List.foldl_cons, nextPL, hk.notPL, ↓reduceIte]
    · subst hpl
      rw [pl_line M n _ st hn hM]
      obtain ⟨c, hc⟩ := fields_loop M hM emitted payload
        { st with fields := setField st.fields (ascii "PAYLOAD-LENGTH") (toDec n), payloadLength := some n, cont := none } hrest
      refine ⟨c, ?_⟩
      rw [hc]
      simp only [List.foldl_cons, nextPL, ↓reduceIte, parseU64_toDec n hn]

end EphVerif.Control
