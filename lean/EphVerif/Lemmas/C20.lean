import EphVerif.Model.Handshake

/-! Helper lemmas for C20: the invariant "a success record / a registered key was validated" and its
preservation by every operation of the handshake model. -/
set_option linter.unusedSimpArgs false

namespace EphVerif.C20
open EphVerif.Handshake

/-- what the node remembers about one peer was validated -/
def InvP (env : Env) (p : String) (ps : PeerSt) : Prop :=
  (∀ r, ps.hrec = some r → r.success = true →
      keyValid r.pub = true ∧ env.powValid p r.pub r.nonce = true ∧ ps.sess ≠ none)
  ∧ (∀ k, ps.sess = some k → keyValid k = true ∧ ∃ n, env.powValid p k n = true)
  ∧ (∀ k, ps.smKey = some k → keyValid k = true ∧ ∃ n, env.powValid p k n = true)

def Inv (env : Env) (s : State) : Prop := ∀ p, InvP env p (s.peers p)

theorem inv_init (env : Env) (t0 : Int) : Inv env (init t0) := by
  intro p
  simp [init, InvP]

theorem setPeer_same (s : State) (p : String) (ps : PeerSt) : (setPeer s p ps).peers p = ps := by
  simp [setPeer]

theorem setPeer_other (s : State) (p q : String) (ps : PeerSt) (h : q ≠ p) :
    (setPeer s p ps).peers q = s.peers q := by
  simp [setPeer, h]

theorem inv_setPeer {env : Env} {s : State} (hi : Inv env s) {p : String} {ps : PeerSt}
    (h : InvP env p ps) : Inv env (setPeer s p ps) := by
  intro q
  by_cases hq : q = p
  · subst hq; rw [setPeer_same]; exact h
  · rw [setPeer_other _ _ _ _ hq]; exact hi q

/-- a failed attempt: new failure record, lower reputation, keys as before -/
theorem invP_fail {env : Env} {p : String} {ps : PeerSt} (h : InvP env p ps) (r : Rec) (hr : r.success = false)
    (rep : Int) : InvP env p { ps with hrec := some r, rep := rep } := by
  refine ⟨?_, h.2.1, h.2.2⟩
  intro r' hr' hs
  simp only [Option.some.injEq] at hr'
  subst hr'
  rw [hr] at hs
  exact absurd hs (by simp)

theorem invP_rep {env : Env} {p : String} {ps : PeerSt} (h : InvP env p ps) (rep : Int) :
    InvP env p { ps with rep := rep } := h

/-- the four exits of `perform_handshake` -/
theorem perform_cases (env : Env) (s : State) (p : String) (pub nonce : Nat) :
    (shortcut env s.now (s.peers p) pub nonce = true ∧ perform env s p pub nonce = (s, true)) ∨
    (shortcut env s.now (s.peers p) pub nonce = false ∧ keyValid pub = false ∧
      perform env s p pub nonce =
        (setPeer s p { s.peers p with hrec := some ⟨s.now, pub, nonce, false⟩, rep := repFailure (s.peers p).rep }, false)) ∨
    (shortcut env s.now (s.peers p) pub nonce = false ∧ keyValid pub = true ∧ env.powValid p pub nonce = false ∧
      perform env s p pub nonce =
        (setPeer s p { s.peers p with hrec := some ⟨s.now, pub, nonce, false⟩,
                                      rep := repFailure (repFailure (s.peers p).rep) }, false)) ∨
    (shortcut env s.now (s.peers p) pub nonce = false ∧ keyValid pub = true ∧ env.powValid p pub nonce = true ∧
      perform env s p pub nonce =
        (setPeer s p { s.peers p with hrec := some ⟨s.now, pub, nonce, true⟩, sess := some pub, smKey := some pub,
                                      rep := repSuccess (s.peers p).rep }, true)) := by
  unfold perform
  cases hsc : shortcut env s.now (s.peers p) pub nonce
  · cases hk : keyValid pub
    · right; left; simp [hsc, hk]
    · cases hp : env.powValid p pub nonce
      · right; right; left; simp [hsc, hk, hp]
      · right; right; right; simp [hsc, hk, hp]
  · left; simp [hsc]

/-- the cooldown short-circuit only fires on the validated record, which comes with a key -/
theorem shortcut_valid {env : Env} {s : State} (hi : Inv env s) {p : String} {pub nonce : Nat}
    (h : shortcut env s.now (s.peers p) pub nonce = true) :
    keyValid pub = true ∧ env.powValid p pub nonce = true ∧ (s.peers p).sess ≠ none := by
  unfold shortcut at h
  split at h
  · rename_i r hr
    simp only [Bool.and_eq_true, beq_iff_eq] at h
    obtain ⟨⟨⟨hs, _⟩, hp⟩, hn⟩ := h
    have := (hi p).1 r hr hs
    rw [hp, hn] at this
    exact this
  · exact absurd h (by simp)

theorem perform_true {env : Env} {s : State} (hi : Inv env s) {p : String} {pub nonce : Nat}
    (h : (perform env s p pub nonce).2 = true) :
    keyValid pub = true ∧ env.powValid p pub nonce = true ∧ ((perform env s p pub nonce).1.peers p).sess ≠ none := by
  rcases perform_cases env s p pub nonce with ⟨hsc, he⟩ | ⟨_, _, he⟩ | ⟨_, _, _, he⟩ | ⟨_, hk, hp, he⟩
  · rw [he]; exact shortcut_valid hi hsc
  · rw [he] at h; exact absurd h (by simp)
  · rw [he] at h; exact absurd h (by simp)
  · rw [he]; exact ⟨hk, hp, by simp [setPeer]⟩

theorem perform_inv {env : Env} {s : State} (hi : Inv env s) (p : String) (pub nonce : Nat) :
    Inv env (perform env s p pub nonce).1 := by
  rcases perform_cases env s p pub nonce with ⟨_, he⟩ | ⟨_, _, he⟩ | ⟨_, _, _, he⟩ | ⟨_, hk, hp, he⟩
  · rw [he]; exact hi
  · rw [he]; exact inv_setPeer hi (invP_fail (hi p) _ rfl _)
  · rw [he]; exact inv_setPeer hi (invP_fail (hi p) _ rfl _)
  · rw [he]
    apply inv_setPeer hi
    refine ⟨?_, ?_, ?_⟩
    · intro r hr _
      simp only [Option.some.injEq] at hr
      subst hr
      exact ⟨hk, hp, by simp⟩
    · intro k hk'
      simp only [Option.some.injEq] at hk'
      subst hk'
      exact ⟨hk, nonce, hp⟩
    · intro k hk'
      simp only [Option.some.injEq] at hk'
      subst hk'
      exact ⟨hk, nonce, hp⟩

/-- what a refusal may do: nothing to any key or session, nothing to other peers, and the claimed
    peer's score goes through one or two failure steps -/
def Refused (s s' : State) (p : String) : Prop :=
  (∀ q, (s'.peers q).sess = (s.peers q).sess ∧ (s'.peers q).smKey = (s.peers q).smKey ∧
        (s'.peers q).conn = (s.peers q).conn) ∧
  (∀ q, q ≠ p → s'.peers q = s.peers q) ∧
  ((s'.peers p).rep = repFailure (s.peers p).rep ∨
   (s'.peers p).rep = repFailure (repFailure (s.peers p).rep))

theorem refused_setPeer (s : State) (p : String) (r : Option Rec) (rep : Int)
    (h : rep = repFailure (s.peers p).rep ∨ rep = repFailure (repFailure (s.peers p).rep)) :
    Refused s (setPeer s p { s.peers p with hrec := r, rep := rep }) p := by
  refine ⟨?_, ?_, ?_⟩
  · intro q
    by_cases hq : q = p
    · subst hq; simp [setPeer]
    · simp [setPeer, hq]
  · intro q hq; simp [setPeer, hq]
  · simpa [setPeer] using h

theorem perform_false {env : Env} {s : State} {p : String} {pub nonce : Nat}
    (h : (perform env s p pub nonce).2 = false) : Refused s (perform env s p pub nonce).1 p := by
  rcases perform_cases env s p pub nonce with ⟨_, he⟩ | ⟨_, _, he⟩ | ⟨_, _, _, he⟩ | ⟨_, _, _, he⟩
  · rw [he] at h; exact absurd h (by simp)
  · rw [he]; exact refused_setPeer s p _ _ (Or.inl rfl)
  · rw [he]; exact refused_setPeer s p _ _ (Or.inr rfl)
  · rw [he] at h; exact absurd h (by simp)

/-- the exits of `handle_transport_handshake` -/
theorem transport_cases (env : Env) (s : State) (p : String) (pub nonce : Nat) :
    (keyValid pub = false ∧
      transport env s p pub nonce = (setPeer s p { s.peers p with rep := repFailure (s.peers p).rep }, none)) ∨
    (keyValid pub = true ∧ (perform env s p pub nonce).2 = false ∧
      transport env s p pub nonce = ((perform env s p pub nonce).1, none)) ∨
    (keyValid pub = true ∧ (perform env s p pub nonce).2 = true ∧
      transport env s p pub nonce = ((perform env s p pub nonce).1, ((perform env s p pub nonce).1.peers p).sess)) := by
  unfold transport
  cases hk : keyValid pub
  · left; simp [hk]
  · cases hr : (perform env s p pub nonce).2
    · right; left; simp [hk, hr]
    · right; right
      simp only [hk, hr, Bool.not_true, Bool.false_eq_true, ↓reduceIte, true_and]
      split <;> simp_all

theorem transport_some {env : Env} {s : State} (hi : Inv env s) {p : String} {pub nonce : Nat}
    (h : (transport env s p pub nonce).2.isSome = true) :
    keyValid pub = true ∧ env.powValid p pub nonce = true := by
  rcases transport_cases env s p pub nonce with ⟨_, he⟩ | ⟨_, _, he⟩ | ⟨_, hr, _⟩
  · rw [he] at h; exact absurd h (by simp)
  · rw [he] at h; exact absurd h (by simp)
  · exact ⟨(perform_true hi hr).1, (perform_true hi hr).2.1⟩

theorem transport_inv {env : Env} {s : State} (hi : Inv env s) (p : String) (pub nonce : Nat) :
    Inv env (transport env s p pub nonce).1 := by
  rcases transport_cases env s p pub nonce with ⟨_, he⟩ | ⟨_, _, he⟩ | ⟨_, _, he⟩
  · rw [he]; exact inv_setPeer hi (invP_rep (hi p) _)
  · rw [he]; exact perform_inv hi p pub nonce
  · rw [he]; exact perform_inv hi p pub nonce

theorem transport_none {env : Env} {s : State} (hi : Inv env s) {p : String} {pub nonce : Nat}
    (h : (transport env s p pub nonce).2 = none) : Refused s (transport env s p pub nonce).1 p := by
  rcases transport_cases env s p pub nonce with ⟨_, he⟩ | ⟨_, hr, he⟩ | ⟨_, hr, he⟩
  · rw [he]; exact refused_setPeer s p _ _ (Or.inl rfl)
  · rw [he]; exact perform_false hr
  · rw [he] at h
    exact absurd h (perform_true hi hr).2.2

/-- an accepting transport handshake hands out the key registered for the claimed peer -/
theorem transport_key {env : Env} {s : State} {p : String} {pub nonce k : Nat}
    (h : (transport env s p pub nonce).2 = some k) :
    ((transport env s p pub nonce).1.peers p).sess = some k := by
  rcases transport_cases env s p pub nonce with ⟨_, he⟩ | ⟨_, _, he⟩ | ⟨_, _, he⟩
  · rw [he] at h; exact absurd h (by simp)
  · rw [he] at h; exact absurd h (by simp)
  · rw [he] at h ⊢; exact h

/-- the session layer's inbound path -/
theorem pending_cases (env : Env) (s : State) (p : String) (pub nonce : Nat) :
    ((transport env s p pub nonce).2 = none ∧ pending env s p pub nonce = ((transport env s p pub nonce).1, none)) ∨
    (∃ k, (transport env s p pub nonce).2 = some k ∧
      pending env s p pub nonce =
        (setPeer (transport env s p pub nonce).1 p
          { (transport env s p pub nonce).1.peers p with smKey := some k, conn := true }, some k)) := by
  unfold pending
  cases h : (transport env s p pub nonce).2
  · left; simp [h]
  · right; exact ⟨_, rfl, by simp [h]⟩

theorem pending_some {env : Env} {s : State} (hi : Inv env s) {p : String} {pub nonce : Nat}
    (h : (pending env s p pub nonce).2.isSome = true) :
    keyValid pub = true ∧ env.powValid p pub nonce = true := by
  rcases pending_cases env s p pub nonce with ⟨_, he⟩ | ⟨k, hk, _⟩
  · rw [he] at h; exact absurd h (by simp)
  · exact transport_some hi (by rw [hk]; rfl)

theorem pending_inv {env : Env} {s : State} (hi : Inv env s) (p : String) (pub nonce : Nat) :
    Inv env (pending env s p pub nonce).1 := by
  have ht := transport_inv hi p pub nonce
  rcases pending_cases env s p pub nonce with ⟨_, he⟩ | ⟨k, hk, he⟩
  · rw [he]; exact ht
  · rw [he]
    apply inv_setPeer ht
    have hp := ht p
    have hsess := transport_key hk
    refine ⟨hp.1, hp.2.1, ?_⟩
    intro k' hk'
    simp only [Option.some.injEq] at hk'
    subst hk'
    exact hp.2.1 k hsess

theorem pending_none {env : Env} {s : State} (hi : Inv env s) {p : String} {pub nonce : Nat}
    (h : (pending env s p pub nonce).2 = none) : Refused s (pending env s p pub nonce).1 p := by
  rcases pending_cases env s p pub nonce with ⟨hn, he⟩ | ⟨k, _, he⟩
  · rw [he]; exact transport_none hi hn
  · rw [he] at h; exact absurd h (by simp)

/-- every kind of inbound handshake -/
theorem handshake_true {env : Env} {s : State} (hi : Inv env s) {k : Kind} {p : String} {pub nonce : Nat}
    (h : (handshake env s k p pub nonce).2 = true) :
    keyValid pub = true ∧ env.powValid p pub nonce = true := by
  cases k
  · exact ⟨(perform_true hi h).1, (perform_true hi h).2.1⟩
  · exact transport_some hi h
  · exact pending_some hi h

theorem handshake_inv {env : Env} {s : State} (hi : Inv env s) (k : Kind) (p : String) (pub nonce : Nat) :
    Inv env (handshake env s k p pub nonce).1 := by
  cases k
  · exact perform_inv hi p pub nonce
  · exact transport_inv hi p pub nonce
  · exact pending_inv hi p pub nonce

theorem handshake_false {env : Env} {s : State} (hi : Inv env s) {k : Kind} {p : String} {pub nonce : Nat}
    (h : (handshake env s k p pub nonce).2 = false) : Refused s (handshake env s k p pub nonce).1 p := by
  cases k
  · exact perform_false h
  · apply transport_none hi
    simpa [handshake] using h
  · apply pending_none hi
    simpa [handshake] using h

theorem step_inv {env : Env} {s : State} (hi : Inv env s) (op : Op) : Inv env (step env s op).1 := by
  cases op with
  | adv d => exact hi
  | hs k p pub nonce => exact handshake_inv hi k p pub nonce
  | drop p => exact inv_setPeer hi (hi p)

/-- states reachable by a history, with the log they produced -/
theorem run_inv {env : Env} (ops : List Op) : ∀ (s : State) (log : List Ev), Inv env s →
    (∀ e ∈ log, e.accepted = true → keyValid e.pub = true ∧ env.powValid e.peer e.pub e.nonce = true) →
    Inv env (run env (s, log) ops).1 ∧
    (∀ e ∈ (run env (s, log) ops).2, e.accepted = true →
        keyValid e.pub = true ∧ env.powValid e.peer e.pub e.nonce = true) := by
  induction ops with
  | nil => intro s log hi hl; exact ⟨hi, hl⟩
  | cons op rest ih =>
    intro s log hi hl
    simp only [run]
    apply ih _ _ (step_inv hi op)
    intro e he
    rw [List.mem_append] at he
    rcases he with he | he
    · exact hl e he
    · cases op with
      | adv d => simp [step] at he
      | drop p => simp [step] at he
      | hs k p pub nonce =>
        simp only [step, List.mem_singleton] at he
        subst he
        intro hacc
        exact handshake_true hi hacc

theorem repFailure_le (x : Int) : repFailure x ≤ max x (-100) := by
  unfold repFailure Gen.C20.repFailurePenalty Gen.C20.repMinScore
  omega

theorem repFailure_lt {x : Int} (h : -100 < x) : repFailure x < x := by
  unfold repFailure Gen.C20.repFailurePenalty Gen.C20.repMinScore
  omega

theorem repFailure_ge (x : Int) : -100 ≤ repFailure x := by
  unfold repFailure Gen.C20.repFailurePenalty Gen.C20.repMinScore
  omega

end EphVerif.C20
