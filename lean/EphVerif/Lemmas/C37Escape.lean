/-
Lemmas about `escape` (model of escape_control_characters) against the RFC 8259 decoder.
-/
import EphVerif.Model.LogEscape
import EphVerif.Lemmas.C37C38JsonString

namespace EphVerif.C37L
open EphVerif.LogEscape EphVerif.JsonSpec

theorem hex4_upper : ∀ ch, ch < 0x20 →
    hex4 0x30 0x30 (hexUpper (ch / 16)) (hexUpper (ch % 16)) = some ch := by decide

theorem hexUpper_ge : ∀ n, n < 16 → 0x30 ≤ hexUpper n ∧ hexUpper n < 0x5C ∧ hexUpper n ≠ 0x22 := by decide

/-- what each escaped byte looks like to the decoder -/
theorem decodeStr_escapeByte (ch : Nat) (t : List Nat) :
    decodeStr true (escapeByte ch ++ t) = prepend (some [ch]) (decodeStr true t) := by
  unfold escapeByte
  split
  · subst_vars; exact decodeStr_simple true _ _ t (by decide)
  split
  · subst_vars; exact decodeStr_simple true _ _ t (by decide)
  split
  · subst_vars; exact decodeStr_simple true _ _ t (by decide)
  split
  · subst_vars; exact decodeStr_simple true _ _ t (by decide)
  split
  · subst_vars; exact decodeStr_simple true _ _ t (by decide)
  split
  · subst_vars; exact decodeStr_simple true _ _ t (by decide)
  split
  · subst_vars; exact decodeStr_simple true _ _ t (by decide)
  split
  · next h =>
    have hh : isHighSurrogate ch = false := by simp [isHighSurrogate]; omega
    have hl : isLowSurrogate ch = false := by simp [isLowSurrogate]; omega
    have := decodeStr_bmp true 0x30 0x30 (hexUpper (ch / 16)) (hexUpper (ch % 16)) ch t (hex4_upper ch h) hh hl
    simp only [List.cons_append, List.nil_append]
    rw [this]
    have : utf8Encode ch = some [ch] := by simp [utf8Encode]; omega
    rw [this]
  · next h1 h2 _ _ _ _ _ h8 =>
    exact decodeStr_plain true ch t h1 h2 (fun _ => by omega)

/-- `unescape ∘ escape = id`, in the streaming form the record proof needs -/
theorem decodeStr_escape (s rest : List Nat) :
    decodeStr true (escape s ++ 0x22 :: rest) = some (s, rest) := by
  induction s with
  | nil => exact decodeStr_quote true rest
  | cons ch tl ih =>
    simp only [escape, List.append_assoc]
    rw [decodeStr_escapeByte, ih]
    rfl

theorem escapeByte_noControl (ch : Nat) : ∀ b ∈ escapeByte ch, 0x20 ≤ b := by
  unfold escapeByte
  repeat' split
  all_goals try (intro b hb; simp at hb; omega)
  · intro b hb
    have h1 := hexUpper_ge (ch / 16) (by omega)
    have h2 := hexUpper_ge (ch % 16) (by omega)
    simp at hb
    omega

theorem escape_noControl (s : List Nat) : ∀ b ∈ escape s, 0x20 ≤ b := by
  induction s with
  | nil => intro b hb; simp [escape] at hb
  | cons ch tl ih =>
    intro b hb
    simp only [escape, List.mem_append] at hb
    cases hb with
    | inl h => exact escapeByte_noControl ch b h
    | inr h => exact ih b h

theorem bareFree_escapeByte (ch : Nat) (t : List Nat) : bareFree (escapeByte ch ++ t) = bareFree t := by
  unfold escapeByte
  repeat' split
  all_goals try (simp only [List.cons_append, List.nil_append]; exact bareFree_escape _ _)
  · have h1 := hexUpper_ge (ch / 16) (by omega)
    have h2 := hexUpper_ge (ch % 16) (by omega)
    simp only [List.cons_append, List.nil_append]
    rw [bareFree_escape, bareFree_cons_plain _ _ (by decide) (by decide), bareFree_cons_plain _ _ (by decide) (by decide),
      bareFree_cons_plain _ _ (by omega) (by omega), bareFree_cons_plain _ _ (by omega) (by omega)]
  · simp only [List.cons_append, List.nil_append]
    exact bareFree_cons_plain _ _ (by assumption) (by assumption)

theorem bareFree_escape_all (s : List Nat) : bareFree (escape s) = true := by
  induction s with
  | nil => rfl
  | cons ch tl ih => simp only [escape]; rw [bareFree_escapeByte]; exact ih

end EphVerif.C37L
