/-
C06 helper lemmas, part 2: how each model operation acts on `holdersOf`, the simulation
relation `R` between the model's locator table and the abstract directory, and its
preservation by every operation (for every hint).
-/
import EphVerif.Lemmas.C06Cut

namespace EphVerif.C06L
open EphVerif.Providers EphVerif.C06Spec List

/-! ### the operations seen through `holdersOf` -/

theorem holdersOf_set (t : Table) (c k : String) (v : Option Loc) :
    holdersOf (t.set c v) k = if k = c then (match v with | some l => l.holders | none => []) else holdersOf t k := by
  unfold holdersOf Table.set
  by_cases h : k = c
  · simp only [h, if_true]; cases v <;> rfl
  · simp only [h, if_false]

theorem find_snd (t : Table) (now : Int) (c : String) :
    (findProviders t now c).2 = (holdersOf t c).filter (liveAt now) := by
  unfold findProviders holdersOf
  cases h : t c with
  | none => simp
  | some l =>
    simp only [filter_not_expired]
    split
    · rename_i he; simp only [isEmpty_iff] at he; simp [he]
    · rfl

theorem find_fst_holders (t : Table) (now : Int) (c k : String) :
    holdersOf (findProviders t now c).1 k =
      if k = c then (holdersOf t c).filter (liveAt now) else holdersOf t k := by
  unfold findProviders
  cases h : t c with
  | none =>
    by_cases hk : k = c
    · subst hk; simp [holdersOf, h]
    · simp [hk]
  | some l =>
    simp only [filter_not_expired]
    split
    · rename_i he; simp only [isEmpty_iff] at he
      rw [holdersOf_set]; simp [holdersOf, h, he]
    · rw [holdersOf_set]; simp [holdersOf, h]

theorem withdraw_holders (t : Table) (c p k : String) :
    holdersOf (Providers.withdraw t c p) k =
      if k = c then (holdersOf t c).filter (fun h => h.peer != p) else holdersOf t k := by
  unfold Providers.withdraw
  cases h : t c with
  | none =>
    by_cases hk : k = c
    · subst hk; simp [holdersOf, h]
    · simp [hk]
  | some l =>
    simp only []
    split
    · rename_i he; simp only [isEmpty_iff] at he
      rw [holdersOf_set]; simp [holdersOf, h, he]
    · rw [holdersOf_set]; simp [holdersOf, h]

/-- the holder list `add_contact` leaves for the chunk -/
def addKept (old : List Ann) (p : String) (e : Int) (hint : Option (List String)) : List Ann :=
  if (addBase old p e).length > maxProviders then cut maxProviders (addBase old p e) hint else addBase old p e

theorem add_holders (t : Table) (now : Int) (c p : String) (ttl : Int) (hint : Option (List String)) (k : String) :
    holdersOf (addContact t now c p ttl hint) k =
      if k = c then addKept (holdersOf t c) p (now + ttl) hint else holdersOf t k := by
  unfold addContact
  simp only [holdersOf_set, addKept]

/-! ### per-locator invariant -/

/-- unique peers, at most 20 holders, and the locator outlives each of its holders -/
def LocOK (l : Loc) : Prop :=
  PeerDistinct l.holders ∧ l.holders.length ≤ 20 ∧ ∀ h ∈ l.holders, h.exp ≤ l.exp

def TableOK (t : Table) : Prop := ∀ c l, t c = some l → LocOK l

theorem LocOK.filter {l : Loc} (h : LocOK l) (p : Ann → Bool) : LocOK { l with holders := l.holders.filter p } := by
  refine ⟨h.1.filter p, Nat.le_trans (length_filter_le p _) h.2.1, ?_⟩
  intro x hx
  exact h.2.2 x (mem_filter.mp hx).1

theorem TableOK.set {t : Table} (h : TableOK t) (c : String) (v : Option Loc)
    (hv : ∀ l, v = some l → LocOK l) : TableOK (t.set c v) := by
  intro k l hk
  unfold Table.set at hk
  by_cases hkc : k = c
  · simp [hkc] at hk; exact hv l hk
  · simp [hkc] at hk; exact h k l hk

theorem TableOK.distinct {t : Table} (h : TableOK t) (c : String) : PeerDistinct (holdersOf t c) := by
  unfold holdersOf
  cases hc : t c with
  | none => exact Pairwise.nil
  | some l => exact (h c l hc).1

theorem TableOK.length {t : Table} (h : TableOK t) (c : String) : (holdersOf t c).length ≤ 20 := by
  unfold holdersOf
  cases hc : t c with
  | none => simp
  | some l => exact (h c l hc).2.1

theorem find_ok {t : Table} (h : TableOK t) (now : Int) (c : String) : TableOK (findProviders t now c).1 := by
  unfold findProviders
  cases hc : t c with
  | none => exact h
  | some l =>
    simp only []
    split
    · exact h.set c none (by simp)
    · refine h.set c _ ?_
      intro l' hl'
      cases hl'
      exact (h c l hc).filter _

theorem withdraw_ok {t : Table} (h : TableOK t) (c p : String) : TableOK (Providers.withdraw t c p) := by
  unfold Providers.withdraw
  cases hc : t c with
  | none => exact h
  | some l =>
    simp only []
    split
    · exact h.set c none (by simp)
    · refine h.set c _ ?_
      intro l' hl'
      cases hl'
      exact (h c l hc).filter _

theorem sweep_ok {t : Table} (h : TableOK t) (now : Int) : TableOK (sweep t now) := by
  intro c l hl
  have hs : sweep t now c = (match t c with
    | none => none
    | some l =>
      let hs := l.holders.filter (fun h => !expired now h)
      if hs.isEmpty || decide (now ≥ l.exp) then none else some { l with holders := hs }) := rfl
  rw [hs] at hl
  cases hc : t c with
  | none => simp [hc] at hl
  | some l0 =>
    simp only [hc] at hl
    split at hl
    · cases hl
    · cases hl
      exact (h c l0 hc).filter _

/-- **a sweep removes exactly the expired holders**: for every chunk, what is left is the list of
    unexpired holders in their old order — no holder goes before its own expiry, whatever the
    other holders of the chunk announced.  (This needs the locator to outlive its holders:
    the `now ≥ locator.expires_at` disjunct can then only fire when all holders are expired.) -/
theorem sweep_holders {t : Table} (h : TableOK t) (now : Int) (c : String) :
    holdersOf (sweep t now) c = (holdersOf t c).filter (liveAt now) := by
  have hs : sweep t now c = (match t c with
    | none => none
    | some l =>
      let hs := l.holders.filter (fun h => !expired now h)
      if hs.isEmpty || decide (now ≥ l.exp) then none else some { l with holders := hs }) := rfl
  unfold holdersOf
  rw [hs]
  cases hc : t c with
  | none => simp
  | some l =>
    simp only [filter_not_expired]
    by_cases hcond : ((filter (liveAt now) l.holders).isEmpty || decide (now ≥ l.exp)) = true
    · simp only [hcond, if_true]
      simp only [Bool.or_eq_true, isEmpty_iff, decide_eq_true_eq] at hcond
      symm
      rcases hcond with he | hexp
      · exact he
      · apply filter_eq_nil_iff.mpr
        intro x hx
        have := (h c l hc).2.2 x hx
        simp only [liveAt, decide_eq_true_eq]
        omega
    · simp only [hcond]; rfl

/-- a lookup right after a sweep returns literally the same list as without the sweep -/
theorem sweep_find_same {t : Table} (h : TableOK t) (now : Int) (c : String) :
    (findProviders (sweep t now) now c).2 = (findProviders t now c).2 := by
  rw [find_snd, find_snd, sweep_holders h, filter_filter]
  simp only [Bool.and_self]

theorem addBase_distinct {old : List Ann} (h : PeerDistinct old) (p : String) (e : Int) :
    PeerDistinct (addBase old p e) := by
  unfold addBase
  refine pairwise_append.mpr ⟨h.filter _, pairwise_singleton _ _, ?_⟩
  intro a ha b hb
  simp only [mem_singleton] at hb
  subst hb
  simpa using (mem_filter.mp ha).2

theorem addBase_length (old : List Ann) (p : String) (e : Int) :
    (addBase old p e).length ≤ old.length + 1 := by
  unfold addBase
  simp only [length_append, length_singleton]
  exact Nat.add_le_add_right (length_filter_le _ _) 1

theorem maxProviders_eq : maxProviders = 20 := by decide

/-- what `add_contact` keeps: a valid cut of the pre-truncation list (for every hint) -/
theorem addKept_cases (old : List Ann) (p : String) (e : Int) (hint : Option (List String)) :
    ((addBase old p e).length ≤ 20 ∧ addKept old p e hint = addBase old p e) ∨
    ((addBase old p e).length > 20 ∧ ∃ dropped, CutOK 20 (addBase old p e) (addKept old p e hint) dropped) := by
  unfold addKept
  rw [maxProviders_eq]
  by_cases h : (addBase old p e).length > 20
  · right
    refine ⟨h, ?_⟩
    simp only [h, if_true]
    exact cut_ok 20 _ hint (by omega)
  · left
    simp only [h, if_false]
    exact ⟨by omega, trivial⟩

theorem addKept_distinct {old : List Ann} (h : PeerDistinct old) (p : String) (e : Int) (hint : Option (List String)) :
    PeerDistinct (addKept old p e hint) := by
  rcases addKept_cases old p e hint with ⟨_, heq⟩ | ⟨_, d, hc⟩
  · rw [heq]; exact addBase_distinct h p e
  · exact (pairwise_append.mp (hc.distinct (addBase_distinct h p e))).1

theorem addKept_length (old : List Ann) (p : String) (e : Int) (hint : Option (List String)) :
    (addKept old p e hint).length ≤ 20 := by
  rcases addKept_cases old p e hint with ⟨hl, heq⟩ | ⟨_, d, hc⟩
  · rw [heq]; exact hl
  · rw [hc.len]; exact Nat.le_refl _

theorem add_ok {t : Table} (h : TableOK t) (now : Int) (c p : String) (ttl : Int) (hint : Option (List String)) :
    TableOK (addContact t now c p ttl hint) := by
  unfold addContact
  refine h.set c _ ?_
  intro l hl
  cases hl
  refine ⟨?_, ?_, ?_⟩
  · exact addKept_distinct (h.distinct c) p _ hint
  · exact addKept_length _ p _ hint
  · exact maxExp_mem _ _

/-! ### the simulation relation -/

/-- the model table `t` represents the abstract directory `s` at time `now`: every locator is
    well-formed and, per chunk, the unexpired holders are the unexpired announcements -/
structure R (now : Int) (t : Table) (s : S) : Prop where
  ok : TableOK t
  sim : ∀ c, (holdersOf t c).filter (liveAt now) ~ (s c).filter (liveAt now)

theorem filter_live_mono {now now' : Int} (h : now ≤ now') (l : List Ann) :
    (l.filter (liveAt now)).filter (liveAt now') = l.filter (liveAt now') := by
  rw [filter_filter]
  apply filter_congr
  intro x _
  simp only [liveAt]
  by_cases h1 : now' < x.exp
  · have : now < x.exp := by omega
    simp [h1, this]
  · simp [h1]

theorem R_init (now : Int) : R now Table.empty C06Spec.empty :=
  ⟨fun c l h => by simp [Table.empty] at h, fun c => by simp [holdersOf, Table.empty, C06Spec.empty]⟩

theorem R_adv {now : Int} {t : Table} {s : S} (h : R now t s) (d : Nat) : R (now + d) t s := by
  refine ⟨h.ok, fun c => ?_⟩
  have hle : now ≤ now + (d : Int) := by omega
  rw [← filter_live_mono hle (holdersOf t c), ← filter_live_mono hle (s c)]
  exact (h.sim c).filter _

theorem R_find {now : Int} {t : Table} {s : S} (h : R now t s) (c : String) :
    R now (findProviders t now c).1 s := by
  refine ⟨find_ok h.ok now c, fun k => ?_⟩
  rw [find_fst_holders]
  by_cases hk : k = c
  · subst hk
    simp only [if_true, filter_filter, Bool.and_self]
    exact h.sim k
  · simp only [hk, if_false]; exact h.sim k

theorem R_sweep {now : Int} {t : Table} {s : S} (h : R now t s) : R now (sweep t now) s := by
  refine ⟨sweep_ok h.ok now, fun k => ?_⟩
  rw [sweep_holders h.ok]
  simp only [filter_filter, Bool.and_self]
  exact h.sim k

theorem R_withdraw {now : Int} {t : Table} {s : S} (h : R now t s) (c p : String) :
    R now (Providers.withdraw t c p) (C06Spec.withdraw s c p) := by
  refine ⟨withdraw_ok h.ok c p, fun k => ?_⟩
  rw [withdraw_holders]
  unfold C06Spec.withdraw C06Spec.set
  by_cases hk : k = c
  · subst hk
    simp only [if_true]
    rw [filter_filter, filter_filter]
    have := (h.sim k).filter (fun a => a.peer != p)
    rw [filter_filter, filter_filter] at this
    simpa [Bool.and_comm] using this
  · simp only [hk, if_false]; exact h.sim k

end EphVerif.C06L
