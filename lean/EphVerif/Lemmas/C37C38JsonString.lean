/-
Unfolding lemmas for the RFC 8259 string decoder of Spec/JsonString.lean, one per production of
the `char` grammar.  Shared by the C37 and C38 proofs.
-/
import EphVerif.Spec.JsonString

namespace EphVerif.JsonSpec

theorem prepend_some (p : List Nat) (r : Option (List Nat × List Nat)) :
    prepend (some p) r = r.map fun x => (p ++ x.1, x.2) := by
  cases r with
  | none => rfl
  | some x => cases x; rfl

theorem prepend_eq_some {pre : Option (List Nat)} {r : Option (List Nat × List Nat)} {out rest : List Nat}
    (h : prepend pre r = some (out, rest)) :
    ∃ p s, pre = some p ∧ r = some (s, rest) ∧ out = p ++ s := by
  cases pre with
  | none => simp [prepend] at h
  | some p =>
    cases r with
    | none => simp [prepend] at h
    | some x =>
      obtain ⟨s, rest'⟩ := x
      simp only [prepend, Option.some.injEq, Prod.mk.injEq] at h
      exact ⟨p, s, rfl, by rw [h.2], h.1.symm⟩

theorem decodeStr_nil (strict : Bool) : decodeStr strict [] = none := by
  rw [decodeStr.eq_def]

/-- closing quotation mark -/
theorem decodeStr_quote (strict : Bool) (rest : List Nat) : decodeStr strict (0x22 :: rest) = some ([], rest) := by
  rw [decodeStr.eq_def]; simp

/-- `unescaped` -/
theorem decodeStr_plain (strict : Bool) (b : Nat) (rest : List Nat) (h1 : b ≠ 0x22) (h2 : b ≠ 0x5C)
    (h3 : strict = true → 0x20 ≤ b) :
    decodeStr strict (b :: rest) = prepend (some [b]) (decodeStr strict rest) := by
  rw [decodeStr.eq_def]
  have : ¬ ((strict && decide (b < 32)) = true) := by
    cases strict with
    | false => simp
    | true => have := h3 rfl; simp; omega
  simp [h1, h2, this]

/-- two-character escapes -/
theorem decodeStr_simple (strict : Bool) (e v : Nat) (rest : List Nat) (h : simpleEscape e = some v) :
    decodeStr strict (0x5C :: e :: rest) = prepend (some [v]) (decodeStr strict rest) := by
  have hu : e ≠ 0x75 := by
    intro he; subst he; simp [simpleEscape] at h
  rw [decodeStr.eq_def]
  simp [hu, h]

/-- `\uXXXX` for a scalar value of the BMP -/
theorem decodeStr_bmp (strict : Bool) (h1 h2 h3 h4 u : Nat) (rest : List Nat)
    (hx : hex4 h1 h2 h3 h4 = some u) (hh : isHighSurrogate u = false) (hl : isLowSurrogate u = false) :
    decodeStr strict (0x5C :: 0x75 :: h1 :: h2 :: h3 :: h4 :: rest) = prepend (utf8Encode u) (decodeStr strict rest) := by
  rw [decodeStr.eq_def]
  simp [hx, hh, hl]

/-- a surrogate pair -/
theorem decodeStr_pair (strict : Bool) (h1 h2 h3 h4 l1 l2 l3 l4 u lo : Nat) (rest : List Nat)
    (hx : hex4 h1 h2 h3 h4 = some u) (hh : isHighSurrogate u = true)
    (lx : hex4 l1 l2 l3 l4 = some lo) (ll : isLowSurrogate lo = true) :
    decodeStr strict (0x5C :: 0x75 :: h1 :: h2 :: h3 :: h4 :: 0x5C :: 0x75 :: l1 :: l2 :: l3 :: l4 :: rest) =
      prepend (utf8Encode (combineSurrogates u lo)) (decodeStr strict rest) := by
  rw [decodeStr.eq_def]
  simp [hx, hh, lx, ll]

theorem bareFree_cons_plain (b : Nat) (rest : List Nat) (h1 : b ≠ 0x22) (h2 : b ≠ 0x5C) :
    bareFree (b :: rest) = bareFree rest := by
  rw [bareFree.eq_def]; simp [h1, h2]

theorem bareFree_escape (e : Nat) (rest : List Nat) : bareFree (0x5C :: e :: rest) = bareFree rest := by
  rw [bareFree.eq_def]; simp

end EphVerif.JsonSpec
