/-
SystemControl — bridges between the control-plane model (C27/C28/C29: `Model/Control.lean`,
`Model/ControlWire.lean`) and the models of C19 (store proof of work, `Model/Pow.lean`) and C02
(`Model/Ttl.lean`, the STORE TTL window generated from the source), and the CLI `store` request.

Nothing of the imported properties is re-proved here: this file only states how their records line
up (C19's `StoreFields` is the `work` record of `storeAdmitted`; C02's `control_store_ttl` /
`control_store_ttl_rejected` are `secondsOfU64` / `ttlOutOfRange`).
-/
import EphVerif.Proofs.C27
import EphVerif.Proofs.C28
import EphVerif.Proofs.C29
import EphVerif.Proofs.C19
import EphVerif.Proofs.C02

namespace EphVerif.System.Control
open EphVerif EphVerif.Control

/-! ## C02 ⇄ C28: the TTL header -/

/-- C28's `secondsOfU64` is C02's generated `control_store_ttl` on every `uint64` -/
theorem secondsOfU64_eq (n : Nat) (h : n < 18446744073709551616) : secondsOfU64 n = Gen.C02.control_store_ttl n := by
  unfold secondsOfU64 Gen.C02.control_store_ttl Gen.C02.toInt64
  rw [Nat.mod_eq_of_lt h]
  split <;> simp

/-- C28's `ttlOutOfRange` is C02's generated `control_store_ttl_rejected` -/
theorem ttlOutOfRange_eq (cfg : Config) (ttl : Int) :
    ttlOutOfRange cfg ttl = Gen.C02.control_store_ttl_rejected ttl cfg.minTtl cfg.maxTtl := by
  unfold ttlOutOfRange Gen.C02.control_store_ttl_rejected cmpGt
  have h1 : Gen.C28.ttlLowStrict = 1 := by decide
  have h2 : Gen.C28.ttlHighStrict = 1 := by decide
  simp only [h1, h2, ↓reduceIte]
  by_cases a : ttl < cfg.minTtl <;> by_cases b : ttl > cfg.maxTtl <;> simp [a, b]

/-- the daemon's configuration as C02 sees it -/
def agreesWith (cfg : Config) (c : Gen.C02.Cfg) : Prop :=
  cfg.minTtl = (Ttl.effective c).min_manifest_ttl ∧ cfg.maxTtl = (Ttl.effective c).max_manifest_ttl ∧
    cfg.defaultTtl = (Ttl.effective c).default_chunk_ttl

/-- the TTL decision of `handle_store` on a header value `n` is C02's `controlStore` -/
theorem ttl_decision_eq (cfg : Config) (c : Gen.C02.Cfg) (hc : agreesWith cfg c) (n : Nat) (h : n < 18446744073709551616) :
    (if ttlOutOfRange cfg (secondsOfU64 n) then none else some (secondsOfU64 n)) = Ttl.controlStore c n := by
  unfold Ttl.controlStore
  simp only [ttlOutOfRange_eq, secondsOfU64_eq n h, hc.1, hc.2.1]

/-- **C02.control carried into the handler**: a TTL header the daemon admits lies, as a number, inside
    the window (the int64 reinterpretation cannot smuggle 2^63… in) -/
theorem admitted_header_in_window (cfg : Config) (c : Gen.C02.Cfg) (hc : agreesWith cfg c) (n : Nat) (h : n < 18446744073709551616)
    (hadm : ttlOutOfRange cfg (secondsOfU64 n) = false) :
    cfg.minTtl ≤ (n : Int) ∧ (n : Int) ≤ cfg.maxTtl := by
  have hd := ttl_decision_eq cfg c hc n h
  rw [hadm] at hd
  simp only [Bool.false_eq_true, ↓reduceIte] at hd
  have := C02.control c n (by simpa using h) _ hd.symm
  rw [hc.1, hc.2.1]; exact this

/-- conversely a header inside a window of `int64` bounds is admitted, with the TTL it names -/
theorem header_in_window_admitted (cfg : Config) (n : Nat) (hlo : cfg.minTtl ≤ (n : Int)) (hhi : (n : Int) ≤ cfg.maxTtl)
    (hmax : cfg.maxTtl < 9223372036854775808) :
    secondsOfU64 n = (n : Int) ∧ ttlOutOfRange cfg (n : Int) = false := by
  have hn : n < 9223372036854775808 := by omega
  refine ⟨by simp [secondsOfU64, hn], ?_⟩
  rw [ttlOutOfRange_eq]
  unfold Gen.C02.control_store_ttl_rejected
  simp only [decide_eq_false_iff_not, not_or]
  omega

/-! ## C19 ⇄ C28: the store proof of work -/

/-- the difficulty the CLI solves for: STORE_POW as reported by DEFAULTS, capped at 24 -/
def cliDifficulty (daemon : Nat) : Nat := Pow.capTo Gen.C19.kMaxStorePowDifficulty daemon

/-- a nonce valid at the capped difficulty is valid at the configured one (the validator caps itself) -/
theorem storePowValid_capped (sha : Bytes → Bytes) (s : Pow.StoreFields) (n d : Nat)
    (h : Pow.storePowValid sha s n (cliDifficulty d) = true) : Pow.storePowValid sha s n d = true := by
  unfold Pow.storePowValid at h ⊢
  by_cases h0 : d = 0
  · simp [h0]
  · have hk : Gen.C19.kMaxStorePowDifficulty = 24 := by decide
    have hc : cliDifficulty d ≠ 0 := by
      unfold cliDifficulty Pow.capTo; rw [hk]; split <;> omega
    simp only [beq_iff_eq, hc, ↓reduceIte] at h
    simp only [beq_iff_eq, h0, ↓reduceIte]
    unfold cliDifficulty at h
    rw [C19L.capTo_idem] at h
    exact h

/-! ## the CLI's STORE request -/

/-- what `eph store <path> [--ttl n]` sends (src/main.cpp, `command == "store"`) -/
structure CliStore where
  /-- `input_path.string()`: any bytes -/
  path : Bytes
  /-- the file's content -/
  payload : Bytes
  /-- `--ttl` in seconds, if given -/
  ttl : Option Nat
  /-- `--control-token`, if given -/
  token : Option Bytes

/-- the `StoreWorkInput` the CLI hands to `compute_store_pow` -/
def cliWork (sha : Bytes → Bytes) (c : CliStore) : Pow.StoreFields :=
  { chunkId := sha c.payload, payloadSize := c.payload.length, filenameHint := (Pow.cliHint c.path).getD [] }

/-- the request as `parse_request` hands it to the handlers, described by its lookups (so: for every
    order in which the client's `unordered_map` emits PATH / TTL / STORE-POW) -/
structure IsCliStore (c : CliStore) (nonce : Nat) (req : Request) : Prop where
  command : getField req.fields (ascii "COMMAND") = some (ascii "STORE")
  token : getField req.fields (ascii "TOKEN") = c.token
  /-- the PATH value as received: what the line reader makes of the CR/LF-stripped path -/
  path : getField req.fields (ascii "PATH") = some (Pow.wireValue (Pow.cliWirePath c.path))
  ttl : getField req.fields (ascii "TTL") = c.ttl.map toDec
  pow : getField req.fields (ascii "STORE-POW") = some (toDec nonce)
  header : req.payloadHeaderPresent = true
  payload : req.payload = c.payload

/-- a header that is only sent when the option is given -/
def optField (k : Bytes) : Option Bytes → Fields
  | some v => [(k, v)]
  | none => []

/-- one concrete emission order -/
def cliStoreRequest (c : CliStore) (nonce : Nat) : Request :=
  { fields := [(ascii "COMMAND", ascii "STORE")] ++ optField (ascii "TOKEN") c.token ++
      [(ascii "PATH", Pow.wireValue (Pow.cliWirePath c.path))] ++ optField (ascii "TTL") (c.ttl.map toDec) ++
      [(ascii "STORE-POW", toDec nonce), (ascii "PAYLOAD-LENGTH", toDec c.payload.length)],
    payload := c.payload, payloadHeaderPresent := true }

theorem getField_cons (k v key : Bytes) (fs : Fields) :
    getField ((k, v) :: fs) key = if k = key then some v else getField fs key := by
  unfold getField
  by_cases h : k = key
  · simp [h]
  · have : (k == key) = false := by simpa using h
    simp [this, h]

theorem getField_nil (key : Bytes) : getField [] key = none := rfl

set_option linter.unusedSimpArgs false in
theorem cliStoreRequest_spec (c : CliStore) (nonce : Nat) : IsCliStore c nonce (cliStoreRequest c nonce) := by
  have k : [ascii "COMMAND", ascii "TOKEN", ascii "PATH", ascii "TTL", ascii "STORE-POW", ascii "PAYLOAD-LENGTH"].Pairwise (· ≠ ·) := by
    decide
  simp only [List.pairwise_cons, List.mem_cons, List.mem_nil_iff, or_false, forall_eq_or_imp, forall_eq] at k
  obtain ⟨⟨c1, c2, c3, c4, c5⟩, ⟨t2, t3, t4, t5⟩, ⟨p3, p4, p5⟩, ⟨l4, l5⟩, s5, _⟩ := k
  cases ht : c.token <;> cases hl : c.ttl <;>
    (constructor <;>
      simp [cliStoreRequest, optField, ht, hl, getField_cons, getField_nil, c1, c2, c3, c4, c5, t2, t3, t4, t5, p3, p4, p5, l4, l5, s5,
        Ne.symm c1, Ne.symm c2, Ne.symm c3, Ne.symm c4, Ne.symm t2, Ne.symm t3, Ne.symm t4, Ne.symm p3, Ne.symm p4, Ne.symm l4,
        Ne.symm c5, Ne.symm t5, Ne.symm p5, Ne.symm l5, Ne.symm s5])

/-- the TTL choice is one the daemon's window admits -/
def TtlOk (cfg : Config) : Option Nat → Prop
  | some n => cfg.minTtl ≤ (n : Int) ∧ (n : Int) ≤ cfg.maxTtl
  | none => cfg.minTtl ≤ cfg.defaultTtl ∧ cfg.defaultTtl ≤ cfg.maxTtl

def ttlOf (cfg : Config) : Option Nat → Int
  | some n => n
  | none => cfg.defaultTtl

section
variable {ν : Type} (sha : Bytes → Bytes) (ops : NodeOps ν) (cfg : Config)

/-- the daemon's state after an admitted STORE -/
def afterStore (now : Int) (addr : Bytes) (st : ServerState ν) (payload : Bytes) (ttl : Int) (hint : Option Bytes) : ServerState ν :=
  { st with
    storeHist := setHist st.storeHist (rateIdentity cfg addr) (allowStore now (st.storeHist (rateIdentity cfg addr))).2,
    powFailures := setHist st.powFailures (rateIdentity cfg addr) [],
    node := ops.store st.node payload ttl hint }

/-- the token gate lets the configured token through (C27's `token_compare_exact`) -/
theorem checkToken_passes (fields : Fields) (h : getField fields (ascii "TOKEN") = cfg.token) : checkToken cfg fields = .ok := by
  unfold checkToken checkToken.getLast
  cases ht : cfg.token with
  | none => rfl
  | some t =>
    rw [ht] at h
    simp only [h, (C27.token_compare_exact t t).mpr rfl, ↓reduceIte]

theorem requestTtl_cli (c : CliStore) (nonce : Nat) (req : Request) (hr : IsCliStore c nonce req)
    (httl : TtlOk cfg c.ttl) (hmax : cfg.maxTtl < 9223372036854775808) :
    requestTtl cfg req = some (ttlOf cfg c.ttl) ∧ ttlOutOfRange cfg (ttlOf cfg c.ttl) = false := by
  unfold requestTtl
  rw [hr.ttl]
  cases hc : c.ttl with
  | none =>
    rw [hc] at httl
    refine ⟨rfl, ?_⟩
    rw [ttlOutOfRange_eq]
    unfold Gen.C02.control_store_ttl_rejected ttlOf
    simp only [decide_eq_false_iff_not, not_or]
    have := httl.1; have := httl.2
    omega
  | some n =>
    rw [hc] at httl
    have hn : n < 18446744073709551616 := by have := httl.2; omega
    have h := header_in_window_admitted cfg n httl.1 httl.2 hmax
    simp only [Option.map_some, parseU64_toDec n hn, ttlOf, h.1]
    exact ⟨trivial, h.2⟩

/-- **the CLI-built STORE is admitted** (parsed-request level) -/
theorem cli_store_admitted {σ : Type} (now : Int) (addr : Bytes) (st : ServerState ν) (c : CliStore) (req : Request)
    (init : Nat → σ) (next : σ → Nat × σ) (maxAttempts nonce : Nat)
    (hr : IsCliStore c nonce req)
    (htok : c.token = cfg.token)
    (hcap : c.payload.length ≤ cfg.cap)
    (httl : TtlOk cfg c.ttl) (hmax : cfg.maxTtl < 9223372036854775808)
    (hsolve : Pow.computeStorePow sha init next (cliWork sha c) (cliDifficulty cfg.powDifficulty) maxAttempts = some nonce)
    (hn64 : nonce < 18446744073709551616)
    (hrate : (allowStore now (st.storeHist (rateIdentity cfg addr))).1 = true) :
    handleRequest sha ops cfg now addr st req =
      (afterStore ops cfg now addr st c.payload (ttlOf cfg c.ttl) (Pow.cliHint c.path),
       { success := true, code := "OK_STORE", stored := some (c.payload, ttlOf cfg c.ttl, Pow.cliHint c.path) }) := by
  have hgate : checkToken cfg req.fields = .ok := checkToken_passes cfg req.fields (by rw [hr.token, htok])
  have httl' := requestTtl_cli cfg c nonce req hr httl hmax
  -- C19: the daemon derives the hint the CLI hashed, and accepts the solver's nonce
  have hhint : (getField req.fields (ascii "PATH")).bind Pow.sanitizeFilenameHint = Pow.cliHint c.path := by
    rw [hr.path]
    exact C19.cli_daemon_hint_agree c.path
  have hvalid : Pow.storePowValid sha (cliWork sha c) nonce cfg.powDifficulty = true :=
    storePowValid_capped sha _ _ _ (C19.solver_store sha init next _ _ _ _ hsolve)
  have n1 : ascii "STORE" ≠ ascii "STOP" := by decide
  have hup : toUpper (ascii "STORE") = ascii "STORE" := by decide
  unfold handleRequest
  simp only [hr.command, hup, n1, ↓reduceIte]
  unfold handleStore
  have hcap' : ¬ req.payload.length > cfg.cap := by rw [hr.payload]; omega
  simp only [hgate, ne_eq, not_true_eq_false, ↓reduceIte, hr.header, Bool.not_true, Bool.false_eq_true, hcap', httl'.1, httl'.2,
    hrate]
  unfold storeAdmitted
  simp only [hhint, hr.payload, hr.pow, parseU64_toDec nonce hn64]
  have hv' : Pow.storePowValid sha
      { chunkId := sha c.payload, payloadSize := c.payload.length, filenameHint := (Pow.cliHint c.path).getD [] } nonce
      cfg.powDifficulty = true := hvalid
  simp only [hv', ↓reduceIte, afterStore]
  split <;> rfl

end

end EphVerif.System.Control
