/-
C06 helper lemmas, part 1: the stable descending sort, the truncation `cut` (for every hint)
and `maxExp`.
-/
import EphVerif.Model.Providers

namespace EphVerif.C06L
open EphVerif.Providers EphVerif.C06Spec List

/-- no two entries of the list belong to the same peer -/
abbrev PeerDistinct (l : List Ann) : Prop := l.Pairwise (fun a b => a.peer ≠ b.peer)

/-- sorted by descending expiry -/
abbrev DescSorted (l : List Ann) : Prop := l.Pairwise (fun a b => b.exp ≤ a.exp)

theorem not_expired (now : Int) (h : Ann) : (!expired now h) = liveAt now h := by
  unfold expired liveAt
  by_cases hh : now < h.exp
  · have : ¬ (now ≥ h.exp) := by omega
    simp [hh, this]
  · have : now ≥ h.exp := by omega
    simp [hh, this]

theorem filter_not_expired (now : Int) (l : List Ann) :
    l.filter (fun h => !expired now h) = l.filter (liveAt now) :=
  filter_congr (fun x _ => not_expired now x)

/-! ### insertion sort -/

theorem insertDesc_perm (h : Ann) (l : List Ann) : Providers.insertDesc h l ~ h :: l := by
  induction l with
  | nil => exact Perm.refl _
  | cons x xs ih =>
    simp only [Providers.insertDesc]
    split
    · exact (Perm.cons x ih).trans (Perm.swap h x xs)
    · exact Perm.refl _

theorem insertDesc_sorted (h : Ann) (l : List Ann) (hl : DescSorted l) :
    DescSorted (Providers.insertDesc h l) := by
  induction l with
  | nil => simp [Providers.insertDesc]
  | cons x xs ih =>
    simp only [Providers.insertDesc]
    have hx := (pairwise_cons.mp hl)
    split
    · rename_i hge
      refine pairwise_cons.mpr ⟨?_, ih hx.2⟩
      intro y hy
      rcases (mem_cons.mp ((insertDesc_perm h xs).mem_iff.mp hy)) with rfl | hy'
      · exact hge
      · exact hx.1 y hy'
    · rename_i hlt
      refine pairwise_cons.mpr ⟨?_, hl⟩
      intro y hy
      rcases mem_cons.mp hy with rfl | hy'
      · omega
      · have := hx.1 y hy'; omega

theorem foldl_insertDesc_perm (l acc : List Ann) :
    l.foldl (fun acc h => Providers.insertDesc h acc) acc ~ l ++ acc := by
  induction l generalizing acc with
  | nil => exact Perm.refl _
  | cons x xs ih =>
    simp only [foldl_cons, cons_append]
    exact (ih _).trans ((Perm.append_left xs (insertDesc_perm x acc)).trans perm_middle)

theorem foldl_insertDesc_sorted (l acc : List Ann) (h : DescSorted acc) :
    DescSorted (l.foldl (fun acc h => Providers.insertDesc h acc) acc) := by
  induction l generalizing acc with
  | nil => exact h
  | cons x xs ih => exact ih _ (insertDesc_sorted x acc h)

/-- the fallback sort is a permutation … -/
theorem sortDesc_perm (l : List Ann) : sortDesc l ~ l := by
  have := foldl_insertDesc_perm l []
  simpa [sortDesc] using this

/-- … sorted by descending expiry -/
theorem sortDesc_sorted (l : List Ann) : DescSorted (sortDesc l) :=
  foldl_insertDesc_sorted l [] Pairwise.nil

/-! ### valid cuts -/

/-- `kept` is a legal outcome of "sort `base` by descending expiry and resize to `n`", `dropped`
    being what fell off -/
structure CutOK (n : Nat) (base kept dropped : List Ann) : Prop where
  perm : kept ++ dropped ~ base
  len : kept.length = n
  le : ∀ k ∈ kept, ∀ d ∈ dropped, d.exp ≤ k.exp

theorem cut_fallback_ok (n : Nat) (base : List Ann) (hn : n ≤ base.length) :
    CutOK n base ((sortDesc base).take n) ((sortDesc base).drop n) := by
  refine ⟨?_, ?_, ?_⟩
  · rw [take_append_drop]; exact sortDesc_perm base
  · rw [length_take, (sortDesc_perm base).length_eq]; omega
  · have hs := sortDesc_sorted base
    rw [← take_append_drop n (sortDesc base)] at hs
    intro k hk d hd
    exact (pairwise_append.mp hs).2.2 k hk d hd

theorem validCut_ok (n : Nat) (base : List Ann) (keep : List String) (h : validCut n base keep = true) :
    CutOK n base (base.filter (fun h => keep.contains h.peer)) (base.filter (fun h => !keep.contains h.peer)) := by
  simp only [validCut, Bool.and_eq_true, beq_iff_eq, all_eq_true, decide_eq_true_eq] at h
  exact ⟨filter_append_perm _ base, h.1, h.2⟩

/-- whatever the hint (valid, invalid or absent), `cut` is a valid cut -/
theorem cut_ok (n : Nat) (base : List Ann) (hint : Option (List String)) (hn : n ≤ base.length) :
    ∃ dropped, CutOK n base (cut n base hint) dropped := by
  unfold cut
  split
  · rename_i keep
    split
    · rename_i hv; exact ⟨_, validCut_ok n base keep hv⟩
    · exact ⟨_, cut_fallback_ok n base hn⟩
  · exact ⟨_, cut_fallback_ok n base hn⟩

theorem CutOK.distinct {n : Nat} {base kept dropped : List Ann} (h : CutOK n base kept dropped)
    (hb : PeerDistinct base) : PeerDistinct (kept ++ dropped) :=
  (h.perm.pairwise_iff (fun {_ _} hxy => Ne.symm hxy)).mpr hb

/-! ### `maxExp` -/

theorem foldl_max_ge (l : List Ann) (d : Int) : d ≤ l.foldl (fun m h => max m h.exp) d := by
  induction l generalizing d with
  | nil => simp
  | cons x xs ih =>
    simp only [foldl_cons]
    have := ih (max d x.exp)
    omega

theorem foldl_max_mem (l : List Ann) (d : Int) : ∀ h ∈ l, h.exp ≤ l.foldl (fun m h => max m h.exp) d := by
  induction l generalizing d with
  | nil => simp
  | cons x xs ih =>
    intro h hh
    simp only [foldl_cons]
    rcases mem_cons.mp hh with rfl | hh'
    · have := foldl_max_ge xs (max d h.exp); omega
    · exact ih _ h hh'

theorem maxExp_mem (l : List Ann) (d : Int) : ∀ h ∈ l, h.exp ≤ maxExp l d := foldl_max_mem l d

end EphVerif.C06L
