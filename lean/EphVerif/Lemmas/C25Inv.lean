/-
Helper lemmas for C25/C26: the pairing invariant `Inv` of the relay model and its preservation by
queue / remove_registration / close_session.
-/
import EphVerif.Lemmas.C25Map
set_option linter.unusedSimpArgs false

namespace EphVerif.Relay

def State.partnerOf (σ : State) (a : Client) : Option Client := (σ.get a).bind (·.partner)
def State.stateOf (σ : State) (a : Client) : Option SState := (σ.get a).map (·.state)
def State.hexOf (σ : State) (a : Client) : Option Bytes := (σ.get a).map (·.peerHex)

/-- The pairing invariant of the relay. -/
structure Inv (σ : State) : Prop where
  sym : ∀ a b, σ.partnerOf a = some b → σ.partnerOf b = some a
  noself : ∀ a, σ.partnerOf a ≠ some a
  pairState : ∀ a b, σ.partnerOf a = some b →
      (σ.stateOf a = some .awaitingIdentity ∧ σ.stateOf b = some .registered) ∨
      (σ.stateOf a = some .registered ∧ σ.stateOf b = some .awaitingIdentity) ∨
      (σ.stateOf a = some .bridged ∧ σ.stateOf b = some .bridged)
  lone : ∀ a, σ.partnerOf a = none → σ.stateOf a ≠ some .awaitingIdentity ∧ σ.stateOf a ≠ some .bridged
  regOK : ∀ k c, σ.reg k = some c →
      σ.stateOf c = some .registered ∧ σ.partnerOf c = none ∧ σ.hexOf c = some k ∧ k ≠ []
  notHung : σ.hung = false

/-- `Inv` only looks at these projections. -/
theorem Inv.congr {σ σ' : State}
    (hp : ∀ a, σ'.partnerOf a = σ.partnerOf a) (hs : ∀ a, σ'.stateOf a = σ.stateOf a)
    (hx : ∀ a, σ'.hexOf a = σ.hexOf a) (hr : ∀ k, σ'.reg k = σ.reg k) (hh : σ'.hung = σ.hung)
    (h : Inv σ) : Inv σ' := by
  constructor
  · intro a b; rw [hp, hp]; exact h.sym a b
  · intro a; rw [hp]; exact h.noself a
  · intro a b; rw [hp, hs, hs]; exact h.pairState a b
  · intro a; rw [hp, hs]; exact h.lone a
  · intro k c; rw [hr, hs, hp, hx]; exact h.regOK k c
  · rw [hh]; exact h.notHung

theorem inv_init : Inv init := by
  constructor <;> first | rfl | simp [State.partnerOf, State.stateOf, State.hexOf]

/-! ### queue -/

theorem get_queue (σ : State) (c c' : Client) (it : Item) :
    (queue σ c it).get c' =
      if c' = c then (σ.get c).map (fun s => { s with writeBuf := s.writeBuf ++ it.bytes }) else σ.get c' := by
  unfold queue
  cases h : σ.get c with
  | none => by_cases e : c' = c <;> simp [e, h]
  | some s => by_cases e : c' = c <;> simp [e]

@[simp] theorem partnerOf_queue (σ : State) (c a : Client) (it : Item) : (queue σ c it).partnerOf a = σ.partnerOf a := by
  unfold State.partnerOf; rw [get_queue]; by_cases e : a = c <;> simp [e]; cases σ.get c <;> simp
@[simp] theorem stateOf_queue (σ : State) (c a : Client) (it : Item) : (queue σ c it).stateOf a = σ.stateOf a := by
  unfold State.stateOf; rw [get_queue]; by_cases e : a = c <;> simp [e]; cases σ.get c <;> simp
@[simp] theorem hexOf_queue (σ : State) (c a : Client) (it : Item) : (queue σ c it).hexOf a = σ.hexOf a := by
  unfold State.hexOf; rw [get_queue]; by_cases e : a = c <;> simp [e]; cases σ.get c <;> simp
@[simp] theorem reg_queue (σ : State) (c : Client) (it : Item) (k : Bytes) : (queue σ c it).reg k = σ.reg k := by
  unfold queue; cases σ.get c <;> simp
@[simp] theorem hung_queue (σ : State) (c : Client) (it : Item) : (queue σ c it).hung = σ.hung := by
  unfold queue; cases σ.get c <;> simp
@[simp] theorem used_queue (σ : State) (c : Client) (it : Item) : (queue σ c it).used = σ.used := by
  unfold queue; cases σ.get c <;> simp
@[simp] theorem isSome_get_queue (σ : State) (c a : Client) (it : Item) : ((queue σ c it).get a).isSome = (σ.get a).isSome := by
  rw [get_queue]; by_cases e : a = c <;> simp [e]

theorem inv_queue {σ : State} (c : Client) (it : Item) (h : Inv σ) : Inv (queue σ c it) :=
  h.congr (by simp) (by simp) (by simp) (by simp) (by simp)

/-! ### remove_registration, close_session -/

theorem get_removeRegistration (σ : State) (c : Client) (s : Session) (a : Client) :
    (removeRegistration σ c s).get a = σ.get a := by
  unfold removeRegistration
  repeat' split
  all_goals rfl

theorem hung_removeRegistration (σ : State) (c : Client) (s : Session) :
    (removeRegistration σ c s).hung = σ.hung := by
  unfold removeRegistration
  repeat' split
  all_goals rfl

theorem reg_removeRegistration_sub (σ : State) (c : Client) (s : Session) (k : Bytes) (d : Client)
    (h : (removeRegistration σ c s).reg k = some d) : σ.reg k = some d := by
  unfold removeRegistration at h
  repeat' split at h
  all_goals first | exact h | (simp at h; exact h.2)

theorem reg_removeRegistration_ne {σ : State} (hI : Inv σ) (c : Client) (s : Session) (hs : σ.get c = some s) (k : Bytes) :
    (removeRegistration σ c s).reg k ≠ some c := by
  intro h
  have h0 := reg_removeRegistration_sub _ _ _ _ _ h
  obtain ⟨_, _, hx, hne⟩ := hI.regOK k c h0
  simp [State.hexOf, hs] at hx
  subst hx
  unfold removeRegistration at h
  have : s.peerHex.isEmpty = false := by cases h' : s.peerHex <;> simp_all
  simp [this, h0, hs] at h

/-- What close_session does, case by case (on a state satisfying the invariant). -/
theorem closeSession_effect {σ : State} (hI : Inv σ) (c : Client) (s : Session) (hc : σ.get c = some s) :
    (closeSession σ c).hung = σ.hung ∧
    (∀ k d, (closeSession σ c).reg k = some d →
        (σ.reg k = some d ∧ d ≠ c) ∨
        (∃ ps, s.partner = some d ∧ σ.get d = some ps ∧ ps.state = .registered ∧ ps.peerHex = k ∧ k ≠ [])) ∧
    ((s.partner = none ∧ ∀ a, (closeSession σ c).get a = if a = c then none else σ.get a) ∨
     (∃ p ps, s.partner = some p ∧ σ.get p = some ps ∧ (ps.state = .awaitingIdentity ∨ ps.state = .bridged) ∧
        ∀ a, (closeSession σ c).get a = if a = c ∨ a = p then none else σ.get a) ∨
     (∃ p ps, s.partner = some p ∧ σ.get p = some ps ∧ ps.state = .registered ∧
        ∀ a, (closeSession σ c).get a = if a = c then none else if a = p then some { ps with partner := none } else σ.get a)) := by
  have hne := reg_removeRegistration_ne hI c s hc
  have hsub := reg_removeRegistration_sub σ c s
  cases hp : s.partner with
  | none =>
    refine ⟨?_, ?_, Or.inl ⟨rfl, ?_⟩⟩
    · simp [closeSession, hc, detachPartner, hp, hung_removeRegistration]
    · intro k d h
      simp [closeSession, hc, detachPartner, hp] at h
      exact Or.inl ⟨hsub k d h, fun e => hne k (e ▸ h)⟩
    · intro a
      simp [closeSession, hc, detachPartner, hp, get_removeRegistration]
  | some p =>
    have h1 : σ.partnerOf c = some p := by simp [State.partnerOf, hc, hp]
    have h2 := hI.sym c p h1
    have hpc : p ≠ c := fun e => hI.noself c (e ▸ h1)
    obtain ⟨ps, hps, hpp⟩ : ∃ ps, σ.get p = some ps ∧ ps.partner = some c := by
      simp only [State.partnerOf] at h2
      cases h : σ.get p with
      | none => simp [h] at h2
      | some ps => exact ⟨ps, rfl, by simpa [h] using h2⟩
    have hst := hI.pairState c p h1
    simp only [State.stateOf, hc, hps, Option.map_some] at hst
    by_cases hIB : ps.state = .awaitingIdentity ∨ ps.state = .bridged
    · refine ⟨?_, ?_, Or.inr (Or.inl ⟨p, ps, rfl, hps, hIB, ?_⟩)⟩
      · simp [closeSession, hc, detachPartner, hp, get_removeRegistration, hpc, hps, hIB, closeNoPartner, hung_removeRegistration]
      · intro k d h
        simp [closeSession, hc, detachPartner, hp, get_removeRegistration, hpc, hps, hIB, closeNoPartner] at h
        have h' := reg_removeRegistration_sub _ _ _ _ _ h
        simp at h'
        exact Or.inl ⟨hsub k d h', fun e => hne k (e ▸ h')⟩
      · intro a
        simp [closeSession, hc, detachPartner, hp, get_removeRegistration, hpc, hps, hIB, closeNoPartner]
        by_cases e1 : a = p <;> by_cases e2 : a = c <;> simp [e1, e2]
    · have hR : ps.state = .registered := by
        rcases hst with ⟨_, h⟩ | ⟨_, h⟩ | ⟨_, h⟩ <;> simp_all
      refine ⟨?_, ?_, Or.inr (Or.inr ⟨p, ps, rfl, hps, hR, ?_⟩)⟩
      · by_cases hx : ps.peerHex.isEmpty <;>
          simp [closeSession, hc, detachPartner, hp, get_removeRegistration, hpc, hps, hIB, hR, hx, hung_removeRegistration]
      · intro k d h
        by_cases hx : ps.peerHex.isEmpty
        · simp [closeSession, hc, detachPartner, hp, get_removeRegistration, hpc, hps, hIB, hR, hx] at h
          exact Or.inl ⟨hsub k d h, fun e => hne k (e ▸ h)⟩
        · simp [closeSession, hc, detachPartner, hp, get_removeRegistration, hpc, hps, hIB, hR, hx] at h
          by_cases hk : k = ps.peerHex
          · subst hk
            simp at h
            subst h
            exact Or.inr ⟨ps, rfl, hps, hR, rfl, by intro e; simp [e] at hx⟩
          · simp [hk] at h
            exact Or.inl ⟨hsub k d h, fun e => hne k (e ▸ h)⟩
      · intro a
        by_cases hx : ps.peerHex.isEmpty <;>
          simp [closeSession, hc, detachPartner, hp, get_removeRegistration, hpc, hps, hIB, hR, hx] <;>
          by_cases e1 : a = p <;> by_cases e2 : a = c <;> simp_all

theorem inv_closeSession {σ : State} (c : Client) (hI : Inv σ) : Inv (closeSession σ c) := by
  cases hc : σ.get c with
  | none => simpa [closeSession, hc] using hI
  | some s =>
    obtain ⟨hh, hr, hg⟩ := closeSession_effect hI c s hc
    have h1 := hI.sym; have h2 := hI.noself; have h3 := hI.pairState; have h4 := hI.lone; have h5 := hI.regOK; have h6 := hI.notHung
    simp only [State.partnerOf, State.stateOf, State.hexOf] at h1 h2 h3 h4 h5
    rcases hg with ⟨hp, hg⟩ | ⟨p, ps, hp, hps, hst, hg⟩ | ⟨p, ps, hp, hps, hst, hg⟩
    all_goals
      constructor
      all_goals (try simp only [State.partnerOf, State.stateOf, State.hexOf])
      all_goals grind

end EphVerif.Relay
