/-
Helper lemmas for C36 (lockset discipline): invariants of the interleaving semantics,
membership characterisation of the checker, execution of a run of acquisitions.
-/
import EphVerif.Model.Lockset

namespace EphVerif.Lockset

theorem upd_same {α : Type} (g : Tid → α) (t : Tid) (v : α) : upd g t v t = v := by
  simp [upd]

theorem upd_other {α : Type} (g : Tid → α) {t u : Tid} (v : α) (h : u ≠ t) : upd g t v u = g u := by
  simp [upd, h]

theorem upd_upd {α : Type} (g : Tid → α) (t : Tid) (a b : α) : upd (upd g t a) t b = upd g t b := by
  funext u; simp only [upd]; split <;> rfl

theorem upd_self {α : Type} (g : Tid → α) (t : Tid) : upd g t (g t) = g := by
  funext u; simp only [upd]; split
  · next h => rw [h]
  · rfl

theorem Reach.trans {a b c : State} (h1 : Reach a b) (h2 : Reach b c) : Reach a c := by
  induction h2 with
  | refl => exact h1
  | step _ hs ih => exact Reach.step ih hs

/-- no lock is held by two threads -/
def Excl (s : State) : Prop := ∀ t u l, t ≠ u → l ∈ s.held t → l ∉ s.held u

theorem Excl.step {s s' : State} (he : Excl s) (hs : Step s s') : Excl s' := by
  cases hs with
  | @acq t l rest hp hen =>
    intro t1 u1 l' hne h1 h2
    simp only [upd] at h1 h2
    by_cases ht : t1 = t
    · have hu : u1 ≠ t := fun h => hne (ht.trans h.symm)
      simp only [ht, hu, if_true, if_false] at h1 h2
      rcases List.mem_cons.mp h1 with h | h
      · exact hen u1 (h ▸ h2)
      · exact he t u1 l' (fun h' => hu h'.symm) h h2
    · simp only [ht, if_false] at h1
      by_cases hu : u1 = t
      · simp only [hu, if_true] at h2
        rcases List.mem_cons.mp h2 with h | h
        · exact hen t1 (h ▸ h1)
        · exact he t1 t l' ht h1 h
      · simp only [hu, if_false] at h2
        exact he t1 u1 l' hne h1 h2
  | @rel t l rest hp =>
    intro t1 u1 l' hne h1 h2
    simp only [upd] at h1 h2
    have e1 : l' ∈ s.held t1 := by
      by_cases ht : t1 = t
      · simp only [ht, if_true] at h1; exact ht ▸ List.mem_of_mem_erase h1
      · simp only [ht, if_false] at h1; exact h1
    have e2 : l' ∈ s.held u1 := by
      by_cases hu : u1 = t
      · simp only [hu, if_true] at h2; exact hu ▸ List.mem_of_mem_erase h2
      · simp only [hu, if_false] at h2; exact h2
    exact he t1 u1 l' hne e1 e2
  | @access t f k rest hp => exact he

theorem Excl.reach {s0 s : State} (h0 : ∀ t, s0.held t = []) (hr : Reach s0 s) : Excl s := by
  induction hr with
  | refl => intro t u l _ h1 _; rw [h0 t] at h1; cases h1
  | step _ hs ih => exact ih.step hs

/-- every thread still follows the table from where it is now -/
def FollowsAll (T : List Row) (roleOf : Tid → Role) (s : State) : Prop :=
  ∀ t, Follows T (roleOf t) (s.held t) (s.prog t)

theorem FollowsAll.step {T : List Row} {roleOf : Tid → Role} {s s' : State}
    (hf : FollowsAll T roleOf s) (hs : Step s s') : FollowsAll T roleOf s' := by
  cases hs with
  | @acq t l rest hp hen =>
    intro u
    by_cases hu : u = t
    · subst hu
      have := hf u
      rw [hp] at this
      simpa [upd, Follows] using this
    · have := hf u
      simpa [upd, hu] using this
  | @rel t l rest hp =>
    intro u
    by_cases hu : u = t
    · subst hu
      have := hf u
      rw [hp] at this
      simpa [upd, Follows] using this
    · have := hf u
      simpa [upd, hu] using this
  | @access t f k rest hp =>
    intro u
    by_cases hu : u = t
    · subst hu
      have := hf u
      rw [hp] at this
      simp only [Follows] at this
      simpa [upd] using this.2
    · have := hf u
      simpa [upd, hu] using this

theorem FollowsAll.reach {T : List Row} {roleOf : Tid → Role} {s0 s : State}
    (h0 : FollowsAll T roleOf s0) (hr : Reach s0 s) : FollowsAll T roleOf s := by
  induction hr with
  | refl => exact h0
  | step _ hs ih => exact ih.step hs

/-- what a thread that follows the table holds when it is at an access -/
theorem FollowsAll.at {T : List Row} {roleOf : Tid → Role} {s : State} (hf : FollowsAll T roleOf s)
    {t : Tid} {f : Field} {k : Kind} (ha : At s t f k) :
    ∃ row, row ∈ T ∧ row.role = roleOf t ∧ row.field = f ∧ row.kind = k ∧ ∀ l, l ∈ row.locks → l ∈ s.held t := by
  obtain ⟨rest, hp⟩ := ha
  have := hf t
  rw [hp] at this
  exact this.1

/-! ### the checker -/

theorem mem_dedup {x : Viol} {l : List Viol} : x ∈ dedup l ↔ x ∈ l := by
  induction l with
  | nil => simp [dedup]
  | cons y ys ih =>
    simp only [dedup]
    split
    · next h =>
      have hy : y ∈ ys := by simpa using h
      constructor
      · intro hx; exact List.mem_cons_of_mem _ (ih.mp hx)
      · intro hx
        rcases List.mem_cons.mp hx with h' | h'
        · exact ih.mpr (h' ▸ hy)
        · exact ih.mpr h'
    · simp [ih]

theorem mem_violations {multi : List Role} {T : List Row} {v : Viol} :
    v ∈ violations multi T ↔
      ∃ a, a ∈ T ∧ ∃ b, b ∈ T ∧ conflict multi a b = true ∧ shareLock a b = false ∧
        v = (a.field, normPair a.role b.role) := by
  unfold violations
  rw [mem_dedup]
  simp only [List.mem_flatMap, List.mem_filterMap]
  constructor
  · rintro ⟨a, ha, b, hb, h⟩
    refine ⟨a, ha, b, hb, ?_⟩
    split at h
    · next hc =>
      simp only [Bool.and_eq_true, Bool.not_eq_true'] at hc
      exact ⟨hc.1, hc.2, (Option.some.inj h).symm⟩
    · cases h
  · rintro ⟨a, ha, b, hb, hc, hs, rfl⟩
    refine ⟨a, ha, b, hb, ?_⟩
    simp [hc, hs]

theorem shareLock_true {a b : Row} : shareLock a b = true ↔ ∃ l, l ∈ a.locks ∧ l ∈ b.locks := by
  simp [shareLock, List.any_eq_true]

theorem shareLock_false {a b : Row} (h : shareLock a b = false) : ∀ l, l ∈ a.locks → l ∉ b.locks := by
  intro l ha hb
  have : shareLock a b = true := shareLock_true.mpr ⟨l, ha, hb⟩
  rw [h] at this; cases this

theorem normPair_comm (a b : Role) : normPair a b = normPair b a := by
  unfold normPair
  by_cases h1 : a ≤ b
  · by_cases h2 : b ≤ a
    · have : a = b := Nat.le_antisymm h1 h2
      subst this; rfl
    · simp [h1, h2]
  · have h2 : b ≤ a := Nat.le_of_not_le h1
    simp [h1, h2]

/-! ### running a block of acquisitions -/

theorem follows_acqs (T : List Row) (role : Role) (ls : List Lock) (h : List Lock) (rest : List Event) :
    Follows T role h (acqs ls ++ rest) ↔ Follows T role (ls.reverse ++ h) rest := by
  induction ls generalizing h with
  | nil => simp [acqs]
  | cons l ls ih =>
    have : acqs (l :: ls) ++ rest = Event.acq l :: (acqs ls ++ rest) := by simp [acqs]
    rw [this]
    simp only [Follows]
    rw [ih]
    simp [List.reverse_cons, List.append_assoc]

theorem run_acqs (ls : List Lock) : ∀ (s : State) (t : Tid) (rest : List Event),
    s.prog t = acqs ls ++ rest → ls.Nodup → (∀ l, l ∈ ls → ∀ u, l ∉ s.held u) →
    Reach s ⟨upd s.prog t rest, upd s.held t (ls.reverse ++ s.held t)⟩ := by
  induction ls with
  | nil =>
    intro s t rest hp _ _
    have hp' : s.prog t = rest := by simpa [acqs] using hp
    have e1 : upd s.prog t rest = s.prog := by rw [← hp']; exact upd_self _ _
    have e2 : upd s.held t ([].reverse ++ s.held t) = s.held := by
      simp only [List.reverse_nil, List.nil_append]; exact upd_self _ _
    rw [e1, e2]
    exact Reach.refl
  | cons l ls ih =>
    intro s t rest hp hnd hfree
    have hp' : s.prog t = Event.acq l :: (acqs ls ++ rest) := by simpa [acqs] using hp
    have hl : l ∉ ls := (List.nodup_cons.mp hnd).1
    have hnd' : ls.Nodup := (List.nodup_cons.mp hnd).2
    have st : Step s ⟨upd s.prog t (acqs ls ++ rest), upd s.held t (l :: s.held t)⟩ :=
      Step.acq hp' (hfree l (List.mem_cons_self ..))
    have hfree' : ∀ l', l' ∈ ls → ∀ u, l' ∉ (upd s.held t (l :: s.held t)) u := by
      intro l' hl' u hm
      by_cases hu : u = t
      · subst hu
        rw [upd_same] at hm
        rcases List.mem_cons.mp hm with h | h
        · exact hl (h ▸ hl')
        · exact hfree l' (List.mem_cons_of_mem _ hl') u h
      · rw [upd_other _ _ hu] at hm
        exact hfree l' (List.mem_cons_of_mem _ hl') u hm
    have := ih ⟨upd s.prog t (acqs ls ++ rest), upd s.held t (l :: s.held t)⟩ t rest
      (upd_same _ _ _) hnd' hfree'
    simp only [upd_upd, upd_same] at this
    have e : (l :: ls).reverse ++ s.held t = ls.reverse ++ (l :: s.held t) := by
      simp [List.reverse_cons, List.append_assoc]
    rw [e]
    exact (Reach.step Reach.refl st).trans this

/-! ### roles of the canonical two-thread program -/

theorem pairRole_zero (a b : Row) : pairRole a b 0 = a.role := rfl
theorem pairRole_one (a b : Row) : pairRole a b 1 = b.role := rfl
theorem pairRole_ge (a b : Row) {w : Tid} (w0 : w ≠ 0) (w1 : w ≠ 1) :
    pairRole a b w = a.role + b.role + w := by
  simp [pairRole, w0, w1]

private theorem aux_a (x y w : Nat) (h : x = x + y + w) : w = 0 := by omega
private theorem aux_b (x y w : Nat) (h : y = x + y + w) : w = 0 := by omega
private theorem aux_c (x y w v : Nat) (h : x + y + w = x + y + v) : w = v := by omega

/-- two different threads of the canonical program have the same role only if the two rows have
    the same role (all idle threads have fresh, pairwise different roles) -/
theorem pairRole_eq (a b : Row) {t u : Tid} (hne : t ≠ u) (heq : pairRole a b t = pairRole a b u) :
    a.role = b.role ∧ pairRole a b t = a.role := by
  by_cases t0 : t = 0
  · subst t0
    by_cases u1 : u = 1
    · subst u1
      rw [pairRole_zero, pairRole_one] at heq
      exact ⟨heq, rfl⟩
    · have u0 : u ≠ 0 := fun h => hne h.symm
      rw [pairRole_zero, pairRole_ge a b u0 u1] at heq
      exact absurd (aux_a _ _ _ heq) u0
  · by_cases t1 : t = 1
    · subst t1
      by_cases u0 : u = 0
      · subst u0
        rw [pairRole_zero, pairRole_one] at heq
        exact ⟨heq.symm, by rw [pairRole_one, heq]⟩
      · have u1 : u ≠ 1 := fun h => hne h.symm
        rw [pairRole_one, pairRole_ge a b u0 u1] at heq
        exact absurd (aux_b _ _ _ heq) u0
    · rw [pairRole_ge a b t0 t1] at heq
      by_cases u0 : u = 0
      · subst u0; rw [pairRole_zero] at heq
        exact absurd (aux_a _ _ _ heq.symm) t0
      · by_cases u1 : u = 1
        · subst u1; rw [pairRole_one] at heq
          exact absurd (aux_b _ _ _ heq.symm) t0
        · rw [pairRole_ge a b u0 u1] at heq
          exact absurd (aux_c _ _ _ _ heq) hne

/-! ### grouped evaluation -/

theorem mem_violationsOf {multi : List Role} {T : List Row} {a : Row} {v : Viol} :
    v ∈ violationsOf multi T a ↔
      ∃ b, b ∈ T ∧ conflict multi a b = true ∧ shareLock a b = false ∧ v = (a.field, normPair a.role b.role) := by
  unfold violationsOf
  simp only [List.mem_filterMap]
  constructor
  · rintro ⟨b, hb, h⟩
    refine ⟨b, hb, ?_⟩
    split at h
    · next hc =>
      simp only [Bool.and_eq_true, Bool.not_eq_true'] at hc
      exact ⟨hc.1, hc.2, (Option.some.inj h).symm⟩
    · cases h
  · rintro ⟨b, hb, hc, hs, rfl⟩
    exact ⟨b, hb, by simp [hc, hs]⟩

theorem inj_of_nodup_map {α β : Type} (f : α → β) : ∀ (l : List α), (l.map f).Nodup →
    ∀ x, x ∈ l → ∀ y, y ∈ l → f x = f y → x = y := by
  intro l
  induction l with
  | nil => intro _ x hx; cases hx
  | cons z zs ih =>
    intro hnd x hx y hy hf
    rw [List.map_cons, List.nodup_cons] at hnd
    rcases List.mem_cons.mp hx with hx | hx <;> rcases List.mem_cons.mp hy with hy | hy
    · rw [hx, hy]
    · exact absurd (hx ▸ hf ▸ List.mem_map_of_mem (f := f) hy) hnd.1
    · exact absurd (hy ▸ hf ▸ List.mem_map_of_mem (f := f) hx) hnd.1
    · exact ih hnd.2 x hx y hy hf

theorem field_of_mem_groupRows {g : Group} {a : Row} (h : a ∈ groupRows g) : a.field = g.1 := by
  unfold groupRows at h
  obtain ⟨r, _, rfl⟩ := List.mem_map.mp h
  rfl

theorem mem_flattenG {G : List Group} {a : Row} : a ∈ flattenG G ↔ ∃ g, g ∈ G ∧ a ∈ groupRows g := by
  simp [flattenG, List.mem_flatMap]

/-- group-by-group evaluation finds exactly the triples of the flat checker -/
theorem mem_violationsG {multi : List Role} {G : List Group} (hk : keysNodup G = true) {v : Viol} :
    v ∈ violationsG multi G ↔ v ∈ violations multi (flattenG G) := by
  have hnd : (G.map (·.1)).Nodup := by simpa [keysNodup] using hk
  rw [mem_violations]
  unfold violationsG
  rw [mem_dedup]
  simp only [List.mem_flatMap]
  constructor
  · rintro ⟨g, hg, a, ha, hv⟩
    obtain ⟨b, hb, hc, hs, rfl⟩ := mem_violationsOf.mp hv
    exact ⟨a, mem_flattenG.mpr ⟨g, hg, ha⟩, b, mem_flattenG.mpr ⟨g, hg, hb⟩, hc, hs, rfl⟩
  · rintro ⟨a, ha, b, hb, hc, hs, rfl⟩
    obtain ⟨g1, hg1, ha1⟩ := mem_flattenG.mp ha
    obtain ⟨g2, hg2, hb2⟩ := mem_flattenG.mp hb
    have hfield : a.field = b.field := by
      simp only [conflict, Bool.and_eq_true, beq_iff_eq] at hc
      exact hc.1.1
    have hkey : g1.1 = g2.1 := by
      rw [← field_of_mem_groupRows ha1, ← field_of_mem_groupRows hb2]; exact hfield
    have hgg : g1 = g2 := inj_of_nodup_map (·.1) G hnd g1 hg1 g2 hg2 hkey
    subst hgg
    exact ⟨g1, hg1, a, ha1, mem_violationsOf.mpr ⟨b, hb2, hc, hs, rfl⟩⟩

theorem violationsG_nil_iff {multi : List Role} {G : List Group} (hk : keysNodup G = true) :
    violationsG multi G = [] ↔ violations multi (flattenG G) = [] := by
  constructor
  · intro h
    cases hv : violations multi (flattenG G) with
    | nil => rfl
    | cons v vs =>
      have : v ∈ violationsG multi G := (mem_violationsG hk).mpr (by rw [hv]; exact List.mem_cons_self ..)
      rw [h] at this; cases this
  · intro h
    cases hv : violationsG multi G with
    | nil => rfl
    | cons v vs =>
      have : v ∈ violations multi (flattenG G) := (mem_violationsG hk).mp (by rw [hv]; exact List.mem_cons_self ..)
      rw [h] at this; cases this

/-! ### lock order -/

/-- every thread still obeys the lock order from where it is now -/
def OrderedAll (rank : Lock → Nat) (B : Nat) (s : State) : Prop :=
  ∀ t, Ordered rank B (s.held t) (s.prog t)

theorem OrderedAll.step {rank : Lock → Nat} {B : Nat} {s s' : State}
    (ho : OrderedAll rank B s) (hs : Step s s') : OrderedAll rank B s' := by
  cases hs with
  | @acq t l rest hp hen =>
    intro u
    by_cases hu : u = t
    · subst hu
      have := ho u
      rw [hp] at this
      simp only [Ordered] at this
      simpa [upd] using this.2.2
    · have := ho u
      simpa [upd, hu] using this
  | @rel t l rest hp =>
    intro u
    by_cases hu : u = t
    · subst hu
      have := ho u
      rw [hp] at this
      simpa [upd, Ordered] using this
    · have := ho u
      simpa [upd, hu] using this
  | @access t f k rest hp =>
    intro u
    by_cases hu : u = t
    · subst hu
      have := ho u
      rw [hp] at this
      simpa [upd, Ordered] using this
    · have := ho u
      simpa [upd, hu] using this

theorem OrderedAll.reach {rank : Lock → Nat} {B : Nat} {s0 s : State}
    (h0 : OrderedAll rank B s0) (hr : Reach s0 s) : OrderedAll rank B s := by
  induction hr with
  | refl => exact h0
  | step _ hs ih => exact ih.step hs

/-- a thread blocked at an acquisition can always be traced to an enabled step (by induction on
    the distance of the awaited lock's rank from the bound) -/
theorem blocked_progress {rank : Lock → Nat} {B : Nat} {s : State} (ho : OrderedAll rank B s) :
    ∀ (n : Nat) (t : Tid) (l : Lock) (rest : List Event),
      B - rank l ≤ n → s.prog t = Event.acq l :: rest → ∃ s', Step s s' := by
  intro n
  induction n with
  | zero =>
    intro t l rest hn hp
    have := ho t
    rw [hp] at this
    simp only [Ordered] at this
    have hlt : rank l < B := this.2.1
    omega
  | succ n ih =>
    intro t l rest hn hp
    by_cases hfree : ∀ u, l ∉ s.held u
    · exact ⟨_, Step.acq hp hfree⟩
    · have hex : ∃ u, l ∈ s.held u := by
        apply Classical.byContradiction
        intro hne
        exact hfree (fun u hm => hne ⟨u, hm⟩)
      obtain ⟨u, hu⟩ := hex
      have hou := ho u
      cases hpu : s.prog u with
      | nil =>
        rw [hpu] at hou
        simp only [Ordered] at hou
        rw [hou] at hu
        cases hu
      | cons e rest' =>
        cases e with
        | rel l' => exact ⟨_, Step.rel hpu⟩
        | access f k => exact ⟨_, Step.access hpu⟩
        | acq l' =>
          rw [hpu] at hou
          simp only [Ordered] at hou
          have h1 : rank l < rank l' := hou.1 l hu
          have h2 : rank l' < B := hou.2.1
          exact ih u l' rest' (by omega) hpu

theorem getD_le_sum (ranks : List Nat) (l : Nat) : ranks.getD l 0 ≤ ranks.sum := by
  induction ranks generalizing l with
  | nil => simp
  | cons r rs ih =>
    cases l with
    | zero => simp
    | succ l =>
      have := ih l
      simp only [List.getD_cons_succ, List.sum_cons]
      omega

/-- a thread that follows the extracted edges obeys every ranking the edges respect -/
theorem ordered_of_followsOrder {ranks : List Nat} {edges : List (Lock × Lock)}
    (hk : lockOrderAcyclic ranks edges = true) :
    ∀ (prog : List Event) (h : List Lock), FollowsOrder edges h prog →
      Ordered (rankOf ranks) (ranks.sum + 1) h prog := by
  intro prog
  induction prog with
  | nil => intro h hf; exact hf
  | cons e rest ih =>
    intro h hf
    cases e with
    | acq l =>
      simp only [FollowsOrder] at hf
      simp only [Ordered]
      refine ⟨?_, ?_, ih _ hf.2⟩
      · intro x hx
        have hm := hf.1 x hx
        have := List.all_eq_true.mp hk (x, l) hm
        simpa using this
      · have := getD_le_sum ranks l
        simp only [rankOf]
        omega
    | rel l => simp only [FollowsOrder] at hf; simp only [Ordered]; exact ih _ hf
    | access f k => simp only [FollowsOrder] at hf; simp only [Ordered]; exact ih _ hf

theorem rank_lt_of_path {ranks : List Nat} {edges : List (Lock × Lock)}
    (hk : lockOrderAcyclic ranks edges = true) {a b : Lock} (hp : OrderPath edges a b) :
    rankOf ranks a < rankOf ranks b := by
  induction hp with
  | single he =>
    have := List.all_eq_true.mp hk _ he
    simpa using this
  | @cons x y z he _ ih =>
    have := List.all_eq_true.mp hk _ he
    have h1 : rankOf ranks x < rankOf ranks y := by simpa using this
    exact Nat.lt_trans h1 ih

end EphVerif.Lockset
