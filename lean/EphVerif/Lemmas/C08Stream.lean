/-
C08 helper lemmas, part 2: the streaming hasher (`update` in any pieces, then `finalize`)
computes pad-parse-fold.
-/
import EphVerif.Lemmas.C08Compress

namespace EphVerif.C08
open EphVerif.Model.Sha256
open EphVerif.Spec.Sha256

/-! ### parsing into blocks -/

theorem parseN_append (k n : Nat) (a b : List UInt8) (ha : a.length = 64 * k) :
    parseN (k + n) (a ++ b) = parseN k a ++ parseN n b := by
  induction k generalizing a with
  | zero =>
    have : a = [] := List.length_eq_zero_iff.mp (by omega)
    subst this
    simp [parseN]
  | succ k ih =>
    have e : k + 1 + n = (k + n) + 1 := by omega
    rw [e, parseN, parseN]
    have h64 : 64 ≤ a.length := by omega
    rw [List.take_append_of_le_length h64, List.drop_append_of_le_length h64]
    rw [ih (a.drop 64) (by rw [List.length_drop]; omega)]
    rfl

theorem parse_append_aligned (a b : List UInt8) (ha : a.length % 64 = 0) :
    parse (a ++ b) = parse a ++ parse b := by
  unfold parse
  have h1 : a.length = 64 * (a.length / 64) := by omega
  have h2 : (a ++ b).length / 64 = a.length / 64 + b.length / 64 := by
    rw [List.length_append]; omega
  rw [h2, parseN_append _ _ _ _ h1]

theorem parse_short (l : List UInt8) (h : l.length < 64) : parse l = [] := by
  unfold parse
  have : l.length / 64 = 0 := by omega
  rw [this]; rfl

theorem parse_block (b : List UInt8) (h : b.length = 64) : parse b = [b] := by
  unfold parse
  rw [h]
  show parseN 1 b = [b]
  simp only [parseN]
  rw [List.take_of_length_le (by omega)]

/-- the bytes of `m` that fill whole blocks / the rest -/
def full (m : List UInt8) : List UInt8 := m.take (64 * (m.length / 64))
def tail (m : List UInt8) : List UInt8 := m.drop (64 * (m.length / 64))

theorem full_append_tail (m : List UInt8) : full m ++ tail m = m := List.take_append_drop _ _

theorem full_length (m : List UInt8) : (full m).length = 64 * (m.length / 64) := by
  unfold full; rw [List.length_take]; omega

theorem tail_length (m : List UInt8) : (tail m).length = m.length % 64 := by
  unfold tail; rw [List.length_drop]; omega

theorem parse_full (m : List UInt8) : parse (full m) = parse m := by
  conv => rhs; rw [← full_append_tail m]
  rw [parse_append_aligned _ _ (by rw [full_length]; omega), parse_short (tail m) (by rw [tail_length]; omega),
    List.append_nil]

/-- splitting `m ++ x` at the last block boundary of `m` -/
theorem parse_append (m x : List UInt8) : parse (m ++ x) = parse m ++ parse (tail m ++ x) := by
  conv => lhs; rw [← full_append_tail m, List.append_assoc]
  rw [parse_append_aligned _ _ (by rw [full_length]; omega), parse_full]

theorem tail_append (m x : List UInt8) : tail (m ++ x) = tail (tail m ++ x) := by
  have hl : (tail m ++ x).length = m.length % 64 + x.length := by rw [List.length_append, tail_length]
  have e : 64 * ((m ++ x).length / 64) = (full m).length + 64 * ((tail m ++ x).length / 64) := by
    rw [full_length, hl, List.length_append]; omega
  conv => lhs; unfold tail; rw [e]
  conv => lhs; arg 2; rw [← full_append_tail m, List.append_assoc]
  rw [List.drop_append, List.drop_of_length_le (by omega), List.nil_append]
  have : (full m).length + 64 * ((tail m ++ x).length / 64) - (full m).length = 64 * ((tail m ++ x).length / 64) := by omega
  rw [this]; rfl

theorem foldl_transform_eq (bs : List (List UInt8)) (st : Words8) :
    toSpec (bs.foldl transform st) = bs.foldl compress (toSpec st) := by
  induction bs generalizing st with
  | nil => rfl
  | cons b bs ih => rw [List.foldl_cons, List.foldl_cons, ih, transform_eq]

/-! ### `update` -/

/-- closed form of the memcpy loop -/
theorem updateLoop_eq (st : Words8) (buf data : List UInt8) (hb : buf.length < 64) :
    updateLoop st buf data = ((parse (buf ++ data)).foldl transform st, tail (buf ++ data)) := by
  fun_induction updateLoop st buf data with
  | case1 st buf =>
    rw [List.append_nil, parse_short _ hb]
    unfold tail
    have : buf.length / 64 = 0 := by omega
    rw [this]; rfl
  | case2 st buf data _ h => rw [gen_spaceBase] at h; omega
  | case3 st buf data hd hs space piece buf' hlen ih =>
    -- the buffer filled up: one transform, continue with an empty buffer
    have hbl : buf'.length = 64 := by rw [hlen, gen_blockSize]
    have hsplit : buf ++ data = buf' ++ List.drop space data := by
      show buf ++ data = (buf ++ List.take space data) ++ List.drop space data
      rw [List.append_assoc, List.take_append_drop]
    have ht : tail (buf' ++ List.drop space data) = tail (List.drop space data) := by
      rw [tail_append]
      have : tail buf' = [] := by
        apply List.length_eq_zero_iff.mp; rw [tail_length, hbl]
      rw [this, List.nil_append]
    rw [ih (Nat.zero_lt_succ 63), List.nil_append, hsplit, parse_append_aligned _ _ (by rw [hbl]), parse_block _ hbl,
      ht, List.singleton_append, List.foldl_cons]
  | case4 st buf data hd hs space piece buf' hlen ih =>
    -- everything left fits into the buffer without filling it
    have hsp : space = 64 - buf.length := by show Gen.C08.spaceBase - buf.length = _; rw [gen_spaceBase]
    have hlen' : (buf ++ List.take space data).length ≠ 64 := by rw [← gen_blockSize]; exact hlen
    rw [gen_spaceBase] at hs
    have hlt : data.length < space := by
      rw [List.length_append, List.length_take] at hlen'; omega
    have h1 : List.take space data = data := List.take_of_length_le (by omega)
    have h2 : List.drop space data = [] := List.drop_of_length_le (by omega)
    have hb' : buf'.length < 64 := by
      show (buf ++ List.take space data).length < 64
      rw [h1, List.length_append]; omega
    rw [ih hb', h2, List.append_nil]
    show (List.foldl transform st (parse (buf ++ List.take space data)), tail (buf ++ List.take space data)) = _
    rw [h1]

/-! (T) obligations on the integer widths read from the source: `bit_len_` and the cast of
`data.size()` are 64-bit, so truncating to them is the identity on the model's `UInt64`.  With a
narrower `bit_len_` (say 32 bits: length field wrong from 2^29 bytes on) `gen_bitLenBits` and with it
`absorbed_update`, `sha_streaming`, `bit_len_exact`, `hmac`, `verify` no longer check. -/
theorem gen_bitLenBits : Gen.C08.bitLenBits = 64 := rfl
theorem gen_bitLenCastBits : Gen.C08.bitLenCastBits = 64 := rfl
theorem gen_bufferSizeBits : 64 < 2 ^ Gen.C08.bufferSizeBits := by decide

theorem wrapBits_64 (x : UInt64) : wrapBits 64 x = x := by
  unfold wrapBits
  rw [Nat.mod_eq_of_lt x.toNat_lt]
  exact UInt64.ofNat_toNat

/-- what the hasher object holds after absorbing the message `m` (in whatever pieces) -/
structure Absorbed (s : State) (m : List UInt8) : Prop where
  st : s.st = (parse m).foldl transform (Words8.ofList Gen.C08.initState)
  buf : s.buf = tail m
  bitLen : s.bitLen = UInt64.ofNat (8 * m.length)

theorem absorbed_init : Absorbed init [] := ⟨rfl, rfl, rfl⟩

theorem absorbed_update (s : State) (m d : List UInt8) (h : Absorbed s m) : Absorbed (update s d) (m ++ d) := by
  unfold update
  split
  · next he =>
    have : d = [] := List.isEmpty_iff.mp he
    subst this
    rw [List.append_nil]; exact h
  · have hb : s.buf.length < 64 := by rw [h.buf, tail_length]; omega
    rw [updateLoop_eq _ _ _ hb]
    refine ⟨?_, ?_, ?_⟩
    · show List.foldl transform s.st (parse (s.buf ++ d)) = _
      rw [h.buf, parse_append m d, List.foldl_append, ← h.st]
    · show tail (s.buf ++ d) = _
      rw [h.buf, tail_append m d]
    · show wrapBits Gen.C08.bitLenBits
        (s.bitLen + wrapBits Gen.C08.bitLenCastBits (UInt64.ofNat d.length) * UInt64.ofNat Gen.C08.bitsPerByte) = _
      rw [gen_bitLenBits, gen_bitLenCastBits, wrapBits_64, wrapBits_64]
      rw [h.bitLen, gen_bitsPerByte, ← UInt64.ofNat_mul, ← UInt64.ofNat_add, List.length_append]
      congr 1; omega

theorem absorbed_foldl (cs : List (List UInt8)) (s : State) (m : List UInt8) (h : Absorbed s m) :
    Absorbed (cs.foldl update s) (m ++ cs.flatten) := by
  induction cs generalizing s m with
  | nil => simpa using h
  | cons c cs ih =>
    rw [List.foldl_cons, List.flatten_cons, ← List.append_assoc]
    exact ih _ _ (absorbed_update s m c h)

/-! ### `finalize` -/

theorem shr_toUInt8 (l : Nat) (k : Nat) (hk : k ≤ 56) :
    (UInt64.ofNat l >>> UInt64.ofNat k).toUInt8 = UInt8.ofNat (l >>> k) := by
  apply UInt8.toNat_inj.mp
  rw [UInt64.toNat_toUInt8, UInt64.toNat_shiftRight, UInt64.toNat_ofNat', UInt64.toNat_ofNat', UInt8.toNat_ofNat']
  have hk' : k % 2 ^ 64 % 64 = k := by omega
  rw [hk', Nat.shiftRight_eq_div_pow, Nat.shiftRight_eq_div_pow]
  have e : (2 : Nat) ^ 64 = 2 ^ k * 2 ^ (64 - k) := by rw [← Nat.pow_add]; congr 1; omega
  rw [e, Nat.mod_mul_right_div_self]
  have d : (2 : Nat) ^ 8 ∣ 2 ^ (64 - k) := Nat.pow_dvd_pow 2 (by omega)
  exact Nat.mod_mod_of_dvd _ d

theorem lengthBytes_eq (l : Nat) : lengthBytes (UInt64.ofNat l) = be64 l := by
  have hff : (0xFF : UInt64).toUInt8 = -1 := by decide
  have hr : (List.range (7 + 1)).reverse = [7, 6, 5, 4, 3, 2, 1, 0] := by decide
  simp only [lengthBytes, gen_lengthTopByte, hr, List.map_cons, List.map_nil, UInt64.toUInt8_and, hff, UInt8.and_neg_one]
  rw [shr_toUInt8 l (7 * 8) (by omega), shr_toUInt8 l (6 * 8) (by omega), shr_toUInt8 l (5 * 8) (by omega),
    shr_toUInt8 l (4 * 8) (by omega), shr_toUInt8 l (3 * 8) (by omega), shr_toUInt8 l (2 * 8) (by omega),
    shr_toUInt8 l (1 * 8) (by omega), shr_toUInt8 l (0 * 8) (by omega)]
  rfl

theorem padding_small (n : Nat) (h : n % 64 ≤ 55) :
    padding n = 0x80 :: (List.replicate (55 - n % 64) 0 ++ be64 (8 * n)) := by
  have : (padZeroBits (8 * n) - 7) / 8 = 55 - n % 64 := by unfold padZeroBits; omega
  simp only [padding, this]

theorem padding_large (n : Nat) (h : 56 ≤ n % 64) :
    padding n = 0x80 :: (List.replicate (63 - n % 64) 0 ++ (List.replicate 56 0 ++ be64 (8 * n))) := by
  have : (padZeroBits (8 * n) - 7) / 8 = (63 - n % 64) + 56 := by unfold padZeroBits; omega
  simp only [padding, this, ← List.replicate_append_replicate, List.append_assoc]

theorem be64_length (l : Nat) : (be64 l).length = 8 := rfl

theorem finalize_eq (s : State) (m : List UInt8) (h : Absorbed s m) : finalize s = Spec.sha256 m := by
  have hr : (tail m).length = m.length % 64 := tail_length m
  have hlt : m.length % 64 < 64 := by omega
  have hH : toSpec s.st = (parse m).foldl compress H0 := by rw [h.st, foldl_transform_eq, gen_H0]
  unfold Spec.sha256 Spec.Sha256.hash pad
  rw [parse_append, List.foldl_append, ← hH]
  unfold finalize
  simp only [gen_terminator, gen_padThreshold, gen_blockSize, gen_lengthOffset, gen_lengthOffset2, h.buf, h.bitLen,
    lengthBytes_eq, List.length_append, List.length_cons, List.length_nil, hr]
  by_cases hc : m.length % 64 + (0 + 1) > 56
  · -- 0x80 does not leave room for the length: two blocks
    rw [if_pos hc]
    simp only [List.nil_append, List.length_nil, Nat.sub_zero]
    rw [List.take_of_length_le (by simp)]
    rw [padding_large _ (by omega)]
    have e1 : 64 - (m.length % 64 + (0 + 1)) = 63 - m.length % 64 := by omega
    rw [e1]
    have hsplit : tail m ++ (128 : UInt8) :: (List.replicate (63 - m.length % 64) 0 ++ (List.replicate 56 0 ++ be64 (8 * m.length)))
        = (tail m ++ [UInt8.ofNat 128] ++ List.replicate (63 - m.length % 64) 0) ++ (List.replicate 56 0 ++ be64 (8 * m.length)) := by
      simp only [List.append_assoc, List.cons_append, List.nil_append]; rfl
    have hb1 : (tail m ++ [UInt8.ofNat 128] ++ List.replicate (63 - m.length % 64) 0).length = 64 := by
      simp only [List.length_append, List.length_replicate, List.length_cons, List.length_nil, hr]; omega
    have hb2 : (List.replicate 56 (0 : UInt8) ++ be64 (8 * m.length)).length = 64 := by
      simp only [List.length_append, List.length_replicate, be64_length]
    rw [hsplit, parse_append_aligned _ _ (by rw [hb1]), parse_block _ hb1, parse_block _ hb2]
    simp only [List.foldl_cons, List.foldl_nil, List.cons_append, List.nil_append]
    rw [digestOf_eq, transform_eq, transform_eq]
  · -- one block
    rw [if_neg hc]
    simp only [List.length_append, List.length_cons, List.length_nil, hr]
    rw [padding_small _ (by omega)]
    have e1 : 56 - (m.length % 64 + (0 + 1)) = 55 - m.length % 64 := by omega
    rw [e1]
    have hb0 : (tail m ++ [UInt8.ofNat 128] ++ List.replicate (55 - m.length % 64) 0).length = 56 := by
      simp only [List.length_append, List.length_replicate, List.length_cons, List.length_nil, hr]; omega
    rw [List.take_of_length_le (by omega)]
    have hsplit : tail m ++ (128 : UInt8) :: (List.replicate (55 - m.length % 64) 0 ++ be64 (8 * m.length))
        = tail m ++ [UInt8.ofNat 128] ++ List.replicate (55 - m.length % 64) 0 ++ be64 (8 * m.length) := by
      simp only [List.append_assoc, List.cons_append, List.nil_append]; rfl
    have hb1 : (tail m ++ [UInt8.ofNat 128] ++ List.replicate (55 - m.length % 64) 0 ++ be64 (8 * m.length)).length = 64 := by
      rw [List.length_append, hb0, be64_length]
    rw [hsplit, parse_block _ hb1]
    simp only [List.foldl_cons, List.foldl_nil]
    rw [digestOf_eq, transform_eq]

end EphVerif.C08
