/-
C05 helper lemmas, part 2: the invariant of the node model.

`Inv cfg s`: everything the node holds expires strictly after the most recent cleanup
(`s.lastCleanup`; wall-clock `s.lastCleanup + wallOff` for cached manifests), every swarm plan has a
cached manifest, and the node is a holder only of chunks it stores.  It holds initially, every
operation preserves it (an operation only ever creates entries that end after `now`, and the cleanup
branch of `tick` removes everything that ends at or before `now` before moving `lastCleanup`).
-/
import EphVerif.Lemmas.C05Basic

namespace EphVerif.C05L
open EphVerif.NodeCleanup
open EphVerif.ChunkStore (aget aset adel Recs Uniq)
open EphVerif.Providers (Table Loc Holder)

def RecsOk (T : Int) (recs : Recs) : Prop := ∀ e ∈ recs, T < e.2.expires
def LocsOk (T : Int) (t : Table) : Prop := ∀ c l, t c = some l → T < l.exp ∧ ∀ h ∈ l.holders, T < h.exp
def RoutesOk (T : Int) (r : Routing.Table) : Prop := ∀ i, ∀ x ∈ r.buckets i, T < x.exp
def ListOk (T : Int) (l : List (String × Int)) : Prop := ∀ e ∈ l, T < e.2
def PlansOk (cache plans : List (String × Int)) : Prop := ∀ e ∈ plans, (aget cache e.1).isSome = true
def SelfOk (self : String) (t : Table) (recs : Recs) : Prop :=
  ∀ c l, t c = some l → (∃ h ∈ l.holders, h.peer = self) → ∃ r, (c, r) ∈ recs

structure Inv (cfg : Cfg) (s : State) : Prop where
  time : s.lastCleanup ≤ s.now
  recs : RecsOk s.lastCleanup s.recs
  locs : LocsOk s.lastCleanup s.locs
  routes : RoutesOk s.lastCleanup s.routes
  shards : ListOk s.lastCleanup s.shards
  cache : ListOk (s.lastCleanup + cfg.wallOff) s.cache
  plans : PlansOk s.cache s.plans
  self : SelfOk cfg.self s.locs s.recs

/-- announcements come from other peers (the node's own go through `store` / `reannounce`) -/
def OpWf (cfg : Cfg) : Op → Prop
  | .announce _ _ _ p _ _ _ _ => p ≠ cfg.self
  | _ => True

def OpsWf (cfg : Cfg) (ops : List Op) : Prop := ∀ op ∈ ops, OpWf cfg op

/-! ### component lemmas: creation -/

theorem recsOk_put {T now : Int} {recs : Recs} (h : RecsOk T recs) (hT : T ≤ now) (c : ChunkStore.Cfg) (id : String)
    (d p : ChunkStore.Bytes) (ttl : Int) (n : ChunkStore.Bytes) (enc : Bool) :
    RecsOk T (ChunkStore.put c recs now id d p ttl n enc) := by
  intro e he
  rcases mem_aset he with he | ⟨he, _⟩
  · rw [he]
    simp only [ChunkStore.mkRec, ChunkStore.nsPerSec]
    have := Int.mul_pos (effTtl_pos c ttl) (by decide : (0 : Int) < 1000000000)
    omega
  · exact h e he

theorem listOk_aset {T : Int} {l : List (String × Int)} (h : ListOk T l) (k : String) {v : Int} (hv : T < v) :
    ListOk T (aset l k v) := by
  intro e he
  rcases mem_aset he with he | ⟨he, _⟩
  · rw [he]; exact hv
  · exact h e he

theorem plansOk_aset {cache plans : List (String × Int)} (h : PlansOk cache plans) (c : String) (e n : Int) :
    PlansOk (aset cache c e) (aset plans c n) := by
  intro x hx
  rw [aget_aset]
  split
  · rfl
  · rcases mem_aset hx with hx | ⟨hx, _⟩
    · rename_i hne; rw [hx] at hne; exact absurd rfl hne
    · exact h x hx

theorem locsOk_addContact {T now : Int} {t : Table} (h : LocsOk T t) (c p : String) (ttlNs : Int)
    (hint : Option (List String)) (hlt : T < now + ttlNs) : LocsOk T (Providers.addContact t now c p ttlNs hint) := by
  intro k l' hk
  rcases addContact_get t now c p ttlNs hint k l' hk with ⟨_, hold⟩ | ⟨hkc, hexp, _, hh⟩
  · exact h k l' hold
  · refine ⟨by omega, ?_⟩
    intro x hx
    rcases hh x hx with hx | ⟨_, hx⟩
    · rw [hx]; exact hlt
    · cases ht : t c with
      | none => rw [holdersOf_none ht] at hx; simp at hx
      | some l => rw [holdersOf_some ht] at hx; exact (h c l ht).2 x hx

theorem routesOk_add {T now : Int} {r : Routing.Table} (h : RoutesOk T r) (c : Routing.Contact) (ttlNs : Int)
    (hlt : T < now + ttlNs) : RoutesOk T (Routing.addContactBucket r now c ttlNs) := by
  intro i x hx
  rcases mem_addContactBucket hx with hx | hx
  · omega
  · exact h i x hx

theorem selfOk_addContact {self : String} {t : Table} {recs : Recs} (h : SelfOk self t recs) (now : Int) (c p : String)
    (ttlNs : Int) (hint : Option (List String)) (hp : p = self → ∃ r, (c, r) ∈ recs) :
    SelfOk self (Providers.addContact t now c p ttlNs hint) recs := by
  intro k l' hk ⟨x, hx, hxs⟩
  rcases addContact_get t now c p ttlNs hint k l' hk with ⟨_, hold⟩ | ⟨hkc, _, _, hh⟩
  · exact h k l' hold ⟨x, hx, hxs⟩
  · rw [hkc]
    rcases hh x hx with hx' | ⟨_, hx'⟩
    · apply hp; rw [hx'] at hxs; exact hxs
    · cases ht : t c with
      | none => rw [holdersOf_none ht] at hx'; simp at hx'
      | some l => rw [holdersOf_some ht] at hx'; exact h c l ht ⟨x, hx', hxs⟩

theorem selfOk_put {self : String} {t : Table} {recs : Recs} (h : SelfOk self t recs) (c : ChunkStore.Cfg) (now : Int)
    (id : String) (d p : ChunkStore.Bytes) (ttl : Int) (n : ChunkStore.Bytes) (enc : Bool) :
    SelfOk self t (ChunkStore.put c recs now id d p ttl n enc) := by
  intro k l hk hs
  obtain ⟨r, hr⟩ := h k l hk hs
  by_cases hki : k = id
  · exact ⟨_, by rw [hki]; exact mem_aset_self _ _ _⟩
  · exact ⟨r, mem_aset_of_ne hr hki⟩

/-! ### component lemmas: shrinking the locator table -/

theorem locsOk_of_shrinks {T : Int} {t t' : Table} (h : LocsOk T t)
    (hs : ∀ k l', t' k = some l' → ∃ l, t k = some l ∧ Shrunk l' l) : LocsOk T t' := by
  intro k l' hk
  obtain ⟨l, hl, he, hh⟩ := hs k l' hk
  exact ⟨by rw [he]; exact (h k l hl).1, fun x hx => (h k l hl).2 x (hh x hx)⟩

theorem selfOk_of_shrinks {self : String} {t t' : Table} {recs : Recs} (h : SelfOk self t recs)
    (hs : ∀ k l', t' k = some l' → ∃ l, t k = some l ∧ Shrunk l' l) : SelfOk self t' recs := by
  intro k l' hk ⟨x, hx, hxs⟩
  obtain ⟨l, hl, _, hh⟩ := hs k l' hk
  exact h k l hl ⟨x, hh x hx, hxs⟩

/-! ### component lemmas: the cleanup branch -/

theorem recsOk_sweep (recs : Recs) (now : Int) : RecsOk now (ChunkStore.sweep recs now).1 := by
  intro e he
  have := (List.mem_filter.mp he).2
  have hn : ¬ (ChunkStore.expiredSweep now e.2.expires = true) := by simpa using this
  rw [ChunkStore.expiredSweep_iff] at hn
  omega

theorem locsOk_sweep (t : Table) (now : Int) : LocsOk now (Providers.sweep t now) := by
  intro k l' hk
  obtain ⟨_, _, _, h1, h2⟩ := sweep_clean t now k l' hk
  exact ⟨h1, h2⟩

theorem routesOk_sweep (r : Routing.Table) (now : Int) : RoutesOk now (Routing.sweepBuckets r now) :=
  fun _ _ hx => (mem_sweepBuckets hx).2

theorem shardsOk_filter (l : List (String × Int)) (now : Int) :
    ListOk now (l.filter fun e => !(shardDead now e.2)) := by
  intro e he
  have := (List.mem_filter.mp he).2
  have hn : ¬ (shardDead now e.2 = true) := by simpa using this
  rw [shardDead_iff] at hn
  omega

theorem cacheOk_filter (l : List (String × Int)) (W : Int) :
    ListOk W (l.filter fun e => !(manifestDead W e.2)) := by
  intro e he
  have := (List.mem_filter.mp he).2
  have hn : ¬ (manifestDead W e.2 = true) := by simpa using this
  rw [manifestDead_iff] at hn
  omega

theorem plansOk_cleanup {cache plans : List (String × Int)} (h : PlansOk cache plans) (W : Int) :
    PlansOk (cache.filter fun e => !(manifestDead W e.2)) (plans.filter fun e => !(planDead cache W e.1)) := by
  intro e he
  obtain ⟨hm, hd⟩ := List.mem_filter.mp he
  have hs := h e hm
  cases hc : aget cache e.1 with
  | none => rw [hc] at hs; cases hs
  | some v =>
    have hnd : manifestDead W v = false := by
      simp only [planDead, hc] at hd
      simpa using hd
    rw [aget_filter_of_pos (fun e => !(manifestDead W e.2)) hc (by simp [hnd])]
    rfl

theorem selfOk_cleanup {self : String} {t : Table} {recs : Recs} (h : SelfOk self t recs) (now : Int) :
    SelfOk self (Providers.sweep (withdrawAll t self (ChunkStore.sweep recs now).2) now) (ChunkStore.sweep recs now).1 := by
  intro k l' hk ⟨x, hx, hxs⟩
  obtain ⟨l1, h1, hs1, _, _⟩ := sweep_clean _ now k l' hk
  obtain ⟨l, h0, hs0, hw⟩ := withdrawAll_shrinks self _ t k l1 h1
  obtain ⟨r, hr⟩ := h k l h0 ⟨x, hs0.2 x (hs1.2 x hx), hxs⟩
  by_cases hexp : ChunkStore.expiredSweep now r.expires = true
  · -- then k was swept and the node's announcement withdrawn: contradiction
    exfalso
    have hk' : k ∈ (ChunkStore.sweep recs now).2 := by
      simp only [ChunkStore.sweep, List.mem_map, List.mem_filter]
      exact ⟨(k, r), ⟨hr, hexp⟩, rfl⟩
    exact hw hk' x (hs1.2 x hx) hxs
  · exact ⟨r, List.mem_filter.mpr ⟨hr, by simpa using hexp⟩⟩

theorem plansOk_rebalance {cache plans : List (String × Int)} (h : PlansOk cache plans) (now nxt : Int) :
    PlansOk cache (plans.filterMap fun e =>
      if now < e.2 then some e
      else match aget cache e.1 with
        | none => none
        | some _ => some (e.1, nxt)) := by
  intro e he
  obtain ⟨a, ha, hf⟩ := List.mem_filterMap.mp he
  have hs := h a ha
  split at hf
  · cases hf; exact hs
  · split at hf
    · cases hf
    · cases hf; exact hs

/-! ### every operation preserves the invariant -/

theorem inv_init (cfg : Cfg) (t0 : Int) : Inv cfg (State.init cfg t0) := by
  refine ⟨Int.le_refl _, ?_, ?_, ?_, ?_, ?_, ?_, ?_⟩
  · intro e he; simp [State.init] at he
  · intro c l hl; simp [State.init, Providers.Table.empty] at hl
  · intro i x hx; simp [State.init, Routing.Table.empty] at hx
  · intro e he; simp [State.init] at he
  · intro e he; simp [State.init] at he
  · intro e he; simp [State.init] at he
  · intro c l hl; simp [State.init, Providers.Table.empty] at hl

theorem inv_acceptManifest {cfg : Cfg} {s : State} (h : Inv cfg s) (c : String) {e t : Int}
    (he : wall cfg s < e) (ht : 0 < t) : Inv cfg (acceptManifest cfg s c e t) := by
  have htime := h.time
  refine ⟨htime, h.recs, h.locs, h.routes, ?_, ?_, ?_, h.self⟩
  · exact listOk_aset h.shards c (by have := mul_ns_pos ht; omega)
  · exact listOk_aset h.cache c (by simp only [wall] at he; omega)
  · exact plansOk_aset h.plans c e _

theorem inv_selfAnnounce {cfg : Cfg} {s : State} (h : Inv cfg s) (c : String) (ttlNs : Int) (hint : Option (List String))
    (hlt : s.lastCleanup < s.now + ttlNs) (hr : ∃ r, (c, r) ∈ s.recs) : Inv cfg (selfAnnounce cfg s c ttlNs hint) :=
  ⟨h.time, h.recs, locsOk_addContact h.locs c cfg.self ttlNs hint hlt, routesOk_add h.routes _ ttlNs hlt,
   h.shards, h.cache, h.plans, selfOk_addContact h.self s.now c cfg.self ttlNs hint (fun _ => hr)⟩

theorem inv_store {cfg : Cfg} {s : State} (h : Inv cfg s) (c : String) (ttl : Int) (hint : Option (List String)) :
    Inv cfg (store cfg s c ttl hint) := by
  have htime := h.time
  have hpos := mul_ns_pos (nodeTtl_pos cfg.node ttl)
  have hlt : s.lastCleanup < s.now + ChunkStore.nodeTtl cfg.node ttl * ns := by omega
  refine ⟨htime, ?_, ?_, ?_, ?_, ?_, ?_, ?_⟩
  · exact recsOk_put h.recs htime _ _ _ _ _ _ _
  · exact locsOk_addContact h.locs c cfg.self _ hint hlt
  · exact routesOk_add h.routes _ _ hlt
  · exact listOk_aset h.shards c hlt
  · exact listOk_aset h.cache c (by simp only [wall]; omega)
  · exact plansOk_aset h.plans c _ _
  · exact selfOk_addContact (selfOk_put h.self _ _ _ _ _ _ _ _) s.now c cfg.self _ hint
      (fun _ => ⟨_, mem_aset_self _ _ _⟩)

theorem inv_ingest {cfg : Cfg} {s : State} (h : Inv cfg s) (c : String) (e : Int) (same : Bool) :
    Inv cfg (ingest cfg s c e same) := by
  unfold ingest
  split
  · exact h
  · rename_i t ht
    obtain ⟨h1, h2⟩ := manifestTtl_some ht
    split
    · exact h
    · exact inv_acceptManifest h c h1 h2

theorem inv_announce {cfg : Cfg} {s : State} (h : Inv cfg s) (c : String) (e : Int) (same : Bool) (p : String)
    (pid : Routing.Id) (addr : String) (ttl : Int) (hint : Option (List String)) (hp : p ≠ cfg.self) :
    Inv cfg (announce cfg s c e same p pid addr ttl hint) := by
  unfold announce
  split
  · exact h
  · rename_i t ht
    obtain ⟨h1, h2⟩ := manifestTtl_some ht
    -- whether or not the manifest is adopted, the intermediate state satisfies the invariant and keeps the clock
    have h' : Inv cfg (if (EphVerif.Gen.C05.announceGuardsHeld && !(keepsReadable s c same)) = true then s
        else acceptManifest cfg s c e t) := by
      split
      · exact h
      · exact inv_acceptManifest h c h1 h2
    have hl : (if (EphVerif.Gen.C05.announceGuardsHeld && !(keepsReadable s c same)) = true then s
        else acceptManifest cfg s c e t).lastCleanup = s.lastCleanup := by split <;> rfl
    generalize (if (EphVerif.Gen.C05.announceGuardsHeld && !(keepsReadable s c same)) = true then s
        else acceptManifest cfg s c e t) = s1 at h' hl ⊢
    simp only
    split
    · exact h'
    · have hpos := mul_ns_pos (clampChunkTtl_pos
        (if (if ttl > 0 then ttl else t) > t then t else (if ttl > 0 then ttl else t)) cfg.node.minTtl cfg.node.maxTtl)
      have htime := h.time
      exact ⟨h'.time, h'.recs,
        locsOk_addContact h'.locs c p _ hint (by rw [hl]; omega),
        routesOk_add h'.routes _ _ (by rw [hl]; omega),
        h'.shards, h'.cache, h'.plans,
        selfOk_addContact h'.self s.now c p _ hint (fun hh => absurd hh hp)⟩

theorem getRecord_mem {recs : Recs} {now : Int} {c : String} {r : ChunkStore.Rec}
    (h : ChunkStore.getRecord recs now c = some r) : (c, r) ∈ recs ∧ now < r.expires := by
  unfold ChunkStore.getRecord at h
  split at h
  · cases h
  · rename_i r' hr
    split at h
    · cases h
    · rename_i hx
      cases h
      refine ⟨ChunkStore.mem_of_aget hr, ?_⟩
      have hn : ¬ (ChunkStore.expiredGet now r.expires = true) := hx
      rw [ChunkStore.expiredGet_iff] at hn
      omega

theorem inv_reannounce {cfg : Cfg} {s : State} (h : Inv cfg s) (c : String) (ttl : Int) (hint : Option (List String)) :
    Inv cfg (reannounce cfg s c ttl hint) := by
  unfold reannounce
  split
  · exact h
  · rename_i r hr
    obtain ⟨hm, hl⟩ := getRecord_mem hr
    split
    · exact h
    · rename_i hge
      have htime := h.time
      exact inv_selfAnnounce h c _ hint (by omega) ⟨r, hm⟩

theorem inv_probe {cfg : Cfg} {s : State} (h : Inv cfg s) (c : String) : Inv cfg (probe s c) :=
  ⟨h.time, h.recs, locsOk_of_shrinks h.locs (findProviders_shrinks s.locs s.now c), h.routes, h.shards, h.cache,
   h.plans, selfOk_of_shrinks h.self (findProviders_shrinks s.locs s.now c)⟩

theorem inv_lookup {cfg : Cfg} {s : State} (h : Inv cfg s) (c : String) : Inv cfg (lookup cfg s c) := by
  unfold lookup
  split
  · split
    · exact h
    · split
      · exact h
      · split
        · rename_i t ht
          obtain ⟨_, h2⟩ := manifestTtl_some ht
          have htime := h.time
          exact ⟨h.time, h.recs, h.locs, h.routes, listOk_aset h.shards c (by have := mul_ns_pos h2; omega), h.cache,
            h.plans, h.self⟩
        · exact h
  · exact inv_probe h c

theorem cleanup_eq (cfg : Cfg) (s : State) :
    cleanup cfg s =
      { s with recs := (ChunkStore.sweep s.recs s.now).1,
               notes := s.notes ++ (ChunkStore.sweep s.recs s.now).2,
               locs := Providers.sweep (withdrawAll s.locs cfg.self (ChunkStore.sweep s.recs s.now).2) s.now,
               routes := Routing.sweepBuckets s.routes s.now,
               shards := s.shards.filter (fun e => !(shardDead s.now e.2)),
               cache := s.cache.filter (fun e => !(manifestDead (wall cfg s) e.2)),
               plans := s.plans.filter (fun e => !(planDead s.cache (wall cfg s) e.1)),
               lastCleanup := s.now } := rfl

theorem inv_cleanup {cfg : Cfg} {s : State} (h : Inv cfg s) : Inv cfg (cleanup cfg s) := by
  rw [cleanup_eq]
  exact ⟨Int.le_refl _, recsOk_sweep _ _, locsOk_sweep _ _, routesOk_sweep _ _, shardsOk_filter _ _,
    cacheOk_filter _ _, plansOk_cleanup h.plans _, selfOk_cleanup h.self _⟩

theorem inv_rebalance {cfg : Cfg} {s : State} (h : Inv cfg s) : Inv cfg (rebalance cfg s) :=
  ⟨h.time, h.recs, h.locs, h.routes, h.shards, h.cache, plansOk_rebalance h.plans _ _, h.self⟩

theorem inv_tick {cfg : Cfg} {s : State} (h : Inv cfg s) : Inv cfg (tick cfg s) := by
  unfold tick
  split
  · exact inv_rebalance (inv_cleanup h)
  · exact inv_rebalance h

theorem inv_step {cfg : Cfg} {s : State} (h : Inv cfg s) (op : Op) (hw : OpWf cfg op) : Inv cfg (step cfg s op) := by
  cases op with
  | adv d =>
    have := h.time
    exact ⟨by show s.lastCleanup ≤ s.now + d; omega, h.recs, h.locs, h.routes, h.shards, h.cache, h.plans, h.self⟩
  | store c ttl hint => exact inv_store h c ttl hint
  | ingest c e same => exact inv_ingest h c e same
  | announce c e same p pid addr ttl hint => exact inv_announce h c e same p pid addr ttl hint hw
  | reannounce c ttl hint => exact inv_reannounce h c ttl hint
  | lookup c => exact inv_lookup h c
  | probe c => exact inv_probe h c
  | tick => exact inv_tick h
  | drain => exact ⟨h.time, h.recs, h.locs, h.routes, h.shards, h.cache, h.plans, h.self⟩
  | audit => exact h

theorem run_s_append (cfg : Cfg) (r : Run) (ops : List Op) (op : Op) :
    run cfg r (ops ++ [op]) = exec cfg (run cfg r ops) op := by
  simp [run, List.foldl_append]

theorem inv_run {cfg : Cfg} {r : Run} (h : Inv cfg r.s) (ops : List Op) (hw : OpsWf cfg ops) :
    Inv cfg (run cfg r ops).s := by
  induction ops generalizing r with
  | nil => exact h
  | cons op ops ih =>
    simp only [run, List.foldl_cons]
    exact ih (r := exec cfg r op) (inv_step h op (hw op (List.mem_cons_self ..)))
      (fun o ho => hw o (List.mem_cons_of_mem _ ho))

/-! ### from the invariant to the specification's judgement -/

open EphVerif.C05Spec (judgeDump judgeAudit staleSelf)

theorem judgeDump_of_inv {cfg : Cfg} {s : State} (h : Inv cfg s) (ks : List String) (nameOf : Routing.Id → String) :
    judgeDump cfg.self s.lastCleanup (s.lastCleanup + cfg.wallOff) (dumpOf ks nameOf s) = none := by
  have h1 : (dumpOf ks nameOf s).chunks.any (fun e => decide (e.2 ≤ s.lastCleanup)) = false := by
    rw [List.any_eq_false]
    intro e he
    simp only [dumpOf, List.mem_map] at he
    obtain ⟨a, ha, rfl⟩ := he
    have := h.recs a ha
    simp only [decide_eq_true_eq]; omega
  have hloc : ∀ x ∈ (dumpOf ks nameOf s).locators, ∃ l, s.locs x.1 = some l ∧ x.2.1 = l.exp ∧
      x.2.2 = l.holders.map (fun h => (h.peer, h.exp)) := by
    intro x hx
    simp only [dumpOf, List.mem_filterMap] at hx
    obtain ⟨c, _, hc⟩ := hx
    cases hl : s.locs c with
    | none => rw [hl] at hc; cases hc
    | some l => rw [hl] at hc; cases hc; exact ⟨l, hl, rfl, rfl⟩
  have h2 : (dumpOf ks nameOf s).locators.any (fun l => l.2.2.any (fun h => decide (h.2 ≤ s.lastCleanup))) = false := by
    rw [List.any_eq_false]
    intro x hx
    obtain ⟨l, hl, _, hh⟩ := hloc x hx
    rw [hh, Bool.not_eq_true, List.any_eq_false]
    intro y hy
    obtain ⟨a, ha, rfl⟩ := List.mem_map.mp hy
    have := (h.locs x.1 l hl).2 a ha
    simp only [decide_eq_true_eq]; omega
  have h3 : (dumpOf ks nameOf s).contacts.any (fun e => decide (e.2 ≤ s.lastCleanup)) = false := by
    rw [List.any_eq_false]
    intro e he
    simp only [dumpOf, List.mem_map] at he
    obtain ⟨a, ha, rfl⟩ := he
    obtain ⟨i, hi⟩ := mem_allContacts ha
    have := h.routes i a hi
    simp only [decide_eq_true_eq]; omega
  have h4 : (dumpOf ks nameOf s).locators.any (fun l => decide (l.2.1 ≤ s.lastCleanup)) = false := by
    rw [List.any_eq_false]
    intro x hx
    obtain ⟨l, hl, he, _⟩ := hloc x hx
    have := (h.locs x.1 l hl).1
    simp only [decide_eq_true_eq]; omega
  have h5 : (dumpOf ks nameOf s).shards.any (fun e => decide (e.2 ≤ s.lastCleanup)) = false := by
    rw [List.any_eq_false]
    intro e he
    have := h.shards e he
    simp only [decide_eq_true_eq]; omega
  have h6 : (dumpOf ks nameOf s).manifests.any (fun e => decide (e.2 ≤ s.lastCleanup + cfg.wallOff)) = false := by
    rw [List.any_eq_false]
    intro e he
    have := h.cache e he
    simp only [decide_eq_true_eq]; omega
  have h7 : (dumpOf ks nameOf s).plans.any (C05Spec.planDead (s.lastCleanup + cfg.wallOff)) = false := by
    rw [List.any_eq_false]
    intro e he
    simp only [dumpOf, List.mem_map] at he
    obtain ⟨a, ha, rfl⟩ := he
    have hs := h.plans a ha
    cases hc : aget s.cache a.1 with
    | none => rw [hc] at hs; cases hs
    | some v =>
      have := h.cache (a.1, v) (ChunkStore.mem_of_aget hc)
      simp only [C05Spec.planDead, decide_eq_true_eq]
      omega
  have h8 : (dumpOf ks nameOf s).locators.any (staleSelf cfg.self (dumpOf ks nameOf s).chunks) = false := by
    rw [List.any_eq_false]
    intro x hx
    obtain ⟨l, hl, _, hh⟩ := hloc x hx
    simp only [staleSelf, Bool.and_eq_true, Bool.not_eq_true', not_and, Bool.not_eq_false]
    intro hany
    rw [hh, List.any_eq_true] at hany
    obtain ⟨y, hy, hys⟩ := hany
    obtain ⟨a, ha, rfl⟩ := List.mem_map.mp hy
    obtain ⟨r, hr⟩ := h.self x.1 l hl ⟨a, ha, by simpa using hys⟩
    rw [List.any_eq_true]
    exact ⟨(x.1, r.expires), by simp only [dumpOf, List.mem_map]; exact ⟨(x.1, r), hr, rfl⟩, by simp⟩
  simp only [judgeDump, h1, h2, h3, h4, h5, h6, h7, h8, Bool.false_eq_true, if_false]

theorem judgeAudit_of_inv {cfg : Cfg} {s : State} (h : Inv cfg s) (hnow : s.lastCleanup = s.now) (ks : List String) :
    judgeAudit (audit cfg ks s) = none := by
  have hloc : ∀ x ∈ ks.eraseDups.filterMap (fun c => (s.locs c).map fun l => (c, l)), s.locs x.1 = some x.2 := by
    intro x hx
    obtain ⟨c, _, hc⟩ := List.mem_filterMap.mp hx
    cases hl : s.locs c with
    | none => rw [hl] at hc; cases hc
    | some l => rw [hl] at hc; cases hc; exact hl
  have e1 : (audit cfg ks s).expiredLocal = [] := by
    simp only [audit, List.map_eq_nil_iff, List.filter_eq_nil_iff]
    intro e he
    have := h.recs e he
    simp only [cmp, EphVerif.Gen.C05.auditLocalIsGe, if_true, decide_eq_true_eq]
    omega
  have e2 : (audit cfg ks s).expiredLocators = [] := by
    simp only [audit, List.map_eq_nil_iff, List.filter_eq_nil_iff]
    intro x hx
    have := (h.locs x.1 x.2 (hloc x hx)).1
    simp only [cmp, EphVerif.Gen.C05.auditLocatorIsGe, if_true, decide_eq_true_eq]
    omega
  have e3 : (audit cfg ks s).expiredContacts = [] := by
    simp only [audit, List.flatMap_eq_nil_iff, List.map_eq_nil_iff, List.filter_eq_nil_iff]
    intro x hx y hy
    have := (h.locs x.1 x.2 (hloc x hx)).2 y hy
    simp only [cmp, EphVerif.Gen.C05.auditContactIsGe, if_true, decide_eq_true_eq]
    omega
  have e4 : (audit cfg ks s).orphans = [] := by
    simp only [audit, List.map_eq_nil_iff, List.filter_eq_nil_iff]
    intro x hx
    simp only [Bool.and_eq_true, Bool.not_eq_true', not_and, Bool.not_eq_false]
    intro hany
    rw [List.any_eq_true] at hany
    obtain ⟨y, hy, hys⟩ := hany
    obtain ⟨r, hr⟩ := h.self x.1 x.2 (hloc x hx) ⟨y, hy, by simpa using hys⟩
    rw [List.contains_iff_mem]
    exact List.mem_map.mpr ⟨(x.1, r), hr, rfl⟩
  simp [judgeAudit, e1, e2, e3, e4]

end EphVerif.C05L
