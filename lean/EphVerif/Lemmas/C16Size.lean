/-
C16: the decoder's length arithmetic is done in `std::size_t`; the model uses `Nat`.  Every
intermediate sum the decoder forms from 32-bit length fields is below 2^64, so on LP64 the C++
arithmetic cannot wrap and coincides with the model's.  (On a 32-bit `size_t` these sums *could*
wrap; the claim is for LP64 only and is listed as an assumption of the check.)  Core Lean only.
-/
import EphVerif.Lemmas.C15Bytes

namespace EphVerif.Message
open EphVerif.Gen.C15

/-- `parse_announce_payload`: `expected_size = cursor + 32 + 32 + endpoint_len + manifest_len + assignments_len + extra` -/
theorem announce_expectedSize_fits {d : Bytes} {el ml al extra : Nat}
    (h1 : rdU32 d 4 = some el) (h2 : rdU32 d 8 = some ml) (h3 : rdU32 d 12 = some al) (he : extra ≤ 8) :
    16 + kChunkIdSize + kPeerIdSize + el + ml + al + extra < 2 ^ 64 := by
  obtain ⟨_, _, _, _, a⟩ := rdU32_eq_some h1
  obtain ⟨_, _, _, _, b⟩ := rdU32_eq_some h2
  obtain ⟨_, _, _, _, c⟩ := rdU32_eq_some h3
  have hc : kChunkIdSize = 32 := rfl
  have hp : kPeerIdSize = 32 := rfl
  omega

/-- `decode_payload_v1`, Chunk: `expected = 8 + 32 + data_len` -/
theorem chunk_expected_fits {d : Bytes} {dl : Nat} (h : rdU32 d 4 = some dl) : 8 + kChunkIdSize + dl < 2 ^ 64 := by
  obtain ⟨_, _, _, _, a⟩ := rdU32_eq_some h
  have hc : kChunkIdSize = 32 := rfl
  omega

/-- every cursor position used for a read is within the (already checked) expected size -/
theorem announce_cursor_le {el ml al extra : Nat} :
    16 + kChunkIdSize + kPeerIdSize + el + ml + al ≤ 16 + kChunkIdSize + kPeerIdSize + el + ml + al + extra := by
  omega

end EphVerif.Message
