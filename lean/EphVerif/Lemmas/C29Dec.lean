/-
Decimal rendering and parsing (`std::to_string` / `from_chars`) are inverse on `uint64`,
and a rendered number contains only digits (C29).
-/
import EphVerif.Model.ControlWire

namespace EphVerif.Control

theorem digit_toNat (d : Nat) : (digit d).toNat = 48 + d % 10 := by
  unfold digit
  rw [UInt8.toNat_ofNat']
  have : d % 10 < 10 := Nat.mod_lt _ (by decide)
  omega

theorem isDigit_digit (d : Nat) : isDigit (digit d) = true := by
  unfold isDigit
  rw [digit_toNat]
  have : d % 10 < 10 := Nat.mod_lt _ (by decide)
  simp only [Bool.and_eq_true, decide_eq_true_eq]
  omega

theorem toDec_digits : ∀ (n : Nat), ∀ c ∈ toDec n, isDigit c = true := by
  intro n
  induction n using Nat.strongRecOn with
  | _ n ih =>
    intro c hc
    rw [toDec] at hc
    split at hc
    · have : c = digit n := by simpa using hc
      rw [this]; exact isDigit_digit n
    · rename_i h
      rcases List.mem_append.mp hc with hc | hc
      · exact ih (n / 10) (by omega) c hc
      · have : c = digit (n % 10) := by simpa using hc
        rw [this]; exact isDigit_digit _

theorem toDec_ne_nil (n : Nat) : toDec n ≠ [] := by
  rw [toDec]
  split
  · simp
  · simp

theorem ofDecAux_append (l : Bytes) (d : Nat) : ∀ (acc : Nat),
    ofDecAux (l ++ [digit d]) acc =
      (ofDecAux l acc).bind fun a => if a * 10 + d % 10 < 18446744073709551616 then some (a * 10 + d % 10) else none := by
  induction l with
  | nil =>
    intro acc
    have h1 := isDigit_digit d
    have h2 := digit_toNat d
    simp only [List.nil_append, ofDecAux, h1, ↓reduceIte, h2, Option.bind_some]
    have : 48 + d % 10 - 48 = d % 10 := by omega
    rw [this]
  | cons c l ih =>
    intro acc
    simp only [List.cons_append, ofDecAux]
    split
    · split
      · exact ih _
      · rfl
    · rfl

theorem ofDecAux_toDec : ∀ (n : Nat), n < 18446744073709551616 → ofDecAux (toDec n) 0 = some n := by
  intro n
  induction n using Nat.strongRecOn with
  | _ n ih =>
    intro hn
    rw [toDec]
    split
    · rename_i h
      have h1 := isDigit_digit n
      have h2 := digit_toNat n
      simp only [ofDecAux, h1, ↓reduceIte, h2]
      have : 0 * 10 + (48 + n % 10 - 48) = n := by omega
      rw [this]
      simp [hn]
    · rename_i h
      rw [ofDecAux_append, ih (n / 10) (by omega) (by omega)]
      simp only [Option.bind_some]
      have : n / 10 * 10 + n % 10 % 10 = n := by omega
      rw [this]
      simp [hn]

/-- `from_chars(to_string(n)) = n` for every `uint64` -/
theorem parseU64_toDec (n : Nat) (hn : n < 18446744073709551616) : parseU64 (toDec n) = some n := by
  unfold parseU64
  have : (toDec n).isEmpty = false := by
    cases h : toDec n with
    | nil => exact absurd h (toDec_ne_nil n)
    | cons _ _ => rfl
  simp only [this, Bool.false_eq_true, ↓reduceIte]
  exact ofDecAux_toDec n hn

/-- a digit is none of the bytes the framing cares about -/
theorem isDigit_ne {c : UInt8} (h : isDigit c = true) : c ≠ 10 ∧ c ≠ 13 ∧ c ≠ 92 ∧ c ≠ 58 ∧ c ≠ 9 ∧ c ≠ 44 := by
  unfold isDigit at h
  simp only [Bool.and_eq_true, decide_eq_true_eq] at h
  refine ⟨?_, ?_, ?_, ?_, ?_, ?_⟩ <;> (intro hc; subst hc; simp at h)

end EphVerif.Control
