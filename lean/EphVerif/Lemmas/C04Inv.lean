/-
The directory invariant of the ChunkStore model and its preservation along histories with
restarts and crashes (C04).
-/
import EphVerif.Lemmas.C04Sweep
import EphVerif.Lemmas.C01Run

namespace EphVerif.ChunkStore
open EphVerif.StoreSpec (Op)

/-- persistence and wipe-on-expiry are enabled (the premise of property C04) -/
def PersistCfg (cfg : Cfg) : Prop := cfg.persistent = true ∧ cfg.wipeOnExpiry = true

/-- Directory invariant of a running instance: the chunk files are exactly the records' data,
    and every record was still live at the most recent cleanup (`cleaned`). -/
structure SInv (y : Sys) (cleaned now : Int) : Prop where
  uniq : Uniq y.recs
  persisted : ∀ id r, aget y.recs id = some r → r.persisted = true
  files : ∀ id, aget y.fs (.chunk id) = (aget y.recs id).map (·.data)
  live : ∀ id r, aget y.recs id = some r → cleaned < r.expires
  cleaned_le : cleaned ≤ now

theorem effTtl_pos (cfg : Cfg) (ttl : Int) : 1 ≤ effTtl cfg ttl := by
  simp only [effTtl, EphVerif.Gen.C01.kMinimumTtlSec]
  split <;> split <;> omega

theorem sinv_put {cfg : Cfg} (hc : PersistCfg cfg) {y : Sys} {c now : Int} (h : SInv y c now)
    (id : String) (data plain : Bytes) (ttl : Int) (nonce : Bytes) (enc : Bool) :
    SInv (sysPut cfg y now id data plain ttl nonce enc) c now := by
  refine ⟨uniq_aset h.uniq _ _, ?_, ?_, ?_, h.cleaned_le⟩
  · intro id' r hr
    by_cases hid : id = id'
    · subst hid
      simp only [sysPut, put, aget_aset_self] at hr
      cases hr; exact hc.1
    · simp only [sysPut, put, aget_aset_ne _ _ hid] at hr
      exact h.persisted id' r hr
  · intro id'
    by_cases hid : id = id'
    · subst hid
      simp only [sysPut, put, aget_aset_self, putOps_self cfg hc.1]
      rfl
    · have hne : Name.chunk id ≠ Name.chunk id' := by intro hh; cases hh; exact hid rfl
      simp only [sysPut, put, aget_aset_ne _ _ hid, putOps_other _ _ _ _ _ hne]
      exact h.files id'
  · intro id' r hr
    by_cases hid : id = id'
    · subst hid
      simp only [sysPut, put, aget_aset_self] at hr
      cases hr
      have := effTtl_pos cfg ttl
      have := h.cleaned_le
      simp only [mkRec, nsPerSec]
      omega
    · simp only [sysPut, put, aget_aset_ne _ _ hid] at hr
      exact h.live id' r hr

theorem sinv_sweep {cfg : Cfg} (hc : PersistCfg cfg) {y : Sys} {c now : Int} (h : SInv y c now) :
    SInv (sysSweep cfg y now).1 now now := by
  refine ⟨uniq_filter h.uniq _, ?_, ?_, ?_, Int.le_refl _⟩
  · intro id r hr
    simp only [sysSweep, sweep] at hr
    rw [aget_filter h.uniq] at hr
    cases hg : aget y.recs id with
    | none => simp [hg] at hr
    | some r' =>
      simp only [hg] at hr
      split at hr
      · cases hr; exact h.persisted id _ hg
      · cases hr
  · intro id
    simp only [sysSweep, sweep]
    rw [aget_filter h.uniq]
    cases hg : aget y.recs id with
    | none =>
      simp only [Option.map]
      rw [sweepOps_keep]
      · rw [h.files id, hg]; rfl
      · intro id' r' hm _ heq
        cases heq
        rw [aget_of_mem h.uniq hm] at hg; cases hg
    | some r =>
      simp only []
      by_cases hx : expiredSweep now r.expires = true
      · simp only [hx, Bool.not_true]
        have hw : wiped cfg now r = true := by simp [wiped, hx, h.persisted id r hg, hc.2]
        rw [sweepOps_gone cfg now y.recs h.uniq y.fs id r (mem_of_aget hg) hw]
        rfl
      · simp only [Bool.not_eq_true] at hx
        simp only [hx, Bool.not_false, if_true]
        rw [sweepOps_keep]
        · rw [h.files id, hg]
        · intro id' r' hm hw heq
          cases heq
          rw [aget_of_mem h.uniq hm] at hg; cases hg
          simp [wiped, hx] at hw
  · intro id r hr
    simp only [sysSweep, sweep] at hr
    rw [aget_filter h.uniq] at hr
    cases hg : aget y.recs id with
    | none => simp [hg] at hr
    | some r' =>
      simp only [hg] at hr
      split at hr
      · rename_i hx
        cases hr
        simp only [Bool.not_eq_true', ] at hx
        have : ¬ r.expires ≤ now := fun hh => by
          have := (expiredSweep_iff now r.expires).mpr hh
          rw [this] at hx; cases hx
        omega
      · cases hr

theorem sinv_boot {cfg : Cfg} (hc : PersistCfg cfg) (fs : FS) (now : Int) : SInv (boot cfg fs) now now := by
  refine ⟨List.Pairwise.nil, ?_, ?_, ?_, Int.le_refl _⟩
  · intro id r hr; simp [boot, aget] at hr
  · intro id
    rw [boot_no_chunk cfg hc.1 hc.2]
    simp [boot, aget]
  · intro id r hr; simp [boot, aget] at hr

theorem sinv_mono {y : Sys} {c now now' : Int} (h : SInv y c now) (hle : now ≤ now') : SInv y c now' :=
  ⟨h.uniq, h.persisted, h.files, h.live, Int.le_trans h.cleaned_le hle⟩

/-- invariant of a history state: when an instance is running, its directory invariant holds -/
def HInv (h : HWorld) : Prop := h.up = true → SInv h.w.sys h.cleaned h.w.now

theorem hinv_step {nc : NodeCfg} (hc : PersistCfg nc.store) {h : HWorld} (hi : HInv h) (o : HOp) :
    HInv (hstep nc h o) := by
  cases o with
  | op o =>
    by_cases hup : h.up = true
    · have hs := hi hup
      simp only [hstep, hup, if_true]
      intro _
      cases o with
      | store id data ttl nonce enc => exact sinv_put hc hs id data data ttl nonce enc
      | nstore id plain cipher nonce ttl => exact sinv_put hc hs id cipher plain _ nonce true
      | lookup id => exact hs
      | record id => exact hs
      | fetch id => exact hs
      | request id => exact hs
      | list => exact hs
      | sweep => exact sinv_sweep hc hs
      | tick =>
        simp only [step, sweeps, nodeTick]
        by_cases hcnd : h.w.now - h.w.lastCleanup ≥ nc.cleanupInterval * nsPerSec
        · simp only [hcnd, if_true, decide_true]
          exact sinv_sweep hc hs
        · simp only [hcnd, if_false, decide_false]
          exact hs
      | advance d =>
        simp only [step, sweeps]
        exact sinv_mono hs (by omega)
    · simp only [Bool.not_eq_true] at hup
      intro hup'
      exfalso
      cases o <;> simp [hstep, hup] at hup'
  | restart =>
    intro _
    exact sinv_boot hc _ _
  | crash o k =>
    intro hup'
    simp only [hstep] at hup'
    split at hup'
    · simp at hup'
    · rename_i hdown; exact absurd hup' hdown
  | crashBoot k => intro hup'; simp [hstep] at hup'

theorem hinv_run {nc : NodeCfg} (hc : PersistCfg nc.store) (ops : List HOp) {h : HWorld} (hi : HInv h) :
    HInv (hrun nc h ops) := by
  induction ops generalizing h with
  | nil => exact hi
  | cons o r ih => exact ih (hinv_step hc hi o)

/-- non-chunk entries of the directory are never modified, whatever happens -/
theorem other_step (nc : NodeCfg) (h : HWorld) (o : HOp) (n : String) :
    aget (hstep nc h o).w.sys.fs (.other n) = aget h.w.sys.fs (.other n) := by
  have hput : ∀ (cfg : Cfg) (s : Recs) (fs : FS) (id : String) (data : Bytes),
      aget (applyOps fs (putOps cfg s fs id data)) (.other n) = aget fs (.other n) :=
    fun cfg s fs id data => putOps_other cfg s fs id data (by simp)
  have hsw : ∀ (cfg : Cfg) (now : Int) (s : Recs) (fs : FS),
      aget (applyOps fs (sweepOps cfg now s fs)) (.other n) = aget fs (.other n) :=
    fun cfg now s fs => ops_other_untouched (sweepOps_touches_chunks cfg now s fs) fs n
  cases o with
  | op o =>
    simp only [hstep]
    split
    · cases o with
      | store id data ttl nonce enc => exact hput _ _ _ _ _
      | nstore id plain cipher nonce ttl => exact hput _ _ _ _ _
      | sweep => exact hsw _ _ _ _
      | tick =>
        simp only [step, nodeTick]
        split
        · exact hsw _ _ _ _
        · rfl
      | lookup id => rfl
      | record id => rfl
      | fetch id => rfl
      | request id => rfl
      | list => rfl
      | advance d => rfl
    · cases o <;> rfl
  | restart => exact boot_other _ _ _
  | crash o k =>
    simp only [hstep]
    split
    · simp only []
      cases o with
      | store id data ttl nonce enc =>
        exact applyOps_other (by simp) _ _ (take_touches (putOps_touches _ _ _ _ _) k)
      | nstore id plain cipher nonce ttl =>
        exact applyOps_other (by simp) _ _ (take_touches (putOps_touches _ _ _ _ _) k)
      | sweep =>
        exact ops_other_untouched (fun o ho => sweepOps_touches_chunks _ _ _ _ o (List.mem_of_mem_take ho)) _ n
      | tick =>
        simp only [fsOpsOf]
        split
        · exact ops_other_untouched (fun o ho => sweepOps_touches_chunks _ _ _ _ o (List.mem_of_mem_take ho)) _ n
        · simp [applyOps]
      | lookup id => simp [fsOpsOf, applyOps]
      | record id => simp [fsOpsOf, applyOps]
      | fetch id => simp [fsOpsOf, applyOps]
      | request id => simp [fsOpsOf, applyOps]
      | list => simp [fsOpsOf, applyOps]
      | advance d => simp [fsOpsOf, applyOps]
    · rfl
  | crashBoot k =>
    simp only [hstep, ctorOps]
    split
    · exact ops_other_untouched (fun o ho => purgeOps_touches_chunks _ _ _ o (List.mem_of_mem_take ho)) _ n
    · simp [applyOps]

theorem other_run (nc : NodeCfg) (ops : List HOp) (h : HWorld) (n : String) :
    aget (hrun nc h ops).w.sys.fs (.other n) = aget h.w.sys.fs (.other n) := by
  induction ops generalizing h with
  | nil => rfl
  | cons o r ih =>
    simp only [hrun, List.foldl_cons] at ih ⊢
    rw [ih, other_step]


open EphVerif.StoreSpec (Op Params W last)

/-- The abstract store along a history with restarts: the chunks of an instance die with it. -/
def hspecStep (p : Params) (up : Bool) (a : W) : HOp → W
  | .op o => if up then StoreSpec.step p a o else
      match o with
      | .advance d => { a with now := a.now + d }
      | _ => a
  | .restart => { a with s := [] }
  | .crash _ _ => if up then { a with s := [] } else a
  | .crashBoot _ => { a with s := [] }

/-- model and abstract store run side by side -/
def hrun2 (nc : NodeCfg) (p : Params) : HWorld × W → List HOp → HWorld × W
  | x, [] => x
  | x, o :: r => hrun2 nc p (hstep nc x.1 o, hspecStep p x.1.up x.2 o) r

theorem hrun2_fst (nc : NodeCfg) (p : Params) (x : HWorld × W) (ops : List HOp) :
    (hrun2 nc p x ops).1 = hrun nc x.1 ops := by
  induction ops generalizing x with
  | nil => rfl
  | cons o r ih => simp only [hrun2, hrun, List.foldl_cons] at ih ⊢; rw [ih]

/-- while nobody runs, the table is empty and so is the abstract store -/
def HRel (h : HWorld) (a : W) : Prop := Rel h.w a ∧ (h.up = false → h.w.sys.recs = [] ∧ a.s = [])

theorem rel_empty {w : World} {a : W} (hn : w.now = a.now) (hr : w.sys.recs = []) (hs : a.s = []) : Rel w a :=
  ⟨hn, by rw [hr]; exact List.Pairwise.nil, by intro id r h; simp [hr, aget] at h,
   by intro id e h; simp [hs, last] at h⟩

theorem hrel_step {nc : NodeCfg} (hs : SaneCfg nc) {h : HWorld} {a : W} (hr : HRel h a) (o : HOp) :
    HRel (hstep nc h o) (hspecStep (paramsOf nc) h.up a o) := by
  obtain ⟨hrel, hdown⟩ := hr
  cases o with
  | op o =>
    by_cases hup : h.up = true
    · simp only [hstep, hspecStep, hup, if_true]
      exact ⟨rel_step hs hrel o, fun hf => by simp at hf⟩
    · simp only [Bool.not_eq_true] at hup
      obtain ⟨h1, h2⟩ := hdown hup
      cases o with
      | advance d =>
        simp only [hstep, hspecStep, hup]
        exact ⟨rel_advance hrel d, fun _ => ⟨h1, h2⟩⟩
      | store id data ttl nonce enc => simp only [hstep, hspecStep, hup]; exact ⟨hrel, fun _ => ⟨h1, h2⟩⟩
      | nstore id plain cipher nonce ttl => simp only [hstep, hspecStep, hup]; exact ⟨hrel, fun _ => ⟨h1, h2⟩⟩
      | lookup id => simp only [hstep, hspecStep, hup]; exact ⟨hrel, fun _ => ⟨h1, h2⟩⟩
      | record id => simp only [hstep, hspecStep, hup]; exact ⟨hrel, fun _ => ⟨h1, h2⟩⟩
      | fetch id => simp only [hstep, hspecStep, hup]; exact ⟨hrel, fun _ => ⟨h1, h2⟩⟩
      | request id => simp only [hstep, hspecStep, hup]; exact ⟨hrel, fun _ => ⟨h1, h2⟩⟩
      | list => simp only [hstep, hspecStep, hup]; exact ⟨hrel, fun _ => ⟨h1, h2⟩⟩
      | sweep => simp only [hstep, hspecStep, hup]; exact ⟨hrel, fun _ => ⟨h1, h2⟩⟩
      | tick => simp only [hstep, hspecStep, hup]; exact ⟨hrel, fun _ => ⟨h1, h2⟩⟩
  | restart =>
    simp only [hstep, hspecStep]
    exact ⟨rel_empty hrel.now_eq rfl rfl, fun hf => by simp at hf⟩
  | crash o k =>
    by_cases hup : h.up = true
    · simp only [hstep, hspecStep, hup, if_true]
      exact ⟨rel_empty hrel.now_eq rfl rfl, fun _ => ⟨rfl, rfl⟩⟩
    · simp only [Bool.not_eq_true] at hup
      simp only [hstep, hspecStep, hup]
      exact ⟨hrel, fun _ => hdown hup⟩
  | crashBoot k =>
    simp only [hstep, hspecStep]
    exact ⟨rel_empty hrel.now_eq rfl rfl, fun _ => ⟨rfl, rfl⟩⟩

theorem hrel_run {nc : NodeCfg} (hs : SaneCfg nc) (ops : List HOp) {x : HWorld × W} (hr : HRel x.1 x.2) :
    HRel (hrun2 nc (paramsOf nc) x ops).1 (hrun2 nc (paramsOf nc) x ops).2 := by
  induction ops generalizing x with
  | nil => exact hr
  | cons o r ih => exact ih (hrel_step hs hr o)

/-- a machine that is off, with arbitrary directory content -/
def offState (t0 : Int) (fs : FS) : HWorld :=
  { w := { now := t0, sys := { recs := [], fs := fs }, lastCleanup := t0 }, up := false, cleaned := t0 }

theorem hinv_off (t0 : Int) (fs : FS) : HInv (offState t0 fs) := by intro h; simp [offState] at h

theorem hrel_off (t0 : Int) (fs : FS) : HRel (offState t0 fs) (freshSpec t0) :=
  ⟨rel_empty rfl rfl rfl, fun _ => ⟨rfl, rfl⟩⟩

end EphVerif.ChunkStore
