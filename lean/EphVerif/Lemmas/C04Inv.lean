/-
The directory invariant of the ChunkStore model and its preservation along histories with
restarts, crashes and I/O errors (C04).
-/
import EphVerif.Lemmas.C04Sweep
import EphVerif.Lemmas.C01Run

namespace EphVerif.ChunkStore
open EphVerif.StoreSpec (Op)

/-- persistence and wipe-on-expiry are enabled (the premise of property C04) -/
def PersistCfg (cfg : Cfg) : Prop := cfg.persistent = true ∧ cfg.wipeOnExpiry = true

/-- Directory invariant of a running instance.  A record stored as persisted has its file with
    exactly its bytes; a chunk file that is present either is such a file or is owed a wipe
    (`pending`: a wipe of it failed with an I/O error and every sweep retries it); every record was
    still live at the most recent sweep/start-up (`cleaned`). -/
structure SInv (y : Sys) (cleaned now : Int) : Prop where
  uniq : Uniq y.recs
  files_ok : ∀ id r, aget y.recs id = some r → r.persisted = true →
    aget y.fs (.chunk id) = some r.data ∧ Name.chunk id ∉ y.pending
  files_only : ∀ id c, aget y.fs (.chunk id) = some c → Name.chunk id ∉ y.pending →
    ∃ r, aget y.recs id = some r ∧ r.persisted = true ∧ r.data = c
  live : ∀ id r, aget y.recs id = some r → cleaned < r.expires
  cleaned_le : cleaned ≤ now

theorem effTtl_pos (cfg : Cfg) (ttl : Int) : 1 ≤ effTtl cfg ttl := by
  simp only [effTtl, EphVerif.Gen.C01.kMinimumTtlSec]
  split <;> split <;> omega

theorem chunk_ne {id id' : String} (h : id ≠ id') : Name.chunk id ≠ Name.chunk id' := by
  intro hh; cases hh; exact h rfl

theorem sinv_put {cfg : Cfg} (hc : PersistCfg cfg) (φ : Faults) {y : Sys} {c now : Int} (h : SInv y c now)
    (id : String) (data plain : Bytes) (ttl : Int) (nonce : Bytes) (enc : Bool) :
    SInv (sysPutF cfg φ y now id data plain ttl nonce enc) c now := by
  have hself := putF_self cfg hc.1 φ y.recs y.fs y.pending id data
  refine ⟨uniq_aset h.uniq _ _, ?_, ?_, ?_, h.cleaned_le⟩
  · intro id' r hr hper
    by_cases hid : id = id'
    · subst hid
      simp only [sysPutF, aget_aset_self] at hr
      cases hr
      exact hself.1 hper
    · simp only [sysPutF, aget_aset_ne _ _ hid] at hr
      have := h.files_ok id' r hr hper
      simp only [sysPutF, putF_other _ _ _ _ _ _ _ (chunk_ne hid), putF_pending_other _ _ _ _ _ _ _ (chunk_ne hid)]
      exact this
  · intro id' c' hfile hnp
    by_cases hid : id = id'
    · subst hid
      simp only [sysPutF] at hfile hnp
      refine ⟨mkRecP cfg now data plain ttl nonce enc (putF cfg φ y.recs y.fs y.pending id data).persisted,
        by simp only [sysPutF, aget_aset_self], ?_⟩
      by_cases hper : (putF cfg φ y.recs y.fs y.pending id data).persisted = true
      · have := (hself.1 hper).1
        rw [this] at hfile; cases hfile
        exact ⟨by simp [mkRecP, hper], by simp [mkRecP, mkRec]⟩
      · simp only [Bool.not_eq_true] at hper
        have := hself.2 hper hnp
        rw [this] at hfile; cases hfile
    · simp only [sysPutF, putF_other _ _ _ _ _ _ _ (chunk_ne hid)] at hfile
      simp only [sysPutF, putF_pending_other _ _ _ _ _ _ _ (chunk_ne hid)] at hnp
      obtain ⟨r, hr, hx⟩ := h.files_only id' c' hfile hnp
      exact ⟨r, by simp only [sysPutF, aget_aset_ne _ _ hid]; exact hr, hx⟩
  · intro id' r hr
    by_cases hid : id = id'
    · subst hid
      simp only [sysPutF, aget_aset_self] at hr
      cases hr
      have := effTtl_pos cfg ttl
      have := h.cleaned_le
      simp only [mkRecP, mkRec, nsPerSec]
      omega
    · simp only [sysPutF, aget_aset_ne _ _ hid] at hr
      exact h.live id' r hr

theorem not_mem_sweepNames {cfg : Cfg} {now : Int} {y : Sys} (hu : Uniq y.recs) {id : String} {r : Rec}
    (hr : aget y.recs id = some r) (hnw : wiped cfg now r = false) (hnp : Name.chunk id ∉ y.pending) :
    Name.chunk id ∉ sweepNames cfg now y.recs y.pending := by
  intro hm
  simp only [sweepNames, List.mem_append, List.mem_map, List.mem_filter] at hm
  rcases hm with hm | ⟨e, ⟨he, hw⟩, heq⟩
  · exact hnp hm
  · cases heq
    have := aget_of_mem hu (show (e.1, e.2) ∈ y.recs from he)
    rw [hr] at this; cases this
    rw [hnw] at hw; cases hw

theorem sinv_sweep {cfg : Cfg} (hc : PersistCfg cfg) (φ : Faults) {y : Sys} {c now : Int} (h : SInv y c now) :
    SInv (sysSweepF cfg φ y now).1 now now := by
  have hsub := wipeAllF_failed_sub cfg φ (sweepNames cfg now y.recs y.pending) y.fs 0
  refine ⟨uniq_filter h.uniq _, ?_, ?_, ?_, Int.le_refl _⟩
  · intro id r hr hper
    simp only [sysSweepF, sweep] at hr ⊢
    rw [aget_filter h.uniq] at hr
    cases hg : aget y.recs id with
    | none => simp [hg] at hr
    | some r' =>
      simp only [hg] at hr
      split at hr
      · rename_i hx
        cases hr
        have hx' : expiredSweep now r.expires = false := by simpa using hx
        have hnw : wiped cfg now r = false := by simp [wiped, hx']
        have hold := h.files_ok id r hg hper
        have hnm := not_mem_sweepNames h.uniq hg hnw hold.2
        exact ⟨by rw [wipeAllF_keep _ _ _ _ _ _ hnm]; exact hold.1, fun hm => hnm (hsub _ hm)⟩
      · cases hr
  · intro id c' hfile hnp
    simp only [sysSweepF, sweep] at hfile hnp ⊢
    by_cases hm : Name.chunk id ∈ sweepNames cfg now y.recs y.pending
    · rw [wipeAllF_gone _ _ _ _ _ _ hm hnp] at hfile; cases hfile
    · rw [wipeAllF_keep _ _ _ _ _ _ hm] at hfile
      have hnpo : Name.chunk id ∉ y.pending := fun hh => hm (by simp [sweepNames, hh])
      obtain ⟨r, hr, hper, hd⟩ := h.files_only id c' hfile hnpo
      have hx : expiredSweep now r.expires = false := by
        cases hxx : expiredSweep now r.expires with
        | false => rfl
        | true =>
          exfalso; apply hm
          simp only [sweepNames, List.mem_append, List.mem_map, List.mem_filter]
          exact Or.inr ⟨(id, r), ⟨mem_of_aget hr, by simp [wiped, hxx, hper, hc.2]⟩, rfl⟩
      refine ⟨r, ?_, hper, hd⟩
      rw [aget_filter h.uniq, hr]
      simp [hx]
  · intro id r hr
    simp only [sysSweepF, sweep] at hr
    rw [aget_filter h.uniq] at hr
    cases hg : aget y.recs id with
    | none => simp [hg] at hr
    | some r' =>
      simp only [hg] at hr
      split at hr
      · rename_i hx
        cases hr
        simp only [Bool.not_eq_true'] at hx
        have : ¬ r.expires ≤ now := fun hh => by
          have := (expiredSweep_iff now r.expires).mpr hh
          rw [this] at hx; cases hx
        omega
      · cases hr

theorem sinv_boot {cfg : Cfg} (hc : PersistCfg cfg) (φ : Faults) (fs : FS) (now : Int) : SInv (bootF cfg φ fs) now now := by
  refine ⟨List.Pairwise.nil, ?_, ?_, ?_, Int.le_refl _⟩
  · intro id r hr; simp [bootF, aget] at hr
  · intro id c hfile hnp
    exact absurd (bootF_chunk cfg hc.1 hc.2 φ fs id c hfile) hnp
  · intro id r hr; simp [bootF, aget] at hr

theorem sinv_mono {y : Sys} {c now now' : Int} (h : SInv y c now) (hle : now ≤ now') : SInv y c now' :=
  ⟨h.uniq, h.files_ok, h.files_only, h.live, Int.le_trans h.cleaned_le hle⟩

/-- invariant of a history state: when an instance is running, its directory invariant holds -/
def HInv (h : HWorld) : Prop := h.up = true → SInv h.w.sys h.cleaned h.w.now

theorem hinv_stepOp {nc : NodeCfg} (hc : PersistCfg nc.store) (φ : Faults) {h : HWorld} (hi : HInv h) (o : Op) :
    HInv (hstepOp nc φ h o) := by
  by_cases hup : h.up = true
  · have hs := hi hup
    simp only [hstepOp, hup, if_true]
    intro _
    cases o with
    | store id data ttl nonce enc => exact sinv_put hc φ hs id data data ttl nonce enc
    | nstore id plain cipher nonce ttl => exact sinv_put hc φ hs id cipher plain _ nonce true
    | lookup id => exact hs
    | record id => exact hs
    | fetch id => exact hs
    | request id => exact hs
    | list => exact hs
    | sweep => exact sinv_sweep hc φ hs
    | tick =>
      simp only [stepF, sweeps, nodeTickF]
      by_cases hcnd : h.w.now - h.w.lastCleanup ≥ nc.cleanupInterval * nsPerSec
      · simp only [hcnd, if_true, decide_true]
        exact sinv_sweep hc φ hs
      · simp only [hcnd, if_false, decide_false]
        exact hs
    | advance d =>
      simp only [stepF, sweeps]
      exact sinv_mono hs (by omega)
  · simp only [Bool.not_eq_true] at hup
    intro hup'
    exfalso
    cases o <;> simp [hstepOp, hup] at hup'

theorem hinv_step {nc : NodeCfg} (hc : PersistCfg nc.store) {h : HWorld} (hi : HInv h) (o : HOp) :
    HInv (hstep nc h o) := by
  cases o with
  | op o => exact hinv_stepOp hc [] hi o
  | fail o φ => exact hinv_stepOp hc φ hi o
  | restart => intro _; exact sinv_boot hc [] _ _
  | restartF φ => intro _; exact sinv_boot hc φ _ _
  | crash o k =>
    intro hup'
    simp only [hstep] at hup'
    split at hup'
    · simp at hup'
    · rename_i hdown; exact absurd hup' hdown
  | crashBoot k => intro hup'; simp [hstep] at hup'

theorem hinv_run {nc : NodeCfg} (hc : PersistCfg nc.store) (ops : List HOp) {h : HWorld} (hi : HInv h) :
    HInv (hrun nc h ops) := by
  induction ops generalizing h with
  | nil => exact hi
  | cons o r ih => exact ih (hinv_step hc hi o)

/-! ### entries that are not chunk files -/

/-- the retry list only ever holds chunk files -/
def PendChunk (h : HWorld) : Prop := ∀ q ∈ h.w.sys.pending, q.isChunk = true

theorem putF_pending_chunk (cfg : Cfg) (φ : Faults) (s : Recs) (fs : FS) (pend : List Name) (id : String) (data : Bytes)
    (hp : ∀ q ∈ pend, q.isChunk = true) : ∀ q ∈ (putF cfg φ s fs pend id data).pending, q.isChunk = true := by
  intro q hq
  by_cases hqq : Name.chunk id = q
  · subst hqq; rfl
  · exact hp q ((putF_pending_other cfg φ s fs pend id data hqq).mp hq)

theorem other_stepOp (nc : NodeCfg) (φ : Faults) (h : HWorld) (hp : PendChunk h) (o : Op) (n : String) :
    aget (hstepOp nc φ h o).w.sys.fs (.other n) = aget h.w.sys.fs (.other n) ∧ PendChunk (hstepOp nc φ h o) := by
  have hsw : aget (sysSweepF nc.store φ h.w.sys h.w.now).1.fs (.other n) = aget h.w.sys.fs (.other n) ∧
      ∀ q ∈ (sysSweepF nc.store φ h.w.sys h.w.now).1.pending, q.isChunk = true := by
    have hc := sweepNames_chunk nc.store h.w.now h.w.sys.recs h.w.sys.pending hp
    exact ⟨ops_other_untouched (wipeAllF_chunks _ _ _ _ _ hc) _ n,
      fun q hq => hc q (wipeAllF_failed_sub _ _ _ _ _ q hq)⟩
  have hput : ∀ (id : String) (data plain : Bytes) (ttl : Int) (nonce : Bytes) (enc : Bool),
      aget (sysPutF nc.store φ h.w.sys h.w.now id data plain ttl nonce enc).fs (.other n) = aget h.w.sys.fs (.other n) ∧
      ∀ q ∈ (sysPutF nc.store φ h.w.sys h.w.now id data plain ttl nonce enc).pending, q.isChunk = true :=
    fun id data plain ttl nonce enc =>
      ⟨putF_other _ _ _ _ _ _ _ (by simp), putF_pending_chunk _ _ _ _ _ _ _ hp⟩
  simp only [hstepOp]
  split
  · cases o with
    | store id data ttl nonce enc => exact hput id data data ttl nonce enc
    | nstore id plain cipher nonce ttl => exact hput id cipher plain _ nonce true
    | sweep => exact hsw
    | tick =>
      simp only [stepF, nodeTickF]
      split
      · exact hsw
      · exact ⟨rfl, hp⟩
    | lookup id => exact ⟨rfl, hp⟩
    | record id => exact ⟨rfl, hp⟩
    | fetch id => exact ⟨rfl, hp⟩
    | request id => exact ⟨rfl, hp⟩
    | list => exact ⟨rfl, hp⟩
    | advance d => exact ⟨rfl, hp⟩
  · cases o <;> exact ⟨rfl, hp⟩

theorem other_step (nc : NodeCfg) (h : HWorld) (hp : PendChunk h) (o : HOp) (n : String) :
    aget (hstep nc h o).w.sys.fs (.other n) = aget h.w.sys.fs (.other n) ∧ PendChunk (hstep nc h o) := by
  have hnil : ∀ (fs : FS), PendChunk { w := { h.w with sys := { recs := [], fs := fs } }, up := false, cleaned := h.cleaned } := by
    intro fs q hq; simp at hq
  cases o with
  | op o => exact other_stepOp nc [] h hp o n
  | fail o φ => exact other_stepOp nc φ h hp o n
  | restart => exact ⟨bootF_other _ _ _ _, bootF_pending_chunk _ _ _⟩
  | restartF φ => exact ⟨bootF_other _ _ _ _, bootF_pending_chunk _ _ _⟩
  | crash o k =>
    simp only [hstep]
    split
    · refine ⟨?_, fun q hq => by simp at hq⟩
      simp only []
      cases o with
      | store id data ttl nonce enc =>
        exact applyOps_other (by simp) _ _ (take_touches (putF_touches _ _ _ _ _ _ _) k)
      | nstore id plain cipher nonce ttl =>
        exact applyOps_other (by simp) _ _ (take_touches (putF_touches _ _ _ _ _ _ _) k)
      | sweep =>
        exact ops_other_untouched (fun o ho => wipeAllF_chunks _ _ _ _ _
          (sweepNames_chunk nc.store h.w.now h.w.sys.recs h.w.sys.pending hp) o (List.mem_of_mem_take ho)) _ n
      | tick =>
        simp only [fsOpsOf, fsOpsOfF]
        split
        · exact ops_other_untouched (fun o ho => wipeAllF_chunks _ _ _ _ _
            (sweepNames_chunk nc.store h.w.now h.w.sys.recs h.w.sys.pending hp) o (List.mem_of_mem_take ho)) _ n
        · simp [applyOps]
      | lookup id => simp [fsOpsOf, fsOpsOfF, applyOps]
      | record id => simp [fsOpsOf, fsOpsOfF, applyOps]
      | fetch id => simp [fsOpsOf, fsOpsOfF, applyOps]
      | request id => simp [fsOpsOf, fsOpsOfF, applyOps]
      | list => simp [fsOpsOf, fsOpsOfF, applyOps]
      | advance d => simp [fsOpsOf, fsOpsOfF, applyOps]
    · exact ⟨rfl, hp⟩
  | crashBoot k =>
    simp only [hstep, ctorOps]
    exact ⟨ops_other_untouched (fun o ho => wipeAllF_chunks _ _ _ _ _ (purgeNames_chunk _ _) o (List.mem_of_mem_take ho)) _ n,
      fun q hq => by simp at hq⟩

theorem other_run (nc : NodeCfg) (ops : List HOp) (h : HWorld) (hp : PendChunk h) (n : String) :
    aget (hrun nc h ops).w.sys.fs (.other n) = aget h.w.sys.fs (.other n) := by
  induction ops generalizing h with
  | nil => rfl
  | cons o r ih =>
    simp only [hrun, List.foldl_cons] at ih ⊢
    rw [ih _ (other_step nc h hp o n).2, (other_step nc h hp o n).1]

open EphVerif.StoreSpec (Op Params W last)

/-- The abstract store along a history with restarts: the chunks of an instance die with it.
    I/O errors are invisible at this level: a store whose file write failed is still a store. -/
def hspecStep (p : Params) (up : Bool) (a : W) : HOp → W
  | .op o | .fail o _ => if up then StoreSpec.step p a o else
      match o with
      | .advance d => { a with now := a.now + d }
      | _ => a
  | .restart | .restartF _ => { a with s := [] }
  | .crash _ _ => if up then { a with s := [] } else a
  | .crashBoot _ => { a with s := [] }

/-- model and abstract store run side by side -/
def hrun2 (nc : NodeCfg) (p : Params) : HWorld × W → List HOp → HWorld × W
  | x, [] => x
  | x, o :: r => hrun2 nc p (hstep nc x.1 o, hspecStep p x.1.up x.2 o) r

theorem hrun2_fst (nc : NodeCfg) (p : Params) (x : HWorld × W) (ops : List HOp) :
    (hrun2 nc p x ops).1 = hrun nc x.1 ops := by
  induction ops generalizing x with
  | nil => rfl
  | cons o r ih => simp only [hrun2, hrun, List.foldl_cons] at ih ⊢; rw [ih]

/-- while nobody runs, the table is empty and so is the abstract store -/
def HRel (h : HWorld) (a : W) : Prop := Rel h.w a ∧ (h.up = false → h.w.sys.recs = [] ∧ a.s = [])

theorem rel_empty {w : World} {a : W} (hn : w.now = a.now) (hr : w.sys.recs = []) (hs : a.s = []) : Rel w a :=
  ⟨hn, by rw [hr]; exact List.Pairwise.nil, by intro id r h; simp [hr, aget] at h,
   by intro id e h; simp [hs, last] at h⟩

theorem hrel_stepOp {nc : NodeCfg} (hs : SaneCfg nc) (φ : Faults) {h : HWorld} {a : W} (hr : HRel h a) (o : Op) :
    HRel (hstepOp nc φ h o) (if h.up then StoreSpec.step (paramsOf nc) a o else
      match o with
      | .advance d => { a with now := a.now + d }
      | _ => a) := by
  obtain ⟨hrel, hdown⟩ := hr
  by_cases hup : h.up = true
  · simp only [hstepOp, hup, if_true]
    exact ⟨rel_stepF hs φ hrel o, fun hf => by simp at hf⟩
  · simp only [Bool.not_eq_true] at hup
    obtain ⟨h1, h2⟩ := hdown hup
    cases o with
    | advance d =>
      simp only [hstepOp, hup]
      exact ⟨rel_advance hrel d, fun _ => ⟨h1, h2⟩⟩
    | store id data ttl nonce enc => simp only [hstepOp, hup]; exact ⟨hrel, fun _ => ⟨h1, h2⟩⟩
    | nstore id plain cipher nonce ttl => simp only [hstepOp, hup]; exact ⟨hrel, fun _ => ⟨h1, h2⟩⟩
    | lookup id => simp only [hstepOp, hup]; exact ⟨hrel, fun _ => ⟨h1, h2⟩⟩
    | record id => simp only [hstepOp, hup]; exact ⟨hrel, fun _ => ⟨h1, h2⟩⟩
    | fetch id => simp only [hstepOp, hup]; exact ⟨hrel, fun _ => ⟨h1, h2⟩⟩
    | request id => simp only [hstepOp, hup]; exact ⟨hrel, fun _ => ⟨h1, h2⟩⟩
    | list => simp only [hstepOp, hup]; exact ⟨hrel, fun _ => ⟨h1, h2⟩⟩
    | sweep => simp only [hstepOp, hup]; exact ⟨hrel, fun _ => ⟨h1, h2⟩⟩
    | tick => simp only [hstepOp, hup]; exact ⟨hrel, fun _ => ⟨h1, h2⟩⟩

theorem hrel_step {nc : NodeCfg} (hs : SaneCfg nc) {h : HWorld} {a : W} (hr : HRel h a) (o : HOp) :
    HRel (hstep nc h o) (hspecStep (paramsOf nc) h.up a o) := by
  cases o with
  | op o => exact hrel_stepOp hs [] hr o
  | fail o φ => exact hrel_stepOp hs φ hr o
  | restart =>
    simp only [hstep, hspecStep]
    exact ⟨rel_empty hr.1.now_eq rfl rfl, fun hf => by simp at hf⟩
  | restartF φ =>
    simp only [hstep, hspecStep]
    exact ⟨rel_empty hr.1.now_eq rfl rfl, fun hf => by simp at hf⟩
  | crash o k =>
    obtain ⟨hrel, hdown⟩ := hr
    by_cases hup : h.up = true
    · simp only [hstep, hspecStep, hup, if_true]
      exact ⟨rel_empty hrel.now_eq rfl rfl, fun _ => ⟨rfl, rfl⟩⟩
    · simp only [Bool.not_eq_true] at hup
      simp only [hstep, hspecStep, hup]
      exact ⟨hrel, fun _ => hdown hup⟩
  | crashBoot k =>
    simp only [hstep, hspecStep]
    exact ⟨rel_empty hr.1.now_eq rfl rfl, fun _ => ⟨rfl, rfl⟩⟩

theorem hrel_run {nc : NodeCfg} (hs : SaneCfg nc) (ops : List HOp) {x : HWorld × W} (hr : HRel x.1 x.2) :
    HRel (hrun2 nc (paramsOf nc) x ops).1 (hrun2 nc (paramsOf nc) x ops).2 := by
  induction ops generalizing x with
  | nil => exact hr
  | cons o r ih => exact ih (hrel_step hs hr o)

/-- a machine that is off, with arbitrary directory content -/
def offState (t0 : Int) (fs : FS) : HWorld :=
  { w := { now := t0, sys := { recs := [], fs := fs }, lastCleanup := t0 }, up := false, cleaned := t0 }

theorem hinv_off (t0 : Int) (fs : FS) : HInv (offState t0 fs) := by intro h; simp [offState] at h

theorem pendChunk_off (t0 : Int) (fs : FS) : PendChunk (offState t0 fs) := by intro q hq; simp [offState] at hq

theorem hrel_off (t0 : Int) (fs : FS) : HRel (offState t0 fs) (freshSpec t0) :=
  ⟨rel_empty rfl rfl rfl, fun _ => ⟨rfl, rfl⟩⟩

end EphVerif.ChunkStore
