/-
Helper lemmas for C25/C26: the protocol handlers of the relay model keep the pairing invariant.
-/
import EphVerif.Lemmas.C25Inv
set_option linter.unusedSimpArgs false
namespace EphVerif.Relay
open EphVerif.Gen.C25

/-- dropping registrations (and nothing else) keeps the invariant -/
theorem inv_reg_sub {σ σ1 : State} (hI : Inv σ) (hg : ∀ a, σ1.get a = σ.get a)
    (hr : ∀ k d, σ1.reg k = some d → σ.reg k = some d) (hh : σ1.hung = σ.hung) : Inv σ1 := by
  have h1 := hI.sym; have h2 := hI.noself; have h3 := hI.pairState; have h4 := hI.lone; have h5 := hI.regOK
  have h6 := hI.notHung
  simp only [State.partnerOf, State.stateOf, State.hexOf] at h1 h2 h3 h4 h5
  constructor
  all_goals (try simp only [State.partnerOf, State.stateOf, State.hexOf])
  all_goals grind

theorem findRegistered_some {σ σ1 : State} {hex : Bytes} {t : Client} (h : findRegistered σ hex = (σ1, some t)) :
    σ1 = σ ∧ σ.reg hex = some t ∧ σ.stateOf t = some .registered := by
  unfold findRegistered at h
  cases hr : σ.reg hex with
  | none => simp [hr] at h
  | some t' =>
    cases hg : σ.get t' with
    | none => simp [hr, hg] at h
    | some ts =>
      by_cases hs : ts.state = .registered
      · simp [hr, hg, hs] at h
        obtain ⟨rfl, rfl⟩ := h
        exact ⟨rfl, rfl, by simp [State.stateOf, hg, hs]⟩
      · simp [hr, hg, hs] at h

theorem findRegistered_none {σ σ1 : State} {hex : Bytes} (h : findRegistered σ hex = (σ1, none)) :
    (∀ a, σ1.get a = σ.get a) ∧ (∀ k d, σ1.reg k = some d → σ.reg k = some d) ∧ σ1.hung = σ.hung ∧
      σ1.used = σ.used ∧ σ1.out = σ.out := by
  unfold findRegistered at h
  cases hr : σ.reg hex with
  | none => simp [hr] at h; subst h; simp
  | some t' =>
    cases hg : σ.get t' with
    | none =>
      simp [hr, hg] at h; subst h
      refine ⟨by simp, ?_, by simp, by simp, by simp⟩
      intro k d; simp
    | some ts =>
      by_cases hs : ts.state = .registered
      · simp [hr, hg, hs] at h
      · simp [hr, hg, hs] at h; subst h
        refine ⟨by simp, ?_, by simp, by simp, by simp⟩
        intro k d; simp

/-- under the invariant, a partner pointer that is set names a live session -/
theorem lock_eq_of_inv {σ : State} (hI : Inv σ) {c : Client} {s : Session} (hc : σ.get c = some s) :
    σ.lock s.partner = s.partner := by
  cases hp : s.partner with
  | none => rfl
  | some p =>
    have h1 : σ.partnerOf c = some p := by simp [State.partnerOf, hc, hp]
    have h2 := hI.sym c p h1
    simp only [State.partnerOf] at h2
    cases h : σ.get p with
    | none => simp [h] at h2
    | some ps => simp [State.lock, h]

theorem lowerHex_ne_nil {hex : Bytes} (h : hex.length = 2 * kPeerIdBytes) : hex.map lowerHex ≠ [] := by
  intro e
  have : (hex.map lowerHex).length = 64 := by simp [h, kPeerIdBytes]
  simp [e] at this

/-- handle_register keeps the invariant -/
theorem inv_handleRegister {σ : State} (c : Client) (hex : Bytes) (hI : Inv σ) : Inv (handleRegister σ c hex) := by
  unfold handleRegister
  cases hc : σ.get c with
  | none => simpa using hI
  | some s =>
    simp only
    split
    · exact inv_queue _ _ hI
    split
    · exact inv_queue _ _ hI
    split
    · exact inv_queue _ _ hI
    next hhex hlen hlock =>
      apply inv_queue
      rw [lock_eq_of_inv hI hc] at hlock
      have hp : s.partner = none := by cases h : s.partner <;> simp_all
      have hlen' : hex.length = 2 * kPeerIdBytes := by simpa using hlen
      have hkey := lowerHex_ne_nil hlen'
      have hne := reg_removeRegistration_ne hI c s hc
      have hsub := reg_removeRegistration_sub σ c s
      have h1 := hI.sym; have h2 := hI.noself; have h3 := hI.pairState; have h4 := hI.lone; have h5 := hI.regOK
      have h6 := hI.notHung
      simp only [State.partnerOf, State.stateOf, State.hexOf] at h1 h2 h3 h4 h5
      constructor
      all_goals (try simp only [State.partnerOf, State.stateOf, State.hexOf])
      all_goals simp only [get_setReg, get_put, get_removeRegistration, reg_setReg, reg_put, hung_setReg, hung_put, hung_removeRegistration]
      all_goals grind

/-- handle_connect keeps the invariant (the session is never bridged when a line is handled) -/
theorem inv_handleConnect {σ : State} (c : Client) (self target : Bytes) (hI : Inv σ)
    (hnb : σ.stateOf c ≠ some .bridged) (hai : σ.stateOf c ≠ some .awaitingIdentity) :
    Inv (handleConnect σ c self target) := by
  unfold handleConnect
  cases hc : σ.get c with
  | none => simpa using hI
  | some s =>
    simp only
    split
    · exact inv_queue _ _ hI
    split
    · exact inv_queue _ _ hI
    split
    · exact inv_queue _ _ hI
    next hreg _ _ =>
      cases hf : findRegistered σ target with
      | mk σ1 r =>
        cases r with
        | none =>
          obtain ⟨hg, hr, hh, _, _⟩ := findRegistered_none hf
          exact inv_queue _ _ (inv_reg_sub hI hg hr hh)
        | some t =>
          obtain ⟨e1, hrt, hst⟩ := findRegistered_some hf
          have e1' := e1.symm
          subst e1'
          simp only
          apply inv_queue
          obtain ⟨_, htp, htx, _⟩ := hI.regOK target t hrt
          have hct : c ≠ t := by
            intro e; subst e
            simp [State.stateOf, hc] at hst
            exact hreg hst
          have htc : t ≠ c := fun e => hct e.symm
          obtain ⟨ts, hts⟩ : ∃ ts, σ.get t = some ts := by
            simp only [State.stateOf] at hst
            cases h : σ.get t with
            | none => simp [h] at hst
            | some ts => exact ⟨ts, rfl⟩
          have hsC : s.partner = none := by
            cases hp : s.partner with
            | none => rfl
            | some p =>
              have := hI.pairState c p (by simp [State.partnerOf, hc, hp])
              simp [State.stateOf, hc] at this hnb hai
              rcases this with ⟨h, _⟩ | ⟨h, _⟩ | ⟨h, _⟩
              · exact absurd h hai
              · exact absurd h hreg
              · exact absurd h hnb
          have h1 := hI.sym; have h2 := hI.noself; have h3 := hI.pairState; have h4 := hI.lone; have h5 := hI.regOK
          have h6 := hI.notHung
          simp only [State.partnerOf, State.stateOf, State.hexOf] at h1 h2 h3 h4 h5 hst htp htx hnb
          constructor
          all_goals (try simp only [State.partnerOf, State.stateOf, State.hexOf])
          all_goals simp only [get_put, get_eraseReg, reg_put, reg_eraseReg, hung_put, hung_eraseReg, hts, hct, htc, if_false]
          all_goals grind

/-- the partner of a session that awaits its identity: alive, registered, pointing back -/
theorem partner_of_awaitingIdentity {σ : State} (hI : Inv σ) {c : Client} {s : Session} (hc : σ.get c = some s)
    (hst : s.state = .awaitingIdentity) :
    ∃ t ts, s.partner = some t ∧ t ≠ c ∧ σ.get t = some ts ∧ ts.partner = some c ∧ ts.state = .registered := by
  cases hp : s.partner with
  | none =>
    have := (hI.lone c (by simp [State.partnerOf, hc, hp])).1
    simp [State.stateOf, hc, hst] at this
  | some t =>
    have h1 : σ.partnerOf c = some t := by simp [State.partnerOf, hc, hp]
    have h2 := hI.sym c t h1
    have hne : t ≠ c := fun e => hI.noself c (e ▸ h1)
    simp only [State.partnerOf] at h2
    cases h : σ.get t with
    | none => simp [h] at h2
    | some ts =>
      have hps := hI.pairState c t h1
      simp [State.stateOf, hc, h, hst] at hps
      exact ⟨t, ts, rfl, hne, h, by simpa [h] using h2, hps⟩

/-- handle_identity_ready on a session that awaits its identity: explicit result -/
theorem handleIdentityReady_eq {σ : State} (hI : Inv σ) {c : Client} {s : Session} (hc : σ.get c = some s)
    (hst : s.state = .awaitingIdentity) :
    ∃ t ts, s.partner = some t ∧ t ≠ c ∧ σ.get t = some ts ∧ ts.partner = some c ∧ ts.state = .registered ∧
      handleIdentityReady σ c =
        let σ1 := queue σ t (.ctrl (beginPrefix ++ s.connectSelf ++ [nl]))
        let σ2 := σ1.put c { s with readBuf := [], state := .bridged }
        let σ3 := σ2.put t { ts with writeBuf := ts.writeBuf ++ (beginPrefix ++ s.connectSelf ++ [nl]), state := .bridged }
        let σ4 := queue σ3 t (.relay c (s.readBuf.take kPeerIdBytes))
        if (s.readBuf.drop kPeerIdBytes).isEmpty then σ4 else queue σ4 t (.relay c (s.readBuf.drop kPeerIdBytes)) := by
  obtain ⟨t, ts, hp, hne, ht, htp, hts⟩ := partner_of_awaitingIdentity hI hc hst
  refine ⟨t, ts, hp, hne, ht, htp, hts, ?_⟩
  have hcn : c ≠ t := fun e => hne e.symm
  unfold handleIdentityReady
  simp [hc, hp, State.lock, ht, get_queue, hcn, hne, Item.bytes]

/-- establishing the bridge of a claimed pair keeps the invariant -/
theorem inv_bridge {σ σ' : State} (hI : Inv σ) {c t : Client} (hp : σ.partnerOf c = some t)
    (hc : σ.stateOf c = some .awaitingIdentity)
    (h1 : ∀ a, σ'.partnerOf a = σ.partnerOf a)
    (h2 : ∀ a, σ'.stateOf a = if a = c ∨ a = t then some .bridged else σ.stateOf a)
    (h3 : ∀ a, σ'.hexOf a = σ.hexOf a) (h4 : ∀ k, σ'.reg k = σ.reg k) (h5 : σ'.hung = σ.hung) : Inv σ' := by
  have i1 := hI.sym; have i2 := hI.noself; have i3 := hI.pairState; have i4 := hI.lone; have i5 := hI.regOK
  have i6 := hI.notHung
  constructor
  · intro a b; rw [h1, h1]; exact i1 a b
  · intro a; rw [h1]; exact i2 a
  · intro a b; rw [h1, h2, h2]; intro hab
    have := i3 a b hab
    have := i1 a b hab
    grind
  · intro a; rw [h1, h2]; intro ha
    have := i4 a ha
    grind
  · intro k d; rw [h4, h2, h1, h3]; intro hk
    have := i5 k d hk
    grind
  · rw [h5]; exact i6

theorem inv_handleIdentityReady {σ : State} (hI : Inv σ) {c : Client} {s : Session} (hc : σ.get c = some s)
    (hst : s.state = .awaitingIdentity) : Inv (handleIdentityReady σ c) := by
  obtain ⟨t, ts, hp, hne, ht, htp, hts, heq⟩ := handleIdentityReady_eq hI hc hst
  have hcn : c ≠ t := fun e => hne e.symm
  rw [heq]
  simp only
  have key : Inv (((queue σ t (.ctrl (beginPrefix ++ s.connectSelf ++ [nl]))).put c { s with readBuf := [], state := .bridged }).put t
      { ts with writeBuf := ts.writeBuf ++ (beginPrefix ++ s.connectSelf ++ [nl]), state := .bridged }) := by
    apply inv_bridge hI (c := c) (t := t)
    · simp [State.partnerOf, hc, hp]
    · simp [State.stateOf, hc, hst]
    · intro a
      simp only [State.partnerOf, get_put, get_queue]
      by_cases e1 : a = t <;> by_cases e2 : a = c <;> simp_all
    · intro a
      simp only [State.stateOf, get_put, get_queue]
      by_cases e1 : a = t <;> by_cases e2 : a = c <;> simp_all
    · intro a
      simp only [State.hexOf, get_put, get_queue]
      by_cases e1 : a = t <;> by_cases e2 : a = c <;> simp_all
    · intro k; simp
    · simp
  split
  · exact inv_queue _ _ key
  · exact inv_queue _ _ (inv_queue _ _ key)

theorem inv_handleLine {σ : State} (c : Client) (line : Bytes) (hI : Inv σ)
    (hnb : σ.stateOf c ≠ some .bridged) (hai : σ.stateOf c ≠ some .awaitingIdentity) :
    Inv (handleLine σ c line) := by
  unfold handleLine
  split
  · exact hI
  simp only
  split
  · exact inv_handleRegister _ _ hI
  split
  · split
    · exact inv_handleConnect _ _ _ hI hnb hai
    · exact inv_queue _ _ hI
  split
  · exact hI
  · exact inv_queue _ _ hI

end EphVerif.Relay
