/-
Helper lemmas for C25/C26: the observer's view of a model state (`viewOf`, `resourcesOf`) and of one
step (`obsOf`), i.e. the arguments at which the specification's predicates (Spec/Relay.lean) are proved.
-/
import EphVerif.Lemmas.C25Step
import EphVerif.Spec.Relay
set_option linter.unusedSimpArgs false
namespace EphVerif.Relay
open EphVerif.RelaySpec

def peerOf (c : Client) (s : Session) : Peer :=
  { client := c, bridged := decide (s.state = .bridged), partner := s.partner }

/-- the relay's pairing table as the specification sees it -/
def viewOf (σ : State) : View := σ.used.filterMap fun c => (σ.get c).map (peerOf c)

theorem mem_viewOf {σ : State} {a : Peer} :
    a ∈ viewOf σ ↔ ∃ c s, c ∈ σ.used ∧ σ.get c = some s ∧ a = peerOf c s := by
  simp only [viewOf, List.mem_filterMap]
  constructor
  · rintro ⟨c, hc, h⟩
    cases hg : σ.get c with
    | none => simp [hg] at h
    | some s => exact ⟨c, s, hc, hg, by simpa [hg] using h.symm⟩
  · rintro ⟨c, s, hc, hg, rfl⟩
    exact ⟨c, hc, by simp [hg]⟩

theorem find_filterMap_peer (σ : State) (l : List Client) (c : Client) :
    (l.filterMap fun d => (σ.get d).map (peerOf d)).find? (fun p => p.client == c) =
      if c ∈ l then (σ.get c).map (peerOf c) else none := by
  induction l with
  | nil => simp
  | cons d l ih =>
    rw [List.filterMap_cons]
    cases hg : σ.get d with
    | none =>
      simp only [Option.map_none]
      rw [ih]
      by_cases e : c = d
      · subst e; simp [hg]
      · simp [e]
    | some s =>
      simp only [Option.map_some]
      rw [List.find?_cons]
      by_cases e : c = d
      · subst e; simp [peerOf, hg]
      · have : ((peerOf d s).client == c) = false := by simp [peerOf]; exact fun h => e h.symm
        rw [this, ih]; simp [e]

theorem peer_viewOf {σ : State} (hA : Acc σ) (c : Client) : (viewOf σ).peer c = (σ.get c).map (peerOf c) := by
  unfold View.peer viewOf
  rw [find_filterMap_peer]
  by_cases h : c ∈ σ.used
  · simp [h]
  · cases hg : σ.get c with
    | none => simp
    | some s => exact absurd (hA.live c (by simp [hg])) h

theorem partnerOf_viewOf {σ : State} (hA : Acc σ) (c : Client) : (viewOf σ).partnerOf c = σ.partnerOf c := by
  unfold View.partnerOf State.partnerOf
  rw [peer_viewOf hA]
  cases σ.get c <;> simp [peerOf]

theorem isBridged_viewOf {σ : State} (hA : Acc σ) (c : Client) :
    (viewOf σ).isBridged c = true ↔ σ.stateOf c = some .bridged := by
  unfold View.isBridged State.stateOf
  rw [peer_viewOf hA]
  cases σ.get c <;> simp [peerOf]

/-- what one step shows: bytes queued for each client (oldest first) and descriptors closed -/
def Out.queuedOf : Out → Option (Nat × Bytes)
  | .queued d it => some (d, it.bytes)
  | _ => none

def obsOf (new : List Out) : Obs Bytes :=
  { rx := new.reverse.filterMap Out.queuedOf, closed := new.reverse.filterMap Out.closedOf }

/-- the effects of the step from `σ` to `σ'` (newest first) -/
def newOuts (σ σ' : State) : List Out := σ'.out.take (σ'.out.length - σ.out.length)

theorem newOuts_eq {σ σ' : State} {new : List Out} (h : σ'.out = new ++ σ.out) : newOuts σ σ' = new := by
  simp [newOuts, h]

def resourcesOf (σ : State) : Resources :=
  { sessions := σ.sessions.map (·.1), registrations := σ.registered.map fun e => if (σ.get e.2).isSome then some e.2 else none,
    fds := σ.sessions.length }

end EphVerif.Relay
