/-
System-level composition (extension of C05), part 1: bridging lemmas.

The C05 node model (`Model/NodeCleanup.lean`) computes lifetimes with hand-written functions
(`ChunkStore.nodeTtl`, `ChunkStore.clampChunkTtl`, `ChunkStore.effTtl`, `NodeCleanup.manifestTtl`)
over a `ChunkStore.NodeCfg`; C02 and C03 are proved over the *generated* functions of
`Generated/C02.lean` (`sanitize_config`, `clamp_chunk_ttl`, `manifest_ttl`, the TTL slices of
`store_chunk` / `ingest_manifest` / `handle_announce`) over a raw `Gen.C02.Cfg`.  This file

  * builds the node configuration of the C05 model from a **raw** configuration through the generated
    `sanitize_config` (`sysCfg`); `cleanup_interval`, which the code does not sanitise, stays a free
    parameter (`Env.cleanup`);
  * shows the hand-written TTL functions equal the generated ones on such a configuration;
  * identifies the lifetimes the C05 model records with the `C02Spec.StoreDurations` of `Ttl.storeChunk`
    and with the `MTtl.writes` of C03, and imports the bounds `C02.store`, `C02.config`, `C03.cap`;
  * fixes the units: every model works in `Int` nanoseconds, TTLs are `Int` seconds, and the four
    spellings of 10⁹ (`NodeCleanup.ns`, `ChunkStore.nsPerSec`, `C02Spec.nsPerS`, `C03Spec.nsPerS`) and of
    24 h (`C02Spec.dayS` seconds, `dayNs` nanoseconds) agree.
-/
import EphVerif.Lemmas.C05Run
import EphVerif.Proofs.C02
import EphVerif.Proofs.C03

namespace EphVerif.Sys
open EphVerif.NodeCleanup
open EphVerif.Gen.C02 (clamp_chunk_ttl manifest_ttl enforce_manifest_ttl sanitize_config store_chunk_put_ttl
  store_chunk_shard_ttl store_chunk_announce_ttl store_chunk_manifest_expires chunkstore_put_ttl compute_expiry
  publish_shards_expires add_contact_expires announce_chunk_contact_ttl announce_advertised_ttl ingest_ttl_source
  ingest_shard_ttl announce_ttl_source announce_shard_ttl)

/-- a raw configuration, as handed to the `Node` constructor (any field values) -/
abbrev Raw := EphVerif.Gen.C02.Cfg

/-- what the node is constructed with besides the TTL configuration.  `cleanup` is
    `Config::cleanup_interval` in seconds: **the code never sanitises it** (any `int64`, also `≤ 0` or
    astronomically large). -/
structure Env where
  cleanup : Int
  rebalance : Int
  self : String
  selfId : Routing.Id
  wallOff : Int

/-- the `ChunkStore.NodeCfg` a raw configuration leads to: `Node::Node` stores `sanitize_config(config)` -/
def nodeCfg (raw : Raw) (cleanup : Int) : ChunkStore.NodeCfg :=
  { store := { defaultTtl := (Ttl.effective raw).default_chunk_ttl, persistent := false, wipeOnExpiry := true, passes := 1 },
    minTtl := (Ttl.effective raw).min_manifest_ttl, maxTtl := (Ttl.effective raw).max_manifest_ttl,
    cleanupInterval := cleanup }

/-- the configuration of the C05 node model for a raw configuration -/
def sysCfg (raw : Raw) (e : Env) : Cfg :=
  { node := nodeCfg raw e.cleanup, rebalance := e.rebalance, self := e.self, selfId := e.selfId, wallOff := e.wallOff }

/-! ### units -/

/-- 24 h in nanoseconds -/
def dayNs : Int := 86400 * 1000000000

theorem ns_eq : NodeCleanup.ns = 1000000000 ∧ ChunkStore.nsPerSec = 1000000000 ∧
    C02Spec.nsPerS = 1000000000 ∧ C03Spec.nsPerS = 1000000000 ∧ C05Spec.nsPerSec = 1000000000 := ⟨rfl, rfl, rfl, rfl, rfl⟩

theorem day_eq : C02Spec.dayS = 86400 ∧ C02Spec.dayS * C02Spec.nsPerS = dayNs := by decide

/-- a TTL of `t` seconds inside `[0, 24 h]` is a lifetime of `t·10⁹` nanoseconds inside `[0, dayNs]` -/
theorem secs_to_ns {t : Int} (h0 : 0 < t) (h1 : t ≤ 86400) : 0 < t * ns ∧ t * ns ≤ dayNs := by
  simp only [ns, dayNs]; omega

/-! ### the window of the sanitised configuration (imported from C02) -/

theorem window (raw : Raw) : C02L.Window (Ttl.effective raw) := C02L.window raw

theorem sane (raw : Raw) (ci : Int) : ChunkStore.SaneCfg (nodeCfg raw ci) :=
  ⟨(window raw).min_pos, (window raw).min_le_max⟩

/-- from `C02.config`: the effective maximum TTL is at most 24 h, whatever the raw configuration -/
theorem max_le_day (raw : Raw) (e : Env) : (sysCfg raw e).node.maxTtl ≤ 86400 := by
  have h := C02.config raw
  unfold C02Spec.ConfigOk at h
  have := h.2.2.1
  simp only [Ttl.limits, C02Spec.dayS] at this
  show (Ttl.effective raw).max_manifest_ttl ≤ 86400
  omega

theorem min_pos (raw : Raw) (e : Env) : 1 ≤ (sysCfg raw e).node.minTtl := (window raw).min_pos
theorem min_le_max (raw : Raw) (e : Env) : (sysCfg raw e).node.minTtl ≤ (sysCfg raw e).node.maxTtl := (window raw).min_le_max

/-- the longest lifetime the node grants, in nanoseconds -/
def maxNs (cfg : Cfg) : Int := cfg.node.maxTtl * ns

theorem maxNs_le_day (raw : Raw) (e : Env) : maxNs (sysCfg raw e) ≤ dayNs := by
  have := max_le_day raw e
  simp only [maxNs, ns, dayNs]; omega

/-! ### hand-written TTL functions = generated TTL functions -/

theorem clamp_bridge (a mn mx : Int) : ChunkStore.clampChunkTtl a mn mx = clamp_chunk_ttl a mn mx := by
  simp only [ChunkStore.clampChunkTtl, clamp_chunk_ttl, EphVerif.Gen.C01.kMinAllowedManifestTtlSec,
    EphVerif.Gen.C02.kMinAllowedManifestTtl]
  split <;> split <;> split <;> simp_all <;> omega

theorem nodeTtl_bridge (raw : Raw) (ci ttl : Int) :
    ChunkStore.nodeTtl (nodeCfg raw ci) ttl = store_chunk_put_ttl ttl (Ttl.effective raw) := by
  simp only [ChunkStore.nodeTtl, store_chunk_put_ttl, clamp_bridge, nodeCfg]

/-- `ChunkStore::put`'s own floor: hand-written `effTtl` = generated `chunkstore_put_ttl` -/
theorem effTtl_bridge (raw : Raw) (ci d : Int) :
    ChunkStore.effTtl (nodeCfg raw ci).store d = chunkstore_put_ttl d (Ttl.effective raw) := by
  simp only [ChunkStore.effTtl, chunkstore_put_ttl, nodeCfg, EphVerif.Gen.C01.kMinimumTtlSec, EphVerif.Gen.C02.kMinimumTtl]
  split <;> split <;> omega

theorem manifestTtl_bridge (raw : Raw) (e : Env) (W E : Int) :
    manifestTtl (sysCfg raw e) W E = manifest_ttl E (Ttl.effective raw) W := by
  simp only [manifestTtl, manifest_ttl, enforce_manifest_ttl, sysCfg, nodeCfg, ns]
  by_cases h0 : E ≤ W
  · simp [h0]
  · simp only [h0, if_false]
    rw [Int.tdiv_eq_ediv_of_nonneg (by omega)]
    by_cases h1 : (E - W) / 1000000000 ≤ 0
    · simp [h1]
    · simp only [h1, if_false]
      rfl

/-- the advertised provider TTL of `handle_announce` -/
def advertised (cfg : Cfg) (ttl t : Int) : Int :=
  ChunkStore.clampChunkTtl (if (if ttl > 0 then ttl else t) > t then t else (if ttl > 0 then ttl else t))
    cfg.node.minTtl cfg.node.maxTtl

theorem advertised_bridge (raw : Raw) (e : Env) (ttl t : Int) :
    advertised (sysCfg raw e) ttl t = announce_advertised_ttl ttl t (Ttl.effective raw) := by
  simp only [advertised, announce_advertised_ttl, clamp_bridge, sysCfg, nodeCfg]

/-! ### the lifetimes a local store records = `Ttl.storeChunk` (C02) -/

/-- the four lifetimes (ns) the C05 model records for `store c ttl`: chunk record, manifest, key shares,
    own announcement -/
def storeLifetimes (cfg : Cfg) (ttl : Int) : C02Spec.StoreDurations :=
  { chunk := ChunkStore.effTtl cfg.node.store (ChunkStore.nodeTtl cfg.node ttl) * ChunkStore.nsPerSec,
    manifest := ChunkStore.nodeTtl cfg.node ttl * ns,
    shard := ChunkStore.nodeTtl cfg.node ttl * ns,
    announce := ChunkStore.nodeTtl cfg.node ttl * ns }

theorem storeLifetimes_bridge (raw : Raw) (e : Env) (ttl steady wall : Int) (prevShard : Int := 0) :
    storeLifetimes (sysCfg raw e) ttl = Ttl.storeChunk raw ttl steady wall prevShard := by
  simp only [storeLifetimes, Ttl.storeChunk, Ttl.chunkStorePut, sysCfg, nodeTtl_bridge, effTtl_bridge,
    compute_expiry, publish_shards_expires, add_contact_expires, announce_chunk_contact_ttl,
    store_chunk_manifest_expires, store_chunk_shard_ttl, store_chunk_announce_ttl, store_chunk_put_ttl,
    ChunkStore.nsPerSec, ns]
  congr 1 <;> omega

/-- **imported from C02.store / C02.config**: each of the four lifetimes of a local store lies in
    `[min·10⁹, max·10⁹] ⊆ (0, 24 h]`, for every raw configuration and every requested TTL -/
theorem store_bounds (raw : Raw) (e : Env) (ttl : Int) :
    (0 < (storeLifetimes (sysCfg raw e) ttl).chunk ∧ (storeLifetimes (sysCfg raw e) ttl).chunk ≤ maxNs (sysCfg raw e)) ∧
    (0 < (storeLifetimes (sysCfg raw e) ttl).manifest ∧ (storeLifetimes (sysCfg raw e) ttl).manifest ≤ maxNs (sysCfg raw e)) ∧
    (0 < (storeLifetimes (sysCfg raw e) ttl).shard ∧ (storeLifetimes (sysCfg raw e) ttl).shard ≤ maxNs (sysCfg raw e)) ∧
    (0 < (storeLifetimes (sysCfg raw e) ttl).announce ∧ (storeLifetimes (sysCfg raw e) ttl).announce ≤ maxNs (sysCfg raw e)) ∧
    maxNs (sysCfg raw e) ≤ dayNs := by
  have hmin := min_pos raw e
  have hmm := min_le_max raw e
  have hs := C02.store raw ttl 0 0 0 (by
    have e2 : (Ttl.effective raw).max_manifest_ttl = (sysCfg raw e).node.maxTtl := rfl
    rw [e2]; omega)
  rw [← storeLifetimes_bridge raw e ttl 0 0 0] at hs
  have hday := maxNs_le_day raw e
  simp only [C02Spec.StoreOk, C02Spec.DurationOk, C02Spec.nsPerS] at hs
  obtain ⟨⟨a1, a2⟩, ⟨b1, b2⟩, ⟨c1, c2⟩, ⟨d1, d2⟩⟩ := hs
  have e1 : (Ttl.effective raw).min_manifest_ttl = (sysCfg raw e).node.minTtl := rfl
  have e2 : (Ttl.effective raw).max_manifest_ttl = (sysCfg raw e).node.maxTtl := rfl
  rw [e1] at a1 b1 c1 d1
  rw [e2] at a2 b2 c2 d2
  simp only [maxNs, ns] at hday ⊢
  refine ⟨⟨by omega, a2⟩, ⟨by omega, b2⟩, ⟨by omega, c2⟩, ⟨by omega, d2⟩, hday⟩

/-! ### the lifetimes an accepted manifest creates = `MTtl.writes` (C03) -/

open EphVerif.MTtl (Write writes Path)
open EphVerif.C03Spec (Slot)

theorem ingest_writes_bridge (raw : Raw) (e : Env) (now E t : Int) (prev : Int)
    (h : manifestTtl (sysCfg raw e) (now + e.wallOff) E = some t) :
    writes (Ttl.effective raw) e.wallOff now E prev .ingest = some [⟨.shard, now + t * ns⟩] := by
  rw [manifestTtl_bridge] at h
  simp only [writes, ingest_ttl_source, h, publish_shards_expires, ingest_shard_ttl, ns]

theorem announce_writes_bridge (raw : Raw) (e : Env) (now E t : Int) (p : String) (ttl : Int) (prev : Int)
    (h : manifestTtl (sysCfg raw e) (now + e.wallOff) E = some t) :
    writes (Ttl.effective raw) e.wallOff now E prev (.announce p ttl true false false) =
      some [⟨.shard, now + t * ns⟩, ⟨.contact p, now + advertised (sysCfg raw e) ttl t * ns⟩] := by
  rw [manifestTtl_bridge] at h
  rw [advertised_bridge]
  simp [writes, announce_ttl_source, h, publish_shards_expires, announce_shard_ttl, add_contact_expires, ns]

/-- **imported from C03.derived / C03.cap**: an accepted manifest (any expiry `E`, however far in the
    future) gives key shares that end no later than the manifest and at most `max_ttl ≤ 24 h` after the
    arrival -/
theorem manifest_shard_bounds (raw : Raw) (e : Env) (now E t : Int)
    (h : manifestTtl (sysCfg raw e) (now + e.wallOff) E = some t) :
    0 < t * ns ∧ t * ns ≤ maxNs (sysCfg raw e) ∧ now + t * ns + e.wallOff ≤ E := by
  have hw := ingest_writes_bridge raw e now E t 0 h
  have hc := C03.cap raw e.wallOff now E 0 .ingest _ hw ⟨.shard, now + t * ns⟩ (by simp)
  have hd := C03.derived raw e.wallOff now E 0 .ingest _ hw ⟨.shard, now + t * ns⟩ (by simp)
  simp only [Write.wall, C03Spec.NotAfterManifest] at hc hd
  have hp := (C05L.manifestTtl_some h).2
  have := C05L.mul_ns_pos hp
  have e2 : (Ttl.effective raw).max_manifest_ttl = (sysCfg raw e).node.maxTtl := rfl
  rw [e2] at hc
  refine ⟨this, ?_, hd.1⟩
  simp only [maxNs, ns] at hc ⊢
  omega

/-- … and a provider contact with the same two bounds, whatever TTL the announcement claims -/
theorem announce_contact_bounds (raw : Raw) (e : Env) (now E t : Int) (p : String) (ttl : Int)
    (h : manifestTtl (sysCfg raw e) (now + e.wallOff) E = some t) :
    0 < advertised (sysCfg raw e) ttl t * ns ∧ advertised (sysCfg raw e) ttl t * ns ≤ maxNs (sysCfg raw e) ∧
    now + advertised (sysCfg raw e) ttl t * ns + e.wallOff ≤ E := by
  have hw := announce_writes_bridge raw e now E t p ttl 0 h
  have hm : (⟨.contact p, now + advertised (sysCfg raw e) ttl t * ns⟩ : Write) ∈
      [⟨.shard, now + t * ns⟩, ⟨.contact p, now + advertised (sysCfg raw e) ttl t * ns⟩] := by simp
  have hc := C03.cap raw e.wallOff now E 0 _ _ hw _ hm
  have hd := C03.derived raw e.wallOff now E 0 _ _ hw _ hm
  simp only [Write.wall, C03Spec.NotAfterManifest] at hc hd
  have hp := C05L.mul_ns_pos (C05L.clampChunkTtl_pos
    (if (if ttl > 0 then ttl else t) > t then t else (if ttl > 0 then ttl else t)) (sysCfg raw e).node.minTtl (sysCfg raw e).node.maxTtl)
  have e2 : (Ttl.effective raw).max_manifest_ttl = (sysCfg raw e).node.maxTtl := rfl
  rw [e2] at hc
  refine ⟨hp, ?_, hd.1⟩
  simp only [maxNs, ns] at hc ⊢
  omega

end EphVerif.Sys
