/-
Histories: running the ChunkStore model and the abstract store side by side (C01).
-/
import EphVerif.Lemmas.C01Judge

namespace EphVerif.ChunkStore
open EphVerif.StoreSpec (Op Obs Params Entry W last readWire readRecord live judge)

def runModel (nc : NodeCfg) (w : World) (ops : List Op) : World := ops.foldl (fun w o => (step nc w o).1) w
def runSpec (p : Params) (a : W) (ops : List Op) : W := ops.foldl (StoreSpec.step p) a

/-- a freshly constructed store (any directory content, any start time) -/
def fresh (t0 : Int) (fs : FS) : World := { now := t0, sys := { recs := [], fs := fs }, lastCleanup := t0 }
def freshSpec (t0 : Int) : W := { now := t0, s := [] }

theorem rel_fresh (t0 : Int) (fs : FS) : Rel (fresh t0 fs) (freshSpec t0) :=
  ⟨rfl, List.Pairwise.nil, by intro id r h; simp [fresh, aget] at h, by intro id e h; simp [freshSpec, last] at h⟩

theorem rel_run {nc : NodeCfg} (hs : SaneCfg nc) (ops : List Op) {w : World} {a : W} (h : Rel w a) :
    Rel (runModel nc w ops) (runSpec (paramsOf nc) a ops) := by
  induction ops generalizing w a with
  | nil => exact h
  | cons o rest ih => exact ih (rel_step hs h o)

theorem accepted_of_rel {nc : NodeCfg} (hs : SaneCfg nc) (ops : List Op) {w : World} {a : W} (h : Rel w a) :
    accepted nc (paramsOf nc) w a ops = true := by
  induction ops generalizing w a with
  | nil => rfl
  | cons o rest ih =>
    simp only [accepted, Bool.and_eq_true]
    exact ⟨by rw [judge_step hs h o]; rfl, ih (rel_step hs h o)⟩

/-- does the operation store (or overwrite) chunk `id`? -/
def storesId (id : String) : Op → Bool
  | .store i .. => i == id
  | .nstore i .. => i == id
  | _ => false

/-- operations the abstract store does not see at all -/
def invisible : Op → Bool
  | .lookup _ | .record _ | .fetch _ | .request _ | .list | .sweep | .tick => true
  | _ => false

theorem spec_step_invisible (p : Params) (a : W) {o : Op} (h : invisible o = true) : StoreSpec.step p a o = a := by
  cases o <;> simp [invisible] at h <;> rfl

theorem runSpec_filter (p : Params) (a : W) (ops : List Op) :
    runSpec p a (ops.filter (fun o => !invisible o)) = runSpec p a ops := by
  induction ops generalizing a with
  | nil => rfl
  | cons o rest ih =>
    by_cases h : invisible o = true
    · simp only [List.filter_cons, h, Bool.not_true]
      simp only [runSpec, List.foldl_cons, spec_step_invisible p a h] at ih ⊢
      exact ih a
    · simp only [Bool.not_eq_true] at h
      simp only [List.filter_cons, h, Bool.not_false, if_true, runSpec, List.foldl_cons] at ih ⊢
      exact ih _

theorem last_step_other (p : Params) (a : W) (id : String) {o : Op} (h : storesId id o = false) :
    last (StoreSpec.step p a o).s id = last a.s id := by
  cases o <;> simp [storesId] at h <;> simp [StoreSpec.step, last, h]

theorem last_run_other (p : Params) (a : W) (id : String) (ops : List Op)
    (h : ∀ o ∈ ops, storesId id o = false) : last (runSpec p a ops).s id = last a.s id := by
  induction ops generalizing a with
  | nil => rfl
  | cons o rest ih =>
    simp only [runSpec, List.foldl_cons]
    have := ih (StoreSpec.step p a o) (fun o' ho' => h o' (List.mem_cons_of_mem _ ho'))
    simp only [runSpec] at this
    rw [this, last_step_other p a id (h o (List.mem_cons_self))]

theorem now_run_ge (p : Params) (a : W) (ops : List Op) : a.now ≤ (runSpec p a ops).now := by
  induction ops generalizing a with
  | nil => exact Int.le_refl _
  | cons o rest ih =>
    simp only [runSpec, List.foldl_cons]
    have := ih (StoreSpec.step p a o)
    simp only [runSpec] at this
    have h2 : a.now ≤ (StoreSpec.step p a o).now := by
      cases o <;> simp [StoreSpec.step] <;> omega
    omega

end EphVerif.ChunkStore
