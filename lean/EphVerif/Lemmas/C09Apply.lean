/-
C09 helper lemmas, part 3: the `while` loop of `ChaCha20::apply` (array writes, `++counter`
wrapping at 2^32, partial last block) has the closed form "byte j = input[j] xor key-stream byte
j", and so does the RFC 8439 encryption function.
-/
import EphVerif.Lemmas.C09Block

namespace EphVerif.C09
open EphVerif EphVerif.ChaCha20 EphVerif.Spec.ChaCha

theorem size_xorBlock (input : Array UInt8) (ks : List UInt8) (p bs : Nat) (out : Array UInt8) :
    (xorBlock input ks p bs out).size = out.size := by
  induction bs generalizing out with
  | zero => simp [xorBlock]
  | succ bs ih =>
    simp only [xorBlock, List.range_succ, List.foldl_append, List.foldl_cons, List.foldl_nil, Array.size_setIfInBounds] at *
    exact ih out

theorem getElem?_xorBlock (input : Array UInt8) (ks : List UInt8) (p bs : Nat) (out : Array UInt8) (j : Nat) :
    (xorBlock input ks p bs out)[j]? =
      if p ≤ j ∧ j < p + bs ∧ j < out.size then some (input.getD j 0 ^^^ ks.getD (j - p) 0) else out[j]? := by
  induction bs generalizing out with
  | zero => simp [xorBlock]; omega
  | succ bs ih =>
    have hs := size_xorBlock input ks p bs out
    simp only [xorBlock, List.range_succ, List.foldl_append, List.foldl_cons, List.foldl_nil] at *
    rw [Array.getElem?_setIfInBounds, ih, hs]
    by_cases h1 : p + bs = j
    · subst h1
      by_cases h2 : p + bs < out.size
      · simp [h2]
      · simp [h2]
    · simp only [h1, if_false]
      by_cases h3 : p ≤ j ∧ j < p + bs ∧ j < out.size
      · have h4 : p ≤ j ∧ j < p + (bs + 1) ∧ j < out.size := by omega
        simp only [h3, h4, and_self, if_true]
      · have h4 : ¬ (p ≤ j ∧ j < p + (bs + 1) ∧ j < out.size) := by omega
        simp only [h3, h4, if_false]


/-- key-stream byte `j` counted from block counter `c`: byte `j % 64` of the block with counter `c + j / 64 (mod 2^32)` -/
def ksByte (key nonce : List UInt8) (c : UInt32) (j : Nat) : UInt8 :=
  (chacha20_block key nonce (c + UInt32.ofNat (j / 64))).getD (j % 64) 0

theorem applyLoop_spec (key nonce : List UInt8) (input : Array UInt8) (p : Nat) (c : UInt32) (out : Array UInt8)
    (hsz : out.size = input.size) :
    (applyLoop key nonce input p c out).size = input.size ∧
    ∀ j, j < input.size → (applyLoop key nonce input p c out)[j]? =
      if j < p then out[j]? else some (input.getD j 0 ^^^ ksByte key nonce c (j - p)) := by
  fun_induction applyLoop key nonce input p c out with
  | case1 p c out hlt ks c' bs out' ih =>
    have hsz' : out'.size = input.size := by simp only [out', size_xorBlock, hsz]
    obtain ⟨ih1, ih2⟩ := ih hsz'
    refine ⟨ih1, ?_⟩
    intro j hj
    rw [ih2 j hj]
    have hbs : bs = min 64 (input.size - p) := rfl
    simp only [out', getElem?_xorBlock]
    by_cases hA : j < p
    · have h1 : j < p + bs := by omega
      have h2 : ¬ (p ≤ j ∧ j < p + bs ∧ j < out.size) := by omega
      rw [if_pos h1, if_neg h2, if_pos hA]
    · by_cases hB : j < p + bs
      · have h2 : p ≤ j ∧ j < p + bs ∧ j < out.size := by omega
        have h3 : (j - p) / 64 = 0 := by omega
        have h4 : (j - p) % 64 = j - p := by omega
        rw [if_pos hB, if_pos h2, if_neg hA]
        simp only [ksByte, h3, h4]
        have : c + UInt32.ofNat 0 = c := by simp
        rw [this]
      · have h64 : bs = 64 := by omega
        have h3 : (j - p) / 64 = (j - (p + bs)) / 64 + 1 := by omega
        have h4 : (j - p) % 64 = (j - (p + bs)) % 64 := by omega
        rw [if_neg hB, if_neg hA]
        simp only [ksByte, h3, h4, c']
        have : c + 1 + UInt32.ofNat ((j - (p + bs)) / 64) = c + UInt32.ofNat ((j - (p + bs)) / 64 + 1) := by
          rw [UInt32.ofNat_add, UInt32.add_assoc, UInt32.add_comm 1]
          rfl
        rw [this]
  | case2 p c out hge =>
    refine ⟨hsz, ?_⟩
    intro j hj
    have : j < p := by omega
    simp [this]



theorem size_resize (out : Array UInt8) (n : Nat) : (resize out n).size = n := by
  simp only [resize, Array.size_append, Array.size_extract, Array.size_replicate]
  omega

theorem size_prepare (out : Array UInt8) (n : Nat) : (prepare out n).size = n := by
  unfold prepare
  split
  · exact size_resize out n
  · exact Array.size_replicate

/-- closed form of the model: byte `j` of the result is `input[j] xor` key-stream byte `j`,
whatever the output vector held before -/
theorem applyInto_eq (key nonce input : List UInt8) (c : UInt32) (out0 : List UInt8) :
    applyInto key nonce input c out0 = input.mapIdx fun j b => b ^^^ ksByte key nonce c j := by
  have hsz : (prepare out0.toArray input.length).size = input.toArray.size := by simp [size_prepare]
  obtain ⟨h1, h2⟩ := applyLoop_spec key nonce input.toArray 0 c _ hsz
  apply List.ext_getElem?
  intro j
  simp only [applyInto, Array.getElem?_toList, List.getElem?_mapIdx]
  by_cases hj : j < input.length
  · rw [h2 j (by simpa using hj)]
    simp [hj]
  · have hj' : input.length ≤ j := by omega
    have e1 : input[j]? = none := List.getElem?_eq_none hj'
    have e2 : (applyLoop key nonce input.toArray 0 c (prepare out0.toArray input.length))[j]? = none := by
      apply Array.getElem?_eq_none
      rw [h1]; simpa using hj'
    rw [e1, e2]; rfl


theorem length_flatMap_range {α : Type} (f : Nat → List α) (h : ∀ i, (f i).length = 64) (m : Nat) :
    ((List.range m).flatMap f).length = 64 * m := by
  induction m with
  | zero => rfl
  | succ m ih =>
    rw [List.range_succ, List.flatMap_append, List.length_append, ih]
    simp only [List.flatMap_cons, List.flatMap_nil, List.append_nil, h]
    omega

theorem getElem?_flatMap_range {α : Type} (f : Nat → List α) (h : ∀ i, (f i).length = 64) (m j : Nat) (hj : j < 64 * m) :
    ((List.range m).flatMap f)[j]? = (f (j / 64))[j % 64]? := by
  induction m with
  | zero => omega
  | succ m ih =>
    rw [List.range_succ, List.flatMap_append]
    by_cases hlt : j < 64 * m
    · rw [List.getElem?_append_left (by rw [length_flatMap_range f h]; exact hlt), ih hlt]
    · rw [List.getElem?_append_right (by rw [length_flatMap_range f h]; omega), length_flatMap_range f h]
      simp only [List.flatMap_cons, List.flatMap_nil, List.append_nil]
      have e1 : j / 64 = m := by omega
      have e2 : j % 64 = j - 64 * m := by omega
      rw [e1, e2]

/-- closed form of the specification for well-sized key and nonce -/
theorem spec_chacha20_eq (key nonce : List UInt8) (c : UInt32) (input : List UInt8) (hk : key.length = 32) (hn : nonce.length = 12) :
    Spec.chacha20 key nonce c input = input.mapIdx fun j b => b ^^^ ksByte key nonce c j := by
  apply List.ext_getElem?
  intro j
  have hlen : ∀ i, (Spec.chacha20Block key (c + UInt32.ofNat i) nonce).length = 64 :=
    fun i => length_chacha20Block key nonce _ hk hn
  simp only [Spec.chacha20, keystream, List.getElem?_zipWith, List.getElem?_mapIdx]
  by_cases hj : j < input.length
  · have hj' : j < 64 * blocksFor input.length := by simp only [blocksFor]; omega
    rw [getElem?_flatMap_range _ hlen _ _ hj']
    have hm : j % 64 < (Spec.chacha20Block key (c + UInt32.ofNat (j / 64)) nonce).length := by rw [hlen]; omega
    simp only [List.getElem?_eq_getElem hj, List.getElem?_eq_getElem hm, Option.map_some, ksByte,
      chacha20_block_eq key nonce _ hk hn, List.getD_eq_getElem?_getD, Option.getD_some]
  · have e1 : input[j]? = none := List.getElem?_eq_none (by omega)
    rw [e1]; rfl

end EphVerif.C09
