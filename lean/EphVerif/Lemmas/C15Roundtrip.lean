/-
Helper lemmas for C15: decoding the encoding of each payload kind (`Model/Message.lean`).
Core Lean only.
-/
import EphVerif.Lemmas.C15Bytes
import EphVerif.Spec.Message

namespace EphVerif.Message
open EphVerif.Gen.C15 EphVerif.MessageSpec

syntax "prefix_chain" : tactic
macro_rules
  | `(tactic| prefix_chain) =>
    `(tactic| first
      | with_reducible exact List.prefix_rfl
      | (with_reducible refine List.IsPrefix.trans ?_ (List.prefix_append _ _); prefix_chain))

theorem rd_of_prefix0 {d b : Bytes} {n : Nat} (h : b <+: d) (hn : b.length = n) : rd d 0 n = some b :=
  rd_of_prefix (p := []) (by simpa using h) rfl hn
theorem rdU8_of_prefix0 {d : Bytes} {v : Nat} (h : [UInt8.ofNat v] <+: d) (hv : v < 256) : rdU8 d 0 = some v :=
  rdU8_of_prefix (p := []) (by simpa using h) rfl hv
theorem rdU32_of_prefix0 {d : Bytes} {v : Nat} (h : writeU32 v <+: d) (hv : v < 4294967296) : rdU32 d 0 = some v :=
  rdU32_of_prefix (p := []) (by simpa using h) rfl hv

theorem castU32i_lt (t : Int) : castU32i t < 4294967296 := by
  unfold castU32i
  have := Int.emod_lt_of_pos t (b := 4294967296) (by decide)
  have := Int.emod_nonneg t (b := 4294967296) (by decide)
  omega

theorem parseAnnounce_encode (a : Announce) (pow : Bool) (version : Nat)
    (hr : FieldsInRange (.announce a)) (hv : decide (version ≥ encPowMinVersion) = pow) :
    parseAnnounce (encodePayload version (.announce a)) pow = .ok (if pow then a else { a with nonce := 0 }) := by
  obtain ⟨hcl, hpl, hel, hml, hsl, ht0, ht1, hn⟩ := hr
  have hc : kChunkIdSize = 32 := rfl
  have hp : kPeerIdSize = 32 := rfl
  simp only [encodePayload, hv, castU32_of_lt (show a.endpoint.length < 4294967296 by omega),
    castU32_of_lt (show a.manifestUri.length < 4294967296 by omega), castU32_of_lt (show a.shards.length < 4294967296 by omega)]
  generalize hd : (writeU32 (castU32i a.ttl) ++ writeU32 a.endpoint.length ++ writeU32 a.manifestUri.length ++
    writeU32 a.shards.length ++ a.chunkId ++ a.peerId ++ a.endpoint ++ a.manifestUri ++ a.shards ++
    if pow = true then writeU64 a.nonce else []) = d
  have hlen : d.length = 80 + a.endpoint.length + a.manifestUri.length + a.shards.length + (if pow = true then 8 else 0) := by
    rw [← hd]; cases pow <;> simp [hcl, hpl] <;> omega
  have h1 : rdU32 d 0 = some (castU32i a.ttl) := rdU32_of_prefix0 (by rw [← hd]; prefix_chain) (castU32i_lt _)
  have h2 : rdU32 d 4 = some a.endpoint.length :=
    rdU32_of_prefix (p := writeU32 (castU32i a.ttl)) (by rw [← hd]; prefix_chain) (by simp) (by omega)
  have h3 : rdU32 d 8 = some a.manifestUri.length :=
    rdU32_of_prefix (p := writeU32 (castU32i a.ttl) ++ writeU32 a.endpoint.length) (by rw [← hd]; prefix_chain) (by simp) (by omega)
  have h4 : rdU32 d 12 = some a.shards.length :=
    rdU32_of_prefix (p := writeU32 (castU32i a.ttl) ++ writeU32 a.endpoint.length ++ writeU32 a.manifestUri.length)
      (by rw [← hd]; prefix_chain) (by simp) (by omega)
  have h5 : rd d 16 kChunkIdSize = some a.chunkId :=
    rd_of_prefix (p := writeU32 (castU32i a.ttl) ++ writeU32 a.endpoint.length ++ writeU32 a.manifestUri.length ++
      writeU32 a.shards.length) (by rw [← hd]; prefix_chain) (by simp) (by omega)
  have h6 : rd d (16 + kChunkIdSize) kPeerIdSize = some a.peerId :=
    rd_of_prefix (p := writeU32 (castU32i a.ttl) ++ writeU32 a.endpoint.length ++ writeU32 a.manifestUri.length ++
      writeU32 a.shards.length ++ a.chunkId) (by rw [← hd]; prefix_chain) (by simp; omega) (by omega)
  have h7 : rd d (16 + kChunkIdSize + kPeerIdSize) a.endpoint.length = some a.endpoint :=
    rd_of_prefix (p := writeU32 (castU32i a.ttl) ++ writeU32 a.endpoint.length ++ writeU32 a.manifestUri.length ++
      writeU32 a.shards.length ++ a.chunkId ++ a.peerId) (by rw [← hd]; prefix_chain) (by simp; omega) rfl
  have h8 : rd d (16 + kChunkIdSize + kPeerIdSize + a.endpoint.length) a.manifestUri.length = some a.manifestUri :=
    rd_of_prefix (p := writeU32 (castU32i a.ttl) ++ writeU32 a.endpoint.length ++ writeU32 a.manifestUri.length ++
      writeU32 a.shards.length ++ a.chunkId ++ a.peerId ++ a.endpoint) (by rw [← hd]; prefix_chain) (by simp; omega) rfl
  have h9 : rd d (16 + kChunkIdSize + kPeerIdSize + a.endpoint.length + a.manifestUri.length) a.shards.length = some a.shards :=
    rd_of_prefix (p := writeU32 (castU32i a.ttl) ++ writeU32 a.endpoint.length ++ writeU32 a.manifestUri.length ++
      writeU32 a.shards.length ++ a.chunkId ++ a.peerId ++ a.endpoint ++ a.manifestUri)
      (by rw [← hd]; prefix_chain) (by simp; omega) rfl
  have httl : Int.ofNat (castU32i a.ttl) = a.ttl := castU32i_of_range ht0 (by omega)
  unfold parseAnnounce
  cases pow
  · simp only [Bool.false_eq_true, if_false] at hlen ⊢
    rw [if_neg (by omega)]
    simp only [h1, h2, h3, h4, chk_some]
    rw [if_neg (by omega)]
    simp only [h5, h6, h7, h8, h9, chk_some, httl]
  · simp only [if_true] at hlen ⊢
    have h10 : rdU64 d (16 + kChunkIdSize + kPeerIdSize + a.endpoint.length + a.manifestUri.length + a.shards.length)
        = some a.nonce :=
      rdU64_of_prefix (p := writeU32 (castU32i a.ttl) ++ writeU32 a.endpoint.length ++ writeU32 a.manifestUri.length ++
        writeU32 a.shards.length ++ a.chunkId ++ a.peerId ++ a.endpoint ++ a.manifestUri ++ a.shards)
        (by rw [← hd]; simp only [if_true]; prefix_chain) (by simp; omega) (by omega)
    rw [if_neg (by omega)]
    simp only [h1, h2, h3, h4, chk_some]
    rw [if_neg (by omega)]
    simp only [h5, h6, h7, h8, h9, h10, chk_some, httl]

theorem flagByte_eq (b : Bool) : flagByte b = UInt8.ofNat (if b then 1 else 0) := by cases b <;> rfl

/-- what `decode_payload_v1` returns on the encoding of a payload (no nonce field in this path) -/
def v1View : Payload → Payload
  | .announce a => .announce { a with nonce := 0 }
  | p => p

theorem decodePayloadV1_encode (p : Payload) (version : Nat) (hr : FieldsInRange p)
    (hv : ∀ a, p = .announce a → version < encPowMinVersion) :
    decodePayloadV1 (tagOf p) (encodePayload version p) = .ok (v1View p) := by
  have hc : kChunkIdSize = 32 := rfl
  have hp : kPeerIdSize = 32 := rfl
  cases p with
  | announce a =>
    have := parseAnnounce_encode a false version hr (by have := hv a rfl; simp; omega)
    simp [decodePayloadV1, tagOf, tagAnnounce, this, Outcome.map, v1View]
  | request c r =>
    obtain ⟨h1, h2⟩ := hr
    have r1 : rd (c ++ r) 0 kChunkIdSize = some c := rd_of_prefix0 (by prefix_chain) (by omega)
    have r2 : rd (c ++ r) kChunkIdSize kPeerIdSize = some r := rd_of_prefix (p := c) (by prefix_chain) (by omega) (by omega)
    simp only [decodePayloadV1, tagOf, encodePayload, tagAnnounce, tagRequest, r1, r2, chk_some, v1View]
    simp [h1, h2, hc, hp]
  | chunk c data ttl =>
    obtain ⟨h1, h2, h3, h4⟩ := hr
    simp only [encodePayload, castU32_of_lt (show data.length < 4294967296 by omega)]
    generalize hd : (writeU32 (castU32i ttl) ++ writeU32 data.length ++ c ++ data) = d
    have hlen : d.length = 40 + data.length := by rw [← hd]; simp [h1]; omega
    have r1 : rdU32 d 0 = some (castU32i ttl) := rdU32_of_prefix0 (by rw [← hd]; prefix_chain) (castU32i_lt _)
    have r2 : rdU32 d 4 = some data.length :=
      rdU32_of_prefix (p := writeU32 (castU32i ttl)) (by rw [← hd]; prefix_chain) (by simp) (by omega)
    have r3 : rd d 8 kChunkIdSize = some c :=
      rd_of_prefix (p := writeU32 (castU32i ttl) ++ writeU32 data.length) (by rw [← hd]; prefix_chain) (by simp) (by omega)
    have r4 : rd d (8 + kChunkIdSize) data.length = some data :=
      rd_of_prefix (p := writeU32 (castU32i ttl) ++ writeU32 data.length ++ c) (by rw [← hd]; prefix_chain) (by simp; omega) rfl
    have httl : Int.ofNat (castU32i ttl) = ttl := castU32i_of_range h3 (by omega)
    simp only [decodePayloadV1, tagOf, tagAnnounce, tagRequest, tagChunk, v1View]
    simp only [show ¬ (3 = 1) by decide, show ¬ (3 = 2) by decide, if_false, if_true]
    rw [if_neg (by omega)]
    simp only [r1, r2, chk_some]
    rw [if_neg (by omega)]
    simp only [r3, r4, chk_some, httl]
  | ack c p acc =>
    obtain ⟨h1, h2⟩ := hr
    simp only [encodePayload, flagByte_eq]
    generalize hd : ([UInt8.ofNat (if acc = true then 1 else 0)] ++ c ++ p) = d
    have hlen : d.length = 65 := by rw [← hd]; simp [h1, h2]
    have hflag : (if acc = true then 1 else 0) < 256 := by cases acc <;> simp
    have r1 : rdU8 d 0 = some (if acc = true then 1 else 0) := rdU8_of_prefix0 (by rw [← hd]; prefix_chain) hflag
    have r2 : rd d 1 kChunkIdSize = some c :=
      rd_of_prefix (p := [UInt8.ofNat (if acc = true then 1 else 0)]) (by rw [← hd]; prefix_chain) (by simp) (by omega)
    have r3 : rd d (1 + kChunkIdSize) kPeerIdSize = some p :=
      rd_of_prefix (p := [UInt8.ofNat (if acc = true then 1 else 0)] ++ c) (by rw [← hd]; prefix_chain) (by simp; omega) (by omega)
    simp only [decodePayloadV1, tagOf, tagAnnounce, tagRequest, tagChunk, tagAcknowledge, v1View]
    simp only [show ¬ (4 = 1) by decide, show ¬ (4 = 2) by decide, show ¬ (4 = 3) by decide, if_false, if_true]
    rw [if_neg (by omega)]
    simp only [r1, chk_some]
    rw [if_neg (by cases acc <;> simp)]
    simp only [r2, r3, chk_some]
    cases acc <;> simp
  | handshake pub nonce rv =>
    obtain ⟨h1, h2, h3⟩ := hr
    simp only [encodePayload]
    generalize hd : (writeU32 pub ++ writeU64 nonce ++ [UInt8.ofNat rv]) = d
    have hlen : d.length = 13 := by rw [← hd]; simp
    have r1 : rdU32 d 0 = some pub := rdU32_of_prefix0 (by rw [← hd]; prefix_chain) (by omega)
    have r2 : rdU64 d 4 = some nonce := rdU64_of_prefix (p := writeU32 pub) (by rw [← hd]; prefix_chain) (by simp) (by omega)
    have r3 : rdU8 d 12 = some rv :=
      rdU8_of_prefix (p := writeU32 pub ++ writeU64 nonce) (by rw [← hd]; prefix_chain) (by simp) h3
    simp only [decodePayloadV1, tagOf, tagAnnounce, tagRequest, tagChunk, tagAcknowledge, tagTransportHandshake, v1View]
    simp only [show ¬ (5 = 1) by decide, show ¬ (5 = 2) by decide, show ¬ (5 = 3) by decide, show ¬ (5 = 4) by decide,
      if_false, if_true]
    rw [if_neg (by omega)]
    simp only [r1, r2, r3, chk_some]
  | handshakeAck acc nv pub =>
    obtain ⟨h1, h2⟩ := hr
    simp only [encodePayload, flagByte_eq]
    generalize hd : ([UInt8.ofNat (if acc = true then 1 else 0)] ++ [UInt8.ofNat nv] ++ writeU32 pub) = d
    have hlen : d.length = 6 := by rw [← hd]; simp
    have hflag : (if acc = true then 1 else 0) < 256 := by cases acc <;> simp
    have r1 : rdU8 d 0 = some (if acc = true then 1 else 0) := rdU8_of_prefix0 (by rw [← hd]; prefix_chain) hflag
    have r2 : rdU8 d 1 = some nv :=
      rdU8_of_prefix (p := [UInt8.ofNat (if acc = true then 1 else 0)]) (by rw [← hd]; prefix_chain) (by simp) h1
    have r3 : rdU32 d 2 = some pub :=
      rdU32_of_prefix (p := [UInt8.ofNat (if acc = true then 1 else 0)] ++ [UInt8.ofNat nv]) (by rw [← hd]; prefix_chain)
        (by simp) (by omega)
    simp only [decodePayloadV1, tagOf, tagAnnounce, tagRequest, tagChunk, tagAcknowledge, tagTransportHandshake,
      tagHandshakeAck, v1View]
    simp only [show ¬ (6 = 1) by decide, show ¬ (6 = 2) by decide, show ¬ (6 = 3) by decide, show ¬ (6 = 4) by decide,
      show ¬ (6 = 5) by decide, if_false, if_true]
    rw [if_neg (by omega)]
    simp only [r1, chk_some]
    rw [if_neg (by cases acc <;> simp)]
    simp only [r2, r3, chk_some]
    cases acc <;> simp

/-- the two header bytes are a prefix of an encoding -/
theorem cons2_prefix (x y : UInt8) (r : Bytes) : [x] <+: x :: y :: r ∧ [x] ++ [y] <+: x :: y :: r :=
  ⟨⟨y :: r, rfl⟩, ⟨r, rfl⟩⟩

end EphVerif.Message
