/-
C06: running the model (`KademliaTable`'s locator table) and the abstract directory side by side
over a history, and the fact that the simulation relation `R` holds along every run.
-/
import EphVerif.Lemmas.C06Add

namespace EphVerif.C06L
open EphVerif.Providers EphVerif.C06Spec List

/-- joint state: the virtual clock, the model's table, the abstract directory -/
structure St where
  now : Int
  t : Table
  s : S

/-- what a history lets one observe -/
inductive Obs where
  /-- a lookup of `c`: what `find_providers` returned and what the abstract directory answers -/
  | found (c : String) (model spec : List Ann)
  /-- an announcement: the holder list the model kept for the chunk, and whether the abstract
      directory accepted the model's choice as a legal "20 expiring last" -/
  | added (kept : List Ann) (specAccepts : Bool)
deriving DecidableEq, Repr

def init (now0 : Int) : St := ⟨now0, Table.empty, C06Spec.empty⟩

/-- one operation on both sides.  The abstract directory has no sweep; its `keep` choice at an
    announcement is the live part of the set the model kept. -/
def step (st : St) : Op → St × List Obs
  | .adv d => ({ st with now := st.now + d }, [])
  | .add c p ttl hint =>
    let t' := addContact st.t st.now c p ttl hint
    let r := C06Spec.add st.s st.now c p (st.now + ttl) (some (keepOf st.now (holdersOf t' c)))
    ({ st with t := t', s := r.1 }, [.added (holdersOf t' c) r.2])
  | .find c =>
    let r := findProviders st.t st.now c
    ({ st with t := r.1 }, [.found c r.2 (C06Spec.find st.s st.now c)])
  | .sweep => ({ st with t := Providers.sweep st.t st.now }, [])
  | .withdraw c p => ({ st with t := Providers.withdraw st.t c p, s := C06Spec.withdraw st.s c p }, [])

/-- final state and all observations, in order -/
def run (st : St) : List Op → St × List Obs
  | [] => (st, [])
  | op :: ops => ((run (step st op).1 ops).1, (step st op).2 ++ (run (step st op).1 ops).2)

theorem run_append (st : St) (a b : List Op) :
    run st (a ++ b) = ((run (run st a).1 b).1, (run st a).2 ++ (run (run st a).1 b).2) := by
  induction a generalizing st with
  | nil => simp [run]
  | cons op ops ih => simp [run, ih, append_assoc]

/-- an observation agrees with the abstract directory -/
def Obs.ok : Obs → Prop
  | .found _ m s => m ~ s ∧ (∀ a, a ∈ m ↔ a ∈ s) ∧ m.length ≤ 20
  | .added kept acc => acc = true ∧ kept.length ≤ 20

/-- the joint state is in the simulation relation -/
def Good (st : St) : Prop := R st.now st.t st.s

theorem good_init (now0 : Int) : Good (init now0) := R_init now0

theorem step_good {st : St} (h : Good st) (op : Op) :
    Good (step st op).1 ∧ ∀ o ∈ (step st op).2, o.ok := by
  cases op with
  | adv d => exact ⟨R_adv h d, by simp [step]⟩
  | add c p ttl hint =>
    have := R_add h c p ttl hint
    refine ⟨this.1, ?_⟩
    intro o ho
    simp only [step, mem_singleton] at ho
    subst ho
    exact ⟨this.2, this.1.ok.length c⟩
  | find c =>
    refine ⟨R_find h c, ?_⟩
    intro o ho
    simp only [step, mem_singleton] at ho
    subst ho
    have hp : (findProviders st.t st.now c).2 ~ C06Spec.find st.s st.now c := by
      rw [find_snd]; exact h.sim c
    refine ⟨hp, fun a => hp.mem_iff, ?_⟩
    rw [find_snd]
    exact Nat.le_trans (length_filter_le _ _) (h.ok.length c)
  | sweep => exact ⟨R_sweep h, by simp [step]⟩
  | withdraw c p => exact ⟨R_withdraw h c p, by simp [step]⟩

theorem run_good {st : St} (h : Good st) (ops : List Op) :
    Good (run st ops).1 ∧ ∀ o ∈ (run st ops).2, o.ok := by
  induction ops generalizing st with
  | nil => exact ⟨h, by simp [run]⟩
  | cons op ops ih =>
    have h1 := step_good h op
    have h2 := ih h1.1
    refine ⟨h2.1, ?_⟩
    intro o ho
    simp only [run, mem_append] at ho
    rcases ho with ho | ho
    · exact h1.2 o ho
    · exact h2.2 o ho

end EphVerif.C06L
