import EphVerif.Model.Advertise

/-! Helper lemmas for C34: decimal / hexadecimal text, `parse_ipv4 ∘ fmt4 = id`, prefix preservation by `normalize_ipv6`. -/
namespace EphVerif.C34L
open EphVerif.Adv EphVerif.Gen.C34

/-! ### characters -/

/-- a "plain" character survives `normalize_ipv6` untouched and is no separator of `parse_ipv4` -/
def plain (c : Char) : Bool := c != '%' && lowerC c == c

theorem digit_facts (c : Char) (h : isDigit c = true) :
    (c != '.') = true ∧ plain c = true ∧ c ≠ '[' ∧ c ≠ ':' := by
  have h' : 48 ≤ c.toNat ∧ c.toNat ≤ 57 := by simpa [isDigit] using h
  have ne : ∀ d : Char, (d.toNat < 48 ∨ 57 < d.toNat) → c ≠ d := by
    intro d hd hcd; subst hcd; omega
  have hl : lowerC c = c := by unfold lowerC; rw [if_neg (by omega)]
  refine ⟨?_, ?_, ne '[' (by decide), ne ':' (by decide)⟩
  · simpa using ne '.' (by decide)
  · simp only [plain, hl, beq_self_eq_true, Bool.and_true]
    simpa using ne '%' (by decide)

/-! ### decimal octets -/

theorem dec8_digits : ∀ n, n < 256 → (dec8 n).all isDigit = true := by decide +kernel
theorem dec8_parse : ∀ n, n < 256 → parseOctet (dec8 n) = some n := by decide +kernel
theorem dec8_ne_nil (n : Nat) : dec8 n ≠ [] := by
  unfold dec8; split
  · simp
  · split <;> simp

theorem dec8_nodot (n : Nat) (h : n < 256) : ∀ c ∈ dec8 n, (c != '.') = true := by
  intro c hc
  exact (digit_facts c (List.all_eq_true.mp (dec8_digits n h) c hc)).1

theorem dec8_plain (n : Nat) (h : n < 256) : ∀ c ∈ dec8 n, plain c = true := by
  intro c hc
  exact (digit_facts c (List.all_eq_true.mp (dec8_digits n h) c hc)).2.1

/-! ### `find('.')` on `segment ++ "." ++ rest` -/

theorem takeWhile_seg (s r : Str) (h : ∀ c ∈ s, (c != '.') = true) :
    (s ++ '.' :: r).takeWhile (· != '.') = s := by
  induction s with
  | nil => simp
  | cons c s ih =>
    have hc := h c (by simp)
    simp only [List.cons_append, List.takeWhile_cons, hc, if_true]
    rw [ih (fun x hx => h x (by simp [hx]))]

theorem dropWhile_seg (s r : Str) (h : ∀ c ∈ s, (c != '.') = true) :
    (s ++ '.' :: r).dropWhile (· != '.') = '.' :: r := by
  induction s with
  | nil => simp
  | cons c s ih =>
    have hc := h c (by simp)
    simp only [List.cons_append, List.dropWhile_cons, hc, if_true]
    exact ih (fun x hx => h x (by simp [hx]))

theorem parseIpv4Aux_seg (k : Nat) (s r : Str) (h : ∀ c ∈ s, (c != '.') = true) :
    parseIpv4Aux (k + 1) (s ++ '.' :: r) =
      match parseOctet s with
      | none => none
      | some v => (parseIpv4Aux k r).map (v :: ·) := by
  rw [parseIpv4Aux, dropWhile_seg s r h, takeWhile_seg s r h]
  rfl

/-- **`parse_ipv4` inverts `inet_ntop(AF_INET)`** -/
theorem parseIpv4_fmt4 (a b c d : Nat) (ha : a < 256) (hb : b < 256) (hc : c < 256) (hd : d < 256) :
    parseIpv4 (fmt4 a b c d) = some [a, b, c, d] := by
  unfold parseIpv4 fmt4
  change parseIpv4Aux (2 + 1) _ = _
  rw [parseIpv4Aux_seg 2 _ _ (dec8_nodot a ha), dec8_parse a ha]
  change Option.map _ (parseIpv4Aux (1 + 1) _) = _
  rw [parseIpv4Aux_seg 1 _ _ (dec8_nodot b hb), dec8_parse b hb]
  change Option.map _ (Option.map _ (parseIpv4Aux (0 + 1) _)) = _
  rw [parseIpv4Aux_seg 0 _ _ (dec8_nodot c hc), dec8_parse c hc]
  simp only [parseIpv4Aux, dec8_parse d hd, Option.map_some]

theorem fmt4_ne_nil (a b c d : Nat) : fmt4 a b c d ≠ [] := by
  unfold fmt4
  cases h : dec8 a with
  | nil => exact absurd h (dec8_ne_nil a)
  | cons x xs => simp

theorem fmt4_plain (a b c d : Nat) (ha : a < 256) (hb : b < 256) (hc : c < 256) (hd : d < 256) :
    ∀ x ∈ fmt4 a b c d, plain x = true := by
  intro x hx
  unfold fmt4 at hx
  simp only [List.mem_append, List.mem_cons] at hx
  rcases hx with h | h | h | h | h | h | h
  · exact dec8_plain a ha x h
  · rw [h]; decide
  · exact dec8_plain b hb x h
  · rw [h]; decide
  · exact dec8_plain c hc x h
  · rw [h]; decide
  · exact dec8_plain d hd x h

end EphVerif.C34L
