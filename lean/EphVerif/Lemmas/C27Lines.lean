/-
How the `while (recv_line(...))` loops of the control plane consume a byte stream
(used by C27, C28 and C29).
-/
import EphVerif.Lemmas.C27Basics
import EphVerif.Spec.Control

namespace EphVerif.Control

def stripCR (l : Bytes) : Bytes := l.filter (· != 13)

/-! ## feeding one line -/

/-- the bytes of a line up to its LF are accumulated (CR dropped) as long as the limit holds -/
theorem lineLoop_feed {σ : Type} (M : Nat) (body : σ → Bytes → Step σ) :
    ∀ (l rest acc : Bytes) (n : Nat) (st : σ), (∀ c ∈ l, c ≠ 10) → n + (stripCR l).length ≤ M →
      lineLoop M body (l ++ 10 :: rest) acc n st =
        lineLoop M body (10 :: rest) ((stripCR l).reverse ++ acc) (n + (stripCR l).length) st
  | [], rest, acc, n, st, _, _ => by simp [stripCR]
  | c :: l, rest, acc, n, st, hno, hlen => by
    have hc10 : c ≠ 10 := hno c (by simp)
    have hno' : ∀ d ∈ l, d ≠ 10 := fun d hd => hno d (by simp [hd])
    by_cases hc13 : c = 13
    · subst hc13
      have hs : stripCR (13 :: l) = stripCR l := by simp [stripCR]
      rw [hs] at hlen ⊢
      rw [List.cons_append, lineLoop]
      simp only [show (13 : UInt8) ≠ 10 by decide, ↓reduceIte]
      exact lineLoop_feed M body l rest acc n st hno' hlen
    · have hs : stripCR (c :: l) = c :: stripCR l := by simp [stripCR, hc13]
      rw [hs] at hlen ⊢
      simp only [List.length_cons] at hlen
      rw [List.cons_append, lineLoop]
      have hn : ¬ (n + 1 > M) := by omega
      simp only [hc10, hc13, hn, ↓reduceIte]
      rw [lineLoop_feed M body l rest (c :: acc) (n + 1) st hno' (by omega)]
      simp only [List.reverse_cons, List.append_assoc, List.singleton_append, List.length_cons]
      congr 1; omega

/-- a complete line (no LF inside, within the limit) read from a fresh `recv_line` -/
theorem lineLoop_line {σ : Type} (M : Nat) (body : σ → Bytes → Step σ) (l rest : Bytes) (st : σ)
    (hno : ∀ c ∈ l, c ≠ 10) (hlen : (stripCR l).length ≤ M) :
    lineLoop M body (l ++ 10 :: rest) [] 0 st =
      if (stripCR l).isEmpty then (st, .blank, rest)
      else match body st (stripCR l) with
        | .next st' => lineLoop M body rest [] 0 st'
        | .stop st' => (st', .stopped, rest) := by
  rw [lineLoop_feed M body l rest [] 0 st hno (by omega), lineLoop]
  simp only [↓reduceIte, List.append_nil, List.isEmpty_reverse, List.reverse_reverse]
  rfl

/-! ## running over a block of header lines -/

/-- the loop body folded over lines: final state and, if the body left the loop, the lines after
    the one that made it leave -/
def foldLines {σ : Type} (body : σ → Bytes → Step σ) : σ → List Bytes → σ × Option (List Bytes)
  | st, [] => (st, none)
  | st, l :: ls =>
    match body st (stripCR l) with
    | .next st' => foldLines body st' ls
    | .stop st' => (st', some ls)

def wireLines (ls : List Bytes) : Bytes := ls.flatMap (· ++ [10])

/-- a line the loop reads completely: no LF inside, not blank, within the limit -/
def GoodLine (M : Nat) (l : Bytes) : Prop := (∀ c ∈ l, c ≠ 10) ∧ stripCR l ≠ [] ∧ (stripCR l).length ≤ M

instance (M : Nat) (l : Bytes) : Decidable (GoodLine M l) := by unfold GoodLine; infer_instance

/-- header block = good lines, each terminated by LF, then a blank line (`LF` or `CR LF`s), then `tail` -/
theorem lineLoop_block {σ : Type} (M : Nat) (body : σ → Bytes → Step σ) :
    ∀ (ls : List Bytes) (tail : Bytes) (st : σ), (∀ l ∈ ls, GoodLine M l) →
      lineLoop M body (wireLines ls ++ 10 :: tail) [] 0 st =
        match foldLines body st ls with
        | (st', none) => (st', .blank, tail)
        | (st', some remaining) => (st', .stopped, wireLines remaining ++ 10 :: tail)
  | [], tail, st, _ => by simp [wireLines, foldLines, lineLoop]
  | l :: ls, tail, st, h => by
    have hl := h l (by simp)
    have hls : ∀ l' ∈ ls, GoodLine M l' := fun l' hl' => h l' (by simp [hl'])
    have hw : wireLines (l :: ls) ++ 10 :: tail = l ++ 10 :: (wireLines ls ++ 10 :: tail) := by
      simp [wireLines]
    rw [hw, lineLoop_line M body l _ st hl.1 hl.2.2]
    have hne : (stripCR l).isEmpty = false := by
      cases hs : stripCR l with
      | nil => exact absurd hs hl.2.1
      | cons a b => rfl
    simp only [hne, Bool.false_eq_true, ↓reduceIte, foldLines]
    cases hb : body st (stripCR l) with
    | next st' => simp only [lineLoop_block M body ls tail st' hls]
    | stop st' => rfl

/-! ## an invariant of the loop state -/

theorem lineLoop_invariant {σ : Type} (M : Nat) (body : σ → Bytes → Step σ) (P : σ → Prop)
    (hstep : ∀ s line, P s → match body s line with | .next s' => P s' | .stop s' => P s') :
    ∀ (input acc : Bytes) (n : Nat) (st : σ), P st → P (lineLoop M body input acc n st).1
  | [], _, _, st, h => by simpa [lineLoop] using h
  | c :: rest, acc, n, st, h => by
    rw [lineLoop]
    split
    · split
      · exact h
      · have := hstep st acc.reverse h
        split
        · rename_i st' hb; rw [hb] at this; exact lineLoop_invariant M body P hstep rest [] 0 st' this
        · rename_i st' hb; rw [hb] at this; exact this
    · split
      · exact lineLoop_invariant M body P hstep rest acc n st h
      · split
        · exact h
        · exact lineLoop_invariant M body P hstep rest (c :: acc) (n + 1) st h

/-! ## where the fields of a parsed request come from -/

theorem spec_upper_eq : Spec.Control.upper = upperByte := by
  funext b; rfl

theorem dropWhile_splitColon : ∀ (l : Bytes),
    (match l.dropWhile (· != 58) with
     | [] => (none : Option (Bytes × Bytes))
     | _ :: v => some (l.takeWhile (· != 58), v)) = splitColon l
  | [] => by simp [splitColon]
  | c :: l => by
    by_cases hc : c = 58
    · subst hc; simp [splitColon]
    · have ih := dropWhile_splitColon l
      have hb : (c != 58) = true := by simpa using hc
      simp only [List.dropWhile_cons, List.takeWhile_cons, hb, ↓reduceIte, splitColon, hc]
      rw [← ih]
      cases l.dropWhile (· != 58) with
      | nil => rfl
      | cons a v => rfl

/-- the specification's reading of a header line is what `parse_request` does with it -/
theorem header_eq (l : Bytes) :
    Spec.Control.header l = (splitColon (stripCR l)).map fun kv => (toUpper kv.1, kv.2) := by
  unfold Spec.Control.header
  rw [← dropWhile_splitColon (stripCR l)]
  simp only [stripCR]
  cases (List.filter (fun x => x != 13) l).dropWhile (· != 58) with
  | nil => rfl
  | cons a v => simp [toUpper, spec_upper_eq]

def Step.state {σ : Type} : Step σ → σ
  | .next s => s
  | .stop s => s

theorem reqLine_fields (cap : Nat) (st : ReqState) (line : Bytes) (kv : Bytes × Bytes)
    (h : kv ∈ (reqLine cap st line).state.fields) :
    kv ∈ st.fields ∨ (splitColon line).map (fun p => (toUpper p.1, p.2)) = some kv := by
  unfold reqLine at h
  cases hs : splitColon line with
  | none => rw [hs] at h; exact Or.inl (by simpa [Step.state] using h)
  | some p =>
    obtain ⟨k, value⟩ := p
    rw [hs] at h
    simp only [Option.map_some]
    have key : kv ∈ setField st.fields (toUpper k) value → kv ∈ st.fields ∨ some (toUpper k, value) = some kv := by
      intro h'; rcases mem_setField h' with h' | h'
      · exact Or.inl h'
      · right; rw [h']
    by_cases hk : toUpper k = ascii "PAYLOAD-LENGTH"
    · simp only [hk, ↓reduceIte] at h
      cases hp : parseU64 value with
      | none => rw [hp] at h; exact Or.inl (by simpa [Step.state] using h)
      | some n =>
        rw [hp] at h
        by_cases hg : cmpGt Gen.C28.payloadCapStrict (n : Int) (cap : Int) = true
        · simp only [hg, ↓reduceIte] at h; exact Or.inl (by simpa [Step.state] using h)
        · simp only [hg, Bool.false_eq_true, ↓reduceIte, Step.state] at h
          rw [hk]; rw [hk] at key; exact key h
    · simp only [hk, ↓reduceIte, Step.state] at h
      exact key h

/-- every field of the state the header loop ends with was there before or is the header of an
    LF-delimited line of the stream -/
theorem lineLoop_fields_from_lines (cap M : Nat) :
    ∀ (input accS acc : Bytes) (n : Nat) (st : ReqState), acc = stripCR accS →
      ∀ kv ∈ (lineLoop M (reqLine cap) input acc n st).1.fields,
        kv ∈ st.fields ∨ ∃ l ∈ splitBy 10 input accS, Spec.Control.header l = some kv
  | [], _, _, _, st, _ => by intro kv h; left; simpa [lineLoop] using h
  | c :: rest, accS, acc, n, st, hacc => by
    intro kv h
    rw [lineLoop] at h
    by_cases hc10 : c = 10
    · subst hc10
      simp only [↓reduceIte] at h
      have hsplit : splitBy 10 (10 :: rest) accS = accS.reverse :: splitBy 10 rest [] := by simp [splitBy]
      rw [hsplit]
      split at h
      · exact Or.inl h
      · have hline : acc.reverse = stripCR accS.reverse := by
          rw [hacc]; simp [stripCR, List.filter_reverse]
        have hf := reqLine_fields cap st acc.reverse kv
        split at h
        · rename_i st' hb
          rw [hb] at hf
          rcases lineLoop_fields_from_lines cap M rest [] [] 0 st' (by simp [stripCR]) kv h with h' | ⟨l, hl, hh⟩
          · rcases hf h' with h'' | h''
            · exact Or.inl h''
            · right; exact ⟨accS.reverse, by simp, by rw [header_eq, ← hline]; exact h''⟩
          · right; exact ⟨l, by simp [hl], hh⟩
        · rename_i st' hb
          rw [hb] at hf
          rcases hf h with h'' | h''
          · exact Or.inl h''
          · right; exact ⟨accS.reverse, by simp, by rw [header_eq, ← hline]; exact h''⟩
    · simp only [hc10, ↓reduceIte] at h
      have hsplit : splitBy 10 (c :: rest) accS = splitBy 10 rest (c :: accS) := by simp [splitBy, hc10]
      rw [hsplit]
      by_cases hc13 : c = 13
      · subst hc13
        simp only [↓reduceIte] at h
        exact lineLoop_fields_from_lines cap M rest (13 :: accS) acc n st (by rw [hacc]; simp [stripCR]) kv h
      · simp only [hc13, ↓reduceIte] at h
        split at h
        · exact Or.inl h
        · exact lineLoop_fields_from_lines cap M rest (c :: accS) (c :: acc) (n + 1) st
            (by rw [hacc]; simp [stripCR, hc13]) kv h

end EphVerif.Control
