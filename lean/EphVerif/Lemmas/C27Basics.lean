/-
Basic facts about the control-plane model used by the proofs of C27, C28 and C29:
`constant_time_equal` is equality, field-map lookups after `fields[key] = value`.
-/
import EphVerif.Model.Control

namespace EphVerif.Control

/-! ## constant_time_equal -/

theorem xorFold_eq_zero_iff : ∀ (e p : Bytes) (d : UInt8), e.length = p.length →
    (xorFold e p d = 0 ↔ d = 0 ∧ e = p)
  | [], [], d, _ => by simp [xorFold]
  | [], _ :: _, _, h => by simp at h
  | _ :: _, [], _, h => by simp at h
  | e :: es, p :: ps, d, h => by
    have hl : es.length = ps.length := by simpa using h
    rw [xorFold, xorFold_eq_zero_iff es ps _ hl, UInt8.or_eq_zero_iff, UInt8.xor_eq_zero_iff]
    constructor
    · rintro ⟨⟨hd, he⟩, ht⟩; exact ⟨hd, by rw [he, ht]⟩
    · rintro ⟨hd, hc⟩
      injection hc with he ht
      exact ⟨⟨hd, he⟩, ht⟩

/-- `constant_time_equal(expected, provided)` is byte-string equality -/
theorem constantTimeEqual_iff (e p : Bytes) : constantTimeEqual e p = true ↔ e = p := by
  unfold constantTimeEqual
  by_cases h : e.length = p.length
  · simp only [h, bne_self_eq_false, Bool.false_eq_true, ↓reduceIte, beq_iff_eq]
    rw [xorFold_eq_zero_iff e p 0 h]; simp
  · have : (e.length != p.length) = true := by simpa using h
    simp only [this, ↓reduceIte, Bool.false_eq_true, false_iff]
    intro he; exact h (by rw [he])

/-! ## field maps -/

theorem getField_eq_some {fs : Fields} {k v : Bytes} (h : getField fs k = some v) : (k, v) ∈ fs := by
  unfold getField at h
  cases hf : fs.find? (fun p => p.1 == k) with
  | none => simp [hf] at h
  | some p =>
    simp [hf] at h
    have hm := List.mem_of_find?_eq_some hf
    have hk : p.1 = k := by simpa using List.find?_some hf
    have : p = (k, v) := by cases p; simp_all
    exact this ▸ hm

theorem mem_setField {fs : Fields} {k v : Bytes} {q : Bytes × Bytes} (h : q ∈ setField fs k v) : q ∈ fs ∨ q = (k, v) := by
  unfold setField at h
  split at h
  · rw [List.mem_map] at h
    obtain ⟨p, hp, rfl⟩ := h
    by_cases hk : p.1 == k
    · right; have : p.1 = k := by simpa using hk
      simp [this]
    · left; simpa [hk] using hp
  · rw [List.mem_append] at h
    rcases h with h | h
    · exact Or.inl h
    · right; simpa using h

end EphVerif.Control
