/-
C10, the arithmetic of `gf_add` / `gf_mul` / `gf_div` on bytes is that of a field (core Lean only,
no table larger than 256 entries is inspected).

* multiplication: commutative, associative, unit 1, inverses – through the log/exp bijection
  (`Lemmas/C10Tables.lean`);
* distributivity: `exp[k]` is `x^k` (`exp_xtime`), hence `gf_mul (exp[k]) b = x^k · b` computed by
  `k` applications of `xtime`, and `xtime` is xor-linear;
* `gfMul_eq_pmul`: the table multiplication is shift-and-add multiplication modulo
  x^8 + x^4 + x^3 + x^2 + 1 (`ShamirSpec.pmul`).
-/
import EphVerif.Lemmas.C10Tables

namespace EphVerif.C10L
open EphVerif.Shamir EphVerif.Gen.C10 EphVerif.ShamirSpec

/-! ### xor -/

theorem xor_lt {a b : Nat} (ha : a < 256) (hb : b < 256) : a ^^^ b < 256 :=
  Nat.xor_lt_two_pow (n := 8) ha hb

theorem xor_eq_zero {a b : Nat} (h : a ^^^ b = 0) : a = b := by
  have : a = (a ^^^ b) ^^^ b := by rw [Nat.xor_assoc, Nat.xor_self, Nat.xor_zero]
  rw [this, h, Nat.zero_xor]

theorem xor_cancel (a b : Nat) : (a ^^^ b) ^^^ b = a := by
  rw [Nat.xor_assoc, Nat.xor_self, Nat.xor_zero]

theorem xor_cancel_left (a b : Nat) : a ^^^ (a ^^^ b) = b := by
  rw [← Nat.xor_assoc, Nat.xor_self, Nat.zero_xor]

/-! ### multiplication through the tables -/

theorem gfMul_eq (a b : Nat) : gfMul a b = if a = 0 ∨ b = 0 then 0 else E ((L a + L b) % 255) := by
  simp only [gfMul, expAt_eq, logAt_eq, kMulMod_eq]

theorem gfMul_zero (a : Nat) : gfMul a 0 = 0 := by simp [gfMul]
theorem zero_gfMul (a : Nat) : gfMul 0 a = 0 := by simp [gfMul]

theorem gfMul_comm (a b : Nat) : gfMul a b = gfMul b a := by
  simp only [gfMul_eq, Nat.add_comm (L a) (L b), Or.comm (a := a = 0)]

theorem gfMul_lt (a b : Nat) : gfMul a b < 256 := by
  rw [gfMul_eq]
  split
  · omega
  · exact (exp_facts _ (Nat.mod_lt _ (by omega))).2.1

theorem gfMul_ne_zero {a b : Nat} (ha : a ≠ 0) (hb : b ≠ 0) : gfMul a b ≠ 0 := by
  rw [gfMul_eq, if_neg (by simp [ha, hb])]
  exact (exp_facts _ (Nat.mod_lt _ (by omega))).1

theorem gfMul_eq_zero {a b : Nat} (h : gfMul a b = 0) : a = 0 ∨ b = 0 := by
  by_cases ha : a = 0
  · exact Or.inl ha
  · by_cases hb : b = 0
    · exact Or.inr hb
    · exact absurd h (gfMul_ne_zero ha hb)

theorem log_gfMul {a b : Nat} (ha : a ≠ 0) (hb : b ≠ 0) : L (gfMul a b) = (L a + L b) % 255 := by
  rw [gfMul_eq, if_neg (by simp [ha, hb])]
  exact (exp_facts _ (Nat.mod_lt _ (by omega))).2.2

theorem gfMul_assoc (a b c : Nat) :
    gfMul (gfMul a b) c = gfMul a (gfMul b c) := by
  by_cases ha0 : a = 0
  · simp [ha0, zero_gfMul]
  by_cases hb0 : b = 0
  · simp [hb0, zero_gfMul, gfMul_zero]
  by_cases hc0 : c = 0
  · simp [hc0, gfMul_zero]
  have hab := gfMul_ne_zero ha0 hb0
  have hbc := gfMul_ne_zero hb0 hc0
  rw [gfMul_eq (gfMul a b) c, gfMul_eq a (gfMul b c), if_neg (by simp [hab, hc0]), if_neg (by simp [ha0, hbc]),
    log_gfMul ha0 hb0, log_gfMul hb0 hc0]
  congr 1
  omega

theorem L_one : L 1 = 0 := by decide +kernel

theorem gfMul_one {a : Nat} (ha : a < 256) : gfMul a 1 = a := by
  by_cases ha0 : a = 0
  · simp [ha0, zero_gfMul]
  rw [gfMul_eq, if_neg (by simp [ha0]), L_one, Nat.add_zero, Nat.mod_eq_of_lt (log_facts a ha ha0).1]
  exact (log_facts a ha ha0).2

theorem one_gfMul {a : Nat} (ha : a < 256) : gfMul 1 a = a := by rw [gfMul_comm, gfMul_one ha]

/-- the multiplicative inverse that `gf_div` uses implicitly: `exp[(255 - log a) mod 255]` -/
def gfInv (a : Nat) : Nat := if a = 0 then 0 else E ((255 - L a) % 255)

theorem gfInv_zero : gfInv 0 = 0 := by simp [gfInv]

theorem gfInv_lt (a : Nat) : gfInv a < 256 := by
  unfold gfInv
  split
  · omega
  · exact (exp_facts _ (Nat.mod_lt _ (by omega))).2.1

theorem gfInv_ne_zero {a : Nat} (ha : a ≠ 0) : gfInv a ≠ 0 := by
  rw [gfInv, if_neg ha]
  exact (exp_facts _ (Nat.mod_lt _ (by omega))).1

theorem L_gfInv {a : Nat} (ha : a ≠ 0) : L (gfInv a) = (255 - L a) % 255 := by
  rw [gfInv, if_neg ha]
  exact (exp_facts _ (Nat.mod_lt _ (by omega))).2.2

theorem gfMul_gfInv {a : Nat} (ha : a < 256) (ha0 : a ≠ 0) : gfMul a (gfInv a) = 1 := by
  rw [gfMul_eq, if_neg (by simp [ha0, gfInv_ne_zero ha0]), L_gfInv ha0]
  have h := (log_facts a ha ha0).1
  have : (L a + (255 - L a) % 255) % 255 = 0 := by omega
  rw [this, exp_zero]

/-- `gf_div` never throws for a non-zero divisor and then multiplies by the inverse. -/
theorem gfDiv_eq {a b : Nat} (ha : a < 256) (hb : b < 256) (hb0 : b ≠ 0) :
    gfDiv a b = .ok (gfMul a (gfInv b)) := by
  unfold gfDiv
  rw [if_neg hb0]
  by_cases ha0 : a = 0
  · simp [ha0, zero_gfMul]
  rw [if_neg ha0, gfMul_eq, if_neg (by simp [ha0, gfInv_ne_zero hb0]), L_gfInv hb0, expAt_eq, logAt_eq, logAt_eq]
  have h1 := (log_facts a ha ha0).1
  have h2 := (log_facts b hb hb0).1
  congr 2
  simp only [divIndex, kDivMod_eq, kDivAdd_eq]
  split
  · omega
  · split <;> omega

theorem gfDiv_zero (a : Nat) : gfDiv a 0 = .invalidArgument := by simp [gfDiv]

/-! ### xtime is xor-linear -/

theorem xtime_eq {a : Nat} (ha : a < 256) : xtime a = (a <<< 1) ^^^ ((a >>> 7) * 0x11D) := by
  unfold xtime
  have h7 : a >>> 7 = a / 128 := by rw [Nat.shiftRight_eq_div_pow]
  have h1 : a <<< 1 = a * 2 := by rw [Nat.shiftLeft_eq]
  simp only [h7]
  by_cases h : a < 128
  · have : a / 128 = 0 := by omega
    simp [this, h1]; omega
  · have : a / 128 = 1 := by omega
    simp [this, h1]; omega

theorem shr7_cases {a : Nat} (ha : a < 256) : a >>> 7 = 0 ∨ a >>> 7 = 1 := by
  rw [Nat.shiftRight_eq_div_pow]; omega

theorem xtime_xor {a b : Nat} (ha : a < 256) (hb : b < 256) : xtime (a ^^^ b) = xtime a ^^^ xtime b := by
  rw [xtime_eq ha, xtime_eq hb, xtime_eq (xor_lt ha hb), Nat.shiftLeft_xor_distrib, Nat.shiftRight_xor_distrib]
  rcases shr7_cases ha with h | h <;> rcases shr7_cases hb with h' | h' <;> simp only [h, h']
  · simp
  · simp; ac_rfl
  · simp; ac_rfl
  · have : a <<< 1 ^^^ 1 * 285 ^^^ (b <<< 1 ^^^ 1 * 285) = 285 ^^^ (285 ^^^ (a <<< 1 ^^^ b <<< 1)) := by
      simp only [Nat.one_mul]; ac_rfl
    rw [this, xor_cancel_left]; simp

theorem xtime_lt {a : Nat} (ha : a < 256) : xtime a < 256 := by
  have : ∀ a, a < 256 → xtime a < 256 := by decide +kernel
  exact this a ha

theorem xtime_zero : xtime 0 = 0 := by decide

/-- `xtime` applied `k` times -/
def xiter : Nat → Nat → Nat
  | 0, a => a
  | k + 1, a => xtime (xiter k a)

theorem xiter_lt {a : Nat} (ha : a < 256) : ∀ k, xiter k a < 256
  | 0 => ha
  | k + 1 => xtime_lt (xiter_lt ha k)

theorem xiter_zero : ∀ k, xiter k 0 = 0
  | 0 => rfl
  | k + 1 => by rw [xiter, xiter_zero k, xtime_zero]

theorem xiter_xor {a b : Nat} (ha : a < 256) (hb : b < 256) : ∀ k, xiter k (a ^^^ b) = xiter k a ^^^ xiter k b
  | 0 => rfl
  | k + 1 => by rw [xiter, xiter_xor ha hb k, xtime_xor (xiter_lt ha k) (xiter_lt hb k)]; rfl

theorem xpow_eq_xiter : ∀ k a, xpow k a = xiter k a := by
  have comm : ∀ k a, xiter k (xtime a) = xtime (xiter k a) := by
    intro k
    induction k with
    | zero => intro a; rfl
    | succ k ih => intro a; simp only [xiter, ih]
  intro k
  induction k with
  | zero => intro a; rfl
  | succ k ih => intro a; rw [xpow, ih, comm]; rfl

/-- multiplying by `exp[k] = x^k` is `k` applications of `xtime`. -/
theorem gfMul_E (k : Nat) (hk : k < 255) {b : Nat} (hb : b < 256) : gfMul (E k) b = xiter k b := by
  by_cases hb0 : b = 0
  · rw [hb0, gfMul_zero, xiter_zero]
  have hE := fun k hk => (exp_facts k hk).1
  have hl := (log_facts b hb hb0)
  induction k with
  | zero =>
    rw [exp_zero, one_gfMul hb]; rfl
  | succ k ih =>
    have ih := ih (by omega)
    rw [xiter, ← ih, gfMul_eq, gfMul_eq, if_neg (by simp [hE (k + 1) hk, hb0]), if_neg (by simp [hE k (by omega), hb0]),
      (exp_facts (k + 1) hk).2.2, (exp_facts k (by omega)).2.2, exp_xtime _ (Nat.mod_lt _ (by omega))]
    congr 1
    omega

/-- left distributivity of the table multiplication over xor -/
theorem gfMul_xor {a b c : Nat} (ha : a < 256) (hb : b < 256) (hc : c < 256) :
    gfMul a (b ^^^ c) = gfMul a b ^^^ gfMul a c := by
  by_cases ha0 : a = 0
  · simp [ha0, zero_gfMul]
  have h := log_facts a ha ha0
  rw [← h.2, gfMul_E _ h.1 (xor_lt hb hc), gfMul_E _ h.1 hb, gfMul_E _ h.1 hc, xiter_xor hb hc]

theorem xor_gfMul {a b c : Nat} (ha : a < 256) (hb : b < 256) (hc : c < 256) :
    gfMul (a ^^^ b) c = gfMul a c ^^^ gfMul b c := by
  rw [gfMul_comm, gfMul_xor hc ha hb, gfMul_comm c a, gfMul_comm c b]

/-! ### the table multiplication is multiplication of polynomials modulo x^8 + x^4 + x^3 + x^2 + 1 -/

/-- bit `i` of `b` as the byte `b_i · x^i` -/
def bitTerm (b i : Nat) : Nat := if b.testBit i then 2 ^ i else 0

theorem bitTerm_lt (b : Nat) {i : Nat} (hi : i < 8) : bitTerm b i < 256 := by
  unfold bitTerm
  split
  · exact Nat.pow_lt_pow_right (by decide) hi
  · omega

theorem byte_eq_bits : ∀ b, b < 256 →
    b = bitTerm b 0 ^^^ bitTerm b 1 ^^^ bitTerm b 2 ^^^ bitTerm b 3 ^^^ bitTerm b 4 ^^^ bitTerm b 5 ^^^ bitTerm b 6 ^^^
      bitTerm b 7 := by decide +kernel

theorem gfMul_bitTerm {a : Nat} (ha : a < 256) (b : Nat) {i : Nat} (hi : i < 8) :
    gfMul a (bitTerm b i) = pmulTerm a b i := by
  unfold bitTerm pmulTerm
  split
  · rw [gfMul_comm, ← exp_small i hi, gfMul_E i (by omega) ha, xpow_eq_xiter]
  · exact gfMul_zero a

theorem gfMul_eq_pmul {a b : Nat} (ha : a < 256) (hb : b < 256) : gfMul a b = pmul a b := by
  have h0 := bitTerm_lt b (show 0 < 8 by decide)
  have h1 := bitTerm_lt b (show 1 < 8 by decide)
  have h2 := bitTerm_lt b (show 2 < 8 by decide)
  have h3 := bitTerm_lt b (show 3 < 8 by decide)
  have h4 := bitTerm_lt b (show 4 < 8 by decide)
  have h5 := bitTerm_lt b (show 5 < 8 by decide)
  have h6 := bitTerm_lt b (show 6 < 8 by decide)
  have h7 := bitTerm_lt b (show 7 < 8 by decide)
  have x1 := xor_lt h0 h1
  have x2 := xor_lt x1 h2
  have x3 := xor_lt x2 h3
  have x4 := xor_lt x3 h4
  have x5 := xor_lt x4 h5
  have x6 := xor_lt x5 h6
  have e : pmul a b = 0 ^^^ pmulTerm a b 0 ^^^ pmulTerm a b 1 ^^^ pmulTerm a b 2 ^^^ pmulTerm a b 3 ^^^ pmulTerm a b 4 ^^^
      pmulTerm a b 5 ^^^ pmulTerm a b 6 ^^^ pmulTerm a b 7 := rfl
  conv => lhs; rw [byte_eq_bits b hb]
  rw [e, gfMul_xor ha x6 h7, gfMul_xor ha x5 h6, gfMul_xor ha x4 h5, gfMul_xor ha x3 h4, gfMul_xor ha x2 h3,
    gfMul_xor ha x1 h2, gfMul_xor ha h0 h1, Nat.zero_xor]
  simp only [gfMul_bitTerm ha b (show 0 < 8 by decide), gfMul_bitTerm ha b (show 1 < 8 by decide),
    gfMul_bitTerm ha b (show 2 < 8 by decide), gfMul_bitTerm ha b (show 3 < 8 by decide),
    gfMul_bitTerm ha b (show 4 < 8 by decide), gfMul_bitTerm ha b (show 5 < 8 by decide),
    gfMul_bitTerm ha b (show 6 < 8 by decide), gfMul_bitTerm ha b (show 7 < 8 by decide)]

end EphVerif.C10L
