/-
How one connection changes the rate-limit buckets, and the invariant that every history of
connections and clock advances keeps (C28.rate).
-/
import EphVerif.Lemmas.C28Window
import EphVerif.Lemmas.C27Lines

namespace EphVerif.Control

/-- reply codes of a STORE that has consumed a slot of the STORE bucket -/
def storePassCode (code : String) : Bool :=
  code == "OK_STORE" || code == "ERR_STORE_POW_REQUIRED" || code == "ERR_STORE_POW_INVALID" || code == "ERR_STORE_POW_LOCKED"

/-- replies of a FETCH that has consumed a slot of the streamed-FETCH bucket -/
def fetchPassReply (r : Reply) : Bool :=
  (r.code == "OK_FETCH" && r.streamed.isSome) || r.code == "ERR_FETCH_PAYLOAD_TOO_LARGE"

def storePass (r : Option Reply) : Bool := match r with | some r => storePassCode r.code | none => false
def fetchPass (r : Option Reply) : Bool := match r with | some r => fetchPassReply r | none => false

section
variable {ν : Type} (sha : Bytes → Bytes) (ops : NodeOps ν) (cfg : Config)

theorem storeAdmitted_spec (now : Int) (ident : Identity) (st : ServerState ν) (req : Request) (ttl : Int) :
    (storeAdmitted sha ops cfg now ident st req ttl).1.storeHist = st.storeHist ∧
    (storeAdmitted sha ops cfg now ident st req ttl).1.fetchHist = st.fetchHist ∧
    storePassCode (storeAdmitted sha ops cfg now ident st req ttl).2.code = true ∧
    fetchPassReply (storeAdmitted sha ops cfg now ident st req ttl).2 = false := by
  unfold storeAdmitted
  simp only
  split
  · split
    · split <;> simp [err, storePassCode, fetchPassReply]
    · split
      · split <;> simp [err, storePassCode, fetchPassReply]
      · split
        · simp [storePassCode, fetchPassReply]
        · split <;> simp [err, storePassCode, fetchPassReply]
  · simp [storePassCode, fetchPassReply]

/-- what a STORE does to the buckets when no token is configured -/
theorem handleStore_hist (htok : cfg.token = none) (now : Int) (addr : Bytes) (st : ServerState ν) (req : Request) :
    let r := handleStore sha ops cfg now addr st req
    let lim := allowStore now (st.storeHist (.addr addr))
    r.1.fetchHist = st.fetchHist ∧ fetchPassReply r.2 = false ∧
    ((r.1.storeHist = st.storeHist ∧ storePassCode r.2.code = false) ∨
     (r.1.storeHist = setHist st.storeHist (.addr addr) lim.2 ∧ storePassCode r.2.code = lim.1)) := by
  have hid : rateIdentity cfg addr = .addr addr := by simp [rateIdentity, htok]
  simp only
  unfold handleStore
  rw [hid]
  split
  · simp [err, storePassCode, fetchPassReply]
  · split
    · simp [err, storePassCode, fetchPassReply]
    · split
      · simp [err, storePassCode, fetchPassReply]
      · split
        · simp [err, storePassCode, fetchPassReply]
        · split
          · simp [err, storePassCode, fetchPassReply]
          · simp only
            cases hl : (allowStore now (st.storeHist (.addr addr))).1 with
            | false => simp [err, storePassCode, fetchPassReply]
            | true =>
              simp only [Bool.not_true, Bool.false_eq_true, ↓reduceIte]
              have h := storeAdmitted_spec sha ops cfg now (.addr addr)
                { st with storeHist := setHist st.storeHist (.addr addr) (allowStore now (st.storeHist (.addr addr))).2 } req
              rename_i ttl _ _
              have h' := h ttl
              exact ⟨h'.2.1, h'.2.2.2, Or.inr ⟨h'.1, h'.2.2.1⟩⟩

theorem fetchDeliver_hist (htok : cfg.token = none) (now : Int) (addr : Bytes) (st : ServerState ν) (stream : Bool)
    (out : Option Bytes) (data : Bytes) :
    let r := fetchDeliver ops cfg now addr st stream out data
    let lim := allowFetch now (st.fetchHist (.addr addr))
    r.1.storeHist = st.storeHist ∧ storePassCode r.2.code = false ∧
    ((r.1.fetchHist = st.fetchHist ∧ fetchPassReply r.2 = false) ∨
     (r.1.fetchHist = setHist st.fetchHist (.addr addr) lim.2 ∧ fetchPassReply r.2 = lim.1)) := by
  have hid : rateIdentity cfg addr = .addr addr := by simp [rateIdentity, htok]
  simp only
  unfold fetchDeliver
  rw [hid]
  cases stream with
  | true =>
    simp only [↓reduceIte]
    cases hl : (allowFetch now (st.fetchHist (.addr addr))).1 with
    | false => simp [err, storePassCode, fetchPassReply]
    | true =>
      simp only [Bool.not_true, Bool.false_eq_true, ↓reduceIte]
      split <;> simp [err, storePassCode, fetchPassReply]
  | false =>
    simp only [Bool.false_eq_true, ↓reduceIte]
    split
    · simp [err, storePassCode, fetchPassReply]
    · split <;> simp [err, storePassCode, fetchPassReply]

theorem handleFetch_hist (htok : cfg.token = none) (now : Int) (addr : Bytes) (st : ServerState ν) (req : Request) :
    let r := handleFetch ops cfg now addr st req
    let lim := allowFetch now (st.fetchHist (.addr addr))
    r.1.storeHist = st.storeHist ∧ storePassCode r.2.code = false ∧
    ((r.1.fetchHist = st.fetchHist ∧ fetchPassReply r.2 = false) ∨
     (r.1.fetchHist = setHist st.fetchHist (.addr addr) lim.2 ∧ fetchPassReply r.2 = lim.1)) := by
  simp only
  unfold handleFetch
  simp only []
  repeat' split
  all_goals first
    | (simp [err, storePassCode, fetchPassReply]; done)
    | exact fetchDeliver_hist ops cfg htok now addr _ _ _ _

theorem handleStop_hist (st : ServerState ν) (req : Request) :
    (handleStop ops cfg st req).1.storeHist = st.storeHist ∧ (handleStop ops cfg st req).1.fetchHist = st.fetchHist ∧
    storePassCode (handleStop ops cfg st req).2.code = false ∧ fetchPassReply (handleStop ops cfg st req).2 = false := by
  unfold handleStop
  split <;> simp [err, storePassCode, fetchPassReply]

theorem readOnlyCode_not_pass {command : Bytes} {code : String} (h : readOnlyCode command = some code) :
    storePassCode code = false ∧ (code == "OK_FETCH") = false ∧ (code == "ERR_FETCH_PAYLOAD_TOO_LARGE") = false := by
  unfold readOnlyCode at h
  repeat' split at h
  all_goals first
    | (injection h with h; subst h; simp [storePassCode]; done)
    | (simp at h; done)

/-- the error codes of `parse_request` -/
def parseErrorCode (code : String) : Prop :=
  code = "ERR_CONTROL_HEADER" ∨ code = "ERR_CONTROL_PAYLOAD_LENGTH" ∨ code = "ERR_CONTROL_PAYLOAD_TOO_LARGE" ∨
    code = "ERR_CONTROL_PAYLOAD_TRUNCATED"

theorem step_of_state {σ : Type} (P : σ → Prop) (x : Step σ) :
    P x.state → (match x with
    | .next s' => P s'
    | .stop s' => P s') := by
  cases x <;> exact id

theorem reqLine_error (cap : Nat) (s : ReqState) (line : Bytes)
    (h : ∀ c, s.error = some c → parseErrorCode c) :
    ∀ c, (reqLine cap s line).state.error = some c → parseErrorCode c := by
  unfold reqLine
  simp only []
  repeat' split
  all_goals
    intro c hc
    simp only [Step.state] at hc
    first
      | exact h c hc
      | (simp at hc; subst hc; simp [parseErrorCode])

theorem parse_error_codes {cap : Nat} {input u : Bytes} {code : String} (h : parseRequest cap input = .error code u) :
    parseErrorCode code := by
  unfold parseRequest at h
  have hinv := lineLoop_invariant serverMaxLine (reqLine cap) (fun s => ∀ c, s.error = some c → parseErrorCode c)
    (fun s line hs => step_of_state _ _ (reqLine_error cap s line hs)) input [] 0 {} (by intro c hc; simp at hc)
  rcases hres : lineLoop serverMaxLine (reqLine cap) input [] 0 {} with ⟨st, e, rest⟩
  rw [hres] at h hinv
  simp only at h hinv
  split at h
  · rename_i c hc
    injection h with h1 _
    subst h1
    exact hinv c hc
  · repeat' split at h
    all_goals first
      | (injection h with h1 _; subst h1; simp [parseErrorCode]; done)
      | (simp at h; done)

theorem parseErrorCode_not_pass {code : String} (h : parseErrorCode code) :
    storePassCode code = false ∧ (code == "OK_FETCH") = false ∧ (code == "ERR_FETCH_PAYLOAD_TOO_LARGE") = false := by
  rcases h with h | h | h | h <;> subst h <;> simp [storePassCode]

theorem handleRequest_hist (htok : cfg.token = none) (now : Int) (addr : Bytes) (st : ServerState ν) (req : Request) :
    let r := handleRequest sha ops cfg now addr st req
    ((r.1.storeHist = st.storeHist ∧ storePassCode r.2.code = false) ∨
     (r.1.storeHist = setHist st.storeHist (.addr addr) (allowStore now (st.storeHist (.addr addr))).2 ∧
      storePassCode r.2.code = (allowStore now (st.storeHist (.addr addr))).1)) ∧
    ((r.1.fetchHist = st.fetchHist ∧ fetchPassReply r.2 = false) ∨
     (r.1.fetchHist = setHist st.fetchHist (.addr addr) (allowFetch now (st.fetchHist (.addr addr))).2 ∧
      fetchPassReply r.2 = (allowFetch now (st.fetchHist (.addr addr))).1)) := by
  simp only
  unfold handleRequest
  simp only []
  split
  · simp [err, storePassCode, fetchPassReply]
  · split
    · have h := handleStop_hist ops cfg st req
      exact ⟨Or.inl ⟨h.1, h.2.2.1⟩, Or.inl ⟨h.2.1, h.2.2.2⟩⟩
    · split
      · have h := handleStore_hist sha ops cfg htok now addr st req
        simp only at h
        exact ⟨h.2.2, Or.inl ⟨h.1, h.2.1⟩⟩
      · split
        · have h := handleFetch_hist ops cfg htok now addr st req
          simp only at h
          exact ⟨Or.inl ⟨h.1, h.2.1⟩, h.2.2⟩
        · split
          · rename_i code hro
            have h := readOnlyCode_not_pass hro
            simp [fetchPassReply, h.1, h.2.1, h.2.2]
          · simp [err, storePassCode, fetchPassReply]

/-- what one connection does to the two buckets when no token is configured -/
theorem handleClient_hist (htok : cfg.token = none) (now : Int) (addr : Bytes) (st : ServerState ν) (input : Bytes) :
    let r := handleClient sha ops cfg now addr st input
    ((r.1.storeHist = st.storeHist ∧ storePass r.2 = false) ∨
     (r.1.storeHist = setHist st.storeHist (.addr addr) (allowStore now (st.storeHist (.addr addr))).2 ∧
      storePass r.2 = (allowStore now (st.storeHist (.addr addr))).1)) ∧
    ((r.1.fetchHist = st.fetchHist ∧ fetchPass r.2 = false) ∨
     (r.1.fetchHist = setHist st.fetchHist (.addr addr) (allowFetch now (st.fetchHist (.addr addr))).2 ∧
      fetchPass r.2 = (allowFetch now (st.fetchHist (.addr addr))).1)) := by
  simp only
  unfold handleClient
  split
  · simp [storePass, fetchPass]
  · rename_i code u hp
    have h := parseErrorCode_not_pass (parse_error_codes hp)
    simp [storePass, fetchPass, err, fetchPassReply, h.1, h.2.1, h.2.2]
  · rename_i req u hp
    have h := handleRequest_hist sha ops cfg htok now addr st req
    simp only at h
    simpa [storePass, fetchPass] using h

end

/-! ## the invariant of a history -/

def passTimesS (log : List LogEntry) (a : Bytes) : List Int :=
  (log.filter fun e => e.addr == a && storePass e.reply).map (·.time)

def passTimesF (log : List LogEntry) (a : Bytes) : List Int :=
  (log.filter fun e => e.addr == a && fetchPass e.reply).map (·.time)

/-- per peer address: the bucket holds the recent slot-consuming requests, and those are within the limit -/
structure SysInv {ν : Type} (now : Int) (st : ServerState ν) (log : List LogEntry) : Prop where
  store : ∀ a, BucketInv (Gen.C28.kStoreRateWindow * nsPerSecond) now (st.storeHist (.addr a)) (passTimesS log a) ∧
    Bounded (Gen.C28.kStoreRateWindow * nsPerSecond) Gen.C28.kStoreRateBurstLimit (passTimesS log a)
  fetch : ∀ a, BucketInv (Gen.C28.kFetchStreamRateWindow * nsPerSecond) now (st.fetchHist (.addr a)) (passTimesF log a) ∧
    Bounded (Gen.C28.kFetchStreamRateWindow * nsPerSecond) Gen.C28.kFetchStreamBurstLimit (passTimesF log a)

theorem SysInv.init {ν : Type} (now : Int) (node : ν) : SysInv now (ServerState.init node) [] :=
  ⟨fun _ => ⟨BucketInv.init _ _, Bounded.nil _ _⟩, fun _ => ⟨BucketInv.init _ _, Bounded.nil _ _⟩⟩

theorem SysInv.advance {ν : Type} {now : Int} {st : ServerState ν} {log : List LogEntry} (d : Nat) (h : SysInv now st log) :
    SysInv (now + d) st log :=
  ⟨fun a => ⟨(h.store a).1.mono (by omega), (h.store a).2⟩, fun a => ⟨(h.fetch a).1.mono (by omega), (h.fetch a).2⟩⟩

theorem addr_ne {a b : Bytes} (h : a ≠ b) : (Identity.addr a) ≠ (Identity.addr b) := by
  intro hh; injection hh with hh; exact h hh

/-- one bucket through one connection -/
theorem bucket_step {Ws L : Nat} {now : Int} {addr a : Bytes} {hist hist' : Identity → List Int} {acc : List Int} {pass : Bool}
    (hinv : BucketInv (Ws * nsPerSecond) now (hist (.addr a)) acc) (hb : Bounded (Ws * nsPerSecond) L acc)
    (hstep : (hist' = hist ∧ pass = false) ∨
      (hist' = setHist hist (.addr addr) (allow 1 1 Ws L now (hist (.addr addr))).2 ∧ pass = (allow 1 1 Ws L now (hist (.addr addr))).1)) :
    BucketInv (Ws * nsPerSecond) now (hist' (.addr a)) (acc ++ (if addr == a && pass then [now] else [])) ∧
    Bounded (Ws * nsPerSecond) L (acc ++ (if addr == a && pass then [now] else [])) := by
  rcases hstep with ⟨h1, h2⟩ | ⟨h1, h2⟩
  · subst h1; subst h2; simpa using ⟨hinv, hb⟩
  · by_cases hab : addr = a
    · subst hab
      have hh : hist' (.addr addr) = (allow 1 1 Ws L now (hist (.addr addr))).2 := by rw [h1]; simp [setHist]
      rw [hh]
      cases hl : (allow 1 1 Ws L now (hist (.addr addr))).1 with
      | true =>
        rw [hl] at h2; subst h2
        have := allow_true hinv hb (h' := (allow 1 1 Ws L now (hist (.addr addr))).2) (by rw [← hl])
        simpa using this
      | false =>
        rw [hl] at h2; subst h2
        have := allow_false hinv (h' := (allow 1 1 Ws L now (hist (.addr addr))).2) (by rw [← hl])
        simpa using ⟨this, hb⟩
    · have hne : (Identity.addr a) ≠ (Identity.addr addr) := addr_ne (fun h => hab h.symm)
      have hh : hist' (.addr a) = hist (.addr a) := by rw [h1]; simp [setHist, hne]
      have hf : (addr == a) = false := by simpa using hab
      rw [hh]; simpa [hf] using ⟨hinv, hb⟩

theorem passTimesS_append (log : List LogEntry) (e : LogEntry) (a : Bytes) :
    passTimesS (log ++ [e]) a = passTimesS log a ++ (if e.addr == a && storePass e.reply then [e.time] else []) := by
  unfold passTimesS
  rw [List.filter_append, List.map_append]
  congr 1
  by_cases h : (e.addr == a && storePass e.reply) = true
  · simp [h]
  · have : (e.addr == a && storePass e.reply) = false := by simpa using h
    simp [this]

theorem passTimesF_append (log : List LogEntry) (e : LogEntry) (a : Bytes) :
    passTimesF (log ++ [e]) a = passTimesF log a ++ (if e.addr == a && fetchPass e.reply then [e.time] else []) := by
  unfold passTimesF
  rw [List.filter_append, List.map_append]
  congr 1
  by_cases h : (e.addr == a && fetchPass e.reply) = true
  · simp [h]
  · have : (e.addr == a && fetchPass e.reply) = false := by simpa using h
    simp [this]

section
variable {ν : Type} (sha : Bytes → Bytes) (ops : NodeOps ν) (cfg : Config)

theorem SysInv.connect (htok : cfg.token = none) {now : Int} {st : ServerState ν} {log : List LogEntry} (addr input : Bytes)
    (h : SysInv now st log) :
    SysInv now (handleClient sha ops cfg now addr st input).1
      (log ++ [{ time := now, addr := addr, reply := (handleClient sha ops cfg now addr st input).2 }]) := by
  have hs := handleClient_hist sha ops cfg htok now addr st input
  simp only at hs
  constructor
  · intro a
    rw [passTimesS_append]
    exact bucket_step (h.store a).1 (h.store a).2 hs.1
  · intro a
    rw [passTimesF_append]
    exact bucket_step (h.fetch a).1 (h.fetch a).2 hs.2

theorem runEvents_inv (htok : cfg.token = none) :
    ∀ (evs : List Event) (now : Int) (st : ServerState ν) (log : List LogEntry), SysInv now st log →
      SysInv (runEvents sha ops cfg now st log evs).1 (runEvents sha ops cfg now st log evs).2.1
        (runEvents sha ops cfg now st log evs).2.2
  | [], _, _, _, h => by simpa [runEvents] using h
  | .advance d :: es, now, st, log, h => by
    rw [runEvents]; exact runEvents_inv htok es _ _ _ (h.advance d)
  | .connect addr input :: es, now, st, log, h => by
    rw [runEvents]; exact runEvents_inv htok es _ _ _ (h.connect sha ops cfg htok addr input)

end

theorem filter_sublist_of_imp {α : Type} (p q : α → Bool) (himp : ∀ a, p a = true → q a = true) (l : List α) :
    (l.filter p).Sublist (l.filter q) := by
  have : l.filter p = (l.filter q).filter p := by
    rw [List.filter_filter]
    apply List.filter_congr
    intro a _
    by_cases hp : p a = true
    · simp [hp, himp a hp]
    · have : p a = false := by simpa using hp
      simp [this]
  rw [this]
  exact List.filter_sublist

/-- accepted requests are among the slot-consuming ones -/
theorem timesOf_sublist_S (log : List LogEntry) (a : Bytes) : (timesOf log a "OK_STORE").Sublist (passTimesS log a) := by
  unfold timesOf passTimesS
  apply List.Sublist.map
  apply filter_sublist_of_imp
  intro e he
  simp only [Bool.and_eq_true] at he ⊢
  refine ⟨he.1, ?_⟩
  cases hr : e.reply with
  | none => rw [hr] at he; simp [replyHasCode] at he
  | some r =>
    rw [hr] at he
    have : r.code = "OK_STORE" := by simpa [replyHasCode] using he.2
    simp [storePass, storePassCode, this]

theorem streamTimesOf_sublist_F (log : List LogEntry) (a : Bytes) : (streamTimesOf log a).Sublist (passTimesF log a) := by
  unfold streamTimesOf passTimesF
  apply List.Sublist.map
  apply filter_sublist_of_imp
  intro e he
  simp only [Bool.and_eq_true] at he ⊢
  refine ⟨he.1, ?_⟩
  cases hr : e.reply with
  | none => rw [hr] at he; simp [replyStreamed] at he
  | some r =>
    rw [hr] at he
    have h2 := he.2
    simp only [replyStreamed] at h2
    simp [fetchPass, fetchPassReply, h2]

end EphVerif.Control
