/-
System-level composition (extension of C05), part 4: frame properties and the epoch form of the
notification count.

* `Sub s' s`: `s'` holds nothing that `s` did not hold (same ids, same expiries); the operations that are
  not a store / ingest / announce / re-announce / key-share re-publication (`Quiet`: clock advance, provider
  probe, tick, drain, audit) only ever shrink the state.
* `lastCleanup` never decreases, and the C05 invariant can be read at any earlier instant (`inv_lower`).
* `sweptEpochs`: the number of *store epochs* of an id that ended by expiry and were swept — a store of
  the id at `t` with deadline `d` counts iff a tick that cleans at some `T ≥ d` occurs before the id is
  stored again — and `reported_eq`: this is exactly what the abstract node of `C05Spec` reports.
-/
import EphVerif.Lemmas.C05SysProj

namespace EphVerif.Sys
open EphVerif.NodeCleanup EphVerif.C05L
open EphVerif.ChunkStore (aget)
open EphVerif.Providers (Table Loc)

/-! ### nothing appears without a creating operation -/

/-- operations that create nothing -/
def Quiet : Op → Prop
  | .adv _ | .probe _ | .tick | .drain | .audit => True
  | _ => False

structure Sub (s' s : State) : Prop where
  recs : ∀ e ∈ s'.recs, e ∈ s.recs
  locs : ∀ k l', s'.locs k = some l' → ∃ l, s.locs k = some l ∧ Shrunk l' l
  routes : ∀ i, ∀ x ∈ s'.routes.buckets i, x ∈ s.routes.buckets i
  shards : ∀ e ∈ s'.shards, e ∈ s.shards
  cache : ∀ e ∈ s'.cache, e ∈ s.cache
  /-- a plan may be recomputed (new `next_rebalance`), never created -/
  plans : ∀ e ∈ s'.plans, ∃ e0 ∈ s.plans, e0.1 = e.1

theorem Sub.refl (s : State) : Sub s s :=
  ⟨fun _ h => h, fun _ l' h => ⟨l', h, rfl, fun _ hh => hh⟩, fun _ _ h => h, fun _ h => h, fun _ h => h,
   fun e h => ⟨e, h, rfl⟩⟩

theorem Sub.trans {a b c : State} (h1 : Sub a b) (h2 : Sub b c) : Sub a c := by
  refine ⟨fun e h => h2.recs e (h1.recs e h), ?_, fun i x h => h2.routes i x (h1.routes i x h),
    fun e h => h2.shards e (h1.shards e h), fun e h => h2.cache e (h1.cache e h), ?_⟩
  · intro k l' h
    obtain ⟨l1, hl1, s1⟩ := h1.locs k l' h
    obtain ⟨l2, hl2, s2⟩ := h2.locs k l1 hl1
    exact ⟨l2, hl2, s1.trans s2⟩
  · intro e h
    obtain ⟨e1, he1, k1⟩ := h1.plans e h
    obtain ⟨e2, he2, k2⟩ := h2.plans e1 he1
    exact ⟨e2, he2, k2.trans k1⟩

theorem sub_rebalance (cfg : Cfg) (s : State) : Sub (rebalance cfg s) s := by
  refine ⟨fun _ h => h, fun _ l' h => ⟨l', h, rfl, fun _ hh => hh⟩, fun _ _ h => h, fun _ h => h, fun _ h => h, ?_⟩
  intro e he
  obtain ⟨a, ha, hf⟩ := List.mem_filterMap.mp he
  split at hf
  · cases hf; exact ⟨_, ha, rfl⟩
  · split at hf
    · cases hf
    · cases hf; exact ⟨_, ha, rfl⟩

theorem sub_cleanup (cfg : Cfg) (s : State) : Sub (cleanup cfg s) s := by
  rw [cleanup_eq]
  exact ⟨fun e h => (List.mem_filter.mp h).1, sweep_shrinks_all _ _ _ _, fun i x h => (mem_sweepBuckets h).1,
    fun e h => (List.mem_filter.mp h).1, fun e h => (List.mem_filter.mp h).1,
    fun e h => ⟨e, (List.mem_filter.mp h).1, rfl⟩⟩

theorem quiet_step (cfg : Cfg) (s : State) (op : Op) (hq : Quiet op) : Sub (step cfg s op) s := by
  cases op with
  | adv d =>
    exact ⟨fun _ h => h, fun _ l' h => ⟨l', h, rfl, fun _ hh => hh⟩, fun _ _ h => h, fun _ h => h, fun _ h => h,
      fun e h => ⟨e, h, rfl⟩⟩
  | probe c =>
    exact ⟨fun _ h => h, findProviders_shrinks s.locs s.now c, fun _ _ h => h, fun _ h => h, fun _ h => h,
      fun e h => ⟨e, h, rfl⟩⟩
  | tick =>
    show Sub (tick cfg s) s
    unfold tick
    split
    · exact (sub_rebalance cfg _).trans (sub_cleanup cfg s)
    · exact sub_rebalance cfg s
  | drain =>
    exact ⟨fun _ h => h, fun _ l' h => ⟨l', h, rfl, fun _ hh => hh⟩, fun _ _ h => h, fun _ h => h, fun _ h => h,
      fun e h => ⟨e, h, rfl⟩⟩
  | audit => exact Sub.refl s
  | store _ _ _ => exact absurd hq id
  | ingest _ _ _ => exact absurd hq id
  | announce _ _ _ _ _ _ _ _ => exact absurd hq id
  | reannounce _ _ _ => exact absurd hq id
  | lookup _ => exact absurd hq id

theorem quiet_run (cfg : Cfg) (r : Run) (ops : List Op) (hq : ∀ op ∈ ops, Quiet op) : Sub (run cfg r ops).s r.s := by
  induction ops generalizing r with
  | nil => exact Sub.refl _
  | cons op ops ih =>
    simp only [run, List.foldl_cons]
    exact (ih (exec cfg r op) (fun o ho => hq o (List.mem_cons_of_mem _ ho))).trans
      (quiet_step cfg r.s op (hq op (List.mem_cons_self ..)))

/-! ### `lastCleanup` only grows -/

theorem last_mono_step {cfg : Cfg} {s : State} (h : Inv cfg s) (op : Op) : s.lastCleanup ≤ (step cfg s op).lastCleanup := by
  cases op with
  | adv d => exact Int.le_refl _
  | store c ttl hint => exact Int.le_refl _
  | ingest c e same => show _ ≤ (ingest cfg s c e same).lastCleanup; rw [(ingest_frame cfg s c e same).2.1]; exact Int.le_refl _
  | announce c e same p pid addr ttl hint =>
    show _ ≤ (announce cfg s c e same p pid addr ttl hint).lastCleanup
    rw [(announce_frame cfg s c e same p pid addr ttl hint).2.1]; exact Int.le_refl _
  | reannounce c ttl hint =>
    show _ ≤ (reannounce cfg s c ttl hint).lastCleanup
    rw [(reannounce_frame cfg s c ttl hint).2.1]; exact Int.le_refl _
  | lookup c => show _ ≤ (lookup cfg s c).lastCleanup; rw [(lookup_frame cfg s c).2.1]; exact Int.le_refl _
  | probe c => exact Int.le_refl _
  | tick =>
    show s.lastCleanup ≤ (tick cfg s).lastCleanup
    rw [(C05.tick_clock cfg s).2]
    split
    · exact h.time
    · exact Int.le_refl _
  | drain => exact Int.le_refl _
  | audit => exact Int.le_refl _

theorem last_mono_run {cfg : Cfg} {r : Run} (h : Inv cfg r.s) (ops : List Op) (hw : OpsWf cfg ops) :
    r.s.lastCleanup ≤ (run cfg r ops).s.lastCleanup := by
  induction ops generalizing r with
  | nil => exact Int.le_refl _
  | cons op ops ih =>
    simp only [run, List.foldl_cons]
    have hstep := inv_step h op (hw op (List.mem_cons_self ..))
    have := ih (r := exec cfg r op) hstep (fun o ho => hw o (List.mem_cons_of_mem _ ho))
    have h1 := last_mono_step h op
    exact Int.le_trans h1 this

/-- the invariant, read at an earlier instant -/
theorem inv_lower {cfg : Cfg} {s : State} (h : Inv cfg s) {T : Int} (hT : T ≤ s.lastCleanup) :
    Inv cfg { s with lastCleanup := T } := by
  have ht := h.time
  refine ⟨by show T ≤ s.now; omega, ?_, ?_, ?_, ?_, ?_, h.plans, h.self⟩
  · intro e he; have := h.recs e he; show T < _; omega
  · intro c l hl
    have := h.locs c l hl
    exact ⟨by show T < _; omega, fun x hx => by have := this.2 x hx; show T < _; omega⟩
  · intro i x hx; have := h.routes i x hx; show T < _; omega
  · intro e he; have := h.shards e he; show T < _; omega
  · intro e he; have := h.cache e he; show T + cfg.wallOff < _; omega

/-! ### store epochs -/

open EphVerif.C05Spec (N Ev Params nsPerSec effTtl)

/-- a copy of `c` with deadline `d` is current at (`now`, `last`): will a cleanup at some `T ≥ d` run before
    `c` is stored again? -/
def sweptAfter (p : Params) (c : String) (d : Int) : Int → Int → List Ev → Bool
  | _, _, [] => false
  | now, last, .store k _ :: rest => if k = c then false else sweptAfter p c d now last rest
  | now, last, .adv n :: rest => sweptAfter p c d (now + n) last rest
  | now, last, .tick :: rest =>
    if decide (now - last ≥ p.cleanupInterval * nsPerSec) then
      (if decide (d ≤ now) then true else sweptAfter p c d now now rest)
    else sweptAfter p c d now last rest
  | now, last, .other :: rest => sweptAfter p c d now last rest

/-- number of store epochs of `c` that ended by expiry and were swept -/
def sweptEpochs (p : Params) (c : String) : Int → Int → List Ev → Nat
  | _, _, [] => 0
  | now, last, .store k ttl :: rest =>
    (if k = c ∧ sweptAfter p c (now + effTtl p ttl * nsPerSec) now last rest = true then 1 else 0) +
      sweptEpochs p c now last rest
  | now, last, .adv n :: rest => sweptEpochs p c (now + n) last rest
  | now, last, .tick :: rest =>
    if decide (now - last ≥ p.cleanupInterval * nsPerSec) then sweptEpochs p c now now rest
    else sweptEpochs p c now last rest
  | now, last, .other :: rest => sweptEpochs p c now last rest

/-- what the current copy (if any) will still contribute -/
def pendingReport (p : Params) (c : String) (n : N) (evs : List Ev) : Nat :=
  match n.copies.get c with
  | some d => if sweptAfter p c d n.now n.lastCleanup evs then 1 else 0
  | none => 0

theorem reported_eq (p : Params) (c : String) (evs : List Ev) (n : N) :
    (C05Spec.run p n evs).reported.get c =
      n.reported.get c + pendingReport p c n evs + sweptEpochs p c n.now n.lastCleanup evs := by
  induction evs generalizing n with
  | nil =>
    simp only [C05Spec.run, List.foldl_nil, pendingReport, sweptAfter, sweptEpochs]
    cases n.copies.get c <;> simp
  | cons ev evs ih =>
    rw [run_cons, ih]
    cases ev with
    | adv d => simp only [C05Spec.step, pendingReport, sweptAfter, sweptEpochs]; rfl
    | other => simp only [C05Spec.step, pendingReport, sweptAfter, sweptEpochs]; rfl
    | store k ttl =>
      by_cases hk : k = c
      · subst hk
        cases hg : n.copies.get k with
        | none =>
          by_cases hs : sweptAfter p k (n.now + effTtl p ttl * nsPerSec) n.now n.lastCleanup evs = true <;>
            simp [C05Spec.step, pendingReport, sweptAfter, sweptEpochs, hg, hs] <;> omega
        | some d0 =>
          by_cases hs : sweptAfter p k (n.now + effTtl p ttl * nsPerSec) n.now n.lastCleanup evs = true <;>
            simp [C05Spec.step, pendingReport, sweptAfter, sweptEpochs, hg, hs] <;> omega
      · have hk' : ¬ c = k := fun hh => hk hh.symm
        cases hg : n.copies.get c with
        | none => simp [C05Spec.step, pendingReport, sweptAfter, sweptEpochs, hg, hk, hk']
        | some d0 =>
          by_cases hs : sweptAfter p c d0 n.now n.lastCleanup evs = true <;>
            simp [C05Spec.step, pendingReport, sweptAfter, sweptEpochs, hg, hk, hk', hs]
    | tick =>
      by_cases hc : n.now - n.lastCleanup ≥ p.cleanupInterval * nsPerSec
      · have hcl : C05Spec.cleans p n = true := by simp [C05Spec.cleans, hc]
        cases hg : n.copies.get c with
        | none => simp [C05Spec.step, hcl, pendingReport, sweptAfter, sweptEpochs, hc, C05Spec.due, hg]
        | some d =>
          by_cases hd : d ≤ n.now
          · simp [C05Spec.step, hcl, pendingReport, sweptAfter, sweptEpochs, hc, C05Spec.due, hg, hd]
          · simp [C05Spec.step, hcl, pendingReport, sweptAfter, sweptEpochs, hc, C05Spec.due, hg, hd]
      · have hcl : C05Spec.cleans p n = false := by simp [C05Spec.cleans, hc]
        cases hg : n.copies.get c with
        | none => simp [C05Spec.step, hcl, pendingReport, sweptAfter, sweptEpochs, hc, hg]
        | some d => simp [C05Spec.step, hcl, pendingReport, sweptAfter, sweptEpochs, hc, hg]

end EphVerif.Sys
