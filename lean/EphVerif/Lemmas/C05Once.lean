/-
C05 helper lemmas, part 3: the notifications of the node model are exactly the reports the abstract
node of the specification (`C05Spec.N`) demands.

`Sim cfg r n`: same clock, same time of the last cleanup, the record table holds exactly the current
local copies with their deadlines, and every id has been notified (drained or still queued) as often as
the specification has reported it.
-/
import EphVerif.Lemmas.C05Inv

namespace EphVerif.C05L
open EphVerif.NodeCleanup
open EphVerif.ChunkStore (aget aset adel Recs Uniq)
open EphVerif.C05Spec (N Ev Params count)

/-- the parameters of the specification that belong to a node configuration -/
def paramsOf (cfg : Cfg) : Params :=
  { defaultTtl := cfg.node.store.defaultTtl, minTtl := cfg.node.minTtl, maxTtl := cfg.node.maxTtl,
    cleanupInterval := cfg.node.cleanupInterval }

structure Sim (cfg : Cfg) (r : Run) (n : N) : Prop where
  now : r.s.now = n.now
  last : r.s.lastCleanup = n.lastCleanup
  uniq : Uniq r.s.recs
  copies : ∀ c, (aget r.s.recs c).map (·.expires) = n.copies.get c
  reported : ∀ c, count c r.notified = n.reported.get c

/-- the lifetime the model records equals the specification's effective TTL (for a sanitised window) -/
theorem lifetime_eq (cfg : Cfg) (hs : ChunkStore.SaneCfg cfg.node) (ttl : Int) :
    ChunkStore.effTtl cfg.node.store (ChunkStore.nodeTtl cfg.node ttl) = C05Spec.effTtl (paramsOf cfg) ttl := by
  obtain ⟨h1, h2⟩ := hs
  simp only [ChunkStore.effTtl, ChunkStore.nodeTtl, ChunkStore.clampChunkTtl, C05Spec.effTtl, paramsOf,
    EphVerif.Gen.C01.kMinimumTtlSec, EphVerif.Gen.C01.kMinAllowedManifestTtlSec]
  split <;> split <;> split <;> split <;> split <;> omega

theorem count_append (c : String) (a b : List String) : count c (a ++ b) = count c a + count c b := by
  simp [count, List.filter_append]

theorem count_nil (c : String) : count c [] = 0 := rfl

/-- how often a key occurs among the removed ids of a sweep: once iff its record is expired -/
theorem count_cons (c k : String) (l : List String) : count c (k :: l) = (if k = c then 1 else 0) + count c l := by
  by_cases h : k = c
  · subst h; simp [count, List.filter]; omega
  · have : (k == c) = false := by simpa using h
    simp [count, List.filter, this, h]

theorem count_removed {recs : Recs} (hu : Uniq recs) (p : String × ChunkStore.Rec → Bool) (c : String) :
    count c ((recs.filter p).map (·.1)) =
      match aget recs c with
      | some r => if p (c, r) then 1 else 0
      | none => 0 := by
  induction recs with
  | nil => rfl
  | cons e l ih =>
    obtain ⟨k, v⟩ := e
    have hu' := List.pairwise_cons.mp hu
    have ih' := ih hu'.2
    by_cases hk : k = c
    · subst hk
      -- no other entry carries this key
      have hnone : aget l k = none := ChunkStore.aget_none_of_not_mem (fun w hw => hu'.1 (k, w) hw rfl)
      rw [hnone] at ih'
      have ih0 : count k ((l.filter p).map (·.1)) = 0 := ih'
      have hag : aget ((k, v) :: l) k = some v := by simp [aget]
      rw [hag]
      by_cases hp : p (k, v) = true
      · have hf : ((k, v) :: l).filter p = (k, v) :: l.filter p := by simp [List.filter, hp]
        rw [hf, List.map_cons, count_cons, ih0]
        simp [hp]
      · have hp' : p (k, v) = false := by simpa using hp
        have hf : ((k, v) :: l).filter p = l.filter p := by simp [List.filter, hp']
        rw [hf, ih0]
        simp [hp']
    · have hag : aget ((k, v) :: l) c = aget l c := by simp [aget, hk]
      rw [hag, ← ih']
      by_cases hp : p (k, v) = true
      · have hf : ((k, v) :: l).filter p = (k, v) :: l.filter p := by simp [List.filter, hp]
        rw [hf, List.map_cons, count_cons]
        simp [hk]
      · have hp' : p (k, v) = false := by simpa using hp
        have hf : ((k, v) :: l).filter p = l.filter p := by simp [List.filter, hp']
        rw [hf]

theorem sim_init (cfg : Cfg) (t0 : Int) : Sim cfg (Run.init cfg t0) (N.init t0) :=
  ⟨rfl, rfl, List.Pairwise.nil, fun _ => rfl, fun _ => rfl⟩

/-- operations that touch neither the record table, the notification queue, the clock nor `lastCleanup` -/
theorem sim_frame {cfg : Cfg} {r : Run} {n : N} (h : Sim cfg r n) (s' : State) (hn : s'.now = r.s.now)
    (hl : s'.lastCleanup = r.s.lastCleanup) (hr : s'.recs = r.s.recs) (ho : s'.notes = r.s.notes) :
    Sim cfg { s := s', drained := r.drained } n :=
  ⟨by rw [hn]; exact h.now, by rw [hl]; exact h.last, by rw [hr]; exact h.uniq, by rw [hr]; exact h.copies,
   by intro c; simp only [Run.notified, ho]; exact h.reported c⟩

theorem ingest_frame (cfg : Cfg) (s : State) (c : String) (e : Int) (same : Bool) :
    (ingest cfg s c e same).now = s.now ∧ (ingest cfg s c e same).lastCleanup = s.lastCleanup ∧
    (ingest cfg s c e same).recs = s.recs ∧ (ingest cfg s c e same).notes = s.notes := by
  unfold ingest
  split
  · simp
  · split <;> simp [acceptManifest]

theorem announce_frame (cfg : Cfg) (s : State) (c : String) (e : Int) (same : Bool) (p : String) (pid : Routing.Id)
    (addr : String) (ttl : Int) (hint : Option (List String)) :
    (announce cfg s c e same p pid addr ttl hint).now = s.now ∧
    (announce cfg s c e same p pid addr ttl hint).lastCleanup = s.lastCleanup ∧
    (announce cfg s c e same p pid addr ttl hint).recs = s.recs ∧
    (announce cfg s c e same p pid addr ttl hint).notes = s.notes := by
  unfold announce
  split
  · simp
  · simp only
    split <;> split <;> simp [acceptManifest]

theorem reannounce_frame (cfg : Cfg) (s : State) (c : String) (ttl : Int) (hint : Option (List String)) :
    (reannounce cfg s c ttl hint).now = s.now ∧ (reannounce cfg s c ttl hint).lastCleanup = s.lastCleanup ∧
    (reannounce cfg s c ttl hint).recs = s.recs ∧ (reannounce cfg s c ttl hint).notes = s.notes := by
  unfold reannounce
  split
  · simp
  · split <;> simp [selfAnnounce]

theorem lookup_frame (cfg : Cfg) (s : State) (c : String) :
    (lookup cfg s c).now = s.now ∧ (lookup cfg s c).lastCleanup = s.lastCleanup ∧
    (lookup cfg s c).recs = s.recs ∧ (lookup cfg s c).notes = s.notes := by
  unfold lookup
  split
  · split
    · simp
    · split
      · simp
      · split <;> simp
  · simp

theorem gate_eq_cleans {cfg : Cfg} {r : Run} {n : N} (h : Sim cfg r n) : gate cfg r.s = C05Spec.cleans (paramsOf cfg) n := by
  rw [Bool.eq_iff_iff, gate_iff]
  simp [C05Spec.cleans, paramsOf, C05Spec.nsPerSec, h.now, h.last]

theorem sim_step {cfg : Cfg} (hs : ChunkStore.SaneCfg cfg.node) {r : Run} {n : N} (h : Sim cfg r n) (op : Op) :
    Sim cfg (exec cfg r op) (C05Spec.step (paramsOf cfg) n (evOf op)) := by
  cases op with
  | adv d =>
    exact ⟨by show r.s.now + d = n.now + d; rw [h.now], h.last, h.uniq, h.copies, h.reported⟩
  | store c ttl hint =>
    refine ⟨h.now, h.last, ChunkStore.uniq_aset h.uniq _ _, ?_, h.reported⟩
    intro k
    show (aget (aset r.s.recs c _) k).map (·.expires) = _
    rw [aget_aset]
    simp only [evOf, C05Spec.step]
    by_cases hk : c = k
    · subst hk
      simp only [if_true, Option.map_some, ChunkStore.mkRec, ChunkStore.nsPerSec, C05Spec.nsPerSec]
      rw [lifetime_eq cfg hs ttl, h.now]
    · have hk' : ¬ k = c := fun hh => hk hh.symm
      simp only [hk, hk', if_false]
      exact h.copies k
  | ingest c e same =>
    obtain ⟨a, b, c', d⟩ := ingest_frame cfg r.s c e same
    exact sim_frame h _ a b c' d
  | announce c e same p pid addr ttl hint =>
    obtain ⟨a, b, c', d⟩ := announce_frame cfg r.s c e same p pid addr ttl hint
    exact sim_frame h _ a b c' d
  | reannounce c ttl hint =>
    obtain ⟨a, b, c', d⟩ := reannounce_frame cfg r.s c ttl hint
    exact sim_frame h _ a b c' d
  | lookup c =>
    obtain ⟨a, b, c', d⟩ := lookup_frame cfg r.s c
    exact sim_frame h _ a b c' d
  | probe c => exact sim_frame h _ rfl rfl rfl rfl
  | audit => exact h
  | drain =>
    refine ⟨h.now, h.last, h.uniq, h.copies, ?_⟩
    intro c
    have := h.reported c
    simp only [Run.notified, exec, step, List.append_nil] at this ⊢
    exact this
  | tick =>
    have hg := gate_eq_cleans h
    simp only [exec, step, tick, evOf, C05Spec.step]
    by_cases hc : C05Spec.cleans (paramsOf cfg) n = true
    · rw [hg, hc]
      simp only [if_true]
      rw [cleanup_eq]
      refine ⟨h.now, by show r.s.now = n.now; exact h.now, ChunkStore.uniq_filter h.uniq _, ?_, ?_⟩
      · intro k
        show (aget ((ChunkStore.sweep r.s.recs r.s.now).1) k).map (·.expires) = _
        simp only [ChunkStore.sweep]
        rw [ChunkStore.aget_filter h.uniq]
        have hk := h.copies k
        simp only [C05Spec.due]
        cases hr : aget r.s.recs k with
        | none =>
          rw [hr] at hk
          simp only [Option.map_none] at hk
          simp [← hk]
        | some v =>
          rw [hr] at hk
          simp only [Option.map_some] at hk
          simp only [← hk]
          by_cases hx : ChunkStore.expiredSweep r.s.now v.expires = true
          · have hle := (ChunkStore.expiredSweep_iff _ _).mp hx
            rw [h.now] at hle
            simp [hx, hle]
          · have hle : ¬ v.expires ≤ n.now := by
              rw [← h.now]; exact fun hh => hx ((ChunkStore.expiredSweep_iff _ _).mpr hh)
            simp only [Bool.not_eq_true] at hx
            simp [hx, hle]
      · intro k
        show count k (r.drained ++ (r.s.notes ++ (ChunkStore.sweep r.s.recs r.s.now).2)) = _
        have hrep := h.reported k
        simp only [Run.notified] at hrep
        rw [← List.append_assoc, count_append, hrep]
        simp only [ChunkStore.sweep]
        rw [count_removed h.uniq]
        have hk := h.copies k
        simp only [C05Spec.due]
        cases hr : aget r.s.recs k with
        | none =>
          rw [hr] at hk
          simp only [Option.map_none] at hk
          simp [← hk]
        | some v =>
          rw [hr] at hk
          simp only [Option.map_some] at hk
          simp only [← hk]
          by_cases hx : ChunkStore.expiredSweep r.s.now v.expires = true
          · have hle := (ChunkStore.expiredSweep_iff _ _).mp hx
            rw [h.now] at hle
            simp [hx, hle]
          · have hle : ¬ v.expires ≤ n.now := by
              rw [← h.now]; exact fun hh => hx ((ChunkStore.expiredSweep_iff _ _).mpr hh)
            simp only [Bool.not_eq_true] at hx
            simp [hx, hle]
    · simp only [Bool.not_eq_true] at hc
      rw [hg, hc]
      simp only [Bool.false_eq_true, if_false]
      exact ⟨h.now, h.last, h.uniq, h.copies, h.reported⟩

theorem sim_run {cfg : Cfg} (hs : ChunkStore.SaneCfg cfg.node) {r : Run} {n : N} (h : Sim cfg r n) (ops : List Op) :
    Sim cfg (run cfg r ops) (C05Spec.run (paramsOf cfg) n (ops.map evOf)) := by
  induction ops generalizing r n with
  | nil => exact h
  | cons op ops ih =>
    simp only [run, C05Spec.run, List.map_cons, List.foldl_cons]
    exact ih (sim_step hs h op)

/-! ### the specification itself: a report consumes a store, and a cleanup leaves no due copy -/

def stores (c : String) : List Ev → Nat
  | [] => 0
  | .store k _ :: rest => (if k = c then 1 else 0) + stores c rest
  | _ :: rest => stores c rest

theorem run_cons (p : Params) (n : N) (ev : Ev) (evs : List Ev) :
    C05Spec.run p n (ev :: evs) = C05Spec.run p (C05Spec.step p n ev) evs := rfl

/-- ghost invariant: reports so far + (1 if a copy is current) ≤ stores so far -/
theorem spec_budget (p : Params) (n : N) (evs : List Ev) (c : String) (base : Nat)
    (h : n.reported.get c + (if (n.copies.get c).isSome then 1 else 0) ≤ base) :
    (C05Spec.run p n evs).reported.get c + (if ((C05Spec.run p n evs).copies.get c).isSome then 1 else 0)
      ≤ base + stores c evs := by
  induction evs generalizing n base with
  | nil =>
    show n.reported.get c + (if (n.copies.get c).isSome then 1 else 0) ≤ base + 0
    omega
  | cons ev evs ih =>
    rw [run_cons]
    cases ev with
    | adv d =>
      have := ih (n := C05Spec.step p n (.adv d)) base h
      simp only [stores]; exact this
    | other =>
      have := ih (n := C05Spec.step p n .other) base h
      simp only [stores]; exact this
    | store k ttl =>
      have := ih (n := C05Spec.step p n (.store k ttl)) (base + (if k = c then 1 else 0)) (by
        simp only [C05Spec.step]
        by_cases hk : k = c
        · subst hk; simp only [if_true, Option.isSome_some]; split at h <;> omega
        · have hk' : ¬ c = k := fun hh => hk hh.symm
          simp only [hk, hk', if_false]; omega)
      simp only [stores]; omega
    | tick =>
      have := ih (n := C05Spec.step p n .tick) base (by
        simp only [C05Spec.step]
        split
        · simp only
          by_cases hd : C05Spec.due n c = true
          · simp only [hd, if_true, Option.isSome_none, Bool.false_eq_true, if_false]
            have hsome : (n.copies.get c).isSome = true := by
              simp only [C05Spec.due] at hd
              split at hd
              · simp [*]
              · cases hd
            simp only [hsome, if_true] at h
            omega
          · simp only [Bool.not_eq_true] at hd
            simp only [hd, Bool.false_eq_true, if_false]
            exact h
        · exact h)
      simp only [stores]; exact this

end EphVerif.C05L
