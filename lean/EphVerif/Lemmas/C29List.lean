/-
`handle_list`'s ENTRIES value and the CLI's splitting of it (C29.list).
-/
import EphVerif.Lemmas.C29Client

namespace EphVerif.Control

/-- a snapshot entry as `handle_list` formats it: 64 hex digits, `size_t` size, non-negative `int64` TTL -/
structure EntryValid (e : ChunkEntry) : Prop where
  idLen : e.idHex.length = 64
  idClean : ∀ c ∈ e.idHex, c ≠ 10 ∧ c ≠ 13 ∧ c ≠ 92 ∧ c ≠ 44
  size : e.size < 18446744073709551616
  ttl : e.ttl < 18446744073709551616

def stateWord (e : ChunkEntry) : Bytes := if e.encrypted then ascii "encrypted" else ascii "plain"

theorem stateWord_clean (e : ChunkEntry) : ∀ c ∈ stateWord e, c ≠ 10 ∧ c ≠ 13 ∧ c ≠ 92 ∧ c ≠ 44 := by
  unfold stateWord
  split <;> decide

theorem stateWord_length (e : ChunkEntry) : (stateWord e).length ≤ 9 := by
  unfold stateWord
  split <;> decide

theorem entryText_eq (e : ChunkEntry) :
    entryText e = e.idHex ++ 44 :: (toDec e.size ++ 44 :: (stateWord e ++ 44 :: toDec e.ttl)) := rfl

theorem toDec_clean (n : Nat) : ∀ c ∈ toDec n, c ≠ 10 ∧ c ≠ 13 ∧ c ≠ 92 ∧ c ≠ 44 := by
  intro c hc
  have := isDigit_ne (toDec_digits n c hc)
  exact ⟨this.1, this.2.1, this.2.2.1, this.2.2.2.2.2⟩

theorem entryText_clean {e : ChunkEntry} (hv : EntryValid e) : ∀ c ∈ entryText e, c ≠ 10 ∧ c ≠ 13 ∧ c ≠ 92 := by
  intro c hc
  rw [entryText_eq] at hc
  simp only [List.mem_append, List.mem_cons] at hc
  rcases hc with h | rfl | h | rfl | h | rfl | h
  · have := hv.idClean c h; exact ⟨this.1, this.2.1, this.2.2.1⟩
  · decide
  · have := toDec_clean e.size c h; exact ⟨this.1, this.2.1, this.2.2.1⟩
  · decide
  · have := stateWord_clean e c h; exact ⟨this.1, this.2.1, this.2.2.1⟩
  · decide
  · have := toDec_clean e.ttl c h; exact ⟨this.1, this.2.1, this.2.2.1⟩

theorem toDec_len20 {n : Nat} (h : n < 18446744073709551616) : (toDec n).length ≤ 20 := by
  have := toDec_length_le 20 n (by omega)
  simpa using this

theorem entryText_length {e : ChunkEntry} (hv : EntryValid e) : (entryText e).length ≤ 116 := by
  rw [entryText_eq]
  simp only [List.length_append, List.length_cons]
  have h1 := hv.idLen
  have h2 := toDec_len20 hv.size
  have h3 := toDec_len20 hv.ttl
  have h4 := stateWord_length e
  omega

theorem entryText_ne_nil (e : ChunkEntry) : entryText e ≠ [] := by
  rw [entryText_eq]; cases e.idHex <;> simp

/-- the four comma-separated tokens of an entry -/
theorem splitBy_entryText {e : ChunkEntry} (hv : EntryValid e) :
    splitBy 44 (entryText e) [] = [e.idHex, toDec e.size, stateWord e, toDec e.ttl] := by
  rw [entryText_eq]
  rw [splitBy_append 44 _ _ [] (fun c h => (hv.idClean c h).2.2.2)]
  rw [splitBy_append 44 _ _ [] (fun c h => (toDec_clean _ c h).2.2.2)]
  rw [splitBy_append 44 _ _ [] (fun c h => (stateWord_clean e c h).2.2.2)]
  rw [splitBy_noSep 44 _ [] (fun c h => (toDec_clean _ c h).2.2.2)]
  simp

def entriesValue (snapshot : List ChunkEntry) : Bytes := snapshot.flatMap fun e => entryText e ++ [10]

/-- the ENTRIES value split at LF: one piece per chunk, then an empty piece -/
theorem splitBy_entries : ∀ (snapshot : List ChunkEntry), (∀ e ∈ snapshot, EntryValid e) →
    splitBy 10 (entriesValue snapshot) [] = snapshot.map entryText ++ [[]]
  | [], _ => by simp [entriesValue, splitBy]
  | e :: es, h => by
    have he := h e (by simp)
    have ih := splitBy_entries es (fun x hx => h x (by simp [hx]))
    have : entriesValue (e :: es) = entryText e ++ 10 :: entriesValue es := by simp [entriesValue]
    rw [this, splitBy_append 10 _ _ [] (fun c hc => (entryText_clean he c hc).1), ih]
    simp

theorem encodeValue_entries : ∀ (snapshot : List ChunkEntry), (∀ e ∈ snapshot, EntryValid e) →
    encodeValue (entriesValue snapshot) = snapshot.flatMap fun e => entryText e ++ [10, 9]
  | [], _ => by simp [entriesValue, encodeValue]
  | e :: es, h => by
    have he := h e (by simp)
    have ih := encodeValue_entries es (fun x hx => h x (by simp [hx]))
    have : entriesValue (e :: es) = entryText e ++ 10 :: entriesValue es := by simp [entriesValue]
    rw [this, encodeValue_append_lf _ _ (fun c hc => (entryText_clean he c hc).1), ih,
      escSeg_id (fun c hc => ⟨(entryText_clean he c hc).2.2, (entryText_clean he c hc).2.1⟩)]
    simp

/-- every physical line of the ENTRIES field is short, however many chunks there are -/
theorem entries_lines_short : ∀ (snapshot : List ChunkEntry) (pre : Bytes), (∀ e ∈ snapshot, EntryValid e) →
    (∀ c ∈ pre, c ≠ 10) → pre.length ≤ 9 →
    ∀ l ∈ splitBy 10 (pre ++ snapshot.flatMap fun e => entryText e ++ [10, 9]) [], l.length ≤ 125
  | [], pre, _, hpre, hlen => by
    intro l hl
    simp only [List.flatMap_nil, List.append_nil] at hl
    rw [splitBy_noSep 10 pre [] hpre] at hl
    have : l = pre := by simpa using hl
    rw [this]; omega
  | e :: es, pre, h, hpre, hlen => by
    intro l hl
    have he := h e (by simp)
    have hshape : pre ++ (e :: es).flatMap (fun e => entryText e ++ [10, 9]) =
        (pre ++ entryText e) ++ 10 :: ([9] ++ es.flatMap fun e => entryText e ++ [10, 9]) := by simp
    rw [hshape, splitBy_append 10 _ _ [] (by
      intro c hc
      rcases List.mem_append.mp hc with hc | hc
      · exact hpre c hc
      · exact (entryText_clean he c hc).1)] at hl
    rcases List.mem_cons.mp hl with rfl | hl
    · have := entryText_length he
      simp only [List.reverse_nil, List.nil_append, List.length_append]; omega
    · exact entries_lines_short es [9] (fun x hx => h x (by simp [hx])) (by decide) (by decide) l hl

/-- the line the CLI prints for a chunk -/
def cliLine (e : ChunkEntry) : Bytes :=
  ascii "  ID=" ++ e.idHex ++ ascii " size=" ++ toDec e.size ++ ascii " bytes, state=" ++
    stateWord e ++ ascii ", ttl=" ++ toDec e.ttl ++ ascii "s"

theorem entryLine_entryText {e : ChunkEntry} (he : EntryValid e) :
    entryLine (splitBy 44 (entryText e) []) = some (cliLine e) := by
  rw [splitBy_entryText he]; rfl

theorem filterMap_entries : ∀ (snapshot : List ChunkEntry), (∀ e ∈ snapshot, EntryValid e) →
    ((snapshot.map entryText).filterMap fun l => entryLine (splitBy 44 l [])) = snapshot.map cliLine
  | [], _ => rfl
  | e :: es, h => by
    have he := h e (by simp)
    have ih := filterMap_entries es (fun x hx => h x (by simp [hx]))
    simp only [List.map_cons, List.filterMap_cons, entryLine_entryText he, ih]

/-- what the CLI makes of the ENTRIES value -/
theorem cli_entries (snapshot : List ChunkEntry) (h : ∀ e ∈ snapshot, EntryValid e) :
    (((splitBy 10 (entriesValue snapshot) []).filter fun l => !l.isEmpty).filterMap fun l => entryLine (splitBy 44 l [])) =
      snapshot.map cliLine := by
  rw [splitBy_entries snapshot h, List.filter_append]
  have h1 : (snapshot.map entryText).filter (fun l => !l.isEmpty) = snapshot.map entryText := by
    rw [List.filter_eq_self]
    intro l hl
    obtain ⟨e, _, rfl⟩ := List.mem_map.mp hl
    cases hx : entryText e with
    | nil => exact absurd hx (entryText_ne_nil e)
    | cons _ _ => rfl
  rw [h1]
  simp only [List.filter_cons, List.isEmpty_nil, Bool.not_true, Bool.false_eq_true, ↓reduceIte, List.filter_nil,
    List.append_nil]
  exact filterMap_entries snapshot h

end EphVerif.Control
