/-
C10: `evaluate_polynomial` and `interpolate` of the model, read in the field `GF256`:
polynomial evaluation and Lagrange interpolation at 0 (Mathlib's `Lagrange.interpolate`).
-/
import Mathlib.LinearAlgebra.Lagrange
import EphVerif.Lemmas.C10GF

namespace EphVerif.C10L
open EphVerif.Shamir Polynomial

/-! ### bytes ↔ field elements -/

def g (a : Nat) : GF256 := GF256.ofNat a

def Bytes (l : List Nat) : Prop := ∀ b ∈ l, b < 256

theorem g_val_of_lt {a : Nat} (h : a < 256) : (g a).val = a := Nat.mod_eq_of_lt h
theorem g_val (a : GF256) : g a.val = a := GF256.ext (Nat.mod_eq_of_lt a.lt)
theorem g_zero : g 0 = 0 := rfl
theorem g_one : g 1 = 1 := rfl

theorem g_inj {a b : Nat} (ha : a < 256) (hb : b < 256) (h : g a = g b) : a = b := by
  have := congrArg GF256.val h
  rwa [g_val_of_lt ha, g_val_of_lt hb] at this

theorem g_eq_zero {a : Nat} (ha : a < 256) : g a = 0 ↔ a = 0 :=
  ⟨fun h => g_inj ha (by decide) h, fun h => h ▸ rfl⟩

theorem g_xor {a b : Nat} (ha : a < 256) (hb : b < 256) : g (a ^^^ b) = g a + g b :=
  GF256.ext (by rw [GF256.val_add, g_val_of_lt ha, g_val_of_lt hb, g_val_of_lt (xor_lt ha hb)])

theorem g_mul {a b : Nat} (ha : a < 256) (hb : b < 256) : g (gfMul a b) = g a * g b :=
  GF256.ext (by rw [GF256.val_mul, g_val_of_lt ha, g_val_of_lt hb, g_val_of_lt (gfMul_lt a b)])

theorem g_inv {a : Nat} (ha : a < 256) : g (gfInv a) = (g a)⁻¹ :=
  GF256.ext (by rw [GF256.val_inv, g_val_of_lt ha, g_val_of_lt (gfInv_lt a)])

theorem gf_sub (a b : GF256) : a - b = a + b := by rw [sub_eq_add_neg, GF256.neg_eq]
theorem gf_add_self (a : GF256) : a + a = 0 := GF256.ext (Nat.xor_self _)
theorem gf_add_eq_zero {a b : GF256} : a + b = 0 ↔ a = b :=
  ⟨fun h => GF256.ext (xor_eq_zero (congrArg GF256.val h)), fun h => h ▸ gf_add_self a⟩

theorem getD_lt {l : List Nat} (h : Bytes l) (j : Nat) : l.getD j 0 < 256 := by
  rw [List.getD_eq_getElem?_getD]
  cases hj : l[j]? with
  | none => simp
  | some v => exact h v (List.mem_of_getElem? hj)

theorem Bytes.cons {a : Nat} {l : List Nat} : Bytes (a :: l) ↔ a < 256 ∧ Bytes l := by
  simp [Bytes]

/-! ### evaluate_polynomial -/

/-- the polynomial with coefficient list `l` (constant term first) -/
noncomputable def polyOfList : List GF256 → GF256[X]
  | [] => 0
  | a :: l => C a + X * polyOfList l

theorem coeff_polyOfList : ∀ (l : List GF256) (m : Nat), (polyOfList l).coeff m = l.getD m 0
  | [], m => by simp [polyOfList]
  | a :: l, 0 => by simp [polyOfList]
  | a :: l, m + 1 => by simp [polyOfList, coeff_polyOfList l m]

theorem degree_polyOfList_lt (l : List GF256) : (polyOfList l).degree < l.length := by
  rw [degree_lt_iff_coeff_zero]
  intro m hm
  rw [coeff_polyOfList, List.getD_eq_getElem?_getD, List.getElem?_eq_none hm]; rfl

theorem eval_polyOfList_zero (a : GF256) (l : List GF256) : (polyOfList (a :: l)).eval 0 = a := by
  simp [polyOfList]

theorem evalPolyLoop_lt {x : Nat} : ∀ {cs : List Nat} {p r : Nat}, r < 256 → evalPolyLoop x cs p r < 256
  | [], _, _, hr => hr
  | _ :: cs, _, _, hr => evalPolyLoop_lt (cs := cs) (xor_lt hr (gfMul_lt _ _))

theorem evalPolyLoop_g {x : Nat} (hx : x < 256) : ∀ {cs : List Nat} {p r : Nat}, Bytes cs → p < 256 → r < 256 →
    g (evalPolyLoop x cs p r) = g r + g p * g x * (polyOfList (cs.map g)).eval (g x)
  | [], p, r, _, _, _ => by simp [evalPolyLoop, polyOfList]
  | c :: cs, p, r, hcs, hp, hr => by
    have hc := (Bytes.cons.1 hcs).1
    have hpx := gfMul_lt p x
    rw [evalPolyLoop]
    simp only [gfAdd]
    rw [evalPolyLoop_g hx (Bytes.cons.1 hcs).2 hpx (xor_lt hr (gfMul_lt _ _))]
    simp only [ g_xor hr (gfMul_lt _ _), g_mul hc hpx, g_mul hp hx, List.map_cons, polyOfList, eval_add, eval_mul,
      eval_C, eval_X]
    ring

theorem evalPoly_lt {x s : Nat} {cs : List Nat} (hs : s < 256) : evalPoly x s cs < 256 := evalPolyLoop_lt hs

/-- `evaluate_polynomial(x, s, cs)` is the value at `x` of `s + c₁X + c₂X² + …`. -/
theorem evalPoly_g {x s : Nat} {cs : List Nat} (hx : x < 256) (hs : s < 256) (hcs : Bytes cs) :
    g (evalPoly x s cs) = (polyOfList (g s :: cs.map g)).eval (g x) := by
  rw [evalPoly, evalPolyLoop_g hx hcs (by decide) hs]
  simp only [g_one, polyOfList, eval_add, eval_mul, eval_C, eval_X]
  ring

end EphVerif.C10L
