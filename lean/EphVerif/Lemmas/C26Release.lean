/-
Helper lemmas for C26: which clients have been accepted, and that a closed client stays closed.
-/
import EphVerif.Lemmas.C25View
set_option linter.unusedSimpArgs false
namespace EphVerif.Relay

/-- only `accept` of a fresh index extends `used` -/
theorem step_used (σ : State) (ev : Event) (hI : Inv σ) (hA : Acc σ) :
    (step σ ev).used = σ.used ∨ ∃ c, ev = .accept c ∧ c ∉ σ.used ∧ (step σ ev).used = c :: σ.used := by
  cases ev with
  | accept c =>
    by_cases hu : c ∈ σ.used
    · left; simp [step, hu]
    · right; exact ⟨c, rfl, hu, by simp [step, hu]⟩
  | recv c data =>
    left
    cases hc : σ.get c with
    | none => simp [step, hc]
    | some s =>
      by_cases hst : s.state = .bridged
      · obtain ⟨p, ps, _, _, _, _, _, heq⟩ := step_recv_bridged hI hc hst data
        rw [heq]; rfl
      · simp only [step, hc, hst, if_false]
        have hIa := inv_put_readBuf hI hc (s.readBuf ++ data)
        obtain ⟨_, hcalm⟩ := processProtocol_ok (s.readBuf.length + data.length + 1) _ c
          { s with readBuf := s.readBuf ++ data } hIa (by simp) (by simp) (fun e => absurd e hst)
        rw [hcalm.used]; rfl
  | eof c =>
    left
    cases hc : σ.get c with
    | none => simp [step, closeSession, hc]
    | some s => exact (closeSession_out hI c s hc).1
  | err c =>
    left
    cases hc : σ.get c with
    | none => simp [step, closeSession, hc]
    | some s => exact (closeSession_out hI c s hc).1
  | flush c n =>
    left
    cases hc : σ.get c with
    | none => simp [step, hc]
    | some s => simp [step, hc]

/-- after EOF or an error the client's session is gone -/
theorem get_closeSession_self {σ : State} (hI : Inv σ) (c : Client) : (closeSession σ c).get c = none := by
  cases hc : σ.get c with
  | none => simp [closeSession, hc]
  | some s =>
    obtain ⟨_, _, hg⟩ := closeSession_effect hI c s hc
    rcases hg with ⟨_, hg⟩ | ⟨_, _, _, _, _, hg⟩ | ⟨_, _, _, _, _, hg⟩ <;> rw [hg] <;> simp

/-- a client that has been accepted and is gone stays gone -/
theorem gone_step (σ : State) (ev : Event) (hI : Inv σ) (hA : Acc σ) (c : Client)
    (hu : c ∈ σ.used) (hg : σ.get c = none) :
    c ∈ (step σ ev).used ∧ (step σ ev).get c = none := by
  obtain ⟨_, hA', new, hout, _⟩ := step_ok σ ev hI hA
  have hcl : c ∈ closedList σ := by
    rcases hA.cover c hu with h | h
    · simp [hg] at h
    · exact h
  have hcl' : c ∈ closedList (step σ ev) := by
    unfold closedList at hcl ⊢
    rw [hout, List.filterMap_append]
    exact List.mem_append_right _ hcl
  obtain ⟨h1, h2⟩ := hA'.gone c hcl'
  exact ⟨h2, h1⟩

theorem gone_run (evs : List Event) : ∀ (σ : State), Inv σ → Acc σ → ∀ c, c ∈ σ.used → σ.get c = none →
    c ∈ (run σ evs).used ∧ (run σ evs).get c = none := by
  induction evs with
  | nil => intro σ _ _ c hu hg; exact ⟨hu, hg⟩
  | cons ev evs ih =>
    intro σ hI hA c hu hg
    obtain ⟨hI', hA', _⟩ := step_ok σ ev hI hA
    obtain ⟨hu', hg'⟩ := gone_step σ ev hI hA c hu hg
    exact ih _ hI' hA' c hu' hg'

theorem used_mono_step (σ : State) (ev : Event) (hI : Inv σ) (hA : Acc σ) (c : Client) (hu : c ∈ σ.used) :
    c ∈ (step σ ev).used := by
  rcases step_used σ ev hI hA with h | ⟨d, _, _, h⟩ <;> rw [h] <;> simp [hu]

theorem used_mono_run (evs : List Event) : ∀ (σ : State), Inv σ → Acc σ → ∀ c, c ∈ σ.used → c ∈ (run σ evs).used := by
  induction evs with
  | nil => intro σ _ _ c hu; exact hu
  | cons ev evs ih =>
    intro σ hI hA c hu
    obtain ⟨hI', hA', _⟩ := step_ok σ ev hI hA
    exact ih _ hI' hA' c (used_mono_step σ ev hI hA c hu)

/-- an accepted client is in `used` from then on -/
theorem used_of_accept (evs : List Event) : ∀ (σ : State), Inv σ → Acc σ → ∀ c, Event.accept c ∈ evs →
    c ∈ (run σ evs).used := by
  induction evs with
  | nil => intro σ _ _ c h; simp at h
  | cons ev evs ih =>
    intro σ hI hA c h
    obtain ⟨hI', hA', _⟩ := step_ok σ ev hI hA
    rcases List.mem_cons.mp h with rfl | h
    · apply used_mono_run evs _ hI' hA'
      by_cases hu : c ∈ σ.used
      · simp [step, hu]
      · simp [step, hu]
    · exact ih _ hI' hA' c h

/-- `used` holds accepted clients only -/
theorem accept_of_used (evs : List Event) : ∀ (σ : State), Inv σ → Acc σ → ∀ c, c ∈ (run σ evs).used →
    c ∈ σ.used ∨ Event.accept c ∈ evs := by
  induction evs with
  | nil => intro σ _ _ c h; exact Or.inl h
  | cons ev evs ih =>
    intro σ hI hA c h
    obtain ⟨hI', hA', _⟩ := step_ok σ ev hI hA
    rcases ih _ hI' hA' c h with h | h
    · rcases step_used σ ev hI hA with e | ⟨d, rfl, _, e⟩
      · left; rwa [e] at h
      · rw [e] at h
        rcases List.mem_cons.mp h with rfl | h
        · right; simp
        · left; exact h
    · right; exact List.mem_cons_of_mem _ h

/-- a client that saw EOF or an error after it was accepted has no session at the end -/
theorem left_gone (evs : List Event) : ∀ (σ : State), Inv σ → Acc σ → ∀ c, c ∈ σ.used →
    (Event.eof c ∈ evs ∨ Event.err c ∈ evs) → (run σ evs).get c = none := by
  induction evs with
  | nil => intro σ _ _ c _ h; simp at h
  | cons ev evs ih =>
    intro σ hI hA c hu h
    obtain ⟨hI', hA', _⟩ := step_ok σ ev hI hA
    have hu' := used_mono_step σ ev hI hA c hu
    by_cases he : ev = .eof c ∨ ev = .err c
    · have hg : (step σ ev).get c = none := by
        rcases he with rfl | rfl <;> exact get_closeSession_self hI c
      exact (gone_run evs _ hI' hA' c hu' hg).2
    · apply ih _ hI' hA' c hu'
      rcases h with h | h
      · rcases List.mem_cons.mp h with e | h
        · exact absurd (Or.inl e.symm) he
        · exact Or.inl h
      · rcases List.mem_cons.mp h with e | h
        · exact absurd (Or.inr e.symm) he
        · exact Or.inr h

theorem run_append (σ : State) (xs ys : List Event) : run σ (xs ++ ys) = run (run σ xs) ys := by
  simp [run, List.foldl_append]

end EphVerif.Relay
