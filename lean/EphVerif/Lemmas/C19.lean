/-
Helper lemmas for C19 (proof-of-work acceptance): the arithmetic of `lz`, the four leading-zero
counters of the code against it, and unambiguous parsing of the fixed-width / length-prefixed
digest preimages.  Core Lean only.
-/
import EphVerif.Model.Pow
import EphVerif.Spec.Pow

namespace EphVerif.C19L
open EphVerif.Pow EphVerif.Spec.Pow


theorem foldl_beVal (bs : List UInt8) (acc : Nat) :
    bs.foldl (fun acc b => acc * 256 + b.toNat) acc = acc * 256 ^ bs.length + beVal bs := by
  induction bs generalizing acc with
  | nil => simp [beVal]
  | cons b bs ih =>
    simp only [List.foldl_cons, List.length_cons, beVal]
    rw [ih, ih (0 * 256 + b.toNat)]
    simp only [Nat.zero_mul, Nat.zero_add, Nat.pow_succ]
    rw [Nat.add_mul, Nat.mul_assoc, Nat.mul_comm 256, Nat.add_assoc]

theorem beVal_nil : beVal [] = 0 := rfl

theorem beVal_cons (b : UInt8) (bs : List UInt8) : beVal (b :: bs) = b.toNat * 256 ^ bs.length + beVal bs := by
  have := foldl_beVal bs (0 * 256 + b.toNat)
  simp only [Nat.zero_mul, Nat.zero_add] at this
  simpa [beVal] using this

theorem beVal_lt (bs : List UInt8) : beVal bs < 256 ^ bs.length := by
  induction bs with
  | nil => simp [beVal]
  | cons b bs ih =>
    rw [beVal_cons, List.length_cons, Nat.pow_succ]
    have hb : b.toNat < 256 := b.toNat_lt
    have : b.toNat * 256 ^ bs.length + 256 ^ bs.length ≤ 256 * 256 ^ bs.length := by
      rw [← Nat.succ_mul]; exact Nat.mul_le_mul_right _ hb
    rw [Nat.mul_comm (256 ^ bs.length)]
    omega

theorem bitLength_le_iff (n k : Nat) : bitLength n ≤ k ↔ n < 2 ^ k := by
  unfold bitLength
  by_cases h : n = 0
  · subst h; simp [Nat.two_pow_pos]
  · simp only [h, if_false]
    exact Nat.log2_lt h

theorem pow256 (L : Nat) : 256 ^ L = 2 ^ (8 * L) := by
  rw [Nat.pow_mul]

theorem bitLength_beVal_le (bs : List UInt8) : bitLength (beVal bs) ≤ 8 * bs.length := by
  rw [bitLength_le_iff, ← pow256]; exact beVal_lt bs

/-- the defining property of `lz` -/
theorem lz_spec (d : List UInt8) (k : Nat) (hk : k ≤ 8 * d.length) :
    k ≤ lz d ↔ beVal d < 2 ^ (8 * d.length - k) := by
  have h1 := bitLength_beVal_le d
  rw [← bitLength_le_iff]
  unfold lz
  omega


theorem lz_nil : lz [] = 0 := by simp [lz]

theorem lz_cons_zero (bs : List UInt8) : lz (0 :: bs) = 8 + lz bs := by
  have h := bitLength_beVal_le bs
  have : beVal (0 :: bs) = beVal bs := by rw [beVal_cons]; simp
  unfold lz
  rw [this, List.length_cons]
  omega

/-- dropping `j` low bits drops `j` from the bit length, as long as something remains -/
theorem bitLength_div_pow (x j : Nat) (h : x / 2 ^ j ≠ 0) : bitLength x = bitLength (x / 2 ^ j) + j := by
  apply Nat.le_antisymm
  · rw [bitLength_le_iff]
    have h2 : x / 2 ^ j < 2 ^ bitLength (x / 2 ^ j) := (bitLength_le_iff _ _).mp (Nat.le_refl _)
    rw [Nat.pow_add]
    exact (Nat.div_lt_iff_lt_mul (Nat.two_pow_pos j)).mp h2
  · -- bitLength (x / 2^j) + j ≤ bitLength x
    have hm : 1 ≤ bitLength (x / 2 ^ j) := by
      cases hq : bitLength (x / 2 ^ j) with
      | zero =>
        have := (bitLength_le_iff (x / 2 ^ j) 0).mp (by omega)
        simp only [Nat.pow_zero, Nat.lt_one_iff] at this; exact absurd this h
      | succ m => omega
    -- not (bitLength x ≤ bitLength q + j - 1)
    apply Nat.le_of_not_lt
    intro hlt
    have hle : bitLength x ≤ (bitLength (x / 2 ^ j) - 1) + j := by omega
    rw [bitLength_le_iff, Nat.pow_add] at hle
    have := (Nat.div_lt_iff_lt_mul (Nat.two_pow_pos j)).mpr hle
    have := (bitLength_le_iff _ _).mpr this
    omega

theorem lz_cons_nonzero (b : UInt8) (bs : List UInt8) (hb : b ≠ 0) :
    lz (b :: bs) = 8 - bitLength b.toNat := by
  have hbn : b.toNat ≠ 0 := by
    intro h; apply hb; exact UInt8.toNat_inj.mp (by simpa using h)
  have hlt := beVal_lt bs
  have hdiv : beVal (b :: bs) / 2 ^ (8 * bs.length) = b.toNat := by
    rw [beVal_cons, ← pow256, Nat.mul_comm, Nat.mul_add_div (Nat.pow_pos (by decide)), Nat.div_eq_of_lt hlt]
    rfl
  have := bitLength_div_pow (beVal (b :: bs)) (8 * bs.length) (by rw [hdiv]; exact hbn)
  rw [hdiv] at this
  have hb8 : bitLength b.toNat ≤ 8 := by
    rw [bitLength_le_iff]; exact b.toNat_lt
  unfold lz
  rw [this, List.length_cons]
  omega



/-! ### the counters -/

theorem scanBitsNode_acc (b : UInt8) (k t : Nat) : scanBitsNode b k t = t + scanBitsNode b k 0 := by
  induction k generalizing t with
  | zero => simp [scanBitsNode]
  | succ k ih =>
    simp only [scanBitsNode]
    split
    · simp
    · rw [ih (t + 1), ih (0 + 1)]; omega

theorem scanBits_table : ∀ n < 256, scanBitsNode (UInt8.ofNat n) 8 0 = 8 - bitLength n := by
  decide +kernel

theorem scanBitsNode_eq (b : UInt8) (t : Nat) : scanBitsNode b 8 t = t + (8 - bitLength b.toNat) := by
  rw [scanBitsNode_acc]
  have := scanBits_table b.toNat b.toNat_lt
  rw [UInt8.ofNat_toNat] at this
  rw [this]

theorem bitLength_pos_of_ne (b : UInt8) (hb : b ≠ 0) : 1 ≤ bitLength b.toNat := by
  have hbn : b.toNat ≠ 0 := by
    intro h; apply hb; exact UInt8.toNat_inj.mp (by simpa using h)
  cases hq : bitLength b.toNat with
  | zero =>
    have := (bitLength_le_iff b.toNat 0).mp (by omega)
    simp only [Nat.pow_zero, Nat.lt_one_iff] at this; exact absurd this hbn
  | succ m => omega

theorem clzNodeAux_eq (bs : List UInt8) (t : Nat) : clzNodeAux bs t = t + lz bs := by
  induction bs generalizing t with
  | nil => simp [clzNodeAux, lz_nil]
  | cons b bs ih =>
    simp only [clzNodeAux]
    split
    · next h =>
      have : b = 0 := by simpa using h
      subst this
      rw [ih, lz_cons_zero]; omega
    · next h =>
      have hb : b ≠ 0 := by simpa using h
      rw [scanBitsNode_eq, lz_cons_nonzero b bs hb]

theorem clzNode_eq_lz (bs : List UInt8) : clzNode bs = lz bs := by
  simp [clzNode, clzNodeAux_eq]

theorem scanBitsStore_eq_node (b : UInt8) (k t : Nat) : scanBitsStore b k t = scanBitsNode b k t := by
  induction k generalizing t with
  | zero => rfl
  | succ k ih => simp only [scanBitsStore, scanBitsNode, ih]

theorem scanBitsCli_eq_node (b : UInt8) (k t : Nat) : scanBitsCli b k t = scanBitsNode b k t := by
  induction k generalizing t with
  | zero => rfl
  | succ k ih => simp only [scanBitsCli, scanBitsNode, ih]

theorem clzStoreAux_eq (bs : List UInt8) (t : Nat) : clzStoreAux bs t = clzNodeAux bs t := by
  induction bs generalizing t with
  | nil => rfl
  | cons b bs ih =>
    simp only [clzStoreAux, clzNodeAux, ih, scanBitsStore_eq_node]
    split
    · rfl
    · rw [scanBitsNode_acc b 8 t]

theorem clzCliAux_eq (bs : List UInt8) (t : Nat) : clzCliAux bs t = clzNodeAux bs t := by
  induction bs generalizing t with
  | nil => rfl
  | cons b bs ih => simp only [clzCliAux, clzNodeAux, ih, scanBitsCli_eq_node]

theorem clzStore_eq_lz (bs : List UInt8) : clzStore bs = lz bs := by
  simp [clzStore, clzStoreAux_eq, clzNodeAux_eq]

theorem clzCli_eq_lz (bs : List UInt8) : clzCli bs = lz bs := by
  simp [clzCli, clzCliAux_eq, clzNodeAux_eq]

/-! ### digest_meets_difficulty -/

theorem mask_table : ∀ n < 256, ∀ d < 8, 0 < d →
    ((UInt8.ofNat n &&& UInt8.ofNat (255 <<< (8 - d))) == 0) = decide (d ≤ 8 - bitLength n) := by
  decide +kernel

theorem meets_nil (d : Nat) : meetsDifficulty [] d = decide (d ≤ 0) := by
  unfold meetsDifficulty
  by_cases h0 : d = 0
  · simp [h0]
  · have : ¬ d ≤ 0 := by omega
    simp only [beq_iff_eq, h0, if_false, List.length_nil, this, decide_false]
    by_cases hf : d / 8 > 0
    · simp [hf]
    · have hd : d / 8 = 0 := by omega
      have hr : d % 8 ≠ 0 := by omega
      simp [hd, hr]

theorem meets_small (b : UInt8) (bs : List UInt8) (d : Nat) (h0 : 0 < d) (h8 : d < 8) :
    meetsDifficulty (b :: bs) d = ((b &&& UInt8.ofNat (255 <<< (8 - d))) == 0) := by
  unfold meetsDifficulty
  have hd : d / 8 = 0 := by omega
  have hr : d % 8 = d := by omega
  have hne : d ≠ 0 := by omega
  simp [hd, hr, hne]

theorem meets_big (b : UInt8) (bs : List UInt8) (d : Nat) :
    meetsDifficulty (b :: bs) (d + 8) = (b == 0 && meetsDifficulty bs d) := by
  unfold meetsDifficulty
  have hd : (d + 8) / 8 = d / 8 + 1 := by omega
  have hr : (d + 8) % 8 = d % 8 := by omega
  have hne : d + 8 ≠ 0 := by omega
  simp only [hd, hr, beq_iff_eq, hne, if_false, List.length_cons, List.take_succ_cons, List.all_cons,
    List.getD_cons_succ]
  by_cases hb : b = 0
  · subst hb
    by_cases h0 : d = 0
    · subst h0; simp
    · simp only [h0, if_false]
      simp only [show (d / 8 + 1 > bs.length + 1) = (d / 8 > bs.length) by simp,
        show (d / 8 + 1 ≥ bs.length + 1) = (d / 8 ≥ bs.length) by simp]
      simp
  · have : (b == 0) = false := by simpa using hb
    simp [this]

theorem meets_eq (bs : List UInt8) (d : Nat) : meetsDifficulty bs d = decide (d ≤ lz bs) := by
  induction bs generalizing d with
  | nil => rw [meets_nil, lz_nil]
  | cons b bs ih =>
    by_cases h0 : d = 0
    · subst h0; simp [meetsDifficulty]
    · by_cases h8 : d < 8
      · rw [meets_small b bs d (by omega) h8]
        by_cases hb : b = 0
        · subst hb
          rw [lz_cons_zero]
          have : d ≤ 8 + lz bs := by omega
          simp [this]
        · rw [lz_cons_nonzero b bs hb]
          have := mask_table b.toNat b.toNat_lt d h8 (by omega)
          rw [UInt8.ofNat_toNat] at this
          exact this
      · obtain ⟨d', rfl⟩ : ∃ d', d = d' + 8 := ⟨d - 8, by omega⟩
        rw [meets_big, ih]
        by_cases hb : b = 0
        · subst hb
          rw [lz_cons_zero]
          simp only [beq_self_eq_true, Bool.true_and]
          congr 1
          apply propext
          omega
        · rw [lz_cons_nonzero b bs hb]
          have := bitLength_pos_of_ne b hb
          have hf : ¬ (d' + 8 ≤ 8 - bitLength b.toNat) := by omega
          have : (b == 0) = false := by simpa using hb
          simp [this, hf]



/-! ### fixed-width big-endian fields -/

@[simp] theorem beBytes_length (w v : Nat) : (beBytes w v).length = w := by
  induction w with
  | zero => rfl
  | succ w ih => simp [beBytes, ih]

theorem beVal_beBytes (w v : Nat) : beVal (beBytes w v) = v % 256 ^ w := by
  induction w with
  | zero => simp [beBytes, beVal, Nat.mod_one]
  | succ w ih =>
    rw [beBytes, beVal_cons, ih, beBytes_length, UInt8.toNat_ofNat', Nat.shiftRight_eq_div_pow, ← pow256]
    have h1 : (256 : Nat) ^ (w + 1) = 256 ^ w * 256 := Nat.pow_succ ..
    have h2 : (2 : Nat) ^ 8 = 256 := by decide
    rw [h1, h2, Nat.mod_mul, Nat.mul_comm (256 ^ w)]
    omega

theorem beBytes_inj (w a b : Nat) (h : beBytes w a = beBytes w b) : a % 256 ^ w = b % 256 ^ w := by
  rw [← beVal_beBytes, ← beVal_beBytes, h]

theorem be8_inj {a b : Nat} (ha : a < 2 ^ 64) (hb : b < 2 ^ 64) (h : be8 a = be8 b) : a = b := by
  have := beBytes_inj 8 a b h
  have e : (256 : Nat) ^ 8 = 2 ^ 64 := by decide
  rw [e, Nat.mod_eq_of_lt ha, Nat.mod_eq_of_lt hb] at this
  exact this

theorem be4_inj {a b : Nat} (ha : a < 2 ^ 32) (hb : b < 2 ^ 32) (h : be4 a = be4 b) : a = b := by
  have := beBytes_inj 4 a b h
  have e : (256 : Nat) ^ 4 = 2 ^ 32 := by decide
  rw [e, Nat.mod_eq_of_lt ha, Nat.mod_eq_of_lt hb] at this
  exact this

@[simp] theorem be8_length (v : Nat) : (be8 v).length = 8 := beBytes_length 8 v
@[simp] theorem be4_length (v : Nat) : (be4 v).length = 4 := beBytes_length 4 v

theorem u64OfInt_lt (i : Int) : u64OfInt i < 2 ^ 64 := by
  unfold u64OfInt; omega

theorem u64OfInt_inj {i j : Int} (hi : -9223372036854775808 ≤ i ∧ i < 9223372036854775808)
    (hj : -9223372036854775808 ≤ j ∧ j < 9223372036854775808) (h : u64OfInt i = u64OfInt j) : i = j := by
  unfold u64OfInt at h; omega

/-- a length-prefixed field can be split off unambiguously -/
theorem lp8_append_inj {x y r r' : List UInt8} (hx : x.length < 2 ^ 64) (hy : y.length < 2 ^ 64)
    (h : lp8 x ++ r = lp8 y ++ r') : x = y ∧ r = r' := by
  unfold lp8 at h
  rw [List.append_assoc, List.append_assoc] at h
  have h1 := List.append_inj h (by simp)
  have hl := be8_inj hx hy h1.1
  have h2 := List.append_inj h1.2 hl
  exact h2

/-- two fixed-width fields at the head -/
theorem be8_append_inj {a b : Nat} {r r' : List UInt8} (ha : a < 2 ^ 64) (hb : b < 2 ^ 64)
    (h : be8 a ++ r = be8 b ++ r') : a = b ∧ r = r' := by
  have h1 := List.append_inj h (by simp)
  exact ⟨be8_inj ha hb h1.1, h1.2⟩

/-! ### difficulty cap -/

theorem capTo_eq_min (d : Nat) : capTo 24 d = capped d := by
  unfold capTo capped; rw [Nat.min_def]; split <;> split <;> omega

theorem capTo_idem (c d : Nat) : capTo c (capTo c d) = capTo c d := by
  unfold capTo
  by_cases h : d > c
  · simp [h]
  · simp [h]

end EphVerif.C19L
