/-
Admission of a STORE (C28.admit): what an OK_STORE reply implies, and what the parser does with
a header block that declares more than the cap.
-/
import EphVerif.Lemmas.C28Run

namespace EphVerif.Control

theorem cmpGt_false {s : Nat} {a b : Int} (h : cmpGt s a b = false) : a ≤ b := by
  unfold cmpGt at h
  split at h
  · have : ¬ a > b := by simpa using h
    omega
  · have : ¬ a ≥ b := by simpa using h
    omega

theorem cmpGt_of_gt {s : Nat} {a b : Int} (h : a > b) : cmpGt s a b = true := by
  unfold cmpGt
  split
  · simpa using h
  · have : a ≥ b := by omega
    simpa using this

section
variable {ν : Type} (sha : Bytes → Bytes) (ops : NodeOps ν) (cfg : Config)

/-- the facts an accepted STORE has passed -/
def Admitted (req : Request) (r : Reply) : Prop :=
  req.payloadHeaderPresent = true ∧ req.payload.length ≤ cfg.cap ∧
  ∃ ttl : Int, requestTtl cfg req = some ttl ∧ cfg.minTtl ≤ ttl ∧ ttl ≤ cfg.maxTtl ∧
    r.stored = some (req.payload, ttl, (getField req.fields (ascii "PATH")).bind Pow.sanitizeFilenameHint) ∧
    (cfg.powDifficulty > 0 → ∃ v nonce, getField req.fields (ascii "STORE-POW") = some v ∧ parseU64 v = some nonce ∧
      Pow.storePowValid sha
        { chunkId := sha req.payload, payloadSize := req.payload.length,
          filenameHint := ((getField req.fields (ascii "PATH")).bind Pow.sanitizeFilenameHint).getD [] }
        nonce cfg.powDifficulty = true)

theorem storeAdmitted_ok (now : Int) (ident : Identity) (st : ServerState ν) (req : Request) (ttl : Int)
    (hok : (storeAdmitted sha ops cfg now ident st req ttl).2.code = "OK_STORE") :
    (storeAdmitted sha ops cfg now ident st req ttl).2.stored =
        some (req.payload, ttl, (getField req.fields (ascii "PATH")).bind Pow.sanitizeFilenameHint) ∧
    (cfg.powDifficulty > 0 → ∃ v nonce, getField req.fields (ascii "STORE-POW") = some v ∧ parseU64 v = some nonce ∧
      Pow.storePowValid sha
        { chunkId := sha req.payload, payloadSize := req.payload.length,
          filenameHint := ((getField req.fields (ascii "PATH")).bind Pow.sanitizeFilenameHint).getD [] }
        nonce cfg.powDifficulty = true) := by
  unfold storeAdmitted at hok ⊢
  simp only [] at hok ⊢
  by_cases hd : cfg.powDifficulty > 0
  · simp only [hd, ↓reduceIte] at hok ⊢
    cases hp : getField req.fields (ascii "STORE-POW") with
    | none => simp only [hp, err] at hok; split at hok <;> simp at hok
    | some v =>
      simp only [hp] at hok ⊢
      cases hn : parseU64 v with
      | none => simp only [hn, err] at hok; split at hok <;> simp at hok
      | some nonce =>
        simp only [hn] at hok ⊢
        split at hok
        · rename_i hv
          simp only [hv, ↓reduceIte, true_and]
          intro _
          exact ⟨v, nonce, rfl, hn, hv⟩
        · simp only [err] at hok; split at hok <;> simp at hok
  · simp only [hd, ↓reduceIte, false_imp_iff, and_true]

theorem handleStore_ok (now : Int) (addr : Bytes) (st : ServerState ν) (req : Request)
    (hok : (handleStore sha ops cfg now addr st req).2.code = "OK_STORE") :
    Admitted sha cfg req (handleStore sha ops cfg now addr st req).2 := by
  have hok' := hok
  unfold handleStore at hok'
  simp only [] at hok'
  split at hok'
  · simp [err] at hok'
  · rename_i h1
    split at hok'
    · simp [err] at hok'
    · rename_i h2
      split at hok'
      · simp [err] at hok'
      · rename_i h3
        cases ht : requestTtl cfg req with
        | none => simp [ht, err] at hok'
        | some ttl =>
          simp only [ht] at hok'
          split at hok'
          · simp [err] at hok'
          · rename_i h4
            split at hok'
            · simp [err] at hok'
            · rename_i h5
              have heq : handleStore sha ops cfg now addr st req =
                  storeAdmitted sha ops cfg now (rateIdentity cfg addr)
                    { st with storeHist := (setHist st.storeHist (rateIdentity cfg addr)
                        (allowStore now (st.storeHist (rateIdentity cfg addr))).2) } req ttl := by
                unfold handleStore
                simp [h1, h2, h3, ht, h4, h5]
              rw [heq] at hok ⊢
              have hs := storeAdmitted_ok sha ops cfg now _ _ req ttl hok
              have hr : ttlOutOfRange cfg ttl = false := by simpa using h4
              unfold ttlOutOfRange at hr
              rw [Bool.or_eq_false_iff] at hr
              exact ⟨by simpa using h2, by omega, ttl, ht, cmpGt_false hr.1, cmpGt_false hr.2, hs.1, hs.2⟩

theorem fetchDeliver_not_store (now : Int) (addr : Bytes) (st : ServerState ν) (stream : Bool) (out : Option Bytes) (data : Bytes) :
    (fetchDeliver ops cfg now addr st stream out data).2.code ≠ "OK_STORE" := by
  unfold fetchDeliver
  simp only []
  repeat' split
  all_goals simp [err]

theorem handleFetch_not_store (now : Int) (addr : Bytes) (st : ServerState ν) (req : Request) :
    (handleFetch ops cfg now addr st req).2.code ≠ "OK_STORE" := by
  unfold handleFetch
  simp only []
  repeat' split
  all_goals first
    | (simp [err]; done)
    | exact fetchDeliver_not_store ops cfg now addr _ _ _ _

/-- **an OK_STORE reply implies the admission facts** -/
theorem handleRequest_ok_store (now : Int) (addr : Bytes) (st : ServerState ν) (req : Request)
    (hok : (handleRequest sha ops cfg now addr st req).2.code = "OK_STORE") :
    Admitted sha cfg req (handleRequest sha ops cfg now addr st req).2 := by
  unfold handleRequest at hok ⊢
  simp only [] at hok ⊢
  split at hok
  · simp [err] at hok
  · rename_i c hc
    split at hok
    · rename_i h1
      exfalso
      unfold handleStop at hok
      split at hok <;> simp [err] at hok
    · rename_i h1
      simp only [h1, ↓reduceIte]
      split at hok
      · rename_i h2
        simp only [h2, ↓reduceIte]
        exact handleStore_ok sha ops cfg now addr st req hok
      · split at hok
        · exact absurd hok (handleFetch_not_store ops cfg now addr st req)
        · split at hok
          · rename_i code hro
            have := (readOnlyCode_not_pass hro).1
            simp only at hok
            rw [hok] at this
            simp [storePassCode] at this
          · simp [err] at hok

end

/-! ## the parser and the cap -/

theorem reqLine_payloadLength (cap : Nat) (s : ReqState) (line : Bytes)
    (h : ∀ n, s.payloadLength = some n → n ≤ cap) :
    ∀ n, (reqLine cap s line).state.payloadLength = some n → n ≤ cap := by
  unfold reqLine
  simp only []
  repeat' split
  all_goals
    intro n hn
    simp only [Step.state] at hn
    first
      | exact h n hn
      | (rename_i hcap; injection hn with hn; subst hn
         have := cmpGt_false (by simpa using hcap)
         omega)

/-- the payload of a parsed request never exceeds the cap -/
theorem parse_payload_le_cap {cap : Nat} {input u : Bytes} {req : Request} (h : parseRequest cap input = .ok req u) :
    req.payload.length ≤ cap := by
  unfold parseRequest at h
  have hinv := lineLoop_invariant serverMaxLine (reqLine cap) (fun s => ∀ n, s.payloadLength = some n → n ≤ cap)
    (fun s line hs => step_of_state _ _ (reqLine_payloadLength cap s line hs)) input [] 0 {} (by intro n hn; simp at hn)
  rcases hres : lineLoop serverMaxLine (reqLine cap) input [] 0 {} with ⟨st, e, rest⟩
  rw [hres] at h hinv
  simp only at h hinv
  split at h
  · simp at h
  · split at h
    · simp at h
    · split at h
      · split at h
        · simp at h
        · injection h with h1 _
          subst h1
          simp only [List.length_take]
          cases hp : st.payloadLength with
          | none => simp
          | some n =>
            have := hinv n hp
            simp only [Option.getD_some]
            omega
      · injection h with h1 _
        subst h1
        simp

theorem reqLine_stop_error (cap : Nat) (s s' : ReqState) (line : Bytes) (h : reqLine cap s line = .stop s') :
    ∃ code, s'.error = some code := by
  unfold reqLine at h
  simp only [] at h
  repeat' split at h
  all_goals first
    | (injection h with h; subst h; exact ⟨_, rfl⟩)
    | (simp at h; done)

theorem foldLines_stop_error (cap : Nat) : ∀ (ls : List Bytes) (s s' : ReqState) (rem : List Bytes),
    foldLines (reqLine cap) s ls = (s', some rem) → ∃ code, s'.error = some code
  | [], s, s', rem, h => by simp [foldLines] at h
  | l :: ls, s, s', rem, h => by
    rw [foldLines] at h
    split at h
    · exact foldLines_stop_error cap ls _ s' rem h
    · rename_i st' hb
      injection h with h1 _
      subst h1
      exact reqLine_stop_error cap s _ _ hb

/-- a PAYLOAD-LENGTH header line declaring more than the cap makes the loop body leave the loop -/
theorem reqLine_too_large {cap : Nat} (s : ReqState) {l v : Bytes} {n : Nat}
    (hh : Spec.Control.header l = some (ascii "PAYLOAD-LENGTH", v)) (hv : parseU64 v = some n) (hn : n > cap) :
    reqLine cap s (stripCR l) = .stop { s with sawAnyLines := true, error := some "ERR_CONTROL_PAYLOAD_TOO_LARGE" } := by
  rw [header_eq] at hh
  cases hs : splitColon (stripCR l) with
  | none => rw [hs] at hh; simp at hh
  | some p =>
    obtain ⟨k, v'⟩ := p
    rw [hs] at hh
    simp only [Option.map_some, Option.some.injEq, Prod.mk.injEq] at hh
    obtain ⟨hk, hv'⟩ := hh
    subst hv'
    unfold reqLine
    simp only [hs, hk, ↓reduceIte, hv]
    have : cmpGt Gen.C28.payloadCapStrict (n : Int) (cap : Int) = true := cmpGt_of_gt (by omega)
    simp [this]

/-- with such a line in a block, the fold over the block stops at it or before it: the lines after
    it are among those never looked at -/
theorem foldLines_too_large {cap : Nat} {l v : Bytes} {n : Nat}
    (hh : Spec.Control.header l = some (ascii "PAYLOAD-LENGTH", v)) (hv : parseU64 v = some n) (hn : n > cap)
    (after : List Bytes) : ∀ (before : List Bytes) (s : ReqState),
      ∃ s' pre, foldLines (reqLine cap) s (before ++ l :: after) = (s', some (pre ++ after))
  | [], s => ⟨{ s with sawAnyLines := true, error := some "ERR_CONTROL_PAYLOAD_TOO_LARGE" }, [], by
      simp [foldLines, reqLine_too_large s hh hv hn]⟩
  | b :: before, s => by
    rw [List.cons_append, foldLines]
    cases hb : reqLine cap s (stripCR b) with
    | next st' =>
      obtain ⟨s', pre, h⟩ := foldLines_too_large hh hv hn after before st'
      exact ⟨s', pre, h⟩
    | stop st' => exact ⟨st', before ++ [l], by simp⟩

end EphVerif.Control
