/-
C10: secrecy of the whole secret.  With the consumption pattern "a fresh set of t-1 draws for every secret
byte" the draws of one `split` are in one-to-one correspondence with the coefficient matrix (bytes × (t-1)),
and for any t-1 distinct non-zero indices the map coefficient matrix ↦ all share bytes is a bijection.
With the pattern "one set of draws shared by all bytes" a single share determines `secret[i] ^ secret[j]`.
-/
import EphVerif.Lemmas.C10Secrecy

namespace EphVerif.C10L
open EphVerif.Shamir EphVerif.Gen.C10

/-- (T) the source calls the random device inside the per-byte loop. -/
theorem kDrawPerByte_eq : kDrawPerByte = true := by decide

theorem ext_getD {α : Type} (d : α) {l1 l2 : List α} (hl : l1.length = l2.length)
    (h : ∀ i, i < l1.length → l1.getD i d = l2.getD i d) : l1 = l2 := by
  apply List.ext_getElem hl
  intro i h1 h2
  have := h i h1
  rwa [List.getD_eq_getElem?_getD, List.getD_eq_getElem?_getD, List.getElem?_eq_getElem h1, List.getElem?_eq_getElem h2,
    Option.getD_some, Option.getD_some] at this

theorem getD_of_lt {α : Type} (d : α) {l : List α} {i : Nat} (h : i < l.length) : l.getD i d = l[i] := by
  rw [List.getD_eq_getElem?_getD, List.getElem?_eq_getElem h, Option.getD_some]

/-! ### fresh draws per byte: draws ↔ coefficient matrix -/

/-- the draw stream in which draw number `b·k + d` is entry `d` of row `b` of `css` -/
def streamOf (k : Nat) (css : List (List Nat)) : Nat → Nat :=
  fun j => (css.getD (j / k) []).getD (j % k) 0

/-- distinct (byte, degree) pairs use distinct draws -/
theorem drawIndex_perByte_injective {t b d b' d' : Nat} (hd : d < t - 1) (hd' : d' < t - 1)
    (h : drawIndex true t b d = drawIndex true t b' d') : b = b' ∧ d = d' := by
  simp only [drawIndex, kDegreeStart_eq, if_true] at h
  have hk : 0 < t - 1 := by omega
  have e1 : (b * (t - 1) + d) / (t - 1) = b := by
    rw [Nat.mul_comm, Nat.mul_add_div hk, Nat.div_eq_of_lt hd, Nat.add_zero]
  have e2 : (b' * (t - 1) + d') / (t - 1) = b' := by
    rw [Nat.mul_comm, Nat.mul_add_div hk, Nat.div_eq_of_lt hd', Nat.add_zero]
  have hb : b = b' := by rw [← e1, ← e2, h]
  subst hb
  exact ⟨rfl, by omega⟩

/-- with the shared pattern every byte uses the same draws -/
theorem drawIndex_shared (t b b' d : Nat) : drawIndex false t b d = drawIndex false t b' d := rfl

theorem coeffsForP_true_streamOf {t : Nat} {css : List (List Nat)} {b : Nat}
    (hrow : (css.getD b []).length = t - 1) (hbytes : Bytes (css.getD b [])) :
    coeffsForP true (streamOf (t - 1) css) t b = css.getD b [] := by
  apply ext_getD 0
  · rw [coeffsForP_length, hrow]
  · intro d hd
    rw [coeffsForP_length] at hd
    have hk : 0 < t - 1 := by omega
    have e1 : (b * (t - 1) + d) / (t - 1) = b := by
      rw [Nat.mul_comm, Nat.mul_add_div hk, Nat.div_eq_of_lt hd, Nat.add_zero]
    have e2 : (b * (t - 1) + d) % (t - 1) = d := by
      rw [Nat.mul_comm, Nat.mul_add_mod, Nat.mod_eq_of_lt hd]
    rw [getD_of_lt 0 (by rw [coeffsForP_length]; exact hd)]
    simp only [coeffsForP, kDegreeStart_eq, List.getElem_map, List.getElem_range, drawIndex, if_true, streamOf, e1, e2]
    exact Nat.mod_eq_of_lt (getD_lt hbytes d)

/-- the value vectors of the shares at `xs`, read column-wise -/
theorem shares_eq_iff_columns {t : Nat} {xs secret : List Nat} (hx : Bytes xs) {rd : Nat → Nat} {pb : Bool}
    {obs : List (List Nat)} (hol : obs.length = xs.length) (hob : ∀ o ∈ obs, o.length = secret.length) :
    xs.map (fun x => (mkShareP pb rd secret t x).value) = obs ↔
      ∀ b, b < secret.length →
        xs.map (fun x => evalPoly x (secret.getD b 0) (coeffsForP pb rd t b)) = obs.map (·.getD b 0) := by
  constructor
  · intro h b hb
    rw [← h, List.map_map]
    apply List.map_congr_left
    intro x hxm
    exact (mkShareP_value_getD pb rd secret t (hx x hxm) hb).symm
  · intro h
    apply ext_getD []
    · simp [hol]
    · intro i hi
      have hi : i < xs.length := by simpa using hi
      have hio : i < obs.length := by omega
      rw [getD_of_lt [] (by simpa using hi), getD_of_lt [] hio, List.getElem_map]
      apply ext_getD 0
      · rw [mkShareP_value_length, hob _ (List.getElem_mem hio)]
      · intro b hb
        rw [mkShareP_value_length] at hb
        have lhs : (xs.map (fun x => evalPoly x (secret.getD b 0) (coeffsForP pb rd t b))).getD i 0 =
            evalPoly xs[i] (secret.getD b 0) (coeffsForP pb rd t b) := by
          rw [List.getD_eq_getElem?_getD, List.getElem?_map, List.getElem?_eq_getElem hi]; rfl
        have rhs : (obs.map (·.getD b 0)).getD i 0 = obs[i].getD b 0 := by
          rw [List.getD_eq_getElem?_getD, List.getElem?_map, List.getElem?_eq_getElem hio]; rfl
        rw [mkShareP_value_getD pb rd secret t (hx _ (List.getElem_mem hi)) hb, ← lhs, ← rhs, h b hb]

theorem secrecy_joint_core {t : Nat} {xs : List Nat} (hk : xs.length = t - 1) (hx : Bytes xs) (hnd : xs.Nodup)
    (h0 : 0 ∉ xs) {secret : List Nat} (hsec : Bytes secret) {obs : List (List Nat)} (hol : obs.length = t - 1)
    (hob : ∀ o ∈ obs, o.length = secret.length ∧ Bytes o) :
    ∃ css : List (List Nat),
      (css.length = secret.length ∧ (∀ cs ∈ css, cs.length = t - 1 ∧ Bytes cs) ∧
        xs.map (fun x => (mkShareP true (streamOf (t - 1) css) secret t x).value) = obs) ∧
      ∀ css' : List (List Nat), css'.length = secret.length → (∀ cs ∈ css', cs.length = t - 1 ∧ Bytes cs) →
        xs.map (fun x => (mkShareP true (streamOf (t - 1) css') secret t x).value) = obs → css' = css := by
  have hol' : obs.length = xs.length := hol.trans hk.symm
  have hobl : ∀ o ∈ obs, o.length = secret.length := fun o ho => (hob o ho).1
  have colb : ∀ b, Bytes (obs.map (·.getD b 0)) := by
    intro b v hv
    obtain ⟨o, ho, rfl⟩ := List.mem_map.1 hv
    exact getD_lt (hob o ho).2 b
  have key : ∀ b, ∃ cs, (cs.length = xs.length ∧ Bytes cs ∧
        xs.map (fun x => evalPoly x (secret.getD b 0) cs) = obs.map (·.getD b 0)) ∧
      ∀ cs', cs'.length = xs.length → Bytes cs' →
        xs.map (fun x => evalPoly x (secret.getD b 0) cs') = obs.map (·.getD b 0) → cs' = cs :=
    fun b => secrecy_core hx hnd h0 (getD_lt hsec b) (by simp [hol']) (colb b)
  choose f hf using key
  -- rows of an admissible matrix
  have rows : ∀ (css : List (List Nat)), css.length = secret.length → (∀ cs ∈ css, cs.length = t - 1 ∧ Bytes cs) →
      ∀ b, b < secret.length → (css.getD b []).length = t - 1 ∧ Bytes (css.getD b []) := by
    intro css hl hr b hb
    rw [getD_of_lt [] (by omega)]
    exact hr _ (List.getElem_mem _)
  let css : List (List Nat) := (List.range secret.length).map f
  have hcl : css.length = secret.length := by simp [css]
  have hcr : ∀ cs ∈ css, cs.length = t - 1 ∧ Bytes cs := by
    intro cs hcs
    obtain ⟨b, _, rfl⟩ := List.mem_map.1 hcs
    exact ⟨(hf b).1.1.trans hk, (hf b).1.2.1⟩
  have hcg : ∀ b, b < secret.length → css.getD b [] = f b := by
    intro b hb
    rw [getD_of_lt [] (by omega)]
    simp [css]
  refine ⟨css, ⟨hcl, hcr, ?_⟩, ?_⟩
  · rw [shares_eq_iff_columns hx hol' hobl]
    intro b hb
    have r := rows css hcl hcr b hb
    rw [coeffsForP_true_streamOf r.1 r.2, hcg b hb]
    exact (hf b).1.2.2
  · intro css' hl hr hv
    rw [shares_eq_iff_columns hx hol' hobl] at hv
    apply ext_getD []
    · rw [hl, hcl]
    · intro b hb
      have hb : b < secret.length := by omega
      have r := rows css' hl hr b hb
      have := hv b hb
      rw [coeffsForP_true_streamOf r.1 r.2] at this
      rw [hcg b hb]
      exact (hf b).2 _ (r.1.trans hk.symm) r.2 this

/-! ### one set of draws shared by all bytes: a single share leaks -/

theorem evalPolyLoop_affine (x : Nat) : ∀ (cs : List Nat) (p r : Nat),
    evalPolyLoop x cs p r = r ^^^ evalPolyLoop x cs p 0
  | [], _, r => by simp [evalPolyLoop]
  | c :: cs, p, r => by
    rw [evalPolyLoop, evalPolyLoop, evalPolyLoop_affine x cs _ (gfAdd r _), evalPolyLoop_affine x cs _ (gfAdd 0 _)]
    simp only [gfAdd, Nat.zero_xor, Nat.xor_assoc]

theorem evalPoly_affine (x s : Nat) (cs : List Nat) : evalPoly x s cs = s ^^^ evalPoly x 0 cs :=
  evalPolyLoop_affine x cs 1 s

theorem coeffsForP_false (rd : Nat → Nat) (t b b' : Nat) : coeffsForP false rd t b = coeffsForP false rd t b' := rfl

theorem shared_leak (rd : Nat → Nat) (secret : List Nat) (t : Nat) {x : Nat} (hx : x < 256) {i j : Nat}
    (hi : i < secret.length) (hj : j < secret.length) :
    (mkShareP false rd secret t x).value.getD i 0 ^^^ (mkShareP false rd secret t x).value.getD j 0 =
      secret.getD i 0 ^^^ secret.getD j 0 := by
  rw [mkShareP_value_getD false rd secret t hx hi, mkShareP_value_getD false rd secret t hx hj,
    coeffsForP_false rd t j i, evalPoly_affine x (secret.getD i 0), evalPoly_affine x (secret.getD j 0)]
  generalize evalPoly x 0 (coeffsForP false rd t i) = e
  generalize secret.getD i 0 = a
  generalize secret.getD j 0 = b
  calc a ^^^ e ^^^ (b ^^^ e) = (a ^^^ b) ^^^ (e ^^^ e) := by ac_rfl
    _ = a ^^^ b := by rw [Nat.xor_self, Nat.xor_zero]

end EphVerif.C10L
