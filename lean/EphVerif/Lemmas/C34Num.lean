import EphVerif.Generated.C34
import EphVerif.Spec.Advertise

/-! Helper lemmas for C34: the CIDR blocks of the specification in terms of octets / 16-bit groups. -/
namespace EphVerif.C34L
open EphVerif EphVerif.Gen.C34 EphVerif.AdvSpec

/-- octet form of the IPv4 blocks of the specification -/
theorem v4_blocks (a b c d : Nat) (ha : a < 256) (hb : b < 256) (hc : c < 256) (hd : d < 256)
    (h : nonRoutable4 (ip4 a b c d)) :
    a = 0 ∨ a = 10 ∨ (a = 100 ∧ 64 ≤ b ∧ b ≤ 127) ∨ a = 127 ∨ (a = 169 ∧ b = 254) ∨ (a = 172 ∧ 16 ≤ b ∧ b ≤ 31)
    ∨ (a = 192 ∧ b = 0 ∧ c = 2) ∨ (a = 192 ∧ b = 168) ∨ (a = 198 ∧ 18 ≤ b ∧ b ≤ 19) ∨ (a = 198 ∧ b = 51 ∧ c = 100)
    ∨ (a = 203 ∧ b = 0 ∧ c = 113) ∨ 224 ≤ a := by
  unfold nonRoutable4 inBlock ip4 at h
  simp only [Nat.reduceSub, Nat.reducePow, Nat.reduceMul, Nat.reduceAdd, Nat.reduceDiv] at h
  rcases h with h|h|h|h|h|h|h|h|h|h|h|h
  · exact Or.inl (by omega)
  · exact Or.inr (Or.inl (by omega))
  · exact Or.inr (Or.inr (Or.inl (by omega)))
  · exact Or.inr (Or.inr (Or.inr (Or.inl (by omega))))
  · exact Or.inr (Or.inr (Or.inr (Or.inr (Or.inl (by omega)))))
  · exact Or.inr (Or.inr (Or.inr (Or.inr (Or.inr (Or.inl (by omega))))))
  · exact Or.inr (Or.inr (Or.inr (Or.inr (Or.inr (Or.inr (Or.inl (by omega)))))))
  · exact Or.inr (Or.inr (Or.inr (Or.inr (Or.inr (Or.inr (Or.inr (Or.inl (by omega))))))))
  · exact Or.inr (Or.inr (Or.inr (Or.inr (Or.inr (Or.inr (Or.inr (Or.inr (Or.inl (by omega)))))))))
  · exact Or.inr (Or.inr (Or.inr (Or.inr (Or.inr (Or.inr (Or.inr (Or.inr (Or.inr (Or.inl (by omega))))))))))
  · exact Or.inr (Or.inr (Or.inr (Or.inr (Or.inr (Or.inr (Or.inr (Or.inr (Or.inr (Or.inr (Or.inl (by omega)))))))))))
  · exact Or.inr (Or.inr (Or.inr (Or.inr (Or.inr (Or.inr (Or.inr (Or.inr (Or.inr (Or.inr (Or.inr (by omega)))))))))))

theorem v4_ranges (a b c d : Nat) (ha : a < 256) (hb : b < 256) (hc : c < 256) (hd : d < 256)
    (h : nonRoutable4 (ip4 a b c d)) : isPrivateOrReservedIpv4 a b c d = true := by
  unfold isPrivateOrReservedIpv4
  rcases v4_blocks a b c d ha hb hc hd h with h|h|⟨h,h1,h2⟩|h|⟨h,h1⟩|⟨h,h1,h2⟩|⟨h,h1,h2⟩|⟨h,h1⟩|⟨h,h1,h2⟩|⟨h,h1,h2⟩|⟨h,h1,h2⟩|h
  all_goals first | (subst h; simp; done) | (subst h; simp; omega) | (simp only [decide_eq_true_eq]; omega)

/-- group form of the IPv6 blocks of the specification -/
theorem v6_blocks (g0 g1 g2 g3 g4 g5 g6 g7 : Nat)
    (h0 : g0 < 65536) (h1 : g1 < 65536) (h2 : g2 < 65536) (h3 : g3 < 65536)
    (h4 : g4 < 65536) (h5 : g5 < 65536) (h6 : g6 < 65536) (h7 : g7 < 65536)
    (h : nonRoutable6 (ip6 g0 g1 g2 g3 g4 g5 g6 g7)) :
    (g0 = 0 ∧ g1 = 0 ∧ g2 = 0 ∧ g3 = 0 ∧ g4 = 0 ∧ g5 = 0 ∧ g6 = 0 ∧ g7 = 0)
    ∨ (g0 = 0 ∧ g1 = 0 ∧ g2 = 0 ∧ g3 = 0 ∧ g4 = 0 ∧ g5 = 0 ∧ g6 = 0 ∧ g7 = 1)
    ∨ (0xfc00 ≤ g0 ∧ g0 ≤ 0xfdff)
    ∨ (0xfe80 ≤ g0 ∧ g0 ≤ 0xfebf)
    ∨ 0xff00 ≤ g0
    ∨ (g0 = 0x2001 ∧ g1 = 0xdb8)
    ∨ (g0 = 0 ∧ g1 = 0 ∧ g2 = 0 ∧ g3 = 0 ∧ g4 = 0 ∧ g5 = 0xffff ∧
        nonRoutable4 (ip4 (g6 / 256) (g6 % 256) (g7 / 256) (g7 % 256))) := by
  unfold nonRoutable6 inBlock at h
  unfold ip6 at h
  simp only [Nat.reduceSub, Nat.reducePow, Nat.reduceMul, Nat.reduceAdd, Nat.reduceDiv, Nat.zero_mul, Nat.zero_add, Nat.add_zero] at h
  rcases h with h|h|h|h|h|h|⟨h, hv4⟩
  · exact Or.inl (by omega)
  · exact Or.inr (Or.inl (by omega))
  · exact Or.inr (Or.inr (Or.inl (by omega)))
  · exact Or.inr (Or.inr (Or.inr (Or.inl (by omega))))
  · exact Or.inr (Or.inr (Or.inr (Or.inr (Or.inl (by omega)))))
  · exact Or.inr (Or.inr (Or.inr (Or.inr (Or.inr (Or.inl (by omega))))))
  · refine Or.inr (Or.inr (Or.inr (Or.inr (Or.inr (Or.inr ?_)))))
    have e : (g0 * 5192296858534827628530496329220096 + g1 * 79228162514264337593543950336 + g2 * 1208925819614629174706176 +
        g3 * 18446744073709551616 + g4 * 281474976710656 + g5 * 4294967296 + g6 * 65536 + g7) % 4294967296
        = ip4 (g6 / 256) (g6 % 256) (g7 / 256) (g7 % 256) := by
      unfold ip4; omega
    rw [e] at hv4
    exact ⟨by omega, by omega, by omega, by omega, by omega, by omega, hv4⟩

end EphVerif.C34L
