/-
SystemControl, node side: the abstract `NodeOps` of the control-plane model instantiated with
C01's chunk store (for LIST) and with C11's store/fetch pipeline (for FETCH), and the client side
of `eph fetch` (C30's walk over endpoints, C31's output name).
-/
import EphVerif.Lemmas.SystemControlWire
import EphVerif.Proofs.C01
import EphVerif.Proofs.C11
import EphVerif.Proofs.C30
import EphVerif.Proofs.C31

namespace EphVerif.System.Control
open EphVerif EphVerif.Control

/-! ## LIST over C01's chunk store -/

section List
open EphVerif.ChunkStore (World NodeCfg FS nodeList step runModel fresh)

/-- C01 names chunks by strings (the hex id) -/
def idBytes (id : String) : Control.Bytes := id.toList.map fun ch => UInt8.ofNat ch.toNat

/-- one row of `Node::stored_chunks()` as `handle_list` formats it at instant `now`
    (`ttl_seconds_remaining`: whole seconds, 0 when the deadline has passed) -/
def entryOf (now : Int) (x : String × Int × Bool × Nat) : ChunkEntry :=
  { idHex := idBytes x.1, size := x.2.2.2, encrypted := x.2.2.1, ttl := ((x.2.1 - now) / 1000000000).toNat }

/-- the snapshot the daemon's LIST handler takes of C01's store -/
def listSnapshot (w : World) : List ChunkEntry := (nodeList w.sys.recs w.now).map (entryOf w.now)

/-- the daemon's node as C01 models it: `store_chunk` is C01's `nstore` (the id and the sealed bytes come from
    the pipeline, here arbitrary functions of the payload) -/
def chunkStoreOps (nc : NodeCfg) (idOf : Control.Bytes → String) (sealOf : Control.Bytes → StoreSpec.Bytes × StoreSpec.Bytes) : NodeOps World :=
  { decodeManifest := fun _ => none, ingest := fun _ _ => none, fetch := fun _ _ => none,
    store := fun w payload ttl _ =>
      (step nc w (.nstore (idOf payload) (payload.map UInt8.toNat) (sealOf payload).1 (sealOf payload).2 ttl)).1,
    write := fun _ _ _ => none, stopTransport := fun w => w }

/-- an admitted STORE extends C01's history by one `nstore` -/
theorem store_extends_history (nc : NodeCfg) (idOf : Control.Bytes → String) (sealOf : Control.Bytes → StoreSpec.Bytes × StoreSpec.Bytes)
    (t0 : Int) (fs : FS) (pre : List StoreSpec.Op) (payload : Control.Bytes) (ttl : Int) (hint : Option Control.Bytes) :
    (chunkStoreOps nc idOf sealOf).store (runModel nc (fresh t0 fs) pre) payload ttl hint =
      runModel nc (fresh t0 fs)
        (pre ++ [.nstore (idOf payload) (payload.map UInt8.toNat) (sealOf payload).1 (sealOf payload).2 ttl]) := by
  simp [chunkStoreOps, runModel, List.foldl_append]

end List

/-! ## FETCH over C11's pipeline -/

section Fetch
open EphVerif.StorePipeline (NodeState fetchChunk storeChunk)

/-- the random draws of one `store_chunk` -/
structure Draws where
  key : Control.Bytes
  nonce : Control.Bytes
  rk : Control.Bytes
  rd : Nat → Nat

/-- the daemon's node as C11 models it.  `ingest` (registration of a manifest) and `decode` (the URI
    codec, C17) stay parameters. -/
def pipelineOps (pcfg : StorePipeline.Config) (wall : Int) (draws : Control.Bytes → Draws) (rkFetch : Control.Bytes)
    (decode : Control.Bytes → Option Control.Bytes) (ingest : NodeState → Control.Bytes → Option NodeState) : NodeOps NodeState :=
  { decodeManifest := decode,
    ingest := ingest,
    fetch := fun st id => match fetchChunk st id rkFetch with
      | .value o => o
      | _ => none,
    store := fun st payload ttl _ =>
      match storeChunk pcfg st wall (Spec.sha256 payload) payload ttl (draws payload).key (draws payload).nonce (draws payload).rk
          (draws payload).rd with
      | .value r => r.node
      | _ => st,
    write := fun st _ _ => some st,
    stopTransport := fun st => st }

/-- what `eph fetch` sends to the local daemon, by its lookups -/
structure IsCliFetch (token : Option Control.Bytes) (uri : Control.Bytes) (req : Request) : Prop where
  command : getField req.fields (ascii "COMMAND") = some (ascii "FETCH")
  token : getField req.fields (ascii "TOKEN") = token
  manifest : getField req.fields (ascii "MANIFEST") = some uri
  stream : getField req.fields (ascii "STREAM") = some (ascii "client")

/-- `handle_fetch` on the CLI's request when the chunk is at hand -/
theorem cli_fetch_streams {ν : Type} (sha : Control.Bytes → Control.Bytes) (ops : NodeOps ν) (cfg : Config) (now : Int) (addr : Control.Bytes)
    (st : ServerState ν) (req : Request) (uri id payload : Control.Bytes) (node' : ν)
    (hr : IsCliFetch cfg.token uri req)
    (hdec : ops.decodeManifest uri = some id)
    (hing : ops.ingest st.node uri = some node')
    (hfetch : ops.fetch node' id = some payload)
    (hrate : (allowFetch now (st.fetchHist (rateIdentity cfg addr))).1 = true)
    (hcap : payload.length ≤ cfg.cap) :
    handleRequest sha ops cfg now addr st req =
      ({ st with node := node',
                 fetchHist := setHist st.fetchHist (rateIdentity cfg addr) (allowFetch now (st.fetchHist (rateIdentity cfg addr))).2 },
       { success := true, code := "OK_FETCH", streamed := some payload }) := by
  have hgate : checkToken cfg req.fields = .ok := checkToken_passes cfg req.fields hr.token
  have n1 : ascii "FETCH" ≠ ascii "STOP" := by decide
  have n2 : ascii "FETCH" ≠ ascii "STORE" := by decide
  have hup : toUpper (ascii "FETCH") = ascii "FETCH" := by decide
  have hstream : streamToClient req.fields = true := by
    unfold streamToClient
    rw [hr.stream]
    decide
  have hcap' : ¬ payload.length > cfg.cap := by omega
  unfold handleRequest
  simp only [hr.command, hup, n1, n2, ↓reduceIte]
  unfold handleFetch
  simp only [hgate, ne_eq, not_true_eq_false, ↓reduceIte, hr.manifest, hdec, hstream, Bool.not_true, Bool.false_and,
    Bool.false_eq_true, hing, hfetch]
  unfold fetchDeliver
  simp only [↓reduceIte, hrate, Bool.not_true, Bool.false_eq_true, hcap']

/-- what `handle_fetch` hands to `send_response` when streaming -/
def fetchResponse (payload : Control.Bytes) : Response :=
  { success := true,
    fields := [(ascii "CODE", ascii "OK_FETCH"), (ascii "SIZE", toDec payload.length), (ascii "STREAM", ascii "CLIENT")],
    hasPayload := true, payload := payload }

/-- the local daemon as `eph fetch` sees it (C30's `Resp`): STATUS:OK with a payload, or a failure -/
def respOf (r : ClientResponse) : CliFetch.Resp :=
  if r.success then (if r.hasPayload then .payload r.payload else .okNoPayload) else .fail

/-- **the streamed chunk reaches `eph fetch` byte for byte** (C29.roundtrip with a payload) -/
theorem fetch_response_intact (limit : Nat) (payload : Control.Bytes) (emitted : Fields)
    (hlim : payload.length ≤ limit) (h64 : payload.length < 18446744073709551616)
    (hperm : emitted.Perm (fetchResponse payload).wireFields) :
    respOf (parseResponse limit (serialise true emitted payload)) = .payload payload := by
  have hnd : ((fetchResponse payload).fields.map (·.1)).Nodup := by
    show ([ascii "CODE", ascii "SIZE", ascii "STREAM"] : List Control.Bytes).Nodup
    decide
  have hk1 : KeyOk (ascii "CODE") := C29.keyOk_of_class (by decide) (by decide) (by decide)
  have hk2 : KeyOk (ascii "SIZE") := C29.keyOk_of_class (by decide) (by decide) (by decide)
  have hk3 : KeyOk (ascii "STREAM") := C29.keyOk_of_class (by decide) (by decide) (by decide)
  have hsize : LinesOk clientMaxLine (ascii "SIZE") (toDec payload.length) := by
    apply linesOk_clean (ascii "SIZE") (toDec payload.length) (by decide)
      (fun c hc => by have := toDec_clean payload.length c hc; exact ⟨this.1, this.2.1, this.2.2.1⟩)
    have := toDec_len20 h64
    have hM : clientMaxLine = 16384 := by decide
    have h4 : (ascii "SIZE").length = 4 := by decide
    omega
  have he : C29.Emittable limit (fetchResponse payload) := by
    refine ⟨?_, ?_, hnd, hlim, h64, by simp [fetchResponse]⟩
    · intro e he
      simp only [fetchResponse, List.mem_cons, List.mem_nil_iff, or_false] at he
      rcases he with rfl | rfl | rfl <;> assumption
    · intro e he
      simp only [fetchResponse, List.mem_cons, List.mem_nil_iff, or_false] at he
      rcases he with rfl | rfl | rfl
      · exact linesOk_clean _ _ (by decide) (by decide) (by decide)
      · exact hsize
      · exact linesOk_clean _ _ (by decide) (by decide) (by decide)
  have hr := C29.roundtrip limit (fetchResponse payload) emitted he hperm
  have hs : (fetchResponse payload).success = true := rfl
  have hp : (fetchResponse payload).payload = payload := rfl
  rw [hs, hp] at hr
  rw [hr]
  rfl

end Fetch

end EphVerif.System.Control
