import EphVerif.Lemmas.C07Bridge

/-!
C07, clause `retained`: `upsert_bucket` costs no other unexpired contact its place, except the
front entry of a full bucket when a *new* id is inserted; a refresh evicts nobody.
-/
namespace EphVerif.C07L
open EphVerif.Routing EphVerif.C07Spec

/-- one bucket: an unexpired entry with another id survives `upsert_bucket`, unless the id is new
    to the (pruned) bucket, the bucket is full and the entry is its front -/
theorem upsertList_retains (now : Int) (c : Contact) (b : List Contact) {x : Contact}
    (hx : x ∈ b) (hl : live now x = true) (hne : x.id ≠ c.id) :
    x ∈ upsertList now c b ∨
      ((b.filter (live now)).find? (fun e => e.id == c.id) = none ∧
        kBucketSize ≤ (b.filter (live now)).length ∧ (b.filter (live now)).head? = some x) := by
  have hxf : x ∈ b.filter (live now) := List.mem_filter.2 ⟨hx, hl⟩
  unfold upsertList
  simp only
  split
  · rename_i e he
    left
    rw [List.mem_append]; left
    exact (List.mem_eraseP_of_neg (by simpa using hne)).2 hxf
  · rename_i hn
    split
    · rename_i hfull
      cases hb : b.filter (live now) with
      | nil => rw [hb] at hxf; cases hxf
      | cons y ys =>
        rw [hb] at hxf
        rcases List.mem_cons.1 hxf with rfl | hys
        · right
          exact ⟨by rw [← hb]; exact hn, by rw [← hb]; exact hfull, rfl⟩
        · left
          rw [List.mem_append]; left
          simpa using hys
    · left
      rw [List.mem_append]; left; exact hxf

theorem unexpiredAt_abs (now : Int) (c : Contact) : unexpiredAt now (abs c) = live now c := by
  simp only [unexpiredAt, abs, live, expired]
  by_cases h : now < c.exp
  · have : ¬ (now ≥ c.exp) := by omega
    simp [h, this]
  · have : now ≥ c.exp := by omega
    simp [h, this]

theorem filter_map_abs (now : Int) (b : List Contact) :
    (b.map abs).filter (unexpiredAt now) = (b.filter (live now)).map abs := by
  rw [List.filter_map]
  congr 1
  apply List.filter_congr
  intro x _
  exact unexpiredAt_abs now x

/-- the table-level statement, in the specification's vocabulary -/
theorem retained_upsert {t : Table} (h : Inv t) (w : WfT t) (hk : kIdBits = 256) (hb : kBucketSize = 16)
    (now : Int) (c : Contact) (hc : WfId c.id) :
    Retained (toNat t.self) (dumpOf t) (dumpOf (upsertBucket t now c)) now (toNat c.id) := by
  intro bk hbk e he hlt hne
  simp only [dumpOf, List.mem_map, List.mem_range] at hbk
  obtain ⟨i, hi, rfl⟩ := hbk
  simp only [List.mem_map] at he
  obtain ⟨x, hx, rfl⟩ := he
  have hxl : live now x = true := (live_iff now x).2 hlt
  have hxid : x.id ≠ c.id := fun heq => hne (by simp [abs, heq])
  have h' := h.upsertBucket now c
  -- membership in the dump afterwards, given membership in some bucket afterwards
  have inAfter : ∀ j, x ∈ (upsertBucket t now c).buckets j → abs x ∈ entries (dumpOf (upsertBucket t now c)) := by
    intro j hj
    rw [entries_dumpOf, List.mem_map]
    exact ⟨x, (mem_allContacts h').2 ⟨j, hj⟩, rfl⟩
  cases hidx : bucketIndexFor t.self c.id with
  | none =>
    left
    apply inAfter i
    unfold Routing.upsertBucket; rw [hidx]; exact hx
  | some j =>
    by_cases hij : i = j
    · subst hij
      have hub : (upsertBucket t now c).buckets i = upsertList now c (t.buckets i) := by
        unfold Routing.upsertBucket; rw [hidx]; simp
      rcases upsertList_retains now c (t.buckets i) hx hxl hxid with hin | ⟨hnone, hfull, hhead⟩
      · left; apply inAfter i; rw [hub]; exact hin
      · right
        have hcs : c.id ≠ t.self := by
          intro heq; rw [heq, bucketIndexFor_self] at hidx; cases hidx
        refine ⟨?_, ?_, ?_, ?_, ?_⟩
        · -- the id is new: no unexpired held entry carries it
          intro y hy
          rw [entries_dumpOf, List.mem_filter, List.mem_map] at hy
          obtain ⟨⟨z, hz, rfl⟩, hzl⟩ := hy
          rw [unexpiredAt_abs] at hzl
          obtain ⟨k, hzk⟩ := (mem_allContacts h).1 hz
          intro heq
          have hzid : z.id = c.id := (w.held k z hzk).inj hc heq
          have hk' : k = i := by
            have hp := (h k).place z hzk
            rw [hzid, hidx] at hp; cases hp; rfl
          subst hk'
          rw [List.find?_eq_none] at hnone
          have := hnone z (List.mem_filter.2 ⟨hzk, hzl⟩)
          simp [hzid] at this
        · exact fun heq => hcs (hc.inj w.own heq)
        · have := bucketIndexFor_wf w.own hc hk
          rw [hidx, if_neg (fun he => hcs he.symm)] at this
          simp only [bucketOf]
          cases this; rfl
        · rw [filter_map_abs, List.length_map, ← hb]; exact hfull
        · rw [filter_map_abs, List.head?_map, hhead]; rfl
    · left
      apply inAfter i
      unfold Routing.upsertBucket; rw [hidx]; simp [hij]; exact hx

end EphVerif.C07L
