/-
Helper lemmas for C23: list bookkeeping of `active_uploads_`, and the scheduler invariant
(`Inv`) preserved by every operation of `Model/Uploads.lean`.
-/
import EphVerif.Model.Uploads
import EphVerif.Spec.Uploads
namespace EphVerif.Uploads

theorem isKey_iff (p c : String) (a : Act) : isKey p c a = true ↔ a.peer = p ∧ a.chunk = c := by
  simp [isKey]

theorem countPeer_nil (q : String) : countPeer q [] = 0 := rfl
theorem countPeer_cons (q : String) (a : Act) (l : List Act) :
    countPeer q (a :: l) = (if a.peer = q then 1 else 0) + countPeer q l := by
  simp only [countPeer, List.filter_cons]
  by_cases h : a.peer = q <;> simp [h] <;> omega

theorem matchCount_cons (p c : String) (a : Act) (l : List Act) :
    matchCount p c (a :: l) = (if a.peer = p ∧ a.chunk = c then 1 else 0) + matchCount p c l := by
  simp only [matchCount, List.filter_cons]
  by_cases h : a.peer = p ∧ a.chunk = c
  · have : isKey p c a = true := (isKey_iff p c a).2 h
    simp [this, h]; omega
  · have : isKey p c a = false := by
      cases hk : isKey p c a with
      | false => rfl
      | true => exact absurd ((isKey_iff p c a).1 hk) h
    simp [this, h]

theorem eraseAct_cons (p c : String) (a : Act) (l : List Act) :
    eraseAct (a :: l) p c = if a.peer = p ∧ a.chunk = c then eraseAct l p c else a :: eraseAct l p c := by
  simp only [eraseAct, List.filter_cons]
  by_cases h : a.peer = p ∧ a.chunk = c
  · have : isKey p c a = true := (isKey_iff p c a).2 h
    simp [this, h]
  · have : isKey p c a = false := by
      cases hk : isKey p c a with
      | false => rfl
      | true => exact absurd ((isKey_iff p c a).1 hk) h
    simp [this, h]

theorem countPeer_erase (q p c : String) (l : List Act) :
    countPeer q (eraseAct l p c) + (if q = p then matchCount p c l else 0) = countPeer q l := by
  induction l with
  | nil => simp [eraseAct, countPeer, matchCount]
  | cons a l ih =>
    rw [eraseAct_cons, matchCount_cons, countPeer_cons]
    by_cases h1 : a.peer = p <;> by_cases h2 : a.chunk = c <;> by_cases hq : q = p <;>
      by_cases h3 : a.peer = q <;> simp_all [countPeer_cons] <;> omega

theorem matchCount_erase_same (p c : String) (l : List Act) : matchCount p c (eraseAct l p c) = 0 := by
  induction l with
  | nil => rfl
  | cons a l ih =>
    rw [eraseAct_cons]
    by_cases h : a.peer = p ∧ a.chunk = c
    · simp [h, ih]
    · simp only [h, if_false, matchCount_cons]; omega

theorem matchCount_erase_le (p c p' c' : String) (l : List Act) :
    matchCount p' c' (eraseAct l p c) ≤ matchCount p' c' l := by
  induction l with
  | nil => simp [eraseAct]
  | cons a l ih =>
    rw [eraseAct_cons]
    by_cases h : a.peer = p ∧ a.chunk = c
    · simp only [h, and_self, if_true, matchCount_cons]; omega
    · simp only [h, if_false, matchCount_cons]; omega

theorem length_erase (p c : String) (l : List Act) :
    (eraseAct l p c).length + matchCount p c l = l.length := by
  induction l with
  | nil => rfl
  | cons a l ih =>
    rw [eraseAct_cons, matchCount_cons]
    by_cases h : a.peer = p ∧ a.chunk = c
    · simp only [h, and_self, if_true, List.length_cons]; omega
    · simp only [h, if_false, List.length_cons]; omega

theorem hasAct_iff (l : List Act) (p c : String) : hasAct l p c = true ↔ 0 < matchCount p c l := by
  induction l with
  | nil => simp [hasAct, matchCount]
  | cons a l ih =>
    rw [matchCount_cons]
    simp only [hasAct, List.any_cons, Bool.or_eq_true] at ih ⊢
    rw [ih, isKey_iff]
    by_cases h : a.peer = p ∧ a.chunk = c <;> simp [h] <;> omega

theorem countPeer_append (q : String) (l m : List Act) : countPeer q (l ++ m) = countPeer q l + countPeer q m := by
  simp [countPeer, List.filter_append]
theorem matchCount_append (p c : String) (l m : List Act) : matchCount p c (l ++ m) = matchCount p c l + matchCount p c m := by
  simp [matchCount, List.filter_append]


theorem countPeer_single (q p c : String) (t : Int) : countPeer q [⟨p, c, t⟩] = if p = q then 1 else 0 := by
  rw [countPeer_cons]; simp [countPeer]
theorem matchCount_single (p' c' p c : String) (t : Int) :
    matchCount p' c' [⟨p, c, t⟩] = if p = p' ∧ c = c' then 1 else 0 := by
  rw [matchCount_cons]; simp [matchCount]

/-- at most one record per `(peer, chunk)`: `active_uploads_` is a map -/
def Uniq (l : List Act) : Prop := ∀ p c, matchCount p c l ≤ 1

/-- the scheduler invariant over `active_uploads_` / `active_uploads_per_peer_` -/
structure InvAP (cfg : Cfg) (active : List Act) (perPeer : String → Nat) : Prop where
  uniq : Uniq active
  count : ∀ p, perPeer p = countPeer p active
  glob : 0 < cfg.maxParallel → active.length ≤ cfg.maxParallel
  peer : 0 < cfg.maxPerPeer → ∀ p, perPeer p ≤ cfg.maxPerPeer

def Inv (cfg : Cfg) (s : State) : Prop := InvAP cfg s.active s.perPeer

theorem inv_init (cfg : Cfg) (t0 : Int) : Inv cfg (State.init t0) :=
  ⟨fun _ _ => by simp [State.init, matchCount], fun _ => by simp [State.init, countPeer],
   fun _ => by simp [State.init], fun _ _ => by simp [State.init]⟩

theorem inv_noteEnd {cfg : Cfg} {s : State} (h : Inv cfg s) (p c : String) : Inv cfg (noteEnd s p c) := by
  unfold noteEnd
  by_cases hk : hasAct s.active p c = true
  · simp only [hk, if_true]
    have h1 : matchCount p c s.active = 1 := by
      have := (hasAct_iff _ _ _).1 hk; have := h.uniq p c; omega
    refine ⟨?_, ?_, ?_, ?_⟩
    · intro p' c'; exact Nat.le_trans (matchCount_erase_le p c p' c' s.active) (h.uniq p' c')
    · intro q
      have e := countPeer_erase q p c s.active
      have hc := h.count q
      show drop s.perPeer p q = countPeer q (eraseAct s.active p c)
      unfold drop
      by_cases hq : q = p
      · simp only [hq, if_true] at e ⊢; rw [hq] at hc; omega
      · simp only [hq, if_false] at e ⊢; omega
    · intro hG
      have := length_erase p c s.active; have := h.glob hG
      show (eraseAct s.active p c).length ≤ _
      omega
    · intro hP q
      have := h.peer hP q
      show drop s.perPeer p q ≤ _
      unfold drop; split <;> omega
  · simp only [hk]; exact h

theorem inv_noteStart {cfg : Cfg} {s : State} (h : Inv cfg s) (p c : String) (now : Int)
    (hd : canDispatch cfg s p = true) : Inv cfg (noteStart s p c now) := by
  unfold noteStart
  simp only [canDispatch, canAccept, Bool.and_eq_true, Bool.or_eq_true, beq_iff_eq, decide_eq_true_eq] at hd
  obtain ⟨hG, hP⟩ := hd
  have hu := h.uniq p c
  refine ⟨?_, ?_, ?_, ?_⟩
  · intro p' c'
    show matchCount p' c' (eraseAct s.active p c ++ [⟨p, c, now⟩]) ≤ 1
    rw [matchCount_append, matchCount_single]
    by_cases e : p = p' ∧ c = c'
    · obtain ⟨e1, e2⟩ := e; subst e1; subst e2
      simp [matchCount_erase_same]
    · simp only [e, if_false]
      have := matchCount_erase_le p c p' c' s.active; have := h.uniq p' c'; omega
  · intro q
    show (if (!hasAct s.active p c) = true then bump s.perPeer p else s.perPeer) q
          = countPeer q (eraseAct s.active p c ++ [⟨p, c, now⟩])
    rw [countPeer_append, countPeer_single]
    have e := countPeer_erase q p c s.active
    have hc := h.count q
    by_cases hk : hasAct s.active p c = true
    · have h1 : matchCount p c s.active = 1 := by
        have := (hasAct_iff _ _ _).1 hk; omega
      simp only [hk, Bool.not_true, Bool.false_eq_true, if_false]
      by_cases hq : q = p
      · subst hq; simp only [if_true] at e ⊢; omega
      · have : ¬ p = q := fun e => hq e.symm
        simp only [hq, this, if_false] at e ⊢; omega
    · have h0 : matchCount p c s.active = 0 := by
        have hi := hasAct_iff s.active p c
        by_cases z : 0 < matchCount p c s.active
        · exact absurd (hi.2 z) hk
        · omega
      have hk' : hasAct s.active p c = false := by simpa using hk
      simp only [hk', Bool.not_false, if_true, bump]
      by_cases hq : q = p
      · subst hq; simp at e ⊢; omega
      · have : ¬ p = q := fun e => hq e.symm
        simp only [hq, this, if_false] at e ⊢; omega
  · intro hpos
    show (eraseAct s.active p c ++ [(⟨p, c, now⟩ : Act)]).length ≤ _
    have := length_erase p c s.active
    simp only [List.length_append, List.length_cons, List.length_nil]
    rcases hG with hG | hG <;> omega
  · intro hpos q
    have := h.peer hpos q
    show (if (!hasAct s.active p c) = true then bump s.perPeer p else s.perPeer) q ≤ _
    split
    · unfold bump; split
      · rename_i hq; subst hq; rcases hP with hP | hP <;> omega
      · exact this
    · exact this

theorem inv_endAll {cfg : Cfg} (keys : List (String × String)) :
    ∀ {s : State}, Inv cfg s → Inv cfg (endAll s keys) := by
  induction keys with
  | nil => intro s h; exact h
  | cons k rest ih => intro s h; obtain ⟨p, c⟩ := k; exact ih (inv_noteEnd h p c)

theorem inv_prune {cfg : Cfg} {s : State} (h : Inv cfg s) (now : Int) : Inv cfg (prune cfg now s) := by
  unfold prune; split
  · exact h
  · exact inv_endAll _ h

theorem inv_dispatch {cfg : Cfg} {s : State} (h : Inv cfg s) (env : Env) (now : Int) (r : Req) (old : Bool)
    (hold : old = false) (hd : canDispatch cfg s r.peer = true) : Inv cfg (dispatch env now s r old).1 := by
  subst hold
  unfold dispatch
  split
  · exact h
  · split
    · exact h
    · split
      · exact h
      · exact inv_noteStart h _ _ _ hd

theorem inv_loop {cfg : Cfg} (env : Env) (now : Int) (n : Nat) :
    ∀ {s : State} (fr : List Frame), Inv cfg s → Inv cfg (loop cfg env now false n s fr).1 := by
  induction n with
  | zero => intro s fr h; exact h
  | succ n ih =>
    intro s fr h
    unfold loop
    split
    · exact h
    · split
      · exact h
      · rename_i r rest hq
        dsimp only
        split
        · exact ih _ h
        · rename_i hcd
          have hcd' : canDispatch cfg { s with queue := rest } r.peer = true := by simpa using hcd
          exact ih _ (inv_dispatch (s := { s with queue := rest }) h env now r false rfl hcd')

theorem inv_rotate {cfg : Cfg} {s : State} (h : Inv cfg s) (now : Int) : Inv cfg (rotate cfg now s) := by
  unfold rotate; split
  · split <;> exact h
  · exact h

theorem inv_process {cfg : Cfg} {s : State} (h : Inv cfg s) (env : Env) (now : Int) :
    Inv cfg (process cfg env now s).1 := by
  unfold process
  simp only
  split
  · exact inv_prune h now
  · exact inv_loop env now _ _ (inv_rotate (inv_prune h now) now)

theorem inv_step {cfg : Cfg} {s : State} (h : Inv cfg s) (e : Step) : Inv cfg (step cfg s e).1 := by
  unfold step
  cases e.op with
  | request p c =>
    simp only [handleRequest]
    split
    · exact h
    · split
      · exact h
      · exact inv_process (s := { s with queue := s.queue ++ [⟨p, c⟩] }) h _ _
  | ack p c => exact inv_process (inv_noteEnd h p c) _ _
  | tick => exact inv_process h _ _

theorem inv_run {cfg : Cfg} (hist : List Step) : ∀ {s : State}, Inv cfg s → Inv cfg (run cfg s hist) := by
  induction hist with
  | nil => intro s h; exact h
  | cons e rest ih => intro s h; exact ih (inv_step h e)

/-! ### Refinement: `active_uploads_` is the specification's ledger of running uploads -/

def toX (a : Act) : C23Spec.Xfer := ⟨a.peer, a.chunk, a.started⟩
def toLedger (l : List Act) : C23Spec.Ledger := l.map toX

/-- the chunk frames of a step, in order -/
def sentOf : List Frame → List (String × String)
  | [] => []
  | .chunk p c :: r => (p, c) :: sentOf r
  | .nack _ _ :: r => sentOf r

theorem sentOf_append (a b : List Frame) : sentOf (a ++ b) = sentOf a ++ sentOf b := by
  induction a with
  | nil => rfl
  | cons f r ih => cases f <;> simp [sentOf, ih]

theorem startAll_append (L : C23Spec.Ledger) (now : Int) (a b : List (String × String)) :
    C23Spec.startAll L now (a ++ b) = C23Spec.startAll (C23Spec.startAll L now a) now b := by
  induction a generalizing L with
  | nil => rfl
  | cons k r ih => obtain ⟨p, c⟩ := k; simp [C23Spec.startAll, ih]

theorem toLedger_erase (l : List Act) (p c : String) :
    toLedger (eraseAct l p c) = C23Spec.finish (toLedger l) p c := by
  simp only [toLedger, eraseAct, C23Spec.finish, List.filter_map]
  rfl

theorem eraseAct_of_not_has {l : List Act} {p c : String} (h : hasAct l p c = false) : eraseAct l p c = l := by
  simp only [hasAct, List.any_eq_false] at h
  simp only [eraseAct, List.filter_eq_self]
  intro a ha; simp [h a ha]

theorem noteEnd_active (s : State) (p c : String) : (noteEnd s p c).active = eraseAct s.active p c := by
  unfold noteEnd
  by_cases hk : hasAct s.active p c = true
  · simp [hk]
  · have : hasAct s.active p c = false := by simpa using hk
    simp [this, eraseAct_of_not_has this]

theorem noteEnd_queue (s : State) (p c : String) : (noteEnd s p c).queue = s.queue := by
  unfold noteEnd; split <;> rfl

theorem toLedger_noteStart (s : State) (p c : String) (now : Int) :
    toLedger (noteStart s p c now).active = C23Spec.start (toLedger s.active) p c now := by
  show toLedger (eraseAct s.active p c ++ [⟨p, c, now⟩]) = _
  simp only [toLedger, List.map_append, C23Spec.start]
  rw [show List.map toX (eraseAct s.active p c) = toLedger (eraseAct s.active p c) from rfl, toLedger_erase]
  rfl

def keyIn (keys : List (String × String)) (a : Act) : Bool := keys.any fun k => a.peer == k.1 && a.chunk == k.2

theorem endAll_active (keys : List (String × String)) :
    ∀ s : State, (endAll s keys).active = s.active.filter (fun a => !keyIn keys a) := by
  induction keys with
  | nil =>
    intro s
    simp only [endAll, keyIn, List.any_nil, Bool.not_false]
    exact (List.filter_eq_self.2 (fun _ _ => rfl)).symm
  | cons k rest ih =>
    intro s; obtain ⟨p, c⟩ := k
    simp only [endAll, ih, noteEnd_active, eraseAct, List.filter_filter]
    apply List.filter_congr
    intro a _
    simp [keyIn, isKey, Bool.and_comm]

theorem endAll_queue (keys : List (String × String)) : ∀ s : State, (endAll s keys).queue = s.queue := by
  induction keys with
  | nil => intro s; rfl
  | cons k rest ih => intro s; obtain ⟨p, c⟩ := k; simp [endAll, ih, noteEnd_queue]

theorem uniq_eq {l : List Act} (hu : Uniq l) {a b : Act} (ha : a ∈ l) (hb : b ∈ l)
    (hp : a.peer = b.peer) (hc : a.chunk = b.chunk) : a = b := by
  have h1 := hu b.peer b.chunk
  unfold matchCount at h1
  have ma : a ∈ l.filter (isKey b.peer b.chunk) := List.mem_filter.2 ⟨ha, (isKey_iff _ _ _).2 ⟨hp, hc⟩⟩
  have mb : b ∈ l.filter (isKey b.peer b.chunk) := List.mem_filter.2 ⟨hb, (isKey_iff _ _ _).2 ⟨rfl, rfl⟩⟩
  match hl : l.filter (isKey b.peer b.chunk), h1, ma, mb with
  | [], _, ma, _ => cases ma
  | [x], _, ma, mb =>
    simp only [List.mem_singleton] at ma mb
    rw [ma, mb]
  | _ :: _ :: _, h1, _, _ => simp at h1

theorem prune_active {cfg : Cfg} {s : State} (hu : Uniq s.active) (now : Int) :
    toLedger (prune cfg now s).active = C23Spec.expire cfg.timeout now (toLedger s.active) := by
  unfold prune C23Spec.expire
  by_cases ht : cfg.timeout ≤ 0
  · simp [ht]
  · simp only [ht, if_false, endAll_active, toLedger, List.filter_map]
    congr 1
    apply List.filter_congr
    intro a ha
    simp only [Function.comp, toX]
    congr 1
    -- some stale record has a's key  ↔  a is stale
    show keyIn _ a = isStale cfg now a
    cases hs : isStale cfg now a with
    | true =>
      simp only [keyIn, List.any_eq_true, List.mem_map, List.mem_filter]
      exact ⟨(a.peer, a.chunk), ⟨a, ⟨ha, hs⟩, rfl⟩, by simp⟩
    | false =>
      simp only [keyIn, List.any_eq_false, List.mem_map, List.mem_filter]
      intro k ⟨b, ⟨hb, hbs⟩, hk⟩
      subst hk
      intro hm
      simp only [Bool.and_eq_true, beq_iff_eq] at hm
      have := uniq_eq hu ha hb hm.1 hm.2
      subst this
      rw [hs] at hbs; cases hbs

theorem prune_queue (cfg : Cfg) (now : Int) (s : State) : (prune cfg now s).queue = s.queue := by
  unfold prune; split
  · rfl
  · exact endAll_queue _ _

theorem dispatch_ledger (env : Env) (now : Int) (s : State) (r : Req) :
    toLedger (dispatch env now s r).1.active
      = C23Spec.startAll (toLedger s.active) now (sentOf (dispatch env now s r).2) := by
  unfold dispatch nackFrames
  split
  · split <;> rfl
  · split
    · rfl
    · split
      · split <;> rfl
      · simp only [Bool.false_eq_true, if_false, sentOf, C23Spec.startAll]
        exact toLedger_noteStart s r.peer r.chunk now

theorem loop_ledger (cfg : Cfg) (env : Env) (now : Int) (n : Nat) :
    ∀ (s : State) (fr : List Frame), ∃ new, (loop cfg env now false n s fr).2 = fr ++ new ∧
      toLedger (loop cfg env now false n s fr).1.active
        = C23Spec.startAll (toLedger s.active) now (sentOf new) := by
  induction n with
  | zero => intro s fr; exact ⟨[], by simp [loop], rfl⟩
  | succ n ih =>
    intro s fr
    unfold loop
    split
    · exact ⟨[], by simp, rfl⟩
    · split
      · exact ⟨[], by simp, rfl⟩
      · rename_i r rest hq
        dsimp only
        split
        · exact ih _ fr
        · obtain ⟨new, h1, h2⟩ := ih (dispatch env now { s with queue := rest } r false).1
            (fr ++ (dispatch env now { s with queue := rest } r false).2)
          refine ⟨(dispatch env now { s with queue := rest } r false).2 ++ new, ?_, ?_⟩
          · rw [h1, List.append_assoc]
          · rw [h2, sentOf_append, startAll_append, dispatch_ledger]

theorem rotate_active (cfg : Cfg) (now : Int) (s : State) : (rotate cfg now s).active = s.active := by
  unfold rotate; split
  · split <;> rfl
  · rfl

theorem process_ledger {cfg : Cfg} {s : State} (hu : Uniq s.active) (env : Env) (now : Int) :
    toLedger (process cfg env now s).1.active
      = C23Spec.startAll (C23Spec.expire cfg.timeout now (toLedger s.active)) now
          (sentOf (process cfg env now s).2) := by
  unfold process
  simp only
  split
  · simp only [sentOf, C23Spec.startAll]; exact prune_active hu now
  · obtain ⟨new, h1, h2⟩ := loop_ledger cfg env now (rotate cfg now (prune cfg now s)).queue.length
      (rotate cfg now (prune cfg now s)) []
    rw [h2, h1, List.nil_append, rotate_active, prune_active hu]

theorem running_toLedger (l : List Act) (p : String) : C23Spec.running (toLedger l) p = countPeer p l := by
  simp only [C23Spec.running, toLedger, countPeer, List.filter_map, List.length_map]
  rfl

end EphVerif.Uploads
