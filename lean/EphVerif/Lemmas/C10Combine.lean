/-
C10: `combine` on shares produced by `split` (any selection whose first `t` members carry distinct
indices) returns the secret; `combine` on any well-formed selection returns a value.
-/
import EphVerif.Lemmas.C10Sharing

namespace EphVerif.C10L
open EphVerif.Shamir EphVerif.Gen.C10 Polynomial

theorem getD_map_of_lt {α : Type} (f : α → Nat) (l : List α) {i : Nat} (h : i < l.length) :
    (l.map f).getD i 0 = f l[i] := by
  rw [List.getD_eq_getElem?_getD, List.getElem?_map, List.getElem?_eq_getElem h]; rfl

theorem range_map_getD (l : List Nat) : (List.range l.length).map (fun b => l.getD b 0) = l := by
  apply List.ext_getElem
  · simp
  · intro i h1 h2
    simp [List.getD_eq_getElem?_getD, h2]

/-- a share list all of whose members were made by `mkShare` at abscissae in `1 … n` -/
def FromSplit (rd : Nat → Nat) (secret : List Nat) (t n : Nat) (l : List Share) : Prop :=
  ∀ s ∈ l, ∃ x, 1 ≤ x ∧ x ≤ n ∧ s = mkShare rd secret t x

theorem interpolate_fromSplit (rd : Nat → Nat) (secret : List Nat) (hsec : Bytes secret) {t n : Nat}
    (ht : 1 ≤ t) (hn : n ≤ 255) (sub : List Share) (hlen : sub.length = t)
    (hfrom : FromSplit rd secret t n sub) (hnd : (sub.map (·.index)).Nodup) :
    interpolate secret.length sub = .ok secret := by
  unfold interpolate
  rw [sequence_map_ok _ _ (fun b => secret.getD b 0), range_map_getD]
  intro b hb
  have hb : b < secret.length := List.mem_range.1 hb
  have hsb : secret.getD b 0 < 256 := getD_lt hsec b
  -- every member, spelled out
  have hmem : ∀ i (hi : i < sub.length), ∃ x, 1 ≤ x ∧ x ≤ n ∧ sub[i] = mkShare rd secret t x :=
    fun i hi => hfrom _ (List.getElem_mem hi)
  have hxs : Bytes (sub.map (·.index)) := by
    intro v hv
    obtain ⟨s, hs, rfl⟩ := List.mem_map.1 hv
    obtain ⟨x, _, hx, rfl⟩ := hfrom s hs
    exact Nat.mod_lt _ (by decide)
  have hys : Bytes (sub.map fun s => s.value.getD b 0) := by
    intro v hv
    obtain ⟨s, hs, rfl⟩ := List.mem_map.1 hv
    obtain ⟨x, _, hx, rfl⟩ := hfrom s hs
    rw [mkShare_value_getD rd secret t (by omega) hb]
    exact evalPoly_lt hsb
  let f : GF256[X] := polyOfList (g (secret.getD b 0) :: (coeffsFor rd t b).map g)
  have hdeg : f.degree < ((sub.map (·.index)).length : ℕ) := by
    have := degree_polyOfList_lt (g (secret.getD b 0) :: (coeffsFor rd t b).map g)
    have hl : (g (secret.getD b 0) :: (coeffsFor rd t b).map g).length = (sub.map (·.index)).length := by
      simp [coeffsFor_length, hlen]; omega
    rwa [hl] at this
  obtain ⟨v, h0, h1, h2⟩ := interpolateByte_of_poly hxs hys hnd f hdeg (by
    intro i hi
    have hi : i < sub.length := by simpa using hi
    obtain ⟨x, _, hx, hs⟩ := hmem i hi
    rw [getD_map_of_lt _ _ hi, getD_map_of_lt _ _ hi, hs, mkShare_index _ _ _ (by omega),
      mkShare_value_getD rd secret t (by omega) hb, evalPoly_g (by omega) hsb (coeffsFor_bytes rd t b)])
  rw [h0]
  congr 1
  apply g_inj h1 hsb
  rw [h2, eval_polyOfList_zero]

theorem combineN_fromSplit (rd : Nat → Nat) (secret : List Nat) (hsec : Bytes secret) {t n : Nat}
    (ht : 1 ≤ t) (hn : n ≤ 255) (sel : List Share) (hlen : t ≤ sel.length)
    (hfrom : FromSplit rd secret t n (sel.take t)) (hnd : ((sel.take t).map (·.index)).Nodup) :
    combineN secret.length sel t = .ok secret := by
  unfold combineN
  rw [if_neg (by omega)]
  have hv : validIndices ((sel.take t).map (·.index)) [] = true := by
    rw [validIndices_nil_iff]
    refine ⟨?_, hnd⟩
    intro h0
    obtain ⟨s, hs, h0⟩ := List.mem_map.1 h0
    obtain ⟨x, hx1, hx, rfl⟩ := hfrom s hs
    rw [mkShare_index _ _ _ (by omega)] at h0
    omega
  simp only [hv, if_true]
  exact interpolate_fromSplit rd secret hsec ht hn _ (by simp; omega) hfrom hnd

/-- Well-formed input never makes `interpolate` throw: with distinct indices every denominator is non-zero. -/
theorem interpolate_total (bytes : Nat) (sub : List Share) (hx : Bytes (sub.map (·.index)))
    (hv : ∀ s ∈ sub, Bytes s.value) (hnd : (sub.map (·.index)).Nodup) :
    ∃ v, interpolate bytes sub = .ok v ∧ v.length = bytes ∧ Bytes v := by
  have hinj := injOn_of_nodup hx hnd
  have key : ∀ b, ∃ v, interpolateByte (sub.map (·.index)) (sub.map fun s => s.value.getD b 0) = .ok v ∧ v < 256 := by
    intro b
    have hys : Bytes (sub.map fun s => s.value.getD b 0) := by
      intro v hv'
      obtain ⟨s, hs, rfl⟩ := List.mem_map.1 hv'
      exact getD_lt (hv s hs) b
    obtain ⟨v, h0, h1, _⟩ := interp_upto _ _ hx hys (sub.map (·.index)).length
      (fun i hi => denF_ne_zero _ _ hinj i hi)
    exact ⟨v, h0, h1⟩
  refine ⟨(List.range bytes).map fun b => (key b).choose, ?_, by simp, ?_⟩
  · unfold interpolate
    exact sequence_map_ok _ _ _ (fun b _ => (key b).choose_spec.1)
  · intro v hv'
    obtain ⟨b, _, rfl⟩ := List.mem_map.1 hv'
    exact (key b).choose_spec.2

end EphVerif.C10L
