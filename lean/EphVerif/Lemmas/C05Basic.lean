/-
C05 helper lemmas, part 1: what each building block of the node model (imported locator table,
routing table, association lists) can put into / leave in the state.
-/
import EphVerif.Model.NodeCleanup
import EphVerif.Lemmas.C01Refine
import EphVerif.Lemmas.C06Cut

namespace EphVerif.C05L
open EphVerif.NodeCleanup
open EphVerif.ChunkStore (aget aset adel Recs Uniq)
open EphVerif.Providers (Table Loc Holder)

/-! ### regenerated comparison operators -/

theorem cmp_true (a b : Int) : cmp true a b = decide (a ≥ b) := rfl

theorem manifestDead_iff (W e : Int) : manifestDead W e = true ↔ e ≤ W := by
  simp [manifestDead, cmp, EphVerif.Gen.C05.manifestPruneIsGe]

theorem shardDead_iff (now e : Int) : shardDead now e = true ↔ e ≤ now := by
  simp [shardDead, cmp, EphVerif.Gen.C05.shardSweepIsGe]

theorem gate_iff (cfg : Cfg) (s : State) :
    gate cfg s = true ↔ s.now - s.lastCleanup ≥ cfg.node.cleanupInterval * 1000000000 := by
  simp [gate, cmp, EphVerif.Gen.C05.tickGateIsGe, ns]

/-! ### lifetimes are positive -/

theorem manifestTtl_some {cfg : Cfg} {W e t : Int} (h : manifestTtl cfg W e = some t) : W < e ∧ 0 < t := by
  simp only [manifestTtl] at h
  split at h
  · cases h
  · split at h
    · cases h
    · split at h
      · cases h
      · split at h
        · split at h
          · cases h
          · cases h; constructor <;> omega
        · cases h; constructor <;> omega

theorem clampChunkTtl_pos (a mn mx : Int) : 0 < ChunkStore.clampChunkTtl a mn mx := by
  simp only [ChunkStore.clampChunkTtl, EphVerif.Gen.C01.kMinAllowedManifestTtlSec]
  split <;> split <;> split <;> omega

theorem nodeTtl_pos (nc : ChunkStore.NodeCfg) (ttl : Int) : 0 < ChunkStore.nodeTtl nc ttl :=
  clampChunkTtl_pos _ _ _

theorem effTtl_pos (c : ChunkStore.Cfg) (ttl : Int) : 0 < ChunkStore.effTtl c ttl := by
  simp only [ChunkStore.effTtl, EphVerif.Gen.C01.kMinimumTtlSec]
  split <;> split <;> omega

theorem ns_pos : (0 : Int) < ns := by decide

theorem mul_ns_pos {t : Int} (h : 0 < t) : 0 < t * ns := Int.mul_pos h ns_pos

/-! ### association lists -/
section Assoc
variable {κ : Type} {ν : Type} [DecidableEq κ]

theorem mem_aset {l : List (κ × ν)} {x : κ} {v : ν} {e : κ × ν} (h : e ∈ aset l x v) :
    e = (x, v) ∨ (e ∈ l ∧ e.1 ≠ x) := by
  simp only [aset, adel, List.mem_cons, List.mem_filter] at h
  rcases h with h | ⟨h1, h2⟩
  · exact Or.inl h
  · right; refine ⟨h1, ?_⟩; simpa using h2

theorem mem_aset_self (l : List (κ × ν)) (x : κ) (v : ν) : (x, v) ∈ aset l x v := by
  simp [aset]

theorem mem_aset_of_ne {l : List (κ × ν)} {x : κ} {v : ν} {e : κ × ν} (h : e ∈ l) (hne : e.1 ≠ x) :
    e ∈ aset l x v := by
  simp only [aset, adel, List.mem_cons, List.mem_filter]
  right; exact ⟨h, by simpa using hne⟩

/-- the first match survives a filter that accepts it (no uniqueness needed) -/
theorem aget_filter_of_pos {l : List (κ × ν)} {x : κ} {v : ν} (p : κ × ν → Bool)
    (h : aget l x = some v) (hp : p (x, v) = true) : aget (l.filter p) x = some v := by
  induction l with
  | nil => simp [aget] at h
  | cons e l ih =>
    obtain ⟨k, w⟩ := e
    by_cases hk : k = x
    · subst hk
      simp only [aget, if_true] at h
      cases h
      simp [List.filter, hp, aget]
    · simp only [aget, hk, if_false] at h
      by_cases hq : p (k, w) = true
      · simp [List.filter, hq, aget, hk, ih h]
      · simp [List.filter, hq, ih h]

theorem aget_isSome_of_mem {l : List (κ × ν)} {x : κ} {v : ν} (h : (x, v) ∈ l) : (aget l x).isSome = true := by
  induction l with
  | nil => simp at h
  | cons e l ih =>
    obtain ⟨k, w⟩ := e
    by_cases hk : k = x
    · simp [aget, hk]
    · simp only [aget, hk, if_false]
      rcases List.mem_cons.mp h with h | h
      · cases h; exact absurd rfl hk
      · exact ih h

theorem aget_aset (l : List (κ × ν)) (x y : κ) (v : ν) :
    aget (aset l x v) y = if x = y then some v else aget l y := by
  by_cases h : x = y
  · subst h; simp [ChunkStore.aget_aset_self]
  · simp [h, ChunkStore.aget_aset_ne l v h]

end Assoc

/-! ### the locator table (model of C06) -/

/-- `l'` holds nothing that `l` did not hold, under the same locator expiry -/
def Shrunk (l' l : Loc) : Prop := l'.exp = l.exp ∧ ∀ h ∈ l'.holders, h ∈ l.holders

theorem set_get (t : Table) (c : String) (v : Option Loc) (k : String) :
    (t.set c v) k = if k = c then v else t k := rfl

theorem findProviders_shrinks (t : Table) (now : Int) (c k : String) (l' : Loc)
    (h : (Providers.findProviders t now c).1 k = some l') : ∃ l, t k = some l ∧ Shrunk l' l := by
  unfold Providers.findProviders at h
  split at h
  · exact ⟨l', h, rfl, fun _ hh => hh⟩
  · rename_i l hl
    simp only at h
    split at h
    · rw [set_get] at h
      split at h
      · cases h
      · exact ⟨l', h, rfl, fun _ hh => hh⟩
    · rw [set_get] at h
      split at h
      · rename_i hk
        cases h
        exact ⟨l, by rw [hk]; exact hl, rfl, fun x hx => (List.mem_filter.mp hx).1⟩
      · exact ⟨l', h, rfl, fun _ hh => hh⟩

theorem withdraw_shrinks (t : Table) (c p k : String) (l' : Loc) (h : (Providers.withdraw t c p) k = some l') :
    ∃ l, t k = some l ∧ Shrunk l' l ∧ (k = c → ∀ x ∈ l'.holders, x.peer ≠ p) := by
  unfold Providers.withdraw at h
  split at h
  · rename_i hn
    refine ⟨l', h, ⟨rfl, fun _ hh => hh⟩, ?_⟩
    intro hk; rw [hk, hn] at h; cases h
  · rename_i l hl
    simp only at h
    split at h
    · rw [set_get] at h
      split at h
      · cases h
      · rename_i hk
        exact ⟨l', h, ⟨rfl, fun _ hh => hh⟩, fun hh => absurd hh hk⟩
    · rw [set_get] at h
      split at h
      · rename_i hk
        cases h
        refine ⟨l, by rw [hk]; exact hl, ⟨rfl, fun x hx => (List.mem_filter.mp hx).1⟩, ?_⟩
        intro _ x hx
        have := (List.mem_filter.mp hx).2
        simpa using this
      · rename_i hk
        exact ⟨l', h, ⟨rfl, fun _ hh => hh⟩, fun hh => absurd hh hk⟩

theorem Shrunk.trans {a b c : Loc} (h1 : Shrunk a b) (h2 : Shrunk b c) : Shrunk a c :=
  ⟨h1.1.trans h2.1, fun x hx => h2.2 x (h1.2 x hx)⟩

theorem withdrawAll_shrinks (self : String) (cs : List String) (t : Table) (k : String) (l' : Loc)
    (h : (withdrawAll t self cs) k = some l') :
    ∃ l, t k = some l ∧ Shrunk l' l ∧ (k ∈ cs → ∀ x ∈ l'.holders, x.peer ≠ self) := by
  induction cs generalizing t with
  | nil => exact ⟨l', h, ⟨rfl, fun _ hh => hh⟩, fun hk => by simp at hk⟩
  | cons c cs ih =>
    simp only [withdrawAll, List.foldl_cons] at h
    obtain ⟨l1, h1, hs1, hw1⟩ := ih (Providers.withdraw t c self) h
    obtain ⟨l, h0, hs0, hw0⟩ := withdraw_shrinks t c self k l1 h1
    refine ⟨l, h0, hs1.trans hs0, ?_⟩
    intro hk x hx
    rcases List.mem_cons.mp hk with hk | hk
    · exact hw0 hk x (hs1.2 x hx)
    · exact hw1 hk x hx

theorem sweep_clean (t : Table) (now : Int) (k : String) (l' : Loc) (h : (Providers.sweep t now) k = some l') :
    ∃ l, t k = some l ∧ Shrunk l' l ∧ now < l'.exp ∧ ∀ x ∈ l'.holders, now < x.exp := by
  simp only [Providers.sweep] at h
  split at h
  · cases h
  · rename_i l hl
    split at h
    · cases h
    · rename_i hc
      cases h
      simp only [Bool.or_eq_true, decide_eq_true_eq, not_or] at hc
      refine ⟨l, hl, ⟨rfl, fun x hx => (List.mem_filter.mp hx).1⟩, by show now < l.exp; omega, ?_⟩
      intro x hx
      have := (List.mem_filter.mp hx).2
      simp only [Providers.expired, Bool.not_eq_true', decide_eq_false_iff_not] at this
      omega

theorem mem_cut {n : Nat} {base : List Holder} {hint : Option (List String)} {x : Holder}
    (h : x ∈ Providers.cut n base hint) : x ∈ base := by
  unfold Providers.cut at h
  have fallback : x ∈ (Providers.sortDesc base).take n → x ∈ base := fun hh =>
    (EphVerif.C06L.sortDesc_perm base).mem_iff.mp (List.mem_of_mem_take hh)
  split at h
  · split at h
    · exact (List.mem_filter.mp h).1
    · exact fallback h
  · exact fallback h

/-- what `add_contact` leaves in the table: other chunks untouched; the chunk's locator expires no
    earlier than the new announcement and holds the new announcement and/or earlier ones of other peers -/
theorem addContact_get (t : Table) (now : Int) (c p : String) (ttlNs : Int) (hint : Option (List String))
    (k : String) (l' : Loc) (h : (Providers.addContact t now c p ttlNs hint) k = some l') :
    (k ≠ c ∧ t k = some l') ∨
    (k = c ∧ now + ttlNs ≤ l'.exp ∧ (∀ x ∈ l'.holders, x.exp ≤ l'.exp) ∧
      ∀ x ∈ l'.holders, (x = ⟨p, now + ttlNs⟩) ∨ (x.peer ≠ p ∧ x ∈ Providers.holdersOf t c)) := by
  simp only [Providers.addContact] at h
  rw [set_get] at h
  split at h
  · rename_i hk
    right
    cases h
    refine ⟨hk, EphVerif.C06L.foldl_max_ge _ _, EphVerif.C06L.maxExp_mem _ _, ?_⟩
    intro x hx
    have hb : x ∈ Providers.addBase (Providers.holdersOf t c) p (now + ttlNs) := by
      split at hx
      · exact mem_cut hx
      · exact hx
    simp only [Providers.addBase, List.mem_append, List.mem_filter, List.mem_singleton] at hb
    rcases hb with ⟨h1, h2⟩ | h1
    · right; exact ⟨by simpa using h2, h1⟩
    · left; exact h1
  · rename_i hk
    left; exact ⟨hk, h⟩

theorem holdersOf_some {t : Table} {c : String} {l : Loc} (h : t c = some l) : Providers.holdersOf t c = l.holders := by
  simp [Providers.holdersOf, h]

theorem holdersOf_none {t : Table} {c : String} (h : t c = none) : Providers.holdersOf t c = [] := by
  simp [Providers.holdersOf, h]

/-! ### the routing table (model of C07) -/

theorem mem_upsertList {now : Int} {c x : Routing.Contact} {b : List Routing.Contact}
    (h : x ∈ Routing.upsertList now c b) : x.exp = c.exp ∨ x ∈ b := by
  simp only [Routing.upsertList] at h
  split at h
  · rename_i e he
    rcases List.mem_append.mp h with h | h
    · right; exact (List.mem_filter.mp (List.mem_of_mem_eraseP h)).1
    · left; simp only [List.mem_singleton] at h; rw [h]
  · rcases List.mem_append.mp h with h | h
    · right
      split at h
      · exact (List.mem_filter.mp (List.mem_of_mem_drop h)).1
      · exact (List.mem_filter.mp h).1
    · left; simp only [List.mem_singleton] at h; rw [h]

theorem mem_addContactBucket {t : Routing.Table} {now : Int} {c x : Routing.Contact} {ttlNs : Int} {i : Nat}
    (h : x ∈ (Routing.addContactBucket t now c ttlNs).buckets i) : x.exp = now + ttlNs ∨ x ∈ t.buckets i := by
  unfold Routing.addContactBucket Routing.upsertBucket at h
  split at h
  · exact Or.inr h
  · rename_i j hj
    simp only at h
    split at h
    · rename_i hij
      rcases mem_upsertList h with h | h
      · exact Or.inl h
      · right; rw [hij]; exact h
    · exact Or.inr h

theorem mem_sweepBuckets {t : Routing.Table} {now : Int} {x : Routing.Contact} {i : Nat}
    (h : x ∈ (Routing.sweepBuckets t now).buckets i) : x ∈ t.buckets i ∧ now < x.exp := by
  simp only [Routing.sweepBuckets, List.mem_filter] at h
  refine ⟨h.1, ?_⟩
  have := h.2
  simp only [Routing.live, Routing.expired, Bool.not_eq_true', decide_eq_false_iff_not] at this
  omega

theorem mem_allContacts {t : Routing.Table} {x : Routing.Contact} (h : x ∈ Routing.allContacts t) :
    ∃ i, x ∈ t.buckets i := by
  simp only [Routing.allContacts, List.mem_flatMap] at h
  obtain ⟨i, _, hi⟩ := h
  exact ⟨i, hi⟩

end EphVerif.C05L
