/-
SystemControl, frame property: connections that do not present the configured token leave the
daemon exactly as it was (C27.gate for the gated commands; the other commands only read), so they
can be deleted from any history without changing anything an authenticated client observes.
-/
import EphVerif.Lemmas.SystemControl

namespace EphVerif.System.Control
open EphVerif EphVerif.Control

section
variable {ν : Type} (sha : Bytes → Bytes) (ops : NodeOps ν) (cfg : Config)

/-- **one unauthenticated connection is inert**: whatever bytes it carries, whatever command -/
theorem unauthenticated_connection_inert (t : Bytes) (ht : cfg.token = some t) (now : Int) (addr : Bytes)
    (st : ServerState ν) (input : Bytes) (hnot : Spec.Control.presentsToken (splitBy 10 input []) t = false) :
    (handleClient sha ops cfg now addr st input).1 = st := by
  cases hp : parseRequest cfg.cap input with
  | closed => unfold handleClient; rw [hp]
  | error code u => unfold handleClient; rw [hp]
  | ok req u =>
    cases hc : getField req.fields (ascii "COMMAND") with
    | none => unfold handleClient handleRequest; rw [hp]; simp [hc]
    | some c =>
      cases ha : C27.authCode (toUpper c) with
      | some code =>
        -- STORE / FETCH / STOP: the gate
        have := (C27.gate_connection sha ops cfg t now addr st input u req c code ht hp hc ha hnot).1
        rw [this]
      | none =>
        -- every other command only reads
        unfold C27.authCode at ha
        have n1 : ascii "FETCH" ≠ ascii "STORE" := by decide
        have n2 : ascii "STOP" ≠ ascii "STORE" := by decide
        have n3 : ascii "STOP" ≠ ascii "FETCH" := by decide
        have h1 : toUpper c ≠ ascii "STORE" := by intro h; simp [h] at ha
        have h2 : toUpper c ≠ ascii "FETCH" := by intro h; simp [h, n1] at ha
        have h3 : toUpper c ≠ ascii "STOP" := by intro h; simp [h, n2, n3] at ha
        unfold handleClient handleRequest
        rw [hp]
        simp only [hc, h1, h2, h3, ↓reduceIte]
        split <;> rfl

/-- what a client sees: every connection together with the reply it got -/
def runView : Int → ServerState ν → List Event → List (Event × Option Reply) × Int × ServerState ν
  | now, st, [] => ([], now, st)
  | now, st, .advance d :: es => runView (now + d) st es
  | now, st, .connect addr input :: es =>
    let r := handleClient sha ops cfg now addr st input
    let rest := runView now r.1 es
    ((.connect addr input, r.2) :: rest.1, rest.2)

/-- the events of a history that matter: clock advances and connections presenting the token -/
def authenticated (t : Bytes) : Event → Bool
  | .advance _ => true
  | .connect _ input => Spec.Control.presentsToken (splitBy 10 input []) t

/-- **frame**: deleting every unauthenticated connection from a history changes neither the final
    instant and state of the daemon (so it is still running exactly when it would be) nor any reply
    to an authenticated connection -/
theorem runView_frame (t : Bytes) (ht : cfg.token = some t) : ∀ (evs : List Event) (now : Int) (st : ServerState ν),
    (runView sha ops cfg now st evs).2 = (runView sha ops cfg now st (evs.filter (authenticated t))).2 ∧
    (runView sha ops cfg now st evs).1.filter (fun p => authenticated t p.1) =
      (runView sha ops cfg now st (evs.filter (authenticated t))).1
  | [], now, st => by simp [runView]
  | .advance d :: es, now, st => by
    have ih := runView_frame t ht es (now + d) st
    have hauth : authenticated t (.advance d) = true := rfl
    simp only [runView, List.filter_cons, hauth, ↓reduceIte]
    exact ih
  | .connect addr input :: es, now, st => by
    by_cases ha : Spec.Control.presentsToken (splitBy 10 input []) t = true
    · have ih := runView_frame t ht es now (handleClient sha ops cfg now addr st input).1
      have hauth : authenticated t (.connect addr input) = true := ha
      simp only [runView, List.filter_cons, hauth, ↓reduceIte]
      exact ⟨ih.1, by rw [ih.2]⟩
    · have ha' : Spec.Control.presentsToken (splitBy 10 input []) t = false := by simpa using ha
      have hauth : authenticated t (.connect addr input) = false := ha'
      have hin := unauthenticated_connection_inert sha ops cfg t ht now addr st input ha'
      have ih := runView_frame t ht es now st
      simp only [runView, List.filter_cons, hauth, Bool.false_eq_true, ↓reduceIte, hin]
      exact ih

/-- the same for `runEvents` (the histories of C28.rate): final instant and state -/
theorem runEvents_frame (t : Bytes) (ht : cfg.token = some t) : ∀ (evs : List Event) (now : Int) (st : ServerState ν)
    (log log' : List LogEntry),
    (runEvents sha ops cfg now st log evs).1 = (runEvents sha ops cfg now st log' (evs.filter (authenticated t))).1 ∧
    (runEvents sha ops cfg now st log evs).2.1 = (runEvents sha ops cfg now st log' (evs.filter (authenticated t))).2.1
  | [], now, st, log, log' => by simp [runEvents]
  | .advance d :: es, now, st, log, log' => by
    have ih := runEvents_frame t ht es (now + d) st log log'
    have hauth : authenticated t (.advance d) = true := rfl
    simp only [runEvents, List.filter_cons, hauth, ↓reduceIte]
    exact ih
  | .connect addr input :: es, now, st, log, log' => by
    by_cases ha : Spec.Control.presentsToken (splitBy 10 input []) t = true
    · have hauth : authenticated t (.connect addr input) = true := ha
      simp only [runEvents, List.filter_cons, hauth, ↓reduceIte]
      exact runEvents_frame t ht es now _ _ _
    · have ha' : Spec.Control.presentsToken (splitBy 10 input []) t = false := by simpa using ha
      have hauth : authenticated t (.connect addr input) = false := ha'
      have hin := unauthenticated_connection_inert sha ops cfg t ht now addr st input ha'
      simp only [runEvents, List.filter_cons, hauth, Bool.false_eq_true, ↓reduceIte, hin]
      exact runEvents_frame t ht es now st _ log'

end

end EphVerif.System.Control
