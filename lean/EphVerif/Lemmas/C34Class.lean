import EphVerif.Lemmas.C34Fmt

/-! Helper lemmas for C34: what `normalize_ipv6` / `is_private_or_reserved_host` do on texts of a known shape. -/
namespace EphVerif.C34L
open EphVerif.Adv EphVerif.Gen.C34

theorem lower_plain (s : Str) (h : ∀ c ∈ s, plain c = true) : lower s = s := by
  induction s with
  | nil => rfl
  | cons c s ih =>
    have hc : lowerC c = c := by
      have := h c (by simp); simp only [plain, Bool.and_eq_true, beq_iff_eq] at this; exact this.2
    simp only [lower, List.map_cons, hc] at ih ⊢
    rw [ih (fun x hx => h x (by simp [hx]))]

theorem takeWhile_plain (p t : Str) (h : ∀ c ∈ p, plain c = true) :
    (p ++ t).takeWhile (· != '%') = p ++ t.takeWhile (· != '%') := by
  induction p with
  | nil => rfl
  | cons c p ih =>
    have hc : (c != '%') = true := by
      have := h c (by simp); simp only [plain, Bool.and_eq_true] at this; exact this.1
    simp only [List.cons_append, List.takeWhile_cons, hc, if_true]
    rw [ih (fun x hx => h x (by simp [hx]))]

theorem strip_id (s : Str) (h : s.head? ≠ some '[') : stripBrackets s = s := by
  unfold stripBrackets
  have : (s.head? == some '[') = false := by simpa using h
  simp [this]

/-- a clean prefix (no `[` in front, no `%`, no upper case) is still a prefix after `normalize_ipv6` -/
theorem normalize_prefix (p t : Str) (h0 : (p ++ t).head? ≠ some '[') (hp : ∀ c ∈ p, plain c = true) :
    p.isPrefixOf (normalizeIpv6 (p ++ t)) = true := by
  unfold normalizeIpv6
  rw [strip_id _ h0, takeWhile_plain p t hp]
  unfold lower
  rw [List.map_append]
  have : List.map lowerC p = p := lower_plain p hp
  rw [this, List.isPrefixOf_iff_prefix]
  exact List.prefix_append _ _

/-- a clean text is its own normal form -/
theorem normalize_clean (s : Str) (h0 : s.head? ≠ some '[') (hs : ∀ c ∈ s, plain c = true) : normalizeIpv6 s = s := by
  unfold normalizeIpv6
  rw [strip_id _ h0]
  have := takeWhile_plain s [] hs
  simp only [List.append_nil, List.takeWhile_nil] at this
  rw [this]
  exact lower_plain s hs

/-- `parse_ipv4` refuses any text that does not start with a digit -/
theorem parseIpv4_nondigit (c : Char) (t : Str) (h : isDigit c = false) : parseIpv4 (c :: t) = none := by
  unfold parseIpv4
  rw [parseIpv4Aux]
  split
  · rfl
  · by_cases hc : (c != '.') = true
    · simp [hc, parseOctet, parseOctetAux, h]
    · simp [hc, parseOctet]

/-- … and any text that starts with `2001:` -/
theorem parseIpv4_2001 (t : Str) : parseIpv4 ('2' :: '0' :: '0' :: '1' :: ':' :: t) = none := by
  unfold parseIpv4
  rw [parseIpv4Aux]
  split
  · rfl
  · have d2 : ('2' != '.') = true := by decide
    have d0 : ('0' != '.') = true := by decide
    have d1 : ('1' != '.') = true := by decide
    simp only [List.takeWhile_cons, d2, d0, d1, if_true]
    have : parseOctet ('2' :: '0' :: '0' :: '1' :: (if (':' != '.') = true then ':' :: List.takeWhile (· != '.') t else [])) = none := by
      simp [parseOctet, parseOctetAux, isDigit]
    rw [this]

/-- The classifier on a text that `parse_ipv4` refuses, that contains a colon and whose normal form hits one of the
tests of `is_private_or_reserved_ipv6`. -/
theorem isPrivHost_v6 (s : Str) (hne : s ≠ []) (hparse : parseIpv4 s = none) (hcolon : ':' ∈ s)
    (hv6 : isPrivV6 s = true) : isPrivHost s = true := by
  unfold isPrivHost
  have h1 : s.isEmpty = false := by cases s <;> simp_all
  have h2 : s.contains ':' = true := by simpa using hcolon
  simp only [h1, Bool.false_eq_true, if_false, hparse, v4OfList, h2, Bool.true_or, if_true, hv6]
  split <;> rfl

theorem isPrivV6_of_prefix (s : Str) (p : String) (hp : p ∈ kV6Prefixes)
    (h : p.toList.isPrefixOf (normalizeIpv6 s) = true) : isPrivV6 s = true := by
  unfold isPrivV6
  have : kV6Prefixes.any (·.toList.isPrefixOf (normalizeIpv6 s)) = true := List.any_eq_true.mpr ⟨p, hp, h⟩
  simp [this]

theorem isPrivV6_of_exact (s : Str) (p : String) (hp : p ∈ kV6Exact) (h : p.toList = normalizeIpv6 s) :
    isPrivV6 s = true := by
  unfold isPrivV6
  have : kV6Exact.any (·.toList == normalizeIpv6 s) = true := List.any_eq_true.mpr ⟨p, hp, by simp [h]⟩
  simp [this]

/-- a text `p ++ t` whose prefix `p` is one of the tested IPv6 prefixes (and is clean) is classified private,
provided `parse_ipv4` refuses it and it contains a colon -/
theorem isPrivHost_of_prefix (p : String) (hp : p ∈ kV6Prefixes) (t : Str)
    (h0 : (p.toList ++ t).head? ≠ some '[') (hne : p.toList ++ t ≠ [])
    (hplain : ∀ x ∈ p.toList, plain x = true)
    (hparse : parseIpv4 (p.toList ++ t) = none) (hcolon : ':' ∈ p.toList ++ t) :
    isPrivHost (p.toList ++ t) = true :=
  isPrivHost_v6 _ hne hparse hcolon (isPrivV6_of_prefix _ p hp (normalize_prefix _ _ h0 hplain))

/-- the IPv4-mapped test on `::ffff:` followed by a dotted IPv4 address -/
theorem isPrivHost_mapped (a b c d : Nat) (ha : a < 256) (hb : b < 256) (hc : c < 256) (hd : d < 256)
    (hpre : kMappedPrefix.toList = [':', ':', 'f', 'f', 'f', 'f', ':'])
    (hv4 : isPrivateOrReservedIpv4 a b c d = true) :
    isPrivHost ([':', ':', 'f', 'f', 'f', 'f', ':'] ++ fmt4 a b c d) = true := by
  have hplain : ∀ x ∈ [':', ':', 'f', 'f', 'f', 'f', ':'] ++ fmt4 a b c d, plain x = true := by
    intro x hx
    rcases List.mem_append.mp hx with h | h
    · have : ∀ y ∈ [':', ':', 'f', 'f', 'f', 'f', ':'], plain y = true := by decide
      exact this x h
    · exact fmt4_plain a b c d ha hb hc hd x h
  refine isPrivHost_v6 _ (by simp) (parseIpv4_nondigit ':' _ (by decide)) (by simp) ?_
  unfold isPrivV6
  rw [normalize_clean _ (by simp) hplain]
  have : mappedCheck ([':', ':', 'f', 'f', 'f', 'f', ':'] ++ fmt4 a b c d) = true := by
    unfold mappedCheck
    simp only [hpre]
    have hpf : [':', ':', 'f', 'f', 'f', 'f', ':'].isPrefixOf ([':', ':', 'f', 'f', 'f', 'f', ':'] ++ fmt4 a b c d) = true := by
      rw [List.isPrefixOf_iff_prefix]; exact List.prefix_append _ _
    have hdrop : ([':', ':', 'f', 'f', 'f', 'f', ':'] ++ fmt4 a b c d).drop [':', ':', 'f', 'f', 'f', 'f', ':'].length = fmt4 a b c d := by
      simp
    rw [hpf, hdrop, parseIpv4_fmt4 a b c d ha hb hc hd]
    simp [v4OfList, hv4]
  show (_ || mappedCheck _) = true
  rw [this, Bool.or_true]

/-- a text whose first character lower-cases to a letter is refused by `parse_ipv4` and, if its lower-case form is one
of the case-insensitively reserved names, classified private/reserved -/
theorem isPrivHost_reserved_name (c : Char) (t : Str) (hc : isDigit c = false) (p : String) (hp : p ∈ kReservedNames)
    (hl : p.toList = lower (c :: t)) : isPrivHost (c :: t) = true := by
  unfold isPrivHost
  have : kReservedNames.any (·.toList == lower (c :: t)) = true := List.any_eq_true.mpr ⟨p, hp, by simp [hl]⟩
  simp only [List.isEmpty_cons, Bool.false_eq_true, if_false, parseIpv4_nondigit c t hc, v4OfList, this, Bool.or_true, if_true]

end EphVerif.C34L
