/-
Bridging lemmas for `Proofs/SystemHandshake.lean`: C20's admission model (peers named by strings,
abstract `powValid`, its own copy of `validate_public`) instantiated with C12's key validator and
C19's handshake proof-of-work predicate.  Core Lean only (imports other properties' proof modules).
-/
import EphVerif.Proofs.C12
import EphVerif.Proofs.C19
import EphVerif.Proofs.C20

namespace EphVerif.SysHs
open EphVerif.Kex EphVerif.Pow EphVerif.Spec.Pow

/-- a node in the role of responder: its id bytes, its configured handshake difficulty and cooldown,
    and the bytes of the peer ids that C20's model names by strings (`peer_id_to_string`) -/
structure Responder where
  self : List UInt8
  bits : Nat
  cooldown : Int
  idOf : String → List UInt8

section
variable (sha : List UInt8 → List UInt8)

/-- C19's acceptance predicate of `Node::perform_handshake` as C20's `powValid` fact:
    claimed peer, offered key, nonce ↦ `handshake_pow_valid(peer, this node, key, nonce, configured bits)` -/
def powFact (R : Responder) : String → Nat → Nat → Bool :=
  fun p pub nonce => nodeVerifyHandshake sha R.bits ⟨R.idOf p, R.self, pub⟩ nonce

/-- C20's environment for this responder -/
def env (R : Responder) : Handshake.Env := { cooldown := R.cooldown, powValid := powFact sha R }

/-- the handshake preimage the responder hashes for a claimed peer -/
def preimage (R : Responder) (p : String) (pub nonce : Nat) : List UInt8 :=
  encHandshake ⟨R.idOf p, R.self, pub⟩ nonce

/-- C20's copy of `validate_public` is C12's -/
theorem keyValid_eq (c : Nat) : Handshake.keyValid c = validatePublic c := by
  unfold Handshake.keyValid validatePublic
  have h1 : Gen.C20.kPrime = 2147483647 := by decide
  have h2 : Gen.C12.kPrime = 2147483647 := by decide
  rw [h1, h2]

theorem keyValid_iff (c : Nat) : Handshake.keyValid c = true ↔ Spec.Kex.acceptable c := by
  rw [keyValid_eq, C12.validate]

theorem powFact_iff (R : Responder) (p : String) (pub nonce : Nat) :
    powFact sha R p pub nonce = true ↔ meets sha (preimage R p pub nonce) (capped R.bits) :=
  C19.accept_node_handshake sha R.bits ⟨R.idOf p, R.self, pub⟩ nonce

/-- requiring fewer bits is weaker -/
theorem meets_mono {pre : List UInt8} {d d' : Nat} (h : meets sha pre d) (hd : d' ≤ d) : meets sha pre d' :=
  Nat.le_trans hd h

theorem nodeHandshakeDifficulty_eq (bits : Nat) : nodeHandshakeDifficulty bits = capped bits := by
  unfold nodeHandshakeDifficulty
  have : Gen.C19.kMaxHandshakePowDifficulty = 24 := by decide
  rw [this, C19L.capTo_eq_min]

/-- work solved by an initiator configured with `bitsI` passes the check of a responder configured
    with `bitsR` whenever the responder does not demand more (after the cap of 24) -/
theorem solved_work_valid (startOf : Nat → Nat) (x : HandshakeFields) (bitsI bitsR n : Nat)
    (hs : computeHandshakePow sha startOf x (nodeHandshakeDifficulty bitsI) = some n)
    (hb : capped bitsR ≤ capped bitsI) : nodeVerifyHandshake sha bitsR x n = true := by
  have h1 := C19.solver_handshake sha startOf x _ n hs
  rw [C19.accept_handshake, nodeHandshakeDifficulty_eq] at h1
  exact (C19.accept_node_handshake sha bitsR x n).mpr (meets_mono sha h1 hb)

/-- C20's `perform` accepts, in **every** state (fresh, after failures, inside or outside the cooldown,
    after an identical earlier handshake), a handshake whose key and work are valid -/
theorem perform_accepts (e : Handshake.Env) (s : Handshake.State) (p : String) (pub nonce : Nat)
    (hk : Handshake.keyValid pub = true) (hp : e.powValid p pub nonce = true) :
    (Handshake.perform e s p pub nonce).2 = true := by
  unfold Handshake.perform
  simp only []
  split
  · rfl
  · simp [hk, hp]

/-- … and afterwards the node holds the key derived from that public value, unless the exact-repeat
    short-circuit fired (then the state is unchanged and already holds what the earlier, validated
    handshake registered) -/
theorem perform_registers (e : Handshake.Env) (s : Handshake.State) (p : String) (pub nonce : Nat)
    (hk : Handshake.keyValid pub = true) (hp : e.powValid p pub nonce = true)
    (hn : Handshake.shortcut e s.now (s.peers p) pub nonce = false) :
    ((Handshake.perform e s p pub nonce).1.peers p).sess = some pub ∧
    ((Handshake.perform e s p pub nonce).1.peers p).smKey = some pub := by
  unfold Handshake.perform
  simp [hn, hk, hp, Handshake.setPeer]

/-- on a node without a record for the peer, C20's `perform` and C12's `performHandshake` decide alike -/
theorem perform_fresh_eq (hmac : List UInt8 → List UInt8 → List UInt8) (R : Responder) (scalar : Nat)
    (s : Handshake.State) (p : String) (pub nonce : Nat) (hf : (s.peers p).hrec = none) :
    (Handshake.perform (env sha R) s p pub nonce).2 =
      (performHandshake sha hmac ⟨R.self, scalar⟩ R.bits (R.idOf p) pub nonce).isSome := by
  unfold Handshake.perform performHandshake
  simp only [Handshake.shortcut, hf, keyValid_eq, env, powFact]
  by_cases hv : validatePublic pub = true
  · by_cases hw : nodeVerifyHandshake sha R.bits ⟨R.idOf p, R.self, pub⟩ nonce = true
    · simp [hv, hw]
    · simp [hv, hw]
  · simp [hv]

end

end EphVerif.SysHs
