import EphVerif.Model.Filename
import EphVerif.Spec.Filename
/-! Helper lemmas for C31 (file-name sanitisers, `dir / name`). -/
namespace EphVerif.C31L
open EphVerif EphVerif.Filename
open EphVerif.Spec.Filename (safeName goodByte goodN ctlN sepN resN acceptable)

/-- a byte that is no control byte and not in `reserved` is good, provided the reserved list covers the
property's separators and reserved characters (checked over all 256 byte values) -/
def Covers (reserved : List Nat) : Prop :=
  ∀ n, n < 256 → ctlN n = false → reserved.contains n = false → goodN n = true

theorem isCntrl_eq (b : UInt8) : isCntrl b = ctlN b.toNat := by
  simp [isCntrl, ctlN]

theorem underscore_good : goodByte underscore = true := by decide

theorem toNat_lt (b : UInt8) : b.toNat < 256 := by
  have := b.toBitVec.isLt
  simpa using this

theorem replace_all_good (reserved : List Nat) (hc : Covers reserved) (s : Bytes)
    (hs : ∀ b ∈ s, isCntrl b = false) : (replaceReserved reserved s).all goodByte = true := by
  simp only [replaceReserved, List.all_map, List.all_eq_true]
  intro b hb
  simp only [Function.comp]
  by_cases h : reserved.contains b.toNat = true
  · rw [if_pos h]; exact underscore_good
  · have h' : reserved.contains b.toNat = false := by simpa using h
    rw [if_neg h]
    exact hc b.toNat (toNat_lt b) (by rw [← isCntrl_eq]; exact hs b hb) h'

theorem filter_not_cntrl (s : Bytes) : ∀ b ∈ s.filter (fun b => !isCntrl b), isCntrl b = false := by
  intro b hb
  have := (List.mem_filter.mp hb).2
  simpa using this

theorem all_take {p : UInt8 → Bool} (s : Bytes) (n : Nat) (h : s.all p = true) : (s.take n).all p = true := by
  rw [List.all_eq_true] at *
  intro b hb
  exact h b (List.mem_of_mem_take hb)

theorem isDots_false {s : Bytes} (h : Filename.isDots s = false) : (s != dot) = true ∧ (s != dotdot) = true := by
  simp only [Filename.isDots, Bool.or_eq_false_iff] at h
  constructor
  · have := h.1
    simp only [bne, this, Bool.not_false]
  · have := h.2
    simp only [bne, this, Bool.not_false]

theorem take_ne_short (s t : Bytes) (n : Nat) (ht : t.length < n) (h : (s != t) = true) : (s.take n != t) = true := by
  by_cases hl : s.length ≤ n
  · rw [List.take_of_length_le hl]; exact h
  · have hlen : (s.take n).length = n := by rw [List.length_take]; omega
    simp only [bne_iff_ne, ne_eq]
    intro heq
    rw [heq] at hlen
    omega

/-- the common tail of the three sanitisers: good bytes, not empty, not dots ⇒ a safe name after truncation -/
theorem safe_of_parts (s : Bytes) (n : Nat) (hn : n ≤ 255) (hn3 : 3 ≤ n) (hgood : s.all goodByte = true)
    (hne : s.isEmpty = false) (hd : Filename.isDots s = false) : safeName (s.take n) = true := by
  obtain ⟨h1, h2⟩ := isDots_false hd
  have hne' : (s.take n).isEmpty = false := by
    cases s with
    | nil => simp at hne
    | cons a t => cases n with
      | zero => omega
      | succ k => simp
  simp only [safeName, hne', Bool.not_false, Bool.true_and, Bool.and_eq_true, decide_eq_true_eq]
  refine ⟨⟨⟨all_take s n hgood, ?_⟩, ?_⟩, ?_⟩
  · exact take_ne_short s dot n (by simp [dot]; omega) h1
  · exact take_ne_short s dotdot n (by simp [dotdot]; omega) h2
  · rw [List.length_take]; omega

/-! ### `takeWhile` / `dropWhile` over `xs ++ a :: ys` -/

theorem takeWhile_app {α} (p : α → Bool) (xs : List α) (a : α) (ys : List α)
    (hx : ∀ x ∈ xs, p x = true) (ha : p a = false) : (xs ++ a :: ys).takeWhile p = xs := by
  induction xs with
  | nil => simp [List.takeWhile, ha]
  | cons x t ih =>
    have hx' : p x = true := hx x (by simp)
    simp only [List.cons_append, List.takeWhile_cons, hx', if_true]
    rw [ih (fun y hy => hx y (by simp [hy]))]

theorem dropWhile_app {α} (p : α → Bool) (xs : List α) (a : α) (ys : List α)
    (hx : ∀ x ∈ xs, p x = true) (ha : p a = false) : (xs ++ a :: ys).dropWhile p = a :: ys := by
  induction xs with
  | nil => simp [List.dropWhile, ha]
  | cons x t ih =>
    have hx' : p x = true := hx x (by simp)
    simp only [List.cons_append, List.dropWhile_cons, hx', if_true]
    exact ih (fun y hy => hx y (by simp [hy]))

theorem takeWhile_all {α} (p : α → Bool) (xs : List α) (hx : ∀ x ∈ xs, p x = true) : xs.takeWhile p = xs := by
  induction xs with
  | nil => rfl
  | cons x t ih =>
    simp only [List.takeWhile_cons, hx x (by simp), if_true]
    rw [ih (fun y hy => hx y (by simp [hy]))]

theorem dropWhile_all {α} (p : α → Bool) (xs : List α) (hx : ∀ x ∈ xs, p x = true) : xs.dropWhile p = [] := by
  induction xs with
  | nil => rfl
  | cons x t ih =>
    simp only [List.dropWhile_cons, hx x (by simp), if_true]
    exact ih (fun y hy => hx y (by simp [hy]))

/-- a safe name contains no `/` -/
theorem safe_no_slash {n : Bytes} (h : safeName n = true) : ∀ b ∈ n, (b != slash) = true := by
  simp only [safeName, Bool.and_eq_true] at h
  have hall := h.1.1.1.2
  rw [List.all_eq_true] at hall
  intro b hb
  have hg := hall b hb
  simp only [bne_iff_ne, ne_eq]
  intro heq
  subst heq
  revert hg
  decide

theorem safe_nonempty {n : Bytes} (h : safeName n = true) : n ≠ [] := by
  intro hn
  subst hn
  simp [safeName] at h

end EphVerif.C31L
