/-
C10: lemmas about the model's `split` and `combine` (share-index loop, validation loop, byte-wise
interpolation) used by `Proofs/C10.lean`.
-/
import EphVerif.Lemmas.C10Interp

namespace EphVerif.C10L
open EphVerif.Shamir EphVerif.Gen.C10 Polynomial

/-! ### the share-index loop -/

/-- With a counter type that can hold `count + 1`, the loop exits after `count` pushes with the indices
    `idx, idx+1, …, count`. -/
theorem shareIndices_ok (M n : Nat) (hM : n + 1 < M) : ∀ (fuel idx : Nat) (acc : List Nat),
    idx ≤ n + 1 → n + 1 - idx < fuel →
    shareIndices M n fuel idx acc = some (acc ++ List.range' idx (n + 1 - idx))
  | 0, _, _, _, h => by omega
  | fuel + 1, idx, acc, hle, hf => by
    rw [shareIndices]
    by_cases h : idx ≤ n
    · rw [if_pos h, Nat.mod_eq_of_lt (by omega), shareIndices_ok M n hM fuel (idx + 1) _ (by omega) (by omega)]
      have : n + 1 - idx = (n + 1 - (idx + 1)) + 1 := by omega
      rw [this, List.range'_succ, List.append_assoc]; rfl
    · rw [if_neg h]
      have : n + 1 - idx = 0 := by omega
      rw [this]; simp

/-- The original `std::uint8_t` counter with `share_count = 255`: the exit test never fails, whatever the fuel. -/
theorem shareIndices_uint8_255 : ∀ (fuel idx : Nat) (acc : List Nat), idx < 256 →
    shareIndices 256 255 fuel idx acc = none
  | 0, _, _, _ => rfl
  | fuel + 1, idx, acc, h => by
    rw [shareIndices, if_pos (by omega)]
    exact shareIndices_uint8_255 fuel _ _ (Nat.mod_lt _ (by decide))

theorem kShareIndexModulus_gt' : 256 < kShareIndexModulus := by decide

theorem split_eq (rd : Nat → Nat) (secret : List Nat) {t n : Nat} (ht : 1 ≤ t) (htn : t ≤ n) (hn : n ≤ 255) :
    split rd secret t n = .ok ((List.range' 1 n).map (mkShare rd secret t)) := by
  unfold split
  rw [if_neg (by omega), if_neg (by omega), kShareIndexStart_eq,
    shareIndices_ok kShareIndexModulus n (by have := kShareIndexModulus_gt'; omega) splitFuel 1 [] (by omega)
      (by unfold splitFuel; omega)]
  simp

theorem mkShareP_index (pb : Bool) (rd : Nat → Nat) (secret : List Nat) (t : Nat) {x : Nat} (hx : x < 256) :
    (mkShareP pb rd secret t x).index = x := Nat.mod_eq_of_lt hx

theorem coeffsForP_length (pb : Bool) (rd : Nat → Nat) (t b : Nat) : (coeffsForP pb rd t b).length = t - 1 := by
  simp [coeffsForP, kDegreeStart_eq]

theorem coeffsForP_bytes (pb : Bool) (rd : Nat → Nat) (t b : Nat) : Bytes (coeffsForP pb rd t b) := by
  intro v hv
  simp only [coeffsForP, List.mem_map] at hv
  obtain ⟨_, _, rfl⟩ := hv
  exact Nat.mod_lt _ (by decide)

theorem mkShareP_value_getD (pb : Bool) (rd : Nat → Nat) (secret : List Nat) (t : Nat) {x : Nat} (hx : x < 256) {b : Nat}
    (hb : b < secret.length) :
    (mkShareP pb rd secret t x).value.getD b 0 = evalPoly x (secret.getD b 0) (coeffsForP pb rd t b) := by
  simp [mkShareP, Nat.mod_eq_of_lt hx, List.getD_eq_getElem?_getD, hb]

theorem mkShareP_value_length (pb : Bool) (rd : Nat → Nat) (secret : List Nat) (t x : Nat) :
    (mkShareP pb rd secret t x).value.length = secret.length := by
  simp [mkShareP]

theorem mkShare_index (rd : Nat → Nat) (secret : List Nat) (t : Nat) {x : Nat} (hx : x < 256) :
    (mkShare rd secret t x).index = x := mkShareP_index _ rd secret t hx

theorem coeffsFor_length (rd : Nat → Nat) (t b : Nat) : (coeffsFor rd t b).length = t - 1 :=
  coeffsForP_length _ rd t b

theorem coeffsFor_bytes (rd : Nat → Nat) (t b : Nat) : Bytes (coeffsFor rd t b) := coeffsForP_bytes _ rd t b

theorem mkShare_value_getD (rd : Nat → Nat) (secret : List Nat) (t : Nat) {x : Nat} (hx : x < 256) {b : Nat}
    (hb : b < secret.length) :
    (mkShare rd secret t x).value.getD b 0 = evalPoly x (secret.getD b 0) (coeffsFor rd t b) :=
  mkShareP_value_getD _ rd secret t hx hb

theorem mkShare_value_length (rd : Nat → Nat) (secret : List Nat) (t x : Nat) :
    (mkShare rd secret t x).value.length = secret.length := mkShareP_value_length _ rd secret t x

/-! ### the validation loop of `combine` -/

theorem validIndices_iff : ∀ (l seen : List Nat),
    validIndices l seen = true ↔ (∀ x ∈ l, x ≠ 0 ∧ x ∉ seen) ∧ l.Nodup
  | [], seen => by simp [validIndices]
  | x :: l, seen => by
    rw [validIndices]
    by_cases h : x = 0 ∨ x ∈ seen
    · rw [if_pos h]
      constructor
      · intro hf; cases hf
      · rintro ⟨h1, _⟩
        have := h1 x (List.mem_cons_self)
        rcases h with h | h
        · exact absurd h this.1
        · exact absurd h this.2
    · rw [if_neg h, validIndices_iff l (x :: seen)]
      have h' : x ≠ 0 ∧ x ∉ seen := ⟨fun e => h (Or.inl e), fun e => h (Or.inr e)⟩
      constructor
      · rintro ⟨h1, h2⟩
        refine ⟨?_, List.nodup_cons.2 ⟨fun hx => (h1 x hx).2 (List.mem_cons_self), h2⟩⟩
        intro y hy
        rcases List.mem_cons.1 hy with rfl | hy
        · exact h'
        · exact ⟨(h1 y hy).1, fun e => (h1 y hy).2 (List.mem_cons_of_mem _ e)⟩
      · rintro ⟨h1, h2⟩
        have hnd := List.nodup_cons.1 h2
        refine ⟨?_, hnd.2⟩
        intro y hy
        have := h1 y (List.mem_cons_of_mem _ hy)
        refine ⟨this.1, ?_⟩
        intro e
        rcases List.mem_cons.1 e with rfl | e
        · exact hnd.1 hy
        · exact this.2 e

theorem validIndices_nil_iff (l : List Nat) : validIndices l [] = true ↔ 0 ∉ l ∧ l.Nodup := by
  rw [validIndices_iff]
  constructor
  · rintro ⟨h1, h2⟩
    exact ⟨fun h => (h1 0 h).1 rfl, h2⟩
  · rintro ⟨h1, h2⟩
    exact ⟨fun x hx => ⟨fun e => h1 (e ▸ hx), by simp⟩, h2⟩

/-! ### sequencing the per-byte outcomes -/

theorem sequence_map_ok {α : Type} (l : List Nat) (F : Nat → Outcome α) (f : Nat → α)
    (h : ∀ b ∈ l, F b = .ok (f b)) : Shamir.sequence (l.map F) = .ok (l.map f) := by
  induction l with
  | nil => rfl
  | cons b l ih =>
    have ih := ih (fun c hc => h c (List.mem_cons_of_mem _ hc))
    simp only [List.map_cons, h b (List.mem_cons_self), Shamir.sequence, ih]

/-! ### `combine` cannot hang -/

theorem gfDiv_ne_hang (a b : Nat) : gfDiv a b ≠ .hang := by
  unfold gfDiv
  split
  · simp
  · split <;> simp

theorem interp_ne_hang (xs ys : List Nat) (m : Nat) :
    (List.range m).foldl (interpStep xs ys) (.ok 0) ≠ .hang := by
  induction m with
  | zero => simp
  | succ m ih =>
    rw [foldl_range_succ]
    generalize (List.range m).foldl (interpStep xs ys) (.ok 0) = acc at ih
    cases acc with
    | hang => exact absurd rfl ih
    | invalidArgument => simp [interpStep]
    | ok value =>
      simp only [interpStep]
      split
      · simp
      · split
        · simp
        · simp
        · rename_i heq
          exact absurd heq (gfDiv_ne_hang _ _)

theorem sequence_ne_hang : ∀ l : List (Outcome Nat), (∀ o ∈ l, o ≠ .hang) → Shamir.sequence l ≠ .hang
  | [], _ => by simp [Shamir.sequence]
  | o :: l, h => by
    have ho := h o (List.mem_cons_self)
    have ih := sequence_ne_hang l (fun o' ho' => h o' (List.mem_cons_of_mem _ ho'))
    cases o with
    | hang => exact absurd rfl ho
    | invalidArgument => simp [Shamir.sequence]
    | ok v =>
      simp only [Shamir.sequence]
      cases hs : Shamir.sequence l with
      | hang => exact absurd hs ih
      | invalidArgument => simp
      | ok vs => simp

theorem combineN_ne_hang (bytes : Nat) (sel : List Share) (t : Nat) : combineN bytes sel t ≠ .hang := by
  unfold combineN
  split
  · simp
  · dsimp only
    split
    · unfold interpolate
      apply sequence_ne_hang
      intro o ho
      obtain ⟨b, _, rfl⟩ := List.mem_map.1 ho
      exact interp_ne_hang _ _ _
    · simp

end EphVerif.C10L
