/-
Helper lemmas for C25/C26: process_protocol's loop, and one event (`step`), keep the invariant and
only emit relayed bytes towards an established bridge partner (`Calm`).
-/
import EphVerif.Lemmas.C25Frame
set_option linter.unusedSimpArgs false
namespace EphVerif.Relay
open EphVerif.Gen.C25

/-- What a step triggered by client `c` may queue, judged in the state `σ` after the step: control text
    for `c` itself, or anything (the BEGIN line, relayed bytes — which must be `c`'s own) for the client whose
    bridge with `c` is established. -/
def ItemOK (σ : State) (c : Client) : Out → Prop
  | .queued d it =>
    (d = c ∧ ∃ t, it = .ctrl t) ∨
    (σ.stateOf d = some .bridged ∧ σ.partnerOf d = some c ∧ σ.stateOf c = some .bridged ∧
      ∀ src data, it = .relay src data → src = c)
  | _ => True

/-- a transition that opens and closes nothing and relays only across established bridges -/
structure Calm (c : Client) (σ σ' : State) : Prop where
  dom : ∀ a, (σ'.get a).isSome = (σ.get a).isSome
  used : σ'.used = σ.used
  closed : closedList σ' = closedList σ
  out : ∃ new, σ'.out = new ++ σ.out ∧ ∀ o ∈ new, ItemOK σ' c o

theorem Calm.refl (c : Client) (σ : State) : Calm c σ σ := ⟨fun _ => rfl, rfl, rfl, ⟨[], rfl, by simp⟩⟩

theorem itemOK_of_ctrl (σ : State) {c : Client} {o : Out} (h : isCtrlOut c o) : ItemOK σ c o := by
  cases o with
  | queued d it =>
    cases it with
    | ctrl t => simp only [isCtrlOut] at h; exact Or.inl ⟨h, t, rfl⟩
    | relay src data => simp [isCtrlOut] at h
  | sent d b => simp [ItemOK]
  | closed d => simp [ItemOK]

theorem closedList_ctrl {c : Client} {new : List Out} (h : ∀ o ∈ new, isCtrlOut c o) : new.filterMap Out.closedOf = [] := by
  induction new with
  | nil => rfl
  | cons o t ih =>
    have ho := h o (by simp)
    cases o with
    | queued d it => simpa [List.filterMap_cons, Out.closedOf] using ih (fun o ho => h o (by simp [ho]))
    | sent d b => simp [isCtrlOut] at ho
    | closed d => simp [isCtrlOut] at ho

theorem Mild.closed {c : Client} {σ σ' : State} (h : Mild c σ σ') : closedList σ' = closedList σ := by
  obtain ⟨new, e, p⟩ := h.out
  unfold closedList
  rw [e, List.filterMap_append, closedList_ctrl p]; rfl

theorem Mild.calm {c : Client} {σ σ' : State} (h : Mild c σ σ') : Calm c σ σ' := by
  obtain ⟨new, e, p⟩ := h.out
  exact ⟨h.dom, h.used, h.closed, ⟨new, e, fun o ho => itemOK_of_ctrl _ (p o ho)⟩⟩

theorem Calm.of_mild {c : Client} {σ1 σ2 σ3 : State} (h12 : Mild c σ1 σ2) (h23 : Calm c σ2 σ3) : Calm c σ1 σ3 := by
  obtain ⟨n1, e1, p1⟩ := h12.out
  obtain ⟨n2, e2, p2⟩ := h23.out
  refine ⟨fun a => (h23.dom a).trans (h12.dom a), h23.used.trans h12.used, h23.closed.trans h12.closed,
    ⟨n2 ++ n1, by rw [e2, e1, List.append_assoc], ?_⟩⟩
  intro o ho
  rcases List.mem_append.mp ho with h | h
  · exact p2 o h
  · exact itemOK_of_ctrl _ (p1 o h)

theorem splitLine_length {b l r : Bytes} (h : splitLine b = some (l, r)) : r.length < b.length := by
  induction b generalizing l with
  | nil => simp [splitLine] at h
  | cons x xs ih =>
    unfold splitLine at h
    by_cases e : x == nl
    · simp [e] at h; obtain ⟨_, rfl⟩ := h; simp
    · simp only [e] at h
      cases hs : splitLine xs with
      | none => simp [hs] at h
      | some p =>
        obtain ⟨l', r'⟩ := p
        simp [hs] at h
        obtain ⟨_, rfl⟩ := h
        have := ih hs
        simp; omega

/-- handle_identity_ready closes nobody and relays only to the partner it has just bridged -/
theorem calm_handleIdentityReady {σ : State} (hI : Inv σ) {c : Client} {s : Session} (hc : σ.get c = some s)
    (hst : s.state = .awaitingIdentity) :
    Calm c σ (handleIdentityReady σ c) ∧
      ∃ s', (handleIdentityReady σ c).get c = some s' ∧ s'.state = .bridged ∧ s'.readBuf = [] := by
  obtain ⟨t, ts, hp, hne, ht, htp, hts, heq⟩ := handleIdentityReady_eq hI hc hst
  have hcn : c ≠ t := fun e => hne e.symm
  rw [heq]
  simp only
  -- the state after the two `put`s, before the relayed bytes are queued
  generalize hσ3 : ((queue σ t (.ctrl (beginPrefix ++ s.connectSelf ++ [nl]))).put c { s with readBuf := [], state := .bridged }).put t
      { ts with writeBuf := ts.writeBuf ++ (beginPrefix ++ s.connectSelf ++ [nl]), state := .bridged } = σ3
  have g3 : ∀ a, σ3.get a = if a = t then some { ts with writeBuf := ts.writeBuf ++ (beginPrefix ++ s.connectSelf ++ [nl]), state := .bridged }
      else if a = c then some { s with readBuf := [], state := .bridged } else σ.get a := by
    intro a; subst hσ3
    simp only [get_put, get_queue]
    by_cases e1 : a = t <;> by_cases e2 : a = c <;> simp_all
  have o3 : σ3.out = .queued t (.ctrl (beginPrefix ++ s.connectSelf ++ [nl])) :: σ.out := by
    subst hσ3; simp [queue, ht]
  have u3 : σ3.used = σ.used := by subst hσ3; simp
  have hgt : σ3.get t = some { ts with writeBuf := ts.writeBuf ++ (beginPrefix ++ s.connectSelf ++ [nl]), state := .bridged } := by
    rw [g3]; simp
  -- facts that hold in every later state of this handler
  have fin : ∀ σ4 : State, (∀ a, σ4.partnerOf a = σ3.partnerOf a) → (∀ a, σ4.stateOf a = σ3.stateOf a) →
      σ4.stateOf t = some .bridged ∧ σ4.partnerOf t = some c ∧ σ4.stateOf c = some .bridged := by
    intro σ4 h1 h2
    rw [h2, h1, h2]
    simp [State.stateOf, State.partnerOf, g3, htp, hcn]
  split
  next hrest =>
    have ho : (queue σ3 t (.relay c (s.readBuf.take kPeerIdBytes))).out =
        [.queued t (.relay c (s.readBuf.take kPeerIdBytes)), .queued t (.ctrl (beginPrefix ++ s.connectSelf ++ [nl]))] ++ σ.out := by
      simp [queue, hgt, o3]
    have hf := fin (queue σ3 t (.relay c (s.readBuf.take kPeerIdBytes))) (by simp) (by simp)
    refine ⟨⟨?_, by simp [u3], ?_, ⟨_, ho, ?_⟩⟩, ?_⟩
    · intro a; rw [isSome_get_queue, g3]; by_cases e1 : a = t <;> by_cases e2 : a = c <;> simp_all
    · simp [closedList, ho, List.filterMap_cons, Out.closedOf]
    · intro o ho'
      simp at ho'
      rcases ho' with rfl | rfl
      · exact Or.inr ⟨hf.1, hf.2.1, hf.2.2, by intro src data h; cases h; rfl⟩
      · exact Or.inr ⟨hf.1, hf.2.1, hf.2.2, by intro src data h; cases h⟩
    · exact ⟨{ s with readBuf := [], state := .bridged }, by simp only [get_queue, g3, hcn, if_false, if_true], rfl, rfl⟩
  next hrest =>
    have ho : (queue (queue σ3 t (.relay c (s.readBuf.take kPeerIdBytes))) t (.relay c (s.readBuf.drop kPeerIdBytes))).out =
        [.queued t (.relay c (s.readBuf.drop kPeerIdBytes)), .queued t (.relay c (s.readBuf.take kPeerIdBytes)),
          .queued t (.ctrl (beginPrefix ++ s.connectSelf ++ [nl]))] ++ σ.out := by
      simp [queue, hgt, o3, get_put]
    have hf := fin (queue (queue σ3 t (.relay c (s.readBuf.take kPeerIdBytes))) t (.relay c (s.readBuf.drop kPeerIdBytes)))
      (by simp) (by simp)
    refine ⟨⟨?_, by simp [u3], ?_, ⟨_, ho, ?_⟩⟩, ?_⟩
    · intro a; rw [isSome_get_queue, isSome_get_queue, g3]; by_cases e1 : a = t <;> by_cases e2 : a = c <;> simp_all
    · simp [closedList, ho, List.filterMap_cons, Out.closedOf]
    · intro o ho'
      simp at ho'
      rcases ho' with rfl | rfl | rfl
      · exact Or.inr ⟨hf.1, hf.2.1, hf.2.2, by intro src data h; cases h; rfl⟩
      · exact Or.inr ⟨hf.1, hf.2.1, hf.2.2, by intro src data h; cases h; rfl⟩
      · exact Or.inr ⟨hf.1, hf.2.1, hf.2.2, by intro src data h; cases h⟩
    · exact ⟨{ s with readBuf := [], state := .bridged }, by simp only [get_queue, g3, hcn, if_false, if_true], rfl, rfl⟩

/-- only the read buffer of `c` changes: every projection the invariant looks at is the same -/
theorem inv_put_readBuf {σ : State} (hI : Inv σ) {c : Client} {s : Session} (hc : σ.get c = some s) (rest : Bytes) :
    Inv (σ.put c { s with readBuf := rest }) := by
  apply hI.congr
  · intro a; by_cases e : a = c <;> simp [State.partnerOf, e, hc]
  · intro a; by_cases e : a = c <;> simp [State.stateOf, e, hc]
  · intro a; by_cases e : a = c <;> simp [State.hexOf, e, hc]
  · intro k; simp
  · simp

theorem calm_put (d : Client) {σ : State} {c : Client} {s : Session} (hc : σ.get c = some s) (s' : Session) :
    Calm d σ (σ.put c s') :=
  ⟨fun a => by by_cases e : a = c <;> simp [e, hc], rfl, rfl, ⟨[], rfl, by simp⟩⟩

theorem Calm.trans_left {c : Client} {σ1 σ2 σ3 : State} (h12 : Calm c σ1 σ2) (ho : σ2.out = σ1.out) (h23 : Calm c σ2 σ3) : Calm c σ1 σ3 := by
  obtain ⟨n2, e2, p2⟩ := h23.out
  exact ⟨fun a => (h23.dom a).trans (h12.dom a), h23.used.trans h12.used, h23.closed.trans h12.closed,
    ⟨n2, by rw [e2, ho], p2⟩⟩

/-- process_protocol: never hangs, keeps the invariant, closes nobody, relays only over an established bridge -/
theorem processProtocol_ok : ∀ (fuel : Nat) (σ : State) (c : Client) (s : Session), Inv σ → σ.get c = some s →
    s.readBuf.length < fuel → (s.state = .bridged → s.readBuf = []) →
    Inv (processProtocol fuel σ c) ∧ Calm c σ (processProtocol fuel σ c) := by
  intro fuel
  induction fuel with
  | zero => intro σ c s _ _ h; omega
  | succ fuel ih =>
    intro σ c s hI hc hlen hbr
    unfold processProtocol
    simp only [hc]
    by_cases hst : s.state = .awaitingIdentity
    · simp only [hst, if_true]
      by_cases hshort : s.readBuf.length < kPeerIdBytes
      · simp only [hshort, if_true]; exact ⟨hI, Calm.refl c σ⟩
      · simp only [hshort, if_false]
        obtain ⟨hcalm, s', hs', hb', hr'⟩ := calm_handleIdentityReady hI hc hst
        have hI' := inv_handleIdentityReady hI hc hst
        simp only [hs']
        -- the next iteration finds a bridged session with an empty buffer and stops
        have hfuel : ∃ f, fuel = f + 1 := by
          have : kPeerIdBytes = 32 := rfl
          exact ⟨fuel - 1, by omega⟩
        obtain ⟨f, rfl⟩ := hfuel
        unfold processProtocol
        simp [hs', hb', hr', splitLine]
        exact ⟨hI', hcalm⟩
    · simp only [hst, if_false]
      cases hsp : splitLine s.readBuf with
      | none => exact ⟨hI, Calm.refl c σ⟩
      | some p =>
        obtain ⟨line, rest⟩ := p
        simp only
        have hnb : s.state ≠ .bridged := by
          intro e; rw [hbr e] at hsp; simp [splitLine] at hsp
        have hrest := splitLine_length hsp
        -- σa: the line has been taken out of the read buffer
        have hIa := inv_put_readBuf hI hc rest
        have hca : (σ.put c { s with readBuf := rest }).get c = some { s with readBuf := rest } := by simp
        have hm := mild_handleLine (σ.put c { s with readBuf := rest }) c (stripCr line)
        have hIb := inv_handleLine c (stripCr line) hIa
          (by simp [State.stateOf, hnb]) (by simp [State.stateOf, hst])
        -- c after the line: alive, same read buffer, not bridged
        have hdom := hm.dom c
        have hrb := hm.rb c
        have hnb' := hm.nb c
        simp only [hca, Option.isSome_some, State.rbOf, Option.map_some, State.stateOf] at hdom hrb hnb'
        cases hcb : (handleLine (σ.put c { s with readBuf := rest }) c (stripCr line)).get c with
        | none => simp [hcb] at hdom
        | some sb =>
          simp only [hcb, Option.map_some, Option.some.injEq] at hrb hnb'
          have hsbnb : sb.state ≠ .bridged := fun e => hnb (by simpa using hnb' (by simp [e]))
          obtain ⟨hI', hcalm'⟩ := ih _ c sb hIb hcb (by rw [hrb]; omega) (fun e => absurd e hsbnb)
          refine ⟨hI', ?_⟩
          exact Calm.trans_left (calm_put c hc _) rfl (Calm.of_mild hm hcalm')

end EphVerif.Relay
