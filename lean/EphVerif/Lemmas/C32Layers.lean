import EphVerif.Lemmas.C32
import EphVerif.Spec.ConfigLayers
/-! Helper definitions and lemmas for C32, part 2: the layers of one run, reading a setting through its alternative
spellings, small monad lemmas. -/
namespace EphVerif.C32L
open EphVerif.ConfigLayers

/-! ## the layers of one run -/

/-- the environment's direct keys that `std::map` visits before / after `"overrides"`, and its `overrides` mapping -/
def envDirect (efs : Fields) : Fields := efs.filterKeys fun k => k != "profile" && k != "overrides"
def envBelow (efs : Fields) : Value := .obj ((envDirect efs).filterKeys fun k => k < "overrides")
def envAbove (efs : Fields) : Value := .obj ((envDirect efs).filterKeys fun k => "overrides" < k)
def envMap (efs : Fields) : Value :=
  match efs.get "overrides" with
  | some (.obj o) => .obj o
  | some v => .obj (.cons "overrides" v .nil)
  | none => .emptyObj

theorem merge_empty_left (fs : Fields) : merge Value.emptyObj (.obj fs) = .obj fs := by
  unfold Value.emptyObj
  rw [merge_obj, mergeFields]
  rfl

theorem collectEnv_eq (efs : Fields) :
    collectEnv (.obj efs) =
      mergeObjects (mergeObjects (mergeObjects .emptyObj (envBelow efs)) (envMap efs)) (envAbove efs) := by
  unfold collectEnv envBelow envAbove envMap envDirect
  simp only []
  cases h : efs.get "overrides" with
  | none => rfl
  | some v =>
    cases v <;> rfl

/-- every tree that takes part: the environment's three pieces (highest first), then the profile chain
(selected profile first, then its ancestors, nearest first) -/
def layersOf (efs : Fields) (chain : List Value) : List Value :=
  [envAbove efs, envMap efs, envBelow efs] ++ chain

/-- the merged tree `apply_profile_to_options` reads -/
def effective (efs : Fields) (chain : List Value) : Value :=
  mergeObjects (chainMerge chain) (collectEnv (.obj efs))

/-! ## reading a setting with alternative spellings -/

/-- the first spelling present in the tree -/
def firstPresent (root : Value) (spellings : List (List String)) : Option Value :=
  firstSome (spellings.map (lookup root))

theorem firstSome_none {α β} (f : α → Option β) (l : List α) (h : ∀ q ∈ l, f q = none) : firstSome (l.map f) = none := by
  induction l with
  | nil => rfl
  | cons a t ih =>
    simp only [List.map_cons, firstSome, h a (by simp), pick]
    exact ih (fun q hq => h q (by simp [hq]))

theorem firstSome_single {α β} [DecidableEq α] (f : α → Option β) (p : α) (l : List α)
    (hother : ∀ q ∈ l, q ≠ p → f q = none) (hp : p ∈ l) : firstSome (l.map f) = f p := by
  induction l with
  | nil => cases hp
  | cons a t ih =>
    simp only [List.map_cons, firstSome]
    by_cases ha : a = p
    · subst ha
      cases hfa : f a with
      | some x => rfl
      | none =>
        simp only [pick]
        by_cases hpt : a ∈ t
        · rw [ih (fun q hq => hother q (by simp [hq])) hpt, hfa]
        · apply firstSome_none
          intro q hq
          exact hother q (by simp [hq]) (fun h => hpt (h ▸ hq))
    · rw [hother a (by simp) ha]
      simp only [pick]
      rcases List.mem_cons.mp hp with h | h
      · exact absurd h.symm ha
      · exact ih (fun q hq => hother q (by simp [hq])) h

/-- decoding of a raw value by the three typed getters -/
def decString : Option Value → Except Err (Option String)
  | none => .ok none
  | some (.str s) => .ok (some s)
  | some _ => .error .type
def decInt : Option Value → Except Err (Option Int)
  | none => .ok none
  | some (.int i) => .ok (some i)
  | some _ => .error .type
def decBool : Option Value → Except Err (Option Bool)
  | none => .ok none
  | some (.bool b) => .ok (some b)
  | some (.str s) =>
    let l := lowerAscii s
    if l == "true" || l == "yes" || l == "on" then .ok (some true)
    else if l == "false" || l == "no" || l == "off" then .ok (some false)
    else .error .type
  | some _ => .error .type

theorem getString_eq (root : Value) (p : List String) : getString root p = decString (lookup root p) := by
  unfold getString decString; cases lookup root p with
  | none => rfl
  | some v => cases v <;> rfl
theorem getInt_eq (root : Value) (p : List String) : getInt root p = decInt (lookup root p) := by
  unfold getInt decInt; cases lookup root p with
  | none => rfl
  | some v => cases v <;> rfl
theorem getBool_eq (root : Value) (p : List String) : getBool root p = decBool (lookup root p) := by
  unfold getBool decBool; cases lookup root p with
  | none => rfl
  | some v => cases v <;> rfl

/-- `get_*_any` decodes the first spelling that is present -/
theorem getAny_eq {α} (get : Value → List String → Except Err (Option α)) (dec : Option Value → Except Err (Option α))
    (hget : ∀ root p, get root p = dec (lookup root p)) (hnone : dec none = .ok none)
    (hsome : ∀ v, dec (some v) ≠ .ok none) (root : Value) (spellings : List (List String)) :
    getAny get root spellings = dec (firstPresent root spellings) := by
  induction spellings with
  | nil => simp [getAny, firstPresent, firstSome, hnone]
  | cons p ps ih =>
    simp only [getAny, firstPresent, List.map_cons, firstSome, hget]
    cases hl : lookup root p with
    | none =>
      simp only [hnone, pick]
      exact ih
    | some v =>
      simp only [pick]
      cases hd : dec (some v) with
      | error e => rfl
      | ok o =>
        cases o with
        | none => exact absurd hd (hsome v)
        | some x => rfl

theorem decString_some (v : Value) : decString (some v) ≠ .ok none := by
  cases v <;> simp [decString]
theorem decInt_some (v : Value) : decInt (some v) ≠ .ok none := by
  cases v <;> simp [decInt]
theorem decBool_some (v : Value) : decBool (some v) ≠ .ok none := by
  cases v with
  | str s =>
    simp only [decBool]
    split
    · simp
    · split <;> simp
  | null => simp [decBool]
  | bool b => simp [decBool]
  | int i => simp [decBool]
  | obj o => simp [decBool]

theorem bind_ok {ε α β} {x : Except ε α} {f : α → Except ε β} {b : β} (h : x >>= f = .ok b) :
    ∃ a, x = .ok a ∧ f a = .ok b := by
  cases x with
  | error e => simp [bind, Except.bind] at h
  | ok a => exact ⟨a, rfl, h⟩

theorem chain_members_exist {profiles : Fields} {name : String} {names : List String} {chain : List Value}
    (h : ChainOf profiles name names chain) : ∀ m x, iterParent profiles m name = some x → (profiles.get x).isSome = true := by
  induction h with
  | root name fs hg he =>
    intro m x hx
    cases m with
    | zero => simp only [iterParent, Option.some.injEq] at hx; subst hx; simp [hg]
    | succ m => simp [iterParent, parentOf, hg, he] at hx
  | step name parent fs names chain hg he _ ih =>
    intro m x hx
    cases m with
    | zero => simp only [iterParent, Option.some.injEq] at hx; subst hx; simp [hg]
    | succ m =>
      simp only [iterParent, parentOf, hg, he] at hx
      exact ih m x hx


end EphVerif.C32L
