/-
Helper lemmas for C02 / C03 about the *generated* sanitising functions (`Generated/C02.lean`).
Every lemma unfolds the translated definition and closes the goal by linear arithmetic with case
splitting (`grind`), so an edited comparison or constant in the C++ changes the term and the lemma
is re-checked against it.  Literal numbers are the property's (5, 3600, 1, 86400, 24).
-/
import EphVerif.Model.Ttl

namespace EphVerif.C02L
open EphVerif.Gen.C02

/-- replace every generated constant by its value (whichever of them occur) -/
macro "gen_consts" : tactic =>
  `(tactic| try simp only [kMinKeyRotationInterval, kMaxKeyRotationInterval, kMinAllowedManifestTtl, kMaxAllowedManifestTtl,
      kMinAnnounceInterval, kMaxAnnounceWindow, kMaxAnnouncePowDifficulty, kMaxHandshakePowDifficulty, kMaxStorePowDifficulty,
      kMinimumTtl] at *)

theorem rotation_range (v : Int) :
    5 ≤ sanitize_key_rotation_interval v ∧ sanitize_key_rotation_interval v ≤ 3600 := by
  unfold sanitize_key_rotation_interval
  gen_consts
  grind

theorem manifest_min_range (v : Int) : 1 ≤ sanitize_manifest_min v ∧ sanitize_manifest_min v ≤ 86400 := by
  unfold sanitize_manifest_min
  gen_consts
  grind

theorem manifest_max_range (v mn : Int) (h1 : 1 ≤ mn) (h2 : mn ≤ 86400) :
    mn ≤ sanitize_manifest_max v mn ∧ sanitize_manifest_max v mn ≤ 86400 := by
  unfold sanitize_manifest_max
  gen_consts
  grind

theorem clamp_range (ttl mn mx : Int) (h1 : 1 ≤ mn) (h2 : mn ≤ mx) :
    mn ≤ clamp_chunk_ttl ttl mn mx ∧ clamp_chunk_ttl ttl mn mx ≤ mx := by
  unfold clamp_chunk_ttl
  gen_consts
  grind

theorem clamp_id (ttl mn mx : Int) (h1 : 1 ≤ mn) (h2 : mn ≤ ttl) (h3 : ttl ≤ mx) :
    clamp_chunk_ttl ttl mn mx = ttl := by
  unfold clamp_chunk_ttl
  gen_consts
  grind

/-- the TTL window of a configuration (what `sanitize_config` establishes) -/
structure Window (c : Cfg) : Prop where
  min_pos : 1 ≤ c.min_manifest_ttl
  min_le_max : c.min_manifest_ttl ≤ c.max_manifest_ttl
  max_le_day : c.max_manifest_ttl ≤ 86400
  min_le_default : c.min_manifest_ttl ≤ c.default_chunk_ttl
  default_le_max : c.default_chunk_ttl ≤ c.max_manifest_ttl

theorem window (cfg : Cfg) : Window (sanitize_config cfg) := by
  have h1 := manifest_min_range cfg.min_manifest_ttl
  have h2 := manifest_max_range cfg.max_manifest_ttl (sanitize_manifest_min cfg.min_manifest_ttl) h1.1 h1.2
  constructor <;> simp only [sanitize_config] <;> grind

/-- the TTL `store_chunk` hands to all four recording sites is the clamped one -/
theorem store_ttl_range (c : Cfg) (w : Window c) (ttl : Int) :
    c.min_manifest_ttl ≤ store_chunk_put_ttl ttl c ∧ store_chunk_put_ttl ttl c ≤ c.max_manifest_ttl := by
  unfold store_chunk_put_ttl
  exact clamp_range _ _ _ w.min_pos w.min_le_max

/-- `ChunkStore::put`'s own floor (and default fallback) is the identity on a TTL ≥ 1 s -/
theorem put_id (c : Cfg) (d : Int) (h : 1 ≤ d) : chunkstore_put_ttl d c = d := by
  unfold chunkstore_put_ttl
  gen_consts
  grind

end EphVerif.C02L
