/-
Helper lemmas for C24: the back-off arithmetic of `schedule_next_fetch_attempt` against the
property's "start at the initial back-off and double up to the maximum" (`C24Spec.delay`).
-/
import EphVerif.Model.Fetches
import EphVerif.Spec.Fetches

namespace EphVerif.Fetches

/-- (T) the exponent clamp in the working tree is the `8` of `2^8 = 256` in the specification -/
theorem expClamp_eq : expClamp = 8 := by decide

/-- (T) the doubling starts from factor 1 -/
theorem factorBase_eq : factorBase = 1 := by decide

theorem effBase_pos (cfg : Cfg) : 1 ≤ effBase cfg := by
  unfold effBase; split <;> omega

theorem two_pow_cast_pos (n : Nat) : (1 : Int) ≤ ((2 ^ n : Nat) : Int) := by
  have : 0 < 2 ^ n := Nat.pow_pos (by decide)
  omega

/-- the code's delay is the specification's `min(base·2^(k−1), cap)` for every attempt number -/
theorem backoff_eq_spec (cfg : Cfg) (k : Nat) (hk : 1 ≤ k) :
    backoffSeconds cfg k = C24Spec.delay (effBase cfg) cfg.maxBackoff k := by
  have hB := effBase_pos cfg
  unfold backoffSeconds C24Spec.delay C24Spec.cap
  have hk' : k > 0 := hk
  simp only [hk', if_true, expClamp_eq, factorBase_eq, Nat.one_mul]
  generalize k - 1 = n
  by_cases hle : n ≤ 8
  · rw [Nat.min_eq_left hle]
    have hP1 := two_pow_cast_pos n
    have hP2 : ((2 ^ n : Nat) : Int) ≤ 256 := by
      have : 2 ^ n ≤ 2 ^ 8 := Nat.pow_le_pow_right (by decide) hle
      have h8 : (2 : Nat) ^ 8 = 256 := by decide
      omega
    generalize ((2 ^ n : Nat) : Int) = P at *
    have h1 : effBase cfg * P ≤ effBase cfg * 256 := Int.mul_le_mul_of_nonneg_left hP2 (by omega)
    have h2 : effBase cfg * 1 ≤ effBase cfg * P := Int.mul_le_mul_of_nonneg_left hP1 (by omega)
    generalize effBase cfg * P = X at *
    generalize effBase cfg = B at *
    simp only [Int.min_def]
    split <;> split <;> split <;> (try split) <;> (try split) <;> omega
  · have hgt : 9 ≤ n := by omega
    rw [Nat.min_eq_right (by omega)]
    have hP2 : (256 : Int) ≤ ((2 ^ n : Nat) : Int) := by
      have : 2 ^ 8 ≤ 2 ^ n := Nat.pow_le_pow_right (by decide) (by omega)
      have h8 : (2 : Nat) ^ 8 = 256 := by decide
      omega
    have h8' : ((2 ^ 8 : Nat) : Int) = 256 := by decide
    rw [h8']
    generalize ((2 ^ n : Nat) : Int) = P at *
    have h1 : effBase cfg * 256 ≤ effBase cfg * P := Int.mul_le_mul_of_nonneg_left hP2 (by omega)
    generalize effBase cfg * P = X at *
    generalize effBase cfg = B at *
    simp only [Int.min_def]
    split <;> split <;> split <;> (try split) <;> (try split) <;> omega

end EphVerif.Fetches
