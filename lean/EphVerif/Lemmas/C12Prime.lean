/-
`2^31 − 1` has no divisor `d` with `2 ≤ d < 46341` (and `46341² > 2^31 − 1`): trial division run by
the kernel.  Kept in its own module because the evaluation takes about a minute.
-/
namespace EphVerif.C12L

/-- `p` has no divisor among `d, d+1, …, d+f−1` -/
def noDivFrom (p : Nat) : Nat → Nat → Bool
  | 0, _ => true
  | f + 1, d => (p % d != 0) && noDivFrom p f (d + 1)

theorem noDivFrom_sound (p : Nat) : ∀ f d, noDivFrom p f d = true → ∀ k, d ≤ k → k < d + f → p % k ≠ 0 := by
  intro f
  induction f with
  | zero => intro d _ k h1 h2; omega
  | succ f ih =>
    intro d h k h1 h2
    simp only [noDivFrom, Bool.and_eq_true, bne_iff_ne, ne_eq] at h
    by_cases hk : k = d
    · subst hk; exact h.1
    · exact ih (d + 1) h.2 k (by omega) (by omega)

theorem mersenne31_trial : noDivFrom 2147483647 46339 2 = true := by decide +kernel

theorem mersenne31_no_small_divisor (d : Nat) (h2 : 2 ≤ d) (h : d < 46341) : 2147483647 % d ≠ 0 :=
  noDivFrom_sound 2147483647 46339 2 mersenne31_trial d h2 (by omega)

end EphVerif.C12L
