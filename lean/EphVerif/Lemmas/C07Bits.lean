import EphVerif.Model.Routing
import EphVerif.Spec.Routing

/-!
Bit-level lemmas for C07: big-endian value of byte strings, XOR across the high byte, `Nat.log2`
of a value with a known top byte, the byte-wise `countl_zero` loop of `bucket_index_for`, and
byte-lexicographic order = numeric order.
-/
namespace EphVerif.C07L
open EphVerif.Routing EphVerif.C07Spec

/-- every element is a byte -/
def Bytes (l : List Nat) : Prop := ∀ b ∈ l, b < 256

theorem Bytes.tail {b : Nat} {l : List Nat} (h : Bytes (b :: l)) : Bytes l :=
  fun x hx => h x (List.mem_cons_of_mem _ hx)

theorem Bytes.head {b : Nat} {l : List Nat} (h : Bytes (b :: l)) : b < 256 :=
  h b (List.mem_cons_self)

theorem pow256 (n : Nat) : 256 ^ n = 2 ^ (8 * n) := by
  rw [Nat.pow_mul]

theorem toNat_lt (l : List Nat) (h : Bytes l) : toNat l < 256 ^ l.length := by
  induction l with
  | nil => simp [toNat]
  | cons b bs ih =>
    have hb := h.head
    have := ih h.tail
    simp only [toNat, List.length_cons, Nat.pow_succ]
    have h1 : (b + 1) * 256 ^ bs.length ≤ 256 * 256 ^ bs.length := Nat.mul_le_mul_right _ (by omega)
    rw [Nat.add_mul, Nat.one_mul] at h1
    rw [Nat.mul_comm (256 ^ bs.length) 256]
    omega

/-- a strictly smaller high part wins whatever the low parts are -/
theorem hi_lt {x y A B P : Nat} (h : x < y) (hA : A < P) : x * P + A < y * P + B := by
  have h1 : (x + 1) * P ≤ y * P := Nat.mul_le_mul_right _ h
  rw [Nat.add_mul, Nat.one_mul] at h1
  omega

theorem hi_lo_inj {x y A B P : Nat} (hA : A < P) (hB : B < P) (h : x * P + A = y * P + B) : x = y ∧ A = B := by
  rcases Nat.lt_trichotomy x y with hlt | heq | hgt
  · have := @hi_lt x y A B P hlt hA; omega
  · subst heq; omega
  · have := @hi_lt y x B A P hgt hB; omega

theorem toNat_inj : ∀ (a b : List Nat), a.length = b.length → Bytes a → Bytes b → toNat a = toNat b → a = b
  | [], [], _, _, _, _ => rfl
  | [], _ :: _, h, _, _, _ => by simp at h
  | _ :: _, [], h, _, _, _ => by simp at h
  | x :: as, y :: bs, hl, ha, hb, h => by
    simp only [List.length_cons, Nat.add_right_cancel_iff] at hl
    simp only [toNat, hl] at h
    have hA := toNat_lt as ha.tail
    have hB := toNat_lt bs hb.tail
    rw [hl] at hA
    obtain ⟨h1, h2⟩ := hi_lo_inj hA hB h
    rw [h1, toNat_inj as bs hl ha.tail hb.tail h2]

/-! ### XOR -/

theorem xor_eq_zero {a b : Nat} (h : a ^^^ b = 0) : a = b := by
  have : (a ^^^ b) ^^^ b = 0 ^^^ b := by rw [h]
  rwa [Nat.xor_assoc, Nat.xor_self, Nat.xor_zero, Nat.zero_xor] at this

theorem xor_eq_zero_iff {a b : Nat} : a ^^^ b = 0 ↔ a = b :=
  ⟨xor_eq_zero, fun h => by rw [h, Nat.xor_self]⟩

theorem xor_right_cancel {a b t : Nat} (h : a ^^^ t = b ^^^ t) : a = b := by
  have : (a ^^^ t) ^^^ t = (b ^^^ t) ^^^ t := by rw [h]
  rwa [Nat.xor_assoc, Nat.xor_assoc, Nat.xor_self, Nat.xor_zero, Nat.xor_zero] at this

/-- XOR splits across a high part and low parts below `2^k` -/
theorem xor_split (k a b A B : Nat) (hA : A < 2 ^ k) (hB : B < 2 ^ k) :
    (a * 2 ^ k + A) ^^^ (b * 2 ^ k + B) = (a ^^^ b) * 2 ^ k + (A ^^^ B) := by
  have hAB : A ^^^ B < 2 ^ k := Nat.xor_lt_two_pow hA hB
  apply Nat.eq_of_testBit_eq
  intro j
  rw [Nat.mul_comm a, Nat.mul_comm b, Nat.mul_comm (a ^^^ b)]
  rw [Nat.testBit_xor, Nat.testBit_two_pow_mul_add _ hA, Nat.testBit_two_pow_mul_add _ hB,
    Nat.testBit_two_pow_mul_add _ hAB]
  split <;> simp [Nat.testBit_xor]

/-! ### log2 -/

theorem log2_hi (k d r : Nat) (hd : d ≠ 0) (hr : r < 2 ^ k) : Nat.log2 (d * 2 ^ k + r) = k + Nat.log2 d := by
  have h1 := Nat.log2_self_le hd
  have h2 := @Nat.lt_log2_self d
  have hne : d * 2 ^ k + r ≠ 0 := by
    have : 0 < d * 2 ^ k := Nat.mul_pos (by omega) (Nat.two_pow_pos k)
    omega
  rw [Nat.log2_eq_iff hne]
  constructor
  · rw [Nat.pow_add, Nat.mul_comm]
    have := Nat.mul_le_mul_right (2 ^ k) h1
    omega
  · have h3 : (d + 1) * 2 ^ k ≤ 2 ^ (d.log2 + 1) * 2 ^ k := Nat.mul_le_mul_right _ h2
    rw [Nat.add_mul, Nat.one_mul] at h3
    rw [show k + d.log2 + 1 = (d.log2 + 1) + k by omega, Nat.pow_add]
    omega

/-- `countl_zero` of a non-zero byte, against `log2` -/
theorem clz8_log2 (d : Nat) (h0 : d ≠ 0) (h : d < 256) : clz8 d = 7 - Nat.log2 d := by
  unfold clz8
  have key : ∀ k, 2 ^ k ≤ d → d < 2 ^ (k + 1) → Nat.log2 d = k := fun k a b => (Nat.log2_eq_iff h0).2 ⟨a, b⟩
  split
  · rw [key 7 (by omega) (by omega)]
  split
  · rw [key 6 (by omega) (by omega)]
  split
  · rw [key 5 (by omega) (by omega)]
  split
  · rw [key 4 (by omega) (by omega)]
  split
  · rw [key 3 (by omega) (by omega)]
  split
  · rw [key 2 (by omega) (by omega)]
  split
  · rw [key 1 (by omega) (by omega)]
  split
  · rw [key 0 (by omega) (by omega)]
  · omega

theorem log2_byte_lt (d : Nat) (h0 : d ≠ 0) (h : d < 256) : Nat.log2 d < 8 :=
  (Nat.log2_lt h0).2 (by omega)

/-! ### the value of the XOR of two ids -/

theorem toNat_xor_lt (a b : List Nat) (hl : a.length = b.length) (ha : Bytes a) (hb : Bytes b) :
    toNat a ^^^ toNat b < 2 ^ (8 * a.length) := by
  have h1 := toNat_lt a ha
  have h2 := toNat_lt b hb
  rw [pow256] at h1 h2
  rw [← hl] at h2
  exact Nat.xor_lt_two_pow h1 h2

theorem toNat_cons_xor (x y : Nat) (as bs : List Nat) (hl : as.length = bs.length) (ha : Bytes as) (hb : Bytes bs) :
    toNat (x :: as) ^^^ toNat (y :: bs) = (x ^^^ y) * 2 ^ (8 * as.length) + (toNat as ^^^ toNat bs) := by
  have h1 := toNat_lt as ha
  have h2 := toNat_lt bs hb
  rw [pow256] at h1 h2
  rw [← hl] at h2
  simp only [toNat, ← hl, pow256]
  exact xor_split _ _ _ _ _ h1 h2

/-- the `for` loop of `bucket_index_for` counts the leading zero bits of `self xor peer` -/
theorem scan_eq : ∀ (a b : List Nat), a.length = b.length → Bytes a → Bytes b → ∀ lz,
    scan a b lz = if a = b then (lz + 8 * a.length, true)
                  else (lz + (8 * a.length - 1 - Nat.log2 (toNat a ^^^ toNat b)), false)
  | [], [], _, _, _, lz => by simp [scan]
  | [], _ :: _, h, _, _, _ => by simp at h
  | _ :: _, [], h, _, _, _ => by simp at h
  | x :: as, y :: bs, hl, ha, hb, lz => by
    simp only [List.length_cons, Nat.add_right_cancel_iff] at hl
    have ih := scan_eq as bs hl ha.tail hb.tail (lz + 8)
    have hx := toNat_cons_xor x y as bs hl ha.tail hb.tail
    have hlt := toNat_xor_lt as bs hl ha.tail hb.tail
    by_cases hd : x ^^^ y = 0
    · have hxy : x = y := xor_eq_zero hd
      subst hxy
      simp only [scan, hd, if_true, ih, List.cons.injEq, true_and, List.length_cons]
      rw [hx, hd, Nat.zero_mul, Nat.zero_add]
      by_cases he : as = bs
      · simp only [he, if_true]; congr 1; omega
      · simp only [he, if_false]
        have hne : toNat as ^^^ toNat bs ≠ 0 := fun h0 => he (toNat_inj as bs hl ha.tail hb.tail (xor_eq_zero h0))
        have : Nat.log2 (toNat as ^^^ toNat bs) < 8 * as.length := (Nat.log2_lt hne).2 hlt
        congr 1; omega
    · have hne : x ≠ y := fun h => hd (by rw [h, Nat.xor_self])
      have hd256 : x ^^^ y < 256 := Nat.xor_lt_two_pow (n := 8) ha.head hb.head
      have hl2 := log2_hi (8 * as.length) (x ^^^ y) (toNat as ^^^ toNat bs) hd hlt
      have hb8 := log2_byte_lt _ hd hd256
      simp only [scan, hd, if_false, List.cons.injEq, hne, false_and, List.length_cons]
      rw [hx, hl2, clz8_log2 _ hd hd256]
      congr 1; omega

/-- `bucket_index_for` returns the position of the highest set bit of `self xor peer`
    (`kIdBits` being 8 bits per id byte), and nothing for the local id itself -/
theorem bucketIndexFor_eq (self peer : List Nat) (hl : self.length = peer.length) (hk : kIdBits = 8 * self.length)
    (hs : Bytes self) (hp : Bytes peer) :
    bucketIndexFor self peer = if self = peer then none else some (Nat.log2 (toNat self ^^^ toNat peer)) := by
  unfold bucketIndexFor
  simp only [scan_eq self peer hl hs hp 0, hk]
  by_cases he : self = peer
  · simp [he]
  · simp only [he, if_false, Bool.false_or, decide_eq_true_eq, Nat.zero_add]
    have hne : toNat self ^^^ toNat peer ≠ 0 := fun h0 => he (toNat_inj _ _ hl hs hp (xor_eq_zero h0))
    have : Nat.log2 (toNat self ^^^ toNat peer) < 8 * self.length :=
      (Nat.log2_lt hne).2 (toNat_xor_lt _ _ hl hs hp)
    have h1 : ¬ (8 * self.length - 1 - Nat.log2 (toNat self ^^^ toNat peer) ≥ 8 * self.length) := by omega
    simp only [h1, if_false]
    congr 1; omega

/-! ### the highest differing bit -/

theorem highestDiff_bucketOf {a b : Nat} (h : a ≠ b) : HighestDiff a b (bucketOf a b) := by
  have hne : a ^^^ b ≠ 0 := fun h0 => h (xor_eq_zero h0)
  constructor
  · have := Nat.testBit_log2 hne
    rw [Nat.testBit_xor] at this
    unfold bucketOf
    intro heq; rw [heq] at this; simp at this
  · intro j hj
    have h1 : a ^^^ b < 2 ^ j :=
      Nat.lt_of_lt_of_le (@Nat.lt_log2_self (a ^^^ b)) (Nat.pow_le_pow_right (by omega) hj)
    have := Nat.testBit_lt_two_pow h1
    rw [Nat.testBit_xor] at this
    revert this; cases a.testBit j <;> cases b.testBit j <;> simp

theorem highestDiff_iff {a b i : Nat} : HighestDiff a b i ↔ a ≠ b ∧ i = bucketOf a b := by
  constructor
  · rintro ⟨h1, h2⟩
    have hab : a ≠ b := fun h => h1 (by rw [h])
    refine ⟨hab, ?_⟩
    have hne : a ^^^ b ≠ 0 := fun h0 => hab (xor_eq_zero h0)
    have hbit : (a ^^^ b).testBit i = true := by
      rw [Nat.testBit_xor]; revert h1; cases a.testBit i <;> cases b.testBit i <;> simp
    have hge := Nat.ge_two_pow_of_testBit hbit
    have hlt : a ^^^ b < 2 ^ (i + 1) := by
      apply Nat.lt_pow_two_of_testBit
      intro j hj
      rw [Nat.testBit_xor, h2 j (by omega)]; simp
    exact ((Nat.log2_eq_iff hne).2 ⟨hge, hlt⟩).symm
  · rintro ⟨h, rfl⟩; exact highestDiff_bucketOf h

/-! ### distances: bytes and numbers -/

theorem length_xorDistance (a b : List Nat) : (xorDistance a b).length = min a.length b.length := by
  simp [xorDistance]

theorem bytes_xorDistance : ∀ (a b : List Nat), Bytes a → Bytes b → Bytes (xorDistance a b)
  | [], _, _, _ => by simp [xorDistance, Bytes]
  | _ :: _, [], _, _ => by simp [xorDistance, Bytes]
  | x :: as, y :: bs, ha, hb => by
    intro c hc
    simp only [xorDistance, List.zipWith_cons_cons, List.mem_cons] at hc
    rcases hc with rfl | hc
    · exact Nat.xor_lt_two_pow (n := 8) ha.head hb.head
    · exact bytes_xorDistance as bs ha.tail hb.tail c hc

theorem toNat_xorDistance : ∀ (a b : List Nat), a.length = b.length → Bytes a → Bytes b →
    toNat (xorDistance a b) = toNat a ^^^ toNat b
  | [], [], _, _, _ => by simp [xorDistance, toNat]
  | [], _ :: _, h, _, _ => by simp at h
  | _ :: _, [], h, _, _ => by simp at h
  | x :: as, y :: bs, hl, ha, hb => by
    simp only [List.length_cons, Nat.add_right_cancel_iff] at hl
    rw [toNat_cons_xor x y as bs hl ha.tail hb.tail]
    have ih := toNat_xorDistance as bs hl ha.tail hb.tail
    have hlen : (xorDistance as bs).length = as.length := by rw [length_xorDistance]; omega
    simp only [xorDistance, List.zipWith_cons_cons, toNat] at ih ⊢
    rw [ih]
    simp only [xorDistance] at hlen
    rw [hlen, pow256]

/-- `std::lexicographical_compare` on equally long byte strings is `<` on their big-endian values -/
theorem lexLt_iff : ∀ (a b : List Nat), a.length = b.length → Bytes a → Bytes b →
    (lexLt a b = true ↔ toNat a < toNat b)
  | [], [], _, _, _ => by simp [lexLt, toNat]
  | [], _ :: _, h, _, _ => by simp at h
  | _ :: _, [], h, _, _ => by simp at h
  | x :: as, y :: bs, hl, ha, hb => by
    simp only [List.length_cons, Nat.add_right_cancel_iff] at hl
    have hA := toNat_lt as ha.tail
    have hB := toNat_lt bs hb.tail
    rw [hl] at hA
    simp only [lexLt, toNat, hl]
    by_cases h1 : x < y
    · simp only [h1, if_true, true_iff]; exact hi_lt h1 hA
    · by_cases h2 : y < x
      · have := @hi_lt y x (toNat bs) (toNat as) _ h2 hB
        simp only [h1, h2, if_false, if_true, Bool.false_eq_true, false_iff]; omega
      · have : x = y := by omega
        subst this
        simp only [Nat.lt_irrefl, if_false, lexLt_iff as bs hl ha.tail hb.tail]
        omega

end EphVerif.C07L
