/-
Helper lemmas for C03 about the generated `manifest_ttl` / `enforce_manifest_ttl` /
`announce_advertised_ttl` / `pending_manifest_expires` (`Generated/C02.lean`).
-/
import EphVerif.Lemmas.C02Window
import EphVerif.Model.ManifestTtl

namespace EphVerif.C03L
open EphVerif.Gen.C02 EphVerif.C02L

/-- an accepted manifest yields a TTL inside the window that does not reach past the manifest -/
theorem manifest_ttl_some (cfg : Cfg) (w : Window cfg) (E wall ttl : Int)
    (h : manifest_ttl E cfg wall = some ttl) :
    cfg.min_manifest_ttl ≤ ttl ∧ ttl ≤ cfg.max_manifest_ttl ∧ 1 ≤ ttl ∧ ttl * 1000000000 ≤ E - wall := by
  have := w.min_pos
  have := w.min_le_max
  unfold manifest_ttl enforce_manifest_ttl at h
  simp only [] at h
  by_cases h0 : E ≤ wall
  · simp [h0] at h
  · simp only [h0, if_false] at h
    rw [Int.tdiv_eq_ediv_of_nonneg (by omega)] at h
    grind

/-- an expired manifest, or one with less than the minimum TTL left, is refused -/
theorem manifest_ttl_none (cfg : Cfg) (w : Window cfg) (E wall : Int)
    (h : E ≤ wall ∨ E - wall < cfg.min_manifest_ttl * 1000000000) :
    manifest_ttl E cfg wall = none := by
  have := w.min_pos
  have := w.min_le_max
  unfold manifest_ttl enforce_manifest_ttl
  simp only []
  by_cases h0 : E ≤ wall
  · simp [h0]
  · simp only [h0, if_false]
    rw [Int.tdiv_eq_ediv_of_nonneg (by omega)]
    grind

/-- the advertised provider TTL is capped by the manifest's TTL (and stays ≥ min) -/
theorem advertised_range (cfg : Cfg) (w : Window cfg) (a ttl : Int)
    (h1 : cfg.min_manifest_ttl ≤ ttl) (h2 : ttl ≤ cfg.max_manifest_ttl) :
    cfg.min_manifest_ttl ≤ announce_advertised_ttl a ttl cfg ∧ announce_advertised_ttl a ttl cfg ≤ ttl := by
  have := w.min_pos
  unfold announce_advertised_ttl clamp_chunk_ttl
  gen_consts
  grind

/-- the recorded expiry of a pending fetch: not after the manifest, at most max_ttl ahead -/
theorem pending_expires_range (cfg : Cfg) (E wall : Int) :
    pending_manifest_expires E cfg wall ≤ E ∧
    pending_manifest_expires E cfg wall ≤ wall + cfg.max_manifest_ttl * 1000000000 := by
  unfold pending_manifest_expires
  grind

theorem pending_expires_pos (cfg : Cfg) (w : Window cfg) (E wall : Int) (h1 : 0 < wall) (h2 : wall < E) :
    0 < pending_manifest_expires E cfg wall := by
  have := w.min_pos
  have := w.min_le_max
  unfold pending_manifest_expires
  grind

end EphVerif.C03L
