/-
Refinement invariant between the ChunkStore model and the abstract store of `StoreSpec`,
and its preservation by every operation (C01).
-/
import EphVerif.Lemmas.C01Assoc

namespace EphVerif.ChunkStore
open EphVerif.StoreSpec (Op Obs Params Entry W last read readWire readRecord live judge)

/-- the specification parameters that belong to a node configuration -/
def paramsOf (nc : NodeCfg) : Params :=
  { defaultTtl := nc.store.defaultTtl, minTtl := nc.minTtl, maxTtl := nc.maxTtl, graceTtl := nc.minTtl }

/-- what `sanitize_config` guarantees (property C02) -/
def SaneCfg (nc : NodeCfg) : Prop := 1 ≤ nc.minTtl ∧ nc.minTtl ≤ nc.maxTtl

/-- model state `w` represents abstract state `a` -/
structure Rel (w : World) (a : W) : Prop where
  now_eq : w.now = a.now
  uniq : Uniq w.sys.recs
  sound : ∀ id r, aget w.sys.recs id = some r →
    ∃ e, last a.s id = some e ∧ e.wire = r.data ∧ e.bytes = r.plain ∧ e.deadline = r.expires
  complete : ∀ id e, last a.s id = some e → aget w.sys.recs id = none → e.deadline ≤ w.now

theorem expiredGet_iff (now e : Int) : expiredGet now e = true ↔ e ≤ now := by
  simp [expiredGet, EphVerif.Gen.C01.getRecordExpiredIsGe]
theorem expiredSweep_iff (now e : Int) : expiredSweep now e = true ↔ e ≤ now := by
  simp [expiredSweep, EphVerif.Gen.C01.sweepExpiredIsGe]
theorem expiredList_iff (now e : Int) : expiredList now e = true ↔ e ≤ now := by
  simp [expiredList, EphVerif.Gen.C01.listingExpiredIsGe]

theorem effTtl_eq (nc : NodeCfg) (ttl : Int) :
    effTtl nc.store ttl = EphVerif.StoreSpec.effStore (paramsOf nc) ttl := by
  simp only [effTtl, EphVerif.StoreSpec.effStore, paramsOf, EphVerif.Gen.C01.kMinimumTtlSec]
  split <;> split <;> omega

theorem nodeTtl_eq (nc : NodeCfg) (h : SaneCfg nc) (ttl : Int) :
    effTtl nc.store (nodeTtl nc ttl) = EphVerif.StoreSpec.effNode (paramsOf nc) ttl := by
  obtain ⟨h1, h2⟩ := h
  simp only [effTtl, nodeTtl, clampChunkTtl, EphVerif.StoreSpec.effNode, paramsOf,
    EphVerif.Gen.C01.kMinimumTtlSec, EphVerif.Gen.C01.kMinAllowedManifestTtlSec]
  split <;> split <;> split <;> split <;> split <;> omega

/-- a hit of `get_record` is the live last store -/
theorem getRecord_some {w : World} {a : W} (h : Rel w a) {id : String} {r : Rec}
    (hg : getRecord w.sys.recs w.now id = some r) :
    ∃ e, last a.s id = some e ∧ a.now < e.deadline ∧ e.wire = r.data ∧ e.bytes = r.plain ∧ e.deadline = r.expires := by
  unfold getRecord at hg
  cases hr : aget w.sys.recs id with
  | none => simp [hr] at hg
  | some r' =>
    simp only [hr] at hg
    by_cases hx : expiredGet w.now r'.expires = true
    · simp [hx] at hg
    · simp [hx] at hg
      subst hg
      obtain ⟨e, he, h1, h2, h3⟩ := h.sound id r' hr
      refine ⟨e, he, ?_, h1, h2, h3⟩
      have : ¬ r'.expires ≤ w.now := fun hh => hx ((expiredGet_iff w.now r'.expires).mpr hh)
      rw [← h.now_eq, h3]; omega

/-- a miss of `get_record` means the abstract store has nothing live -/
theorem getRecord_none {w : World} {a : W} (h : Rel w a) {id : String}
    (hg : getRecord w.sys.recs w.now id = none) :
    ∀ e, last a.s id = some e → e.deadline ≤ a.now := by
  intro e he
  unfold getRecord at hg
  cases hr : aget w.sys.recs id with
  | none => rw [← h.now_eq]; exact h.complete id e he hr
  | some r' =>
    simp only [hr] at hg
    by_cases hx : expiredGet w.now r'.expires = true
    · obtain ⟨e', he', _, _, h3⟩ := h.sound id r' hr
      rw [he] at he'; cases he'
      have := (expiredGet_iff w.now r'.expires).mp hx
      rw [← h.now_eq, h3]; exact this
    · simp [hx] at hg

/-- conversely: something live in the abstract store is a hit -/
theorem getRecord_of_live {w : World} {a : W} (h : Rel w a) {id : String} {e : Entry}
    (he : last a.s id = some e) (hl : a.now < e.deadline) :
    ∃ r, getRecord w.sys.recs w.now id = some r ∧ e.wire = r.data ∧ e.bytes = r.plain ∧ e.deadline = r.expires := by
  cases hg : getRecord w.sys.recs w.now id with
  | none => have := getRecord_none h hg e he; omega
  | some r =>
    obtain ⟨e', he', _, h1, h2, h3⟩ := getRecord_some h hg
    rw [he] at he'; cases he'
    exact ⟨r, rfl, h1, h2, h3⟩

/-! ### preservation -/

theorem rel_put {nc : NodeCfg} (φ : Faults) {w : World} {a : W} (h : Rel w a) (id : String) (data plain : Bytes)
    (ttl : Int) (nonce : Bytes) (enc : Bool) (dl : Int)
    (hdl : dl = w.now + effTtl nc.store ttl * nsPerSec) :
    Rel { w with sys := sysPutF nc.store φ w.sys w.now id data plain ttl nonce enc }
        { a with s := ⟨id, plain, data, dl⟩ :: a.s } := by
  refine ⟨h.now_eq, uniq_aset h.uniq _ _, ?_, ?_⟩
  · intro id' r hr
    by_cases hid : id = id'
    · subst hid
      simp only [sysPutF, aget_aset_self] at hr
      cases hr
      exact ⟨⟨id, plain, data, dl⟩, by simp [last], rfl, rfl, by simp [mkRecP, mkRec, hdl]⟩
    · simp only [sysPutF, aget_aset_ne _ _ hid] at hr
      obtain ⟨e, he, h1⟩ := h.sound id' r hr
      exact ⟨e, by simp [last, hid, he], h1⟩
  · intro id' e he hn
    by_cases hid : id = id'
    · subst hid
      simp [sysPutF, aget_aset_self] at hn
    · simp only [sysPutF, aget_aset_ne _ _ hid] at hn
      simp only [last, hid, if_false] at he
      exact h.complete id' e he hn

theorem rel_sweep {cfg : Cfg} (φ : Faults) {w : World} {a : W} (h : Rel w a) :
    Rel { w with sys := (sysSweepF cfg φ w.sys w.now).1 } a := by
  refine ⟨h.now_eq, uniq_filter h.uniq _, ?_, ?_⟩
  · intro id r hr
    simp only [sysSweepF, sweep] at hr
    rw [aget_filter h.uniq] at hr
    cases hg : aget w.sys.recs id with
    | none => simp [hg] at hr
    | some r' =>
      simp only [hg] at hr
      split at hr
      · cases hr; exact h.sound id _ hg
      · cases hr
  · intro id e he hn
    simp only [sysSweepF, sweep] at hn
    rw [aget_filter h.uniq] at hn
    cases hg : aget w.sys.recs id with
    | none => exact h.complete id e he hg
    | some r' =>
      simp only [hg] at hn
      split at hn
      · cases hn
      · rename_i hx
        obtain ⟨e', he', _, _, h3⟩ := h.sound id r' hg
        rw [he] at he'; cases he'
        simp at hx
        have := (expiredSweep_iff w.now r'.expires).mp hx
        show e.deadline ≤ w.now
        rw [h3]; exact this

theorem rel_advance {w : World} {a : W} (h : Rel w a) (d : Nat) :
    Rel { w with now := w.now + d } { a with now := a.now + d } := by
  refine ⟨by simp [h.now_eq], h.uniq, h.sound, ?_⟩
  intro id e he hn
  have := h.complete id e he hn
  show e.deadline ≤ w.now + d
  omega

/-- one step of the model (under any I/O errors) and the specification keeps them related -/
theorem rel_stepF {nc : NodeCfg} (hs : SaneCfg nc) (φ : Faults) {w : World} {a : W} (h : Rel w a) (op : Op) :
    Rel (stepF nc φ w op).1 (EphVerif.StoreSpec.step (paramsOf nc) a op) := by
  cases op with
  | store id data ttl nonce enc =>
    simp only [stepF, EphVerif.StoreSpec.step]
    exact rel_put φ h id data data ttl nonce enc _ (by rw [← h.now_eq, effTtl_eq]; rfl)
  | nstore id plain cipher nonce ttl =>
    simp only [stepF, EphVerif.StoreSpec.step, nodeStoreF]
    exact rel_put φ h id cipher plain (nodeTtl nc ttl) nonce true _ (by rw [← h.now_eq, nodeTtl_eq nc hs]; rfl)
  | lookup id => exact h
  | record id => exact h
  | fetch id => exact h
  | request id => exact h
  | list => exact h
  | sweep => exact rel_sweep φ h
  | tick =>
    simp only [stepF, EphVerif.StoreSpec.step, nodeTickF]
    split
    · exact ⟨h.now_eq, (rel_sweep (cfg := nc.store) φ h).uniq, (rel_sweep (cfg := nc.store) φ h).sound,
        (rel_sweep (cfg := nc.store) φ h).complete⟩
    · exact h
  | advance d => exact rel_advance h d

theorem rel_step {nc : NodeCfg} (hs : SaneCfg nc) {w : World} {a : W} (h : Rel w a) (op : Op) :
    Rel (step nc w op).1 (EphVerif.StoreSpec.step (paramsOf nc) a op) := rel_stepF hs [] h op

end EphVerif.ChunkStore
