/-
Helper lemmas for C13: the branch-free tag comparison of `HmacSha256::verify` is equality, and the
two spans `decode_signed` cuts are `take`/`drop` at `size - 32`.  Core Lean only.
-/
import EphVerif.Lemmas.C16Total

namespace EphVerif.Message
open EphVerif.Gen.C15

theorem foldl_or_eq_zero (l : List UInt8) (acc : UInt8) :
    l.foldl (· ||| ·) acc = 0 ↔ acc = 0 ∧ ∀ x ∈ l, x = 0 := by
  induction l generalizing acc with
  | nil => simp
  | cons x l ih =>
    simp only [List.foldl_cons, ih, UInt8.or_eq_zero_iff, List.mem_cons, forall_eq_or_imp]
    constructor
    · rintro ⟨⟨h1, h2⟩, h3⟩; exact ⟨h1, h2, h3⟩
    · rintro ⟨h1, h2, h3⟩; exact ⟨⟨h1, h2⟩, h3⟩

theorem zipWith_xor_all_zero (xs ys : List UInt8) (h : xs.length = ys.length) :
    (∀ x ∈ List.zipWith (· ^^^ ·) xs ys, x = 0) ↔ xs = ys := by
  induction xs generalizing ys with
  | nil => cases ys <;> simp_all
  | cons x xs ih =>
    cases ys with
    | nil => simp at h
    | cons y ys =>
      simp only [List.length_cons, Nat.add_right_cancel_iff] at h
      simp only [List.zipWith_cons_cons, List.mem_cons, forall_eq_or_imp, UInt8.xor_eq_zero_iff, ih ys h, List.cons.injEq]

/-- `diff |= expected[i] ^ mac[i]` over equally long strings ends at 0 exactly when they are equal -/
theorem ctCompare_iff (xs ys : List UInt8) (h : xs.length = ys.length) :
    ((List.zipWith (· ^^^ ·) xs ys).foldl (· ||| ·) (0 : UInt8) == 0) = true ↔ xs = ys := by
  rw [beq_iff_eq, foldl_or_eq_zero, zipWith_xor_all_zero xs ys h]
  simp

/-- `HmacSha256::verify` accepts exactly the tag `mac key data` (for a MAC with 32-byte output) -/
theorem hmacVerify_iff (mac : Bytes → Bytes → Bytes) (hlen : ∀ k d, (mac k d).length = 32) (key data tag : Bytes) :
    hmacVerify mac key data tag = true ↔ tag = mac key data := by
  unfold hmacVerify
  have hd : kDigestSize = 32 := rfl
  split
  · rename_i hne
    constructor
    · intro h; cases h
    · intro h; rw [h, hlen, hd] at hne; exact absurd rfl hne
  · rename_i heq
    have heq : tag.length = 32 := by simpa [hd] using heq
    rw [ctCompare_iff _ _ (by rw [hlen, heq])]
    exact eq_comm

/-- `decode_signed` unfolded: reject below 32 bytes, else verify and decode the first `size-32` bytes -/
theorem decodeSigned_eq (mac : Bytes → Bytes → Bytes) (buf key : Bytes) :
    decodeSigned mac buf key =
      if buf.length < 32 then .reject
      else if hmacVerify mac key (buf.take (buf.length - 32)) (buf.drop (buf.length - 32)) then
        decode (buf.take (buf.length - 32))
      else .reject := by
  unfold decodeSigned spanFirst spanLast
  have hd : kDigestSize = 32 := rfl
  rw [hd]
  split
  · rfl
  · dsimp only
    rw [if_pos (by omega), if_pos (by omega)]
    simp only [chk_some]
    cases hmacVerify mac key (List.take (buf.length - 32) buf) (List.drop (buf.length - 32) buf) <;> simp

/-- split of `body ++ tag` at `size − 32` -/
theorem split_body_tag (body tag : Bytes) (ht : tag.length = 32) :
    (body ++ tag).length - 32 = body.length ∧ (body ++ tag).take ((body ++ tag).length - 32) = body ∧
      (body ++ tag).drop ((body ++ tag).length - 32) = tag := by
  have : (body ++ tag).length - 32 = body.length := by simp [ht]
  rw [this]; simp

end EphVerif.Message
