import EphVerif.Model.ConfigLayers
/-! Helper lemmas for C32 (configuration layers): association lists, `merge`, `lookup`, profile chains. -/
namespace EphVerif.C32L
open EphVerif.ConfigLayers

/-! ### association lists -/

theorem get_cons (k q : String) (v : Value) (rest : Fields) :
    (Fields.cons k v rest).get q = if k = q then some v else rest.get q := rfl

theorem get_erase (k q : String) : ∀ fs : Fields, (fs.erase k).get q = if q = k then none else fs.get q
  | .nil => by simp [Fields.erase, Fields.get]
  | .cons k' v rest => by
    have ih := get_erase k q rest
    simp only [Fields.erase]
    by_cases hk : k' = k
    · rw [if_pos hk, ih, get_cons]
      by_cases hq : q = k
      · simp [hq]
      · have : ¬ k' = q := fun h => hq (by rw [← h, hk])
        simp [hq, this]
    · rw [if_neg hk, get_cons, get_cons, ih]
      by_cases hq : q = k
      · have : ¬ k' = q := fun h => hk (h.trans hq)
        rw [if_neg this, if_pos hq, if_pos hq]
      · rw [if_neg hq, if_neg hq]

theorem get_set (k q : String) (v : Value) (fs : Fields) :
    (fs.set k v).get q = if k = q then some v else fs.get q := by
  simp only [Fields.set, get_cons, get_erase]
  by_cases h : k = q
  · simp [h]
  · have : ¬ q = k := fun h' => h h'.symm
    simp [h, this]

theorem mergeFields_cons (k : String) (v : Value) (rest base : Fields) :
    mergeFields (.cons k v rest) base = (mergeFields rest base).set k (combine v (base.get k)) := by
  rw [mergeFields]

theorem get_mergeFields (base : Fields) (q : String) : ∀ ofs : Fields,
    (mergeFields ofs base).get q =
      match ofs.get q with
      | some v => some (combine v (base.get q))
      | none => base.get q
  | .nil => by simp [mergeFields, Fields.get]
  | .cons k v rest => by
    have ih := get_mergeFields base q rest
    rw [mergeFields_cons, get_set, get_cons]
    by_cases h : k = q
    · subst h; simp
    · simp only [h, if_false]; exact ih

theorem merge_obj (ofs : Fields) (a : Value) : merge (.obj ofs) a = .obj (mergeFields ofs a.fields) := by
  rw [merge]

theorem merge_nonobj (b a : Value) (h : b.isObj = false) : merge b a = b := by
  cases b <;> first | rfl | (simp [Value.isObj] at h)

theorem combine_obj (vf cf : Fields) : combine (.obj vf) (some (.obj cf)) = merge (.obj vf) (.obj cf) := by
  rw [combine, merge]; rfl

theorem combine_none (v : Value) : combine v none = v := by
  cases v <;> rw [combine] <;> simp

theorem combine_nonobj_right (v c : Value) (h : c.isObj = false) : combine v (some c) = v := by
  cases c with
  | obj cf => simp [Value.isObj] at h
  | null => cases v <;> rw [combine] <;> simp
  | bool b => cases v <;> rw [combine] <;> simp
  | int i => cases v <;> rw [combine] <;> simp
  | str t => cases v <;> rw [combine] <;> simp

theorem combine_nonobj_left (v : Value) (cur : Option Value) (h : v.isObj = false) : combine v cur = v := by
  cases v with
  | obj vf => simp [Value.isObj] at h
  | null => rw [combine]; simp
  | bool b => rw [combine]; simp
  | int i => rw [combine]; simp
  | str t => rw [combine]; simp

/-! ### lookups through a merge -/

def pick {α} (a b : Option α) : Option α :=
  match a with
  | some x => some x
  | none => b

def firstSome {α} : List (Option α) → Option α
  | [] => none
  | a :: r => pick a (firstSome r)

/-- along `p` the tree only has mappings above the leaf, and the leaf (if present) is not a mapping -/
def Clean : List String → Value → Prop
  | [], v => v.isObj = false
  | k :: ks, v => ∃ fs, v = .obj fs ∧ ∀ c, fs.get k = some c → Clean ks c

theorem lookup_nonobj (v : Value) (h : v.isObj = false) (k : String) (ks : List String) : lookup v (k :: ks) = none := by
  cases v <;> first | rfl | (simp [Value.isObj] at h)

theorem lookup_fields (a : Value) (k : String) (ks : List String) :
    lookup a (k :: ks) = match a.fields.get k with | some c => lookup c ks | none => none := by
  cases a <;> rfl

theorem clean_nonobj_nil {v : Value} {ks : List String} (hc : Clean ks v) (hv : v.isObj = false) : ks = [] := by
  cases ks with
  | nil => rfl
  | cons k ks' =>
    obtain ⟨fs, hfs, _⟩ := hc
    subst hfs
    simp [Value.isObj] at hv

theorem exists_obj {v : Value} (h : v.isObj = true) : ∃ fs, v = .obj fs := by
  cases v <;> first | exact ⟨_, rfl⟩ | (simp [Value.isObj] at h)

/-- how an overlay entry `v` (clean along `ks`) combines with what the base has under the same key -/
theorem lookup_combine (ks : List String)
    (ih : ∀ (b a : Value), Clean ks b → lookup (merge b a) ks = pick (lookup b ks) (lookup a ks))
    (v : Value) (cur : Option Value) (hcv : Clean ks v) :
    lookup (combine v cur) ks = pick (lookup v ks) (match cur with | some c => lookup c ks | none => none) := by
  cases cur with
  | none =>
    rw [combine_none]
    cases lookup v ks <;> rfl
  | some c =>
    by_cases hvo : v.isObj = true
    · by_cases hco : c.isObj = true
      · obtain ⟨vf, hvf⟩ := exists_obj hvo
        obtain ⟨cf, hcf⟩ := exists_obj hco
        subst hvf hcf
        rw [combine_obj, ih _ _ hcv]
      · have hco' : c.isObj = false := by simpa using hco
        rw [combine_nonobj_right v c hco']
        cases ks with
        | nil =>
          have : v.isObj = false := hcv
          rw [this] at hvo; cases hvo
        | cons k' ks' =>
          simp only [lookup_nonobj c hco' k' ks']
          cases lookup v (k' :: ks') <;> rfl
    · have hvo' : v.isObj = false := by simpa using hvo
      rw [combine_nonobj_left v _ hvo']
      have hks := clean_nonobj_nil hcv hvo'
      subst hks
      rfl

/-- **merge_lookup** (general form): if the overlay `b` is clean along `p`, the value at `p` in `merge_objects(a, b)` is
`b`'s when `b` defines `p`, otherwise `a`'s. -/
theorem lookup_merge (p : List String) : ∀ (b a : Value), Clean p b →
    lookup (merge b a) p = pick (lookup b p) (lookup a p) := by
  induction p with
  | nil =>
    intro b a hc
    rw [merge_nonobj b a hc]
    rfl
  | cons k ks ih =>
    intro b a hc
    obtain ⟨ofs, hb, hch⟩ := hc
    subst hb
    rw [merge_obj, lookup_fields, lookup_fields (.obj ofs), lookup_fields a]
    generalize a.fields = afs
    simp only [Value.fields, get_mergeFields]
    cases hv : ofs.get k with
    | none => simp only [pick]
    | some v =>
      simp only []
      exact lookup_combine ks ih v (afs.get k) (hch v hv)

theorem clean_combine (ks : List String)
    (ih : ∀ (b a : Value), Clean ks b → Clean ks a → Clean ks (merge b a))
    (v : Value) (cur : Option Value) (hcv : Clean ks v) (hcc : ∀ c, cur = some c → Clean ks c) :
    Clean ks (combine v cur) := by
  cases cur with
  | none => rw [combine_none]; exact hcv
  | some c =>
    by_cases hvo : v.isObj = true
    · by_cases hco : c.isObj = true
      · obtain ⟨vf, hvf⟩ := exists_obj hvo
        obtain ⟨cf, hcf⟩ := exists_obj hco
        subst hvf hcf
        rw [combine_obj]
        exact ih _ _ hcv (hcc _ rfl)
      · have hco' : c.isObj = false := by simpa using hco
        rw [combine_nonobj_right v c hco']; exact hcv
    · have hvo' : v.isObj = false := by simpa using hvo
      rw [combine_nonobj_left v _ hvo']; exact hcv

/-- cleanliness is preserved by merging -/
theorem clean_merge (p : List String) : ∀ (b a : Value), Clean p b → Clean p a → Clean p (merge b a) := by
  induction p with
  | nil => intro b a hb _; rw [merge_nonobj b a hb]; exact hb
  | cons k ks ih =>
    intro b a hb ha
    obtain ⟨ofs, hbo, hbc⟩ := hb
    obtain ⟨afs, hao, hac⟩ := ha
    subst hbo hao
    rw [merge_obj]
    refine ⟨_, rfl, ?_⟩
    intro c hc
    simp only [Value.fields, get_mergeFields] at hc
    cases hv : ofs.get k with
    | none => rw [hv] at hc; exact hac c hc
    | some v =>
      rw [hv] at hc
      simp only [Option.some.injEq] at hc
      subst hc
      exact clean_combine ks ih v (afs.get k) (hbc v hv) (fun c hcur => hac c hcur)

theorem clean_empty (k : String) (ks : List String) : Clean (k :: ks) Value.emptyObj :=
  ⟨.nil, rfl, fun c hc => by simp [Fields.get] at hc⟩

theorem lookup_empty (k : String) (ks : List String) : lookup Value.emptyObj (k :: ks) = none := rfl

/-! ### profile chains -/

/-- `resolve_profile` of a chain of own mappings (nearest first): ancestors first, descendants on top -/
def chainMerge : List Value → Value
  | [] => Value.emptyObj
  | own :: rest => mergeObjects (chainMerge rest) own

theorem lookup_chain (k : String) (ks : List String) (chain : List Value) (hc : ∀ l ∈ chain, Clean (k :: ks) l) :
    lookup (chainMerge chain) (k :: ks) = firstSome (chain.map (lookup · (k :: ks))) := by
  induction chain with
  | nil => rfl
  | cons own rest ih =>
    simp only [chainMerge, mergeObjects, List.map_cons, firstSome]
    rw [lookup_merge _ _ _ (hc own (by simp)), ih (fun l hl => hc l (by simp [hl]))]

theorem clean_chain (k : String) (ks : List String) (chain : List Value) (hc : ∀ l ∈ chain, Clean (k :: ks) l) :
    Clean (k :: ks) (chainMerge chain) := by
  induction chain with
  | nil => exact clean_empty k ks
  | cons own rest ih =>
    simp only [chainMerge, mergeObjects]
    exact clean_merge _ _ _ (hc own (by simp)) (ih (fun l hl => hc l (by simp [hl])))

/-- the `extends` chain starting at a profile: names visited and own mappings (without `extends`), nearest first -/
inductive ChainOf (profiles : Fields) : String → List String → List Value → Prop
  | root (name : String) (fs : Fields) :
      profiles.get name = some (.obj fs) → fs.get "extends" = none →
      ChainOf profiles name [name] [.obj (fs.erase "extends")]
  | step (name parent : String) (fs : Fields) (names : List String) (chain : List Value) :
      profiles.get name = some (.obj fs) → fs.get "extends" = some (.str parent) →
      ChainOf profiles parent names chain →
      ChainOf profiles name (name :: names) (.obj (fs.erase "extends") :: chain)

theorem resolve_ok (profiles : Fields) : ∀ (fuel : Nat) (vis : List String) (name : String) (v : Value),
    resolve profiles fuel vis name = .ok v →
    ∃ names chain, ChainOf profiles name names chain ∧ v = chainMerge chain ∧ (∀ n ∈ names, n ∉ vis) ∧ names.Nodup := by
  intro fuel
  induction fuel with
  | zero => intro vis name v h; simp [resolve] at h
  | succ fuel ih =>
    intro vis name v h
    rw [resolve] at h
    cases hg : profiles.get name with
    | none => rw [hg] at h; simp at h
    | some pv =>
      rw [hg] at h
      cases pv with
      | obj fs =>
        simp only [] at h
        by_cases hvis : vis.contains name = true
        · rw [if_pos hvis] at h; simp at h
        · rw [if_neg hvis] at h
          have hnv : name ∉ vis := by simpa using hvis
          cases he : fs.get "extends" with
          | none =>
            rw [he] at h
            simp only [Except.ok.injEq] at h
            refine ⟨[name], [.obj (fs.erase "extends")], ChainOf.root name fs hg he, ?_, ?_, by simp⟩
            · rw [← h]; rfl
            · intro n hn; simp at hn; subst hn; exact hnv
          | some ev =>
            rw [he] at h
            cases ev with
            | str parent =>
              simp only [] at h
              cases hr : resolve profiles fuel (name :: vis) parent with
              | error e => rw [hr] at h; simp at h
              | ok base =>
                rw [hr] at h
                simp only [Except.ok.injEq] at h
                obtain ⟨names, chain, hch, hb, hnot, hnd⟩ := ih (name :: vis) parent base hr
                refine ⟨name :: names, .obj (fs.erase "extends") :: chain, ChainOf.step name parent fs names chain hg he hch, ?_, ?_, ?_⟩
                · rw [← h, hb]; rfl
                · intro n hn
                  rcases List.mem_cons.mp hn with hn | hn
                  · subst hn; exact hnv
                  · intro hv; exact hnot n hn (List.mem_cons_of_mem _ hv)
                · refine List.nodup_cons.mpr ⟨?_, hnd⟩
                  intro hmem
                  exact hnot name hmem (by simp)
            | null => simp at h
            | bool b => simp at h
            | int i => simp at h
            | obj o => simp at h
      | null => simp at h
      | bool b => simp at h
      | int i => simp at h
      | str s => simp at h

/-! ### the recursion budget always suffices (termination measure `|profiles| − |visiting|`) -/

theorem length_filter_ne (k : String) (l : List String) (hnd : l.Nodup) :
    l.length ≤ (l.filter (fun x => x != k)).length + 1 := by
  induction l with
  | nil => simp
  | cons a t ih =>
    have hnd' := (List.nodup_cons.mp hnd)
    by_cases ha : a = k
    · subst ha
      have hall : t.filter (fun x => x != a) = t := by
        apply List.filter_eq_self.mpr
        intro x hx
        have : x ≠ a := fun h => hnd'.1 (h ▸ hx)
        simpa using this
      simp [hall]
    · have := ih hnd'.2
      simp [ha]
      omega

/-- pigeonhole: distinct names that all occur as keys are at most as many as there are entries -/
theorem nodup_keys_length : ∀ (fs : Fields) (l : List String), l.Nodup → (∀ n ∈ l, (fs.get n).isSome = true) →
    l.length ≤ fs.length
  | .nil, l, _, hall => by
    cases l with
    | nil => simp [Fields.length]
    | cons a t => have := hall a (by simp); simp [Fields.get] at this
  | .cons k v rest, l, hnd, hall => by
    have h1 := length_filter_ne k l hnd
    have h2 : (l.filter (fun x => x != k)).length ≤ rest.length := by
      apply nodup_keys_length rest
      · exact hnd.sublist List.filter_sublist
      · intro n hn
        have hm := List.mem_filter.mp hn
        have hne : n ≠ k := by simpa using hm.2
        have := hall n hm.1
        rw [get_cons] at this
        have hkn : ¬ k = n := fun h => hne h.symm
        simpa [hkn] using this
    simp only [Fields.length]
    omega

theorem resolve_fuel (profiles : Fields) : ∀ (fuel : Nat) (vis : List String) (name : String),
    vis.Nodup → (∀ n ∈ vis, (profiles.get n).isSome = true) → profiles.length + 1 ≤ vis.length + fuel →
    resolve profiles fuel vis name ≠ .error .fuel := by
  intro fuel
  induction fuel with
  | zero =>
    intro vis name hnd hall hlen
    have := nodup_keys_length profiles vis hnd hall
    omega
  | succ fuel ih =>
    intro vis name hnd hall hlen
    rw [resolve]
    cases hg : profiles.get name with
    | none => simp
    | some pv =>
      cases pv with
      | obj fs =>
        simp only []
        by_cases hvis : vis.contains name = true
        · rw [if_pos hvis]; simp
        · rw [if_neg hvis]
          have hnv : name ∉ vis := by simpa using hvis
          cases he : fs.get "extends" with
          | none => simp
          | some ev =>
            cases ev with
            | str parent =>
              simp only []
              have hrec := ih (name :: vis) parent (List.nodup_cons.mpr ⟨hnv, hnd⟩)
                (by
                  intro n hn
                  rcases List.mem_cons.mp hn with hn | hn
                  · subst hn; simp [hg]
                  · exact hall n hn)
                (by simp only [List.length_cons]; omega)
              cases hr : resolve profiles fuel (name :: vis) parent with
              | error e =>
                simp only []
                intro hcontra
                injection hcontra with hcontra
                subst hcontra
                exact hrec hr
              | ok base => simp
            | null => simp
            | bool b => simp
            | int i => simp
            | obj o => simp
      | null => simp
      | bool b => simp
      | int i => simp
      | str s => simp

/-! ### following `extends` links -/

/-- the profile a profile extends (when it exists, is a mapping, and names its parent with a text value) -/
def parentOf (profiles : Fields) (name : String) : Option String :=
  match profiles.get name with
  | some (.obj fs) =>
    match fs.get "extends" with
    | some (.str parent) => some parent
    | _ => none
  | _ => none

def iterParent (profiles : Fields) : Nat → String → Option String
  | 0, name => some name
  | n + 1, name =>
    match parentOf profiles name with
    | some p => iterParent profiles n p
    | none => none

theorem iterParent_add (profiles : Fields) (a b : Nat) (name : String) :
    iterParent profiles (a + b) name = (iterParent profiles a name).bind (iterParent profiles b) := by
  induction a generalizing name with
  | zero => simp [iterParent]
  | succ a ih =>
    have : a + 1 + b = (a + b) + 1 := by omega
    rw [this]
    simp only [iterParent]
    cases parentOf profiles name with
    | none => rfl
    | some p => exact ih p

/-- a chain ends: some ancestor has no parent -/
theorem chain_ends {profiles : Fields} {name : String} {names : List String} {chain : List Value}
    (h : ChainOf profiles name names chain) : iterParent profiles names.length name = none := by
  induction h with
  | root name fs hg he => simp [iterParent, parentOf, hg, he]
  | step name parent fs names chain hg he _ ih =>
    simp only [List.length_cons, iterParent, parentOf, hg, he]
    exact ih

theorem iterParent_none_mono (profiles : Fields) (a b : Nat) (name : String) (h : iterParent profiles a name = none) :
    iterParent profiles (a + b) name = none := by
  rw [iterParent_add, h]; rfl

theorem iterParent_cycle (profiles : Fields) (n : Nat) (name : String) (h : iterParent profiles n name = some name) :
    ∀ j, iterParent profiles (n * j) name = some name := by
  intro j
  induction j with
  | zero => simp [iterParent]
  | succ j ih =>
    have : n * (j + 1) = n * j + n := by rw [Nat.mul_succ]
    rw [this, iterParent_add, ih]
    exact h

end EphVerif.C32L
