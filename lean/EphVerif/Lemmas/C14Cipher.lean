/-
C14 helper lemmas about the RFC 8439 specification itself (no reference to the C++ model of C09):
for a 32-byte key and a 12-byte nonce every key-stream block has 64 bytes, the cipher preserves
lengths and applying it twice with the same key, nonce and counter is the identity.
-/
import EphVerif.Spec.ChaCha20

namespace EphVerif.Frames.Cipher
open EphVerif.Spec EphVerif.Spec.ChaCha

theorem leWords_length : ∀ (l : List UInt8), (leWords l).length = l.length / 4
  | [] => rfl
  | [_] => by simp [leWords]
  | [_, _] => by simp [leWords]
  | [_, _, _] => by simp [leWords]
  | _ :: _ :: _ :: _ :: rest => by
    simp only [leWords, List.length_cons, leWords_length rest]
    omega

theorem qrAt_length (s : State) (x y z w : Nat) : (qrAt s x y z w).length = s.length := by
  simp [qrAt]

theorem innerBlock_length (s : State) : (innerBlock s).length = s.length := by
  simp [innerBlock, qrAt_length]

theorem innerBlocks_length (n : Nat) (s : State) : (innerBlocks n s).length = s.length := by
  induction n generalizing s with
  | zero => rfl
  | succ n ih => rw [innerBlocks, ih, innerBlock_length]

theorem initState_length (key nonce : List UInt8) (counter : UInt32) (hk : key.length = 32) (hn : nonce.length = 12) :
    (initState key counter nonce).length = 16 := by
  simp [initState, sigma, leWords_length, hk, hn]

theorem serialize_length (s : State) : (serialize s).length = 4 * s.length := by
  induction s with
  | nil => rfl
  | cons w ws ih =>
    simp only [serialize, List.flatMap_cons, List.length_append, List.length_cons] at ih ⊢
    simp only [leBytes, List.length_cons, List.length_nil]
    omega

theorem block_length (key nonce : List UInt8) (counter : UInt32) (hk : key.length = 32) (hn : nonce.length = 12) :
    (chacha20Block key counter nonce).length = 64 := by
  simp [chacha20Block, serialize_length, blockState, addStates, innerBlocks_length, initState_length key nonce counter hk hn]

theorem keystream_length (key nonce : List UInt8) (counter : UInt32) (n : Nat) (hk : key.length = 32) (hn : nonce.length = 12) :
    (keystream key nonce counter n).length = 64 * n := by
  unfold keystream
  induction n with
  | zero => rfl
  | succ n ih =>
    rw [List.range_succ, List.flatMap_append, List.length_append, ih]
    simp [block_length key nonce _ hk hn]
    omega

theorem blocksFor_covers (len : Nat) : len ≤ 64 * blocksFor len := by
  unfold blocksFor; omega

/-- the cipher preserves the length of its input -/
theorem chacha20_length (key nonce : List UInt8) (counter : UInt32) (x : List UInt8)
    (hk : key.length = 32) (hn : nonce.length = 12) :
    (chacha20 key nonce counter x).length = x.length := by
  unfold chacha20
  rw [List.length_zipWith, keystream_length key nonce counter _ hk hn]
  have := blocksFor_covers x.length
  omega

theorem xor_cancel (b k : UInt8) : (b ^^^ k) ^^^ k = b := by
  rw [UInt8.xor_assoc, UInt8.xor_self, UInt8.xor_zero]

theorem zipWith_xor_twice : ∀ (x ks : List UInt8), x.length ≤ ks.length →
    List.zipWith (· ^^^ ·) (List.zipWith (· ^^^ ·) x ks) ks = x
  | [], _, _ => by simp
  | _ :: _, [], h => by simp at h
  | b :: x, k :: ks, h => by
    simp only [List.zipWith_cons_cons, xor_cancel, List.cons.injEq, true_and]
    exact zipWith_xor_twice x ks (by simpa using h)

/-- RFC 8439: decryption is encryption (same key, nonce and initial counter) -/
theorem chacha20_involution (key nonce : List UInt8) (counter : UInt32) (x : List UInt8)
    (hk : key.length = 32) (hn : nonce.length = 12) :
    chacha20 key nonce counter (chacha20 key nonce counter x) = x := by
  have hlen := chacha20_length key nonce counter x hk hn
  unfold chacha20 at hlen ⊢
  rw [hlen]
  apply zipWith_xor_twice
  rw [keystream_length key nonce counter _ hk hn]
  exact blocksFor_covers x.length

end EphVerif.Frames.Cipher
