/-
C05 helper lemmas, part 4: histories from construction (`reach`), the clock across a tick, and
operations that do not move the clock.
-/
import EphVerif.Lemmas.C05Once

namespace EphVerif.C05
open EphVerif.NodeCleanup EphVerif.C05L

/-- the node after a history, starting from construction at `t0` -/
def reach (cfg : Cfg) (t0 : Int) (ops : List Op) : Run := run cfg (Run.init cfg t0) ops

/-- the clock does not move during `op` -/
def Still : Op → Prop
  | .adv d => d = 0
  | _ => True

theorem tick_clock (cfg : Cfg) (s : State) :
    (tick cfg s).now = s.now ∧
    (tick cfg s).lastCleanup = if gate cfg s then s.now else s.lastCleanup := by
  unfold tick
  split
  · rw [cleanup_eq]; exact ⟨rfl, rfl⟩
  · exact ⟨rfl, rfl⟩

theorem still_step (cfg : Cfg) (s : State) (op : Op) (hs : Still op) (h : s.lastCleanup = s.now) :
    (step cfg s op).now = s.now ∧ (step cfg s op).lastCleanup = s.now := by
  cases op with
  | adv d => simp only [Still] at hs; subst hs; exact ⟨by simp [step], h⟩
  | store c ttl hint => exact ⟨rfl, h⟩
  | ingest c e same => obtain ⟨a, b, _, _⟩ := ingest_frame cfg s c e same; exact ⟨a, b.trans h⟩
  | announce c e same p pid addr ttl hint =>
    obtain ⟨a, b, _, _⟩ := announce_frame cfg s c e same p pid addr ttl hint; exact ⟨a, b.trans h⟩
  | reannounce c ttl hint => obtain ⟨a, b, _, _⟩ := reannounce_frame cfg s c ttl hint; exact ⟨a, b.trans h⟩
  | lookup c => obtain ⟨a, b, _, _⟩ := lookup_frame cfg s c; exact ⟨a, b.trans h⟩
  | probe c => exact ⟨rfl, h⟩
  | tick =>
    obtain ⟨a, b⟩ := tick_clock cfg s
    refine ⟨a, ?_⟩
    show (tick cfg s).lastCleanup = s.now
    rw [b]; split
    · rfl
    · exact h
  | drain => exact ⟨rfl, h⟩
  | audit => exact ⟨rfl, h⟩

theorem still_run (cfg : Cfg) (r : Run) (ops : List Op) (hs : ∀ op ∈ ops, Still op) (h : r.s.lastCleanup = r.s.now) :
    (run cfg r ops).s.now = r.s.now ∧ (run cfg r ops).s.lastCleanup = r.s.now := by
  induction ops generalizing r with
  | nil => exact ⟨rfl, h⟩
  | cons op ops ih =>
    obtain ⟨a, b⟩ := still_step cfg r.s op (hs op (List.mem_cons_self ..)) h
    have := ih (r := exec cfg r op) (fun o ho => hs o (List.mem_cons_of_mem _ ho)) (by show (step cfg r.s op).lastCleanup = (step cfg r.s op).now; rw [a, b])
    simp only [run, List.foldl_cons]
    refine ⟨this.1.trans a, this.2.trans a⟩

theorem reach_append (cfg : Cfg) (t0 : Int) (a b : List Op) : reach cfg t0 (a ++ b) = run cfg (reach cfg t0 a) b := by
  simp [reach, run, List.foldl_append]

end EphVerif.C05
