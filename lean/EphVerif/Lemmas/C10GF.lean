/-
C10: the byte arithmetic of Shamir.cpp as a Mathlib `Field`.
-/
import Mathlib.Algebra.Field.Defs
import EphVerif.Lemmas.C10Field

namespace EphVerif.C10L
open EphVerif.Shamir

/-- bytes with `gf_add` / `gf_mul` -/
structure GF256 where
  val : Nat
  lt : val < 256
deriving DecidableEq

namespace GF256

theorem ext {a b : GF256} (h : a.val = b.val) : a = b := by
  cases a; cases b; simp_all

def ofNat (a : Nat) : GF256 := ⟨a % 256, Nat.mod_lt _ (by decide)⟩

instance : Zero GF256 := ⟨⟨0, by decide⟩⟩
instance : One GF256 := ⟨⟨1, by decide⟩⟩
instance : Add GF256 := ⟨fun a b => ⟨gfAdd a.val b.val, xor_lt a.lt b.lt⟩⟩
instance : Neg GF256 := ⟨fun a => a⟩
instance : Mul GF256 := ⟨fun a b => ⟨gfMul a.val b.val, gfMul_lt _ _⟩⟩
instance : Inv GF256 := ⟨fun a => ⟨gfInv a.val, gfInv_lt _⟩⟩

@[simp] theorem val_zero : (0 : GF256).val = 0 := rfl
@[simp] theorem val_one : (1 : GF256).val = 1 := rfl
@[simp] theorem val_add (a b : GF256) : (a + b).val = a.val ^^^ b.val := rfl
@[simp] theorem val_mul (a b : GF256) : (a * b).val = gfMul a.val b.val := rfl
@[simp] theorem val_inv (a : GF256) : (a⁻¹).val = gfInv a.val := rfl
@[simp] theorem neg_eq (a : GF256) : -a = a := rfl

instance : Field GF256 where
  add_assoc a b c := ext (Nat.xor_assoc ..)
  zero_add a := ext (Nat.zero_xor _)
  add_zero a := ext (Nat.xor_zero _)
  add_comm a b := ext (Nat.xor_comm ..)
  neg_add_cancel a := ext (Nat.xor_self _)
  nsmul := nsmulRec
  zsmul := zsmulRec
  mul_assoc a b c := ext (gfMul_assoc ..)
  one_mul a := ext (one_gfMul a.lt)
  mul_one a := ext (gfMul_one a.lt)
  left_distrib a b c := ext (gfMul_xor a.lt b.lt c.lt)
  right_distrib a b c := ext (xor_gfMul a.lt b.lt c.lt)
  zero_mul a := ext (zero_gfMul a.val)
  mul_zero a := ext (gfMul_zero a.val)
  mul_comm a b := ext (gfMul_comm ..)
  exists_pair_ne := ⟨0, 1, by decide⟩
  mul_inv_cancel a ha := ext (gfMul_gfInv a.lt (fun h => ha (ext h)))
  inv_zero := ext gfInv_zero
  nnqsmul := _
  qsmul := _

end GF256
end EphVerif.C10L
