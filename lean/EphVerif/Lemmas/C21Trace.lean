import EphVerif.Lemmas.C21Throttle

/-! C21 — the throttle invariant along histories. -/
set_option linter.unusedSimpArgs false

namespace EphVerif.C21
open EphVerif.Announce

/-- one announce of the peer: the invariant is kept, the ghost list grows iff the announce passed -/
theorem peerAnnounce_tinv {cfg : Cfg} {now : Int} {acc : List Int} {ps : PeerSt} (a : Ann)
    (hW : cfg.minInterval ≤ cfg.burstWindow) (h : TInv cfg now acc ps.hist) :
    TInv cfg now (if (peerAnnounce cfg now ps a).2.passed then acc ++ [now] else acc)
      (peerAnnounce cfg now ps a).1.hist := by
  have hx := peerAnnounce_exit cfg now ps a
  have hreg := register_tinv hW h
  generalize peerAnnounce cfg now ps a = r at hx ⊢
  cases hx with
  | locked hl =>
    simp only [Outcome.passed, Bool.false_eq_true, ↓reduceIte, senderLocked_hist]
    exact h
  | pre hl r' hr =>
    have hlock := (senderLocked_false hl).2
    rw [rejectP_hist _ _ _ hlock, rejectP_out, senderLocked_hist]
    rcases preCheck_some hr with rfl | rfl | rfl <;> simpa [Outcome.passed] using h
  | throttle hl hp ht =>
    have hlock := (senderLocked_false hl).2
    rw [rejectP_hist _ _ _ (by simpa using hlock), rejectP_out]
    simp only [Outcome.passed, Bool.false_eq_true, ↓reduceIte]
    rw [senderLocked_hist] at ht ⊢
    simpa [ht] using hreg
  | post hl hp ht r' hr =>
    have hlock := (senderLocked_false hl).2
    rw [rejectP_hist _ _ _ (by simpa using hlock), rejectP_out]
    rw [senderLocked_hist] at ht ⊢
    rcases postCheck_some hr with rfl | rfl | rfl | rfl | rfl <;> simpa [Outcome.passed, ht] using hreg
  | accepted hl hp ht hq =>
    rw [senderLocked_hist] at ht ⊢
    simpa [Outcome.passed, ht] using hreg

/-- the invariant for every peer, against the log of the history so far -/
def GInv (cfg : Cfg) (s : State) (log : List Ev) : Prop :=
  ∀ p, TInv cfg s.now (passedTimes p log) (s.peers p).hist

theorem ginv_init (cfg : Cfg) (t0 : Int) : GInv cfg (init t0) [] := by
  intro p
  simpa [init, passedTimes] using tinv_nil cfg t0

theorem passedTimes_append (p : String) (log : List Ev) (e : Ev) :
    passedTimes p (log ++ [e]) =
      if (e.a.peer == p && e.out.passed) = true then passedTimes p log ++ [e.t] else passedTimes p log := by
  unfold passedTimes
  rw [List.filter_append, List.map_append]
  by_cases h : (e.a.peer == p && e.out.passed) = true
  · simp [List.filter_cons, h]
  · simp [List.filter_cons, h]

theorem step_ginv {cfg : Cfg} (hW : cfg.minInterval ≤ cfg.burstWindow) {s : State} {log : List Ev}
    (h : GInv cfg s log) (op : Op) : GInv cfg (step cfg s op).1 (log ++ (step cfg s op).2) := by
  cases op with
  | adv d =>
    intro p
    simpa [step] using tinv_adv (h p) d
  | ann a =>
    intro p
    simp only [step, announce_now]
    rw [passedTimes_append]
    by_cases hp : p = a.peer
    · subst hp
      rw [announce_peer, announce_out]
      simpa using peerAnnounce_tinv a hW (h a.peer)
    · rw [announce_other _ _ _ _ hp]
      have : (a.peer == p) = false := by simpa using fun e => hp e.symm
      simpa [this] using h p

theorem run_ginv {cfg : Cfg} (hW : cfg.minInterval ≤ cfg.burstWindow) (ops : List Op) :
    ∀ (s : State) (log : List Ev), GInv cfg s log →
      GInv cfg (run cfg (s, log) ops).1 (run cfg (s, log) ops).2 := by
  induction ops with
  | nil => intro s log h; exact h
  | cons op rest ih =>
    intro s log h
    simp only [run]
    exact ih _ _ (step_ginv hW h op)

/-- accepted announces are among those that passed the throttle -/
theorem acceptedTimes_sublist (p : String) (log : List Ev) : (acceptedTimes p log).Sublist (passedTimes p log) := by
  unfold acceptedTimes passedTimes
  apply List.Sublist.map
  induction log with
  | nil => simp
  | cons e rest ih =>
    rw [List.filter_cons, List.filter_cons]
    by_cases h : (e.a.peer == p && e.out == Outcome.accepted) = true
    · have h' : (e.a.peer == p && e.out.passed) = true := by
        simp only [Bool.and_eq_true, beq_iff_eq] at h ⊢
        exact ⟨h.1, by rw [h.2]; rfl⟩
      simp only [h, h', ↓reduceIte]
      exact List.Sublist.cons_cons _ ih
    · simp only [h, Bool.false_eq_true, ↓reduceIte]
      split
      · exact List.Sublist.cons _ ih
      · exact ih

theorem inWindow_sublist {l m : List Int} (h : l.Sublist m) (a w : Int) : inWindow l a w ≤ inWindow m a w := by
  unfold inWindow
  exact (h.filter _).length_le

end EphVerif.C21
