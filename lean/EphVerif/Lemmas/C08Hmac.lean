/-
C08 helper lemmas, part 3: HMAC `compute` and `verify`.
-/
import EphVerif.Lemmas.C08Stream
import EphVerif.Model.Hmac
import EphVerif.Spec.Hmac

namespace EphVerif.C08
open EphVerif.Model

theorem digest_eq (data : List UInt8) : Sha256.digest data = Spec.sha256 data := by
  have h := finalize_eq _ _ (absorbed_update _ _ data absorbed_init)
  rw [List.nil_append] at h
  exact h

theorem two_updates_eq (a b : List UInt8) :
    Sha256.finalize (Sha256.update (Sha256.update Sha256.init a) b) = Spec.sha256 (a ++ b) := by
  have h := finalize_eq _ _ (absorbed_update _ _ b (absorbed_update _ _ a absorbed_init))
  rw [List.nil_append] at h
  exact h

theorem keyBlock_eq (key : List UInt8) : Hmac.keyBlock key = Spec.Hmac.padKey (Spec.Hmac.effectiveKey key) := by
  unfold Hmac.keyBlock Hmac.copyIntoBlock Spec.Hmac.padKey Spec.Hmac.effectiveKey Spec.Hmac.B
  rw [gen_hmacBlockSize]
  by_cases h : key.length > 64
  · rw [if_pos h, if_pos h, digest_eq, List.take_of_length_le (by rw [Spec.sha256_length]; omega)]
  · rw [if_neg h, if_neg h, List.take_of_length_le (by omega)]

theorem compute_eq (key data : List UInt8) : Hmac.compute key data = Spec.hmacSha256 key data := by
  unfold Hmac.compute Spec.hmacSha256 Spec.Hmac.xorWith
  simp only [two_updates_eq, keyBlock_eq, gen_opad, gen_ipad]
  rfl

/-! ### the comparison loop of `verify`

(T) obligations: the operators regenerated from `HmacSha256::verify` are the ones that make the
loop an equality test — OR-accumulation of XOR differences from 0, compared with 0.  With `+=`
(sums wrap mod 256), `^=`, `&=`, `=` … these lemmas, and with them `C08.verify`, no longer check. -/

theorem gen_verifyAccInit : Gen.C08.verifyAccInit = 0 := rfl
theorem gen_verifyAccOp : Gen.C08.verifyAccOp = "|" := by decide
theorem gen_verifyDiffOp : Gen.C08.verifyDiffOp = "^" := by decide
theorem gen_verifyFinalCmp : Gen.C08.verifyFinalCmp = "==" := by decide
theorem gen_verifyFinalConst : Gen.C08.verifyFinalConst = 0 := rfl

theorem accStep_eq (d e m : UInt8) :
    Hmac.binOp Gen.C08.verifyAccOp d (Hmac.binOp Gen.C08.verifyDiffOp e m) = d ||| (e ^^^ m) := by
  rw [gen_verifyAccOp, gen_verifyDiffOp]; rfl

theorem finalTest_eq (d : UInt8) :
    Hmac.finalTest Gen.C08.verifyFinalCmp Gen.C08.verifyFinalConst d = true ↔ d = 0 := by
  rw [gen_verifyFinalCmp, gen_verifyFinalConst]
  show (d.toNat == 0) = true ↔ d = 0
  rw [beq_iff_eq]
  exact ⟨fun h => UInt8.toNat_inj.mp h, fun h => by rw [h]; rfl⟩

theorem accumulateDiff_eq_zero (d : UInt8) (es ms : List UInt8) (hl : es.length = ms.length) :
    Hmac.accumulateDiff d es ms = 0 ↔ d = 0 ∧ es = ms := by
  induction es generalizing d ms with
  | nil =>
    cases ms with
    | nil => simp [Hmac.accumulateDiff]
    | cons m ms => simp at hl
  | cons e es ih =>
    cases ms with
    | nil => simp at hl
    | cons m ms =>
      have hl' : es.length = ms.length := by simpa using hl
      rw [Hmac.accumulateDiff, accStep_eq, ih _ _ hl', UInt8.or_eq_zero_iff, UInt8.xor_eq_zero_iff, List.cons.injEq]
      exact ⟨fun ⟨⟨a, b⟩, c⟩ => ⟨a, b, c⟩, fun ⟨a, b, c⟩ => ⟨⟨a, b⟩, c⟩⟩

theorem verify_iff (key data mac : List UInt8) :
    Hmac.verify key data mac = true ↔ mac.length = 32 ∧ mac = Spec.hmacSha256 key data := by
  unfold Hmac.verify
  rw [gen_hmacDigestSize]
  by_cases h : mac.length = 32
  · have hl : (Hmac.compute key data).length = mac.length := by rw [compute_eq, Spec.hmacSha256_length, h]
    simp only [h, ne_eq, not_true_eq_false, if_false, true_and]
    rw [finalTest_eq, gen_verifyAccInit, accumulateDiff_eq_zero _ _ _ hl, compute_eq]
    exact ⟨fun ⟨_, e⟩ => e.symm, fun e => ⟨rfl, e.symm⟩⟩
  · simp [h]

end EphVerif.C08
