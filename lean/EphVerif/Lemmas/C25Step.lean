/-
Helper lemmas for C25/C26: accounting of sessions and closed descriptors (`Acc`), and the theorem
about one event: `step` keeps `Inv` and `Acc` and relays only across established bridges.
-/
import EphVerif.Lemmas.C25Loop
set_option linter.unusedSimpArgs false
namespace EphVerif.Relay
open EphVerif.Gen.C25

/-- every accepted client is either still a session or has been closed, exactly once -/
structure Acc (σ : State) : Prop where
  live : ∀ a, (σ.get a).isSome → a ∈ σ.used
  gone : ∀ a ∈ closedList σ, σ.get a = none ∧ a ∈ σ.used
  nodup : (closedList σ).Nodup
  cover : ∀ a ∈ σ.used, (σ.get a).isSome ∨ a ∈ closedList σ

theorem acc_init : Acc init := by
  constructor
  · intro a h; simp at h
  · intro a h; simp [closedList, init] at h
  · simp [closedList, init]
  · intro a h; simp [init] at h

theorem Calm.acc {c : Client} {σ σ' : State} (h : Calm c σ σ') (hA : Acc σ) : Acc σ' := by
  constructor
  · intro a ha; rw [h.used]; exact hA.live a (by rwa [h.dom] at ha)
  · intro a ha
    rw [h.closed] at ha
    obtain ⟨h1, h2⟩ := hA.gone a ha
    refine ⟨?_, by rwa [h.used]⟩
    have := h.dom a
    rw [h1] at this
    cases hg : σ'.get a <;> simp_all
  · rw [h.closed]; exact hA.nodup
  · intro a ha
    rw [h.used] at ha
    rw [h.dom, h.closed]
    exact hA.cover a ha

/-- the descriptors close_session closes, in the cases of `closeSession_effect` -/
theorem closeSession_out {σ : State} (hI : Inv σ) (c : Client) (s : Session) (hc : σ.get c = some s) :
    (closeSession σ c).used = σ.used ∧
    ((s.partner = none ∧ (closeSession σ c).out = .closed c :: σ.out) ∨
     (∃ p ps, s.partner = some p ∧ σ.get p = some ps ∧ (ps.state = .awaitingIdentity ∨ ps.state = .bridged) ∧
        (closeSession σ c).out = .closed c :: .closed p :: σ.out) ∨
     (∃ p ps, s.partner = some p ∧ σ.get p = some ps ∧ ps.state = .registered ∧
        (closeSession σ c).out = .closed c :: σ.out)) := by
  cases hp : s.partner with
  | none =>
    refine ⟨?_, Or.inl ⟨rfl, ?_⟩⟩
    · simp [closeSession, hc, detachPartner, hp, used_removeRegistration]
    · simp [closeSession, hc, detachPartner, hp, out_removeRegistration]
  | some p =>
    have h1 : σ.partnerOf c = some p := by simp [State.partnerOf, hc, hp]
    have h2 := hI.sym c p h1
    have hpc : p ≠ c := fun e => hI.noself c (e ▸ h1)
    obtain ⟨ps, hps, hpp⟩ : ∃ ps, σ.get p = some ps ∧ ps.partner = some c := by
      simp only [State.partnerOf] at h2
      cases h : σ.get p with
      | none => simp [h] at h2
      | some ps => exact ⟨ps, rfl, by simpa [h] using h2⟩
    have hst := hI.pairState c p h1
    simp only [State.stateOf, hc, hps, Option.map_some] at hst
    by_cases hIB : ps.state = .awaitingIdentity ∨ ps.state = .bridged
    · refine ⟨?_, Or.inr (Or.inl ⟨p, ps, rfl, hps, hIB, ?_⟩)⟩
      · simp [closeSession, hc, detachPartner, hp, get_removeRegistration, hpc, hps, hIB, closeNoPartner, used_removeRegistration]
      · simp [closeSession, hc, detachPartner, hp, get_removeRegistration, hpc, hps, hIB, closeNoPartner, out_removeRegistration]
    · have hR : ps.state = .registered := by
        rcases hst with ⟨_, h⟩ | ⟨_, h⟩ | ⟨_, h⟩ <;> simp_all
      refine ⟨?_, Or.inr (Or.inr ⟨p, ps, rfl, hps, hR, ?_⟩)⟩
      · by_cases hx : ps.peerHex.isEmpty <;>
          simp [closeSession, hc, detachPartner, hp, get_removeRegistration, hpc, hps, hIB, hR, hx, used_removeRegistration]
      · by_cases hx : ps.peerHex.isEmpty <;>
          simp [closeSession, hc, detachPartner, hp, get_removeRegistration, hpc, hps, hIB, hR, hx, out_removeRegistration]

theorem acc_closeSession {σ : State} (c : Client) (hI : Inv σ) (hA : Acc σ) : Acc (closeSession σ c) := by
  cases hc : σ.get c with
  | none => simpa [closeSession, hc] using hA
  | some s =>
    obtain ⟨_, _, hg⟩ := closeSession_effect hI c s hc
    obtain ⟨hu, ho⟩ := closeSession_out hI c s hc
    have a1 := hA.live; have a2 := hA.gone; have a3 := hA.nodup; have a4 := hA.cover
    have hcu : c ∈ σ.used := a1 c (by simp [hc])
    have hcn : c ∉ closedList σ := fun h => by simpa [hc] using (a2 c h).1
    rcases ho with ⟨hp, ho⟩ | ⟨p, ps, hp, hps, hst, ho⟩ | ⟨p, ps, hp, hps, hst, ho⟩
    · have hcl : closedList (closeSession σ c) = c :: closedList σ := by
        simp [closedList, ho, List.filterMap_cons, Out.closedOf]
      rcases hg with ⟨_, hg⟩ | ⟨p, ps, hp', _⟩ | ⟨p, ps, hp', _⟩
      · constructor
        · intro a; rw [hg, hu]; grind
        · intro a; rw [hcl, hg, hu]; grind
        · rw [hcl]; exact List.nodup_cons.mpr ⟨hcn, a3⟩
        · intro a; rw [hu, hg, hcl]; grind
      · simp [hp] at hp'
      · simp [hp] at hp'
    · have hcl : closedList (closeSession σ c) = c :: p :: closedList σ := by
        simp [closedList, ho, List.filterMap_cons, Out.closedOf]
      have hpu : p ∈ σ.used := a1 p (by simp [hps])
      have hpn : p ∉ closedList σ := fun h => by simpa [hps] using (a2 p h).1
      have hpc : p ≠ c := by
        intro e
        have : σ.partnerOf c = some c := by simp [State.partnerOf, hc, hp, e]
        exact hI.noself c this
      rcases hg with ⟨hp', _⟩ | ⟨p', ps', hp', hps', _, hg⟩ | ⟨p', ps', hp', hps', hst', _⟩
      · simp [hp] at hp'
      · have e : p' = p := by simpa [hp] using hp'.symm
        subst e
        constructor
        · intro a; rw [hg, hu]; grind
        · intro a; rw [hcl, hg, hu]; grind
        · rw [hcl]
          refine List.nodup_cons.mpr ⟨?_, List.nodup_cons.mpr ⟨hpn, a3⟩⟩
          simp; exact ⟨fun e => hpc e.symm, hcn⟩
        · intro a; rw [hu, hg, hcl]; grind
      · have e : p' = p := by simpa [hp] using hp'.symm
        subst e
        have : ps' = ps := by simpa [hps] using hps'.symm
        subst this
        rcases hst with h | h <;> simp [h] at hst'
    · have hcl : closedList (closeSession σ c) = c :: closedList σ := by
        simp [closedList, ho, List.filterMap_cons, Out.closedOf]
      rcases hg with ⟨hp', _⟩ | ⟨p', ps', hp', hps', hst', _⟩ | ⟨p', ps', hp', hps', _, hg⟩
      · simp [hp] at hp'
      · have e : p' = p := by simpa [hp] using hp'.symm
        subst e
        have : ps' = ps := by simpa [hps] using hps'.symm
        subst this
        rcases hst' with h | h <;> simp [h] at hst
      · have e : p' = p := by simpa [hp] using hp'.symm
        subst e
        have hpu : p' ∈ σ.used := a1 p' (by simp [hps])
        constructor
        · intro a; rw [hg, hu]; grind
        · intro a; rw [hcl, hg, hu]
          intro ha
          have hpn : p' ∉ closedList σ := fun h => by simpa [hps] using (a2 p' h).1
          grind
        · rw [hcl]; exact List.nodup_cons.mpr ⟨hcn, a3⟩
        · intro a; rw [hu, hg, hcl]; grind

/-- the bridged partner of a bridged session -/
theorem partner_of_bridged {σ : State} (hI : Inv σ) {c : Client} {s : Session} (hc : σ.get c = some s)
    (hst : s.state = .bridged) :
    ∃ p ps, s.partner = some p ∧ p ≠ c ∧ σ.get p = some ps ∧ ps.partner = some c ∧ ps.state = .bridged := by
  cases hp : s.partner with
  | none =>
    have := (hI.lone c (by simp [State.partnerOf, hc, hp])).2
    simp [State.stateOf, hc, hst] at this
  | some t =>
    have h1 : σ.partnerOf c = some t := by simp [State.partnerOf, hc, hp]
    have h2 := hI.sym c t h1
    have hne : t ≠ c := fun e => hI.noself c (e ▸ h1)
    simp only [State.partnerOf] at h2
    cases h : σ.get t with
    | none => simp [h] at h2
    | some ts =>
      have hps := hI.pairState c t h1
      simp [State.stateOf, hc, h, hst] at hps
      exact ⟨t, ts, rfl, hne, h, by simpa [h] using h2, hps⟩

/-- data from a bridged session: exactly one item, for exactly its partner -/
theorem step_recv_bridged {σ : State} (hI : Inv σ) {c : Client} {s : Session} (hc : σ.get c = some s)
    (hst : s.state = .bridged) (data : Bytes) :
    ∃ p ps, s.partner = some p ∧ p ≠ c ∧ σ.get p = some ps ∧ ps.partner = some c ∧ ps.state = .bridged ∧
      step σ (.recv c data) = (σ.put p { ps with writeBuf := ps.writeBuf ++ data }).emit (.queued p (.relay c data)) := by
  obtain ⟨p, ps, hp, hne, hps, hpp, hpb⟩ := partner_of_bridged hI hc hst
  refine ⟨p, ps, hp, hne, hps, hpp, hpb, ?_⟩
  simp [step, hc, hst, forwardToPartner, State.lock, hp, hps, queue, Item.bytes]

/-- the client an event comes from -/
def Event.client : Event → Client
  | .accept c => c | .recv c _ => c | .eof c => c | .err c => c | .flush c _ => c

def NewOK (c : Client) (σ σ' : State) : Prop := ∃ new, σ'.out = new ++ σ.out ∧ ∀ o ∈ new, ItemOK σ' c o

theorem step_ok (σ : State) (ev : Event) (hI : Inv σ) (hA : Acc σ) :
    Inv (step σ ev) ∧ Acc (step σ ev) ∧ NewOK ev.client σ (step σ ev) := by
  cases ev with
  | accept c =>
    unfold step
    by_cases hu : c ∈ σ.used
    · simp only [hu, if_true]; exact ⟨hI, hA, [], rfl, by simp⟩
    · simp only [hu, if_false]
      have hcn : σ.get c = none := by
        cases h : σ.get c with
        | none => rfl
        | some s => exact absurd (hA.live c (by simp [h])) hu
      have hg : ∀ a, ({ σ.put c {} with used := c :: σ.used } : State).get a = if a = c then some {} else σ.get a :=
        fun a => get_put σ c a {}
      have hr : ∀ k, ({ σ.put c {} with used := c :: σ.used } : State).reg k = σ.reg k := fun _ => rfl
      refine ⟨?_, ?_, [], rfl, by simp⟩
      · have h1 := hI.sym; have h2 := hI.noself; have h3 := hI.pairState; have h4 := hI.lone; have h5 := hI.regOK
        have h6 := hI.notHung
        simp only [State.partnerOf, State.stateOf, State.hexOf] at h1 h2 h3 h4 h5
        constructor
        all_goals (try simp only [State.partnerOf, State.stateOf, State.hexOf, hg, hr])
        · grind
        · grind
        · grind
        · grind
        · grind
        · exact h6
      · have a1 := hA.live; have a2 := hA.gone; have a3 := hA.nodup; have a4 := hA.cover
        have hcl : closedList ({ σ.put c {} with used := c :: σ.used } : State) = closedList σ := rfl
        constructor
        · intro a; rw [hg]; simp only [List.mem_cons]; grind
        · intro a; rw [hcl, hg]; simp only [List.mem_cons]; grind
        · rw [hcl]; exact a3
        · intro a; rw [hcl, hg]; simp only [List.mem_cons]; grind
  | recv c data =>
    cases hc : σ.get c with
    | none => simp only [step, hc]; exact ⟨hI, hA, [], rfl, by simp⟩
    | some s =>
      by_cases hst : s.state = .bridged
      · obtain ⟨p, ps, hp, hne, hps, hpp, hpb, heq⟩ := step_recv_bridged hI hc hst data
        have hq : step σ (.recv c data) = queue σ p (.relay c data) := by
          rw [heq]; simp [queue, hps, Item.bytes]
        have hI' : Inv (step σ (.recv c data)) := hq ▸ inv_queue _ _ hI
        have hitem : ItemOK (queue σ p (.relay c data)) c (.queued p (.relay c data)) := by
          refine Or.inr ?_
          simp only [stateOf_queue, partnerOf_queue]
          refine ⟨by simp [State.stateOf, hps, hpb], by simp [State.partnerOf, hps, hpp], by simp [State.stateOf, hc, hst], ?_⟩
          intro src d h; cases h; rfl
        have hout : (queue σ p (.relay c data)).out = [.queued p (.relay c data)] ++ σ.out := by simp [queue, hps]
        have hcalm : Calm c σ (queue σ p (.relay c data)) := by
          refine ⟨by simp, by simp, ?_, ⟨_, hout, ?_⟩⟩
          · simp [closedList, hout, List.filterMap_cons, Out.closedOf]
          · intro o ho; simp at ho; subst ho; exact hitem
        rw [hq]
        exact ⟨hq ▸ hI', hcalm.acc hA, hcalm.out⟩
      · simp only [step, hc, hst, if_false]
        have hIa := inv_put_readBuf hI hc (s.readBuf ++ data)
        obtain ⟨hI', hcalm⟩ := processProtocol_ok (s.readBuf.length + data.length + 1) _ c
          { s with readBuf := s.readBuf ++ data } hIa (by simp) (by simp) (fun e => absurd e hst)
        have hcalm' := Calm.trans_left (calm_put c hc _) rfl hcalm
        exact ⟨hI', hcalm'.acc hA, hcalm'.out⟩
  | eof c =>
    refine ⟨inv_closeSession c hI, acc_closeSession c hI hA, ?_⟩
    simp only [step]
    cases hc : σ.get c with
    | none => exact ⟨[], by simp [closeSession, hc], by simp⟩
    | some s =>
      obtain ⟨_, ho⟩ := closeSession_out hI c s hc
      rcases ho with ⟨_, ho⟩ | ⟨p, _, _, _, _, ho⟩ | ⟨_, _, _, _, _, ho⟩
      · exact ⟨[.closed c], by simp [ho], by simp [ItemOK]⟩
      · exact ⟨[.closed c, .closed p], by simp [ho], by simp [ItemOK]⟩
      · exact ⟨[.closed c], by simp [ho], by simp [ItemOK]⟩
  | err c =>
    refine ⟨inv_closeSession c hI, acc_closeSession c hI hA, ?_⟩
    simp only [step]
    cases hc : σ.get c with
    | none => exact ⟨[], by simp [closeSession, hc], by simp⟩
    | some s =>
      obtain ⟨_, ho⟩ := closeSession_out hI c s hc
      rcases ho with ⟨_, ho⟩ | ⟨p, _, _, _, _, ho⟩ | ⟨_, _, _, _, _, ho⟩
      · exact ⟨[.closed c], by simp [ho], by simp [ItemOK]⟩
      · exact ⟨[.closed c, .closed p], by simp [ho], by simp [ItemOK]⟩
      · exact ⟨[.closed c], by simp [ho], by simp [ItemOK]⟩
  | flush c n =>
    cases hc : σ.get c with
    | none => simp only [step, hc]; exact ⟨hI, hA, [], rfl, by simp⟩
    | some s =>
      simp only [step, hc]
      have hI' : Inv ((σ.put c { s with writeBuf := s.writeBuf.drop n }).emit (.sent c (s.writeBuf.take n))) := by
        apply hI.congr
        · intro a; by_cases e : a = c <;> simp [State.partnerOf, e, hc]
        · intro a; by_cases e : a = c <;> simp [State.stateOf, e, hc]
        · intro a; by_cases e : a = c <;> simp [State.hexOf, e, hc]
        · intro k; simp
        · simp
      have hcalm : Calm c σ ((σ.put c { s with writeBuf := s.writeBuf.drop n }).emit (.sent c (s.writeBuf.take n))) := by
        refine ⟨?_, rfl, ?_, ⟨[.sent c (s.writeBuf.take n)], by simp, by simp [ItemOK]⟩⟩
        · intro a; by_cases e : a = c <;> simp [e, hc]
        · simp [closedList, List.filterMap_cons, Out.closedOf]
      exact ⟨hI', hcalm.acc hA, hcalm.out⟩

/-- every state reached from the empty relay by any sequence of events -/
theorem run_ok_from (evs : List Event) : ∀ σ, Inv σ → Acc σ → Inv (run σ evs) ∧ Acc (run σ evs) := by
  induction evs with
  | nil => intro σ hI hA; exact ⟨hI, hA⟩
  | cons ev evs ih =>
    intro σ hI hA
    obtain ⟨hI', hA', _⟩ := step_ok σ ev hI hA
    exact ih _ hI' hA'

theorem run_ok (evs : List Event) : Inv (run init evs) ∧ Acc (run init evs) :=
  run_ok_from evs init inv_init acc_init

end EphVerif.Relay
