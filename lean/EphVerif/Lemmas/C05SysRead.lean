/-
System-level composition (extension of C05), part 5: the read side of the node, obtained from the
C01 and C06 theorems through the projections of `C05SysProj`, and the life of one local store epoch.
-/
import EphVerif.Lemmas.C05SysFrame

namespace EphVerif.Sys
open EphVerif.NodeCleanup EphVerif.C05L
open EphVerif.ChunkStore (aget)

/-! ### chunk store: C01 -/

/-- the C01 refinement invariant holds between the node's chunk store and the abstract store of the
    projected history -/
theorem node_rel (raw : Raw) (e : Env) (t0 : Int) (ops : List Op) :
    ChunkStore.Rel (ChunkStore.runModel (sysCfg raw e).node (ChunkStore.fresh t0 []) (c01Hist ops))
      (ChunkStore.runSpec (ChunkStore.paramsOf (sysCfg raw e).node) (ChunkStore.freshSpec t0) (c01Hist ops)) :=
  ChunkStore.rel_run (sane raw e.cleanup) (c01Hist ops) (ChunkStore.rel_fresh t0 [])

/-- does the operation store chunk `c`? -/
def storesC (c : String) : Op → Bool
  | .store k _ _ => k == c
  | _ => false

theorem c01Hist_append (a b : List Op) : c01Hist (a ++ b) = c01Hist a ++ c01Hist b := by
  simp [c01Hist, List.flatMap_append]

theorem c01Hist_storesId (c : String) (ops : List Op) (h : ∀ op ∈ ops, storesC c op = false) :
    ∀ o ∈ c01Hist ops, ChunkStore.storesId c o = false := by
  intro o ho
  simp only [c01Hist, List.mem_flatMap] at ho
  obtain ⟨op, hop, hm⟩ := ho
  have := h op hop
  cases op <;> simp [toC01] at hm <;> subst hm <;> simp_all [ChunkStore.storesId, storesC]

/-- the deadline the abstract store of C01 records for a `Node::store_chunk` equals the one C02 computes
    from the generated functions -/
theorem effNode_bridge (raw : Raw) (e : Env) (ttl steady wall : Int) :
    StoreSpec.effNode (ChunkStore.paramsOf (sysCfg raw e).node) ttl * StoreSpec.nsPerSec =
      (Ttl.storeChunk raw ttl steady wall).chunk := by
  have h := ChunkStore.nodeTtl_eq (sysCfg raw e).node (sane raw e.cleanup) ttl
  rw [← storeLifetimes_bridge raw e ttl steady wall, ← h]
  rfl

/-- the abstract store after `pre ++ [store c ttl] ++ post` (no further store of `c` in `post`): the last
    entry for `c` is that store, with deadline `t + (C02 chunk lifetime)` -/
theorem last_after_store (raw : Raw) (e : Env) (t0 : Int) (pre post : List Op) (c : String) (ttl : Int)
    (hint : Option (List String)) (hpost : ∀ op ∈ post, storesC c op = false) :
    ∃ en, StoreSpec.last (ChunkStore.runSpec (ChunkStore.paramsOf (sysCfg raw e).node) (ChunkStore.freshSpec t0)
        (c01Hist (pre ++ Op.store c ttl hint :: post))).s c = some en ∧
      en.deadline = (C05.reach (sysCfg raw e) t0 pre).s.now +
        (Ttl.storeChunk raw ttl (C05.reach (sysCfg raw e) t0 pre).s.now
          ((C05.reach (sysCfg raw e) t0 pre).s.now + e.wallOff)).chunk := by
  have hnow : (C05.reach (sysCfg raw e) t0 pre).s.now =
      (ChunkStore.runSpec (ChunkStore.paramsOf (sysCfg raw e).node) (ChunkStore.freshSpec t0) (c01Hist pre)).now :=
    (agree_reach (sysCfg raw e) rfl t0 pre).now.trans (node_rel raw e t0 pre).now_eq
  have hsplit : c01Hist (pre ++ Op.store c ttl hint :: post) =
      c01Hist pre ++ (StoreSpec.Op.nstore c [] [] [] ttl :: c01Hist post) := by
    rw [c01Hist_append]; rfl
  rw [hsplit]
  simp only [ChunkStore.runSpec, List.foldl_append, List.foldl_cons]
  have hl := ChunkStore.last_run_other (ChunkStore.paramsOf (sysCfg raw e).node)
    (StoreSpec.step (ChunkStore.paramsOf (sysCfg raw e).node)
      (ChunkStore.runSpec (ChunkStore.paramsOf (sysCfg raw e).node) (ChunkStore.freshSpec t0) (c01Hist pre))
      (StoreSpec.Op.nstore c [] [] [] ttl)) c (c01Hist post) (c01Hist_storesId c post hpost)
  simp only [ChunkStore.runSpec] at hl hnow
  rw [hl]
  generalize List.foldl (StoreSpec.step (ChunkStore.paramsOf (sysCfg raw e).node)) (ChunkStore.freshSpec t0)
    (c01Hist pre) = A at hnow ⊢
  refine ⟨⟨c, [], [], A.now + StoreSpec.effNode (ChunkStore.paramsOf (sysCfg raw e).node) ttl * StoreSpec.nsPerSec⟩, ?_, ?_⟩
  · simp [StoreSpec.step, StoreSpec.last]
  · simp only
    rw [effNode_bridge raw e ttl (C05.reach (sysCfg raw e) t0 pre).s.now
      ((C05.reach (sysCfg raw e) t0 pre).s.now + e.wallOff), hnow]

/-! ### provider directory: C06 -/

theorem mem_findProviders_result {t : Providers.Table} {now : Int} {c : String} {a : Providers.Holder}
    (h : a ∈ (Providers.findProviders t now c).2) : ∃ l, t c = some l ∧ a ∈ l.holders := by
  unfold Providers.findProviders at h
  split at h
  · simp at h
  · rename_i l hl
    simp only at h
    split at h
    · simp at h
    · exact ⟨l, hl, (List.mem_filter.mp h).1⟩

theorem locHist_append (cfg : Cfg) (s : State) (a b : List Op) (d : List String) :
    locHist cfg s (a ++ b) = locHist cfg s a ++ locHist cfg (run cfg ⟨s, d⟩ a).s b := by
  induction a generalizing s d with
  | nil => rfl
  | cons op ops ih =>
    simp only [List.cons_append, locHist, run, List.foldl_cons, List.append_assoc]
    rw [ih (step cfg s op) (exec cfg ⟨s, d⟩ op).drained]
    rfl

end EphVerif.Sys
