/-
System-level composition (extension of C05), part 3: the chunk store and the provider directory of
the C05 node model *are* runs of the C01 and C06 models.

The node model imports `ChunkStore.put / sweep` and `Providers.addContact / findProviders / sweep /
withdraw`; here every node history is projected onto

  * a history of `StoreSpec.Op` (`c01Hist`): `store ↦ nstore`, `adv ↦ advance`, `tick ↦ tick`, everything
    else invisible — and the node's record table, clock and `lastCleanup` are shown equal to those of
    `ChunkStore.runModel` on that history (`agree_run`), so that `C01.reads_exact` / `C01.dead_unreachable`
    (and the refinement invariant `ChunkStore.Rel` behind them) speak about the node;
  * a history of `Providers.Op` (`locHist`, state-dependent: which announcements are accepted, which ids a
    cleanup withdraws) — and the node's locator table and clock are shown equal to those of `C06L.run` on
    that history (`locs_run`), so that `C06.refines_at` / `C06.sweep_safe` speak about the node.
-/
import EphVerif.Lemmas.C05SysYoung
import EphVerif.Proofs.C01
import EphVerif.Proofs.C06

namespace EphVerif.Sys
open EphVerif.NodeCleanup EphVerif.C05L

/-! ### C01 -/

def toC01 : Op → List StoreSpec.Op
  | .adv d => [.advance d]
  | .store c ttl _ => [.nstore c [] [] [] ttl]
  | .tick => [.tick]
  | _ => []

def c01Hist (ops : List Op) : List StoreSpec.Op := ops.flatMap toC01

/-- node state and C01 world show the same chunk store -/
structure Agree (s : State) (w : ChunkStore.World) : Prop where
  now : s.now = w.now
  recs : s.recs = w.sys.recs
  last : s.lastCleanup = w.lastCleanup

theorem runModel_append (nc : ChunkStore.NodeCfg) (w : ChunkStore.World) (a b : List StoreSpec.Op) :
    ChunkStore.runModel nc w (a ++ b) = ChunkStore.runModel nc (ChunkStore.runModel nc w a) b := by
  simp [ChunkStore.runModel, List.foldl_append]

/-- without persistence (the C05 node model has no storage directory) the record `ChunkStore::put` keeps is the
    in-memory one, whatever the file system did -/
theorem putF_not_persisted (c : ChunkStore.Cfg) (hp : c.persistent = false) (φ : ChunkStore.Faults) (r : ChunkStore.Recs)
    (fs : ChunkStore.FS) (pend : List ChunkStore.Name) (id : String) (data : ChunkStore.Bytes) :
    (ChunkStore.putF c φ r fs pend id data).persisted = false := by
  simp [ChunkStore.putF, hp]

theorem agree_step (cfg : Cfg) (hp : cfg.node.store.persistent = false) {s : State} {w : ChunkStore.World}
    (h : Agree s w) (op : Op) :
    Agree (step cfg s op) (ChunkStore.runModel cfg.node w (toC01 op)) := by
  obtain ⟨h1, h2, h3⟩ := h
  cases op with
  | adv d => exact ⟨by show s.now + d = w.now + d; rw [h1], h2, h3⟩
  | store c ttl hint =>
    refine ⟨h1, ?_, h3⟩
    show ChunkStore.put cfg.node.store s.recs s.now c [] [] (ChunkStore.nodeTtl cfg.node ttl) [] true =
      ChunkStore.aset w.sys.recs c (ChunkStore.mkRecP cfg.node.store w.now [] [] (ChunkStore.nodeTtl cfg.node ttl) [] true
        (ChunkStore.putF cfg.node.store [] w.sys.recs w.sys.fs w.sys.pending c []).persisted)
    rw [putF_not_persisted _ hp, h1, h2]
    simp only [ChunkStore.put, ChunkStore.mkRecP, ChunkStore.mkRec, hp]
  | ingest c e same => obtain ⟨a, b, c', _⟩ := ingest_frame cfg s c e same; exact ⟨a.trans h1, c'.trans h2, b.trans h3⟩
  | announce c e same p pid addr ttl hint =>
    obtain ⟨a, b, c', _⟩ := announce_frame cfg s c e same p pid addr ttl hint; exact ⟨a.trans h1, c'.trans h2, b.trans h3⟩
  | reannounce c ttl hint =>
    obtain ⟨a, b, c', _⟩ := reannounce_frame cfg s c ttl hint; exact ⟨a.trans h1, c'.trans h2, b.trans h3⟩
  | lookup c => obtain ⟨a, b, c', _⟩ := lookup_frame cfg s c; exact ⟨a.trans h1, c'.trans h2, b.trans h3⟩
  | probe c => exact ⟨h1, h2, h3⟩
  | drain => exact ⟨h1, h2, h3⟩
  | audit => exact ⟨h1, h2, h3⟩
  | tick =>
    show Agree (tick cfg s) (ChunkStore.step cfg.node w .tick).1
    have hg : gate cfg s = decide (w.now - w.lastCleanup ≥ cfg.node.cleanupInterval * ChunkStore.nsPerSec) := by
      rw [Bool.eq_iff_iff, gate_iff]; simp [ChunkStore.nsPerSec, h1, h3]
    simp only [tick, ChunkStore.step, ChunkStore.stepF, ChunkStore.nodeTickF]
    by_cases hc : w.now - w.lastCleanup ≥ cfg.node.cleanupInterval * ChunkStore.nsPerSec
    · have hg' : gate cfg s = true := by rw [hg]; simpa using hc
      simp only [hg', if_true, hc]
      rw [cleanup_eq]
      exact ⟨h1, by show (ChunkStore.sweep s.recs s.now).1 = (ChunkStore.sweep w.sys.recs w.now).1; rw [h1, h2], h1⟩
    · have hg' : gate cfg s = false := by rw [hg]; simpa using hc
      simp only [hg', Bool.false_eq_true, if_false, hc]
      exact ⟨h1, h2, h3⟩

theorem agree_run (cfg : Cfg) (hp : cfg.node.store.persistent = false) {r : Run} {w : ChunkStore.World} (h : Agree r.s w)
    (ops : List Op) :
    Agree (run cfg r ops).s (ChunkStore.runModel cfg.node w (c01Hist ops)) := by
  induction ops generalizing r w with
  | nil => exact h
  | cons op ops ih =>
    simp only [run, List.foldl_cons, c01Hist, List.flatMap_cons]
    rw [runModel_append]
    exact ih (r := exec cfg r op) (agree_step cfg hp h op)

theorem agree_reach (cfg : Cfg) (hp : cfg.node.store.persistent = false) (t0 : Int) (ops : List Op) :
    Agree (C05.reach cfg t0 ops).s (ChunkStore.runModel cfg.node (ChunkStore.fresh t0 []) (c01Hist ops)) :=
  agree_run cfg hp (r := Run.init cfg t0) ⟨rfl, rfl, rfl⟩ ops

/-! ### C06 -/

open EphVerif.Providers (Table)

/-- the provider-directory operations one node operation performs in state `s` -/
def locOps (cfg : Cfg) (s : State) : Op → List Providers.Op
  | .adv d => [.adv d]
  | .store c ttl hint => [.add c cfg.self (ChunkStore.nodeTtl cfg.node ttl * ns) hint]
  | .ingest _ _ _ => []
  | .announce c e _ p _ addr ttl hint =>
    match manifestTtl cfg (wall cfg s) e with
    | none => []
    | some t => if addr = "" then [] else [.add c p (advertised cfg ttl t * ns) hint]
  | .reannounce c ttl hint =>
    match ChunkStore.getRecord s.recs s.now c with
    | none => []
    | some r => if s.now + ttl * ns < r.expires then [] else [.add c cfg.self (ttl * ns) hint]
  | .lookup c =>
    match ChunkStore.getRecord s.recs s.now c with
    | some _ => []
    | none => [.find c]
  | .probe c => [.find c]
  | .tick =>
    if gate cfg s then ((ChunkStore.sweep s.recs s.now).2.map fun c => Providers.Op.withdraw c cfg.self) ++ [.sweep] else []
  | .drain => []
  | .audit => []

def locHist (cfg : Cfg) (s : State) : List Op → List Providers.Op
  | [] => []
  | op :: ops => locOps cfg s op ++ locHist cfg (step cfg s op) ops

/-- node state and C06 joint state show the same locator table -/
structure LAgree (s : State) (st : C06L.St) : Prop where
  now : st.now = s.now
  t : st.t = s.locs

theorem run_withdraws (st : C06L.St) (self : String) (cs : List String) :
    (C06L.run st (cs.map fun c => Providers.Op.withdraw c self)).1.t = withdrawAll st.t self cs ∧
    (C06L.run st (cs.map fun c => Providers.Op.withdraw c self)).1.now = st.now := by
  induction cs generalizing st with
  | nil => exact ⟨rfl, rfl⟩
  | cons c cs ih =>
    have := ih (C06L.step st (.withdraw c self)).1
    simp only [List.map_cons, C06L.run, withdrawAll, List.foldl_cons]
    exact ⟨this.1, this.2⟩

theorem lagree_step (cfg : Cfg) {s : State} {st : C06L.St} (h : LAgree s st) (op : Op) :
    LAgree (step cfg s op) (C06L.run st (locOps cfg s op)).1 := by
  obtain ⟨h1, h2⟩ := h
  cases op with
  | adv d => exact ⟨by show st.now + d = s.now + d; rw [h1], h2⟩
  | store c ttl hint =>
    refine ⟨h1, ?_⟩
    show Providers.addContact st.t st.now c cfg.self _ hint = Providers.addContact s.locs s.now c cfg.self _ hint
    rw [h1, h2]
  | ingest c e same =>
    refine ⟨h1.trans (ingest_frame cfg s c e same).1.symm, ?_⟩
    show st.t = (ingest cfg s c e same).locs
    unfold ingest
    split
    · exact h2
    · split <;> exact h2
  | announce c e same p pid addr ttl hint =>
    cases hm : manifestTtl cfg (wall cfg s) e with
    | none =>
      have e1 : locOps cfg s (.announce c e same p pid addr ttl hint) = [] := by simp only [locOps, hm]
      have e2 : step cfg s (.announce c e same p pid addr ttl hint) = s := by simp only [step, announce, hm]
      rw [e1, e2]; exact ⟨h1, h2⟩
    | some t =>
      by_cases ha : addr = ""
      · have e1 : locOps cfg s (.announce c e same p pid addr ttl hint) = [] := by simp only [locOps, hm, ha, if_true]
        have e2 : (step cfg s (.announce c e same p pid addr ttl hint)).now = s.now ∧
            (step cfg s (.announce c e same p pid addr ttl hint)).locs = s.locs := by
          simp only [step, announce, hm, ha, if_true]
          split <;> exact ⟨rfl, rfl⟩
        rw [e1]; exact ⟨h1.trans e2.1.symm, h2.trans e2.2.symm⟩
      · have e1 : locOps cfg s (.announce c e same p pid addr ttl hint) = [.add c p (advertised cfg ttl t * ns) hint] := by
          simp only [locOps, hm, ha, if_false]
        have e2 : (step cfg s (.announce c e same p pid addr ttl hint)).now = s.now ∧
            (step cfg s (.announce c e same p pid addr ttl hint)).locs =
              Providers.addContact s.locs s.now c p (advertised cfg ttl t * ns) hint := by
          simp only [step, announce, hm, ha, if_false, advertised]
          split <;> exact ⟨rfl, rfl⟩
        rw [e1]
        refine ⟨h1.trans e2.1.symm, ?_⟩
        rw [e2.2]
        show Providers.addContact st.t st.now c p _ hint = _
        rw [h1, h2]
  | reannounce c ttl hint =>
    cases hg : ChunkStore.getRecord s.recs s.now c with
    | none =>
      have e1 : locOps cfg s (.reannounce c ttl hint) = [] := by simp only [locOps, hg]
      have e2 : step cfg s (.reannounce c ttl hint) = s := by simp only [step, reannounce, hg]
      rw [e1, e2]; exact ⟨h1, h2⟩
    | some r =>
      by_cases hlt : s.now + ttl * ns < r.expires
      · have e1 : locOps cfg s (.reannounce c ttl hint) = [] := by simp only [locOps, hg, hlt, if_true]
        have e2 : step cfg s (.reannounce c ttl hint) = s := by simp only [step, reannounce, hg, hlt, if_true]
        rw [e1, e2]; exact ⟨h1, h2⟩
      · have e1 : locOps cfg s (.reannounce c ttl hint) = [.add c cfg.self (ttl * ns) hint] := by
          simp only [locOps, hg, hlt, if_false]
        have e2 : step cfg s (.reannounce c ttl hint) = selfAnnounce cfg s c (ttl * ns) hint := by
          simp only [step, reannounce, hg, hlt, if_false]
        rw [e1, e2]
        refine ⟨h1, ?_⟩
        show Providers.addContact st.t st.now c cfg.self _ hint = Providers.addContact s.locs s.now c cfg.self _ hint
        rw [h1, h2]
  | lookup c =>
    obtain ⟨fa, _, _, _⟩ := lookup_frame cfg s c
    cases hg : ChunkStore.getRecord s.recs s.now c with
    | some r =>
      have e1 : locOps cfg s (.lookup c) = [] := by simp only [locOps, hg]
      have e2 : (step cfg s (.lookup c)).locs = s.locs := by
        simp only [step, lookup, hg]
        split
        · rfl
        · split
          · rfl
          · split <;> rfl
      rw [e1]
      exact ⟨h1.trans fa.symm, h2.trans e2.symm⟩
    | none =>
      have e1 : locOps cfg s (.lookup c) = [.find c] := by simp only [locOps, hg]
      have e2 : step cfg s (.lookup c) = probe s c := by simp only [step, lookup, hg, probe]
      rw [e1, e2]
      refine ⟨h1, ?_⟩
      show (Providers.findProviders st.t st.now c).1 = (Providers.findProviders s.locs s.now c).1
      rw [h1, h2]
  | probe c =>
    refine ⟨h1, ?_⟩
    show (Providers.findProviders st.t st.now c).1 = (Providers.findProviders s.locs s.now c).1
    rw [h1, h2]
  | drain => exact ⟨h1, h2⟩
  | audit => exact ⟨h1, h2⟩
  | tick =>
    simp only [locOps, step, tick]
    by_cases hg : gate cfg s = true
    · simp only [hg, if_true]
      rw [C06L.run_append, cleanup_eq]
      obtain ⟨w1, w2⟩ := run_withdraws st cfg.self (ChunkStore.sweep s.recs s.now).2
      refine ⟨?_, ?_⟩
      · show (C06L.run st _).1.now = s.now
        rw [w2]; exact h1
      · show Providers.sweep (C06L.run st _).1.t (C06L.run st _).1.now = Providers.sweep (withdrawAll s.locs cfg.self _) s.now
        rw [w1, w2, h1, h2]
    · simp only [Bool.not_eq_true] at hg
      simp only [hg, Bool.false_eq_true, if_false]
      exact ⟨h1, h2⟩

theorem lagree_run (cfg : Cfg) {r : Run} {st : C06L.St} (h : LAgree r.s st) (ops : List Op) :
    LAgree (run cfg r ops).s (C06L.run st (locHist cfg r.s ops)).1 := by
  induction ops generalizing r st with
  | nil => exact h
  | cons op ops ih =>
    simp only [run, List.foldl_cons, locHist]
    rw [C06L.run_append]
    exact ih (r := exec cfg r op) (lagree_step cfg h op)

theorem lagree_reach (cfg : Cfg) (t0 : Int) (ops : List Op) :
    LAgree (C05.reach cfg t0 ops).s (C06L.run (C06L.init t0) (locHist cfg (State.init cfg t0) ops)).1 :=
  lagree_run cfg (r := Run.init cfg t0) ⟨rfl, rfl⟩ ops

end EphVerif.Sys
