/-
C06 helper lemmas, part 3: `add_contact` preserves the simulation relation, for every hint,
when the abstract directory is told (as its `keep` choice) the live part of what the model kept.
-/
import EphVerif.Lemmas.C06Sim

namespace EphVerif.C06L
open EphVerif.Providers EphVerif.C06Spec List

/-! ### list-level facts about valid cuts and liveness -/

/-- if a dropped entry is still live, every kept entry is live too -/
theorem CutOK.kept_live_of_dropped_live {n : Nat} {base kept dropped : List Ann} {now : Int}
    (h : CutOK n base kept dropped) {d : Ann} (hd : d ∈ dropped) (hl : liveAt now d = true) :
    ∀ k ∈ kept, liveAt now k = true := by
  intro k hk
  have := h.le k hk d hd
  simp only [liveAt, decide_eq_true_eq] at hl ⊢
  omega

/-- if a kept entry is dead, every dropped entry is dead too -/
theorem CutOK.dropped_dead_of_kept_dead {n : Nat} {base kept dropped : List Ann} {now : Int}
    (h : CutOK n base kept dropped) {k : Ann} (hk : k ∈ kept) (hl : ¬ liveAt now k = true) :
    dropped.filter (liveAt now) = [] := by
  apply filter_eq_nil_iff.mpr
  intro d hd
  have := h.le k hk d hd
  simp only [liveAt, decide_eq_true_eq] at hl ⊢
  omega

theorem CutOK.filter_perm {n : Nat} {base kept dropped : List Ann} (h : CutOK n base kept dropped)
    (q : Ann → Bool) : kept.filter q ++ dropped.filter q ~ base.filter q := by
  rw [← filter_append]
  exact h.perm.filter q

/-- at most `n` live entries before the cut ⇒ the cut drops no live entry -/
theorem CutOK.live_small {n : Nat} {base kept dropped : List Ann} {now : Int}
    (h : CutOK n base kept dropped) (hs : (base.filter (liveAt now)).length ≤ n) :
    kept.filter (liveAt now) ~ base.filter (liveAt now) := by
  have hp := h.filter_perm (liveAt now)
  by_cases hd : dropped.filter (liveAt now) = []
  · rw [hd, append_nil] at hp; exact hp
  · exfalso
    obtain ⟨d, hdm⟩ := exists_mem_of_ne_nil _ hd
    have hdm' := mem_filter.mp hdm
    have hall := h.kept_live_of_dropped_live hdm'.1 hdm'.2
    have hk : kept.filter (liveAt now) = kept := filter_eq_self.mpr hall
    have hlen := hp.length_eq
    rw [length_append, hk, h.len] at hlen
    have : 0 < (dropped.filter (liveAt now)).length := length_pos_iff_exists_mem.mpr ⟨d, hdm⟩
    omega

/-- more than `n` live entries before the cut ⇒ everything kept is live -/
theorem CutOK.live_big {n : Nat} {base kept dropped : List Ann} {now : Int}
    (h : CutOK n base kept dropped) (hs : (base.filter (liveAt now)).length > n) :
    ∀ k ∈ kept, liveAt now k = true := by
  intro k hk
  by_cases hl : liveAt now k = true
  · exact hl
  · exfalso
    have hd := h.dropped_dead_of_kept_dead hk hl
    have hp := h.filter_perm (liveAt now)
    rw [hd, append_nil] at hp
    have hlt : (kept.filter (liveAt now)).length < kept.length :=
      length_filter_lt_length_iff_exists.mpr ⟨k, hk, hl⟩
    have := hp.length_eq
    have := h.len
    omega

/-- selecting by the kept peers separates `kept` from (a part of) `dropped` in any permutation -/
theorem select_kept {kept dropped' L : List Ann} (hd : PeerDistinct (kept ++ dropped'))
    (hL : L ~ kept ++ dropped') :
    L.filter (fun a => (kept.map (·.peer)).contains a.peer) ~ kept ∧
    L.filter (fun a => !(kept.map (·.peer)).contains a.peer) ~ dropped' := by
  have hsep := (pairwise_append.mp hd).2.2
  have h1 : kept.filter (fun a => (kept.map (·.peer)).contains a.peer) = kept := by
    apply filter_eq_self.mpr
    intro a ha
    exact contains_iff_mem.mpr (mem_map_of_mem (f := (·.peer)) ha)
  have h2 : dropped'.filter (fun a => (kept.map (·.peer)).contains a.peer) = [] := by
    apply filter_eq_nil_iff.mpr
    intro d hdm hc
    obtain ⟨k, hk, hkp⟩ := mem_map.mp (contains_iff_mem.mp hc)
    exact hsep k hk d hdm hkp
  have h3 : kept.filter (fun a => !(kept.map (·.peer)).contains a.peer) = [] := by
    apply filter_eq_nil_iff.mpr
    intro a ha hc
    have : (kept.map (·.peer)).contains a.peer = true :=
      contains_iff_mem.mpr (mem_map_of_mem (f := (·.peer)) ha)
    rw [this] at hc
    simp at hc
  have h4 : dropped'.filter (fun a => !(kept.map (·.peer)).contains a.peer) = dropped' := by
    apply filter_eq_self.mpr
    intro d hdm
    cases hc : (kept.map (·.peer)).contains d.peer with
    | false => rfl
    | true =>
      exfalso
      obtain ⟨k, hk, hkp⟩ := mem_map.mp (contains_iff_mem.mp hc)
      exact hsep k hk d hdm hkp
  constructor
  · have := hL.filter (fun a => (kept.map (·.peer)).contains a.peer)
    rw [filter_append, h1, h2, append_nil] at this
    exact this
  · have := hL.filter (fun a => !(kept.map (·.peer)).contains a.peer)
    rw [filter_append, h3, h4, nil_append] at this
    exact this

/-! ### the abstract directory's `add`, case by case -/

/-- the spec's pre-truncation list for `(c, p)` -/
def specBase (s : S) (now : Int) (c p : String) (e : Int) : List Ann :=
  (s c).filter (fun a => a.peer != p && liveAt now a) ++ [⟨p, e⟩]

theorem spec_add_other (s : S) (now : Int) (c p : String) (e : Int) (keep : Option (List String)) (k : String)
    (hk : k ≠ c) : (C06Spec.add s now c p e keep).1 k = s k := by
  unfold C06Spec.add
  simp only []
  split
  · simp [C06Spec.set, hk]
  · split
    · split <;> simp [C06Spec.set, hk]
    · simp [C06Spec.set, hk]

theorem spec_add_small (s : S) (now : Int) (c p : String) (e : Int) (keep : Option (List String))
    (h : ((specBase s now c p e).filter (liveAt now)).length ≤ 20) :
    (C06Spec.add s now c p e keep).1 c = specBase s now c p e ∧ (C06Spec.add s now c p e keep).2 = true := by
  unfold C06Spec.add
  unfold specBase at h
  simp only [h, if_true, C06Spec.set, specBase, and_true]

theorem spec_add_big (s : S) (now : Int) (c p : String) (e : Int) (k : List String)
    (h : ((specBase s now c p e).filter (liveAt now)).length > 20)
    (hv : validKeep ((specBase s now c p e).filter (liveAt now)) k = true) :
    (C06Spec.add s now c p e (some k)).1 c =
        ((specBase s now c p e).filter (liveAt now)).filter (fun a => k.contains a.peer) ∧
      (C06Spec.add s now c p e (some k)).2 = true := by
  unfold C06Spec.add
  unfold specBase at h hv
  have h' := Nat.not_le.mpr h
  simp only [h', if_false, hv, if_true, C06Spec.set, specBase, and_self]

/-- live parts of the two pre-truncation lists correspond -/
theorem base_live_perm {now : Int} {t : Table} {s : S} (h : R now t s) (c p : String) (e : Int) :
    (addBase (holdersOf t c) p e).filter (liveAt now) ~ (specBase s now c p e).filter (liveAt now) := by
  unfold addBase specBase
  rw [filter_append, filter_append]
  refine Perm.append ?_ (Perm.refl _)
  have h1 : ((holdersOf t c).filter (fun h => h.peer != p)).filter (liveAt now)
      = ((holdersOf t c).filter (liveAt now)).filter (fun h => h.peer != p) := by
    rw [filter_filter, filter_filter]
    apply filter_congr
    intro x _
    exact Bool.and_comm _ _
  have h2 : ((s c).filter (fun a => a.peer != p && liveAt now a)).filter (liveAt now)
      = ((s c).filter (liveAt now)).filter (fun h => h.peer != p) := by
    rw [filter_filter, filter_filter]
    apply filter_congr
    intro x _
    cases (x.peer != p) <;> cases liveAt now x <;> rfl
  rw [h1, h2]
  exact (h.sim c).filter _

/-- the `keep` choice handed to the abstract directory: the live part of what the model kept -/
def keepOf (now : Int) (hs : List Ann) : List String := (hs.filter (liveAt now)).map (·.peer)

theorem validKeep_intro {base kept dropped : List Ann} {k : List String}
    (hk : base.filter (fun a => k.contains a.peer) ~ kept)
    (hd : base.filter (fun a => !k.contains a.peer) ~ dropped)
    (hlen : kept.length = 20) (hle : ∀ x ∈ kept, ∀ d ∈ dropped, d.exp ≤ x.exp) :
    validKeep base k = true := by
  simp only [validKeep, Bool.and_eq_true, beq_iff_eq, all_eq_true, decide_eq_true_eq]
  refine ⟨by rw [hk.length_eq]; exact hlen, ?_⟩
  intro x hx d hdm
  exact hle x (hk.mem_iff.mp hx) d (hd.mem_iff.mp hdm)

/-- **`add_contact` refines the abstract `add`**, whatever the hint: the abstract directory,
    told the live part of the model's kept set, accepts it as a legal choice and ends up with the
    same live announcements. -/
theorem R_add {now : Int} {t : Table} {s : S} (h : R now t s) (c p : String) (ttl : Int)
    (hint : Option (List String)) :
    R now (addContact t now c p ttl hint)
        (C06Spec.add s now c p (now + ttl) (some (keepOf now (holdersOf (addContact t now c p ttl hint) c)))).1 ∧
      (C06Spec.add s now c p (now + ttl) (some (keepOf now (holdersOf (addContact t now c p ttl hint) c)))).2 = true := by
  have hbl := base_live_perm h c p (now + ttl)
  have hkept : holdersOf (addContact t now c p ttl hint) c = addKept (holdersOf t c) p (now + ttl) hint := by
    rw [add_holders]; simp
  rw [hkept]
  -- what happens at chunk `c`
  have main : (holdersOf (addContact t now c p ttl hint) c).filter (liveAt now) ~
        ((C06Spec.add s now c p (now + ttl) (some (keepOf now (addKept (holdersOf t c) p (now + ttl) hint)))).1 c).filter (liveAt now) ∧
      (C06Spec.add s now c p (now + ttl) (some (keepOf now (addKept (holdersOf t c) p (now + ttl) hint)))).2 = true := by
    rw [hkept]
    by_cases hsmall : ((specBase s now c p (now + ttl)).filter (liveAt now)).length ≤ 20
    · -- no cut in the abstract directory
      obtain ⟨h1, h2⟩ := spec_add_small s now c p (now + ttl)
        (some (keepOf now (addKept (holdersOf t c) p (now + ttl) hint))) hsmall
      rw [h1]
      refine ⟨?_, h2⟩
      rcases addKept_cases (holdersOf t c) p (now + ttl) hint with ⟨_, heq⟩ | ⟨_, d, hc⟩
      · rw [heq]; exact hbl
      · exact (hc.live_small (by rw [hbl.length_eq]; exact hsmall)).trans hbl
    · -- more than 20 live: both sides cut
      have hbig : ((specBase s now c p (now + ttl)).filter (liveAt now)).length > 20 := by omega
      have hbig' : ((addBase (holdersOf t c) p (now + ttl)).filter (liveAt now)).length > 20 := by
        rw [hbl.length_eq]; exact hbig
      rcases addKept_cases (holdersOf t c) p (now + ttl) hint with ⟨hle, _⟩ | ⟨_, d, hc⟩
      · exfalso
        have := length_filter_le (liveAt now) (addBase (holdersOf t c) p (now + ttl))
        omega
      · have hall := hc.live_big hbig'
        have hself : (addKept (holdersOf t c) p (now + ttl) hint).filter (liveAt now)
            = addKept (holdersOf t c) p (now + ttl) hint := filter_eq_self.mpr hall
        have hkeep : keepOf now (addKept (holdersOf t c) p (now + ttl) hint)
            = (addKept (holdersOf t c) p (now + ttl) hint).map (·.peer) := by
          unfold keepOf; rw [hself]
        -- the spec's live base is a permutation of kept ++ live dropped
        have hperm : (specBase s now c p (now + ttl)).filter (liveAt now) ~
            addKept (holdersOf t c) p (now + ttl) hint ++ d.filter (liveAt now) := by
          have := (hc.filter_perm (liveAt now))
          rw [hself] at this
          exact (hbl.symm.trans this.symm)
        have hdist : PeerDistinct (addKept (holdersOf t c) p (now + ttl) hint ++ d.filter (liveAt now)) := by
          have hd0 := hc.distinct (addBase_distinct (h.ok.distinct c) p (now + ttl))
          obtain ⟨a1, a2, a3⟩ := pairwise_append.mp hd0
          exact pairwise_append.mpr ⟨a1, a2.filter _, fun x hx y hy => a3 x hx y (mem_filter.mp hy).1⟩
        obtain ⟨s1, s2⟩ := select_kept hdist hperm
        have hv : validKeep ((specBase s now c p (now + ttl)).filter (liveAt now))
            (keepOf now (addKept (holdersOf t c) p (now + ttl) hint)) = true := by
          rw [hkeep]
          exact validKeep_intro s1 s2 hc.len
            (fun x hx y hy => hc.le x hx y (mem_filter.mp hy).1)
        obtain ⟨h1, h2⟩ := spec_add_big s now c p (now + ttl) _ hbig hv
        rw [h1]
        refine ⟨?_, h2⟩
        rw [hkeep]
        exact (s1.filter (liveAt now)).symm
  refine ⟨⟨add_ok h.ok now c p ttl hint, fun k => ?_⟩, main.2⟩
  by_cases hk : k = c
  · subst hk; exact main.1
  · rw [add_holders, spec_add_other _ _ _ _ _ _ _ hk]
    simp only [hk, if_false]
    exact h.sim k

end EphVerif.C06L
