import EphVerif.Lemmas.C21Basic

/-! C21 — failure history and lockout along histories. -/
set_option linter.unusedSimpArgs false

namespace EphVerif.C21
open EphVerif.Announce

theorem window_lt_lockout : failureWindow < lockoutDuration := by decide
theorem threshold_eq : failureThreshold = 3 := by decide

/-- pruning from the front keeps a sublist whose head is not pruned -/
theorem dropWhile_sublist {p : Int → Bool} {x : Int} {xs : List Int} (hx : p x = false) :
    ∀ {l : List Int}, (x :: xs).Sublist l → (x :: xs).Sublist (l.dropWhile p)
  | [], h => by simp at h
  | y :: ys, h => by
    rw [List.dropWhile_cons]
    by_cases hy : p y = true
    · simp only [hy, ↓reduceIte]
      cases h with
      | cons _ h' => exact dropWhile_sublist hx h'
      | cons_cons _ h' => rw [hx] at hy; exact absurd hy (by simp)
    · simp only [hy, Bool.false_eq_true, ↓reduceIte]
      exact h

/-- the two ways `handle_announce` treats the sender's failure history and lockout -/
theorem peerAnnounce_lockcases (cfg : Cfg) (now : Int) (ps : PeerSt) (a : Ann) :
    (∃ u, ps.lock = some u ∧ now < u ∧ (peerAnnounce cfg now ps a).2 = .rejected .locked ∧
        (peerAnnounce cfg now ps a).1.fails = ps.fails ∧ (peerAnnounce cfg now ps a).1.lock = ps.lock) ∨
    ((ps.lock = none ∨ ∃ u, ps.lock = some u ∧ u ≤ now) ∧
      (((peerAnnounce cfg now ps a).2 = .accepted ∧ (peerAnnounce cfg now ps a).1.lock = none) ∨
       (∃ x, (peerAnnounce cfg now ps a).2 = .rejected x ∧ x ≠ .locked ∧
          ((peerAnnounce cfg now ps a).1.fails, (peerAnnounce cfg now ps a).1.lock) = failStep now ps.fails))) := by
  have hx := peerAnnounce_exit cfg now ps a
  generalize peerAnnounce cfg now ps a = r at hx ⊢
  cases hx with
  | locked hl =>
    obtain ⟨u, hu, hlt, he⟩ := senderLocked_true hl
    left
    exact ⟨u, hu, hlt, rfl, by rw [he], by rw [he]⟩
  | pre hl r' hr =>
    right
    refine ⟨(senderLocked_false hl).1, Or.inr ⟨r', rfl, ?_, ?_⟩⟩
    · rcases preCheck_some hr with rfl | rfl | rfl <;> simp
    · rw [rejectP_fails _ (senderLocked_false hl).2, senderLocked_fails]
  | throttle hl hp ht =>
    right
    refine ⟨(senderLocked_false hl).1, Or.inr ⟨.throttle, rfl, by simp, ?_⟩⟩
    rw [rejectP_fails _ (by simpa using (senderLocked_false hl).2)]
    simp [senderLocked_fails]
  | post hl hp ht r' hr =>
    right
    refine ⟨(senderLocked_false hl).1, Or.inr ⟨r', rfl, ?_, ?_⟩⟩
    · rcases postCheck_some hr with rfl | rfl | rfl | rfl | rfl <;> simp
    · rw [rejectP_fails _ (by simpa using (senderLocked_false hl).2)]
      simp [senderLocked_fails]
  | accepted hl hp ht hq =>
    right
    exact ⟨(senderLocked_false hl).1, Or.inl ⟨rfl, rfl⟩⟩

/-- the two outcomes of `failStep` -/
theorem failStep_eq (now : Int) (fails : List Int) :
    ((fails.dropWhile (fun t => decide (now - t > failureWindow)) ++ [now]).length ≥ 3 ∧
        failStep now fails = ([], some (now + lockoutDuration))) ∨
    ((fails.dropWhile (fun t => decide (now - t > failureWindow)) ++ [now]).length < 3 ∧
        failStep now fails = (fails.dropWhile (fun t => decide (now - t > failureWindow)) ++ [now], none)) := by
  by_cases h : (fails.dropWhile (fun t => decide (now - t > failureWindow)) ++ [now]).length ≥ failureThreshold
  · left
    exact ⟨by rw [threshold_eq] at h; exact h, if_pos h⟩
  · right
    exact ⟨by rw [threshold_eq] at h; omega, if_neg h⟩

/-- what a counted rejection does when the failures `t0 :: rest` are on record and `t0` is still inside
    the failure window -/
theorem failStep_counts {now t0 : Int} {rest fails : List Int} (hs : (t0 :: rest).Sublist fails)
    (hwin : now - t0 ≤ failureWindow) :
    ((failStep now fails).2 = some (now + lockoutDuration) ∨
      ((failStep now fails).2 = none ∧ (t0 :: rest ++ [now]).Sublist (failStep now fails).1)) ∧
    (1 ≤ rest.length → (failStep now fails).2 = some (now + lockoutDuration)) := by
  have hp : (t0 :: rest).Sublist (fails.dropWhile (fun t => decide (now - t > failureWindow))) :=
    dropWhile_sublist (by simp; omega) hs
  have hf : (t0 :: rest ++ [now]).Sublist (fails.dropWhile (fun t => decide (now - t > failureWindow)) ++ [now]) :=
    List.Sublist.append hp (List.Sublist.refl _)
  have hlen := hf.length_le
  simp only [List.length_append, List.length_cons, List.length_nil] at hlen
  rcases failStep_eq now fails with ⟨_, he⟩ | ⟨hlt, he⟩
  · rw [he]; exact ⟨Or.inl rfl, fun _ => rfl⟩
  · rw [he]
    refine ⟨Or.inr ⟨rfl, hf⟩, ?_⟩
    intro h1
    simp only [List.length_append, List.length_cons, List.length_nil] at hlt
    omega

/-- the very first counted rejection puts its own time on record (or already locks) -/
theorem failStep_first (now : Int) (fails : List Int) :
    (failStep now fails).2 = some (now + lockoutDuration) ∨
    ((failStep now fails).2 = none ∧ [now].Sublist (failStep now fails).1) := by
  rcases failStep_eq now fails with ⟨_, he⟩ | ⟨_, he⟩
  · rw [he]; exact Or.inl rfl
  · rw [he]; exact Or.inr ⟨rfl, List.sublist_append_right _ _⟩

/-- bookkeeping predicate: the failures `ts` (oldest `t0`) are on record and no lockout is set, or a
    lockout reaching at least `t0 + 180 s` is set, or `t0` has left the failure window -/
def Q (ts : List Int) (t0 now : Int) (ps : PeerSt) : Prop :=
  t0 ≤ now ∧ ((ts.Sublist ps.fails ∧ ps.lock = none) ∨ (∃ u, ps.lock = some u ∧ t0 + lockoutDuration ≤ u) ∨
    now - t0 > failureWindow)

theorem Q_adv {ts : List Int} {t0 now : Int} {ps : PeerSt} (h : Q ts t0 now ps) (d : Nat) : Q ts t0 (now + d) ps := by
  obtain ⟨h0, h1 | h2 | h3⟩ := h
  · exact ⟨by omega, Or.inl h1⟩
  · exact ⟨by omega, Or.inr (Or.inl h2)⟩
  · exact ⟨by omega, Or.inr (Or.inr (by omega))⟩

/-- an announce of the peer that is not accepted keeps the bookkeeping predicate -/
theorem Q_announce {cfg : Cfg} {t0 now : Int} {rest : List Int} {ps : PeerSt} (a : Ann)
    (h : Q (t0 :: rest) t0 now ps) (hna : (peerAnnounce cfg now ps a).2 ≠ .accepted) :
    Q (t0 :: rest) t0 now (peerAnnounce cfg now ps a).1 := by
  obtain ⟨h0, hq⟩ := h
  refine ⟨h0, ?_⟩
  have hwl := window_lt_lockout
  rcases peerAnnounce_lockcases cfg now ps a with ⟨u, hu, hlt, _, hf, hl⟩ | ⟨hunl, hacc | ⟨x, _, _, hfs⟩⟩
  · rw [hf, hl]; exact hq
  · exact absurd hacc.1 hna
  · have hfs1 : (peerAnnounce cfg now ps a).1.fails = (failStep now ps.fails).1 := congrArg Prod.fst hfs
    have hfs2 : (peerAnnounce cfg now ps a).1.lock = (failStep now ps.fails).2 := congrArg Prod.snd hfs
    rcases hq with ⟨hs, hn⟩ | ⟨u, hu, hle⟩ | h3
    · by_cases hwin : now - t0 ≤ failureWindow
      · rcases (failStep_counts hs hwin).1 with hl | ⟨hl, hsub⟩
        · right; left
          exact ⟨now + lockoutDuration, by rw [hfs2, hl], by omega⟩
        · left
          refine ⟨?_, by rw [hfs2, hl]⟩
          rw [hfs1]
          exact (List.sublist_append_left _ _).trans hsub
      · right; right; omega
    · right; right
      rcases hunl with hn | ⟨u', hu', hle'⟩
      · rw [hn] at hu; exact absurd hu (by simp)
      · rw [hu'] at hu
        simp only [Option.some.injEq] at hu
        omega
    · right; right; exact h3

/-- a counted rejection inside the failure window of `t0` with the predicate in force -/
theorem Q_reject {cfg : Cfg} {t0 now : Int} {rest : List Int} {ps : PeerSt} (a : Ann)
    (h : Q (t0 :: rest) t0 now ps) (hwin : now - t0 ≤ failureWindow)
    (hr : ∃ x, (peerAnnounce cfg now ps a).2 = .rejected x ∧ x ≠ .locked) :
    Q (t0 :: rest ++ [now]) t0 now (peerAnnounce cfg now ps a).1 ∧
    (1 ≤ rest.length → (peerAnnounce cfg now ps a).1.lock = some (now + lockoutDuration)) := by
  obtain ⟨h0, hq⟩ := h
  obtain ⟨x, hx, hxl⟩ := hr
  have hwl := window_lt_lockout
  rcases peerAnnounce_lockcases cfg now ps a with ⟨u, hu, hlt, hlocked, _, _⟩ | ⟨hunl, hacc | ⟨x', _, _, hfs⟩⟩
  · rw [hlocked] at hx
    simp only [Outcome.rejected.injEq] at hx
    exact absurd hx.symm hxl
  · rw [hacc.1] at hx; exact absurd hx (by simp)
  · have hfs1 : (peerAnnounce cfg now ps a).1.fails = (failStep now ps.fails).1 := congrArg Prod.fst hfs
    have hfs2 : (peerAnnounce cfg now ps a).1.lock = (failStep now ps.fails).2 := congrArg Prod.snd hfs
    have hcase1 : (t0 :: rest).Sublist ps.fails ∧ ps.lock = none := by
      rcases hq with h1 | ⟨u, hu, hle⟩ | h3
      · exact h1
      · exfalso
        rcases hunl with hn | ⟨u', hu', hle'⟩
        · rw [hn] at hu; exact absurd hu (by simp)
        · rw [hu'] at hu
          simp only [Option.some.injEq] at hu
          omega
      · omega
    have hc := failStep_counts hcase1.1 hwin
    refine ⟨⟨h0, ?_⟩, ?_⟩
    · rcases hc.1 with hl | ⟨hl, hsub⟩
      · right; left
        exact ⟨now + lockoutDuration, by rw [hfs2, hl], by omega⟩
      · left
        exact ⟨by rw [hfs1]; exact hsub, by rw [hfs2, hl]⟩
    · intro h1
      rw [hfs2]
      exact hc.2 h1

/-- the first counted rejection establishes the predicate -/
theorem Q_first {cfg : Cfg} {now : Int} {ps : PeerSt} (a : Ann)
    (hr : ∃ x, (peerAnnounce cfg now ps a).2 = .rejected x ∧ x ≠ .locked) :
    Q [now] now now (peerAnnounce cfg now ps a).1 := by
  obtain ⟨x, hx, hxl⟩ := hr
  refine ⟨Int.le_refl _, ?_⟩
  rcases peerAnnounce_lockcases cfg now ps a with ⟨u, hu, hlt, hlocked, _, _⟩ | ⟨hunl, hacc | ⟨x', _, _, hfs⟩⟩
  · rw [hlocked] at hx
    simp only [Outcome.rejected.injEq] at hx
    exact absurd hx.symm hxl
  · rw [hacc.1] at hx; exact absurd hx (by simp)
  · have hfs1 : (peerAnnounce cfg now ps a).1.fails = (failStep now ps.fails).1 := congrArg Prod.fst hfs
    have hfs2 : (peerAnnounce cfg now ps a).1.lock = (failStep now ps.fails).2 := congrArg Prod.snd hfs
    rcases failStep_first now ps.fails with hl | ⟨hl, hsub⟩
    · right; left
      exact ⟨now + lockoutDuration, by rw [hfs2, hl], Int.le_refl _⟩
    · left
      exact ⟨by rw [hfs1]; exact hsub, by rw [hfs2, hl]⟩

/-! ### along histories -/

/-- no announce of `p` is accepted in these events -/
def NoAccept (p : String) (evs : List Ev) : Prop := ∀ e ∈ evs, e.a.peer = p → e.out ≠ .accepted

theorem step_Q {cfg : Cfg} {p : String} {t0 : Int} {rest : List Int} {s : State} (op : Op)
    (h : Q (t0 :: rest) t0 s.now (s.peers p)) (hna : NoAccept p (step cfg s op).2) :
    Q (t0 :: rest) t0 (step cfg s op).1.now ((step cfg s op).1.peers p) := by
  cases op with
  | adv d => simpa [step] using Q_adv h d
  | ann a =>
    simp only [step, announce_now]
    by_cases hp : p = a.peer
    · subst hp
      rw [announce_peer]
      apply Q_announce a h
      have := hna ⟨s.now, a, (announce cfg s a).2⟩ (by simp [step]) rfl
      simpa [announce_out] using this
    · rw [announce_other _ _ _ _ hp]
      exact h

theorem run_Q {cfg : Cfg} {p : String} {t0 : Int} {rest : List Int} (ops : List Op) :
    ∀ (s : State), Q (t0 :: rest) t0 s.now (s.peers p) → NoAccept p (run cfg (s, []) ops).2 →
      Q (t0 :: rest) t0 (run cfg (s, []) ops).1.now ((run cfg (s, []) ops).1.peers p) := by
  induction ops with
  | nil => intro s h _; exact h
  | cons op rest' ih =>
    intro s h hna
    obtain ⟨e1, e2⟩ := run_cons cfg s op rest'
    rw [e1]
    rw [e2] at hna
    apply ih _ (step_Q op h (fun e he => hna e (List.mem_append_left _ he)))
    exact fun e he => hna e (List.mem_append_right _ he)

/-- a lockout stays in force, untouched, for as long as the clock is before its deadline -/
theorem run_locked {cfg : Cfg} {p : String} {u : Int} (ops : List Op) :
    ∀ (s : State), (s.peers p).lock = some u → (run cfg (s, []) ops).1.now < u →
      ((run cfg (s, []) ops).1.peers p).lock = some u := by
  induction ops with
  | nil => intro s h _; exact h
  | cons op rest ih =>
    intro s h hlt
    obtain ⟨e1, _⟩ := run_cons cfg s op rest
    rw [e1] at hlt ⊢
    apply ih _ _ hlt
    have hnow : (step cfg s op).1.now < u := Int.lt_of_le_of_lt (run_now_le cfg rest _) hlt
    cases op with
    | adv d => simpa [step] using h
    | ann a =>
      simp only [step] at hnow ⊢
      rw [announce_now] at hnow
      by_cases hp : p = a.peer
      · subst hp
        rw [announce_peer]
        rcases peerAnnounce_lockcases cfg s.now (s.peers a.peer) a with ⟨u', _, _, _, _, hl⟩ | ⟨hunl, _⟩
        · rw [hl]; exact h
        · exfalso
          rcases hunl with hn | ⟨u', hu', hle'⟩
          · rw [hn] at h; exact absurd h (by simp)
          · rw [hu'] at h
            simp only [Option.some.injEq] at h
            omega
      · rw [announce_other _ _ _ _ hp]
        exact h

/-- a locked-out sender is refused and nothing of the node state changes -/
theorem announce_locked {cfg : Cfg} {s : State} {a : Ann} {u : Int} (h : (s.peers a.peer).lock = some u)
    (hlt : s.now < u) : (announce cfg s a).2 = .rejected .locked ∧ (announce cfg s a).1.obs = s.obs := by
  have hout : (announce cfg s a).2 = .rejected .locked := by
    rw [announce_out]
    rcases peerAnnounce_lockcases cfg s.now (s.peers a.peer) a with ⟨_, _, _, hl, _, _⟩ | ⟨hunl, _⟩
    · exact hl
    · exfalso
      rcases hunl with hn | ⟨u', hu', hle'⟩
      · rw [hn] at h; exact absurd h (by simp)
      · rw [hu'] at h
        simp only [Option.some.injEq] at h
        omega
  exact ⟨hout, announce_obs cfg s a (by rw [hout]; simp)⟩

end EphVerif.C21
