/-
C10, table facts (core Lean only).  The log/exp tables built by the model of
`build_exp_table` / `build_log_table` are evaluated once by the kernel and shown equal to the
tables dumped from the compiled source (`Generated/C10.lean`); every other fact is a
one-dimensional `decide +kernel` over at most 512 entries.
-/
import EphVerif.Model.Shamir
import EphVerif.Spec.Shamir

namespace EphVerif.C10L
open EphVerif.Shamir EphVerif.Gen.C10 EphVerif.ShamirSpec

/-- (T) the Lean model of the two builders computes exactly what the compiled builders compute. -/
theorem expList_eq : expList = expTableLit := by decide +kernel
theorem logList_eq : logList = logTableLit := by decide +kernel

/-- the tables as plain functions -/
def E (i : Nat) : Nat := expTableLit.getD i 0
def L (a : Nat) : Nat := logTableLit.getD a 0

theorem expAt_eq (i : Nat) : expAt i = E i := by
  simp [expAt, expTable, E, expList_eq]

theorem logAt_eq (a : Nat) : logAt a = L a := by
  simp [logAt, logTable, L, logList_eq]

theorem kMulMod_eq : kMulMod = 255 := by decide
theorem kDivMod_eq : kDivMod = 255 := by decide
theorem kDivAdd_eq : kDivAdd = 255 := by decide
theorem kFieldPolynomial_eq : kFieldPolynomial = 0x11D := by decide
theorem kShareIndexStart_eq : kShareIndexStart = 1 := by decide
theorem kDegreeStart_eq : kDegreeStart = 1 := by decide
theorem kShareIndexModulus_gt : 255 < kShareIndexModulus := by decide
theorem kSecretBytes_eq : kSecretBytes = 32 ∧ kInterpolateBytes = 32 := by decide

/-- `exp` restricted to 0…254 takes non-zero byte values and `log` inverts it. -/
theorem exp_facts : ∀ k, k < 255 → E k ≠ 0 ∧ E k < 256 ∧ L (E k) = k := by decide +kernel

/-- `log` maps non-zero bytes into 0…254 and `exp` inverts it. -/
theorem log_facts : ∀ a, a < 256 → a ≠ 0 → L a < 255 ∧ E (L a) = a := by decide +kernel

/-- `exp[k+1] = x · exp[k]` in F_2[x]/(x^8+x^4+x^3+x^2+1): the table lists the powers of `x`. -/
theorem exp_xtime : ∀ k, k < 255 → xtime (E k) = E ((k + 1) % 255) := by decide +kernel

theorem exp_zero : E 0 = 1 := by decide +kernel

theorem exp_small : ∀ i, i < 8 → E i = 2 ^ i := by decide +kernel

end EphVerif.C10L
