/-
C14 helper lemmas: the reader machine of Model/Frames.lean.
  * feeding is a monoid action (`feed_append`, `feedChunks_eq`): any chunking of a stream is the stream;
  * what a `recv_all` does with fewer bytes than / exactly the bytes it misses (`feed_short`, `feed_exact`);
  * the machine and `receiveLoop` agree on every byte string (`feed_outcome`, `parse_eq`).
-/
import EphVerif.Model.Frames

set_option linter.unusedSimpArgs false

namespace EphVerif.Frames
open EphVerif.Gen

theorem kNonceSize_eq : C14.kNonceSize = 12 := rfl
theorem kLengthFieldSize_eq : C14.kLengthFieldSize = 4 := rfl

/-- the reader thread is at the top of the loop: about to `recv_all` a nonce -/
structure Idle (r : Reader) : Prop where
  ended : r.ended = none
  want : r.want = .nonce
  need : r.need = 12
  acc : r.acc = []

theorem idle_init : Idle Reader.init := ⟨rfl, rfl, rfl, rfl⟩

theorem feed_nil (key : Bytes) (r : Reader) : feed key r [] = r := rfl

theorem feed_cons (key : Bytes) (r : Reader) (b : UInt8) (xs : Bytes) :
    feed key r (b :: xs) = feed key (stepByte key r b) xs := rfl

theorem feed_append (key : Bytes) (r : Reader) (a b : Bytes) :
    feed key r (a ++ b) = feed key (feed key r a) b := by
  simp only [feed, List.foldl_append]

theorem feedChunks_eq (key : Bytes) (r : Reader) (cs : List Bytes) :
    feedChunks key r cs = feed key r cs.flatten := by
  induction cs generalizing r with
  | nil => rfl
  | cons c cs ih =>
    simp only [feedChunks, List.foldl_cons, List.flatten_cons, feed_append]
    exact ih (feed key r c)

/-- once the loop has been left nothing is read any more -/
theorem feed_ended (key : Bytes) (r : Reader) (xs : Bytes) (h : r.ended.isSome) : feed key r xs = r := by
  induction xs with
  | nil => rfl
  | cons b xs ih =>
    rw [feed_cons]
    have : stepByte key r b = r := by
      unfold stepByte
      cases hr : r.ended with
      | none => rw [hr] at h; cases h
      | some e => rfl
    rw [this, ih]

/-- a `recv_all` that gets fewer bytes than it misses keeps them and goes on waiting -/
theorem feed_short (key : Bytes) (r : Reader) (xs : Bytes) (he : r.ended = none) (hlt : xs.length < r.need) :
    feed key r xs = { r with need := r.need - xs.length, acc := xs.reverse ++ r.acc, consumed := r.consumed + xs.length } := by
  induction xs generalizing r with
  | nil => cases r; simp [feed]
  | cons b xs ih =>
    rw [feed_cons]
    simp only [List.length_cons] at hlt
    have hstep : stepByte key r b = { r with need := r.need - 1, acc := b :: r.acc, consumed := r.consumed + 1 } := by
      unfold stepByte
      rw [he]
      have : ¬ r.need ≤ 1 := by omega
      simp only [this, if_false]
    rw [hstep, ih { r with need := r.need - 1, acc := b :: r.acc, consumed := r.consumed + 1 } he (by simp only; omega)]
    cases r
    simp only [List.length_cons, List.reverse_cons, List.append_assoc, List.singleton_append, Reader.mk.injEq, true_and, and_true]
    omega

/-- the outcome of `complete` does not depend on the bookkeeping of the finished `recv_all` -/
theorem complete_congr (key : Bytes) (r : Reader) (n : Nat) (a buf : Bytes) :
    complete key { r with need := n, acc := a } buf = complete key r buf := by
  unfold complete
  cases hw : r.want with
  | nonce => simp only
  | length nonce =>
    simp only [hw, afterHeader, deliver]
  | body nonce => simp only [deliver]

/-- a `recv_all` that gets exactly the bytes it misses returns them -/
theorem feed_exact (key : Bytes) (r : Reader) (xs : Bytes) (he : r.ended = none) (hacc : r.acc = [])
    (hpos : 0 < r.need) (hlen : xs.length = r.need) :
    feed key r xs = complete key { r with consumed := r.consumed + xs.length } xs := by
  have hne : xs ≠ [] := by intro h; rw [h] at hlen; simp at hlen; omega
  obtain ⟨ys, b, rfl⟩ : ∃ ys b, xs = ys ++ [b] := ⟨xs.dropLast, xs.getLast hne, (List.dropLast_concat_getLast hne).symm⟩
  simp only [List.length_append, List.length_singleton] at hlen
  rw [feed_append, feed_short key r ys he (by omega), feed_cons, feed_nil]
  unfold stepByte
  simp only [he]
  have h1 : r.need - ys.length ≤ 1 := by omega
  simp only [h1, if_true, hacc, List.append_nil, List.reverse_cons, List.reverse_reverse, List.length_append,
    List.length_singleton]
  have := complete_congr key { r with consumed := r.consumed + ys.length + 1 } (r.need - ys.length) ys.reverse (ys ++ [b])
  simp only [he, hacc] at this
  simpa [Nat.add_assoc] using this

/-! ### stages of one loop iteration -/

theorem outcome_feed_short (key : Bytes) (r : Reader) (xs : Bytes) (he : r.ended = none) (hlt : xs.length < r.need) :
    (feed key r xs).outcome = { r.outcome with consumed := r.consumed + xs.length } := by
  rw [feed_short key r xs he hlt]; rfl

/-- from the top of the loop, 12 bytes are the nonce -/
theorem feed_nonce (key : Bytes) (r : Reader) (h : Idle r) (nonce : Bytes) (hn : nonce.length = 12) :
    feed key r nonce = { r with want := .length nonce, need := 4, acc := [], consumed := r.consumed + 12 } := by
  rw [feed_exact key r nonce h.ended h.acc (by rw [h.need]; omega) (by rw [h.need, hn])]
  unfold complete
  simp only [h.want, hn, kLengthFieldSize_eq]

/-- the next four bytes are the length; what follows is `afterHeader` -/
theorem feed_length (key : Bytes) (r : Reader) (nonce lb : Bytes) (he : r.ended = none)
    (hw : r.want = .length nonce) (hneed : r.need = 4) (hacc : r.acc = []) (hl : lb.length = 4) :
    feed key r lb = afterHeader key { r with consumed := r.consumed + 4 } nonce (readLength lb) := by
  rw [feed_exact key r lb he hacc (by omega) (by omega)]
  unfold complete
  simp only [hw, hl]

/-- the body bytes complete the frame -/
theorem feed_body (key : Bytes) (r : Reader) (nonce ct : Bytes) (he : r.ended = none)
    (hw : r.want = .body nonce) (hneed : r.need = ct.length) (hpos : 0 < ct.length) (hacc : r.acc = []) :
    feed key r ct = deliver key { r with consumed := r.consumed + ct.length } nonce ct := by
  rw [feed_exact key r ct he hacc (by omega) (by omega)]
  unfold complete
  simp only [hw]

theorem idle_deliver (key : Bytes) (r : Reader) (nonce ct : Bytes) (he : r.ended = none) : Idle (deliver key r nonce ct) :=
  ⟨he, rfl, rfl, rfl⟩

/-! ### the machine and `receive_loop` agree on every byte string -/

theorem feed_outcome (key : Bytes) (fuel : Nat) (s : Bytes) (r : Reader) (h : Idle r) (hf : s.length < fuel) :
    (feed key r s).outcome = receiveLoop key fuel s r.outcome := by
  induction fuel generalizing s r with
  | zero => omega
  | succ fuel ih =>
    unfold receiveLoop
    simp only [kNonceSize_eq, kLengthFieldSize_eq]
    by_cases h1 : s.length < 12
    · simp only [h1, if_true]
      exact outcome_feed_short key r s h.ended (by rw [h.need]; exact h1)
    · simp only [h1, if_false]
      obtain ⟨nonce, s1, rfl, hn⟩ : ∃ nonce s1, s = nonce ++ s1 ∧ nonce.length = 12 :=
        ⟨s.take 12, s.drop 12, (List.take_append_drop 12 s).symm, by rw [List.length_take]; omega⟩
      simp only [List.take_left' hn, List.drop_left' hn, List.length_append, hn] at hf ⊢
      rw [feed_append, feed_nonce key r h _ hn]
      by_cases h2 : s1.length < 4
      · simp only [h2, if_true]
        rw [outcome_feed_short key { r with want := .length nonce, need := 4, acc := [], consumed := r.consumed + 12 } s1 h.ended h2]
        simp only [Reader.outcome, Outcome.mk.injEq, true_and, and_true]
        omega
      · simp only [h2, if_false]
        obtain ⟨lb, s2, rfl, hl⟩ : ∃ lb s2, s1 = lb ++ s2 ∧ lb.length = 4 :=
          ⟨s1.take 4, s1.drop 4, (List.take_append_drop 4 s1).symm, by rw [List.length_take]; omega⟩
        simp only [List.take_left' hl, List.drop_left' hl, List.length_append, hl] at hf ⊢
        rw [feed_append, feed_length key { r with want := .length nonce, need := 4, acc := [], consumed := r.consumed + 12 } nonce lb h.ended rfl rfl rfl hl]
        unfold afterHeader
        by_cases h3 : C14.recvRefuses (readLength lb) = true
        · simp only [h3, if_true]
          rw [feed_ended key _ s2 (by rfl)]
          simp only [Reader.outcome, Outcome.mk.injEq, and_true, true_and]
          try omega
        · simp only [h3, if_false, Bool.false_eq_true]
          by_cases h4 : readLength lb = 0
          · simp only [h4, if_true]
            refine (ih s2 (deliver key { r with want := .length nonce, need := 4, acc := [], consumed := r.consumed + 12 + 4 } nonce [])
              ⟨h.ended, rfl, rfl, rfl⟩ (by omega)).trans ?_
            congr 1
          · simp only [h4, if_false]
            generalize readLength lb = len at h4
            by_cases h5 : s2.length < len
            · simp only [h5, if_true]
              rw [outcome_feed_short key { r with want := .body nonce, need := len, acc := [], consumed := r.consumed + 12 + 4, maxAlloc := max r.maxAlloc len } s2 h.ended h5]
              simp only [Reader.outcome, Outcome.mk.injEq, and_true, true_and]
              try omega
            · simp only [h5, if_false]
              obtain ⟨ct, s3, rfl, hb⟩ : ∃ ct s3, s2 = ct ++ s3 ∧ ct.length = len :=
                ⟨s2.take len, s2.drop len, (List.take_append_drop len s2).symm, by rw [List.length_take]; omega⟩
              simp only [List.take_left' hb, List.drop_left' hb, List.length_append] at hf ⊢
              rw [feed_append, feed_body key { r with want := .body nonce, need := len, acc := [], consumed := r.consumed + 12 + 4, maxAlloc := max r.maxAlloc len } nonce ct h.ended rfl hb.symm (by omega) rfl]
              refine (ih s3 (deliver key { r with want := .body nonce, need := len, acc := [], consumed := r.consumed + 12 + 4 + ct.length, maxAlloc := max r.maxAlloc len } nonce ct) ⟨h.ended, rfl, rfl, rfl⟩ (by omega)).trans ?_
              congr 1
              simp only [Reader.outcome, deliver, hb, Outcome.mk.injEq, and_true, true_and]

/-- **the reader thread, fed the stream in any pieces, is `receive_loop` over the whole stream** -/
theorem parse_eq (key : Bytes) (s : Bytes) : (feed key Reader.init s).outcome = parse key s :=
  feed_outcome key (s.length + 1) s Reader.init idle_init (Nat.lt_succ_self _)

end EphVerif.Frames
