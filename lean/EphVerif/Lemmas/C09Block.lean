/-
C09 helper lemmas, part 2: `chacha20_block` of the model (generated statement list, index tuples,
round count, state layout) equals the block function of RFC 8439 section 2.3.
-/
import EphVerif.Lemmas.C09Bits

namespace EphVerif.C09
open EphVerif EphVerif.ChaCha20 EphVerif.Spec.ChaCha

theorem quarter_round_eq (a b c d : UInt32) : quarter_round a b c d = quarterRound a b c d := by
  simp only [quarter_round, Gen.C09.qrProgram, List.foldl_cons, List.foldl_nil, qrStep, setReg, getReg]
  rw [rotl32_eq _ 16 (by omega) (by omega), rotl32_eq _ 12 (by omega) (by omega), rotl32_eq _ 8 (by omega) (by omega),
    rotl32_eq _ 7 (by omega) (by omega)]
  rfl

theorem qrOnState_eq (ws : List UInt32) (x y z w : Nat) : qrOnState ws (x, y, z, w) = qrAt ws x y z w := by
  simp only [qrOnState, qrAt, quarter_round_eq]

theorem doubleRound_eq (ws : List UInt32) : doubleRound ws = innerBlock ws := by
  simp only [doubleRound, Gen.C09.qrIndices, List.foldl_cons, List.foldl_nil, qrOnState_eq, innerBlock]

theorem roundLoop_eq (n : Nat) (ws : List UInt32) : roundLoop n ws = innerBlocks n ws := by
  induction n generalizing ws with
  | zero => rfl
  | succ n ih => simp only [roundLoop, innerBlocks, doubleRound_eq, ih]

/-- reading 4-byte little-endian chunks = reading `le32` at offsets 0, 4, 8, … -/
theorem leWords_eq_map (n : Nat) : ∀ (l : List UInt8), l.length = 4 * n →
    leWords l = (List.range n).map fun i =>
      le32 (l.getD (4 * i) 0) (l.getD (4 * i + 1) 0) (l.getD (4 * i + 2) 0) (l.getD (4 * i + 3) 0) := by
  induction n with
  | zero =>
    intro l h
    have : l = [] := List.eq_nil_of_length_eq_zero (by omega)
    subst this; simp [leWords]
  | succ n ih =>
    intro l h
    match l, h with
    | b0 :: b1 :: b2 :: b3 :: rest, h =>
      have hr : rest.length = 4 * n := by simp at h; omega
      rw [leWords, ih rest hr, List.range_succ_eq_map, List.map_cons, List.map_map]
      congr 1

theorem initState_eq (key nonce : List UInt8) (counter : UInt32) (hk : key.length = 32) (hn : nonce.length = 12) :
    ChaCha20.initState key nonce counter = Spec.ChaCha.initState key counter nonce := by
  have r8 : List.range 8 = [0, 1, 2, 3, 4, 5, 6, 7] := by decide
  have r3 : List.range 3 = [0, 1, 2] := by decide
  rw [Spec.ChaCha.initState, leWords_eq_map 8 key hk, leWords_eq_map 3 nonce hn, r8, r3]
  simp only [ChaCha20.initState, Gen.C09.stateInit, List.map_cons, List.map_nil, initWord, Gen.C09.sigma, load32_le_eq]
  rfl

theorem chacha20_block_eq (key nonce : List UInt8) (counter : UInt32) (hk : key.length = 32) (hn : nonce.length = 12) :
    chacha20_block key nonce counter = Spec.chacha20Block key counter nonce := by
  have hs : store32_le = leBytes := funext store32_le_eq
  simp only [chacha20_block, Spec.chacha20Block, blockState, serialize, addStates, initState_eq key nonce counter hk hn,
    roundLoop_eq, hs]
  rfl

theorem length_qrAt (s : State) (x y z w : Nat) : (qrAt s x y z w).length = s.length := by
  simp only [qrAt, List.length_set]

theorem length_innerBlock (s : State) : (innerBlock s).length = s.length := by
  simp only [innerBlock, length_qrAt]

theorem length_innerBlocks (n : Nat) (s : State) : (innerBlocks n s).length = s.length := by
  induction n generalizing s with
  | zero => rfl
  | succ n ih => simp only [innerBlocks, ih, length_innerBlock]

theorem length_serialize (s : State) : (serialize s).length = 4 * s.length := by
  induction s with
  | nil => rfl
  | cons w s ih =>
    simp only [serialize, List.flatMap_cons, List.length_append, List.length_cons] at *
    rw [ih]; simp only [leBytes, List.length_cons, List.length_nil]; omega

/-- the model's block is always 64 bytes (whatever the lengths of key and nonce) -/
theorem length_chacha20_block (key nonce : List UInt8) (counter : UInt32) : (chacha20_block key nonce counter).length = 64 := by
  have hs : store32_le = leBytes := funext store32_le_eq
  have h16 : (ChaCha20.initState key nonce counter).length = 16 := by
    simp [ChaCha20.initState, Gen.C09.stateInit]
  simp only [chacha20_block, hs, roundLoop_eq]
  have := length_serialize (List.zipWith (· + ·) (innerBlocks Gen.C09.doubleRounds (ChaCha20.initState key nonce counter))
    (ChaCha20.initState key nonce counter))
  simp only [serialize] at this
  rw [this, List.length_zipWith, length_innerBlocks, h16]
  rfl

theorem length_chacha20Block (key nonce : List UInt8) (counter : UInt32) (hk : key.length = 32) (hn : nonce.length = 12) :
    (Spec.chacha20Block key counter nonce).length = 64 := by
  rw [← chacha20_block_eq key nonce counter hk hn, length_chacha20_block]

end EphVerif.C09
