/-
System-level composition "handshake → signed message → encrypted transport frame": definitions
and bridging lemmas for `Proofs/SystemMessaging.lean`.

Nothing is re-proved here: the lemmas only put the imported results of C08 (HMAC/SHA model =
RFC 2104 / FIPS 180-4), C09 (ChaCha20 model = RFC 8439), C12 (one session key at both ends),
C13/C15/C16 (signed codec) and C14 (frames over a TCP stream) into a common shape.

C14 is imported at its lemma layer (`Lemmas/C14Spec.lean`), not as `Proofs/C14.lean`: that module also
carries C14's concurrency obligation (`sendHoldsSessionLock`), which is about a different clause and
is false on trees without `fixes/C14-session-send-lock.patch`; importing it would make every system
theorem (and the C13 check that builds them) fail for a reason unrelated to what is composed here.
`frames_stream` below is the statement of `C14.stream`, obtained from the same imported lemma
(`feed_frames`) by the same three lines.

The four system statements are written once, as predicates over the *functions* that play the
roles (hash, MAC, signed decoder, frame encoder), so that `Proofs/SystemMessaging.lean` can state
them for the specification functions and, word for word, for the implementation models.
-/
import EphVerif.Proofs.C08
import EphVerif.Proofs.C09
import EphVerif.Proofs.C12
import EphVerif.Proofs.C13
import EphVerif.Lemmas.C14Spec
import EphVerif.Proofs.C15
import EphVerif.Proofs.C16

namespace EphVerif.System
open EphVerif.Message EphVerif.MessageSpec

abbrev Bytes := List UInt8

/-- RFC 2104 HMAC-SHA256 (Spec/Hmac.lean) -/
abbrev hmac : Bytes → Bytes → Bytes := EphVerif.Spec.hmacSha256

/-- A message that C15 says comes back unchanged: version 1..4, tag = payload kind, fields in wire
    range, and an announce nonce only where the wire carries one (version ≥ 3, else 0). -/
def Faithful (m : Msg) : Prop :=
  WellFormed m ∧ ∀ a, m.payload = .announce a → 3 ≤ m.version ∨ a.nonce = 0

instance (m : Msg) : Decidable (Faithful m) := by
  unfold Faithful
  cases h : m.payload with
  | announce a =>
    have : Decidable (3 ≤ m.version ∨ a.nonce = 0) := inferInstance
    exact decidable_of_iff (WellFormed m ∧ (3 ≤ m.version ∨ a.nonce = 0))
      ⟨fun ⟨w, c⟩ => ⟨w, fun a' ha' => by cases ha'; exact c⟩, fun ⟨w, c⟩ => ⟨w, c a rfl⟩⟩
  | _ => exact decidable_of_iff (WellFormed m) ⟨fun w => ⟨w, fun _ ha => by cases ha⟩, fun ⟨w, _⟩ => w⟩

/-! ### the system statements, parametrised by the functions in each role -/

/-- (1) sign, then verify-and-decode under the same key, gives the message back -/
def SignedRoundtrip (mac : Bytes → Bytes → Bytes) (decS : Bytes → Bytes → Outcome Msg) : Prop :=
  ∀ (m : Msg) (key : Bytes), Faithful m → decS (encodeSigned mac m key) key = .ok m

/-- (2) two nodes that accept each other's handshake (any PoW settings, any nonces) hold keys under
    which what one signs the other accepts, as exactly the message that was encoded -/
def SessionAccepts (sha : Bytes → Bytes) (mac : Bytes → Bytes → Bytes) (decS : Bytes → Bytes → Outcome Msg) : Prop :=
  ∀ (A B : Kex.Identity) (bitsA bitsB nonceA nonceB : Nat) (kA kB : Bytes),
    A.scalar < 2 ^ 32 → B.scalar < 2 ^ 32 →
    Kex.performHandshake sha mac A bitsA B.peerId B.pub nonceB = some kA →
    Kex.performHandshake sha mac B bitsB A.peerId A.pub nonceA = some kB →
    kA.length = 32 ∧ kB = kA ∧ ∀ m, Faithful m → decS (encodeSigned mac m kA) kB = .ok m

/-- (2') acceptance under any other key exhibits that key as an HMAC-equivalent of the session key on
    this message: an explicit cross-key collision -/
def WrongSessionCollides (mac : Bytes → Bytes → Bytes) (decS : Bytes → Bytes → Outcome Msg) : Prop :=
  ∀ (m m' : Msg) (k k' : Bytes), decS (encodeSigned mac m k) k' = .ok m' →
    mac k' (encode m) = mac k (encode m) ∧ decode (encode m) = .ok m'

/-- (3) a list of (frame nonce, message) pairs, each signed encoding within the 1 MiB frame limit,
    sent as transport frames and received in arbitrary pieces: verifying-and-decoding what the
    reader thread delivers gives exactly the messages, in order; the session stays up -/
def TransportCarries (mac : Bytes → Bytes → Bytes) (decS : Bytes → Bytes → Outcome Msg)
    (frame : Bytes → Bytes → Bytes → Bytes) : Prop :=
  ∀ (tk sk : Bytes) (sends : List (Bytes × Msg)) (chunks : List Bytes),
    tk.length = 32 → (∀ s ∈ sends, s.1.length = 12) → (∀ s ∈ sends, Faithful s.2) →
    (∀ s ∈ sends, (encodeSigned mac s.2 sk).length ≤ 1048576) →
    chunks.flatten = sends.flatMap (fun s => frame tk s.1 (encodeSigned mac s.2 sk)) →
    let r := Frames.feedChunks tk Frames.Reader.init chunks
    r.delivered.map (decS · sk) = sends.map (fun s => .ok s.2) ∧ r.ended = none

/-- (3') what a change to the ciphertext of one frame can achieve.  `ct'` is any string of the length
    of the original ciphertext, different from it.  The transport notices nothing (the tampered
    plaintext `p'` is delivered, the session stays up: the cipher gives no integrity), and `p'` differs
    from the signed buffer.  The signed decoder then rejects `p'` unless `p'` is itself a correctly
    tagged buffer, i.e. unless the attacker has produced a *new* valid (body, tag) pair:
    with the body untouched that is impossible; with the tag untouched it is an HMAC collision. -/
def TamperVerdict (mac : Bytes → Bytes → Bytes) (decS : Bytes → Bytes → Outcome Msg)
    (frame : Bytes → Bytes → Bytes → Bytes) (decrypt : Bytes → Bytes → Bytes → Bytes) : Prop :=
  ∀ (tk sk nonce : Bytes) (m : Msg) (pre post : List (Bytes × Bytes)) (ct' : Bytes) (chunks : List Bytes),
    tk.length = 32 → nonce.length = 12 →
    (∀ f ∈ pre ++ post, f.1.length = 12 ∧ f.2.length ≤ 1048576) →
    (encodeSigned mac m sk).length ≤ 1048576 →
    let p := encodeSigned mac m sk
    let p' := decrypt tk nonce ct'
    ct'.length = p.length → frame tk nonce p ≠ nonce ++ Frames.lengthBytes p.length ++ ct' →
    chunks.flatten = (pre.flatMap fun f => frame tk f.1 f.2) ++ (nonce ++ Frames.lengthBytes p.length ++ ct')
        ++ (post.flatMap fun f => frame tk f.1 f.2) →
    let r := Frames.feedChunks tk Frames.Reader.init chunks
    -- no integrity from the cipher: delivered as if nothing had happened
    (r.delivered = pre.map (·.2) ++ [p'] ++ post.map (·.2) ∧ r.ended = none) ∧
    p' ≠ p ∧ p'.length = p.length ∧
    -- integrity from the MAC
    (decS p' sk = .reject ∨ ∃ m', decS p' sk = .ok m' ∧ C13.Tagged mac sk p') ∧
    (p'.take (p'.length - 32) = encode m → decS p' sk = .reject) ∧
    (p'.drop (p'.length - 32) = mac sk (encode m) → ∀ m', decS p' sk = .ok m' →
        p'.take (p'.length - 32) ≠ encode m ∧ mac sk (p'.take (p'.length - 32)) = mac sk (encode m))

theorem flatMap_congr_mem {α β : Type} {l : List α} {f g : α → List β} (h : ∀ a ∈ l, f a = g a) :
    l.flatMap f = l.flatMap g := by
  induction l with
  | nil => rfl
  | cons a l ih =>
    simp only [List.flatMap_cons]
    rw [h a (List.mem_cons_self ..), ih fun b hb => h b (List.mem_cons_of_mem _ hb)]

/-! ### bridging lemma: C14's stream clause (statement of `C14.stream`, from C14's `feed_frames`) -/

theorem frames_stream (key : Bytes) (frames : List (Bytes × Bytes)) (chunks : List Bytes)
    (hk : key.length = 32) (hn : ∀ f ∈ frames, f.1.length = 12) (hp : ∀ f ∈ frames, f.2.length ≤ 1048576)
    (hchunks : chunks.flatten = frames.flatMap fun f => Frames.encodeFrame key f.1 f.2) :
    let r := Frames.feedChunks key Frames.Reader.init chunks
    r.delivered = frames.map (·.2) ∧ r.ended = none ∧
      r.consumed = (frames.map fun f => 16 + f.2.length).sum ∧ r.want = .nonce ∧ r.acc = [] := by
  have := Frames.feed_frames key frames Frames.Reader.init Frames.idle_init hk hn hp
  simp only [Frames.feedChunks_eq, hchunks]
  obtain ⟨i, d, c, _⟩ := this
  exact ⟨by simpa [Frames.Reader.init] using d, i.ended, by simpa [Frames.Reader.init] using c, i.want, i.acc⟩

/-! ### bridging lemmas: signed codec -/

theorem encodeSigned_split (mac : Bytes → Bytes → Bytes) (hmac32 : C13.Mac32 mac) (m : Msg) (key : Bytes) :
    (encodeSigned mac m key).length - 32 = (encode m).length ∧
    (encodeSigned mac m key).take ((encodeSigned mac m key).length - 32) = encode m ∧
    (encodeSigned mac m key).drop ((encodeSigned mac m key).length - 32) = mac key (encode m) :=
  split_body_tag (encode m) (mac key (encode m)) (hmac32 _ _)

theorem signedRoundtrip_of_mac32 (mac : Bytes → Bytes → Bytes) (h : C13.Mac32 mac) : SignedRoundtrip mac (decodeSigned mac) := by
  intro m key ⟨hw, hn⟩
  rw [C13.sign_then_verify mac h]
  exact C15.roundtrip m hw hn

theorem wrongSession_of_mac32 (mac : Bytes → Bytes → Bytes) (h : C13.Mac32 mac) : WrongSessionCollides mac (decodeSigned mac) := by
  intro m m' k k' hacc
  have := C13.accepted_tag mac h (encode m) (mac k (encode m)) k' m' (h _ _) (by simpa [encodeSigned] using hacc)
  exact ⟨this.1.symm, this.2⟩

/-! ### bridging lemmas: implementation models = specifications (C08, C09) -/

theorem hmac_impl : EphVerif.Model.Hmac.compute = hmac := by
  funext key data; exact C08.hmac key data

theorem sha_impl : EphVerif.Model.Sha256.digest = EphVerif.Spec.sha256 := by
  funext m; exact C08.sha_digest m

/-- `decode_signed` with the verification step played by C08's model of `HmacSha256::verify` -/
def decodeSignedViaVerify (buf key : Bytes) : Outcome Msg :=
  if buf.length < 32 then .reject
  else if EphVerif.Model.Hmac.verify key (buf.take (buf.length - 32)) (buf.drop (buf.length - 32)) then
    decode (buf.take (buf.length - 32))
  else .reject

/-- the two transcriptions of `HmacSha256::verify` (C13's inside `decodeSigned`, C08's) agree -/
theorem hmacVerify_impl (key data tag : Bytes) :
    hmacVerify hmac key data tag = EphVerif.Model.Hmac.verify key data tag := by
  rw [Bool.eq_iff_iff, hmacVerify_iff hmac C13.hmac_length, C08.verify]
  constructor
  · intro h; exact ⟨by rw [h]; exact EphVerif.Spec.hmacSha256_length _ _, h⟩
  · intro h; exact h.2

theorem decodeSignedViaVerify_eq : decodeSignedViaVerify = decodeSigned hmac := by
  funext buf key
  rw [decodeSigned_eq, decodeSignedViaVerify, hmacVerify_impl]

/-- the frame `SessionManager::send` writes, with the cipher played by C09's model of `ChaCha20::apply` -/
def implFrame (key nonce payload : Bytes) : Bytes :=
  nonce ++ Frames.lengthBytes payload.length ++ EphVerif.ChaCha20.apply key nonce payload 0

/-- the reader thread's decryption, played by C09's model -/
def implDecrypt (key nonce ct : Bytes) : Bytes := EphVerif.ChaCha20.apply key nonce ct 0

theorem cipher_impl (key nonce x : Bytes) (hk : key.length = 32) (hn : nonce.length = 12) :
    EphVerif.ChaCha20.apply key nonce x 0 = Frames.cipher key nonce 0 x := by
  rw [C09.apply_spec key nonce 0 x hk hn]; rfl

theorem implFrame_eq (key nonce payload : Bytes) (hk : key.length = 32) (hn : nonce.length = 12) :
    implFrame key nonce payload = Frames.encodeFrame key nonce payload := by
  unfold implFrame Frames.encodeFrame
  rw [cipher_impl key nonce payload hk hn]; rfl

/-! ### bridging lemmas: ChaCha20 is malleable and injective (it is a keystream XOR) -/

theorem zipWith_xor_comm3 : ∀ (x d ks : Bytes),
    List.zipWith (· ^^^ ·) (List.zipWith (· ^^^ ·) x d) ks = List.zipWith (· ^^^ ·) (List.zipWith (· ^^^ ·) x ks) d
  | [], _, _ => by simp
  | _ :: _, [], _ => by simp
  | _ :: _, _ :: _, [] => by simp
  | a :: x, b :: d, k :: ks => by
    simp only [List.zipWith_cons_cons, List.cons.injEq]
    exact ⟨by rw [UInt8.xor_assoc, UInt8.xor_comm b k, ← UInt8.xor_assoc], zipWith_xor_comm3 x d ks⟩

/-- **Malleability.** XOR-ing a difference `d` into the ciphertext XORs the same difference into what
    the receiver decrypts, for every key, nonce, counter: an attacker who cannot read a frame can
    still flip chosen bits of its plaintext. -/
theorem chacha20_malleable (key nonce : Bytes) (counter : UInt32) (x d : Bytes) (hd : d.length = x.length) :
    EphVerif.Spec.chacha20 key nonce counter (List.zipWith (· ^^^ ·) x d)
      = List.zipWith (· ^^^ ·) (EphVerif.Spec.chacha20 key nonce counter x) d := by
  unfold EphVerif.Spec.chacha20
  rw [List.length_zipWith, hd, Nat.min_self, zipWith_xor_comm3]

theorem cipher_involution (key nonce x : Bytes) (hk : key.length = 32) (hn : nonce.length = 12) :
    Frames.cipher key nonce 0 (Frames.cipher key nonce 0 x) = x :=
  Frames.Cipher.chacha20_involution key nonce _ x hk hn

theorem cipher_length (key nonce x : Bytes) (hk : key.length = 32) (hn : nonce.length = 12) :
    (Frames.cipher key nonce 0 x).length = x.length :=
  Frames.Cipher.chacha20_length key nonce _ x hk hn

theorem cipher_injective (key nonce x y : Bytes) (hk : key.length = 32) (hn : nonce.length = 12)
    (h : Frames.cipher key nonce 0 x = Frames.cipher key nonce 0 y) : x = y := by
  rw [← cipher_involution key nonce x hk hn, h, cipher_involution key nonce y hk hn]

/-- a frame whose ciphertext was replaced by `ct'` of the announced length *is* the well-formed frame
    of the plaintext `ct'` decrypts to -/
theorem tampered_frame_is_frame (key nonce ct' : Bytes) (n : Nat) (hk : key.length = 32) (hn : nonce.length = 12)
    (hl : ct'.length = n) :
    nonce ++ Frames.lengthBytes n ++ ct' = Frames.encodeFrame key nonce (Frames.cipher key nonce 0 ct') := by
  unfold Frames.encodeFrame
  rw [cipher_length key nonce ct' hk hn, hl]
  show _ = _ ++ Frames.cipher key nonce 0 (Frames.cipher key nonce 0 ct')
  rw [cipher_involution key nonce ct' hk hn]

end EphVerif.System
