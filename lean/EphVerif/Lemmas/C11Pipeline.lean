/-
C11 helper lemmas: the wiring read from `Generated/C11.lean`, association-list facts, and the two
characterisations everything else is derived from — what `storeChunk` produces, and exactly when
`receiveChunk` / `decryptChunkWithManifest` accept.
-/
import EphVerif.Model.StorePipeline
import EphVerif.Proofs.C08
import EphVerif.Proofs.C09
import EphVerif.Proofs.C10

namespace EphVerif.C11L
open EphVerif EphVerif.StorePipeline EphVerif.Gen

/-! ### (T) the wiring of the source, as the roles extracted from it -/

@[simp] theorem pick_storeEncryptId (a : Bytes) : pick C11.storeEncryptIdRole [("id", a)] [] = a := rfl
@[simp] theorem pick_storeEncrypt (a : Bytes) : pick C11.storeEncryptRole [("payload", a)] [] = a := rfl
@[simp] theorem pick_storeHash (a b : Bytes) : pick C11.storeHashRole [("payload", a), ("sealed", b)] [] = a := rfl
@[simp] theorem pick_storePutData (a b : Bytes) : pick C11.storePutDataRole [("sealed", a), ("payload", b)] [] = a := rfl
@[simp] theorem pick_storePutNonce (a : Bytes) : pick C11.storePutNonceRole [("sealed", a)] [] = a := rfl
@[simp] theorem pick_storeSplit (a : Bytes) : pick C11.storeSplitRole [("key", a)] [] = a := rfl
@[simp] theorem pick_storeManifestNonce (a : Bytes) : pick C11.storeManifestNonceRole [("sealed", a)] [] = a := rfl
@[simp] theorem pick_fetchId (a : Bytes) : pick C11.fetchDecryptIdRole [("id", a)] [] = a := rfl
@[simp] theorem pick_fetchData (a : Bytes) : pick C11.fetchDataRole [("record", a)] [] = a := rfl
@[simp] theorem pick_fetchNonce (a : Bytes) : pick C11.fetchNonceRole [("record", a)] [] = a := rfl
@[simp] theorem pick_receiveHash (a b : Bytes) :
    pick C11.receiveHashRole [("decrypted", a), ("ciphertext", b)] [] = a := rfl
@[simp] theorem pick_receivePut (a b : Bytes) :
    pick C11.receivePutDataRole [("ciphertext", a), ("decrypted", b)] [] = a := rfl
@[simp] theorem pick_receiveReturn (a b : Bytes) :
    pick C11.receiveReturnRole [("decrypted", a), ("ciphertext", b)] [] = a := rfl
@[simp] theorem pick_cliHash (a b : Bytes) : pick C11.cliHashRole [("decrypted", a), ("ciphertext", b)] [] = a := rfl
@[simp] theorem pick_cliReturn (a b : Bytes) : pick C11.cliReturnRole [("decrypted", a), ("ciphertext", b)] [] = a := rfl
@[simp] theorem receive_id (m : Manifest) : manifestBytes m C11.receiveDecryptIdArg = m.chunkId := rfl
@[simp] theorem receive_nonce (m : Manifest) : manifestBytes m C11.receiveDecryptNonceArg = m.nonce := rfl
@[simp] theorem receive_threshold (m : Manifest) : manifestNat m C11.receiveCombineThresholdArg = m.threshold := rfl
@[simp] theorem cli_id (m : Manifest) : manifestBytes m C11.cliDecryptIdArg = m.chunkId := rfl
@[simp] theorem cli_nonce (m : Manifest) : manifestBytes m C11.cliDecryptNonceArg = m.nonce := rfl
@[simp] theorem cli_threshold (m : Manifest) : manifestNat m C11.cliCombineThresholdArg = m.threshold := rfl
@[simp] theorem receive_compare (d : Bytes) (m : Manifest) :
    comparePasses C11.receiveCompareRole d m = (d == m.chunkHash) := rfl
@[simp] theorem cli_compare (d : Bytes) (m : Manifest) :
    comparePasses C11.cliCompareRole d m = (d == m.chunkHash) := rfl

/-! ### bytes, association lists, shard counts -/

theorem ofNats_toNats (b : Bytes) : ofNats (toNats b) = b := by
  induction b with
  | nil => rfl
  | cons x xs ih =>
    simp only [ofNats, toNats, List.map_cons, List.cons.injEq] at ih ⊢
    exact ⟨UInt8.ofNat_toNat, ih⟩

theorem toNats_secret (key : Bytes) (hk : key.length = 32) : C10.Secret (toNats key) := by
  refine ⟨by simp [toNats, hk], ?_⟩
  intro b hb
  obtain ⟨x, _, rfl⟩ := List.mem_map.1 hb
  exact x.toNat_lt

theorem find_upsert {β : Type} (l : List (Bytes × β)) (k : Bytes) (v : β) : find (upsert l k v) k = some v := by
  simp [find, upsert]

theorem eff_bounds (cfg : Config) (h1 : cfg.shardThreshold < 2 ^ C11.kShardCountBits)
    (h2 : cfg.shardTotal < 2 ^ C11.kShardCountBits) :
    1 ≤ effThreshold cfg ∧ effThreshold cfg ≤ effTotal cfg ∧ effTotal cfg ≤ 255 := by
  have e1 : C11.kShardCountBits = 8 := rfl
  have e2 : C11.kStoreMinThreshold = 1 := rfl
  simp only [effThreshold, effTotal, e1, e2] at *
  omega

/-! ### store_chunk -/

/-- the TTL `store_chunk` works with: the default for a non-positive request, clamped into the window -/
def sanitizedTtl (cfg : Config) (ttl : Int) : Int :=
  clampChunkTtl (if ttl > 0 then ttl else cfg.defaultTtl) cfg.minTtl cfg.maxTtl

def sealedData (key id payload nonce rk : Bytes) : Bytes := (ChaCha20.encrypt_with_key key id payload nonce rk).data

def recordOf (cfg : Config) (id payload : Bytes) (ttl : Int) (key nonce rk : Bytes) : Record :=
  { data := sealedData key id payload nonce rk, nonce := nonce, encrypted := true, ttl := sanitizedTtl cfg ttl }

def manifestOf (cfg : Config) (wallNowNs : Int) (id payload : Bytes) (ttl : Int) (nonce : Bytes)
    (shares : List Shamir.Share) : Manifest :=
  { chunkId := id, chunkHash := Model.Sha256.digest payload, nonce := nonce, threshold := effThreshold cfg,
    totalShares := effTotal cfg, expiresNs := wallNowNs + sanitizedTtl cfg ttl * 1000000000, shards := shares }

def nodeAfterStore (cfg : Config) (st : NodeState) (wallNowNs : Int) (id payload : Bytes) (ttl : Int)
    (key nonce rk : Bytes) (shares : List Shamir.Share) : NodeState :=
  { chunks := upsert st.chunks id (recordOf cfg id payload ttl key nonce rk)
    manifests := upsert st.manifests id (manifestOf cfg wallNowNs id payload ttl nonce shares)
    shardTable := upsert st.shardTable id
      { shards := shares, threshold := effThreshold cfg, totalShares := effTotal cfg, ttl := sanitizedTtl cfg ttl }
    announced := upsert st.announced id (sanitizedTtl cfg ttl)
    seeds := id :: st.seeds.filter (· != id) }

theorem storeChunk_eq (cfg : Config) (st : NodeState) (wallNowNs : Int) (id payload : Bytes) (ttl : Int)
    (key nonce rk : Bytes) (rd : Nat → Nat) (shares : List Shamir.Share)
    (hs : Shamir.split rd (toNats key) (effThreshold cfg) (effTotal cfg) = .ok shares) :
    storeChunk cfg st wallNowNs id payload ttl key nonce rk rd =
      .value { node := nodeAfterStore cfg st wallNowNs id payload ttl key nonce rk shares
               manifest := manifestOf cfg wallNowNs id payload ttl nonce shares } := by
  unfold storeChunk
  simp only [pick_storeEncryptId, pick_storeEncrypt, pick_storeHash, pick_storePutData, pick_storePutNonce,
    pick_storeSplit, pick_storeManifestNonce, hs]
  rfl

/-- the shares `store_chunk` puts into the manifest: `n` of them, pairwise distinct indices -/
theorem split_facts (cfg : Config) (h1 : cfg.shardThreshold < 2 ^ C11.kShardCountBits)
    (h2 : cfg.shardTotal < 2 ^ C11.kShardCountBits) (key : Bytes) (rd : Nat → Nat) :
    ∃ shares, Shamir.split rd (toNats key) (effThreshold cfg) (effTotal cfg) = .ok shares ∧
      shares.length = effTotal cfg ∧ (shares.map (·.index)).Nodup := by
  obtain ⟨ht, htn, hn⟩ := eff_bounds cfg h1 h2
  obtain ⟨shares, hs, hlen, _, hnd, _⟩ := C10.split rd (toNats key) _ _ ht htn hn
  exact ⟨shares, hs, hlen, hnd⟩

/-- any selection of the manifest's shares whose first `t` members have distinct indices reconstructs the key -/
theorem combine_selection (cfg : Config) (h1 : cfg.shardThreshold < 2 ^ C11.kShardCountBits)
    (h2 : cfg.shardTotal < 2 ^ C11.kShardCountBits) (key : Bytes) (hk : key.length = 32) (rd : Nat → Nat)
    (shares : List Shamir.Share)
    (hs : Shamir.split rd (toNats key) (effThreshold cfg) (effTotal cfg) = .ok shares)
    (sel : List Shamir.Share) (hsub : ∀ s ∈ sel, s ∈ shares) (hlen : effThreshold cfg ≤ sel.length)
    (hnd : ((sel.take (effThreshold cfg)).map (·.index)).Nodup) :
    Shamir.combine sel (effThreshold cfg) = .ok (toNats key) := by
  obtain ⟨ht, htn, hn⟩ := eff_bounds cfg h1 h2
  exact C10.combine rd (toNats key) (toNats_secret key hk) _ _ ht htn hn shares hs sel hsub hlen hnd

/-- in particular the share list as stored (its first `t` entries) -/
theorem combine_stored (cfg : Config) (h1 : cfg.shardThreshold < 2 ^ C11.kShardCountBits)
    (h2 : cfg.shardTotal < 2 ^ C11.kShardCountBits) (key : Bytes) (hk : key.length = 32) (rd : Nat → Nat)
    (shares : List Shamir.Share)
    (hs : Shamir.split rd (toNats key) (effThreshold cfg) (effTotal cfg) = .ok shares) :
    Shamir.combine shares (effThreshold cfg) = .ok (toNats key) := by
  obtain ⟨ht, htn, hn⟩ := eff_bounds cfg h1 h2
  obtain ⟨shares', hs', hlen, hnd⟩ := split_facts cfg h1 h2 key rd
  rw [hs] at hs'
  cases hs'
  refine combine_selection cfg h1 h2 key hk rd shares hs shares (fun _ h => h) (by omega) ?_
  rw [List.map_take]
  exact hnd.sublist (List.take_sublist _ _)

/-- decrypting the sealed bytes under the reconstructed key -/
theorem decrypt_sealed (key id payload nonce rk rk' : Bytes) (hz : ChaCha20.allZero key = false) :
    ChaCha20.decrypt_with_key (ofNats (toNats key)) id (sealedData key id payload nonce rk) nonce rk' = some payload := by
  have h := C09.manager_roundtrip key id payload nonce rk rk' hz
  rw [ofNats_toNats]
  exact h

/-! ### fetch_chunk on a state that holds a record and a usable shard record -/

theorem fetchChunk_of (st : NodeState) (id rk : Bytes) (record : Record) (sr : ShardRecord) (keyN : List Nat)
    (hrec : find st.chunks id = some record) (henc : record.encrypted = true)
    (hsr : find st.shardTable id = some sr) (hthr : 0 < sr.threshold) (hlen : sr.threshold ≤ sr.shards.length)
    (hcomb : Shamir.combine sr.shards sr.threshold = .ok keyN) :
    fetchChunk st id rk = .value (ChaCha20.decrypt_with_key (ofNats keyN) id record.data record.nonce rk) := by
  unfold fetchChunk shardSource
  simp only [hrec, henc, hsr, if_true, hthr, hlen, ge_iff_le, gt_iff_lt, and_self, hcomb, pick_fetchId, pick_fetchData,
    pick_fetchNonce]

theorem onCombineFailure_not_accepted (role : String) : (onCombineFailure role).isAccepted = false := by
  unfold onCombineFailure
  split <;> rfl

/-! ### receive_chunk: exactly when it accepts -/

/-- the acceptance condition of `receive_chunk`, as a proposition about the decoded manifest and the replica -/
def Accepts (cfg : Config) (wallNowNs : Int) (m : Manifest) (ciphertext rk : Bytes) (ttl : Int) (plaintext : Bytes) : Prop :=
  0 < m.threshold ∧ m.threshold ≤ m.shards.length ∧
  manifestTtl m.expiresNs wallNowNs cfg.minTtl cfg.maxTtl = some ttl ∧
  ∃ keyN, Shamir.combine m.shards m.threshold = .ok keyN ∧
    ChaCha20.decrypt_with_key (ofNats keyN) m.chunkId ciphertext m.nonce rk = some plaintext ∧
    Model.Sha256.digest plaintext = m.chunkHash

theorem receive_accepts (cfg : Config) (st : NodeState) (wallNowNs : Int) (m : Manifest) (ct rk : Bytes) (ttl : Int)
    (pt : Bytes) (h : Accepts cfg wallNowNs m ct rk ttl pt) :
    receiveChunk cfg st wallNowNs (some m) ct rk = (acceptEffects st m ttl ct, .accepted pt) := by
  obtain ⟨h1, h2, h3, keyN, h4, h5, h6⟩ := h
  unfold receiveChunk
  simp only [h1, h2, h3, and_self, not_true_eq_false, if_false, receive_threshold, h4, receive_id,
    receive_nonce, h5, pick_receiveHash, receive_compare, h6, beq_self_eq_true, if_true, pick_receivePut, pick_receiveReturn]

theorem receive_cases (cfg : Config) (st : NodeState) (wallNowNs : Int) (decoded : Option Manifest) (ct rk : Bytes) :
    (∃ m ttl pt, decoded = some m ∧ Accepts cfg wallNowNs m ct rk ttl pt ∧
        receiveChunk cfg st wallNowNs decoded ct rk = (acceptEffects st m ttl ct, .accepted pt)) ∨
    ((receiveChunk cfg st wallNowNs decoded ct rk).1 = st ∧
      (receiveChunk cfg st wallNowNs decoded ct rk).2.isAccepted = false) := by
  cases decoded with
  | none => right; constructor <;> first | rfl | trivial | exact onCombineFailure_not_accepted _
  | some m =>
    by_cases hv : m.threshold > 0 ∧ m.shards.length ≥ m.threshold
    · cases httl : manifestTtl m.expiresNs wallNowNs cfg.minTtl cfg.maxTtl with
      | none =>
        right
        unfold receiveChunk
        simp only [hv, and_self, not_true_eq_false, if_false, httl]
        constructor <;> first | rfl | trivial | exact onCombineFailure_not_accepted _
      | some ttl =>
        cases hc : Shamir.combine m.shards m.threshold with
        | invalidArgument =>
          right
          unfold receiveChunk
          simp only [hv, and_self, not_true_eq_false, if_false, httl, receive_threshold, hc]
          constructor <;> first | rfl | trivial | exact onCombineFailure_not_accepted _
        | hang =>
          right
          unfold receiveChunk
          simp only [hv, and_self, not_true_eq_false, if_false, httl, receive_threshold, hc]
          constructor <;> first | rfl | trivial | exact onCombineFailure_not_accepted _
        | ok keyN =>
          cases hd : ChaCha20.decrypt_with_key (ofNats keyN) m.chunkId ct m.nonce rk with
          | none =>
            right
            unfold receiveChunk
            simp only [hv, and_self, not_true_eq_false, if_false, httl, receive_threshold, hc, receive_id, receive_nonce, hd]
            constructor <;> first | rfl | trivial | exact onCombineFailure_not_accepted _
          | some pt =>
            by_cases hh : Model.Sha256.digest pt = m.chunkHash
            · left
              have hacc : Accepts cfg wallNowNs m ct rk ttl pt := ⟨hv.1, hv.2, httl, keyN, hc, hd, hh⟩
              exact ⟨m, ttl, pt, rfl, hacc, receive_accepts cfg st wallNowNs m ct rk ttl pt hacc⟩
            · right
              have hb : (Model.Sha256.digest pt == m.chunkHash) = false := by
                simpa using hh
              unfold receiveChunk
              simp only [hv, and_self, not_true_eq_false, if_false, httl, receive_threshold, hc, receive_id,
                receive_nonce, hd, pick_receiveHash, receive_compare, hb, Bool.false_eq_true]
              constructor <;> first | rfl | trivial | exact onCombineFailure_not_accepted _
    · right
      unfold receiveChunk
      simp only [hv, not_false_eq_true, if_true]
      constructor <;> first | rfl | trivial | exact onCombineFailure_not_accepted _

/-! ### the CLI function: the same condition without the TTL test -/

def CliAccepts (m : Manifest) (data rk : Bytes) (plaintext : Bytes) : Prop :=
  0 < m.threshold ∧ m.threshold ≤ m.shards.length ∧
  ∃ keyN, Shamir.combine m.shards m.threshold = .ok keyN ∧
    ChaCha20.decrypt_with_key (ofNats keyN) m.chunkId data m.nonce rk = some plaintext ∧
    Model.Sha256.digest plaintext = m.chunkHash

theorem cli_accepts (m : Manifest) (data rk pt : Bytes) (h : CliAccepts m data rk pt) :
    decryptChunkWithManifest m data rk = .accepted pt := by
  obtain ⟨h1, h2, keyN, h4, h5, h6⟩ := h
  unfold decryptChunkWithManifest
  have hg : ¬ (m.threshold = 0 ∨ m.shards.length < m.threshold) := by omega
  simp only [hg, if_false, cli_threshold, h4, cli_id, cli_nonce, h5, pick_cliHash, cli_compare, h6, beq_self_eq_true,
    if_true, pick_cliReturn]

theorem cli_cases (m : Manifest) (data rk : Bytes) :
    (∃ pt, CliAccepts m data rk pt ∧ decryptChunkWithManifest m data rk = .accepted pt) ∨
    (decryptChunkWithManifest m data rk).isAccepted = false := by
  by_cases hg : m.threshold = 0 ∨ m.shards.length < m.threshold
  · right
    unfold decryptChunkWithManifest
    simp only [hg, if_true]
    rfl
  · cases hc : Shamir.combine m.shards m.threshold with
    | invalidArgument =>
      right
      unfold decryptChunkWithManifest
      simp only [hg, if_false, cli_threshold, hc]
      exact onCombineFailure_not_accepted _
    | hang =>
      right
      unfold decryptChunkWithManifest
      simp only [hg, if_false, cli_threshold, hc]
      rfl
    | ok keyN =>
      cases hd : ChaCha20.decrypt_with_key (ofNats keyN) m.chunkId data m.nonce rk with
      | none =>
        right
        unfold decryptChunkWithManifest
        simp only [hg, if_false, cli_threshold, hc, cli_id, cli_nonce, hd]
        rfl
      | some pt =>
        by_cases hh : Model.Sha256.digest pt = m.chunkHash
        · left
          have hacc : CliAccepts m data rk pt := ⟨by omega, by omega, keyN, hc, hd, hh⟩
          exact ⟨pt, hacc, cli_accepts m data rk pt hacc⟩
        · right
          have hb : (Model.Sha256.digest pt == m.chunkHash) = false := by
            simpa using hh
          unfold decryptChunkWithManifest
          simp only [hg, if_false, cli_threshold, hc, cli_id, cli_nonce, hd, pick_cliHash, cli_compare, hb,
            Bool.false_eq_true]
          rfl

/-! ### manifests that arrive without the chunk (ingest_manifest, admitted announces) and a held chunk -/

/-- (T) the repaired tree: both paths consult `manifest_keeps_held_chunk_readable` -/
theorem guard_ingest (st : NodeState) (m : Manifest) : guardPasses C11.ingestGuard st m = keepsHeldChunkReadable st m := rfl
theorem guard_announce (st : NodeState) (m : Manifest) : guardPasses C11.announceGuard st m = keepsHeldChunkReadable st m := rfl

theorem lookup_filter_ne {β : Type} (l : List (Bytes × β)) (k k' : Bytes) (h : k' ≠ k) :
    List.lookup k' (l.filter fun e => e.1 != k) = List.lookup k' l := by
  induction l with
  | nil => rfl
  | cons e rest ih =>
    obtain ⟨a, b⟩ := e
    by_cases ha : a = k
    · subst ha
      have h1 : ((a, b).1 != a) = false := by simp
      have h2 : (k' == a) = false := by simpa using h
      rw [List.filter_cons, if_neg (by simp [h1]), List.lookup_cons, h2, ih]
    · have h1 : ((a, b).1 != k) = true := by simpa using ha
      rw [List.filter_cons, if_pos h1, List.lookup_cons, List.lookup_cons, ih]

theorem find_upsert_ne {β : Type} (l : List (Bytes × β)) (k k' : Bytes) (v : β) (h : k' ≠ k) :
    find (upsert l k v) k' = find l k' := by
  unfold find upsert
  have h2 : (k' == k) = false := by simpa using h
  rw [List.lookup_cons, h2]
  exact lookup_filter_ne l k k' h

/-- the node holds `record` for `id` and `fetch_chunk` reads it with key `k` -/
def KeyedBy (st : NodeState) (id : Bytes) (record : Record) (k : List Nat) : Prop :=
  find st.chunks id = some record ∧ record.encrypted = true ∧
  ∃ shards threshold, shardSource st id = some (shards, threshold) ∧ Shamir.combine shards threshold = .ok k

theorem fetchChunk_keyed {st : NodeState} {id : Bytes} {record : Record} {k : List Nat} (h : KeyedBy st id record k)
    (rk : Bytes) :
    fetchChunk st id rk = .value (ChaCha20.decrypt_with_key (ofNats k) id record.data record.nonce rk) := by
  obtain ⟨h1, h2, shards, thr, h3, h4⟩ := h
  unfold fetchChunk
  simp only [h1, h2, if_true, h3, h4, pick_fetchId, pick_fetchData, pick_fetchNonce]

theorem shardSource_of_table (st : NodeState) (id : Bytes) (sr : ShardRecord) (h : find st.shardTable id = some sr)
    (h1 : 0 < sr.threshold) (h2 : sr.threshold ≤ sr.shards.length) :
    shardSource st id = some (sr.shards, sr.threshold) := by
  unfold shardSource
  simp only [h, gt_iff_lt, h1, ge_iff_le, h2, and_self, if_true]

theorem shardSource_congr (st st' : NodeState) (id : Bytes) (h1 : find st'.shardTable id = find st.shardTable id)
    (h2 : find st'.manifests id = find st.manifests id) : shardSource st' id = shardSource st id := by
  unfold shardSource
  rw [h1, h2]

/-- adopting a manifest that passed the guard does not change the key any held chunk is read with -/
theorem adopt_keeps_key (st : NodeState) (m : Manifest) (ttl : Int) (id : Bytes) (record : Record) (k : List Nat)
    (hv : m.threshold > 0 ∧ m.shards.length ≥ m.threshold) (hk : KeyedBy st id record k)
    (hg : keepsHeldChunkReadable st m = true) : KeyedBy (adoptManifest st m ttl) id record k := by
  obtain ⟨h1, h2, shards, thr, h3, h4⟩ := hk
  by_cases hid : id = m.chunkId
  · subst hid
    refine ⟨h1, h2, m.shards, m.threshold, ?_, ?_⟩
    · exact shardSource_of_table _ _ { shards := m.shards, threshold := m.threshold, totalShares := m.totalShares, ttl := ttl }
        (find_upsert _ _ _) hv.1 hv.2
    · unfold keepsHeldChunkReadable at hg
      simp only [h1, h2, Bool.not_true, Bool.false_eq_true, if_false, h3, h4, Bool.and_eq_true] at hg
      have hg2 := hg.2
      cases hc : Shamir.combine m.shards m.threshold with
      | ok k' =>
        rw [hc] at hg2
        simp only [beq_iff_eq] at hg2
        rw [hg2]
      | invalidArgument => rw [hc] at hg2; simp at hg2
      | hang => rw [hc] at hg2; simp at hg2
  · refine ⟨h1, h2, shards, thr, ?_, h4⟩
    rw [shardSource_congr st (adoptManifest st m ttl) id (find_upsert_ne _ _ _ _ hid) (find_upsert_ne _ _ _ _ hid)]
    exact h3

theorem ingest_keeps_key (cfg : Config) (st : NodeState) (now : Int) (d : Option Manifest) (id : Bytes) (record : Record)
    (k : List Nat) (hk : KeyedBy st id record k) : KeyedBy (ingestManifest cfg st now d).1 id record k := by
  unfold ingestManifest
  cases d with
  | none => exact hk
  | some m =>
    simp only
    split
    · exact hk
    · rename_i hv
      have hv' : m.threshold > 0 ∧ m.shards.length ≥ m.threshold := by
        by_contra hn; exact hv hn
      split
      · exact hk
      · rw [guard_ingest]
        split
        · rename_i hg
          exact adopt_keeps_key st m _ id record k hv' hk hg
        · exact hk

theorem announce_keeps_key (cfg : Config) (st : NodeState) (now : Int) (m : Manifest) (id : Bytes) (record : Record)
    (k : List Nat) (hk : KeyedBy st id record k) : KeyedBy (announceAdmitted cfg st now m) id record k := by
  unfold announceAdmitted
  split
  · exact hk
  · rename_i hv
    have hv' : m.threshold > 0 ∧ m.shards.length ≥ m.threshold := by
      by_contra hn; exact hv hn
    split
    · exact hk
    · rw [guard_announce]
      split
      · rename_i hg
        exact adopt_keeps_key st m _ id record k hv' hk hg
      · exact hk

/-- after `store_chunk` the chunk is held and read with the chunk key -/
theorem keyed_after_store (cfg : Config) (h1 : cfg.shardThreshold < 2 ^ C11.kShardCountBits)
    (h2 : cfg.shardTotal < 2 ^ C11.kShardCountBits) (st : NodeState) (wallNowNs : Int) (id payload : Bytes) (ttl : Int)
    (key nonce rk : Bytes) (hk : key.length = 32) (rd : Nat → Nat) (shares : List Shamir.Share)
    (hs : Shamir.split rd (toNats key) (effThreshold cfg) (effTotal cfg) = .ok shares) :
    KeyedBy (nodeAfterStore cfg st wallNowNs id payload ttl key nonce rk shares) id (recordOf cfg id payload ttl key nonce rk)
      (toNats key) := by
  obtain ⟨b1, b2, _⟩ := eff_bounds cfg h1 h2
  obtain ⟨shares', hs', hlen, _⟩ := split_facts cfg h1 h2 key rd
  rw [hs] at hs'; cases hs'
  refine ⟨find_upsert _ _ _, rfl, shares, effThreshold cfg, ?_, combine_stored cfg h1 h2 key hk rd shares hs⟩
  exact shardSource_of_table _ _
    { shards := shares, threshold := effThreshold cfg, totalShares := effTotal cfg, ttl := sanitizedTtl cfg ttl }
    (find_upsert _ _ _) (by show 0 < effThreshold cfg; omega) (by show effThreshold cfg ≤ shares.length; omega)

/-- after an accepted replica the chunk is held and read with the key the manifest's shares give -/
theorem keyed_after_accept (st : NodeState) (m : Manifest) (ttl : Int) (ct : Bytes) (keyN : List Nat)
    (h1 : 0 < m.threshold) (h2 : m.threshold ≤ m.shards.length) (hc : Shamir.combine m.shards m.threshold = .ok keyN) :
    KeyedBy (acceptEffects st m ttl ct) m.chunkId { data := ct, nonce := m.nonce, encrypted := true, ttl := ttl } keyN := by
  refine ⟨find_upsert _ _ _, rfl, m.shards, m.threshold, ?_, hc⟩
  exact shardSource_of_table _ _ { shards := m.shards, threshold := m.threshold, totalShares := m.totalShares, ttl := ttl }
    (find_upsert _ _ _) h1 h2

end EphVerif.C11L
