/-
Lemmas for C38_total: every function of the parser model ends in `ok` or `err`, never in an
out-of-range read (`oob`) and never with a loop still running (`outOfFuel`), and the cursor stays
inside the document and never moves back.  The loops' fuel argument: `inp.size - pos < fuel`
is invariant because every iteration advances the cursor by at least one byte.
-/
import EphVerif.Model.UpdateJson
namespace EphVerif.C38L
open EphVerif.UpdateJson

/-- `r` is `ok a` with `P a`, or an error message: never `oob`, never `outOfFuel` -/
def Safe {α : Type} (P : α → Prop) (r : Res α) : Prop :=
  match r with
  | .ok a => P a
  | .err _ => True
  | .oob => False
  | .outOfFuel => False

@[simp] theorem safe_ok {α : Type} {P : α → Prop} {a : α} : Safe P (Res.ok a) = P a := rfl
@[simp] theorem safe_pure {α : Type} {P : α → Prop} {a : α} : Safe P (pure a : Res α) = P a := rfl
@[simp] theorem safe_err {α : Type} {P : α → Prop} {m : String} : Safe P (Res.err m : Res α) = True := rfl

@[simp] theorem ok_bind {α β : Type} (a : α) (f : α → Res β) : (Res.ok a >>= f) = f a := rfl
@[simp] theorem pure_bind' {α β : Type} (a : α) (f : α → Res β) : ((pure a : Res α) >>= f) = f a := rfl

theorem Safe.bind {α β : Type} {P : α → Prop} {Q : β → Prop} {r : Res α} {f : α → Res β}
    (h : Safe P r) (hf : ∀ a, P a → Safe Q (f a)) : Safe Q (r >>= f) := by
  cases r with
  | ok a => exact hf a h
  | err m => trivial
  | oob => exact h.elim
  | outOfFuel => exact h.elim

theorem Safe.mono {α : Type} {P Q : α → Prop} {r : Res α} (h : Safe P r) (hpq : ∀ a, P a → Q a) : Safe Q r := by
  cases r with
  | ok a => exact hpq a h
  | err m => trivial
  | oob => exact h.elim
  | outOfFuel => exact h.elim

theorem rawAt_of_lt (inp : Input) (pos : Nat) (h : pos < inp.size) : ∃ b, rawAt inp pos = .ok b := by
  unfold rawAt
  simp [Array.getElem?_eq_getElem h]

theorem safe_rawAt (inp : Input) (pos : Nat) (h : pos < inp.size) : Safe (fun _ => True) (rawAt inp pos) := by
  obtain ⟨b, hb⟩ := rawAt_of_lt inp pos h
  rw [hb]; trivial

theorem eof_false {inp : Input} {pos : Nat} (h : eof inp pos = false) : pos < inp.size := by
  simp [eof] at h; exact h

theorem safe_peek (inp : Input) (pos : Nat) : Safe (fun _ => pos < inp.size) (peek inp pos) := by
  unfold peek
  split
  · trivial
  · next h =>
    have h' := eof_false (by simpa using h)
    obtain ⟨b, hb⟩ := rawAt_of_lt inp pos h'
    rw [hb]; exact h'

theorem safe_expect (inp : Input) (pos c : Nat) :
    Safe (fun p' => p' = pos + 1 ∧ pos < inp.size) (expect inp pos c) := by
  unfold expect
  split
  · trivial
  · next h =>
    have h' := eof_false (by simpa using h)
    obtain ⟨b, hb⟩ := rawAt_of_lt inp pos h'
    rw [hb]
    show Safe _ (if b = c then _ else _)
    split
    · exact ⟨rfl, h'⟩
    · trivial

theorem safe_matchCh (inp : Input) (pos c : Nat) :
    Safe (fun r => (r.1 = true → r.2 = pos + 1 ∧ pos < inp.size) ∧ (r.1 = false → r.2 = pos)) (matchCh inp pos c) := by
  unfold matchCh
  split
  · simp
  · next h =>
    have h' := eof_false (by simpa using h)
    obtain ⟨b, hb⟩ := rawAt_of_lt inp pos h'
    rw [hb]
    show Safe _ (if b = c then _ else _)
    split
    · simp [h']
    · simp


theorem safe_matchLiteral (inp : Input) (pos : Nat) (lit : Bytes) (hlit : 0 < lit.length) (hpos : pos ≤ inp.size) :
    Safe (fun r => pos ≤ r.2 ∧ r.2 ≤ inp.size ∧ (r.1 = true → pos < r.2)) (matchLiteral inp pos lit) := by
  unfold matchLiteral
  split
  · trivial
  · split
    · next h =>
      have hl := congrArg List.length h
      simp at hl
      simp
      omega
    · simp; omega

/-- progress measure of the loops: the fuel exceeds what is left of the document -/
theorem safe_skipWs (inp : Input) (fuel pos : Nat) (hpos : pos ≤ inp.size) (hf : inp.size - pos < fuel) :
    Safe (fun p' => pos ≤ p' ∧ p' ≤ inp.size) (skipWs inp fuel pos) := by
  induction fuel generalizing pos with
  | zero => omega
  | succ fuel ih =>
    unfold skipWs
    split
    · simp; omega
    · next h =>
      have h' := eof_false (by simpa using h)
      obtain ⟨b, hb⟩ := rawAt_of_lt inp pos h'
      rw [hb]
      show Safe _ (if isWs b = true then _ else _)
      split
      · exact (ih (pos + 1) (by omega) (by omega)).mono (fun a ha => by omega)
      · simp; omega

theorem safe_skipWs' (inp : Input) (pos : Nat) (hpos : pos ≤ inp.size) :
    Safe (fun p' => pos ≤ p' ∧ p' ≤ inp.size) (skipWs inp (fuelFor inp) pos) :=
  safe_skipWs inp _ pos hpos (by unfold fuelFor; omega)

theorem safe_hexStep (acc ch : Nat) : Safe (fun _ => True) (hexStep acc ch) := by
  unfold hexStep; split <;> trivial

theorem safe_parseHex4 (inp : Input) (pos : Nat) :
    Safe (fun r => r.2 = pos + 4 ∧ r.2 ≤ inp.size) (parseHex4 inp pos) := by
  unfold parseHex4
  split
  · trivial
  · next h =>
    obtain ⟨a, ha⟩ := rawAt_of_lt inp pos (by omega)
    obtain ⟨b, hb⟩ := rawAt_of_lt inp (pos + 1) (by omega)
    obtain ⟨c, hc⟩ := rawAt_of_lt inp (pos + 2) (by omega)
    obtain ⟨d, hd⟩ := rawAt_of_lt inp (pos + 3) (by omega)
    rw [ha, hb, hc, hd]
    simp only [ok_bind]
    refine Safe.bind (safe_hexStep _ _) fun v _ => ?_
    refine Safe.bind (safe_hexStep _ _) fun v _ => ?_
    refine Safe.bind (safe_hexStep _ _) fun v _ => ?_
    refine Safe.bind (safe_hexStep _ _) fun v _ => ?_
    simp; omega

theorem safe_parseUnicodeEscape (inp : Input) (pos : Nat) :
    Safe (fun r => pos < r.2 ∧ r.2 ≤ inp.size) (parseUnicodeEscape inp pos) := by
  unfold parseUnicodeEscape
  refine Safe.bind (safe_parseHex4 inp pos) fun r hr => ?_
  obtain ⟨cp, p1⟩ := r
  simp only at hr ⊢
  split
  · trivial
  split
  · split
    · trivial
    · next h =>
      obtain ⟨bs, hbs⟩ := rawAt_of_lt inp p1 (by omega)
      obtain ⟨bu, hbu⟩ := rawAt_of_lt inp (p1 + 1) (by omega)
      rw [hbs]
      show Safe _ (if bs ≠ 0x5C then _ else _)
      split
      · trivial
      rw [hbu]
      show Safe _ (if bu ≠ 0x75 then _ else _)
      split
      · trivial
      refine Safe.bind (safe_parseHex4 inp (p1 + 2)) fun r2 hr2 => ?_
      obtain ⟨lo, p2⟩ := r2
      simp only at hr2 ⊢
      split
      · trivial
      · simp; omega
  · simp; omega


theorem get_of_lt (inp : Input) (pos : Nat) (h : pos < inp.size) : ∃ b, UpdateJson.get inp pos = .ok (b, pos + 1) := by
  obtain ⟨b, hb⟩ := rawAt_of_lt inp pos h
  exact ⟨b, by unfold UpdateJson.get; rw [hb]; rfl⟩

theorem safe_strLoop (inp : Input) (fuel pos : Nat) (out : Bytes) (hpos : pos ≤ inp.size) (hf : inp.size - pos < fuel) :
    Safe (fun r => pos < r.2 ∧ r.2 ≤ inp.size) (strLoop inp fuel pos out) := by
  induction fuel generalizing pos out with
  | zero => omega
  | succ fuel ih =>
    unfold strLoop
    split
    · trivial
    next h =>
    have h' := eof_false (by simpa using h)
    obtain ⟨ch, hch⟩ := get_of_lt inp pos h'
    rw [hch]
    simp only
    split
    · simp; omega
    split
    · split
      · trivial
      next h2 =>
      have h2' := eof_false (by simpa using h2)
      obtain ⟨esc, hesc⟩ := get_of_lt inp (pos + 1) h2'
      rw [hesc]
      simp only
      have step : ∀ o, Safe (fun r => pos < r.2 ∧ r.2 ≤ inp.size) (strLoop inp fuel (pos + 1 + 1) o) :=
        fun o => (ih (pos + 1 + 1) o (by omega) (by omega)).mono (fun a ha => by omega)
      repeat' split
      all_goals first | exact step _ | trivial | skip
      · next hu =>
        have := safe_parseUnicodeEscape inp (pos + 1 + 1)
        rw [hu] at this
        simp only [safe_ok] at this
        exact (ih _ _ (by omega) (by omega)).mono (fun a ha => by omega)
      · next hu => have := safe_parseUnicodeEscape inp (pos + 1 + 1); rw [hu] at this; exact this.elim
      · next hu => have := safe_parseUnicodeEscape inp (pos + 1 + 1); rw [hu] at this; exact this.elim
    · exact (ih (pos + 1) _ (by omega) (by omega)).mono (fun a ha => by omega)

theorem safe_parseString (inp : Input) (pos : Nat) :
    Safe (fun r => pos < r.2 ∧ r.2 ≤ inp.size) (parseString inp pos) := by
  unfold parseString
  refine Safe.bind (safe_expect inp pos 0x22) fun p1 hp1 => ?_
  exact (safe_strLoop inp _ p1 [] (by omega) (by unfold fuelFor; omega)).mono (fun a ha => by omega)


/-- what every value parser guarantees: the cursor stays inside the document and never moves back -/
abbrev Adv (inp : Input) (pos : Nat) : JV × Nat → Prop := fun r => pos ≤ r.2 ∧ r.2 ≤ inp.size

theorem safe_parseBoolean (inp : Input) (pos : Nat) (hpos : pos ≤ inp.size) :
    Safe (Adv inp pos) (parseBoolean inp pos) := by
  unfold parseBoolean
  refine Safe.bind (safe_matchLiteral inp pos _ (by decide) hpos) fun r hr => ?_
  obtain ⟨t, p⟩ := r
  simp only at hr ⊢
  split
  · next ht => simp [Adv]; exact ⟨hr.1, hr.2.1⟩
  · refine Safe.bind (safe_matchLiteral inp pos _ (by decide) hpos) fun r2 hr2 => ?_
    obtain ⟨f, p2⟩ := r2
    simp only at hr2 ⊢
    split
    · next hf => simp [Adv]; exact ⟨hr2.1, hr2.2.1⟩
    · trivial

theorem safe_parseNull (inp : Input) (pos : Nat) (hpos : pos ≤ inp.size) :
    Safe (Adv inp pos) (parseNull inp pos) := by
  unfold parseNull
  refine Safe.bind (safe_matchLiteral inp pos _ (by decide) hpos) fun r hr => ?_
  obtain ⟨t, p⟩ := r
  simp only at hr ⊢
  split
  · next ht => simp [Adv]; exact ⟨hr.1, hr.2.1⟩
  · trivial

theorem safe_digitsLoop (inp : Input) (fuel pos : Nat) (hpos : pos ≤ inp.size) (hf : inp.size - pos < fuel) :
    Safe (fun p' => pos ≤ p' ∧ p' ≤ inp.size) (digitsLoop inp fuel pos) := by
  induction fuel generalizing pos with
  | zero => omega
  | succ fuel ih =>
    unfold digitsLoop
    split
    · simp; omega
    · next h =>
      have h' := eof_false (by simpa using h)
      obtain ⟨b, hb⟩ := rawAt_of_lt inp pos h'
      have hp : peek inp pos = .ok b := by unfold peek; simp [h, hb]
      rw [hp]
      show Safe _ (if isDigit b = true then _ else _)
      split
      · exact (ih (pos + 1) (by omega) (by omega)).mono (fun a ha => by omega)
      · simp; omega

theorem safe_digitsLoop' (inp : Input) (pos : Nat) (hpos : pos ≤ inp.size) :
    Safe (fun p' => pos ≤ p' ∧ p' ≤ inp.size) (digitsLoop inp (fuelFor inp) pos) :=
  safe_digitsLoop inp _ pos hpos (by unfold fuelFor; omega)


abbrev Fwd (inp : Input) (pos : Nat) : Nat → Prop := fun p' => pos ≤ p' ∧ p' ≤ inp.size

theorem matchCh_fwd {inp : Input} {pos : Nat} {r : Bool × Nat}
    (h : (r.1 = true → r.2 = pos + 1 ∧ pos < inp.size) ∧ (r.1 = false → r.2 = pos)) (hpos : pos ≤ inp.size) :
    pos ≤ r.2 ∧ r.2 ≤ inp.size := by
  obtain ⟨b, p⟩ := r
  cases b <;> simp at h <;> simp <;> omega

theorem safe_numInt (inp : Input) (pos : Nat) (hpos : pos ≤ inp.size) : Safe (Fwd inp pos) (numInt inp pos) := by
  unfold numInt
  refine Safe.bind (safe_matchCh inp pos 0x30) fun r h => ?_
  have hp := matchCh_fwd h hpos
  obtain ⟨z, p⟩ := r
  simp only at hp ⊢
  split
  · exact hp
  · refine Safe.bind (safe_peek inp p) fun ch _ => ?_
    split
    · exact (safe_digitsLoop' inp p hp.2).mono (fun a ha => by simp [Fwd]; omega)
    · trivial

theorem safe_numFrac (inp : Input) (pos : Nat) (hpos : pos ≤ inp.size) : Safe (Fwd inp pos) (numFrac inp pos) := by
  unfold numFrac
  refine Safe.bind (safe_matchCh inp pos 0x2E) fun r h => ?_
  have hp := matchCh_fwd h hpos
  obtain ⟨z, p⟩ := r
  simp only at hp ⊢
  split
  · split
    · trivial
    · refine Safe.bind (safe_peek inp p) fun ch _ => ?_
      split
      · exact (safe_digitsLoop' inp p hp.2).mono (fun a ha => by simp [Fwd]; omega)
      · trivial
  · exact hp

theorem safe_numExpSign (inp : Input) (pos : Nat) (hpos : pos ≤ inp.size) : Safe (Fwd inp pos) (numExpSign inp pos) := by
  unfold numExpSign
  split
  · simp [Fwd]; omega
  · refine Safe.bind (safe_peek inp pos) fun s hs => ?_
    split
    · simp [Fwd]; omega
    · simp [Fwd]; omega

theorem safe_numExp (inp : Input) (pos : Nat) (hpos : pos ≤ inp.size) : Safe (Fwd inp pos) (numExp inp pos) := by
  unfold numExp
  split
  · simp [Fwd]; omega
  · refine Safe.bind (safe_peek inp pos) fun ch hch => ?_
    split
    · refine Safe.bind (safe_numExpSign inp (pos + 1) (by omega)) fun p hp => ?_
      simp only [Fwd] at hp
      split
      · trivial
      · refine Safe.bind (safe_peek inp p) fun c2 _ => ?_
        split
        · exact (safe_digitsLoop' inp p hp.2).mono (fun a ha => by simp [Fwd]; omega)
        · trivial
    · simp [Fwd]; omega

theorem safe_parseNumber (inp : Input) (pos : Nat) (hpos : pos ≤ inp.size) :
    Safe (Adv inp pos) (parseNumber inp pos) := by
  unfold parseNumber
  refine Safe.bind (safe_matchCh inp pos 0x2D) fun r1 h1 => ?_
  have hp1 := matchCh_fwd h1 hpos
  obtain ⟨m, p1⟩ := r1
  simp only at hp1 ⊢
  refine Safe.bind (safe_numInt inp p1 hp1.2) fun p2 hp2 => ?_
  refine Safe.bind (safe_numFrac inp p2 hp2.2) fun p3 hp3 => ?_
  refine Safe.bind (safe_numExp inp p3 hp3.2) fun p4 hp4 => ?_
  simp only [Fwd] at hp2 hp3 hp4
  simp [Adv]; omega


theorem safe_arrLoop (inp : Input) (pv : Nat → Res (JV × Nat))
    (hpv : ∀ p, p ≤ inp.size → Safe (Adv inp p) (pv p))
    (fuel pos : Nat) (acc : List JV) (hpos : pos ≤ inp.size) (hf : inp.size - pos < fuel) :
    Safe (Adv inp pos) (arrLoop inp pv fuel pos acc) := by
  induction fuel generalizing pos acc with
  | zero => omega
  | succ fuel ih =>
    unfold arrLoop
    refine Safe.bind (safe_skipWs' inp pos hpos) fun p1 hp1 => ?_
    refine Safe.bind (hpv p1 hp1.2) fun r hr => ?_
    obtain ⟨child, p2⟩ := r
    simp only [Adv] at hr ⊢
    refine Safe.bind (safe_skipWs' inp p2 hr.2) fun p3 hp3 => ?_
    refine Safe.bind (safe_matchCh inp p3 0x5D) fun r4 h4 => ?_
    have hp4 := matchCh_fwd h4 hp3.2
    obtain ⟨close, p4⟩ := r4
    simp only at hp4 ⊢
    split
    · simp; omega
    · refine Safe.bind (safe_expect inp p4 0x2C) fun p5 hp5 => ?_
      refine Safe.bind (safe_skipWs' inp p5 (by omega)) fun p6 hp6 => ?_
      exact (ih p6 _ hp6.2 (by omega)).mono (fun a ha => by omega)

theorem safe_parseArray (inp : Input) (pv : Nat → Res (JV × Nat))
    (hpv : ∀ p, p ≤ inp.size → Safe (Adv inp p) (pv p)) (pos : Nat) :
    Safe (Adv inp pos) (parseArray inp pv pos) := by
  unfold parseArray
  refine Safe.bind (safe_expect inp pos 0x5B) fun p1 hp1 => ?_
  refine Safe.bind (safe_skipWs' inp p1 (by omega)) fun p2 hp2 => ?_
  refine Safe.bind (safe_matchCh inp p2 0x5D) fun r3 h3 => ?_
  have hp3 := matchCh_fwd h3 hp2.2
  obtain ⟨close, p3⟩ := r3
  simp only at hp3 ⊢
  split
  · simp [Adv]; omega
  · exact (safe_arrLoop inp pv hpv _ p3 [] hp3.2 (by unfold fuelFor; omega)).mono (fun a ha => by simp only [Adv] at ha ⊢; omega)

theorem safe_objLoop (inp : Input) (pv : Nat → Res (JV × Nat))
    (hpv : ∀ p, p ≤ inp.size → Safe (Adv inp p) (pv p))
    (fuel pos : Nat) (acc : List (Nat × Bytes × JV)) (hpos : pos ≤ inp.size) (hf : inp.size - pos < fuel) :
    Safe (Adv inp pos) (objLoop inp pv fuel pos acc) := by
  induction fuel generalizing pos acc with
  | zero => omega
  | succ fuel ih =>
    unfold objLoop
    refine Safe.bind (safe_skipWs' inp pos hpos) fun p1 hp1 => ?_
    refine Safe.bind (safe_peek inp p1) fun ch hch => ?_
    split
    · trivial
    refine Safe.bind (safe_parseString inp p1) fun rk hk => ?_
    obtain ⟨key, pk⟩ := rk
    simp only at hk ⊢
    refine Safe.bind (safe_skipWs' inp pk hk.2) fun p2 hp2 => ?_
    refine Safe.bind (safe_expect inp p2 0x3A) fun p3 hp3 => ?_
    refine Safe.bind (safe_skipWs' inp p3 (by omega)) fun p4 hp4 => ?_
    refine Safe.bind (hpv p4 hp4.2) fun r hr => ?_
    obtain ⟨child, p5⟩ := r
    simp only [Adv] at hr ⊢
    refine Safe.bind (safe_skipWs' inp p5 hr.2) fun p6 hp6 => ?_
    refine Safe.bind (safe_matchCh inp p6 0x7D) fun r7 h7 => ?_
    have hp7 := matchCh_fwd h7 hp6.2
    obtain ⟨close, p7⟩ := r7
    simp only at hp7 ⊢
    split
    · simp; omega
    · refine Safe.bind (safe_expect inp p7 0x2C) fun p8 hp8 => ?_
      refine Safe.bind (safe_skipWs' inp p8 (by omega)) fun p9 hp9 => ?_
      exact (ih p9 _ hp9.2 (by omega)).mono (fun a ha => by omega)

theorem safe_parseObject (inp : Input) (pv : Nat → Res (JV × Nat))
    (hpv : ∀ p, p ≤ inp.size → Safe (Adv inp p) (pv p)) (pos : Nat) :
    Safe (Adv inp pos) (parseObject inp pv pos) := by
  unfold parseObject
  refine Safe.bind (safe_expect inp pos 0x7B) fun p1 hp1 => ?_
  refine Safe.bind (safe_skipWs' inp p1 (by omega)) fun p2 hp2 => ?_
  refine Safe.bind (safe_matchCh inp p2 0x7D) fun r3 h3 => ?_
  have hp3 := matchCh_fwd h3 hp2.2
  obtain ⟨close, p3⟩ := r3
  simp only at hp3 ⊢
  split
  · simp [Adv]; omega
  · exact (safe_objLoop inp pv hpv _ p3 [] hp3.2 (by unfold fuelFor; omega)).mono (fun a ha => by simp only [Adv] at ha ⊢; omega)

theorem safe_parseValue_step (inp : Input) (d pos : Nat) (hpos : pos ≤ inp.size)
    (ih : ∀ d', d = d' + 1 → ∀ p, p ≤ inp.size → Safe (Adv inp p) (parseValue inp d' p)) :
    Safe (Adv inp pos) (parseValue inp d pos) := by
  unfold parseValue
  split
  · trivial
  have hpk := safe_peek inp pos
  split
  · next ch hch =>
    split
    · have := safe_parseString inp pos
      split
      · next hs => rw [hs] at this; simp [Adv] at this ⊢; omega
      · trivial
      · next hs => rw [hs] at this; exact this.elim
      · next hs => rw [hs] at this; exact this.elim
    split
    · split
      · trivial
      · rename_i d'
        split
        · exact safe_parseObject inp _ (fun p hp => ih d' rfl p hp) pos
        · exact safe_parseArray inp _ (fun p hp => ih d' rfl p hp) pos
    split
    · exact safe_parseBoolean inp pos hpos
    split
    · exact safe_parseNull inp pos hpos
    split
    · exact safe_parseNumber inp pos hpos
    · trivial
  · trivial
  · next h => rw [h] at hpk; exact hpk.elim
  · next h => rw [h] at hpk; exact hpk.elim

theorem safe_parseValue (inp : Input) (d pos : Nat) (hpos : pos ≤ inp.size) :
    Safe (Adv inp pos) (parseValue inp d pos) := by
  induction d generalizing pos with
  | zero => exact safe_parseValue_step inp 0 pos hpos (fun d' h => by omega)
  | succ d ih =>
    exact safe_parseValue_step inp (d + 1) pos hpos (fun d' h p hp => by
      have : d = d' := by omega
      subst this; exact ih p hp)

theorem safe_parseDocument (inp : Input) : Safe (fun _ => True) (parseDocument inp) := by
  unfold parseDocument
  refine Safe.bind (safe_skipWs' inp 0 (by omega)) fun p1 hp1 => ?_
  refine Safe.bind (safe_parseValue inp _ p1 hp1.2) fun r hr => ?_
  obtain ⟨v, p2⟩ := r
  simp only [Adv] at hr ⊢
  refine Safe.bind (safe_skipWs' inp p2 hr.2) fun p3 hp3 => ?_
  split <;> trivial

theorem safe_expectStringField (o : JV) (k : String) : Safe (fun _ => True) (expectStringField o k) := by
  unfold expectStringField; split <;> trivial

theorem safe_downloadsLoop (ms : List (Nat × Bytes × JV)) (acc : List Download) :
    Safe (fun _ => True) (downloadsLoop ms acc) := by
  induction ms generalizing acc with
  | nil => trivial
  | cons m rest ih =>
    obtain ⟨off, platform, value⟩ := m
    unfold downloadsLoop
    split
    · refine Safe.bind (safe_expectStringField _ _) fun url _ => ?_
      exact ih _
    · exact ih _

theorem safe_extractMetadata (root : JV) : Safe (fun _ => True) (extractMetadata root) := by
  unfold extractMetadata
  split
  · refine Safe.bind (safe_expectStringField _ _) fun _ _ => ?_
    refine Safe.bind (safe_expectStringField _ _) fun _ _ => ?_
    refine Safe.bind (safe_expectStringField _ _) fun _ _ => ?_
    refine Safe.bind (safe_expectStringField _ _) fun _ _ => ?_
    refine Safe.bind (safe_expectStringField _ _) fun _ _ => ?_
    split
    · refine Safe.bind (safe_downloadsLoop _ _) fun _ _ => ?_
      split <;> trivial
    · trivial
  · trivial

theorem safe_parseUpdateMetadata (inp : Input) : Safe (fun _ => True) (parseUpdateMetadata inp) := by
  unfold parseUpdateMetadata
  exact Safe.bind (safe_parseDocument inp) fun root _ => safe_extractMetadata root

end EphVerif.C38L
