/-
Helper lemmas for C12 over histories of inbound handshakes: the invariant "the key table holds, for
every peer id, the key derived from the public value of the last accepted handshake claiming that id,
and a success record names that same public value".  Core Lean only.
-/
import EphVerif.Model.KeyExchange

namespace EphVerif.C12L
open EphVerif.Kex

theorem get_put_same {β : Type} (l : List (List UInt8 × β)) (p : List UInt8) (v : β) : get (put l p v) p = some v := by
  simp [Kex.get, Kex.put]

theorem get_put_other {β : Type} (l : List (List UInt8 × β)) (p q : List UInt8) (v : β) (h : p ≠ q) :
    get (put l p v) q = get l q := by
  simp [Kex.get, Kex.put, h]

section
variable (sha : List UInt8 → List UInt8) (hmac : List UInt8 → List UInt8 → List UInt8)

/-- the key this node derives from a remote public value -/
def keyOf (self : Identity) (pub : Nat) : List UInt8 := sessionKey sha hmac self.scalar self.pub pub

/-- `acc p` = public value of the last accepted handshake claiming `p` so far -/
def HistInv (s : NodeState) (acc : List UInt8 → Option Nat) : Prop :=
  ∀ p, get s.keys p = (acc p).map (keyOf sha hmac s.self) ∧
       ∀ r, get s.records p = some r → r.success = true → acc p = some r.remotePublic

theorem histInv_fresh (self : Identity) (bits : Nat) (cooldown : Int) :
    HistInv sha hmac (NodeState.fresh self bits cooldown) (fun _ => none) := by
  intro p; simp [NodeState.fresh, Kex.get]

theorem repeat_gives (s : NodeState) (now : Int) (peer : List UInt8) (pub nonce : Nat)
    (h : repeatOfValidated s now peer pub nonce = true) :
    ∃ r, get s.records peer = some r ∧ r.success = true ∧ r.remotePublic = pub := by
  unfold repeatOfValidated at h
  split at h
  · next r hr =>
    simp only [Bool.and_eq_true, beq_iff_eq] at h
    exact ⟨r, hr, h.1.1.1, h.1.2⟩
  · cases h

/-- one call preserves the invariant, with the ghost map updated exactly when the call is accepted -/
theorem step_histInv (s : NodeState) (acc : List UInt8 → Option Nat) (hi : HistInv sha hmac s acc) (c : Call) :
    let r := performHandshakeSt sha hmac s c.now c.peer c.pub c.nonce
    r.1.self = s.self ∧
    HistInv sha hmac r.1 (fun p => if r.2 && decide (c.peer = p) then some c.pub else acc p) := by
  unfold performHandshakeSt
  by_cases hrep : repeatOfValidated s c.now c.peer c.pub c.nonce = true
  · simp only [hrep, if_true]
    refine ⟨by first | rfl | trivial, fun p => ?_⟩
    obtain ⟨r, hr, hs, hp⟩ := repeat_gives s c.now c.peer c.pub c.nonce hrep
    have hacc : acc c.peer = some c.pub := by rw [← hp]; exact (hi c.peer).2 r hr hs
    by_cases hpp : c.peer = p
    · subst hpp
      simp only [Bool.true_and, decide_true, if_true]
      rw [← hacc]; exact hi c.peer
    · simp only [Bool.true_and, hpp, decide_false, Bool.false_eq_true, if_false]
      exact hi p
  · simp only [hrep, Bool.false_eq_true, if_false]
    by_cases hv : validatePublic c.pub = true
    · by_cases hw : Pow.nodeVerifyHandshake sha s.bits ⟨c.peer, s.self.peerId, c.pub⟩ c.nonce = true
      · simp only [hv, hw, Bool.not_true, Bool.false_eq_true, if_false]
        refine ⟨by first | rfl | trivial, fun p => ?_⟩
        by_cases hpp : c.peer = p
        · subst hpp
          simp only [Bool.true_and, decide_true, if_true, get_put_same, Option.map_some]
          refine ⟨rfl, fun r hr _ => ?_⟩
          cases hr; rfl
        · simp only [Bool.true_and, hpp, decide_false, Bool.false_eq_true, if_false, get_put_other _ _ _ _ hpp]
          exact hi p
      · simp only [hv, hw, Bool.not_true, Bool.not_false, Bool.false_eq_true, if_false, if_true]
        refine ⟨by first | rfl | trivial, fun p => ?_⟩
        simp only [Bool.false_and, Bool.false_eq_true, if_false]
        by_cases hpp : c.peer = p
        · subst hpp
          refine ⟨(hi c.peer).1, fun r hr hs => ?_⟩
          rw [get_put_same] at hr; cases hr; cases hs
        · rw [get_put_other _ _ _ _ hpp]; exact hi p
    · simp only [hv, Bool.not_false, if_true]
      refine ⟨by first | rfl | trivial, fun p => ?_⟩
      simp only [Bool.false_and, Bool.false_eq_true, if_false]
      by_cases hpp : c.peer = p
      · subst hpp
        refine ⟨(hi c.peer).1, fun r hr hs => ?_⟩
        rw [get_put_same] at hr; cases hr; cases hs
      · rw [get_put_other _ _ _ _ hpp]; exact hi p

/-- after any history the key table is the image of "last accepted public value" -/
theorem runCalls_keys (cs : List Call) : ∀ (s : NodeState) (acc : List UInt8 → Option Nat), HistInv sha hmac s acc →
    ∀ p, get (runCalls sha hmac s cs).1.keys p =
      (lastAccepted (acc p) p (runCalls sha hmac s cs).2).map (keyOf sha hmac s.self) := by
  induction cs with
  | nil => intro s acc hi p; simpa [runCalls, lastAccepted] using (hi p).1
  | cons c cs ih =>
    intro s acc hi p
    obtain ⟨hself, hi'⟩ := step_histInv sha hmac s acc hi c
    have := ih _ _ hi' p
    simp only [runCalls, lastAccepted]
    rw [this, hself]

end
end EphVerif.C12L

namespace EphVerif.C12L
open EphVerif.Kex

/-- Lemire's multiply-shift lands in `[0, range)` for every 32-bit engine -/
theorem lemire_lt {σ : Type} (range : Nat) (next : σ → Nat × σ) (hnext : ∀ s, (next s).1 < two32) :
    ∀ (fuel : Nat) (s : σ), lemire range next fuel s < range ∨ range = 0 := by
  have key : ∀ x, x < two32 → (x * range) >>> 32 < range ∨ range = 0 := by
    intro x hx
    by_cases hr : range = 0
    · exact Or.inr hr
    · left
      rw [Nat.shiftRight_eq_div_pow]
      apply Nat.div_lt_of_lt_mul
      have : (2 : Nat) ^ 32 = two32 := by decide
      rw [this]
      exact Nat.mul_lt_mul_of_pos_right hx (Nat.pos_of_ne_zero hr)
  intro fuel
  induction fuel with
  | zero => intro s; exact key _ (hnext s)
  | succ f ih =>
    intro s
    unfold lemire
    simp only []
    split
    · exact ih _
    · exact key _ (hnext s)

theorem mt32_next_lt (g : Mt32) : (Mt32.next g).1 < two32 := by
  unfold Mt32.next
  exact UInt32.toNat_lt _

end EphVerif.C12L
