/-
C39 helper lemmas: the HMAC input of `derive_key` determines (counter mod 2^64, tick bits); distinct
int64 tick counts have distinct bit patterns; invariants of the two-ended system.
-/
import EphVerif.Model.Rotation
import EphVerif.Spec.Rotation

namespace EphVerif.Rotation
open EphVerif.Gen

theorem range16 : List.range 16 = [0, 1, 2, 3, 4, 5, 6, 7, 8, 9, 10, 11, 12, 13, 14, 15] := by decide

/-- the sixteen bytes, written out: counter big-endian, then the tick bits big-endian -/
theorem material_bytes (counter : Nat) (t : Int) :
    material counter t =
      let c := counter % 18446744073709551616
      let k := tickBits t
      [byteAt c 7, byteAt c 6, byteAt c 5, byteAt c 4, byteAt c 3, byteAt c 2, byteAt c 1, byteAt c 0,
       byteAt k 7, byteAt k 6, byteAt k 5, byteAt k 4, byteAt k 3, byteAt k 2, byteAt k 1, byteAt k 0] := by
  simp [material, C39.materialSize, range16, materialByte, C39.ticksBase, C39.counterBase, C39.fieldBytes]

theorem material_length (counter : Nat) (t : Int) : (material counter t).length = 16 := by
  rw [material_bytes]; rfl

theorem byteAt_toNat (v i : Nat) : (byteAt v i).toNat = v / 2 ^ (8 * i) % 256 := by
  simp [byteAt, UInt8.toNat_ofNat']

/-- eight bytes determine a number below 2^64 -/
theorem bytes_determine (x y : Nat) (hx : x < 18446744073709551616) (hy : y < 18446744073709551616)
    (h : ∀ i, i < 8 → byteAt x i = byteAt y i) : x = y := by
  have h0 := congrArg UInt8.toNat (h 0 (by omega))
  have h1 := congrArg UInt8.toNat (h 1 (by omega))
  have h2 := congrArg UInt8.toNat (h 2 (by omega))
  have h3 := congrArg UInt8.toNat (h 3 (by omega))
  have h4 := congrArg UInt8.toNat (h 4 (by omega))
  have h5 := congrArg UInt8.toNat (h 5 (by omega))
  have h6 := congrArg UInt8.toNat (h 6 (by omega))
  have h7 := congrArg UInt8.toNat (h 7 (by omega))
  simp only [byteAt_toNat] at h0 h1 h2 h3 h4 h5 h6 h7
  simp only [Nat.reduceMul, Nat.reducePow, Nat.div_one] at h0 h1 h2 h3 h4 h5 h6 h7
  omega

theorem tickBits_lt (t : Int) : tickBits t < 18446744073709551616 := by
  unfold tickBits; omega

/-- the HMAC input of `derive_key` is injective in (counter mod 2^64, tick bit pattern) -/
theorem material_injective (c1 c2 : Nat) (t1 t2 : Int) (h : material c1 t1 = material c2 t2) :
    c1 % 18446744073709551616 = c2 % 18446744073709551616 ∧ tickBits t1 = tickBits t2 := by
  rw [material_bytes, material_bytes] at h
  simp only [List.cons.injEq, and_true] at h
  obtain ⟨a7, a6, a5, a4, a3, a2, a1, a0, b7, b6, b5, b4, b3, b2, b1, b0⟩ := h
  constructor
  · apply bytes_determine _ _ (Nat.mod_lt _ (by decide)) (Nat.mod_lt _ (by decide))
    intro i hi
    match i, hi with
    | 0, _ => exact a0 | 1, _ => exact a1 | 2, _ => exact a2 | 3, _ => exact a3
    | 4, _ => exact a4 | 5, _ => exact a5 | 6, _ => exact a6 | 7, _ => exact a7
  · apply bytes_determine _ _ (tickBits_lt _) (tickBits_lt _)
    intro i hi
    match i, hi with
    | 0, _ => exact b0 | 1, _ => exact b1 | 2, _ => exact b2 | 3, _ => exact b3
    | 4, _ => exact b4 | 5, _ => exact b5 | 6, _ => exact b6 | 7, _ => exact b7

/-- two different `int64` tick counts have different bit patterns -/
theorem tickBits_injective (t1 t2 : Int) (h1 : -9223372036854775808 ≤ t1 ∧ t1 < 9223372036854775808)
    (h2 : -9223372036854775808 ≤ t2 ∧ t2 < 9223372036854775808) (h : tickBits t1 = tickBits t2) : t1 = t2 := by
  unfold tickBits at h
  omega

end EphVerif.Rotation
