/-
C14 helper lemmas: the model's `receive_loop` and `send` against the independent specification
`EphVerif.Spec.Frames` (literal 1 MiB, literal big-endian layout, RFC 8439 counter 0).
-/
import EphVerif.Lemmas.C14Codec
import EphVerif.Spec.Frames

set_option linter.unusedSimpArgs false

namespace EphVerif.Frames
open EphVerif.Gen

theorem readLength_eq_fromBe32 (b : Bytes) (h : b.length = 4) : readLength b = Spec.Frames.fromBe32 b := by
  match b, h with
  | [a, b, c, d], _ =>
    simp only [readLength, C14.recvShifts, List.zipWith_cons_cons, List.zipWith_nil_right, List.foldl_cons, List.foldl_nil,
      Spec.Frames.fromBe32]
    omega

theorem lengthBytes_eq_be32 (n : Nat) (h : n < 4294967296) : lengthBytes n = Spec.Frames.be32 n := by
  simp only [lengthBytes, C14.sendShifts, List.map_cons, List.map_nil, Nat.mod_eq_of_lt h, Spec.Frames.be32]
  simp

theorem cipher_recv (key nonce x : Bytes) : cipher key nonce C14.recvCounter x = Spec.chacha20 key nonce 0 x := rfl
theorem cipher_send (key nonce x : Bytes) : cipher key nonce C14.sendCounter x = Spec.chacha20 key nonce 0 x := rfl

theorem receiveLoop_spec (key : Bytes) (fuel : Nat) (s : Bytes) (o : Outcome) (ho : o.ended = none) :
    (receiveLoop key fuel s o).delivered = (Spec.Frames.receive key fuel s o.delivered).delivered ∧
    (receiveLoop key fuel s o).ended.isSome = (Spec.Frames.receive key fuel s o.delivered).endedOversized := by
  induction fuel generalizing s o with
  | zero => simp [receiveLoop, Spec.Frames.receive, ho]
  | succ fuel ih =>
    unfold receiveLoop Spec.Frames.receive
    simp only [kNonceSize_eq, kLengthFieldSize_eq, List.length_drop]
    by_cases h1 : s.length < 12
    · have : s.length < 16 := by omega
      simp [h1, this, ho]
    · simp only [h1, if_false]
      by_cases h2 : s.length - 12 < 4
      · have : s.length < 16 := by omega
        simp [h2, this, ho]
      · have h16 : ¬ s.length < 16 := by omega
        simp only [h2, h16, if_false]
        have hl : ((s.drop 12).take 4).length = 4 := by rw [List.length_take, List.length_drop]; omega
        rw [readLength_eq_fromBe32 _ hl]
        generalize Spec.Frames.fromBe32 ((s.drop 12).take 4) = n
        have hdd : (s.drop 12).drop 4 = s.drop 16 := by rw [List.drop_drop]
        have hsub : s.length - 12 - 4 = s.length - 16 := by omega
        simp only [hdd, List.length_drop, hsub]
        by_cases h3 : n > 1048576
        · have : C14.recvRefuses n = true := (recvRefuses_iff n).mpr h3
          simp [this, h3, Spec.Frames.maxPayload]
        · have hr : ¬ C14.recvRefuses n = true := by rw [recvRefuses_iff]; exact h3
          simp only [hr, if_false, Spec.Frames.maxPayload, h3, Bool.false_eq_true]
          by_cases h4 : n = 0
          · subst h4
            simp only [if_true, Nat.not_lt_zero, if_false, List.drop_zero, List.take_zero, cipher_recv]
            refine ih _ _ ?_
            exact ho
          · simp only [h4, if_false]
            by_cases h5 : s.length - 16 < n
            · simp [h5, ho]
            · simp only [h5, if_false, cipher_recv]
              refine ih _ _ ?_
              exact ho

/-- **`receive_loop` implements the specification of the receiving side**, on every byte string -/
theorem parse_spec (key s : Bytes) :
    (parse key s).delivered = (Spec.Frames.view key s).delivered ∧
    (parse key s).ended.isSome = (Spec.Frames.view key s).endedOversized :=
  receiveLoop_spec key (s.length + 1) s Outcome.init rfl

end EphVerif.Frames
