import EphVerif.Lemmas.C07Bridge

/-!
C07: `closest_peers`.  The comparator of the `std::sort` call is a strict total order on byte
strings; on the candidates of a table with one entry per id it is a strict order by the numeric
XOR distance, so the sorted sequence is unique and its first `min k n` elements are the
specification's answer.
-/
namespace EphVerif.C07L
open EphVerif.Routing EphVerif.C07Spec

/-! ### `lexLt` is a strict total order on all lists (what `List.mergeSort` needs) -/

theorem lexLt_nil_right (a : List Nat) : lexLt a [] = false := by
  cases a <;> rfl

theorem lexLt_asymm : ∀ (a b : List Nat), lexLt a b = true → lexLt b a = false
  | [], [], h => by simp [lexLt] at h
  | [], _ :: _, _ => rfl
  | _ :: _, [], h => by simp [lexLt] at h
  | x :: xs, y :: ys, h => by
    simp only [lexLt] at h ⊢
    by_cases h1 : x < y
    · have h2 : ¬ y < x := by omega
      simp [h1, h2]
    · by_cases h2 : y < x
      · simp [h1, h2] at h
      · simp only [h1, h2, if_false] at h ⊢
        exact lexLt_asymm xs ys h

theorem lexLt_negtrans : ∀ (a b c : List Nat), lexLt a c = true → lexLt a b = true ∨ lexLt b c = true
  | _, _, [], h => by rw [lexLt_nil_right] at h; cases h
  | [], [], _ :: _, _ => Or.inr rfl
  | [], _ :: _, _ :: _, _ => Or.inl rfl
  | _ :: _, [], _ :: _, _ => Or.inr rfl
  | x :: xs, y :: ys, z :: zs, h => by
    simp only [lexLt] at h ⊢
    by_cases hxy : x < y
    · simp [hxy]
    · by_cases hyx : y < x
      · right
        by_cases hxz : x < z
        · have : y < z := by omega
          simp [this]
        · by_cases hzx : z < x
          · simp [hxz, hzx] at h
          · have : y < z := by omega
            simp [this]
      · have exy : x = y := by omega
        subst exy
        by_cases hxz : x < z
        · right; simp [hxz]
        · by_cases hzx : z < x
          · simp [hxz, hzx] at h
          · simp only [hxz, hzx, if_false, Nat.lt_irrefl] at h ⊢
            exact lexLt_negtrans xs ys zs h

theorem candLe_trans (a b c : Candidate) (h1 : candLe a b = true) (h2 : candLe b c = true) : candLe a c = true := by
  simp only [candLe, Bool.not_eq_true', ] at h1 h2 ⊢
  cases h : lexLt c.distance a.distance
  · rfl
  · rcases lexLt_negtrans _ b.distance _ h with h3 | h3
    · rw [h3] at h2; cases h2
    · rw [h3] at h1; cases h1

theorem candLe_total (a b : Candidate) : (candLe a b || candLe b a) = true := by
  simp only [candLe]
  cases h : lexLt b.distance a.distance
  · simp
  · simp [lexLt_asymm _ _ h]

/-! ### candidates -/

/-- the numeric XOR distance of a contact to the target -/
def key (tg : Id) (c : Contact) : Nat := toNat c.id ^^^ toNat tg

def mkCand (tg : Id) (c : Contact) : Candidate := ⟨xorDistance c.id tg, c⟩

theorem key_eq_dist (tg : Id) (c : Contact) : key tg c = dist (toNat tg) (abs c) := rfl

theorem candLe_mk {tg : Id} {c d : Contact} (ht : WfId tg) (hc : WfId c.id) (hd : WfId d.id) :
    candLe (mkCand tg c) (mkCand tg d) = true ↔ key tg c ≤ key tg d := by
  have hl : (xorDistance d.id tg).length = (xorDistance c.id tg).length := by
    rw [length_xorDistance, length_xorDistance, hc.1, hd.1]
  have := lexLt_iff (xorDistance d.id tg) (xorDistance c.id tg) hl
    (bytes_xorDistance _ _ hd.2 ht.2) (bytes_xorDistance _ _ hc.2 ht.2)
  rw [toNat_xorDistance _ _ (by rw [hd.1, ht.1]) hd.2 ht.2, toNat_xorDistance _ _ (by rw [hc.1, ht.1]) hc.2 ht.2] at this
  simp only [candLe, mkCand, key, Bool.not_eq_true', ← Bool.not_eq_true, this]
  omega

theorem key_inj {tg : Id} {c d : Contact} (hc : WfId c.id) (hd : WfId d.id) (h : key tg c = key tg d) : c.id = d.id :=
  hc.inj hd (xor_right_cancel h)

theorem take_min_length {α : Type} (k : Nat) (l : List α) : l.take (min k l.length) = l.take k := by
  by_cases h : k ≤ l.length
  · rw [Nat.min_eq_left h]
  · rw [Nat.min_eq_right (by omega), List.take_length, List.take_of_length_le (by omega)]

/-- the candidates of `closest_peers`, sorted -/
def sortedCands (t : Table) (now : Int) (tg : Id) : List Candidate :=
  (((allContacts t).filter (live now)).map (mkCand tg)).mergeSort candLe

theorem closestPeers_eq (t : Table) (now : Int) (tg : Id) (k : Nat) :
    closestPeers t now tg k = ((sortedCands t now tg).take k).map (·.contact) := by
  unfold closestPeers sortedCands
  simp only [take_min_length]
  split
  · rename_i h; subst h; simp
  · rfl

section
variable {L : List Contact} {tg : Id}

/-- any permutation of the candidates that the comparator accepts as sorted is strictly
    increasing in the numeric distance -/
theorem strict_of_sorted (ht : WfId tg) (hw : ∀ c ∈ L, WfId c.id) (hn : L.Pairwise (fun a b => a.id ≠ b.id))
    {S : List Candidate} (hperm : S.Perm (L.map (mkCand tg))) (hs : S.Pairwise (fun a b => candLe a b = true)) :
    S.Pairwise (fun x y => key tg x.contact < key tg y.contact) := by
  have hne0 : (L.map (mkCand tg)).Pairwise (fun x y => key tg x.contact ≠ key tg y.contact) := by
    rw [List.pairwise_map]
    refine List.Pairwise.imp_of_mem ?_ hn
    intro a b ha hb hab hk
    exact hab (key_inj (hw a ha) (hw b hb) hk)
  have hne : S.Pairwise (fun x y => key tg x.contact ≠ key tg y.contact) :=
    hperm.symm.pairwise hne0 (fun h => fun h' => h h'.symm)
  refine List.Pairwise.imp_of_mem ?_ (hs.and hne)
  intro x y hx hy ⟨hle, hk⟩
  obtain ⟨c, hc, rfl⟩ := List.mem_map.1 (hperm.mem_iff.1 hx)
  obtain ⟨d, hd, rfl⟩ := List.mem_map.1 (hperm.mem_iff.1 hy)
  have := (candLe_mk ht (hw c hc) (hw d hd)).1 hle
  simp only [mkCand] at hk ⊢
  omega

/-- `std::sort`'s freedom does not matter: two sorted permutations of the candidates are equal -/
theorem sorted_unique (ht : WfId tg) (hw : ∀ c ∈ L, WfId c.id) (hn : L.Pairwise (fun a b => a.id ≠ b.id))
    {S₁ S₂ : List Candidate} (h1 : S₁.Perm (L.map (mkCand tg))) (h2 : S₂.Perm (L.map (mkCand tg)))
    (s1 : S₁.Pairwise (fun a b => candLe a b = true)) (s2 : S₂.Pairwise (fun a b => candLe a b = true)) : S₁ = S₂ := by
  have p1 := strict_of_sorted ht hw hn h1 s1
  have p2 := strict_of_sorted ht hw hn h2 s2
  refine List.Perm.eq_of_pairwise ?_ p1 p2 (h1.trans h2.symm)
  intro a b _ _ hab hba
  omega

end

theorem unexpired_abs (now : Int) : (unexpired now ∘ abs) = live now := by
  funext c
  simp only [Function.comp, unexpired, abs, live, expired]
  by_cases h : now < c.exp
  · have : ¬ now ≥ c.exp := by omega
    simp [h, this]
  · have : now ≥ c.exp := by omega
    simp [h, this]

/-- **closest_peers meets the specification** on every table satisfying the invariant -/
theorem closest_isClosest {t : Table} (h : Inv t) (w : WfT t) (now : Int) {tg : Id} (ht : WfId tg) (k : Nat) :
    IsClosest (entries (dumpOf t)) now (toNat tg) k ((closestPeers t now tg k).map abs) := by
  rw [closestPeers_eq, entries_dumpOf]
  -- the live contacts, their candidates, the sorted candidates
  have hwL : ∀ c ∈ (allContacts t).filter (live now), WfId c.id := by
    intro c hc
    obtain ⟨i, hi⟩ := (mem_allContacts h).1 (List.mem_filter.1 hc).1
    exact w.held i c hi
  have hnL : ((allContacts t).filter (live now)).Pairwise (fun a b => a.id ≠ b.id) := h.allContacts_nodup.filter _
  have hperm : (sortedCands t now tg).Perm (((allContacts t).filter (live now)).map (mkCand tg)) :=
    List.mergeSort_perm _ _
  have hsorted : (sortedCands t now tg).Pairwise (fun a b => candLe a b = true) :=
    List.pairwise_mergeSort candLe_trans candLe_total _
  have hstrict := strict_of_sorted ht hwL hnL hperm hsorted
  have hmemS : ∀ x ∈ sortedCands t now tg, ∃ c ∈ (allContacts t).filter (live now), x = mkCand tg c := by
    intro x hx
    obtain ⟨c, hc, rfl⟩ := List.mem_map.1 (hperm.mem_iff.1 hx)
    exact ⟨c, hc, rfl⟩
  refine ⟨?_, ?_, ?_, ?_⟩
  · -- length
    rw [List.length_map, List.length_map, List.length_take, List.filter_map, List.length_map, unexpired_abs,
      hperm.length_eq, List.length_map]
  · -- strictly increasing distance
    rw [List.pairwise_map, List.pairwise_map]
    exact (hstrict.sublist (List.take_sublist _ _)).imp (fun h => h)
  · -- members are unexpired held contacts
    intro e he
    simp only [List.mem_map] at he
    obtain ⟨c', ⟨x, hx, rfl⟩, rfl⟩ := he
    obtain ⟨c, hc, rfl⟩ := hmemS x (List.mem_of_mem_take hx)
    have hf := List.mem_filter.1 hc
    exact ⟨List.mem_map.2 ⟨c, hf.1, rfl⟩, (live_iff now c).1 hf.2⟩
  · -- every unexpired held contact left out is farther than every member
    intro e he hlt hnot m hm
    simp only [List.mem_map] at he hm
    obtain ⟨c, hc, rfl⟩ := he
    obtain ⟨c', ⟨y, hy, rfl⟩, rfl⟩ := hm
    have hcL : c ∈ (allContacts t).filter (live now) := List.mem_filter.2 ⟨hc, (live_iff now c).2 hlt⟩
    have hcS : mkCand tg c ∈ sortedCands t now tg := hperm.mem_iff.2 (List.mem_map.2 ⟨c, hcL, rfl⟩)
    rw [← List.take_append_drop k (sortedCands t now tg), List.mem_append] at hcS
    have hdrop : mkCand tg c ∈ (sortedCands t now tg).drop k := by
      rcases hcS with h1 | h1
      · exfalso; apply hnot
        simp only [List.mem_map]
        exact ⟨c, ⟨mkCand tg c, h1, rfl⟩, rfl⟩
      · exact h1
    rw [← List.take_append_drop k (sortedCands t now tg), List.pairwise_append] at hstrict
    exact hstrict.2.2 y hy _ hdrop

/-! ### the specification determines the answer -/

/-- two lists of the same length without repetitions, one contained in the other, have the same members -/
theorem subset_of_nodup_length {α : Type} [DecidableEq α] : ∀ {l₁ l₂ : List α}, l₁.Nodup → l₂.Nodup →
    l₁.length = l₂.length → (∀ a ∈ l₁, a ∈ l₂) → ∀ a ∈ l₂, a ∈ l₁
  | [], l₂, _, _, hl, _ => by
    intro a ha
    have : l₂ = [] := List.eq_nil_of_length_eq_zero hl.symm
    rw [this] at ha; cases ha
  | x :: xs, l₂, n1, n2, hl, hsub => by
    intro a ha
    have hx : x ∈ l₂ := hsub x List.mem_cons_self
    rw [List.nodup_cons] at n1
    have n2' : (l₂.erase x).Nodup := n2.sublist List.erase_sublist
    have hl' : xs.length = (l₂.erase x).length := by
      rw [List.length_erase_of_mem hx]; simp at hl; omega
    have hsub' : ∀ b ∈ xs, b ∈ l₂.erase x := by
      intro b hb
      have hne : b ≠ x := fun h => n1.1 (h ▸ hb)
      exact (List.mem_erase_of_ne hne).2 (hsub b (List.mem_cons_of_mem _ hb))
    by_cases hax : a = x
    · rw [hax]; exact List.mem_cons_self
    · have : a ∈ l₂.erase x := (List.mem_erase_of_ne hax).2 ha
      exact List.mem_cons_of_mem _ (subset_of_nodup_length n1.2 n2' hl' hsub' a this)

theorem nodup_of_strict {tgt : Nat} {r : List Entry} (h : r.Pairwise (fun a b => dist tgt a < dist tgt b)) : r.Nodup :=
  h.imp (fun hlt heq => by rw [heq] at hlt; omega)

/-- at most one list answers a query: the clauses of `IsClosest` fix the result completely -/
theorem isClosest_unique {held : List Entry} {now : Int} {tgt k : Nat}
    {r₁ r₂ : List Entry} (h1 : IsClosest held now tgt k r₁) (h2 : IsClosest held now tgt k r₂) : r₁ = r₂ := by
  obtain ⟨l1, p1, m1, f1⟩ := h1
  obtain ⟨l2, p2, m2, f2⟩ := h2
  have key : ∀ {ra rb : List Entry}, ra.length = rb.length →
      (∀ e ∈ ra, e ∈ held ∧ now < e.exp) → (∀ e ∈ rb, e ∈ held ∧ now < e.exp) →
      ra.Pairwise (fun a b => dist tgt a < dist tgt b) → rb.Pairwise (fun a b => dist tgt a < dist tgt b) →
      (∀ e ∈ held, now < e.exp → e ∉ ra → ∀ m ∈ ra, dist tgt m < dist tgt e) →
      (∀ e ∈ held, now < e.exp → e ∉ rb → ∀ m ∈ rb, dist tgt m < dist tgt e) →
      ∀ a ∈ ra, a ∈ rb := by
    intro ra rb hl ma mb pa pb fa fb a ha
    refine Classical.byContradiction fun hna => ?_
    -- some member of rb is outside ra, otherwise rb ⊆ ra with equal lengths gives a ∈ rb
    have : ∃ d ∈ rb, d ∉ ra := by
      refine Classical.byContradiction fun hno => ?_
      have hsub : ∀ d ∈ rb, d ∈ ra := fun d hd => Classical.byContradiction fun hd' => hno ⟨d, hd, hd'⟩
      exact hna (subset_of_nodup_length (nodup_of_strict pb) (nodup_of_strict pa) hl.symm hsub a ha)
    obtain ⟨d, hd, hdna⟩ := this
    have h3 := fb a (ma a ha).1 (ma a ha).2 hna d hd
    have h4 := fa d (mb d hd).1 (mb d hd).2 hdna a ha
    omega
  have hmem : ∀ a, a ∈ r₁ ↔ a ∈ r₂ :=
    fun a => ⟨key (l1.trans l2.symm) m1 m2 p1 p2 f1 f2 a, key (l2.trans l1.symm) m2 m1 p2 p1 f2 f1 a⟩
  have hperm : r₁.Perm r₂ := (List.perm_ext_iff_of_nodup (nodup_of_strict p1) (nodup_of_strict p2)).2 hmem
  refine List.Perm.eq_of_pairwise ?_ p1 p2 hperm
  intro a b _ _ hab hba
  omega

end EphVerif.C07L
