/-
C09 helper lemmas, part 4: the loop of `ChaCha20::apply` when the input span aliases the output
vector. Every byte is read immediately before it is overwritten and bytes not yet processed are
untouched, so the loop still computes "byte j = (vector content after preparation)[j] xor key-stream
byte j".
-/
import EphVerif.Lemmas.C09Apply

namespace EphVerif.C09
open EphVerif EphVerif.ChaCha20 EphVerif.Spec.ChaCha

theorem size_xorBlockAliased (buf : Array UInt8) (ks : List UInt8) (p bs : Nat) :
    (xorBlockAliased buf ks p bs).size = buf.size := by
  induction bs with
  | zero => simp [xorBlockAliased]
  | succ bs ih =>
    simp only [xorBlockAliased, List.range_succ, List.foldl_append, List.foldl_cons, List.foldl_nil,
      Array.size_setIfInBounds] at *
    exact ih

theorem getElem?_xorBlockAliased (buf : Array UInt8) (ks : List UInt8) (p bs j : Nat) :
    (xorBlockAliased buf ks p bs)[j]? =
      if p ≤ j ∧ j < p + bs ∧ j < buf.size then some (buf.getD j 0 ^^^ ks.getD (j - p) 0) else buf[j]? := by
  induction bs generalizing j with
  | zero => simp [xorBlockAliased]; omega
  | succ bs ih =>
    have hs := size_xorBlockAliased buf ks p bs
    simp only [xorBlockAliased, List.range_succ, List.foldl_append, List.foldl_cons, List.foldl_nil] at *
    -- the byte read in step `bs` has not been written by the earlier steps
    have hread : (List.foldl (fun b i => b.setIfInBounds (p + i) (b.getD (p + i) 0 ^^^ ks.getD i 0)) buf (List.range bs)).getD (p + bs) 0
        = buf.getD (p + bs) 0 := by
      have h := ih (j := p + bs)
      have hn : ¬ (p ≤ p + bs ∧ p + bs < p + bs ∧ p + bs < buf.size) := by omega
      rw [if_neg hn] at h
      rw [Array.getD_eq_getD_getElem?, Array.getD_eq_getD_getElem? (xs := buf), h]
    rw [Array.getElem?_setIfInBounds, ih, hs, hread]
    by_cases h1 : p + bs = j
    · subst h1
      by_cases h2 : p + bs < buf.size
      · simp [h2]
      · simp [h2]
    · simp only [h1, if_false]
      by_cases h3 : p ≤ j ∧ j < p + bs ∧ j < buf.size
      · have h4 : p ≤ j ∧ j < p + (bs + 1) ∧ j < buf.size := by omega
        rw [if_pos h3, if_pos h4]
      · have h4 : ¬ (p ≤ j ∧ j < p + (bs + 1) ∧ j < buf.size) := by omega
        rw [if_neg h3, if_neg h4]

theorem applyLoopAliased_spec (key nonce : List UInt8) (n p : Nat) (c : UInt32) (buf : Array UInt8) (hsz : buf.size = n) :
    (applyLoopAliased key nonce n p c buf).size = n ∧
    ∀ j, j < n → (applyLoopAliased key nonce n p c buf)[j]? =
      if j < p then buf[j]? else some (buf.getD j 0 ^^^ ksByte key nonce c (j - p)) := by
  fun_induction applyLoopAliased key nonce n p c buf with
  | case1 p c buf hlt ks c' bs buf' ih =>
    have hsz' : buf'.size = n := by simp only [buf', size_xorBlockAliased, hsz]
    obtain ⟨ih1, ih2⟩ := ih hsz'
    refine ⟨ih1, ?_⟩
    intro j hj
    rw [ih2 j hj]
    have hbs : bs = min 64 (n - p) := rfl
    have hget : ∀ k, buf'.getD k 0 = (buf'[k]?).getD 0 := fun k => by simp only [Array.getD_eq_getD_getElem?]
    simp only [hget, buf', getElem?_xorBlockAliased]
    by_cases hA : j < p
    · have h1 : j < p + bs := by omega
      have h2 : ¬ (p ≤ j ∧ j < p + bs ∧ j < buf.size) := by omega
      rw [if_pos h1, if_neg h2, if_pos hA]
    · by_cases hB : j < p + bs
      · have h2 : p ≤ j ∧ j < p + bs ∧ j < buf.size := by omega
        have h3 : (j - p) / 64 = 0 := by omega
        have h4 : (j - p) % 64 = j - p := by omega
        rw [if_pos hB, if_pos h2, if_neg hA]
        simp only [ksByte, h3, h4]
        have : c + UInt32.ofNat 0 = c := by simp
        rw [this]
      · have h64 : bs = 64 := by omega
        have h2 : ¬ (p ≤ j ∧ j < p + bs ∧ j < buf.size) := by omega
        have h3 : (j - p) / 64 = (j - (p + bs)) / 64 + 1 := by omega
        have h4 : (j - p) % 64 = (j - (p + bs)) % 64 := by omega
        rw [if_neg hB, if_neg hA, if_neg h2]
        simp only [ksByte, h3, h4, c', Array.getD_eq_getD_getElem?]
        have : c + 1 + UInt32.ofNat ((j - (p + bs)) / 64) = c + UInt32.ofNat ((j - (p + bs)) / 64 + 1) := by
          rw [UInt32.ofNat_add, UInt32.add_assoc, UInt32.add_comm 1]
          rfl
        rw [this]
  | case2 p c buf hge =>
    refine ⟨hsz, ?_⟩
    intro j hj
    have : j < p := by omega
    simp [this]

/-- closed form of the aliased call in terms of what the vector holds after the preparation step -/
theorem applyAliased_eq (key nonce vec : List UInt8) (n : Nat) (c : UInt32) :
    applyAliased key nonce vec n c = (prepare vec.toArray n).toList.mapIdx fun j b => b ^^^ ksByte key nonce c j := by
  have hsz := size_prepare vec.toArray n
  obtain ⟨h1, h2⟩ := applyLoopAliased_spec key nonce n 0 c _ hsz
  apply List.ext_getElem?
  intro j
  simp only [applyAliased, Array.getElem?_toList, List.getElem?_mapIdx]
  by_cases hj : j < n
  · rw [h2 j hj]
    have hj' : j < (prepare vec.toArray n).size := by omega
    simp [Array.getD_eq_getD_getElem?, Array.getElem?_eq_getElem hj']
  · have e1 : (prepare vec.toArray n)[j]? = none := Array.getElem?_eq_none (by omega)
    have e2 : (applyLoopAliased key nonce n 0 c (prepare vec.toArray n))[j]? = none :=
      Array.getElem?_eq_none (by omega)
    rw [e1, e2]; rfl

end EphVerif.C09
