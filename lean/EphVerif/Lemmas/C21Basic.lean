import EphVerif.Model.Announce

/-! Helper lemmas for C21: the structure of `peerAnnounce` / `announce` / `run`. -/
set_option linter.unusedSimpArgs false

namespace EphVerif.C21
open EphVerif.Announce

theorem NS_pos : (0 : Int) < NS := by decide

theorem setPeer_same (s : State) (p : String) (ps : PeerSt) : (setPeer s p ps).peers p = ps := by
  simp [setPeer]

theorem setPeer_other (s : State) (p q : String) (ps : PeerSt) (h : q ≠ p) :
    (setPeer s p ps).peers q = s.peers q := by
  simp [setPeer, h]

/-! ### the checks -/

theorem preCheck_none {cfg : Cfg} {a : Ann} (h : preCheck cfg a = none) :
    a.senderMatch = true ∧ a.uriNonEmpty = true ∧ verifyPow cfg a = true := by
  unfold preCheck at h
  cases h1 : a.senderMatch <;> cases h2 : a.uriNonEmpty <;> cases h3 : verifyPow cfg a <;> simp_all

theorem preCheck_some {cfg : Cfg} {a : Ann} {r : Reject} (h : preCheck cfg a = some r) :
    r = .sender ∨ r = .emptyUri ∨ r = .pow := by
  unfold preCheck at h
  cases h1 : a.senderMatch <;> cases h2 : a.uriNonEmpty <;> cases h3 : verifyPow cfg a <;> simp_all

theorem postCheck_none {a : Ann} (h : postCheck a = none) :
    a.decodable = true ∧ a.idMatch = true ∧ a.thresholdMet = true ∧ a.unexpired = true ∧ a.assignedOk = true := by
  unfold postCheck at h
  cases h1 : a.decodable <;> cases h2 : a.idMatch <;> cases h3 : a.thresholdMet <;> cases h4 : a.unexpired <;>
    cases h5 : a.assignedOk <;> simp_all

theorem postCheck_some {a : Ann} {r : Reject} (h : postCheck a = some r) :
    r = .decode ∨ r = .idMismatch ∨ r = .shards ∨ r = .ttl ∨ r = .assigned := by
  unfold postCheck at h
  cases h1 : a.decodable <;> cases h2 : a.idMatch <;> cases h3 : a.thresholdMet <;> cases h4 : a.unexpired <;>
    cases h5 : a.assignedOk <;> simp_all

/-- the exits of `handle_announce` -/
inductive Exit (cfg : Cfg) (now : Int) (ps0 : PeerSt) (a : Ann) : PeerSt × Outcome → Prop where
  | locked (h : (senderLocked now ps0).2 = true) :
      Exit cfg now ps0 a ({ (senderLocked now ps0).1 with rep := repFailure (senderLocked now ps0).1.rep }, .rejected .locked)
  | pre (h : (senderLocked now ps0).2 = false) (r : Reject) (hr : preCheck cfg a = some r) :
      Exit cfg now ps0 a (rejectP now (senderLocked now ps0).1 r)
  | throttle (h : (senderLocked now ps0).2 = false) (hp : preCheck cfg a = none)
      (ht : (register cfg now (senderLocked now ps0).1.hist).2 = false) :
      Exit cfg now ps0 a
        (rejectP now { (senderLocked now ps0).1 with hist := (register cfg now (senderLocked now ps0).1.hist).1 } .throttle)
  | post (h : (senderLocked now ps0).2 = false) (hp : preCheck cfg a = none)
      (ht : (register cfg now (senderLocked now ps0).1.hist).2 = true) (r : Reject) (hr : postCheck a = some r) :
      Exit cfg now ps0 a
        (rejectP now { (senderLocked now ps0).1 with hist := (register cfg now (senderLocked now ps0).1.hist).1 } r)
  | accepted (h : (senderLocked now ps0).2 = false) (hp : preCheck cfg a = none)
      (ht : (register cfg now (senderLocked now ps0).1.hist).2 = true) (hq : postCheck a = none) :
      Exit cfg now ps0 a
        ({ (senderLocked now ps0).1 with
             hist := (register cfg now (senderLocked now ps0).1.hist).1, fails := [], lock := none,
             rep := repSuccess (senderLocked now ps0).1.rep }, .accepted)

theorem peerAnnounce_exit (cfg : Cfg) (now : Int) (ps0 : PeerSt) (a : Ann) :
    Exit cfg now ps0 a (peerAnnounce cfg now ps0 a) := by
  unfold peerAnnounce
  cases hl : (senderLocked now ps0).2
  · cases hp : preCheck cfg a with
    | some r =>
      simp only [hl, hp, Bool.false_eq_true, ↓reduceIte]
      exact Exit.pre hl r hp
    | none =>
      cases ht : (register cfg now (senderLocked now ps0).1.hist).2
      · simp only [hl, hp, Bool.false_eq_true, ↓reduceIte, ht, Bool.not_false]
        exact Exit.throttle hl hp ht
      · cases hq : postCheck a with
        | some r =>
          simp only [hl, hp, hq, Bool.false_eq_true, ↓reduceIte, ht, Bool.not_true]
          exact Exit.post hl hp ht r hq
        | none =>
          simp only [hl, hp, hq, Bool.false_eq_true, ↓reduceIte, ht, Bool.not_true]
          exact Exit.accepted hl hp ht hq
  · simp only [hl, ↓reduceIte]
    exact Exit.locked hl

/-! ### `senderLocked`, `recordFailure` -/

theorem senderLocked_hist (now : Int) (ps : PeerSt) : (senderLocked now ps).1.hist = ps.hist := by
  unfold senderLocked
  split
  · rfl
  · split <;> rfl

theorem senderLocked_fails (now : Int) (ps : PeerSt) : (senderLocked now ps).1.fails = ps.fails := by
  unfold senderLocked
  split
  · rfl
  · split <;> rfl

theorem senderLocked_true {now : Int} {ps : PeerSt} (h : (senderLocked now ps).2 = true) :
    ∃ u, ps.lock = some u ∧ now < u ∧ (senderLocked now ps).1 = ps := by
  unfold senderLocked at h ⊢
  split at h
  · simp at h
  · rename_i u hu
    by_cases hle : u ≤ now
    · simp [hle] at h
    · refine ⟨u, hu, by omega, ?_⟩
      simp [hu, hle]

theorem senderLocked_false {now : Int} {ps : PeerSt} (h : (senderLocked now ps).2 = false) :
    (ps.lock = none ∨ ∃ u, ps.lock = some u ∧ u ≤ now) ∧ (senderLocked now ps).1.lock = none := by
  unfold senderLocked at h ⊢
  split at h
  · rename_i hn
    exact ⟨Or.inl hn, by simp [hn]⟩
  · rename_i u hu
    by_cases hle : u ≤ now
    · exact ⟨Or.inr ⟨u, hu, hle⟩, by simp [hu, hle]⟩
    · simp [hle] at h

/-- the failure bookkeeping of one counted rejection, on (failure history, lockout) -/
def failStep (now : Int) (fails : List Int) : List Int × Option Int :=
  let f := fails.dropWhile (fun t => decide (now - t > failureWindow)) ++ [now]
  if f.length ≥ failureThreshold then ([], some (now + lockoutDuration)) else (f, none)

theorem recordFailure_unlocked {now : Int} {ps : PeerSt} (h : ps.lock = none) :
    ((recordFailure now ps).fails, (recordFailure now ps).lock) = failStep now ps.fails ∧
    (recordFailure now ps).hist = ps.hist := by
  unfold recordFailure failStep pushFailure
  simp only [h]
  split <;> simp_all

theorem rejectP_hist (now : Int) (ps : PeerSt) (r : Reject) (h : ps.lock = none) :
    (rejectP now ps r).1.hist = ps.hist := by
  unfold rejectP
  exact (recordFailure_unlocked h).2

theorem rejectP_out (now : Int) (ps : PeerSt) (r : Reject) : (rejectP now ps r).2 = .rejected r := rfl

theorem rejectP_fails {now : Int} {ps : PeerSt} (r : Reject) (h : ps.lock = none) :
    ((rejectP now ps r).1.fails, (rejectP now ps r).1.lock) = failStep now ps.fails := by
  unfold rejectP
  exact (recordFailure_unlocked h).1

/-! ### framing: an announce only touches its sender; `obs` only changes on acceptance -/

theorem announce_now (cfg : Cfg) (s : State) (a : Ann) : (announce cfg s a).1.now = s.now := rfl

theorem announce_peer (cfg : Cfg) (s : State) (a : Ann) :
    (announce cfg s a).1.peers a.peer = (peerAnnounce cfg s.now (s.peers a.peer) a).1 := by
  simp [announce, setPeer]

theorem announce_other (cfg : Cfg) (s : State) (a : Ann) (q : String) (h : q ≠ a.peer) :
    (announce cfg s a).1.peers q = s.peers q := by
  simp [announce, setPeer, h]

theorem announce_out (cfg : Cfg) (s : State) (a : Ann) :
    (announce cfg s a).2 = (peerAnnounce cfg s.now (s.peers a.peer) a).2 := rfl

theorem announce_obs (cfg : Cfg) (s : State) (a : Ann) (h : (announce cfg s a).2 ≠ .accepted) :
    (announce cfg s a).1.obs = s.obs := by
  rw [announce_out] at h
  simp [announce, h]

/-! ### `run` -/

theorem step_now_le (cfg : Cfg) (s : State) (op : Op) : s.now ≤ (step cfg s op).1.now := by
  cases op with
  | adv d => simp [step]; omega
  | ann a => simp [step, announce_now]

theorem run_append_log (cfg : Cfg) (ops : List Op) : ∀ (s : State) (log : List Ev),
    (run cfg (s, log) ops).1 = (run cfg (s, []) ops).1 ∧
    (run cfg (s, log) ops).2 = log ++ (run cfg (s, []) ops).2 := by
  induction ops with
  | nil => intro s log; simp [run]
  | cons op rest ih =>
    intro s log
    simp only [run, List.nil_append]
    have h1 := ih (step cfg s op).1 (log ++ (step cfg s op).2)
    have h2 := ih (step cfg s op).1 (step cfg s op).2
    refine ⟨h1.1.trans h2.1.symm, ?_⟩
    rw [h1.2, h2.2, List.append_assoc]

theorem run_cons (cfg : Cfg) (s : State) (op : Op) (rest : List Op) :
    (run cfg (s, []) (op :: rest)).1 = (run cfg ((step cfg s op).1, []) rest).1 ∧
    (run cfg (s, []) (op :: rest)).2 = (step cfg s op).2 ++ (run cfg ((step cfg s op).1, []) rest).2 := by
  simp only [run, List.nil_append]
  exact run_append_log cfg rest (step cfg s op).1 (step cfg s op).2

theorem run_now_le (cfg : Cfg) (ops : List Op) : ∀ (s : State), s.now ≤ (run cfg (s, []) ops).1.now := by
  induction ops with
  | nil => intro s; simp [run]
  | cons op rest ih =>
    intro s
    rw [(run_cons cfg s op rest).1]
    exact Int.le_trans (step_now_le cfg s op) (ih _)

end EphVerif.C21
