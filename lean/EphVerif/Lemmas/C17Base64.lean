import EphVerif.Model.Manifest

/-! Helper lemmas for C17/C18: the base64 pair of `Manifest.cpp`. -/
namespace EphVerif.Manifest
open EphVerif.Gen.C17

/-- the decode table inverts the alphabet (64 generated entries, checked exhaustively) -/
theorem decVal_alphaAt : ∀ i, i < 64 → decVal (alphaAt i) = (i : Int) := by decide +kernel

theorem alphaAt_ne_pad : ∀ i, i < 64 → (alphaAt i != padChar) = true := by decide +kernel

theorem decVal_pad : decVal padChar = 0 := by decide +kernel

theorem decVal_range_nat : ∀ n, n < 256 → -1 ≤ decVal (UInt8.ofNat n) ∧ decVal (UInt8.ofNat n) < 64 := by
  decide +kernel

/-- every table entry is -1 or a sextet -/
theorem decVal_range (c : UInt8) : -1 ≤ decVal c ∧ decVal c < 64 := by
  have h := decVal_range_nat c.toNat (UInt8.toNat_lt c)
  rwa [UInt8.ofNat_toNat] at h

theorem decVal_sextet (t k : Nat) : decVal (sextet t k) = ((t / 2 ^ k % 64 : Nat) : Int) :=
  decVal_alphaAt _ (Nat.mod_lt _ (by decide))

theorem sextet_ne_pad (t k : Nat) : (sextet t k != padChar) = true :=
  alphaAt_ne_pad _ (Nat.mod_lt _ (by decide))

theorem b64Encode_length_mod (bs : Bytes) : (b64Encode bs).length % 4 = 0 := by
  fun_induction b64Encode bs <;> simp_all [List.length_cons] <;> omega

theorem sextets_recombine (t : Nat) (ht : t < 16777216) :
    (((t / 2 ^ 18 % 64 : Nat) : Int) * 262144 + ((t / 2 ^ 12 % 64 : Nat) : Int) * 4096 +
      ((t / 2 ^ 6 % 64 : Nat) : Int) * 64 + ((t / 2 ^ 0 % 64 : Nat) : Int)).toNat = t := by
  simp only [Nat.reducePow]
  omega

theorem sextet_nonneg (t k : Nat) : decide (((t / 2 ^ k % 64 : Nat) : Int) < 0) = false := by
  simp only [decide_eq_false_iff_not]; omega

theorem b64Quads_encode (bs : Bytes) : b64Quads (b64Encode bs) = .ok bs := by
  fun_induction b64Encode bs with
  | case1 a b c rest t ih =>
    have ha := UInt8.toNat_lt a
    have hb := UInt8.toNat_lt b
    have hc := UInt8.toNat_lt c
    have ht : t < 16777216 := by simp only [t]; omega
    simp only [b64Quads, decVal_sextet, sextet_ne_pad, ih, Res.bind, sextet_nonneg, sextets_recombine t ht]
    have h0 : t / 65536 % 256 = a.toNat := by simp only [t]; omega
    have h1 : t / 256 % 256 = b.toNat := by simp only [t]; omega
    have h2 : t % 256 = c.toNat := by simp only [t]; omega
    simp [h0, h1, h2, UInt8.ofNat_toNat]
  | case2 a b t =>
    have ha := UInt8.toNat_lt a
    have hb := UInt8.toNat_lt b
    have ht : t < 16777216 := by simp only [t]; omega
    have hT : (((t / 2 ^ 18 % 64 : Nat) : Int) * 262144 + ((t / 2 ^ 12 % 64 : Nat) : Int) * 4096 +
        ((t / 2 ^ 6 % 64 : Nat) : Int) * 64 + 0).toNat = t := by
      simp only [Nat.reducePow, t]; omega
    have h0 : t / 65536 % 256 = a.toNat := by simp only [t]; omega
    have h1 : t / 256 % 256 = b.toNat := by simp only [t]; omega
    simp only [b64Quads, decVal_sextet, sextet_ne_pad, decVal_pad, Res.bind, sextet_nonneg, hT]
    simp [h0, h1, UInt8.ofNat_toNat]
  | case3 a t =>
    have ha := UInt8.toNat_lt a
    have hT : (((t / 2 ^ 18 % 64 : Nat) : Int) * 262144 + ((t / 2 ^ 12 % 64 : Nat) : Int) * 4096 +
        0 * 64 + 0).toNat = t := by
      simp only [Nat.reducePow, t]; omega
    have h0 : t / 65536 % 256 = a.toNat := by simp only [t]; omega
    simp only [b64Quads, decVal_sextet, decVal_pad, Res.bind, sextet_nonneg, hT]
    simp [h0, UInt8.ofNat_toNat]
  | case4 => simp [b64Quads]

/-- `base64_decode ∘ base64_encode = id`, for every byte string -/
theorem b64Decode_encode (bs : Bytes) : b64Decode (b64Encode bs) = .ok bs := by
  simp [b64Decode, b64Encode_length_mod, b64Quads_encode]

/-! ### the decoder never leaves its input -/

theorem b64Quads_acceptable : ∀ (n : Nat) (s : Bytes), s.length = 4 * n → (b64Quads s).Acceptable
  | 0, s, h => by
    have : s = [] := List.eq_nil_of_length_eq_zero (by omega)
    subst this; simp [b64Quads, Res.Acceptable]
  | n + 1, s, h => by
    match s, h with
    | ca :: cb :: cc :: cd :: rest, h =>
      have ih := b64Quads_acceptable n rest (by simp at h; omega)
      simp only [b64Quads]
      split
      · simp [Res.Acceptable]
      · cases hr : b64Quads rest <;> simp_all [Res.bind, Res.Acceptable]

theorem b64Decode_acceptable (s : Bytes) : (b64Decode s).Acceptable := by
  unfold b64Decode
  split
  · simp [Res.Acceptable]
  · rename_i h
    have : s.length % 4 = 0 := by simpa using h
    exact b64Quads_acceptable (s.length / 4) s (by omega)

end EphVerif.Manifest
