import EphVerif.Model.Manifest

/-! Helper lemmas for C17/C18: the base64 pair of `Manifest.cpp`. -/
namespace EphVerif.Manifest
open EphVerif.Gen.C17

/-- the decode table inverts the alphabet (64 generated entries, checked exhaustively) -/
theorem decVal_alphaAt : ∀ i, i < 64 → decVal (alphaAt i) = (i : Int) := by decide +kernel

theorem alphaAt_ne_pad : ∀ i, i < 64 → (alphaAt i != padChar) = true := by decide +kernel

theorem decVal_pad : decVal padChar = 0 := by decide +kernel

theorem decVal_sextet (t k : Nat) : decVal (sextet t k) = ((t / 2 ^ k % 64 : Nat) : Int) :=
  decVal_alphaAt _ (Nat.mod_lt _ (by decide))

theorem sextet_ne_pad (t k : Nat) : (sextet t k != padChar) = true :=
  alphaAt_ne_pad _ (Nat.mod_lt _ (by decide))

theorem b64Encode_length_mod (bs : Bytes) : (b64Encode bs).length % 4 = 0 := by
  fun_induction b64Encode bs <;> simp_all [List.length_cons] <;> omega

theorem sextets_recombine (t : Nat) (ht : t < 16777216) :
    (((t / 2 ^ 18 % 64 : Nat) : Int) * 262144 + ((t / 2 ^ 12 % 64 : Nat) : Int) * 4096 +
      ((t / 2 ^ 6 % 64 : Nat) : Int) * 64 + ((t / 2 ^ 0 % 64 : Nat) : Int)).toNat = t := by
  simp only [Nat.reducePow]
  omega

theorem sextet_nonneg (t k : Nat) : decide (((t / 2 ^ k % 64 : Nat) : Int) < 0) = false := by
  simp only [decide_eq_false_iff_not]; omega

theorem b64Quads_encode (bs : Bytes) : b64Quads (b64Encode bs) = .ok bs := by
  fun_induction b64Encode bs with
  | case1 a b c rest t ih =>
    have ha := UInt8.toNat_lt a
    have hb := UInt8.toNat_lt b
    have hc := UInt8.toNat_lt c
    have ht : t < 16777216 := by simp only [t]; omega
    simp only [b64Quads, decVal_sextet, sextet_ne_pad, ih, Res.bind, sextet_nonneg, sextets_recombine t ht]
    have h0 : t / 65536 % 256 = a.toNat := by simp only [t]; omega
    have h1 : t / 256 % 256 = b.toNat := by simp only [t]; omega
    have h2 : t % 256 = c.toNat := by simp only [t]; omega
    simp [h0, h1, h2, UInt8.ofNat_toNat]
  | case2 a b t =>
    have ha := UInt8.toNat_lt a
    have hb := UInt8.toNat_lt b
    have ht : t < 16777216 := by simp only [t]; omega
    have hT : (((t / 2 ^ 18 % 64 : Nat) : Int) * 262144 + ((t / 2 ^ 12 % 64 : Nat) : Int) * 4096 +
        ((t / 2 ^ 6 % 64 : Nat) : Int) * 64 + 0).toNat = t := by
      simp only [Nat.reducePow, t]; omega
    have h0 : t / 65536 % 256 = a.toNat := by simp only [t]; omega
    have h1 : t / 256 % 256 = b.toNat := by simp only [t]; omega
    simp only [b64Quads, decVal_sextet, sextet_ne_pad, decVal_pad, Res.bind, sextet_nonneg, hT]
    simp [h0, h1, UInt8.ofNat_toNat]
  | case3 a t =>
    have ha := UInt8.toNat_lt a
    have hT : (((t / 2 ^ 18 % 64 : Nat) : Int) * 262144 + ((t / 2 ^ 12 % 64 : Nat) : Int) * 4096 +
        0 * 64 + 0).toNat = t := by
      simp only [Nat.reducePow, t]; omega
    have h0 : t / 65536 % 256 = a.toNat := by simp only [t]; omega
    simp only [b64Quads, decVal_sextet, decVal_pad, Res.bind, sextet_nonneg, hT]
    simp [h0, UInt8.ofNat_toNat]
  | case4 => simp [b64Quads]

/-- `base64_decode ∘ base64_encode = id`, for every byte string -/
theorem b64Decode_encode (bs : Bytes) : b64Decode (b64Encode bs) = .ok bs := by
  simp [b64Decode, b64Encode_length_mod, b64Quads_encode]

end EphVerif.Manifest
