/-
Helper lemmas for C25/C26: frame properties of the line handlers (`Mild`): they only queue control
text, never touch a read buffer, never add or remove a session, never establish a bridge.
-/
import EphVerif.Lemmas.C25Handlers
set_option linter.unusedSimpArgs false
namespace EphVerif.Relay
open EphVerif.Gen.C25

def State.rbOf (σ : State) (a : Client) : Option Bytes := (σ.get a).map (·.readBuf)

/-- clients whose descriptor has been closed, newest first -/
def Out.closedOf : Out → Option Client
  | .closed c => some c
  | _ => none

def closedList (σ : State) : List Client := σ.out.filterMap Out.closedOf

/-- control text queued for client `c` itself -/
def isCtrlOut (c : Client) : Out → Prop
  | .queued d (.ctrl _) => d = c
  | _ => False

structure Mild (c : Client) (σ σ' : State) : Prop where
  dom : ∀ a, (σ'.get a).isSome = (σ.get a).isSome
  rb : ∀ a, σ'.rbOf a = σ.rbOf a
  used : σ'.used = σ.used
  hung : σ'.hung = σ.hung
  out : ∃ new, σ'.out = new ++ σ.out ∧ ∀ o ∈ new, isCtrlOut c o
  nb : ∀ a, σ'.stateOf a = some .bridged → σ.stateOf a = some .bridged

theorem Mild.refl (c : Client) (σ : State) : Mild c σ σ :=
  ⟨fun _ => rfl, fun _ => rfl, rfl, rfl, ⟨[], rfl, by simp⟩, fun _ h => h⟩

theorem Mild.trans {c : Client} {σ1 σ2 σ3 : State} (h12 : Mild c σ1 σ2) (h23 : Mild c σ2 σ3) : Mild c σ1 σ3 := by
  obtain ⟨n1, e1, p1⟩ := h12.out
  obtain ⟨n2, e2, p2⟩ := h23.out
  refine ⟨fun a => (h23.dom a).trans (h12.dom a), fun a => (h23.rb a).trans (h12.rb a), h23.used.trans h12.used,
    h23.hung.trans h12.hung, ⟨n2 ++ n1, by rw [e2, e1, List.append_assoc], ?_⟩, fun a h => h12.nb a (h23.nb a h)⟩
  intro o ho
  rcases List.mem_append.mp ho with h | h
  · exact p2 o h
  · exact p1 o h

theorem mild_queue_ctrl (σ : State) (c : Client) (t : Bytes) : Mild c σ (queue σ c (.ctrl t)) := by
  refine ⟨by simp, ?_, by simp, by simp, ?_, by simp⟩
  · intro a; simp only [State.rbOf, get_queue]; by_cases e : a = c <;> simp [e]; cases σ.get c <;> simp
  · unfold queue
    cases σ.get c with
    | none => exact ⟨[], rfl, by simp⟩
    | some s => exact ⟨[.queued c (.ctrl t)], by simp, by simp [isCtrlOut]⟩

/-- rewriting a session's pairing fields -/
theorem mild_put {σ : State} (d : Client) {c : Client} {s s' : Session} (hc : σ.get c = some s) (hrb : s'.readBuf = s.readBuf)
    (hst : s'.state = .bridged → s.state = .bridged) : Mild d σ (σ.put c s') := by
  refine ⟨?_, ?_, rfl, rfl, ⟨[], rfl, by simp⟩, ?_⟩
  · intro a; by_cases e : a = c <;> simp [e, hc]
  · intro a; by_cases e : a = c <;> simp [State.rbOf, e, hc, hrb]
  · intro a; by_cases e : a = c <;> simp [State.stateOf, e, hc]; exact hst

theorem mild_regs (c : Client) {σ σ' : State} (hg : ∀ a, σ'.get a = σ.get a) (hu : σ'.used = σ.used) (hh : σ'.hung = σ.hung)
    (ho : σ'.out = σ.out) : Mild c σ σ' :=
  ⟨fun a => by rw [hg], fun a => by simp [State.rbOf, hg], hu, hh, ⟨[], by simp [ho], by simp⟩,
    fun a h => by simpa [State.stateOf, hg] using h⟩

theorem used_removeRegistration (σ : State) (c : Client) (s : Session) : (removeRegistration σ c s).used = σ.used := by
  unfold removeRegistration; repeat' split
  all_goals rfl
theorem out_removeRegistration (σ : State) (c : Client) (s : Session) : (removeRegistration σ c s).out = σ.out := by
  unfold removeRegistration; repeat' split
  all_goals rfl

theorem mild_removeRegistration (d : Client) (σ : State) (c : Client) (s : Session) : Mild d σ (removeRegistration σ c s) :=
  mild_regs d (get_removeRegistration σ c s) (used_removeRegistration σ c s) (hung_removeRegistration σ c s)
    (out_removeRegistration σ c s)

theorem mild_handleRegister (σ : State) (c : Client) (hex : Bytes) : Mild c σ (handleRegister σ c hex) := by
  unfold handleRegister
  cases hc : σ.get c with
  | none => exact Mild.refl c σ
  | some s =>
    simp only
    repeat' split
    · exact mild_queue_ctrl _ _ _
    · exact mild_queue_ctrl _ _ _
    · exact mild_queue_ctrl _ _ _
    · refine Mild.trans ?_ (mild_queue_ctrl _ _ _)
      have m1 := mild_removeRegistration c σ c s
      have m2 : Mild c (removeRegistration σ c s)
          ((removeRegistration σ c s).put c { s with peerHex := hex.map lowerHex, state := .registered }) :=
        mild_put c (s := s) (by rw [get_removeRegistration]; exact hc) rfl (by simp)
      have m3 : Mild c ((removeRegistration σ c s).put c { s with peerHex := hex.map lowerHex, state := .registered })
          (((removeRegistration σ c s).put c { s with peerHex := hex.map lowerHex, state := .registered }).setReg
            (hex.map lowerHex) c) := mild_regs c (by simp) rfl rfl rfl
      exact (m1.trans m2).trans m3

theorem mild_handleConnect (σ : State) (c : Client) (self target : Bytes) : Mild c σ (handleConnect σ c self target) := by
  unfold handleConnect
  cases hc : σ.get c with
  | none => exact Mild.refl c σ
  | some s =>
    simp only
    split
    · exact mild_queue_ctrl _ _ _
    split
    · exact mild_queue_ctrl _ _ _
    split
    · exact mild_queue_ctrl _ _ _
    cases hf : findRegistered σ target with
    | mk σ1 r =>
      cases r with
      | none =>
        obtain ⟨hg, _, hh, hu, ho⟩ := findRegistered_none hf
        exact Mild.trans (mild_regs c hg hu hh ho) (mild_queue_ctrl _ _ _)
      | some t =>
        obtain ⟨e1, _, _⟩ := findRegistered_some hf
        have e1' := e1.symm
        subst e1'
        simp only
        refine Mild.trans ?_ (mild_queue_ctrl _ _ _)
        have m1 : Mild c σ (σ.eraseReg target) := mild_regs c (by simp) rfl rfl rfl
        have m2 : Mild c (σ.eraseReg target) ((σ.eraseReg target).put c
            { s with state := .awaitingIdentity, connectSelf := self, partner := some t }) :=
          mild_put c (s := s) (by simpa using hc) rfl (by simp)
        refine (m1.trans m2).trans ?_
        split
        next ts hts => exact mild_put c hts rfl (by simp)
        · exact Mild.refl c _

theorem mild_handleLine (σ : State) (c : Client) (line : Bytes) : Mild c σ (handleLine σ c line) := by
  unfold handleLine
  split
  · exact Mild.refl c σ
  simp only
  split
  · exact mild_handleRegister _ _ _
  split
  · split
    · exact mild_handleConnect _ _ _ _
    · exact mild_queue_ctrl _ _ _
  split
  · exact Mild.refl c σ
  · exact mild_queue_ctrl _ _ _

end EphVerif.Relay
