import EphVerif.Model.Manifest

/-! Helper lemmas for C17: each read of the decoder inverts the matching write of the encoder. -/
namespace EphVerif.Manifest
open EphVerif.Gen.C17

@[simp] theorem Res.bind_ok {α β : Type} (a : α) (f : α → Res β) : (Res.ok a).bind f = f a := rfl

theorem u8_toNat {n : Nat} (h : n ≤ 255) : (u8 n).toNat = n := by
  unfold u8
  exact UInt8.toNat_ofNat_of_lt (by simp [UInt8.size]; omega)

theorem rawByte_cons (b : UInt8) (r : Bytes) : rawByte (b :: r) = .ok (b, r) := rfl

theorem needByte_cons (b : UInt8) (r : Bytes) : needByte (b :: r) = .ok (b, r) := by
  simp [needByte, rawByte]

theorem rawTake_append {n : Nat} (x r : Bytes) (h : x.length = n) : rawTake n (x ++ r) = .ok (x, r) := by
  subst h
  simp [rawTake]

theorem needBytes_append {n : Nat} (x r : Bytes) (h : x.length = n) : needBytes n (x ++ r) = .ok (x, r) := by
  unfold needBytes
  rw [rawTake_append x r h]
  subst h
  simp

theorem needU16_append {n : Nat} (h : n ≤ 65535) (r : Bytes) : needU16 (appendU16 n ++ r) = .ok (n, r) := by
  have e : n % 65536 = n := Nat.mod_eq_of_lt (by omega)
  have h1 : UInt8.toNat (UInt8.ofNat (n / 256 % 256)) = n / 256 % 256 :=
    UInt8.toNat_ofNat_of_lt (by simp [UInt8.size]; omega)
  have h2 : UInt8.toNat (UInt8.ofNat (n % 256)) = n % 256 :=
    UInt8.toNat_ofNat_of_lt (by simp [UInt8.size]; omega)
  simp only [needU16, readU16, appendU16, e, List.cons_append, List.nil_append, List.length_cons, rawByte,
    Res.bind_ok, h1, h2]
  have : n / 256 % 256 * 256 + n % 256 = n := by omega
  simp [this]

theorem str8_append (x r : Bytes) (h : x.length ≤ 255) : str8 (u8 x.length :: (x ++ r)) = .ok (x, r) := by
  simp [str8, needByte_cons, u8_toNat h, needBytes_append x r rfl]

theorem str16_append (x r : Bytes) (h : x.length ≤ 65535) :
    str16 (appendU16 x.length ++ (x ++ r)) = .ok (x, r) := by
  simp [str16, needU16_append h, needBytes_append x r rfl]

/-! ### the expiry field -/

theorem beNat_appendU64 {v : Nat} (h : v < 18446744073709551616) : beNat (appendU64 v) = v := by
  have e : ∀ k, UInt8.toNat (UInt8.ofNat (k % 256)) = k % 256 := fun k =>
    UInt8.toNat_ofNat_of_lt (by simp [UInt8.size]; omega)
  simp only [beNat, appendU64, List.map, List.foldl, e, Nat.reducePow]
  omega

theorem toI64_toU64 {s : Int} (h : -9223372036854775808 ≤ s ∧ s ≤ 9223372036854775807) : toI64 (toU64 s) = s := by
  unfold toI64 toU64
  split <;> omega

theorem toU64_lt (s : Int) : toU64 s < 18446744073709551616 := by
  unfold toU64; omega

theorem minExpirySeconds_eq : minExpirySeconds = -9223372036 := by decide
theorem maxExpirySeconds_eq : maxExpirySeconds = 9223372036 := by decide

/-- whole seconds of an `int64` tick count: in the decoder's accepted range, and converting back
    cannot overflow -/
theorem tdiv_ns_bounds {ns : Int} (h : -9223372036854775808 ≤ ns ∧ ns ≤ 9223372036854775807) :
    -9223372036 ≤ Int.tdiv ns 1000000000 ∧ Int.tdiv ns 1000000000 ≤ 9223372036 := by
  rw [Int.tdiv_eq_ediv]
  split <;> (try simp only [Int.sign]) <;> omega

theorem appendU64_length (v : Nat) : (appendU64 v).length = 8 := by simp [appendU64]

theorem readExpiry_append {ns : Int} (h : -9223372036854775808 ≤ ns ∧ ns ≤ 9223372036854775807) (r : Bytes) :
    readExpiry (appendU64 (toU64 (Int.tdiv ns nsPerSecond)) ++ r) = .ok (Int.tdiv ns nsPerSecond * nsPerSecond, r) := by
  have hb := tdiv_ns_bounds h
  unfold readExpiry
  rw [rawTake_append _ r (appendU64_length _)]
  simp only [Res.bind_ok, beNat_appendU64 (toU64_lt _), nsPerSecond]
  rw [toI64_toU64 (by omega)]
  simp only [minExpirySeconds_eq, maxExpirySeconds_eq, secondsToTicks, int64Min, int64Max, nsPerSecond]
  have h1 : ¬ (Int.tdiv ns 1000000000 < -9223372036) := by omega
  have h2 : ¬ (Int.tdiv ns 1000000000 > 9223372036) := by omega
  have h3 : -9223372036854775808 ≤ Int.tdiv ns 1000000000 * 1000000000 ∧
      Int.tdiv ns 1000000000 * 1000000000 ≤ 9223372036854775807 := by omega
  simp [h1, h2, h3]

end EphVerif.Manifest
