import EphVerif.Lemmas.C18Base64
import EphVerif.Lemmas.C17Wire

/-! Helper lemmas for C18: every reader of the decoder answers `ok` or `invalidArg`
    (`Res.Acceptable`): the guards make the `.oob` / `.ub` answers of the raw reads unreachable. -/
namespace EphVerif.Manifest
open EphVerif.Gen.C17

theorem acc_invalidArg {α : Type} : (Res.invalidArg : Res α).Acceptable := trivial
theorem acc_ok {α : Type} (a : α) : (Res.ok a).Acceptable := trivial

theorem acc_bind {α β : Type} {r : Res α} {f : α → Res β} (hr : r.Acceptable)
    (hf : ∀ a, r = .ok a → (f a).Acceptable) : (r.bind f).Acceptable := by
  cases r with
  | ok a => exact hf a rfl
  | invalidArg => trivial
  | oob => exact hr.elim
  | ub => exact hr.elim
  | otherExc => exact hr.elim

theorem rawTake_ok {n : Nat} {s : Bytes} (h : n ≤ s.length) : rawTake n s = .ok (s.take n, s.drop n) := by
  simp [rawTake, h]

theorem rawByte_ok {s : Bytes} (h : 0 < s.length) : ∃ b r, s = b :: r ∧ rawByte s = .ok (b, r) := by
  cases s with
  | nil => simp at h
  | cons b r => exact ⟨b, r, rfl, rfl⟩

/-! ### guarded reads: acceptable, and an `ok` answer returns a suffix no longer than the input -/

theorem needByte_acc (s : Bytes) : (needByte s).Acceptable := by
  cases s <;> simp [needByte, rawByte, Res.Acceptable]

theorem needBytes_acc (n : Nat) (s : Bytes) : (needBytes n s).Acceptable := by
  unfold needBytes rawTake
  split
  · trivial
  · rename_i h; simp [Nat.le_of_not_gt h, Res.Acceptable]

theorem readU16_acc (s : Bytes) : (readU16 s).Acceptable := by
  match s with
  | [] => simp [readU16, Res.Acceptable]
  | [_] => simp [readU16, Res.Acceptable]
  | a :: b :: r => simp [readU16, rawByte, Res.Acceptable]

theorem needU16_acc (s : Bytes) : (needU16 s).Acceptable := by
  unfold needU16
  split
  · trivial
  · exact readU16_acc s

theorem str8_acc (s : Bytes) : (str8 s).Acceptable :=
  acc_bind (needByte_acc s) fun _ _ => needBytes_acc _ _

theorem str16_acc (s : Bytes) : (str16 s).Acceptable :=
  acc_bind (needU16_acc s) fun _ _ => needBytes_acc _ _

/-! ### sections -/

theorem readShards_ok : ∀ (n : Nat) (s : Bytes), n * 33 ≤ s.length → ∃ x, readShards n s = .ok x
  | 0, s, _ => ⟨_, rfl⟩
  | n + 1, s, h => by
    obtain ⟨b, r, rfl, hb⟩ := rawByte_ok (s := s) (by omega)
    have hr : 32 ≤ r.length := by simp at h; omega
    obtain ⟨x, hx⟩ := readShards_ok n (r.drop 32) (by simp at h ⊢; omega)
    exact ⟨(⟨b, r.take 32⟩ :: x.1, x.2), by simp [readShards, rawByte, shardValueSize, rawTake_ok hr, hx]⟩

theorem readShardSection_acc (n : Nat) (s : Bytes) : (readShardSection n s).Acceptable := by
  unfold readShardSection
  split
  · trivial
  · rename_i h
    obtain ⟨x, hx⟩ := readShards_ok n s (by simp [shardStride] at h; omega)
    rw [hx]; trivial

theorem readMetaEntries_acc : ∀ (n : Nat) (acc : List (Bytes × Bytes)) (s : Bytes),
    (readMetaEntries n acc s).Acceptable
  | 0, _, _ => trivial
  | n + 1, acc, s => by
    unfold readMetaEntries
    exact acc_bind (str8_acc s) fun _ _ => acc_bind (str16_acc _) fun _ _ => readMetaEntries_acc n _ _

theorem readMetaSection_acc (s : Bytes) : (readMetaSection s).Acceptable :=
  acc_bind (needByte_acc s) fun _ _ => readMetaEntries_acc _ _ _

theorem readDiscEntry_acc (v4 : Bool) (s : Bytes) : (readDiscEntry v4 s).Acceptable := by
  unfold readDiscEntry
  refine acc_bind ?_ fun _ _ => acc_bind (str8_acc _) fun _ _ => acc_bind (str16_acc _) fun _ _ =>
    acc_bind (needByte_acc _) fun _ _ => trivial
  cases v4
  · trivial
  · exact str8_acc s

theorem readDiscEntries_acc (v4 : Bool) : ∀ (n : Nat) (s : Bytes), (readDiscEntries v4 n s).Acceptable
  | 0, _ => trivial
  | n + 1, s => by
    unfold readDiscEntries
    exact acc_bind (readDiscEntry_acc v4 s) fun _ _ => acc_bind (readDiscEntries_acc v4 n _) fun _ _ => trivial

theorem readDiscSection_acc (v4 : Bool) (s : Bytes) : (readDiscSection v4 s).Acceptable :=
  acc_bind (needByte_acc s) fun _ _ => readDiscEntries_acc v4 _ _

theorem readSecurity_acc (s : Bytes) : (readSecurity s).Acceptable := by
  unfold readSecurity
  refine acc_bind (needByte_acc s) ?_
  rintro ⟨bits, s1⟩ -
  refine acc_bind (str16_acc _) ?_
  rintro ⟨adv, s2⟩ -
  refine acc_bind (needByte_acc _) ?_
  rintro ⟨flag, s3⟩ -
  dsimp only
  split
  · split
    · trivial
    · rename_i h
      rw [rawTake_ok (by simp [kAttestationDigestSize, digestArraySize] at h ⊢; omega)]
      trivial
  · trivial

theorem readFallbackEntries_acc : ∀ (n : Nat) (s : Bytes), (readFallbackEntries n s).Acceptable
  | 0, _ => trivial
  | n + 1, s => by
    unfold readFallbackEntries
    exact acc_bind (str16_acc s) fun _ _ => acc_bind (needByte_acc _) fun _ _ =>
      acc_bind (readFallbackEntries_acc n _) fun _ _ => trivial

theorem readFallbackSection_acc (s : Bytes) : (readFallbackSection s).Acceptable :=
  acc_bind (needByte_acc s) fun _ _ => readFallbackEntries_acc _ _

/-! ### the expiry field: the range check makes the clock conversion safe -/

theorem secondsToTicks_ok {secs : Int} (h : -9223372036 ≤ secs ∧ secs ≤ 9223372036) :
    secondsToTicks secs = .ok (secs * 1000000000) := by
  have : -9223372036854775808 ≤ secs * 1000000000 ∧ secs * 1000000000 ≤ 9223372036854775807 := by omega
  simp [secondsToTicks, nsPerSecond, int64Min, int64Max, this]

theorem readExpiry_cases (s : Bytes) (h : 8 ≤ s.length) :
    readExpiry s = .invalidArg ∨ ∃ ns, readExpiry s = .ok (ns, s.drop 8) := by
  unfold readExpiry
  rw [rawTake_ok h]
  simp only [Res.bind_ok, minExpirySeconds_eq, maxExpirySeconds_eq]
  split
  · exact Or.inl rfl
  · rename_i hc
    simp only [Bool.or_eq_true, decide_eq_true_eq, not_or, Int.not_lt] at hc
    rw [secondsToTicks_ok ⟨hc.1, by omega⟩]
    exact Or.inr ⟨_, rfl⟩

theorem readHeader_acc (p : Bytes) : (readHeader p).Acceptable := by
  unfold readHeader
  split
  · trivial
  · rename_i h
    have h88 : 88 ≤ p.length := by simp [headerMin, headerMinTerms] at h; omega
    obtain ⟨v, s, rfl, hv⟩ := rawByte_ok (s := p) (by omega)
    simp only [hv, Res.bind_ok]
    split
    · trivial
    · have hs : 87 ≤ s.length := by simp at h88; omega
      rw [rawTake_ok (show chunkIdSize ≤ s.length by simp [chunkIdSize]; omega)]
      simp only [Res.bind_ok]
      rw [rawTake_ok (show chunkHashSize ≤ (s.drop chunkIdSize).length by simp [chunkIdSize, chunkHashSize]; omega)]
      simp only [Res.bind_ok]
      rw [rawTake_ok (show nonceSize ≤ ((s.drop chunkIdSize).drop chunkHashSize).length by
        simp [chunkIdSize, chunkHashSize, nonceSize]; omega)]
      simp only [Res.bind_ok]
      have hl : 11 ≤ (((s.drop chunkIdSize).drop chunkHashSize).drop nonceSize).length := by
        simp [chunkIdSize, chunkHashSize, nonceSize]; omega
      generalize ((s.drop chunkIdSize).drop chunkHashSize).drop nonceSize = t at hl
      rcases readExpiry_cases t (by omega) with he | ⟨ns, he⟩
      · rw [he]; trivial
      · rw [he]
        simp only [Res.bind_ok]
        have hd : 3 ≤ (t.drop 8).length := by simp; omega
        generalize t.drop 8 = w at hd
        match w, hd with
        | a :: b :: c :: r, _ => simp [rawByte, Res.Acceptable]

/-- the binary payload parser -/
theorem decodePayload_acc (p : Bytes) : (decodePayload p).Acceptable := by
  unfold decodePayload
  refine acc_bind (readHeader_acc p) ?_
  rintro ⟨h, s⟩ -
  refine acc_bind (readShardSection_acc _ _) ?_
  rintro ⟨shards, s1⟩ -
  dsimp only
  split
  · trivial
  · refine acc_bind (readMetaSection_acc _) ?_
    rintro ⟨md, s2⟩ -
    dsimp only
    split
    · trivial
    · refine acc_bind (readDiscSection_acc _ _) ?_
      rintro ⟨disc, s3⟩ -
      refine acc_bind (readSecurity_acc _) ?_
      rintro ⟨sec, s4⟩ -
      refine acc_bind (readFallbackSection_acc _) ?_
      rintro ⟨fb, s5⟩ -
      trivial

end EphVerif.Manifest
