/-
C10: the model's `interpolateByte` (the two nested loops of `interpolate` in Shamir.cpp, with the
skip of zero-valued shares and the throwing division) computes the value at 0 of the Lagrange
interpolation polynomial, whenever the share indices are distinct.
-/
import EphVerif.Lemmas.C10Poly

namespace EphVerif.C10L
open EphVerif.Shamir Polynomial Finset

theorem foldl_range_succ {α : Type} (f : α → Nat → α) (a : α) (m : Nat) :
    (List.range (m + 1)).foldl f a = f ((List.range m).foldl f a) m := by
  rw [List.range_succ, List.foldl_append]; rfl

/-- numerator / denominator products of the `j` loop, as field elements -/
noncomputable def numF (X : Nat → GF256) (n i : Nat) : GF256 := ∏ j ∈ range n, (if i = j then 1 else X j)
noncomputable def denF (X : Nat → GF256) (n i : Nat) : GF256 := ∏ j ∈ range n, (if i = j then 1 else X j + X i)

section loops
variable (xs ys : List Nat)

local notation "X" => fun j => g (xs.getD j 0)
local notation "Y" => fun j => g (ys.getD j 0)

theorem numDen_upto (hxs : Bytes xs) (i : Nat) (m : Nat) :
    ∃ nu de, (List.range m).foldl (fun (nd : Nat × Nat) j =>
        if i = j then nd
        else (gfMul nd.1 (xs.getD j 0), gfMul nd.2 (gfAdd (xs.getD j 0) (xs.getD i 0)))) (1, 1) = (nu, de) ∧
      nu < 256 ∧ de < 256 ∧ g nu = numF X m i ∧ g de = denF X m i := by
  induction m with
  | zero => exact ⟨1, 1, rfl, by decide, by decide, by simp [numF, g_one], by simp [denF, g_one]⟩
  | succ m ih =>
    obtain ⟨nu, de, h0, h1, h2, h3, h4⟩ := ih
    rw [foldl_range_succ, h0]
    by_cases him : i = m
    · refine ⟨nu, de, by simp [him], h1, h2, ?_, ?_⟩
      · rw [numF, prod_range_succ, if_pos him, mul_one]; exact h3
      · rw [denF, prod_range_succ, if_pos him, mul_one]; exact h4
    · have hx := getD_lt hxs m
      have hxi := getD_lt hxs i
      refine ⟨gfMul nu (xs.getD m 0), gfMul de (gfAdd (xs.getD m 0) (xs.getD i 0)), by simp only [if_neg him],
        gfMul_lt _ _, gfMul_lt _ _, ?_, ?_⟩
      · rw [numF, prod_range_succ, if_neg him, g_mul h1 hx, h3]; rfl
      · rw [denF, prod_range_succ, if_neg him, gfAdd, g_mul h2 (xor_lt hx hxi), g_xor hx hxi, h4]; rfl

theorem numDen_spec (hxs : Bytes xs) (i : Nat) :
    ∃ nu de, numDen xs i (xs.getD i 0) = (nu, de) ∧ nu < 256 ∧ de < 256 ∧
      g nu = numF X xs.length i ∧ g de = denF X xs.length i :=
  numDen_upto xs hxs i xs.length

theorem interp_upto (hxs : Bytes xs) (hys : Bytes ys) (m : Nat)
    (hden : ∀ i, i < m → denF X xs.length i ≠ 0) :
    ∃ v, (List.range m).foldl (interpStep xs ys) (.ok 0) = .ok v ∧ v < 256 ∧
      g v = ∑ i ∈ range m, Y i * (numF X xs.length i / denF X xs.length i) := by
  induction m with
  | zero => exact ⟨0, rfl, by decide, by simp [g_zero]⟩
  | succ m ih =>
    obtain ⟨v, h0, h1, h2⟩ := ih (fun i hi => hden i (by omega))
    rw [foldl_range_succ, h0, sum_range_succ, ← h2]
    simp only [interpStep]
    by_cases hy : ys.getD m 0 = 0
    · refine ⟨v, by rw [if_pos hy], h1, ?_⟩
      show g v = g v + g (ys.getD m 0) * _
      rw [hy, g_zero, zero_mul, add_zero]
    · obtain ⟨nu, de, e0, e1, e2, e3, e4⟩ := numDen_spec xs hxs m
      have hde : de ≠ 0 := by
        intro h
        apply hden m (by omega)
        rw [← e4, h, g_zero]
      have hym := getD_lt hys m
      refine ⟨v ^^^ gfMul (ys.getD m 0) (gfMul nu (gfInv de)), ?_, xor_lt h1 (gfMul_lt _ _), ?_⟩
      · simp only [if_neg hy, e0, gfDiv_eq e1 e2 hde, gfAdd]
      · rw [g_xor h1 (gfMul_lt _ _), g_mul hym (gfMul_lt _ _), g_mul e1 (gfInv_lt _), g_inv e2, e3, e4, div_eq_mul_inv]

end loops

/-! ### the double product is Lagrange's basis polynomial at 0 -/

theorem prod_ite_eq_prod_erase (s : Finset ℕ) (i : ℕ) (f : ℕ → GF256) :
    ∏ j ∈ s, (if i = j then 1 else f j) = ∏ j ∈ s.erase i, f j := by
  rw [← prod_erase s (a := i) (f := fun j => if i = j then 1 else f j) (by simp)]
  apply prod_congr rfl
  intro j hj
  rw [if_neg (fun h => (mem_erase.1 hj).1 h.symm)]

theorem eval_zero_interpolate (X Y : ℕ → GF256) (n : ℕ) :
    (Lagrange.interpolate (range n) X Y).eval 0 = ∑ i ∈ range n, Y i * (numF X n i / denF X n i) := by
  rw [Lagrange.interpolate_apply, eval_finsetSum]
  apply sum_congr rfl
  intro i _
  rw [eval_mul, eval_C, Lagrange.basis, eval_prod, numF, denF, prod_ite_eq_prod_erase, prod_ite_eq_prod_erase,
    div_eq_mul_inv, ← prod_inv_distrib, ← prod_mul_distrib]
  congr 1
  apply prod_congr rfl
  intro j _
  simp only [Lagrange.basisDivisor, eval_mul, eval_C, eval_sub, eval_X, gf_sub, zero_add]
  rw [mul_comm, add_comm]

theorem denF_ne_zero (X : ℕ → GF256) (n : ℕ) (hinj : Set.InjOn X (range n : Finset ℕ)) (i : ℕ) (hi : i < n) :
    denF X n i ≠ 0 := by
  rw [denF, prod_ne_zero_iff]
  intro j hj
  split
  · exact one_ne_zero
  · rename_i hne
    intro h
    exact hne (hinj (by simpa using hi) hj (gf_add_eq_zero.1 h).symm)

theorem injOn_of_nodup {xs : List Nat} (hxs : Bytes xs) (hnd : xs.Nodup) :
    Set.InjOn (fun j => g (xs.getD j 0)) (range xs.length : Finset ℕ) := by
  intro i hi j hj h
  have hi : i < xs.length := by simpa using hi
  have hj : j < xs.length := by simpa using hj
  have := g_inj (getD_lt hxs i) (getD_lt hxs j) h
  rw [List.getD_eq_getElem?_getD, List.getD_eq_getElem?_getD, List.getElem?_eq_getElem hi, List.getElem?_eq_getElem hj,
    Option.getD_some, Option.getD_some] at this
  exact (hnd.getElem_inj_iff).1 this

/-- If the points `(xs[i], ys[i])` (distinct abscissae) lie on a polynomial `f` of degree `< |xs|`, the two loops of
    `interpolate` return `f(0)` and do not throw. -/
theorem interpolateByte_of_poly {xs ys : List Nat} (hxs : Bytes xs) (hys : Bytes ys) (hnd : xs.Nodup)
    (f : GF256[X]) (hdeg : f.degree < xs.length)
    (hev : ∀ i, i < xs.length → f.eval (g (xs.getD i 0)) = g (ys.getD i 0)) :
    ∃ v, interpolateByte xs ys = .ok v ∧ v < 256 ∧ g v = f.eval 0 := by
  have hinj := injOn_of_nodup hxs hnd
  obtain ⟨v, h0, h1, h2⟩ := interp_upto xs ys hxs hys xs.length (fun i hi => denF_ne_zero _ _ hinj i hi)
  refine ⟨v, h0, h1, ?_⟩
  have hf := Lagrange.eq_interpolate_of_eval_eq (s := range xs.length) (fun j => g (ys.getD j 0)) hinj
    (by simpa using hdeg) (fun i hi => hev i (by simpa using hi))
  rw [h2, ← eval_zero_interpolate, ← hf]

end EphVerif.C10L
