import EphVerif.Model.Swarm

namespace EphVerif.Swarm

theorem mem_slots {s n i j : Nat} : j ∈ slots s n i ↔ j < s ∧ j % n = i := by
  simp [slots]

theorem slots_succ (s n i : Nat) :
    slots (s + 1) n i = slots s n i ++ (if s % n = i then [s] else []) := by
  unfold slots
  rw [List.range_succ, List.filter_append]
  by_cases h : s % n = i <;> simp [h]

theorem slots_length_succ (s n i : Nat) :
    (slots (s + 1) n i).length = (slots s n i).length + (if s % n = i then 1 else 0) := by
  rw [slots_succ]
  by_cases h : s % n = i <;> simp [h]

/-- the round-robin invariant: with `s = n*q + r`, `r < n`, provider `i` holds `q` shards,
    plus one if `i < r` -/
theorem slots_inv (n : Nat) (hn : 0 < n) (s : Nat) :
    ∃ q r, r < n ∧ s = n * q + r ∧
      ∀ i, i < n → (slots s n i).length = q + (if i < r then 1 else 0) := by
  induction s with
  | zero =>
    refine ⟨0, 0, hn, by simp, ?_⟩
    intro i _
    simp [slots]
  | succ s ih =>
    obtain ⟨q, r, hr, hs, hc⟩ := ih
    have hmod : s % n = r := by
      rw [hs, Nat.mul_add_mod]
      exact Nat.mod_eq_of_lt hr
    by_cases hlast : r + 1 < n
    · refine ⟨q, r + 1, hlast, by omega, ?_⟩
      intro i hi
      rw [slots_length_succ, hc i hi, hmod]
      by_cases h1 : i < r
      · have : ¬ r = i := by omega
        have : i < r + 1 := by omega
        simp [*]
      · by_cases h2 : r = i
        · subst h2
          simp
        · have : ¬ i < r + 1 := by omega
          simp [*]
    · have hrn : r + 1 = n := by omega
      refine ⟨q + 1, 0, hn, ?_, ?_⟩
      · rw [Nat.mul_add, Nat.mul_one]
        omega
      · intro i hi
        rw [slots_length_succ, hc i hi, hmod]
        by_cases h1 : i < r
        · have : ¬ r = i := by omega
          simp [*]
        · have : r = i := by omega
          subst this
          simp

theorem slots_balanced (s n i k : Nat) (hi : i < n) (hk : k < n) :
    (slots s n i).length ≤ (slots s n k).length + 1 := by
  obtain ⟨q, r, _, _, hc⟩ := slots_inv n (by omega) s
  rw [hc i hi, hc k hk]
  split <;> split <;> omega

theorem slots_nonempty (s n i : Nat) (hi : i < n) (hns : n ≤ s) : 1 ≤ (slots s n i).length := by
  obtain ⟨q, r, hr, hs, hc⟩ := slots_inv n (by omega) s
  rw [hc i hi]
  have : q ≠ 0 := by
    intro h
    subst h
    simp at hs
    omega
  omega

end EphVerif.Swarm
