/-
C10: for `k` distinct non-zero abscissae and a fixed constant term, coefficient vectors of length `k`
and share-value vectors of length `k` correspond one to one.
-/
import EphVerif.Lemmas.C10Combine

namespace EphVerif.C10L
open EphVerif.Shamir Polynomial Finset

theorem polyOfList_inj {a : GF256} {cs cs' : List Nat} (h1 : Bytes cs) (h2 : Bytes cs') (hl : cs'.length = cs.length)
    (h : polyOfList (a :: cs'.map g) = polyOfList (a :: cs.map g)) : cs' = cs := by
  apply List.ext_getElem hl
  intro m hm' hm
  have := congrArg (fun p => p.coeff (m + 1)) h
  simp only [coeff_polyOfList, List.getD_eq_getElem?_getD, List.getElem?_cons_succ, List.getElem?_map,
    List.getElem?_eq_getElem hm, List.getElem?_eq_getElem hm', Option.map_some, Option.getD_some] at this
  exact g_inj (h2 _ (List.getElem_mem hm')) (h1 _ (List.getElem_mem hm)) this

/-- the points a coefficient list has to meet: (0, s) and (xs[i], vs[i]) -/
theorem poly_through_of_values {xs vs cs : List Nat} {s : Nat} (hx : Bytes xs) (hs : s < 256) (hc : Bytes cs)
    (hval : xs.map (fun x => evalPoly x s cs) = vs) :
    ∀ j, j < xs.length + 1 →
      (polyOfList (g s :: cs.map g)).eval (g ((0 :: xs).getD j 0)) = g ((s :: vs).getD j 0)
  | 0, _ => by simp [polyOfList, g_zero]
  | i + 1, hi => by
    have hi : i < xs.length := by omega
    have hxi : xs[i] < 256 := hx _ (List.getElem_mem hi)
    have hv : vs.getD i 0 = evalPoly xs[i] s cs := by
      rw [← hval, getD_map_of_lt _ _ hi]
    simp only [List.getD_eq_getElem?_getD, List.getElem?_cons_succ] at hv ⊢
    rw [hv, List.getElem?_eq_getElem hi, Option.getD_some, evalPoly_g hxi hs hc]

theorem secrecy_core {xs : List Nat} (hx : Bytes xs) (hnd : xs.Nodup) (h0 : 0 ∉ xs) {s : Nat} (hs : s < 256)
    {vs : List Nat} (hlen : vs.length = xs.length) (hvs : Bytes vs) :
    ∃ cs, (cs.length = xs.length ∧ Bytes cs ∧ xs.map (fun x => evalPoly x s cs) = vs) ∧
      ∀ cs', cs'.length = xs.length → Bytes cs' → xs.map (fun x => evalPoly x s cs') = vs → cs' = cs := by
  have hz : Bytes (0 :: xs) := Bytes.cons.2 ⟨by decide, hx⟩
  have hznd : (0 :: xs).Nodup := List.nodup_cons.2 ⟨h0, hnd⟩
  have hinj := injOn_of_nodup hz hznd
  rw [List.length_cons] at hinj
  let Z : ℕ → GF256 := fun j => g ((0 :: xs).getD j 0)
  let W : ℕ → GF256 := fun j => g ((s :: vs).getD j 0)
  let p : GF256[X] := Lagrange.interpolate (range (xs.length + 1)) Z W
  have hdeg : p.degree < (xs.length + 1 : ℕ) := by
    have := Lagrange.degree_interpolate_lt (r := W) hinj
    rwa [card_range] at this
  have hnode : ∀ j, j < xs.length + 1 → p.eval (Z j) = W j :=
    fun j hj => Lagrange.eval_interpolate_at_node W hinj (mem_range.2 hj)
  -- any admissible coefficient list spells out `p`
  have huniq : ∀ cs', cs'.length = xs.length → Bytes cs' → xs.map (fun x => evalPoly x s cs') = vs →
      polyOfList (g s :: cs'.map g) = p := by
    intro cs' hl hb hval
    apply Lagrange.eq_interpolate_of_eval_eq W hinj
    · have := degree_polyOfList_lt (g s :: cs'.map g)
      rw [card_range]
      simpa [hl] using this
    · intro j hj
      exact poly_through_of_values hx hs hb hval j (mem_range.1 hj)
  -- the coefficient list of `p`
  let cs : List Nat := (List.range xs.length).map fun j => (p.coeff (j + 1)).val
  have hcl : cs.length = xs.length := by simp [cs]
  have hcb : Bytes cs := by
    intro v hv
    obtain ⟨j, _, rfl⟩ := List.mem_map.1 hv
    exact (p.coeff (j + 1)).lt
  have hp : polyOfList (g s :: cs.map g) = p := by
    ext m
    rw [coeff_polyOfList]
    cases m with
    | zero =>
      have := hnode 0 (by omega)
      simp only [Z, W, List.getD_cons_zero, g_zero] at this
      rw [List.getD_cons_zero, coeff_zero_eq_eval_zero, this]
    | succ m =>
      rw [List.getD_cons_succ]
      by_cases hm : m < xs.length
      · rw [List.getD_eq_getElem?_getD, List.getElem?_eq_getElem (by simp [cs, hm])]
        simp [cs, g_val]
      · rw [List.getD_eq_getElem?_getD, List.getElem?_eq_none (by simp [cs]; omega)]
        symm
        apply coeff_eq_zero_of_degree_lt
        refine lt_of_lt_of_le hdeg ?_
        exact_mod_cast (by omega : xs.length + 1 ≤ m + 1)
  have hval : xs.map (fun x => evalPoly x s cs) = vs := by
    apply List.ext_getElem (by simp [hlen])
    intro i h1 h2
    have hi : i < xs.length := by simpa using h1
    have hxi : xs[i] < 256 := hx _ (List.getElem_mem hi)
    rw [List.getElem_map]
    apply g_inj (evalPoly_lt hs) (hvs _ (List.getElem_mem h2))
    have := hnode (i + 1) (by omega)
    simp only [Z, W, List.getD_eq_getElem?_getD, List.getElem?_cons_succ, List.getElem?_eq_getElem hi,
      List.getElem?_eq_getElem h2, Option.getD_some] at this
    rw [evalPoly_g hxi hs hcb, hp, this]
  refine ⟨cs, ⟨hcl, hcb, hval⟩, ?_⟩
  intro cs' hl hb hv'
  exact polyOfList_inj hcb hb (hl.trans hcl.symm) ((huniq cs' hl hb hv').trans hp.symm)

end EphVerif.C10L
