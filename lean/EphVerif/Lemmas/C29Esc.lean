/-
`encode_field_value` / `decode_field_value`, line splitting and field-map bookkeeping (C29).
-/
import EphVerif.Lemmas.C29Dec
import EphVerif.Lemmas.C27Lines

namespace EphVerif.Control

/-! ## escaping of one line of a value -/

def escByte (c : UInt8) : Bytes := if c = 92 then [92, 92] else if c = 13 then [92, 114] else [c]

/-- `encode_field_value` on a piece without LF -/
def escSeg (s : Bytes) : Bytes := s.flatMap escByte

def NoLF (s : Bytes) : Prop := ∀ c ∈ s, c ≠ 10

theorem flatMap_congr' {α β : Type} (f g : α → List β) : ∀ (l : List α), (∀ a ∈ l, f a = g a) → l.flatMap f = l.flatMap g
  | [], _ => rfl
  | a :: l, h => by
    simp only [List.flatMap_cons]
    rw [h a (by simp), flatMap_congr' f g l (fun x hx => h x (by simp [hx]))]

theorem encodeValue_noLF {s : Bytes} (h : NoLF s) : encodeValue s = escSeg s := by
  unfold encodeValue escSeg
  apply flatMap_congr'
  intro c hc
  have := h c hc
  simp [escByte, this]

theorem encodeValue_append_lf (s v : Bytes) (h : NoLF s) :
    encodeValue (s ++ 10 :: v) = escSeg s ++ 10 :: 9 :: encodeValue v := by
  have h1 : encodeValue (s ++ 10 :: v) = encodeValue s ++ encodeValue (10 :: v) := by
    unfold encodeValue; rw [List.flatMap_append]
  rw [h1, encodeValue_noLF h]
  congr 1

theorem escSeg_clean {s : Bytes} (h : NoLF s) : ∀ c ∈ escSeg s, c ≠ 10 ∧ c ≠ 13 := by
  intro c hc
  unfold escSeg at hc
  rw [List.mem_flatMap] at hc
  obtain ⟨a, ha, hca⟩ := hc
  have ha10 := h a ha
  unfold escByte at hca
  split at hca
  · simp at hca; rcases hca with rfl <;> decide
  · split at hca
    · simp at hca; rcases hca with rfl | rfl <;> decide
    · rename_i h13
      simp at hca; subst hca; exact ⟨ha10, h13⟩

theorem decodeValue_escSeg : ∀ (s : Bytes), decodeValue (escSeg s) = s
  | [] => by simp [escSeg, decodeValue]
  | c :: s => by
    have ih := decodeValue_escSeg s
    have hc : escSeg (c :: s) = escByte c ++ escSeg s := by simp [escSeg]
    rw [hc]
    unfold escByte
    by_cases h92 : c = 92
    · subst h92
      simp only [↓reduceIte, List.cons_append, List.nil_append]
      rw [decodeValue]
      simp [ih]
    · by_cases h13 : c = 13
      · subst h13
        simp only [show (13 : UInt8) ≠ 92 by decide, ↓reduceIte, List.cons_append, List.nil_append]
        rw [decodeValue]
        simp [ih]
      · simp only [h92, h13, ↓reduceIte, List.cons_append, List.nil_append]
        cases hs : escSeg s with
        | nil =>
          rw [hs] at ih
          simp only [decodeValue] at ih ⊢
          rw [← ih]
        | cons d r =>
          rw [decodeValue]
          simp only [h92, false_and, ↓reduceIte]
          rw [← hs, ih]

/-- bytes without a backslash decode to themselves -/
theorem decodeValue_id : ∀ (s : Bytes), (∀ c ∈ s, c ≠ 92) → decodeValue s = s
  | [], _ => by simp [decodeValue]
  | [c], _ => by simp [decodeValue]
  | c :: d :: r, h => by
    have hc : c ≠ 92 := h c (by simp)
    rw [decodeValue]
    simp only [hc, false_and, ↓reduceIte]
    rw [decodeValue_id (d :: r) (fun x hx => h x (by simp [hx]))]

/-! ## splitting -/

theorem splitBy_noSep (sep : UInt8) : ∀ (a acc : Bytes), (∀ c ∈ a, c ≠ sep) → splitBy sep a acc = [acc.reverse ++ a]
  | [], acc, _ => by simp [splitBy]
  | c :: a, acc, h => by
    have hc : c ≠ sep := h c (by simp)
    rw [splitBy]
    simp only [hc, ↓reduceIte]
    rw [splitBy_noSep sep a (c :: acc) (fun x hx => h x (by simp [hx]))]
    simp

theorem splitBy_append (sep : UInt8) : ∀ (a b acc : Bytes), (∀ c ∈ a, c ≠ sep) →
    splitBy sep (a ++ sep :: b) acc = (acc.reverse ++ a) :: splitBy sep b []
  | [], b, acc, _ => by simp [splitBy]
  | c :: a, b, acc, h => by
    have hc : c ≠ sep := h c (by simp)
    rw [List.cons_append, splitBy]
    simp only [hc, ↓reduceIte]
    rw [splitBy_append sep a b (c :: acc) (fun x hx => h x (by simp [hx]))]
    simp

theorem splitColon_append : ∀ (k x : Bytes), (∀ c ∈ k, c ≠ 58) → splitColon (k ++ 58 :: x) = some (k, x)
  | [], x, _ => by simp [splitColon]
  | c :: k, x, h => by
    have hc : c ≠ 58 := h c (by simp)
    rw [List.cons_append, splitColon]
    simp only [hc, ↓reduceIte]
    rw [splitColon_append k x (fun y hy => h y (by simp [hy]))]

theorem stripCR_id {l : Bytes} (h : ∀ c ∈ l, c ≠ 13) : stripCR l = l := by
  unfold stripCR
  rw [List.filter_eq_self]
  intro c hc
  simpa using h c hc

/-! ## field maps -/

theorem hasKey_false_iff {fs : Fields} {k : Bytes} : hasKey fs k = false ↔ ∀ p ∈ fs, p.1 ≠ k := by
  unfold hasKey
  rw [List.any_eq_false]
  constructor
  · intro h p hp; simpa using h p hp
  · intro h p hp; simpa using h p hp

theorem setField_fresh {fs : Fields} {k v : Bytes} (h : ∀ p ∈ fs, p.1 ≠ k) : setField fs k v = fs ++ [(k, v)] := by
  unfold setField
  rw [hasKey_false_iff.mpr h]
  simp

theorem appendToField_setField_fresh {fs : Fields} {k v extra : Bytes} (h : ∀ p ∈ fs, p.1 ≠ k) :
    appendToField (fs ++ [(k, v)]) k extra = fs ++ [(k, v ++ extra)] := by
  unfold appendToField
  rw [List.map_append]
  congr 1
  · have : fs.map (fun p => if p.1 == k then (p.1, p.2 ++ extra) else p) = fs.map id := by
      apply List.map_congr_left
      intro p hp
      have : (p.1 == k) = false := by simpa using h p hp
      simp [this]
    rw [this, List.map_id]
  · simp

end EphVerif.Control
