/-
The generator 5 of `KeyExchange` has multiplicative order 195225786 = (p − 1)/11 modulo
p = 2^31 − 1: it is **not** a primitive root.  Consequently `compute_public s = 5^s mod p` equals 1
exactly for the scalars `s` that are multiples of 195225786, and is never 0.  Inside the range
[2, p − 2] from which `generate_identity_scalar` draws, these are the ten scalars
k · 195225786, k = 1 … 10: a node with such a scalar has public key 1, which `validate_public`
refuses.

The modular powers are evaluated by the kernel through C12's model of `KeyExchange::modexp`
(`C12.modexp_spec`); the order argument uses Mathlib's `orderOf` in `ZMod p`.
-/
import Mathlib.GroupTheory.OrderOfElement
import Mathlib.Data.ZMod.Basic
import Mathlib.Tactic.NormNum.Prime
import EphVerif.Proofs.C12

namespace EphVerif.SysHsL
open EphVerif.Kex

/-- the order of 5 -/
def ord5 : Nat := 195225786

theorem ord5_eq : ord5 = 2 * 3 * 3 * 7 * 31 * 151 * 331 := by decide
theorem ord5_index : ord5 * 11 = Spec.Kex.p - 1 := by decide

private abbrev P : Nat := 2147483647

/-- `5^e mod p` through the verified `modexp` -/
theorem pow5_mod (e : Nat) (he : e < 2 ^ 32) : 5 ^ e % P = modexp 5 e P :=
  (C12.modexp_spec 5 e P (by decide) (by decide) he).symm

theorem pow5_ord : 5 ^ ord5 % P = 1 := by
  rw [pow5_mod _ (by decide)]; decide +kernel

theorem pow5_ord_div : ∀ q ∈ [2, 3, 7, 31, 151, 331], 5 ^ (ord5 / q) % P ≠ 1 := by
  intro q hq
  simp only [List.mem_cons, List.not_mem_nil, or_false] at hq
  rcases hq with rfl | rfl | rfl | rfl | rfl | rfl <;>
    (rw [pow5_mod _ (by decide)]; decide +kernel)

theorem prime_factor_ord5 (q : Nat) (hq : q.Prime) (hd : q ∣ ord5) : q ∈ [2, 3, 7, 31, 151, 331] := by
  rw [ord5_eq] at hd
  have p2 : Nat.Prime 2 := by norm_num
  have p3 : Nat.Prime 3 := by norm_num
  have p7 : Nat.Prime 7 := by norm_num
  have p31 : Nat.Prime 31 := by norm_num
  have p151 : Nat.Prime 151 := by norm_num
  have p331 : Nat.Prime 331 := by norm_num
  simp only [hq.dvd_mul, Nat.prime_dvd_prime_iff_eq hq p2, Nat.prime_dvd_prime_iff_eq hq p3,
    Nat.prime_dvd_prime_iff_eq hq p7, Nat.prime_dvd_prime_iff_eq hq p31, Nat.prime_dvd_prime_iff_eq hq p151,
    Nat.prime_dvd_prime_iff_eq hq p331] at hd
  simp only [List.mem_cons, List.not_mem_nil, or_false]
  omega

private theorem cast_pow_eq_one (e : Nat) : ((5 : ℕ) : ZMod P) ^ e = 1 ↔ 5 ^ e % P = 1 := by
  rw [← Nat.cast_pow, ← Nat.cast_one (R := ZMod P), ZMod.natCast_eq_natCast_iff']
  have : 1 % P = 1 := by decide
  rw [this]

theorem orderOf_five : orderOf ((5 : ℕ) : ZMod P) = ord5 := by
  apply orderOf_eq_of_pow_and_pow_div_prime (by decide)
  · exact (cast_pow_eq_one _).mpr pow5_ord
  · intro q hq hd h
    exact pow5_ord_div q (prime_factor_ord5 q hq hd) ((cast_pow_eq_one _).mp h)

/-- `5^s ≡ 1 (mod p)` exactly for the multiples of the order -/
theorem pow5_eq_one_iff (s : Nat) : 5 ^ s % P = 1 ↔ ord5 ∣ s := by
  rw [← cast_pow_eq_one, ← orderOf_five, orderOf_dvd_iff_pow_eq_one]

/-- `5^s` is never divisible by `p` (5 is invertible: `5^ord5 ≡ 1`) -/
theorem pow5_ne_zero (s : Nat) : 5 ^ s % P ≠ 0 := by
  intro h
  have : Fact (1 < P) := ⟨by decide⟩
  have hx : ((5 : ℕ) : ZMod P) ^ s = 0 := by
    rw [← Nat.cast_pow, ← Nat.cast_zero (R := ZMod P), ZMod.natCast_eq_natCast_iff']
    simpa using h
  have h1 : (((5 : ℕ) : ZMod P) ^ ord5) ^ s = 1 := by
    rw [(cast_pow_eq_one _).mpr pow5_ord, one_pow]
  have h0 : (((5 : ℕ) : ZMod P) ^ ord5) ^ s = 0 := by
    rw [← pow_mul, mul_comm, pow_mul, hx, zero_pow (by decide)]
  exact zero_ne_one (h0.symm.trans h1)

/-- **the public key of a scalar is acceptable unless the scalar is a multiple of the order of 5** -/
theorem validate_computePublic_iff (s : Nat) (hs : s < 2 ^ 32) :
    validatePublic (computePublic s) = true ↔ ¬ ord5 ∣ s := by
  rw [C12.validate, C12.computePublic_spec s hs]
  unfold Spec.Kex.acceptable Spec.Kex.pub Spec.Kex.powMod
  show (1 < 5 ^ s % P ∧ 5 ^ s % P < P) ↔ _
  rw [← pow5_eq_one_iff]
  have h0 := pow5_ne_zero s
  have hlt : 5 ^ s % P < P := Nat.mod_lt _ (by decide)
  omega

/-- the scalars of the identity range [2, p−2] whose public key is refused: exactly the ten
    multiples `k · 195225786`, `k = 1 … 10` -/
theorem excluded_scalars (s : Nat) (h2 : 2 ≤ s) (hp : s ≤ Spec.Kex.p - 2) :
    validatePublic (computePublic s) = false ↔ ∃ k, 1 ≤ k ∧ k ≤ 10 ∧ s = k * ord5 := by
  have hs : s < 2 ^ 32 := by
    have : Spec.Kex.p = 2147483647 := rfl
    omega
  have hiff := validate_computePublic_iff s hs
  have hp' : Spec.Kex.p = 2147483647 := rfl
  constructor
  · intro hf
    have hd : ord5 ∣ s := by
      by_contra hnd
      rw [hiff.mpr hnd] at hf; exact absurd hf (by decide)
    obtain ⟨k, rfl⟩ := hd
    refine ⟨k, ?_, ?_, Nat.mul_comm _ _⟩ <;> (unfold ord5 at *; omega)
  · rintro ⟨k, _, _, rfl⟩
    cases hv : validatePublic (computePublic (k * ord5)) with
    | false => rfl
    | true => exact absurd (Dvd.intro_left k rfl) (hiff.mp hv)

end EphVerif.SysHsL
