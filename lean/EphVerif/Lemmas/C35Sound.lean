/-
C35 — soundness of the may-analysis: a post-fixpoint `S` of the facts-free analysis bounds the
exception classes that can leave any function, for every assignment of facts and every call depth.
Independent of the generated table.  Also: the two facts about serial accept loops behind `C35_partial`.
-/
import EphVerif.Model.Escape

namespace EphVerif.Escape
open EphVerif.Gen.C35

theorem mem_stepEsc_mono {facts : Facts} {callee : Nat → List Exc} {S : List (List Exc)}
    (h : ∀ f e, e ∈ callee f → e ∈ S.getD f []) {st : Step} {e : Exc}
    (he : e ∈ stepEsc facts callee st) : e ∈ stepEsc allFire (fun g => S.getD g []) st := by
  cases st with
  | prim s x g =>
    simp only [stepEsc] at he ⊢
    split at he
    · rename_i hc
      simp only [Bool.and_eq_true] at hc
      simp only [allFire, Bool.true_and, hc.2, if_true]
      exact he
    · cases he
  | call f g =>
    simp only [stepEsc, List.mem_filter] at he ⊢
    exact ⟨h f e he.1, he.2⟩

/-- what leaves a function is inside any post-fixpoint of the analysis -/
theorem escFn_subset (table : List (List Step)) (S : List (List Exc)) (hS : isPostFix table S = true)
    (facts : Facts) : ∀ (fuel f : Nat) (e : Exc), e ∈ escFn table facts fuel f → e ∈ S.getD f [] := by
  intro fuel
  induction fuel with
  | zero => intro f e he; simp [escFn] at he
  | succ n ih =>
    intro f e he
    simp only [escFn, List.mem_flatMap] at he
    obtain ⟨st, hst, hes⟩ := he
    have hes' := mem_stepEsc_mono (S := S) (fun g x hx => ih g x hx) hes
    by_cases hf : f < table.length
    · simp only [isPostFix, List.all_eq_true, List.mem_range] at hS
      have := hS f hf e (List.mem_flatMap.2 ⟨st, hst, hes'⟩)
      simpa using this
    · have : table.getD f [] = [] := by
        simp [List.getD, List.getElem?_eq_none (Nat.le_of_not_lt hf)]
      rw [this] at hst
      cases hst

/-- a boundary whose set in a post-fixpoint is empty survives every delivery -/
theorem outcome_survives (table : List (List Step)) (S : List (List Exc)) (hS : isPostFix table S = true)
    (root : Nat) (hr : (S.getD root []).isEmpty = true) (facts : Facts) (fuel : Nat) :
    outcome table facts fuel root = .survives := by
  have hnil : escFn table facts fuel root = [] := by
    cases h : escFn table facts fuel root with
    | nil => rfl
    | cons e rest =>
      have := escFn_subset table S hS facts fuel root e (by rw [h]; exact List.mem_cons_self)
      rw [List.isEmpty_iff.1 hr] at this
      cases this
  simp [outcome, hnil]

/-! ### serial accept loops -/

theorem pickedUpAt_well_behaved (cs : List Conn) (h : ∀ c ∈ cs, c.wellBehaved = true) (b : Bounds) :
    ∀ k, (pickedUpAt b cs k).isSome = true := by
  induction cs with
  | nil => intro k; cases k <;> rfl
  | cons c rest ih =>
    intro k
    cases k with
    | zero => rfl
    | succ k =>
      have hc := h c List.mem_cons_self
      have hr := ih (fun x hx => h x (List.mem_cons_of_mem _ hx)) k
      cases c with
      | stalls s w => cases hc
      | completes w =>
        simp only [pickedUpAt, holdTime]
        cases hp : pickedUpAt b rest k with
        | none => rw [hp] at hr; cases hr
        | some t => rfl

/-- with every blocking step bounded by `T`, every client is reached, after at most `k · (T + B)` when no
    request costs more than `B` -/
theorem pickedUpAt_bounded (T B : Nat) (b : Bounds) (hb : ∀ s, b s = some T) (cs : List Conn)
    (hB : ∀ c ∈ cs, c.work ≤ B) : ∀ k, ∃ t, pickedUpAt b cs k = some t ∧ t ≤ k * (T + B) := by
  induction cs with
  | nil => intro k; cases k <;> exact ⟨0, rfl, Nat.zero_le _⟩
  | cons c rest ih =>
    intro k
    cases k with
    | zero => exact ⟨0, rfl, Nat.zero_le _⟩
    | succ k =>
      obtain ⟨t, ht, hle⟩ := ih (fun x hx => hB x (List.mem_cons_of_mem _ hx)) k
      have hw := hB c List.mem_cons_self
      cases c with
      | completes w =>
        refine ⟨w + t, by simp [pickedUpAt, holdTime, ht], ?_⟩
        simp only [Conn.work] at hw
        rw [Nat.succ_mul]; omega
      | stalls s w =>
        refine ⟨w + T + t, by simp [pickedUpAt, holdTime, ht, hb s], ?_⟩
        simp only [Conn.work] at hw
        rw [Nat.succ_mul]; omega

end EphVerif.Escape
