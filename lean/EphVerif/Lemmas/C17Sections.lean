import EphVerif.Lemmas.C17Wire

/-! Helper lemmas for C17: each section reader inverts the matching section writer. -/
namespace EphVerif.Manifest
open EphVerif.Gen.C17

/-! ### shards -/

theorem encShards_length (ss : List KeyShard) (h : ∀ s ∈ ss, s.value.length = 32) :
    (ss.flatMap encShard).length = ss.length * 33 := by
  induction ss with
  | nil => simp
  | cons s ss ih =>
    have hs := h s (by simp)
    have := ih (fun x hx => h x (by simp [hx]))
    simp [encShard, hs, this]; omega

theorem readShards_append (ss : List KeyShard) (h : ∀ s ∈ ss, s.value.length = 32) (r : Bytes) :
    readShards ss.length (ss.flatMap encShard ++ r) = .ok (ss, r) := by
  induction ss with
  | nil => simp [readShards]
  | cons s ss ih =>
    have hs := h s (by simp)
    have := ih (fun x hx => h x (by simp [hx]))
    simp only [List.length_cons, List.flatMap_cons, encShard, List.cons_append, List.append_assoc, readShards,
      rawByte_cons, Res.bind_ok]
    rw [rawTake_append s.value _ (by simp [shardValueSize, hs])]
    simp [this]

theorem readShardSection_append (ss : List KeyShard) (h : ∀ s ∈ ss, s.value.length = 32) (r : Bytes) :
    readShardSection ss.length (ss.flatMap encShard ++ r) = .ok (ss, r) := by
  unfold readShardSection
  -- the guard only has to let complete shard lists through: any stride up to the real 33 does
  have hstride : shardStride ≤ 33 := by decide
  have : ¬ (ss.length * shardStride > (ss.flatMap encShard ++ r).length) := by
    have := Nat.mul_le_mul_left ss.length hstride
    simp [encShards_length ss h]; omega
  simp only [this, if_false]
  exact readShards_append ss h r

/-! ### metadata -/

theorem bytesLt_asymm : ∀ (a b : Bytes), bytesLt a b = true → bytesLt b a = false
  | [], [], h => by simp [bytesLt] at h
  | [], _ :: _, _ => by simp [bytesLt]
  | _ :: _, [], h => by simp [bytesLt] at h
  | x :: xs, y :: ys, h => by
    simp only [bytesLt, Bool.or_eq_true, Bool.and_eq_true, decide_eq_true_eq, beq_iff_eq] at h
    simp only [bytesLt, Bool.or_eq_false_iff, Bool.and_eq_false_iff, decide_eq_false_iff_not, beq_eq_false_iff_ne]
    rcases h with h | ⟨h1, h2⟩
    · have hxy : x.toNat < y.toNat := UInt8.lt_iff_toNat_lt.mp h
      refine ⟨fun h' => ?_, Or.inl (fun e => ?_)⟩
      · have := UInt8.lt_iff_toNat_lt.mp h'; omega
      · subst e; omega
    · subst h1
      exact ⟨fun h' => by have := UInt8.lt_iff_toNat_lt.mp h'; omega, Or.inr (bytesLt_asymm xs ys h2)⟩

theorem mapInsert_last (k v : Bytes) (acc : List (Bytes × Bytes)) (h : ∀ e ∈ acc, bytesLt e.1 k = true) :
    mapInsert k v acc = acc ++ [(k, v)] := by
  induction acc with
  | nil => rfl
  | cons e acc ih =>
    have he := h e (by simp)
    have := ih (fun x hx => h x (by simp [hx]))
    simp [mapInsert, bytesLt_asymm _ _ he, he, this]

theorem foldl_mapInsert_sorted (ms acc : List (Bytes × Bytes))
    (h : (acc ++ ms).Pairwise (fun a b => bytesLt a.1 b.1 = true)) :
    ms.foldl (fun a e => mapInsert e.1 e.2 a) acc = acc ++ ms := by
  induction ms generalizing acc with
  | nil => simp
  | cons e ms ih =>
    have hl : ∀ x ∈ acc, bytesLt x.1 e.1 = true := by
      intro x hx
      rw [List.pairwise_append] at h
      exact h.2.2 x hx e (by simp)
    simp only [List.foldl_cons, mapInsert_last _ _ acc hl]
    rw [ih (acc ++ [e]) (by simpa using h)]
    simp

theorem readMetaEntries_append (ms : List (Bytes × Bytes))
    (hl : ∀ e ∈ ms, e.1.length ≤ 255 ∧ e.2.length ≤ 65535) (acc : List (Bytes × Bytes)) (r : Bytes) :
    readMetaEntries ms.length acc (ms.flatMap encMeta ++ r) =
      .ok (ms.foldl (fun a e => mapInsert e.1 e.2 a) acc, r) := by
  induction ms generalizing acc with
  | nil => simp [readMetaEntries]
  | cons e ms ih =>
    have he := hl e (by simp)
    have := ih (fun x hx => hl x (by simp [hx]))
    simp only [List.length_cons, List.flatMap_cons, encMeta, List.cons_append, List.append_assoc, readMetaEntries,
      str8_append _ _ he.1, str16_append _ _ he.2, Res.bind_ok, List.foldl_cons, this]

theorem readMetaSection_append (ms : List (Bytes × Bytes)) (hn : ms.length ≤ 255)
    (hl : ∀ e ∈ ms, e.1.length ≤ 255 ∧ e.2.length ≤ 65535)
    (hs : ms.Pairwise (fun a b => bytesLt a.1 b.1 = true)) (r : Bytes) :
    readMetaSection (u8 ms.length :: (ms.flatMap encMeta ++ r)) = .ok (ms, r) := by
  simp only [readMetaSection, needByte_cons, Res.bind_ok, u8_toNat hn, readMetaEntries_append ms hl]
  rw [foldl_mapInsert_sorted ms [] (by simpa using hs)]
  simp

/-! ### discovery hints -/

theorem readDiscEntry_append (h : DiscoveryHint)
    (hl : (effScheme h).length ≤ 255 ∧ h.transport.length ≤ 255 ∧ h.endpoint.length ≤ 65535) (r : Bytes) :
    readDiscEntry true (encDisc h ++ r) = .ok ({ h with scheme := reportedScheme h }, r) := by
  simp only [readDiscEntry, encDisc, List.cons_append, List.append_assoc, if_true,
    str8_append _ _ hl.1, str8_append _ _ hl.2.1, str16_append _ _ hl.2.2, Res.bind_ok, List.nil_append,
    needByte_cons]
  congr 2
  cases h with
  | mk scheme transport endpoint priority =>
    simp only [effScheme, reportedScheme]
    split <;> simp_all

theorem readDiscEntries_append (hs : List DiscoveryHint)
    (hl : ∀ h ∈ hs, (effScheme h).length ≤ 255 ∧ h.transport.length ≤ 255 ∧ h.endpoint.length ≤ 65535)
    (r : Bytes) :
    readDiscEntries true hs.length (hs.flatMap encDisc ++ r) =
      .ok (hs.map (fun h => { h with scheme := reportedScheme h }), r) := by
  induction hs with
  | nil => simp [readDiscEntries]
  | cons h hs ih =>
    have := ih (fun x hx => hl x (by simp [hx]))
    simp only [List.length_cons, List.flatMap_cons, List.append_assoc, readDiscEntries,
      readDiscEntry_append h (hl h (by simp)), Res.bind_ok, this, List.map_cons]

theorem readDiscSection_append (hs : List DiscoveryHint) (hn : hs.length ≤ 255)
    (hl : ∀ h ∈ hs, (effScheme h).length ≤ 255 ∧ h.transport.length ≤ 255 ∧ h.endpoint.length ≤ 65535)
    (r : Bytes) :
    readDiscSection true (u8 hs.length :: (hs.flatMap encDisc ++ r)) =
      .ok (hs.map (fun h => { h with scheme := reportedScheme h }), r) := by
  simp only [readDiscSection, needByte_cons, Res.bind_ok, u8_toNat hn, readDiscEntries_append hs hl]

/-! ### security assessment -/

theorem readSecurity_append (s : Security) (ha : s.advisory.length ≤ 65535) (hd : s.digest.length = 32) (r : Bytes) :
    readSecurity (encSecurity s ++ r) =
      .ok ({ s with digest := if s.hasDigest then s.digest else List.replicate 32 0 }, r) := by
  cases s with
  | mk advisory digest hasDigest tokenBits =>
    cases hasDigest
    · simp [readSecurity, encSecurity, needByte_cons, str16_append _ _ ha, zeroDigest, digestArraySize]
    · simp only [readSecurity, encSecurity, List.cons_append, List.append_assoc, needByte_cons, Res.bind_ok,
        str16_append _ _ ha, if_true]
      have hd' : digest.length = 32 := hd
      rw [rawTake_append digest r (by simp [digestArraySize, hd'])]
      simp [kAttestationDigestSize, hd']

/-! ### fallback hints -/

theorem readFallbackEntries_append (fs : List FallbackHint) (hl : ∀ f ∈ fs, f.uri.length ≤ 65535) (r : Bytes) :
    readFallbackEntries fs.length (fs.flatMap encFallback ++ r) = .ok (fs, r) := by
  induction fs with
  | nil => simp [readFallbackEntries]
  | cons f fs ih =>
    have := ih (fun x hx => hl x (by simp [hx]))
    simp [readFallbackEntries, encFallback, str16_append _ _ (hl f (by simp)), needByte_cons, this]

theorem readFallbackSection_append (fs : List FallbackHint) (hn : fs.length ≤ 255)
    (hl : ∀ f ∈ fs, f.uri.length ≤ 65535) (r : Bytes) :
    readFallbackSection (u8 fs.length :: (fs.flatMap encFallback ++ r)) = .ok (fs, r) := by
  simp only [readFallbackSection, needByte_cons, Res.bind_ok, u8_toNat hn, readFallbackEntries_append fs hl]

/-! ### header -/

theorem readHeader_append (m : Manifest) (hwf : WF m) (cnt : UInt8) (r : Bytes) :
    readHeader (encHeader m ++ (cnt :: r)) =
      .ok (⟨u8 kManifestVersion, m.chunkId, m.chunkHash, m.nonce,
            Int.tdiv m.expiresNs nsPerSecond * nsPerSecond, m.threshold, m.totalShares, cnt⟩, r) := by
  have h1 := hwf.chunkId
  have h2 := hwf.chunkHash
  have h3 := hwf.nonce
  have hlen : ¬ ((encHeader m ++ (cnt :: r)).length < headerMin) := by
    simp [encHeader, appendU64_length, h1, h2, h3, headerMin, headerMinTerms]; omega
  unfold readHeader
  rw [if_neg hlen]
  simp only [encHeader, List.cons_append, List.append_assoc, rawByte_cons, Res.bind_ok]
  have hv : (!supportedVersions.contains (u8 kManifestVersion).toNat) = false := by decide
  simp only [hv, Bool.false_eq_true, if_false]
  rw [rawTake_append m.chunkId _ (by simp [chunkIdSize, h1])]
  simp only [Res.bind_ok]
  rw [rawTake_append m.chunkHash _ (by simp [chunkHashSize, h2])]
  simp only [Res.bind_ok]
  rw [rawTake_append m.nonce _ (by simp [nonceSize, h3])]
  simp only [Res.bind_ok, expiryField, readExpiry_append hwf.expiry, List.nil_append, rawByte_cons]

/-! ### the encoder's tests accept exactly the representable manifests -/

theorem encodeChecks_iff (m : Manifest) : encodeChecks m = true ↔ Encodable m := by
  simp only [encodeChecks, Encodable, refuseShardCount, refuseMetadataCount, refuseMetadataKey, refuseMetadataValue,
    refuseDiscoveryCount, refuseDiscoveryScheme, refuseDiscoveryTransport, refuseDiscoveryEndpoint,
    refuseFallbackCount, refuseFallbackUri, refuseAdvisory, effScheme, reportedScheme,
    Bool.and_eq_true, Bool.not_eq_true', decide_eq_false_iff_not, List.all_eq_true, Nat.not_lt, gt_iff_lt]
  constructor
  · rintro ⟨⟨⟨⟨⟨⟨⟨a, b⟩, c⟩, d⟩, e⟩, f⟩, g⟩, h⟩
    exact ⟨a, b, c, d, fun x hx => ⟨(e x hx).1.1, (e x hx).1.2, (e x hx).2⟩, f, g, h⟩
  · rintro ⟨a, b, c, d, e, f, g, h⟩
    exact ⟨⟨⟨⟨⟨⟨⟨a, b⟩, c⟩, d⟩, fun x hx => ⟨⟨(e x hx).1, (e x hx).2.1⟩, (e x hx).2.2⟩⟩, f⟩, g⟩, h⟩

end EphVerif.Manifest
