/-
Helper lemmas for C16 and C13: the decoders of `Model/Message.lean` never produce `oob` — every
checked read sits behind a length test that covers it.  Independent of every version constant.
Core Lean only.
-/
import EphVerif.Lemmas.C15Bytes

namespace EphVerif.Message
open EphVerif.Gen.C15

/-! ### no read leaves the input span -/

theorem parseAnnounce_ne_oob (d : Bytes) (pow : Bool) : parseAnnounce d pow ≠ .oob := by
  unfold parseAnnounce
  simp only [kChunkIdSize, kPeerIdSize]
  cases pow <;> simp only [Bool.false_eq_true, if_false, if_true]
  all_goals
    split
    · simp
    · apply chk_rdU32_ne_oob (by omega); intro ttl _
      apply chk_rdU32_ne_oob (by omega); intro el _
      apply chk_rdU32_ne_oob (by omega); intro ml _
      apply chk_rdU32_ne_oob (by omega); intro al _
      split
      · simp
      · apply chk_rd_ne_oob (by omega); intro c _
        apply chk_rd_ne_oob (by omega); intro p _
        apply chk_rd_ne_oob (by omega); intro e _
        apply chk_rd_ne_oob (by omega); intro m _
        apply chk_rd_ne_oob (by omega); intro s _
        first
          | (apply chk_rdU64_ne_oob (by omega); intro n _; simp)
          | simp

theorem decodePayloadV1_ne_oob (t : Nat) (d : Bytes) : decodePayloadV1 t d ≠ .oob := by
  unfold decodePayloadV1
  have hc : kChunkIdSize = 32 := rfl
  have hp : kPeerIdSize = 32 := rfl
  dsimp only
  split
  · exact map_ne_oob (parseAnnounce_ne_oob d false)
  split
  · split
    · simp
    · apply chk_rd_ne_oob (by omega); intro c _
      apply chk_rd_ne_oob (by omega); intro r _
      simp
  split
  · split
    · simp
    · apply chk_rdU32_ne_oob (by omega); intro ttl _
      apply chk_rdU32_ne_oob (by omega); intro dl _
      split
      · simp
      · apply chk_rd_ne_oob (by omega); intro c _
        apply chk_rd_ne_oob (by omega); intro data _
        simp
  split
  · split
    · simp
    · apply chk_rdU8_ne_oob (by omega); intro flag _
      split
      · simp
      · apply chk_rd_ne_oob (by omega); intro c _
        apply chk_rd_ne_oob (by omega); intro p _
        simp
  split
  · split
    · simp
    · apply chk_rdU32_ne_oob (by omega); intro pub _
      apply chk_rdU64_ne_oob (by omega); intro nonce _
      apply chk_rdU8_ne_oob (by omega); intro rv _
      simp
  split
  · split
    · simp
    · apply chk_rdU8_ne_oob (by omega); intro flag _
      split
      · simp
      · apply chk_rdU8_ne_oob (by omega); intro nv _
        apply chk_rdU32_ne_oob (by omega); intro pub _
        simp
  · simp

theorem decode_ne_oob (buf : Bytes) : decode buf ≠ .oob := by
  unfold decode
  split
  · simp
  · apply chk_rdU8_ne_oob (by omega); intro v _
    apply chk_rdU8_ne_oob (by omega); intro t _
    split
    · simp
    · apply map_ne_oob
      split
      · exact map_ne_oob (parseAnnounce_ne_oob _ true)
      · exact decodePayloadV1_ne_oob _ _

theorem decodeSigned_ne_oob (mac : Bytes → Bytes → Bytes) (buf key : Bytes) : decodeSigned mac buf key ≠ .oob := by
  unfold decodeSigned spanFirst spanLast
  have hd : kDigestSize = 32 := rfl
  split
  · simp
  · dsimp only
    rw [if_pos (by omega), if_pos (by omega)]
    simp only [chk_some]
    split
    · simp
    · exact decode_ne_oob _

end EphVerif.Message
