/-
C14 helper lemmas: several sender threads with the per-session send lock.
  * `Merge` facts: membership, every thread's list is a sublist, permutation of all threads' elements;
  * the lock invariant of `Senders.step true`;
  * `run_locked`: when every thread is done, the wire is the concatenation of whole frames in an
    order that is a `Merge` of the threads' call lists.
-/
import EphVerif.Model.Frames

set_option linter.unusedSimpArgs false

namespace EphVerif.Frames

theorem upd_same {α : Type} (f : Nat → α) (i : Nat) (v : α) : upd f i v i = v := by simp [upd]
theorem upd_other {α : Type} (f : Nat → α) (i j : Nat) (v : α) (h : j ≠ i) : upd f i v j = f j := by simp [upd, h]

/-! ### interleavings -/

theorem Merge.mem {α : Type} {t : Nat → List α} {l : List α} (m : Merge t l) : ∀ x ∈ l, ∃ i, x ∈ t i := by
  induction m with
  | nil h => intro x hx; cases hx
  | cons i x rest h m ih =>
    intro y hy
    rcases List.mem_cons.mp hy with rfl | hy
    · exact ⟨i, by rw [h]; exact List.mem_cons_self ..⟩
    · obtain ⟨j, hj⟩ := ih y hy
      by_cases hji : j = i
      · subst hji; rw [upd_same] at hj; exact ⟨j, by rw [h]; exact List.mem_cons_of_mem _ hj⟩
      · rw [upd_other _ _ _ _ hji] at hj; exact ⟨j, hj⟩

/-- each thread's elements appear in the interleaving in that thread's order -/
theorem Merge.sublist {α : Type} {t : Nat → List α} {l : List α} (m : Merge t l) : ∀ j, (t j).Sublist l := by
  induction m with
  | nil h => intro j; rw [h j]; exact List.Sublist.refl _
  | cons i x rest h m ih =>
    intro j
    by_cases hji : j = i
    · subst hji
      have := ih j
      rw [upd_same] at this
      rw [h]; exact this.cons_cons x
    · have := ih j
      rw [upd_other _ _ _ _ hji] at this
      exact this.cons x

theorem flatMap_range_congr {α : Type} (n : Nat) (f g : Nat → List α) (h : ∀ i, i < n → f i = g i) :
    (List.range n).flatMap f = (List.range n).flatMap g := by
  induction n with
  | zero => rfl
  | succ n ih =>
    rw [List.range_succ, List.flatMap_append, List.flatMap_append, ih (fun i hi => h i (by omega))]
    simp [h n (by omega)]

theorem flatMap_range_upd {α : Type} (n : Nat) (t : Nat → List α) (i : Nat) (x : α) (rest : List α) (hi : i < n)
    (h : t i = x :: rest) : ((List.range n).flatMap t).Perm (x :: (List.range n).flatMap (upd t i rest)) := by
  induction n with
  | zero => omega
  | succ n ih =>
    rw [List.range_succ, List.flatMap_append, List.flatMap_append]
    simp only [List.flatMap_cons, List.flatMap_nil, List.append_nil]
    by_cases hin : i = n
    · subst hin
      rw [upd_same, h, flatMap_range_congr i (upd t i rest) t (fun j hj => upd_other _ _ _ _ (by omega))]
      exact List.perm_middle
    · rw [upd_other _ _ _ _ (by omega : n ≠ i)]
      exact (List.Perm.append_right _ (ih (by omega))).trans (by simp)

/-- an interleaving of `n` threads contains exactly the threads' elements, each once -/
theorem Merge.perm {α : Type} {t : Nat → List α} {l : List α} (m : Merge t l) (n : Nat) (hn : ∀ i, n ≤ i → t i = []) :
    l.Perm ((List.range n).flatMap t) := by
  induction m with
  | @nil t' h =>
    have : (List.range n).flatMap t' = ([] : List α) := by
      rw [List.flatMap_eq_nil_iff]; intro i _; exact h i
    rw [this]
  | @cons t' l' i x rest h m ih =>
    have hi : i < n := by
      rcases Nat.lt_or_ge i n with hlt | hge
      · exact hlt
      · have := hn i hge; rw [h] at this; cases this
    have hn' : ∀ j, n ≤ j → upd t' i rest j = [] := by
      intro j hj
      rw [upd_other _ _ _ _ (by omega)]
      exact hn j hj
    exact ((ih hn').cons x).trans (flatMap_range_upd n t' i x rest hi h).symm

/-! ### the send lock -/

/-- with the lock: the owner, and only the owner, is inside `send_all` -/
def LockInv (s : Senders) : Prop :=
  match s.holder with
  | some i => s.cur i ≠ [] ∧ ∀ j, j ≠ i → s.cur j = []
  | none => ∀ j, s.cur j = []

/-- the pieces the lock owner still has to write -/
def inflight (s : Senders) : List Bytes :=
  match s.holder with
  | some i => s.cur i
  | none => []

theorem lockInv_init (calls : Nat → List SendCall) : LockInv (Senders.init calls) := fun _ => rfl

theorem flatten_calls_cons (c : SendCall) (cs : List SendCall) :
    ((c :: cs).map fun c => c.pieces.flatten).flatten = c.pieces.flatten ++ (cs.map fun c => c.pieces.flatten).flatten := rfl

/-- **the lock makes a frame's pieces contiguous**: from any state satisfying the lock invariant, if a
schedule ends with every thread done, the wire is what was there, then the rest of the frame being
written, then whole frames in an order that interleaves the threads' remaining calls -/
theorem run_locked_from (sched : List Nat) (s : Senders) (hinv : LockInv s)
    (hdone : (Senders.run true s sched).Done) :
    ∃ order : List SendCall, Merge s.todo order ∧
      (Senders.run true s sched).wire = s.wire ++ (inflight s).flatten ++ (order.map fun c => c.pieces.flatten).flatten := by
  induction sched generalizing s with
  | nil =>
    refine ⟨[], Merge.nil (fun i => (hdone i).1), ?_⟩
    have hin : inflight s = [] := by
      unfold inflight
      cases hh : s.holder with
      | none => rfl
      | some i => exact (hdone i).2
    simp [Senders.run, hin]
  | cons i sched ih =>
    have hrun : Senders.run true s (i :: sched) = Senders.run true (Senders.step true s i) sched := rfl
    rw [hrun] at hdone ⊢
    cases hcur : s.cur i with
    | cons w ws =>
      -- thread i is inside send_all, hence the owner
      have hown : s.holder = some i := by
        unfold LockInv at hinv
        cases hh : s.holder with
        | none => rw [hh] at hinv; have := hinv i; rw [hcur] at this; cases this
        | some j =>
          rw [hh] at hinv
          by_cases hji : i = j
          · rw [hji]
          · have := hinv.2 i hji; rw [hcur] at this; cases this
      have hstep : Senders.step true s i =
          { s with cur := upd s.cur i ws, wire := s.wire ++ w, holder := if ws.isEmpty then none else s.holder } := by
        unfold Senders.step; rw [hcur]
      have hothers : ∀ j, j ≠ i → s.cur j = [] := by
        unfold LockInv at hinv; rw [hown] at hinv; exact hinv.2
      have hinv' : LockInv (Senders.step true s i) := by
        rw [hstep]
        unfold LockInv
        cases ws with
        | nil =>
          simp only [List.isEmpty_nil, if_true]
          intro j
          by_cases hji : j = i
          · subst hji; exact upd_same _ _ _
          · rw [upd_other _ _ _ _ hji]; exact hothers j hji
        | cons w' ws' =>
          simp only [List.isEmpty_cons, Bool.false_eq_true, if_false, hown]
          refine ⟨by rw [upd_same]; exact List.cons_ne_nil _ _, fun j hji => ?_⟩
          rw [upd_other _ _ _ _ hji]; exact hothers j hji
      obtain ⟨order, hm, hw⟩ := ih _ hinv' hdone
      refine ⟨order, by rw [hstep] at hm; exact hm, ?_⟩
      rw [hw, hstep]
      have hin : inflight s = w :: ws := by unfold inflight; rw [hown]; exact hcur
      have hin' : inflight { s with cur := upd s.cur i ws, wire := s.wire ++ w, holder := if ws.isEmpty then none else s.holder } = ws := by
        unfold inflight
        cases ws with
        | nil => simp
        | cons w' ws' => simp [hown, upd_same]
      rw [hin, hin']
      simp [List.append_assoc]
    | nil =>
      cases htodo : s.todo i with
      | nil =>
        have hstep : Senders.step true s i = s := by unfold Senders.step; rw [hcur, htodo]
        rw [hstep] at hdone ⊢
        exact ih s hinv hdone
      | cons c more =>
        cases hh : s.holder with
        | some j =>
          have hstep : Senders.step true s i = s := by
            unfold Senders.step; rw [hcur, htodo]; simp [hh]
          rw [hstep] at hdone ⊢
          exact ih s hinv hdone
        | none =>
          have hall : ∀ j, s.cur j = [] := by unfold LockInv at hinv; rw [hh] at hinv; exact hinv
          have hin : inflight s = [] := by unfold inflight; rw [hh]
          by_cases hp : c.pieces = []
          · have hstep : Senders.step true s i = { s with todo := upd s.todo i more } := by
              unfold Senders.step; rw [hcur, htodo]; simp [hh, hp]
            have hinv' : LockInv (Senders.step true s i) := by
              rw [hstep]; unfold LockInv; simp only [hh]; exact hall
            obtain ⟨order, hm, hw⟩ := ih _ hinv' hdone
            refine ⟨c :: order, Merge.cons i c more htodo (by rw [hstep] at hm; exact hm), ?_⟩
            rw [hw, hstep]
            have hin' : inflight { s with todo := upd s.todo i more } = [] := by unfold inflight; simp only [hh]
            rw [hin, hin', flatten_calls_cons, hp]
            simp
          · have hstep : Senders.step true s i =
                { s with todo := upd s.todo i more, cur := upd s.cur i c.pieces, holder := some i } := by
              unfold Senders.step; rw [hcur, htodo]; simp [hh, hp]
            have hinv' : LockInv (Senders.step true s i) := by
              rw [hstep]; unfold LockInv
              refine ⟨by show upd s.cur i c.pieces i ≠ []; rw [upd_same]; exact hp, fun j hji => ?_⟩
              show upd s.cur i c.pieces j = []
              rw [upd_other _ _ _ _ hji]; exact hall j
            obtain ⟨order, hm, hw⟩ := ih _ hinv' hdone
            refine ⟨c :: order, Merge.cons i c more htodo (by rw [hstep] at hm; exact hm), ?_⟩
            rw [hw, hstep]
            have hin' : inflight { s with todo := upd s.todo i more, cur := upd s.cur i c.pieces, holder := some i } = c.pieces := by
              unfold inflight; simp only; exact upd_same _ _ _
            rw [hin, hin', flatten_calls_cons]
            simp [List.append_assoc]

/-- from the start: the wire is the concatenation of whole frames, in an order interleaving the threads' calls -/
theorem run_locked (calls : Nat → List SendCall) (sched : List Nat)
    (hdone : (Senders.run true (Senders.init calls) sched).Done) :
    ∃ order : List SendCall, Merge calls order ∧
      (Senders.run true (Senders.init calls) sched).wire = (order.map fun c => c.pieces.flatten).flatten := by
  obtain ⟨order, hm, hw⟩ := run_locked_from sched (Senders.init calls) (lockInv_init calls) hdone
  exact ⟨order, hm, by rw [hw]; simp [Senders.init, inflight]⟩

end EphVerif.Frames
