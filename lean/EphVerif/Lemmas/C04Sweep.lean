/-
File-system effect of `sweep_expired` and of the start-up purge (C04).
-/
import EphVerif.Lemmas.C04FS

namespace EphVerif.ChunkStore

/-- does the sweep at `now` wipe the file of this record? -/
def wiped (cfg : Cfg) (now : Int) (r : Rec) : Bool := expiredSweep now r.expires && r.persisted && cfg.wipeOnExpiry

theorem sweepOps_cons (cfg : Cfg) (now : Int) (id : String) (r : Rec) (rest : Recs) (fs : FS) :
    sweepOps cfg now ((id, r) :: rest) fs =
      if wiped cfg now r then
        wipeOps cfg fs (.chunk id) ++ sweepOps cfg now rest (applyOps fs (wipeOps cfg fs (.chunk id)))
      else sweepOps cfg now rest fs := by
  simp [sweepOps, wiped]

theorem sweepOps_touches_chunks (cfg : Cfg) (now : Int) (recs : Recs) (fs : FS) :
    ∀ o ∈ sweepOps cfg now recs fs, ∃ id, touchesOnly (.chunk id) o := by
  induction recs generalizing fs with
  | nil => intro o h; simp [sweepOps] at h
  | cons e rest ih =>
    obtain ⟨id, r⟩ := e
    intro o h
    rw [sweepOps_cons] at h
    split at h
    · rcases List.mem_append.mp h with h | h
      · exact ⟨id, wipeOps_touches _ _ _ o h⟩
      · exact ih _ o h
    · exact ih _ o h

/-- a file the sweep does not wipe is untouched -/
theorem sweepOps_keep (cfg : Cfg) (now : Int) (recs : Recs) (fs : FS) (q : Name)
    (h : ∀ id r, (id, r) ∈ recs → wiped cfg now r = true → Name.chunk id ≠ q) :
    aget (applyOps fs (sweepOps cfg now recs fs)) q = aget fs q := by
  induction recs generalizing fs with
  | nil => rfl
  | cons e rest ih =>
    obtain ⟨id, r⟩ := e
    rw [sweepOps_cons]
    have hrest : ∀ id r, (id, r) ∈ rest → wiped cfg now r = true → Name.chunk id ≠ q :=
      fun i r' hm hw => h i r' (List.mem_cons_of_mem _ hm) hw
    split
    · rename_i hw
      rw [applyOps_append, ih _ hrest, wipeOps_other _ _ (h id r List.mem_cons_self hw)]
    · exact ih _ hrest

/-- a file the sweep wipes is gone afterwards -/
theorem sweepOps_gone (cfg : Cfg) (now : Int) (recs : Recs) (hu : Uniq recs) (fs : FS) (id : String) (r : Rec)
    (hm : (id, r) ∈ recs) (hw : wiped cfg now r = true) :
    aget (applyOps fs (sweepOps cfg now recs fs)) (.chunk id) = none := by
  induction recs generalizing fs with
  | nil => simp at hm
  | cons e rest ih =>
    obtain ⟨id', r'⟩ := e
    have hu' := List.pairwise_cons.mp hu
    rw [sweepOps_cons]
    rcases List.mem_cons.mp hm with hm | hm
    · cases hm
      simp only [hw, if_true]
      rw [applyOps_append, sweepOps_keep]
      · exact wipeOps_self _ _ _
      · intro i r'' hmi _ heq
        cases heq
        exact hu'.1 _ hmi rfl
    · split
      · rw [applyOps_append]; exact ih hu'.2 _ hm
      · exact ih hu'.2 _ hm

/-- non-chunk directory entries are never touched by a sweep (or any prefix of it) -/
theorem ops_other_untouched {ops : List FsOp} (h : ∀ o ∈ ops, ∃ id, touchesOnly (.chunk id) o) (fs : FS) (n : String) :
    aget (applyOps fs ops) (.other n) = aget fs (.other n) := by
  induction ops generalizing fs with
  | nil => rfl
  | cons o r ih =>
    rw [applyOps_cons, ih (fun o' ho' => h o' (List.mem_cons_of_mem _ ho'))]
    obtain ⟨id, ht⟩ := h o List.mem_cons_self
    exact applyOp_other (by simp) fs ht

theorem purgeOps_cons (cfg : Cfg) (p : Name) (rest : List Name) (fs : FS) :
    purgeOps cfg (p :: rest) fs =
      if p.isChunk then wipeOps cfg fs p ++ purgeOps cfg rest (applyOps fs (wipeOps cfg fs p))
      else purgeOps cfg rest fs := by
  simp [purgeOps]

theorem purgeOps_touches_chunks (cfg : Cfg) (names : List Name) (fs : FS) :
    ∀ o ∈ purgeOps cfg names fs, ∃ id, touchesOnly (.chunk id) o := by
  induction names generalizing fs with
  | nil => intro o h; simp [purgeOps] at h
  | cons p rest ih =>
    intro o h
    rw [purgeOps_cons] at h
    split at h
    · rename_i hc
      rcases List.mem_append.mp h with h | h
      · cases p with
        | chunk id => exact ⟨id, wipeOps_touches _ _ _ o h⟩
        | other n => simp [Name.isChunk] at hc
      · exact ih _ o h
    · exact ih _ o h

theorem purgeOps_keep (cfg : Cfg) (names : List Name) (fs : FS) (q : Name) (h : q ∉ names ∨ q.isChunk = false) :
    aget (applyOps fs (purgeOps cfg names fs)) q = aget fs q := by
  induction names generalizing fs with
  | nil => rfl
  | cons p rest ih =>
    rw [purgeOps_cons]
    have hrest : q ∉ rest ∨ q.isChunk = false := by
      rcases h with h | h
      · exact Or.inl (fun hm => h (List.mem_cons_of_mem _ hm))
      · exact Or.inr h
    split
    · rename_i hc
      have hpq : p ≠ q := by
        rcases h with h | h
        · intro heq; exact h (by simp [heq])
        · intro heq; rw [heq, h] at hc; cases hc
      rw [applyOps_append, ih _ hrest, wipeOps_other _ _ hpq]
    · exact ih _ hrest

theorem purgeOps_gone (cfg : Cfg) (names : List Name) (fs : FS) (q : Name) (hm : q ∈ names) (hc : q.isChunk = true) :
    aget (applyOps fs (purgeOps cfg names fs)) q = none := by
  induction names generalizing fs with
  | nil => simp at hm
  | cons p rest ih =>
    rw [purgeOps_cons]
    by_cases hpq : p = q
    · subst hpq
      simp only [hc, if_true]
      rw [applyOps_append]
      by_cases hin : p ∈ rest
      · exact ih _ hin
      · rw [purgeOps_keep _ _ _ _ (Or.inl hin)]; exact wipeOps_self _ _ _
    · have hin : q ∈ rest := by
        rcases List.mem_cons.mp hm with h | h
        · exact absurd h.symm hpq
        · exact h
      split
      · rw [applyOps_append]; exact ih _ hin
      · exact ih _ hin

theorem mem_names_of_aget {fs : FS} {q : Name} {bs : Bytes} (h : aget fs q = some bs) : q ∈ fs.map (·.1) :=
  List.mem_map.mpr ⟨(q, bs), mem_of_aget h, rfl⟩

/-- **start-up leaves no chunk file** (for any directory content whatsoever) -/
theorem boot_no_chunk (cfg : Cfg) (hp : cfg.persistent = true) (hw : cfg.wipeOnExpiry = true) (fs : FS) (id : String) :
    aget (boot cfg fs).fs (.chunk id) = none := by
  simp only [boot, ctorOps, hp, hw, Bool.and_self, if_true]
  by_cases hm : Name.chunk id ∈ fs.map (·.1)
  · exact purgeOps_gone _ _ _ _ hm rfl
  · rw [purgeOps_keep _ _ _ _ (Or.inl hm)]
    cases hg : aget fs (.chunk id) with
    | none => rfl
    | some bs => exact absurd (mem_names_of_aget hg) hm

theorem boot_other (cfg : Cfg) (fs : FS) (n : String) : aget (boot cfg fs).fs (.other n) = aget fs (.other n) := by
  simp only [boot, ctorOps]
  split
  · exact purgeOps_keep _ _ _ _ (Or.inr rfl)
  · rfl

end EphVerif.ChunkStore
