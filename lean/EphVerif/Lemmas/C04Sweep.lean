/-
File-system effect of `sweep_expired` and of the start-up purge, with I/O errors (C04).
-/
import EphVerif.Lemmas.C04FS

namespace EphVerif.ChunkStore

/-- operations that touch chunk files only leave every other directory entry alone -/
theorem ops_other_untouched {ops : List FsOp} (h : ∀ o ∈ ops, ∃ id, touchesOnly (.chunk id) o) (fs : FS) (n : String) :
    aget (applyOps fs ops) (.other n) = aget fs (.other n) := by
  apply applyOps_untouched
  intro o ho
  obtain ⟨id, ht⟩ := h o ho
  exact ⟨.chunk id, by simp, ht⟩

theorem wipeAllF_chunks (cfg : Cfg) (φ : Faults) (names : List Name) (fs : FS) (n : Nat)
    (hc : ∀ q ∈ names, q.isChunk = true) :
    ∀ o ∈ (wipeAllF cfg φ names fs n).1, ∃ id, touchesOnly (.chunk id) o := by
  intro o ho
  obtain ⟨⟨p, hp, ht⟩, _⟩ := wipeAllF_ops cfg φ names fs n o ho
  cases p with
  | chunk id => exact ⟨id, ht⟩
  | other m => have := hc _ hp; simp [Name.isChunk] at this

theorem purgeNames_chunk (cfg : Cfg) (fs : FS) : ∀ q ∈ purgeNames cfg fs, q.isChunk = true := by
  intro q hq
  simp only [purgeNames] at hq
  split at hq
  · exact (List.mem_filter.mp hq).2
  · simp at hq

theorem sweepNames_chunk (cfg : Cfg) (now : Int) (s : Recs) (pend : List Name) (hp : ∀ q ∈ pend, q.isChunk = true) :
    ∀ q ∈ sweepNames cfg now s pend, q.isChunk = true := by
  intro q hq
  simp only [sweepNames, List.mem_append, List.mem_map] at hq
  rcases hq with hq | ⟨e, _, rfl⟩
  · exact hp q hq
  · rfl

theorem mem_names_of_aget {fs : FS} {q : Name} {bs : Bytes} (h : aget fs q = some bs) : q ∈ fs.map (·.1) :=
  List.mem_map.mpr ⟨(q, bs), mem_of_aget h, rfl⟩

/-- after a start-up (with any I/O errors) a chunk file that is still there is owed a wipe -/
theorem bootF_chunk (cfg : Cfg) (hp : cfg.persistent = true) (hw : cfg.wipeOnExpiry = true) (φ : Faults) (fs : FS)
    (id : String) (c : Bytes) (h : aget (bootF cfg φ fs).fs (.chunk id) = some c) :
    Name.chunk id ∈ (bootF cfg φ fs).pending := by
  simp only [bootF] at h ⊢
  by_cases hm : Name.chunk id ∈ purgeNames cfg fs
  · cases hf : decide (Name.chunk id ∈ (wipeAllF cfg φ (purgeNames cfg fs) fs 0).2.2) with
    | true => exact of_decide_eq_true hf
    | false =>
      have := wipeAllF_gone cfg φ _ fs 0 _ hm (of_decide_eq_false hf)
      rw [this] at h; cases h
  · rw [wipeAllF_keep _ _ _ _ _ _ hm] at h
    exfalso; apply hm
    simp only [purgeNames, hp, hw, Bool.and_self, if_true]
    exact List.mem_filter.mpr ⟨mem_names_of_aget h, rfl⟩

/-- **a start-up without I/O errors leaves no chunk file** (for any directory content whatsoever) -/
theorem boot_no_chunk (cfg : Cfg) (hp : cfg.persistent = true) (hw : cfg.wipeOnExpiry = true) (fs : FS) (id : String) :
    aget (boot cfg fs).fs (.chunk id) = none ∧ (boot cfg fs).pending = [] := by
  have hpend : (boot cfg fs).pending = [] := by simp [boot, bootF, wipeAllF_nofault]
  refine ⟨?_, hpend⟩
  cases hg : aget (boot cfg fs).fs (.chunk id) with
  | none => rfl
  | some c =>
    have := bootF_chunk cfg hp hw [] fs id c hg
    simp only [boot] at hpend
    rw [hpend] at this; cases this

theorem bootF_other (cfg : Cfg) (φ : Faults) (fs : FS) (n : String) : aget (bootF cfg φ fs).fs (.other n) = aget fs (.other n) :=
  ops_other_untouched (wipeAllF_chunks cfg φ _ fs 0 (purgeNames_chunk cfg fs)) fs n

theorem bootF_pending_chunk (cfg : Cfg) (φ : Faults) (fs : FS) : ∀ q ∈ (bootF cfg φ fs).pending, q.isChunk = true :=
  fun q hq => purgeNames_chunk cfg fs q (wipeAllF_failed_sub cfg φ _ fs 0 q hq)

end EphVerif.ChunkStore
