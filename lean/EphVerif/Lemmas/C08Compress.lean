/-
C08 helper lemmas, part 1: the generated tables equal the specification's, and the model's
`transform` / `digestOf` are the specification's `compress` / `digestBytes`.
-/
import EphVerif.Model.Sha256
import EphVerif.Spec.Sha256

namespace EphVerif.C08
open EphVerif.Model.Sha256
open EphVerif.Spec.Sha256

/-- view of the model's `state_` as a FIPS hash value -/
def toSpec (w : Words8) : Hash := ⟨w.s0, w.s1, w.s2, w.s3, w.s4, w.s5, w.s6, w.s7⟩

theorem gen_K : Gen.C08.kRoundConstants = K := by decide
theorem gen_H0 : toSpec (Words8.ofList Gen.C08.initState) = H0 := by decide
theorem gen_blockSize : Gen.C08.blockSize = 64 := rfl
theorem gen_spaceBase : Gen.C08.spaceBase = 64 := rfl
theorem gen_terminator : Gen.C08.terminator = 0x80 := rfl
theorem gen_padThreshold : Gen.C08.padThreshold = 56 := rfl
theorem gen_lengthOffset : Gen.C08.lengthOffset = 56 := rfl
theorem gen_lengthOffset2 : Gen.C08.lengthOffset2 = 56 := rfl
theorem gen_lengthTopByte : Gen.C08.lengthTopByte = 7 := rfl
theorem gen_bitsPerByte : Gen.C08.bitsPerByte = 8 := rfl
theorem gen_hmacBlockSize : Gen.C08.hmacBlockSize = 64 := rfl
theorem gen_hmacDigestSize : Gen.C08.hmacDigestSize = 32 := rfl
theorem gen_opad : Gen.C08.opad = 0x5c := rfl
theorem gen_ipad : Gen.C08.ipad = 0x36 := rfl

/-- the generated rotation / shift amounts are those of FIPS 180-4 (4.4)–(4.7) -/
theorem gen_sigma :
    Gen.C08.big_sigma0 = (2, 13, 22) ∧ Gen.C08.big_sigma1 = (6, 11, 25) ∧
    Gen.C08.small_sigma0 = (7, 18, 3) ∧ Gen.C08.small_sigma1 = (17, 19, 10) := by decide

theorem rotr_eq (x n : UInt32) : rotr x n = ROTR n x := rfl
theorem ch_eq (x y z : UInt32) : ch x y z = Ch x y z := rfl
theorem maj_eq (x y z : UInt32) : maj x y z = Maj x y z := rfl
theorem bigSigma0_eq (x : UInt32) : Model.Sha256.bigSigma0 x = Spec.Sha256.bigSigma0 x := rfl
theorem bigSigma1_eq (x : UInt32) : Model.Sha256.bigSigma1 x = Spec.Sha256.bigSigma1 x := rfl
theorem smallSigma0_eq (x : UInt32) : Model.Sha256.smallSigma0 x = Spec.Sha256.smallSigma0 x := rfl
theorem smallSigma1_eq (x : UInt32) : Model.Sha256.smallSigma1 x = Spec.Sha256.smallSigma1 x := rfl

theorem readWords_eq (b : List UInt8) : readWords b = words b := by
  fun_induction readWords b with
  | case1 d0 d1 d2 d3 rest ih => simp only [words, ih]; rfl
  | case2 b h =>
    unfold words
    split
    · exact absurd rfl (h _ _ _ _ _)
    · rfl

theorem repeat_succ_comm {α : Type} (f : α → α) (n : Nat) (a : α) :
    Nat.repeat f (n + 1) a = Nat.repeat f n (f a) := by
  induction n with
  | zero => rfl
  | succ n ih => simp only [Nat.repeat] at ih ⊢; rw [ih]

theorem fillSchedule_eq (n : Nat) (s : List UInt32) : fillSchedule n s = Nat.repeat scheduleStep n s := by
  induction n generalizing s with
  | zero => rfl
  | succ n ih =>
    rw [repeat_succ_comm, fillSchedule, ih]
    simp only [scheduleStep, smallSigma0_eq, smallSigma1_eq]

theorem roundStep_eq (v : Words8) (k w : UInt32) : toSpec (roundStep v k w) = round (toSpec v) k w := rfl

theorem roundsLoop_eq (v : Words8) (ks ws : List UInt32) :
    toSpec (roundsLoop v ks ws) = rounds (toSpec v) ks ws := by
  fun_induction roundsLoop v ks ws with
  | case1 v k ks w ws ih => rw [ih, roundStep_eq, rounds]
  | case2 v ks ws h =>
    unfold rounds
    split
    · exact (h _ _ _ _ rfl rfl).elim
    · rfl

/-- `Sha256::transform` is the FIPS 180-4 §6.2.2 block computation -/
theorem transform_eq (st : Words8) (block : List UInt8) :
    toSpec (transform st block) = compress (toSpec st) block := by
  have h := roundsLoop_eq st K (schedule (words block))
  simp only [transform, compress, gen_K, gen_blockSize, fillSchedule_eq, readWords_eq, schedule] at h ⊢
  rw [← h]
  simp only [toSpec, addHash, UInt32.add_comm]

theorem and_ff_toUInt8 (v : UInt32) : (v &&& 0xFF).toUInt8 = v.toUInt8 := by
  rw [UInt32.toUInt8_and]
  have : (0xFF : UInt32).toUInt8 = -1 := by decide
  rw [this, UInt8.and_neg_one]

theorem writeBe32_eq (v : UInt32) : writeBe32 v = bytes32 v := by
  simp only [writeBe32, bytes32, and_ff_toUInt8]

theorem digestOf_eq (st : Words8) : digestOf st = digestBytes (toSpec st) := by
  simp only [digestOf, digestBytes, Words8.toList, List.flatMap_cons, List.flatMap_nil, writeBe32_eq, toSpec,
    List.append_nil, List.append_assoc]

end EphVerif.C08
